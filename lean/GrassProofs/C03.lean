import Grass.Scope
import Grass.Eval
import GrassProofs.Lemmas.Scope
import GrassProofs.Lemmas.Eval
import GrassProofs.Lemmas.EvalScope
import GrassProofs.Lemmas.EvalSem
import GrassProofs.Lemmas.EvalUnits
/-
  C03 — SassScript evaluation follows the language scoping and control-flow rules.

  Part 1 (this section): CACHE TRANSPARENCY.  grass's `Scopes` (Grass/Scope.lean, written from
  evaluate/scope.rs, env.rs:341 and the environment switches of visitor.rs) answers every variable
  lookup exactly as the cache-free specification `stepSpec` does, for every sequence of
  operations: scope entry/exit, loop/argument bindings, plain / semi-global / `!global`
  assignment, lookups, closure creation, closure calls, `for_import` switches and returns.
  All theorems are about `Cfg.now` (the code as it stands).  The `C03_asFound_…` theorems at the
  end show that each of the two variants found on tree 8539e4d (defect D3) violates the
  refinement, with the concrete traces.
-/
namespace Grass.Scope

/-- Structural well-formedness of one environment w.r.t. the heap (grass asserts the first clause
    with `debug_assert_eq!(self.len(), variables.len())` in every method). -/
structure Scopes.WF (h : Heap) (s : Scopes) : Prop where
  len_eq : s.len = s.vars.length
  ne : s.vars ≠ []
  valid : ∀ f ∈ s.vars, f < h.length
  nodup : s.vars.Nodup

/-- The cache invariant: a cached `(name, index)` is what a full scan would find — frame `index`
    holds the name and no frame above it does. -/
def CacheOk (h : Heap) (s : Scopes) : Prop :=
  ∀ m i, s.cache = some (m, i) → find h s.vars m = some i

/-- The invariant is local to the running environment: suspended and stored environments only
    need to be well-formed, because their cache is discarded whenever they are resumed/called. -/
structure Inv (w : World) : Prop where
  cur_wf : w.cur.WF w.heap
  cur_cache : CacheOk w.heap w.cur
  saved_wf : ∀ s ∈ w.saved, s.WF w.heap
  clos_wf : ∀ s ∈ w.closures, s.WF w.heap

theorem Scopes.WF.mono {h h' : Heap} {s : Scopes} (hl : h.length ≤ h'.length) (w : s.WF h) : s.WF h' :=
  ⟨w.len_eq, w.ne, fun f hf => Nat.lt_of_lt_of_le (w.valid f hf) hl, w.nodup⟩

theorem wfB_iff (h : Heap) (s : Scopes) : s.wfB h = true ↔ s.WF h := by
  unfold Scopes.wfB
  constructor
  · intro hb
    simp only [Bool.and_eq_true, beq_iff_eq, Bool.not_eq_true', List.isEmpty_eq_false_iff,
      List.all_eq_true, decide_eq_true_eq] at hb
    exact ⟨hb.1.1.1, hb.1.1.2, hb.1.2, hb.2⟩
  · intro w
    simp only [Bool.and_eq_true, beq_iff_eq, Bool.not_eq_true', List.isEmpty_eq_false_iff,
      List.all_eq_true, decide_eq_true_eq]
    exact ⟨⟨⟨w.len_eq, w.ne⟩, w.valid⟩, w.nodup⟩

theorem cacheOkB_iff (h : Heap) (s : Scopes) : s.cacheOkB h = true ↔ CacheOk h s := by
  unfold Scopes.cacheOkB CacheOk
  cases hc : s.cache with
  | none => simp
  | some p =>
    obtain ⟨m, i⟩ := p
    simp only [beq_iff_eq, Option.some.injEq, Prod.mk.injEq, and_imp]
    constructor
    · intro e m' i' h1 h2; subst h1; subst h2; exact e
    · intro e; exact e m i rfl rfl

/-- The decidable form of the invariant that the driver evaluates after every step is the same
    predicate. -/
theorem C03_invB_iff (w : World) : invB w = true ↔ Inv w := by
  unfold invB
  simp only [Bool.and_eq_true, List.all_eq_true, wfB_iff, cacheOkB_iff]
  constructor
  · rintro ⟨⟨⟨a, b⟩, c⟩, d⟩; exact ⟨a, b, c, d⟩
  · rintro ⟨a, b, c, d⟩; exact ⟨⟨⟨a, b⟩, c⟩, d⟩

/-- The initial world (one empty global frame, no cache) satisfies the invariant. -/
theorem C03_inv_init : Inv World.init := by
  rw [← C03_invB_iff]; decide

/-! ### `find_var` and `get_var` under the invariant -/

theorem findVar_fst (h : Heap) (s : Scopes) (n : Name) (hc : CacheOk h s) :
    (findVar h s n).1 = find h s.vars n := by
  unfold findVar
  cases hcache : s.cache with
  | none => simp only []; cases find h s.vars n <;> rfl
  | some p =>
    obtain ⟨m, i⟩ := p
    simp only []
    by_cases e : (m == n) = true
    · simp only [e, if_true]
      have : m = n := by simpa using e
      subst this
      exact (hc m i hcache).symm
    · simp only [e]
      cases find h s.vars n <;> rfl

theorem findVar_snd_vars (h : Heap) (s : Scopes) (n : Name) :
    (findVar h s n).2.vars = s.vars ∧ (findVar h s n).2.len = s.len := by
  unfold findVar
  cases s.cache with
  | none => simp only []; cases find h s.vars n <;> simp
  | some p =>
    obtain ⟨m, i⟩ := p
    simp only []
    by_cases e : (m == n) = true
    · simp [e]
    · simp only [e]; cases find h s.vars n <;> simp

/-- Lookup through the cache = the cache-free specification lookup, and the cache stays valid. -/
theorem getVar_spec (h : Heap) (s : Scopes) (n : Name) (hc : CacheOk h s) :
    (getVar h s n).1 = lookupSpec h s.vars n ∧ (getVar h s n).2.vars = s.vars ∧
    (getVar h s n).2.len = s.len ∧ CacheOk h (getVar h s n).2 := by
  have scan : ∀ (o : Out × Scopes),
      o = (match find h s.vars n with
        | some i =>
          match frameAt s.vars i with
          | some fid =>
            match getAt h fid n with
            | some v => (Out.val v, { s with cache := some (n, i) })
            | none => (.panic, s)
          | none => (.panic, s)
        | none => (.undefined, s)) →
      o.1 = lookupSpec h s.vars n ∧ o.2.vars = s.vars ∧ o.2.len = s.len ∧ CacheOk h o.2 := by
    intro o ho
    cases hf : find h s.vars n with
    | none =>
      rw [hf] at ho; subst ho
      exact ⟨(lookupSpec_none h s.vars n hf).symm, rfl, rfl, hc⟩
    | some i =>
      rw [hf] at ho
      obtain ⟨fid, h1, _⟩ := find_frameAt h s.vars n i hf
      obtain ⟨v, h3, h4⟩ := lookupSpec_some h s.vars n i fid hf h1
      simp only [h1, h3] at ho; subst ho
      refine ⟨h4.symm, rfl, rfl, ?_⟩
      intro m j e
      simp only [Option.some.injEq, Prod.mk.injEq] at e
      obtain ⟨rfl, rfl⟩ := e
      exact hf
  unfold getVar
  cases hcache : s.cache with
  | none => exact scan _ rfl
  | some p =>
    obtain ⟨m, i⟩ := p
    simp only []
    by_cases e : (m == n) = true
    · simp only [e, if_true]
      have : m = n := by simpa using e
      subst this
      have hf := hc m i hcache
      obtain ⟨fid, h1, _⟩ := find_frameAt h s.vars m i hf
      obtain ⟨v, h3, h4⟩ := lookupSpec_some h s.vars m i fid hf h1
      simp only [h1, h3]
      exact ⟨h4.symm, by trivial, by trivial, hc⟩
    · simp only [e]
      exact scan _ rfl

/-! ### one step: simulation and invariant preservation -/

theorem frameAt_last_of_wf {h : Heap} {s : Scopes} (w : s.WF h) :
    ∃ g gs, s.vars = g :: gs ∧ s.len - 1 = gs.length ∧ frameAt s.vars (s.len - 1) = some g := by
  have hne := w.ne
  cases hv : s.vars with
  | nil => exact absurd hv hne
  | cons g gs =>
    have hl := w.len_eq
    rw [hv] at hl
    simp at hl
    refine ⟨g, gs, rfl, by omega, ?_⟩
    have : s.len - 1 = gs.length := by omega
    rw [this]; exact frameAt_top g gs

/-- Everything `envInsertVar` does, under the invariant: it succeeds, writes exactly the frame the
    specification names, keeps `vars`/`len`, and leaves a valid cache. -/
theorem envInsertVar_spec (h : Heap) (s : Scopes) (n : Name) (v : Val) (isGlobal semi : Bool)
    (w : s.WF h) (hc : CacheOk h s) :
    ∃ fid s', targetSpec h s.vars n isGlobal semi = some fid ∧ fid < h.length ∧
      envInsertVar h s n v isGlobal semi = some (putAt h fid n v, s') ∧
      s'.vars = s.vars ∧ s'.len = s.len ∧ CacheOk (putAt h fid n v) s' := by
  obtain ⟨g, gs, hv, hlast, hfl⟩ := frameAt_last_of_wf w
  have hlen := w.len_eq
  -- the global frame
  obtain ⟨g0, hg0⟩ := frameAt_of_lt s.vars 0 (by rw [hv]; simp)
  have hg0m := frameAt_mem _ _ _ hg0
  have hg0v := w.valid g0 hg0m
  have hglob : s.vars.getLast? = some g0 := by rw [← frameAt_zero]; exact hg0
  unfold envInsertVar targetSpec
  by_cases hgl : (isGlobal || s.len == 1) = true
  · -- `!global` or at the root: frame 0, cache untouched
    have hgl' : (isGlobal || s.vars.length == 1) = true := by rw [← hlen]; exact hgl
    simp only [hgl, hgl', if_true, insertVar, hg0]
    refine ⟨g0, s, hglob, hg0v, rfl, rfl, rfl, ?_⟩
    intro m i e
    have hf := hc m i e
    by_cases hm : m = n
    · subst hm
      exact find_putAt_below h g0 m v hg0v s.vars i 0 w.nodup hf hg0 (Nat.zero_le _)
    · rw [find_putAt_other h g0 n m v s.vars hg0v hm]; exact hf
  · have hgl' : ¬ (isGlobal || s.vars.length == 1) = true := by rw [← hlen]; exact hgl
    simp only [hgl, hgl']
    have hfst := findVar_fst h s n hc
    obtain ⟨hsv, hsl⟩ := findVar_snd_vars h s n
    have hlen2 : 2 ≤ s.len := by
      have : s.len ≠ 1 := by
        intro e; apply hgl; simp [e]
      have : s.len ≠ 0 := by rw [hlen, hv]; simp
      omega
    rw [hfst, hsl]
    have hhead : s.vars.head? = some g := by rw [hv]; rfl
    have hgv : g < h.length := w.valid g (by rw [hv]; simp)
    have top_case : ∀ (vars' : List Nat) (len' : Nat), vars' = s.vars →
        CacheOk (putAt h g n v) ⟨vars', len', some (n, s.len - 1)⟩ := by
      intro vars' len' hs' m i e
      simp only [Option.some.injEq, Prod.mk.injEq] at e
      obtain ⟨rfl, rfl⟩ := e
      show find _ vars' _ = _
      rw [hs', hv, hlast]
      exact find_putAt_top h g n v gs hgv
    cases hf : find h s.vars n with
    | none =>
      have hidx : (if (!semi && (s.len - 1 == 0)) = true then s.len - 1 else s.len - 1) = s.len - 1 := by
        split <;> rfl
      simp only [hidx, insertVar, hsv, hfl]
      exact ⟨g, _, hhead, hgv, rfl, by simp, by simp, top_case _ _ (by simp)⟩
    | some i =>
      simp only []
      by_cases hi : i = 0
      · subst hi
        cases semi with
        | false =>
          simp only [Bool.not_false, beq_self_eq_true, Bool.and_self, if_true, insertVar, hsv, hfl,
            Bool.false_eq_true, if_false]
          exact ⟨g, _, hhead, hgv, rfl, by simp, by simp, top_case _ _ (by simp)⟩
        | true =>
          simp only [Bool.not_true, Bool.false_and, Bool.false_eq_true, if_false, insertVar, hsv, hg0,
            beq_self_eq_true, if_true]
          refine ⟨g0, _, hglob, hg0v, rfl, by simp, by simp, ?_⟩
          intro m j e
          simp only [Option.some.injEq, Prod.mk.injEq] at e
          obtain ⟨rfl, rfl⟩ := e
          show find _ s.vars _ = _
          exact find_putAt_below h g0 n v hg0v s.vars 0 0 w.nodup hf hg0 (Nat.le_refl _)
      · obtain ⟨fid, hfa, _⟩ := find_frameAt h s.vars n i hf
        have hfv := w.valid fid (frameAt_mem _ _ _ hfa)
        have hbeq : (i == 0) = false := by simpa using hi
        simp only [hbeq, Bool.and_false, Bool.false_eq_true, if_false, insertVar, hsv, hfa]
        refine ⟨fid, _, rfl, hfv, rfl, by simp, by simp, ?_⟩
        intro m j e
        simp only [Option.some.injEq, Prod.mk.injEq] at e
        obtain ⟨rfl, rfl⟩ := e
        show find _ s.vars _ = _
        exact find_putAt_below h fid n v hfv s.vars i i w.nodup hf hfa (Nat.le_refl _)

theorem putAt_wf {h : Heap} {s : Scopes} (fid n v) (w : s.WF h) : s.WF (putAt h fid n v) :=
  w.mono (by rw [putAt_length]; exact Nat.le_refl _)

/-- One step of the cached machine is one step of the specification on the erased world, with the
    same output. -/
theorem step_sim (w : World) (op : Op) (hi : Inv w) :
    stepSpec (erase w) op = (erase (step .now w op).1, (step .now w op).2) := by
  obtain ⟨cw, cc, sw, clw⟩ := hi
  cases op with
  | enter => simp [step, stepSpec, erase, enter]
  | exit =>
    have hl := cw.len_eq
    simp only [step, stepSpec, erase, exit]
    rw [hl]
    by_cases hle : w.cur.vars.length ≤ 1 <;> simp [hle]
  | insertLast n v =>
    obtain ⟨g, gs, hv, hlast, hfl⟩ := frameAt_last_of_wf cw
    have hl0 : w.cur.len ≠ 0 := by rw [cw.len_eq, hv]; simp
    simp only [step, stepSpec, erase, insertVarLast, hl0, if_false, insertVar, hfl]
    simp [hv]
  | assign n v semi =>
    obtain ⟨fid, s', h1, _, h3, h4, _, _⟩ := envInsertVar_spec w.heap w.cur n v false semi cw cc
    simp only [step, stepSpec, erase, h1, h3, h4]
  | assignGlobal n v =>
    obtain ⟨fid, s', h1, _, h3, h4, _, _⟩ := envInsertVar_spec w.heap w.cur n v true false cw cc
    simp only [step, stepSpec, erase, h1, h3, h4]
  | lookup n =>
    obtain ⟨h1, h2, _, _⟩ := getVar_spec w.heap w.cur n cc
    simp only [step, stepSpec, erase]
    rw [← h1, h2]
  | closure => simp [step, stepSpec, erase, Scopes.newClosure]
  | call k =>
    simp only [step, stepSpec, erase, List.getElem?_map]
    cases w.closures[k]? <;> simp [Scopes.newClosure]
  | imp => simp [step, stepSpec, erase, Scopes.newClosure]
  | ret =>
    simp only [step, stepSpec, erase]
    cases hs : w.saved <;> simp [hs, Cfg.now]

/-- **Invariant preservation** for every operation of the code as it stands. -/
theorem C03_inv_step (w : World) (op : Op) (hi : Inv w) : Inv (step .now w op).1 := by
  obtain ⟨cw, cc, sw, clw⟩ := hi
  cases op with
  | enter =>
    have hgrow : w.heap.length ≤ (w.heap ++ [[]]).length := by simp
    simp only [step, enter]
    refine ⟨⟨?_, ?_, ?_, ?_⟩, ?_, fun s hs => (sw s hs).mono hgrow, fun s hs => (clw s hs).mono hgrow⟩
    · simp [cw.len_eq]
    · simp
    · intro f hf
      simp only [List.mem_cons] at hf
      rcases hf with rfl | hf
      · simp
      · have := cw.valid f hf; simp; omega
    · refine List.nodup_cons.mpr ⟨?_, cw.nodup⟩
      intro hmem; have := cw.valid _ hmem; omega
    · intro m i e
      have hf := cc m i e
      show find (w.heap ++ [[]]) (w.heap.length :: w.cur.vars) m = some i
      unfold find
      have hnew : hasAt (w.heap ++ [[]]) w.heap.length m = false := by
        rw [hasAt_append_nil]
        unfold hasAt getAt
        rw [List.getElem?_eq_none (Nat.le_refl _)]; rfl
      simp only [hnew, Bool.false_eq_true, if_false]
      rw [find_append_nil]; exact hf
  | exit =>
    simp only [step]
    split
    · exact ⟨cw, cc, sw, clw⟩
    · rename_i hlen
      refine ⟨⟨?_, ?_, ?_, ?_⟩, ?_, sw, clw⟩
      · simp [exit, cw.len_eq]
      · have hl := cw.len_eq
        cases hv : w.cur.vars with
        | nil => exact absurd hv cw.ne
        | cons g gs =>
          rw [hv] at hl; simp at hl
          simp only [exit, hv, List.tail_cons]
          intro e; subst e; simp at hl; omega
      · intro f hf; exact cw.valid f (List.mem_of_mem_tail hf)
      · exact cw.nodup.sublist (List.tail_sublist _)
      · intro m i e; simp [exit] at e
  | insertLast n v =>
    obtain ⟨g, gs, hv, hlast, hfl⟩ := frameAt_last_of_wf cw
    have hl0 : w.cur.len ≠ 0 := by rw [cw.len_eq, hv]; simp
    have hgv : g < w.heap.length := cw.valid g (by rw [hv]; simp)
    simp only [step, insertVarLast, hl0, if_false, insertVar, hfl]
    refine ⟨putAt_wf g n v ⟨cw.len_eq, cw.ne, cw.valid, cw.nodup⟩, ?_,
      fun s hs => putAt_wf g n v (sw s hs), fun s hs => putAt_wf g n v (clw s hs)⟩
    intro m i e
    simp only [Option.some.injEq, Prod.mk.injEq] at e
    obtain ⟨rfl, rfl⟩ := e
    show find _ w.cur.vars _ = _
    rw [hv, hlast]
    exact find_putAt_top w.heap g n v gs hgv
  | assign n v semi =>
    obtain ⟨fid, s', _, _, h3, h4, h5, h6⟩ := envInsertVar_spec w.heap w.cur n v false semi cw cc
    simp only [step, h3]
    exact ⟨putAt_wf fid n v ⟨by rw [h5, h4]; exact cw.len_eq, by rw [h4]; exact cw.ne,
        by rw [h4]; exact cw.valid, by rw [h4]; exact cw.nodup⟩, h6,
      fun s hs => putAt_wf fid n v (sw s hs), fun s hs => putAt_wf fid n v (clw s hs)⟩
  | assignGlobal n v =>
    obtain ⟨fid, s', _, _, h3, h4, h5, h6⟩ := envInsertVar_spec w.heap w.cur n v true false cw cc
    simp only [step, h3]
    exact ⟨putAt_wf fid n v ⟨by rw [h5, h4]; exact cw.len_eq, by rw [h4]; exact cw.ne,
        by rw [h4]; exact cw.valid, by rw [h4]; exact cw.nodup⟩, h6,
      fun s hs => putAt_wf fid n v (sw s hs), fun s hs => putAt_wf fid n v (clw s hs)⟩
  | lookup n =>
    obtain ⟨_, h2, h3, h4⟩ := getVar_spec w.heap w.cur n cc
    simp only [step]
    exact ⟨⟨by rw [h3, h2]; exact cw.len_eq, by rw [h2]; exact cw.ne, by rw [h2]; exact cw.valid,
      by rw [h2]; exact cw.nodup⟩, h4, sw, clw⟩
  | closure =>
    simp only [step]
    refine ⟨cw, cc, sw, ?_⟩
    intro s hs
    simp only [List.mem_append, List.mem_singleton] at hs
    rcases hs with hs | rfl
    · exact clw s hs
    · exact ⟨cw.len_eq, cw.ne, cw.valid, cw.nodup⟩
  | call k =>
    simp only [step]
    cases hk : w.closures[k]? with
    | none => exact ⟨cw, cc, sw, clw⟩
    | some cl =>
      have hcl := clw cl (List.mem_of_getElem? hk)
      refine ⟨⟨hcl.len_eq, hcl.ne, hcl.valid, hcl.nodup⟩, ?_, ?_, clw⟩
      · intro m i e; simp [Scopes.newClosure, Cfg.now] at e
      · intro s hs
        simp only [List.mem_cons] at hs
        rcases hs with rfl | hs
        · exact cw
        · exact sw s hs
  | imp =>
    simp only [step]
    refine ⟨⟨cw.len_eq, cw.ne, cw.valid, cw.nodup⟩, ?_, ?_, clw⟩
    · intro m i e; simp [Scopes.newClosure, Cfg.now] at e
    · intro s hs
      simp only [List.mem_cons] at hs
      rcases hs with rfl | hs
      · exact cw
      · exact sw s hs
  | ret =>
    simp only [step]
    cases hs : w.saved with
    | nil => exact (⟨cw, cc, sw, clw⟩ : Inv w)
    | cons old rest =>
      show Inv { w with cur := if Cfg.now.restoreKeepsCache then old else { old with cache := none },
                        saved := rest }
      have hold := sw old (by rw [hs]; simp)
      refine ⟨⟨hold.len_eq, hold.ne, hold.valid, hold.nodup⟩, ?_, ?_, clw⟩
      · intro m i e; simp [Cfg.now] at e
      · intro s hs'; exact sw s (by rw [hs]; simp [hs'])

example : Inv (step .now (run .now .init [.assignGlobal 1 10, .enter, .lookup 1, .closure]).1 (.assign 1 20 false)).1 :=
  C03_inv_step _ _ (by rw [← C03_invB_iff]; decide)

/-- The invariant holds in every reachable world. -/
theorem C03_inv_reachable (ops : List Op) : Inv (run .now .init ops).1 := by
  suffices ∀ (w : World), Inv w → Inv (run .now w ops).1 from this _ C03_inv_init
  induction ops with
  | nil => intro w hw; exact hw
  | cons op ops ih =>
    intro w hw
    simp only [run]
    exact ih _ (C03_inv_step w op hw)

theorem run_sim (ops : List Op) : ∀ (w : World), Inv w →
    runSpec (erase w) ops = (erase (run .now w ops).1, (run .now w ops).2) := by
  induction ops with
  | nil => intro w _; rfl
  | cons op ops ih =>
    intro w hw
    simp only [run, runSpec]
    rw [step_sim w op hw]
    simp only []
    rw [ih _ (C03_inv_step w op hw)]

/-- **Cache transparency.**  For every operation sequence, every output of grass's `Scopes` with
    its `last_variable_index` cache (lookups: value / undefined / panic; structural rejections)
    equals the output of the cache-free specification; in particular no lookup or assignment ever
    hits the panicking index paths of scope.rs:120/142. -/
theorem C03_lookup_cached_eq_spec (ops : List Op) :
    (run .now .init ops).2 = (runSpec .init ops).2 := by
  have h := run_sim ops World.init C03_inv_init
  have e : erase World.init = SWorld.init := rfl
  rw [e] at h
  rw [h]

example : (run .now .init [.assignGlobal 1 10, .enter, .lookup 1, .closure, .assign 1 20 false,
    .call 0, .enter, .lookup 1, .exit, .ret, .lookup 1, .exit]).2
    = [.none, .none, .val 10, .none, .none, .none, .none, .val 20, .none, .none, .val 20, .none] := by
  decide

/-- A single lookup in a reachable world: through the cache = specification scan. -/
theorem C03_lookup_reachable (ops : List Op) (n : Name) :
    (getVar (run .now .init ops).1.heap (run .now .init ops).1.cur n).1
      = lookupSpec (run .now .init ops).1.heap (run .now .init ops).1.cur.vars n :=
  (getVar_spec _ _ n (C03_inv_reachable ops).cur_cache).1

example : (getVar (run .now .init [.assignGlobal 1 10, .enter, .lookup 1, .assign 1 20 false]).1.heap
    (run .now .init [.assignGlobal 1 10, .enter, .lookup 1, .assign 1 20 false]).1.cur 1).1 = .val 20 := by decide

/-- The specification never panics: panics are impossible in the cached machine too. -/
theorem C03_no_panic (ops : List Op) : Out.panic ∉ (run .now .init ops).2 := by
  rw [C03_lookup_cached_eq_spec]
  suffices ∀ (w : World), Inv w → Out.panic ∉ (runSpec (erase w) ops).2 from this _ C03_inv_init
  induction ops with
  | nil => intro w _; simp [runSpec]
  | cons op ops ih =>
    intro w hw
    have hs := step_sim w op hw
    simp only [runSpec, hs, List.mem_cons, not_or]
    refine ⟨?_, ih _ (C03_inv_step w op hw)⟩
    -- the head output is the cached machine's, which is the specification's
    have : (stepSpec (erase w) op).2 ≠ .panic := by
      obtain ⟨cw, cc, _, _⟩ := hw
      obtain ⟨g, gs, hv, _, _⟩ := frameAt_last_of_wf cw
      cases op with
      | enter => simp [stepSpec]
      | exit => simp only [stepSpec]; split <;> simp
      | insertLast n v => simp [stepSpec, erase, hv]
      | assign n v semi =>
        obtain ⟨fid, _, h1, _⟩ := envInsertVar_spec w.heap w.cur n v false semi cw cc
        simp [stepSpec, erase, h1]
      | assignGlobal n v =>
        obtain ⟨fid, _, h1, _⟩ := envInsertVar_spec w.heap w.cur n v true false cw cc
        simp [stepSpec, erase, h1]
      | lookup n =>
        simp only [stepSpec, erase]
        generalize w.cur.vars = vs
        induction vs with
        | nil => simp [lookupSpec]
        | cons f fs ih2 => unfold lookupSpec; split <;> simp_all
      | closure => simp [stepSpec]
      | call k => simp only [stepSpec]; split <;> simp
      | imp => simp [stepSpec]
      | ret => simp only [stepSpec]; split <;> simp
    rw [hs] at this
    exact fun e => this e.symm

/-! ### The as-found variants (tree 8539e4d, defect D3) violate the refinement -/

/-- D3, first variant.  `$x: global; a { z: $x; @mixin m { b: $x } $x: local; @include m }`:
    the read fills the cache with (x, 0); `new_closure` copied the cache into the mixin's
    environment; `$x: local` is declared in the rule's frame, which the closure shares; the call
    reads `$x` through the stale cache and sees the global value 10 instead of 20. -/
def d3ClosureTrace : List Op :=
  [.assignGlobal 1 10, .enter, .lookup 1, .closure, .assign 1 20 false, .call 0, .enter, .lookup 1]

theorem C03_asFound_closure_keeps_cache :
    (run .asFoundClosure .init d3ClosureTrace).2 ≠ (runSpec .init d3ClosureTrace).2 ∧
    (run .asFoundClosure .init d3ClosureTrace).2.getLast? = some (.val 10) ∧
    (runSpec .init d3ClosureTrace).2.getLast? = some (.val 20) ∧
    (run .now .init d3ClosureTrace).2.getLast? = some (.val 20) := by
  decide

/-- D3, second variant.  Inside a rule, after a read of the global `$x`, an `@import` that runs in
    a `for_import` environment (imported file with `@use`) declares `$x` in the rule's frame; on
    return `with_environment` swapped the old environment back with its cache, so the next read
    still answers from frame 0. -/
def d3RestoreTrace : List Op :=
  [.assignGlobal 1 10, .enter, .lookup 1, .imp, .assign 1 20 false, .ret, .lookup 1]

theorem C03_asFound_restore_keeps_cache :
    (run .asFoundRestore .init d3RestoreTrace).2 ≠ (runSpec .init d3RestoreTrace).2 ∧
    (run .asFoundRestore .init d3RestoreTrace).2.getLast? = some (.val 10) ∧
    (runSpec .init d3RestoreTrace).2.getLast? = some (.val 20) ∧
    (run .now .init d3RestoreTrace).2.getLast? = some (.val 20) := by
  decide

/-- In both as-found variants it is the invariant that breaks (so `C03_inv_step` is exactly what
    the repair re-establishes). -/
theorem C03_asFound_inv_broken :
    invB (run .asFoundClosure .init (d3ClosureTrace.take 6)).1 = false ∧
    invB (run .asFoundRestore .init (d3RestoreTrace.take 6)).1 = false ∧
    invB (run .now .init (d3ClosureTrace.take 6)).1 = true ∧
    invB (run .now .init (d3RestoreTrace.take 6)).1 = true := by
  decide

end Grass.Scope

/-!
  Part 2: THE REFERENCE EVALUATOR (Grass/Eval.lean).  The property's main sentence — grass computes
  the values the specification assigns — is the program correspondence of tools/props/c03.py, in
  which `evalProgram` is the specification.  The theorems below are about that specification:
  results do not depend on the amount of fuel once evaluation finishes, `@for` visits exactly the
  specified range, `and`/`or` do not evaluate their right operand when the left decides, and the
  arity rules are exactly the conditions under which binding succeeds.

  `C03_full` (below) stays unproved: it would need a model of the whole of grass's visitor.
-/
namespace Grass.Eval

/-- The full property for the modelled core, for reference (NOT proved; tied by correspondence):
    for every program of the core language on which the specification finishes, real grass emits
    exactly the specification's declarations and log messages.  `grassObservation` stands for the
    real compiler and cannot be defined in Lean. -/
def C03_full (grassObservation : List Stmt → Option (Array (String × String × Option String) × Array (String × String))) : Prop :=
  ∀ (prog : List Stmt) (fuel : Nat) (st : St), evalProgram Dev.spec fuel prog = .finished st →
    grassObservation prog = some (st.css, st.log)

/-! ### fuel -/

theorem run_block_mono (n k : Nat) (ctx : Ctx) (ss : List Stmt) (st : St)
    (h : (run n).block ctx ss st ≠ .oof) : (run (n + k)).block ctx ss st = (run n).block ctx ss st := by
  rcases (run_le_add n k).block ctx ss st with e | e
  · exact absurd e h
  · exact e.symm

theorem run_expr_mono (n k : Nat) (ctx : Ctx) (e : Expr) (st : St)
    (h : (run n).expr ctx e st ≠ .oof) : (run (n + k)).expr ctx e st = (run n).expr ctx e st := by
  rcases (run_le_add n k).expr ctx e st with e' | e'
  · exact absurd e' h
  · exact e'.symm

def Outcome.ranOut : Outcome → Bool
  | .outOfFuel => true
  | _ => false

/-- **Fuel monotonicity**: once a program's evaluation finishes (normally or with an error) with
    some amount of fuel, every larger amount gives the same declarations, log and outcome. -/
theorem C03_fuel_mono (dev : Dev) (n k : Nat) (prog : List Stmt)
    (h : (evalProgram dev n prog).ranOut = false) : evalProgram dev (n + k) prog = evalProgram dev n prog := by
  unfold evalProgram at *
  have hm := run_block_mono n k (Ctx.root dev) prog St.init
  cases hr : (run n).block (Ctx.root dev) prog St.init with
  | oof => rw [hr] at h; simp [Outcome.ranOut] at h
  | ok a st => rw [hm (by rw [hr]; intro c; cases c), hr]
  | err e st => rw [hm (by rw [hr]; intro c; cases c), hr]

example : (evalProgram Dev.spec 3 [.debug (.lit (.bool true))]).ranOut = false := by
  decide

/-! ### and / or -/

/-- `and`: the left operand is evaluated first; the right one only if the left is truthy. -/
theorem C03_and_unfold (n : Nat) (ctx : Ctx) (a b : Expr) (st : St) :
    (run (n + 1)).expr ctx (.bin .and a b) st =
      match (run n).expr ctx a st with
      | .ok x st' => if x.truthy then (run n).expr ctx b st' else .ok x st'
      | .err e st' => .err e st'
      | .oof => .oof := by
  show M.bind ((run n).expr ctx a) _ st = _
  unfold M.bind
  cases (run n).expr ctx a st with
  | ok x st' => simp only []; split <;> rfl
  | err e st' => rfl
  | oof => rfl

theorem C03_or_unfold (n : Nat) (ctx : Ctx) (a b : Expr) (st : St) :
    (run (n + 1)).expr ctx (.bin .or a b) st =
      match (run n).expr ctx a st with
      | .ok x st' => if x.truthy then .ok x st' else (run n).expr ctx b st'
      | .err e st' => .err e st'
      | .oof => .oof := by
  show M.bind ((run n).expr ctx a) _ st = _
  unfold M.bind
  cases (run n).expr ctx a st with
  | ok x st' => simp only []; split <;> rfl
  | err e st' => rfl
  | oof => rfl

/-- **Short circuit**: when the left operand of `and` is falsey (of `or`: truthy) the result is the
    left operand's value and state whatever the right operand is — it is not evaluated, so it can
    neither fail, nor log, nor assign. -/
theorem C03_and_or_short_circuit (n : Nat) (ctx : Ctx) (a b : Expr) (st st' : St) (x : Value)
    (ha : (run n).expr ctx a st = .ok x st') :
    (x.truthy = false → (run (n + 1)).expr ctx (.bin .and a b) st = .ok x st') ∧
    (x.truthy = true → (run (n + 1)).expr ctx (.bin .or a b) st = .ok x st') := by
  constructor
  · intro hx; rw [C03_and_unfold, ha]; simp [hx]
  · intro hx; rw [C03_or_unfold, ha]; simp [hx]

example : (run 3).expr (Ctx.root Dev.spec) (.bin .and (.lit (.bool false)) (.var "undefined")) St.init
    = .ok (.bool false) St.init := by
  have := (C03_and_or_short_circuit 2 (Ctx.root Dev.spec) (.lit (.bool false)) (.var "undefined")
    St.init St.init (.bool false) rfl).1 rfl
  exact this

/-! ### @for -/

/-- **@for range**: `forRange lo hi inclusive` has the specified length and its `i`-th element is
    `lo ± i` (ascending when `lo ≤ hi`, descending otherwise). -/
theorem C03_for_range (lo hi : Int) (inclusive : Bool) :
    (forRange lo hi inclusive).length =
        (if lo ≤ hi then hi - lo else lo - hi).toNat + (if inclusive then 1 else 0) ∧
    ∀ i, i < (forRange lo hi inclusive).length →
      (forRange lo hi inclusive)[i]? = some (if lo ≤ hi then lo + (i : Int) else lo - (i : Int)) := by
  unfold forRange
  constructor
  · simp
  · intro i hi'
    simp only [List.length_map, List.length_range] at hi'
    simp [List.getElem?_map, List.getElem?_range hi']

/-- Membership form: `to` excludes the end point, `through` includes it, in both directions. -/
theorem C03_for_range_mem (lo hi x : Int) (inclusive : Bool) :
    x ∈ forRange lo hi inclusive ↔
      (lo ≤ hi ∧ lo ≤ x ∧ (if inclusive then x ≤ hi else x < hi)) ∨
      (hi < lo ∧ x ≤ lo ∧ (if inclusive then hi ≤ x else hi < x)) := by
  unfold forRange
  simp only [List.mem_map, List.mem_range]
  constructor
  · rintro ⟨i, hi', rfl⟩
    by_cases h : lo ≤ hi
    · left; simp only [h, if_true] at hi' ⊢
      cases inclusive <;> simp at hi' ⊢ <;> omega
    · right; simp only [h, if_false] at hi' ⊢
      cases inclusive <;> simp at hi' ⊢ <;> omega
  · rintro (⟨h, h1, h2⟩ | ⟨h, h1, h2⟩)
    · refine ⟨(x - lo).toNat, ?_, ?_⟩
      · simp only [h, if_true]; cases inclusive <;> simp at h2 ⊢ <;> omega
      · simp only [h, if_true]; omega
    · have h' : ¬ lo ≤ hi := by omega
      refine ⟨(lo - x).toNat, ?_, ?_⟩
      · simp only [h', if_false]; cases inclusive <;> simp at h2 ⊢ <;> omega
      · simp only [h', if_false]; omega

example : forRange 1 4 false = [1, 2, 3] ∧ forRange 1 4 true = [1, 2, 3, 4] ∧
    forRange 3 0 false = [3, 2, 1] ∧ forRange 3 0 true = [3, 2, 1, 0] ∧ forRange 2 2 false = [] ∧
    forRange 2 2 true = [2] := by decide

/-- grass's loop (visitor.rs:1841-1897): `direction = if from > to {-1} else {1}`, `to += direction`
    for `through`, then `while i != to { body(i); i += direction }`; `n` bounds the iterations. -/
def grassForLoop (dir stop : Int) : Nat → Int → List Int
  | 0, _ => []
  | n + 1, i => if i = stop then [] else i :: grassForLoop dir stop n (i + dir)

def grassFor (lo hi : Int) (inclusive : Bool) (fuel : Nat) : List Int :=
  let dir : Int := if lo > hi then -1 else 1
  let stop := if inclusive then hi + dir else hi
  grassForLoop dir stop fuel lo

theorem grassForLoop_up (stop : Int) : ∀ (n : Nat) (i : Int), i ≤ stop → (stop - i).toNat ≤ n →
    grassForLoop 1 stop n i = (List.range (stop - i).toNat).map (fun (k : Nat) => i + (k : Int))
  | 0, i, h1, h2 => by
    have : (stop - i).toNat = 0 := by omega
    simp [grassForLoop, this]
  | n + 1, i, h1, h2 => by
    unfold grassForLoop
    by_cases e : i = stop
    · subst e; simp
    · simp only [e, if_false]
      have hlt : i < stop := by omega
      rw [grassForLoop_up stop n (i + 1) (by omega) (by omega)]
      have : (stop - i).toNat = (stop - (i + 1)).toNat + 1 := by omega
      rw [this, List.range_succ_eq_map]
      simp only [List.map_cons, List.map_map]
      congr 1
      · simp
      · apply List.map_congr_left; intro k _; simp; omega

theorem grassForLoop_down (stop : Int) : ∀ (n : Nat) (i : Int), stop ≤ i → (i - stop).toNat ≤ n →
    grassForLoop (-1) stop n i = (List.range (i - stop).toNat).map (fun (k : Nat) => i - (k : Int))
  | 0, i, h1, h2 => by
    have : (i - stop).toNat = 0 := by omega
    simp [grassForLoop, this]
  | n + 1, i, h1, h2 => by
    unfold grassForLoop
    by_cases e : i = stop
    · subst e; simp
    · simp only [e, if_false]
      rw [grassForLoop_down stop n (i + -1) (by omega) (by omega)]
      have : (i - stop).toNat = (i + -1 - stop).toNat + 1 := by omega
      rw [this, List.range_succ_eq_map]
      simp only [List.map_cons, List.map_map]
      congr 1
      · simp
      · apply List.map_congr_left; intro k _; simp; omega

example : grassFor 3 0 true 10 = [3, 2, 1, 0] ∧ grassFor 1 4 false 4 = [1, 2, 3] := by decide

/-- The loop as written in grass visits exactly the specified range (given enough iterations). -/
theorem C03_for_grass_loop (lo hi : Int) (inclusive : Bool) (fuel : Nat)
    (hf : (if lo ≤ hi then hi - lo else lo - hi).toNat + 1 ≤ fuel) :
    grassFor lo hi inclusive fuel = forRange lo hi inclusive := by
  unfold grassFor forRange
  by_cases h : lo ≤ hi
  · have hd : ¬ lo > hi := by omega
    simp only [hd, if_false, h, if_true] at hf ⊢
    cases inclusive
    · simp only [Bool.false_eq_true, if_false]
      rw [grassForLoop_up hi fuel lo h (by omega)]; simp
    · simp only [if_true]
      rw [grassForLoop_up (hi + 1) fuel lo (by omega) (by omega)]
      have : (hi + 1 - lo).toNat = (hi - lo).toNat + 1 := by omega
      rw [this]
  · have hd : lo > hi := by omega
    simp only [hd, if_true, h, if_false] at hf ⊢
    cases inclusive
    · simp only [Bool.false_eq_true, if_false]
      rw [grassForLoop_down hi fuel lo (by omega) (by omega)]; simp
    · simp only [if_true]
      rw [grassForLoop_down (hi + -1) fuel lo (by omega) (by omega)]
      have : (lo - (hi + -1)).toNat = (lo - hi).toNat + 1 := by omega
      rw [this]

/-! ### argument binding -/

/-- Number of declared parameters at index ≥ `npos` (counting from `i`) that are passed by name. -/
def usedCount (names : List String) (npos : Nat) : Nat → List (String × Option Expr) → Nat
  | _, [] => 0
  | i, (p, _) :: r => (if npos ≤ i ∧ p ∈ names then 1 else 0) + usedCount names npos (i + 1) r

/-- What the arity rules demand of each declared parameter: one passed by position is not also
    named; one not passed by position is named or has a default. -/
def ParamsOk (names : List String) (npos : Nat) (i : Nat) (ps : List (String × Option Expr)) : Prop :=
  ∀ j p d, ps[j]? = some (p, d) →
    (i + j < npos → p ∉ names) ∧ (npos ≤ i + j → p ∈ names ∨ d.isSome = true)

theorem paramsOk_nil (names : List String) (npos i : Nat) : ParamsOk names npos i [] := by
  intro j p d h; simp at h

theorem paramsOk_cons (names : List String) (npos i : Nat) (p : String) (d : Option Expr)
    (rest : List (String × Option Expr)) :
    ParamsOk names npos i ((p, d) :: rest) ↔
      ((i < npos → p ∉ names) ∧ (npos ≤ i → p ∈ names ∨ d.isSome = true)) ∧
      ParamsOk names npos (i + 1) rest := by
  unfold ParamsOk
  constructor
  · intro h
    refine ⟨by simpa using h 0 p d rfl, ?_⟩
    intro j q e hj
    have := h (j + 1) q e (by simpa using hj)
    rw [show i + (j + 1) = i + 1 + j by omega] at this
    exact this
  · rintro ⟨h0, hr⟩ j q e hj
    cases j with
    | zero => simp at hj; obtain ⟨rfl, rfl⟩ := hj; simpa using h0
    | succ j =>
      have := hr j q e (by simpa using hj)
      rw [show i + (j + 1) = i + 1 + j by omega]
      exact this

theorem go_iff (names : List String) (npos : Nat) :
    ∀ (ps : List (String × Option Expr)) (i used u : Nat),
      verifyArgs.go npos names i ps used = .inr u ↔
        ParamsOk names npos i ps ∧ u = used + usedCount names npos i ps
  | [], i, used, u => by
    have := paramsOk_nil names npos i
    unfold verifyArgs.go usedCount
    simp only [Sum.inr.injEq, this, true_and, Nat.add_zero]
    exact eq_comm
  | (p, d) :: rest, i, used, u => by
    have ih := go_iff names npos rest (i + 1)
    rw [paramsOk_cons]
    unfold verifyArgs.go usedCount
    simp only [List.contains_eq_mem, decide_eq_true_eq]
    by_cases h1 : i < npos
    · have h1' : ¬ npos ≤ i := by omega
      by_cases h2 : p ∈ names
      · simp [h1, h2]
      · simp [h1, h2, h1', ih]
    · have h1' : npos ≤ i := by omega
      by_cases h2 : p ∈ names
      · simp only [h1, if_false, h2, if_true, h1', true_and, ih, true_or, and_self, false_implies,
          Nat.add_assoc]
        simp
      · cases hd : d with
        | none => simp [h1, h2, h1']
        | some e => simp [h1, h2, h1', ih]

/-- **Arity errors ⇔ binding fails.**  `verifyArgs` accepts a call exactly when every declared
    parameter can be bound (not passed twice; passed, named or defaulted) and — without a rest
    parameter — there is no surplus positional argument and every name was consumed by a declared
    parameter (`names.length ≤ usedCount`; with pairwise distinct names this says that every name
    is a declared parameter not passed by position). -/
theorem C03_verify_iff (ps : Params) (npos : Nat) (names : List String) :
    bindable ps npos names = true ↔
      ParamsOk names npos 0 ps.ps ∧
      (ps.rest = none → npos ≤ ps.ps.length ∧ names.length ≤ usedCount names npos 0 ps.ps) := by
  unfold bindable verifyArgs
  cases hgo : verifyArgs.go npos names 0 ps.ps 0 with
  | inl e =>
    have : ¬ ParamsOk names npos 0 ps.ps := by
      intro hp
      have := (go_iff names npos ps.ps 0 0 (0 + usedCount names npos 0 ps.ps)).2 ⟨hp, rfl⟩
      rw [hgo] at this; cases this
    simp only []
    constructor
    · intro h
      -- the error branch returns an error, never `none`
      exfalso
      have hne : ∀ (x : Option Err ⊕ Nat) e', x = .inl e' → verifyArgs.go npos names 0 ps.ps 0 = x → e' ≠ none := by
        intro x e' hx hgo'
        subst hx
        clear hgo h this
        -- every `.inl` produced by `go` carries `some _`
        have key : ∀ (l : List (String × Option Expr)) (i used : Nat) (e'' : Option Err),
            verifyArgs.go npos names i l used = .inl e'' → e'' ≠ none := by
          intro l
          induction l with
          | nil => intro i used e'' h; simp [verifyArgs.go] at h
          | cons hd tl ih =>
            intro i used e'' h
            obtain ⟨p, d⟩ := hd
            unfold verifyArgs.go at h
            split at h
            · split at h
              · cases h; simp
              · exact ih _ _ _ h
            · split at h
              · exact ih _ _ _ h
              · split at h
                · cases h; simp
                · exact ih _ _ _ h
        exact key _ _ _ _ hgo'
      have := hne _ e rfl hgo
      cases e with
      | none => exact this rfl
      | some e' => simp at h
    · rintro ⟨hp, _⟩; exact absurd hp this
  | inr used =>
    obtain ⟨hp, hu⟩ := (go_iff names npos ps.ps 0 0 used).1 hgo
    simp only [Nat.zero_add] at hu
    subst hu
    simp only [hp, true_and]
    cases hr : ps.rest with
    | some r => simp
    | none =>
      simp only [Option.isSome_none, Bool.false_eq_true, if_false, true_implies]
      by_cases h1 : npos > ps.ps.length
      · simp [h1]
        try omega
      · by_cases h2 : usedCount names npos 0 ps.ps < names.length
        · simp [h1, h2]
          try omega
        · simp [h1, h2]
          try omega

example : bindable ⟨[("a", none), ("b", some (.lit .null))], none⟩ 1 [] = true ∧
    bindable ⟨[("a", none), ("b", none)], none⟩ 1 [] = false ∧
    bindable ⟨[("a", none)], none⟩ 2 [] = false ∧
    bindable ⟨[("a", none)], some "rest"⟩ 3 ["zz"] = true ∧
    bindable ⟨[("a", none)], none⟩ 1 ["a"] = false := by decide

/-- Consequences used by the binder: after a successful arity check no `missing-argument` can
    arise while binding, and no parameter is bound twice. -/
theorem C03_verify_ok_binds (ps : Params) (npos : Nat) (names : List String)
    (h : verifyArgs ps npos names = none) (j : Nat) (p : String) (d : Option Expr)
    (hj : ps.ps[j]? = some (p, d)) :
    (j < npos → p ∉ names) ∧ (npos ≤ j → p ∈ names ∨ d.isSome = true) := by
  have hb : bindable ps npos names = true := by simp [bindable, h]
  have := ((C03_verify_iff ps npos names).1 hb).1 j p d hj
  simpa using this

/-!
  ## Growth: the reference evaluator has the semantics the property lists

  Machine-checked statements about `Eval` (the executable specification): lexical scoping,
  closures and content blocks, `@return` leaving loops, `@each` destructuring.  They are stated
  over the evaluator's environment operations (`lookupVar`, `findFrame`, `assignTarget`, `setV` =
  the heap after `setVarIn`, `inScope` = entering a block) and over `stmtF` / `run` directly.
  (`C03_precedence` — printer output re-parses to the same tree — is NOT stated: there is no
  model of the Sass expression parser here; the printer lives in tools/props/c03_gen.py.)
-/

/-! ### lexical scoping (growth) -/

/-- (a) A variable declared in a nested block (no enclosing scope declares it) lives in the
    block's own frame: visible inside, not visible once the block is left. -/
theorem C03_lexical_scoping_block_local (h : Array Frame) (env : List Nat) (n : String) (v : Value) (semi : Bool)
    (hne : env ≠ []) (hval : ∀ f ∈ env, f < h.size) (hnew : findFrame h env n = none) :
    assignTarget (h.push {}) (h.size :: env) n false semi = some h.size ∧
    lookupVar (setV (h.push {}) h.size n v) (h.size :: env) n = some v ∧
    lookupVar (setV (h.push {}) h.size n v) env n = none := by
  have hsz : h.size < (h.push ({} : Frame)).size := by simp
  have hff : findFrame (h.push {}) (h.size :: env) n = none := by
    rw [findFrame_cons, getV_push]; simp only [if_true]
    rw [findFrame_push h env n hval]; exact hnew
  have hlen : ¬ (h.size :: env).length = 1 := by
    cases env with
    | nil => exact absurd rfl hne
    | cons a b => simp
  refine ⟨?_, lookupVar_setV_top _ _ _ _ _ hsz, ?_⟩
  · simp [assignTarget, hff, hne]
  · have hnot : h.size ∉ env := fun hm => Nat.lt_irrefl _ (hval _ hm)
    rw [lookupVar_setV_notin _ _ _ _ _ _ hsz hnot, lookupVar_push h env n hval]
    exact findFrame_none_lookup h env n hnew

/-- (b) An assignment in a nested block to a variable that an enclosing LOCAL scope declares (or
    to a global one when the block is semi-global) updates that outer variable: the new value is
    what the enclosing scope sees after the block. -/
theorem C03_lexical_scoping_assign_outer (h : Array Frame) (env : List Nat) (n : String) (v : Value) (semi : Bool)
    (f : Nat) (hval : ∀ g ∈ env, g < h.size) (hf : findFrame h env n = some f)
    (hloc : semi = true ∨ some f ≠ env.getLast?) :
    assignTarget (h.push {}) (h.size :: env) n false semi = some f ∧
    lookupVar (setV (h.push {}) f n v) env n = some v := by
  obtain ⟨hmem, _⟩ := findFrame_some h env n f hf
  have hfs : f < h.size := hval f hmem
  have hff : findFrame (h.push {}) (h.size :: env) n = some f := by
    rw [findFrame_cons, getV_push]; simp only [if_true]
    rw [findFrame_push h env n hval]; exact hf
  have hne : env ≠ [] := by intro e; subst e; simp at hmem
  have hlen : ¬ (h.size :: env).length = 1 := by
    cases env with
    | nil => exact absurd rfl hne
    | cons a b => simp
  have hlast : (h.size :: env).getLast? = env.getLast? := by
    cases env with
    | nil => exact absurd rfl hne
    | cons a b => simp [List.getLast?_cons_cons]
  constructor
  · simp only [assignTarget, Bool.false_or, hff, hlast, List.head?_cons]
    simp only [beq_iff_eq, hlen, if_false]
    by_cases hq : some f = env.getLast?
    · rcases hloc with hs | hn
      · subst hs; simp [hq]
      · exact absurd hq hn
    · simp [hq]
  · have hff' : findFrame (h.push {}) env n = some f := by rw [findFrame_push h env n hval]; exact hf
    exact lookupVar_setV_found _ n v env f hff' (by simp; omega)

/-- (b') … but a GLOBAL variable is not assigned from a local scope that is not semi-global (a
    style rule, a mixin, a function): a local variable of that name is declared instead and the
    global keeps its value. -/
theorem C03_lexical_scoping_global_shadowed (h : Array Frame) (env : List Nat) (n : String) (v : Value) (g : Nat)
    (hval : ∀ f ∈ env, f < h.size) (hf : findFrame h env n = some g) (hg : env.getLast? = some g) :
    assignTarget (h.push {}) (h.size :: env) n false false = some h.size ∧
    lookupVar (setV (h.push {}) h.size n v) env n = lookupVar h env n := by
  obtain ⟨hmem, _⟩ := findFrame_some h env n g hf
  have hsz : h.size < (h.push ({} : Frame)).size := by simp
  have hff : findFrame (h.push {}) (h.size :: env) n = some g := by
    rw [findFrame_cons, getV_push]; simp only [if_true]
    rw [findFrame_push h env n hval]; exact hf
  have hne : env ≠ [] := by intro e; subst e; simp at hmem
  have hlen : ¬ (h.size :: env).length = 1 := by
    cases env with
    | nil => exact absurd rfl hne
    | cons a b => simp
  have hlast : (h.size :: env).getLast? = some g := by
    cases env with
    | nil => exact absurd rfl hne
    | cons a b => rw [← hg]; simp [List.getLast?_cons_cons]
  constructor
  · simp [assignTarget, hff, hlast, hne]
  · have hnot : h.size ∉ env := fun hm => Nat.lt_irrefl _ (hval _ hm)
    rw [lookupVar_setV_notin _ _ _ _ _ _ hsz hnot, lookupVar_push h env n hval]

/-- (c) `!global` writes the global frame (the last of the chain) from anywhere, creating the
    variable if need be; the root scope then sees the value. -/
theorem C03_lexical_scoping_global_flag (h : Array Frame) (env : List Nat) (n : String) (v : Value) (semi : Bool)
    (g : Nat) (hg : env.getLast? = some g) (hs : g < h.size) :
    assignTarget h env n true semi = some g ∧ lookupVar (setV h g n v) [g] n = some v := by
  refine ⟨by rw [assignTarget_global, hg], lookupVar_setV_top h g n v [] hs⟩

/-- (d) `!default` assigns only when the variable is unset or null: otherwise the statement does
    nothing at all (the expression is not even evaluated). -/
theorem C03_lexical_scoping_default (r : Rec) (ctx : Ctx) (n : String) (e : Expr) (glob : Bool) (st : St) :
    (∀ cur, lookupVar st.heap ctx.env n = some cur → cur.eq .null = false →
        stmtF r ctx (.var n e glob true) st = .ok none st) ∧
    (lookupVar st.heap ctx.env n = none ∨ (∃ cur, lookupVar st.heap ctx.env n = some cur ∧ cur.eq .null = true) →
        stmtF r ctx (.var n e glob true) st = stmtF r ctx (.var n e glob false) st) := by
  constructor
  · intro cur hc hn
    unfold stmtF
    show M.bind getSt _ st = _
    simp only [M.bind, getSt, hc, hn, Bool.true_and, Bool.not_false, if_true]
    rfl
  · intro hc
    unfold stmtF
    show M.bind getSt _ st = M.bind getSt _ st
    simp only [M.bind, getSt]
    rcases hc with hc | ⟨cur, hc, hn⟩
    · simp [hc]
    · simp [hc, hn]

/-- (e) Control flow keeps the semi-global flag, everything else clears it; at the root the flag
    is set.  Together with (b): `@if/@for/@each/@while` at the top level assign to existing
    global variables, while the same assignment inside a style rule, mixin or function declares a
    local (b'). -/
theorem C03_lexical_scoping_semi_global (r : Rec) (ctx : Ctx) (dev : Dev) (c : Expr) (body : List Stmt) (sel : String) (st : St) :
    (Ctx.root dev).semi = true ∧
    stmtF r ctx (.whil c body) st =
      r.loop { ctx with env := st.heap.size :: ctx.env, semi := ctx.semi } c body { st with heap := st.heap.push {} } ∧
    stmtF r ctx (.rule sel body) st =
      r.block { ctx with env := st.heap.size :: ctx.env, semi := false, sel := sel :: ctx.sel } body
        { st with heap := st.heap.push {} } := by
  refine ⟨rfl, ?_, ?_⟩
  · unfold stmtF
    show inScope ctx true _ st = _
    rw [inScope_eq]; simp
  · unfold stmtF
    show inScope ctx false _ st = _
    rw [inScope_eq]; simp

/-! ### @return exits loops -/

/-- Core: running a list of iterations (or statements) stops at the first one that yields a
    `@return` value; the result is that value and the state is the state right after it — nothing
    after it runs, whatever it is. -/
theorem C03_return_exits_loops_forEach {α : Type} (f : α → M (Option Value)) :
    ∀ (pre : List α) (a : α) (post : List α) (st st1 st2 : St) (v : Value),
      forEachM f pre st = .ok none st1 → f a st1 = .ok (some v) st2 →
      forEachM f (pre ++ a :: post) st = .ok (some v) st2
  | [], a, post, st, st1, st2, v, h1, h2 => by
    have : st1 = st := by
      simp only [forEachM] at h1
      cases h1; rfl
    subst this
    simp only [List.nil_append, forEachM]
    rw [bind_ok _ _ _ _ _ h2]; rfl
  | p :: pre, a, post, st, st1, st2, v, h1, h2 => by
    simp only [List.cons_append, forEachM] at h1 ⊢
    cases hp : f p st with
    | ok r st' =>
      rw [bind_ok _ _ _ _ _ hp] at h1 ⊢
      cases r with
      | some w => simp only [] at h1; cases h1
      | none =>
        simp only [] at h1 ⊢
        exact C03_return_exits_loops_forEach f pre a post st' st1 st2 v h1 h2
    | err e st' => rw [bind_err _ _ _ _ _ hp] at h1; cases h1
    | oof => rw [bind_oof _ _ _ hp] at h1; cases h1

/-- A block: statements after a returning statement do not run. -/
theorem C03_return_exits_loops_block (n : Nat) (ctx : Ctx) (pre : List Stmt) (s : Stmt) (post : List Stmt)
    (st st1 st2 : St) (v : Value)
    (h1 : (run (n + 1)).block ctx pre st = .ok none st1)
    (h2 : (tick >>= fun _ => stmtF (run n) ctx s) st1 = .ok (some v) st2) :
    (run (n + 1)).block ctx (pre ++ s :: post) st = .ok (some v) st2 :=
  C03_return_exits_loops_forEach _ pre s post st st1 st2 v h1 h2

/-- `@while`: when the body returns, the condition is not evaluated again. -/
theorem C03_return_exits_loops_while (r : Rec) (ctx : Ctx) (c : Expr) (body : List Stmt)
    (st st1 st2 : St) (x v : Value) (hc : r.expr ctx c st = .ok x st1) (hx : x.truthy = true)
    (hb : r.block ctx body st1 = .ok (some v) st2) :
    loopF r ctx c body st = .ok (some v) st2 := by
  unfold loopF
  rw [bind_ok _ _ _ _ _ hc]
  simp only [hx, if_true]
  rw [bind_ok _ _ _ _ _ hb]; rfl

/-- `@each` (one variable): if iteration `a` returns `v`, the statement returns `v` in the state
    right after that iteration; the remaining elements `post` are irrelevant. -/
theorem C03_return_exits_loops_each (r : Rec) (ctx : Ctx) (x : String) (e : Expr) (body : List Stmt)
    (st st0 st1 st2 : St) (l : Value) (pre post : List Value) (a v : Value)
    (he : r.expr ctx e st = .ok l st0) (hl : asList l = pre ++ a :: post) :
    let fid := st0.heap.size
    let ctx' : Ctx := { ctx with env := fid :: ctx.env, semi := ctx.semi }
    let iter : Value → M (Option Value) := fun w => do setVarIn fid x w; r.block ctx' body
    forEachM iter pre { st0 with heap := st0.heap.push {} } = .ok none st1 →
    iter a st1 = .ok (some v) st2 →
    stmtF r ctx (.each [x] e body) st = .ok (some v) st2 := by
  intro fid ctx' iter h1 h2
  unfold stmtF
  show (r.expr ctx e >>= _) st = _
  rw [bind_ok _ _ _ _ _ he, inScope_eq']
  simp only [Bool.true_and, hl]
  exact C03_return_exits_loops_forEach iter pre a post _ st1 st2 v h1 h2
where
  inScope_eq' {α : Type} (ctx : Ctx) (semi : Bool) (body : Ctx → M α) (st : St) :
    inScope ctx semi body st =
      body { ctx with env := st.heap.size :: ctx.env, semi := semi && ctx.semi }
        { st with heap := st.heap.push {} } := rfl

/-- A user function's value is the value of the `@return` that ended its body. -/
theorem C03_return_exits_loops_call (r : Rec) (ctx' : Ctx) (body : List Stmt) (st st1 : St) (v : Value)
    (hb : r.block ctx' body st = .ok (some v) st1) :
    (do match ← r.block ctx' body with
        | some v => pure v
        | none => fail Err.noReturn : M Value) st = .ok v st1 := by
  rw [bind_ok _ _ _ _ _ hb]; rfl

/-! ### @each destructuring -/

/-- Binding `xs` (pairwise distinct) to the elements `vs` of one list element: the `i`-th variable
    gets the `i`-th element, `null` when the element is too short; extra elements are ignored; no
    other variable, frame, declaration or log entry changes. -/
theorem C03_each_destructuring (fid : Nat) :
    ∀ (xs : List String) (vs : List Value) (st : St), xs.Nodup → fid < st.heap.size →
      ∃ st', eachBind fid xs vs st = .ok () st' ∧ st'.css = st.css ∧ st'.log = st.log ∧
        st'.heap.size = st.heap.size ∧
        (∀ (i : Nat) (x : String), xs[i]? = some x → getV st'.heap fid x = some (vs[i]?.getD .null)) ∧
        (∀ g m, (g ≠ fid ∨ m ∉ xs) → getV st'.heap g m = getV st.heap g m)
  | [], vs, st, _, _ => by
    refine ⟨st, ?_, rfl, rfl, rfl, ?_, fun _ _ _ => rfl⟩
    · cases vs <;> rfl
    · intro i x h; simp at h
  | x :: xs, vs, st, hnd, hf => by
    obtain ⟨hx, hnd'⟩ := List.nodup_cons.mp hnd
    -- the value bound to `x` and the rest of the element
    let w : Value := vs.head?.getD .null
    let st1 : St := { st with heap := setV st.heap fid x w }
    have hstep : eachBind fid (x :: xs) vs st = eachBind fid xs vs.tail st1 := by
      cases vs with
      | nil =>
        simp only [eachBind]
        rw [bind_ok _ _ _ _ _ (setVarIn_eq fid x .null st)]; rfl
      | cons v vs' =>
        simp only [eachBind]
        rw [bind_ok _ _ _ _ _ (setVarIn_eq fid x v st)]; rfl
    have hf1 : fid < st1.heap.size := by simp [st1, setV_size]; exact hf
    obtain ⟨st', h1, h2, h3, h4, h5, h6⟩ := C03_each_destructuring fid xs vs.tail st1 hnd' hf1
    refine ⟨st', by rw [hstep]; exact h1, h2, h3, by rw [h4]; simp [st1, setV_size], ?_, ?_⟩
    · intro i y hy
      cases i with
      | zero =>
        simp at hy; subst hy
        rw [h6 fid x (Or.inr hx)]
        show getV (setV st.heap fid x w) fid x = _
        rw [getV_setV _ _ _ _ _ _ hf]
        cases vs <;> simp [w]
      | succ i =>
        have := h5 i y (by simpa using hy)
        rw [this]
        cases vs <;> simp
    · intro g m hgm
      have hm' : g ≠ fid ∨ m ∉ xs := by
        rcases hgm with h | h
        · exact Or.inl h
        · exact Or.inr (fun c => h (by simp [c]))
      rw [h6 g m hm']
      show getV (setV st.heap fid x w) g m = _
      rw [getV_setV _ _ _ _ _ _ hf]
      have : ¬ (g = fid ∧ m = x) := by
        rintro ⟨rfl, rfl⟩
        rcases hgm with h | h
        · exact h rfl
        · exact h (by simp)
      simp [this]

/-- **Closures capture the defining scope.**  A function whose body is `@return $x`, called from
    ANY context `ctx`, returns what `$x` is in the scope chain `denv` it was defined in, looked up
    in the heap as it is NOW (so later assignments to the defining scope's variables are seen):
    the caller's scope chain `ctx.env` does not occur in the result. -/
theorem C03_closure_captures_definition_scope (n : Nat) (ctx : Ctx) (f x : String) (denv : List Nat) (st : St)
    (hfn : lookupFn st.heap ctx.env f = some { params := ⟨[], none⟩, body := [.ret (.var x)], env := denv })
    (hval : ∀ g ∈ denv, g < st.heap.size) (hw : st.work ≠ 0) :
    (run (n + 4)).expr ctx (.call f [] [] none) st =
      match lookupVar st.heap denv x with
      | some v => .ok v { st with heap := st.heap.push {}, work := st.work - 1 }
      | none => .err .undefinedVariable { st with heap := st.heap.push {}, work := st.work - 1 } := by
  have hl : lookupVar (st.heap.push {}) (st.heap.size :: denv) x = lookupVar st.heap denv x := by
    rw [lookupVar_cons, getV_push]; simp only [if_true]
    exact lookupVar_push st.heap denv x hval
  show exprF (run (n + 3)) ctx (.call f [] [] none) st = _
  rw [call_eq _ _ _ _ _ hfn, invoke_nil]
  -- the body block: one statement
  let st1 : St := { st with heap := st.heap.push {} }
  let ctx' : Ctx := { dev := ctx.dev, env := st.heap.size :: denv, semi := false, content := none, sel := ctx.sel, inFn := true }
  have hvar : (run (n + 2)).expr ctx' (.var x) { st1 with work := st1.work - 1 } =
      match lookupVar st.heap denv x with
      | some v => .ok v { st1 with work := st1.work - 1 }
      | none => .err .undefinedVariable { st1 with work := st1.work - 1 } := by
    show exprF (run (n + 1)) ctx' (.var x) _ = _
    unfold exprF
    show (getSt >>= _) _ = _
    rw [bind_ok getSt _ _ _ _ rfl]
    simp only [ctx', st1, hl]
    cases lookupVar st.heap denv x <;> rfl
  have hblock : (run (n + 3)).block ctx' [.ret (.var x)] st1 =
      match lookupVar st.heap denv x with
      | some v => .ok (some v) { st1 with work := st1.work - 1 }
      | none => .err .undefinedVariable { st1 with work := st1.work - 1 } := by
    show forEachM (fun s => do tick; stmtF (run (n + 2)) ctx' s) [.ret (.var x)] st1 = _
    unfold forEachM
    show ((tick >>= fun _ => stmtF (run (n + 2)) ctx' (.ret (.var x))) >>= _) st1 = _
    have ht := tick_ok st1 hw
    have hstmt : (tick >>= fun _ => stmtF (run (n + 2)) ctx' (.ret (.var x))) st1 =
        match lookupVar st.heap denv x with
        | some v => .ok (some v) { st1 with work := st1.work - 1 }
        | none => .err .undefinedVariable { st1 with work := st1.work - 1 } := by
      rw [bind_ok tick _ _ _ _ ht]
      unfold stmtF
      show (if (!ctx'.inFn) = true then fail Err.staticError else (run (n + 2)).expr ctx' (.var x) >>= fun v => pure (some v)) _ = _
      simp only [ctx', Bool.not_true, Bool.false_eq_true, if_false]
      show M.bind _ _ _ = _
      unfold M.bind
      rw [hvar]
      cases lookupVar st.heap denv x <;> rfl
    show M.bind _ _ st1 = _
    unfold M.bind
    rw [hstmt]
    cases lookupVar st.heap denv x <;> rfl
  show M.bind (M.bind ((run (n + 3)).block ctx' [.ret (.var x)]) _) _ st1 = _
  unfold M.bind
  rw [hblock]
  cases lookupVar st.heap denv x <;> rfl

/-- **Mixin bodies run in the defining scope** (any body): including a parameterless mixin runs
    its body in a fresh child frame of the chain `denv` the mixin was DEFINED in — the caller
    contributes only the current style rule (`sel`) and the content block, not its variables. -/
theorem C03_closure_mixin_body_in_definition_scope (r : Rec) (ctx : Ctx) (m : String) (mb : List Stmt)
    (denv : List Nat) (st : St)
    (hm : lookupMixin st.heap ctx.env m = some { params := ⟨[], none⟩, body := mb, env := denv }) :
    stmtF r ctx (.incl m ⟨[], [], none⟩ none) st =
      match r.block { dev := ctx.dev, env := st.heap.size :: denv, semi := false, content := none,
                      sel := ctx.sel, inFn := false } mb { st with heap := st.heap.push {} } with
      | .ok _ s => .ok none s
      | .err e s => .err e s
      | .oof => .oof := by
  unfold stmtF
  show (getSt >>= _) st = _
  rw [bind_ok getSt _ st st st rfl]
  simp only [hm, Option.isSome_none, Bool.false_and, Bool.false_eq_true, if_false]
  show (evalArgs r ctx ⟨[], [], none⟩ >>= _) st = _
  rw [bind_ok _ _ _ _ _ (evalArgs_nil r ctx st)]
  simp only [Option.map_none]
  rw [invoke_nil]
  show M.bind (M.bind (r.block _ mb) _) _ _ = _
  unfold M.bind
  cases r.block _ mb { st with heap := st.heap.push {} } <;> rfl

/-- **A content block runs in the caller's scope.**  `@include m { cb }` where `m`'s body is just
    `@content`: the block `cb` runs in a fresh child frame of the INCLUDING site's chain `ctx.env`
    (with the including site's own content block as its `@content`), not of the mixin's chain
    `denv`, which does not occur in the result. -/
theorem C03_content_in_caller_scope (n : Nat) (ctx : Ctx) (m : String) (cb : List Stmt)
    (denv : List Nat) (st : St)
    (hm : lookupMixin st.heap ctx.env m =
      some { params := ⟨[], none⟩, body := [.content ⟨[], [], none⟩], env := denv })
    (hw : st.work ≠ 0) :
    stmtF (run (n + 2)) ctx (.incl m ⟨[], [], none⟩ (some (⟨[], none⟩, cb))) st =
      match (run (n + 1)).block { dev := ctx.dev, env := (st.heap.size + 1) :: ctx.env, semi := false,
                                  content := ctx.content, sel := ctx.sel, inFn := false } cb
              { st with heap := (st.heap.push {}).push {}, work := st.work - 1 } with
      | .ok _ s => .ok none s
      | .err e s => .err e s
      | .oof => .oof := by
  unfold stmtF
  show (getSt >>= _) st = _
  rw [bind_ok getSt _ st st st rfl]
  have hc : blockHasContent [Stmt.content ⟨[], [], none⟩] = true := by
    simp [blockHasContent, stmtHasContent]
  simp only [hm, hc, Option.isSome_some, Bool.not_true, Bool.and_false, Bool.false_eq_true, if_false]
  show (evalArgs (run (n + 2)) ctx ⟨[], [], none⟩ >>= _) st = _
  rw [bind_ok _ _ _ _ _ (evalArgs_nil _ ctx st)]
  simp only [Option.map_some]
  rw [invoke_nil]
  -- the mixin body: the single statement `@content`
  let st1 : St := { st with heap := st.heap.push {} }
  let ctxM : Ctx := { dev := ctx.dev, env := st.heap.size :: denv, semi := false,
                      content := some (Content.mk ⟨[], none⟩ cb ctx.env ctx.content), sel := ctx.sel, inFn := false }
  let st2 : St := { st with heap := (st.heap.push {}).push {}, work := st.work - 1 }
  let ctxC : Ctx := { dev := ctx.dev, env := (st.heap.size + 1) :: ctx.env, semi := false,
                      content := ctx.content, sel := ctx.sel, inFn := false }
  have hstmt : stmtF (run (n + 1)) ctxM (.content ⟨[], [], none⟩) { st1 with work := st1.work - 1 } =
      match (run (n + 1)).block ctxC cb st2 with
      | .ok _ s => .ok none s
      | .err e s => .err e s
      | .oof => .oof := by
    unfold stmtF
    simp only [ctxM]
    show (evalArgs (run (n + 1)) _ ⟨[], [], none⟩ >>= _) _ = _
    rw [bind_ok _ _ _ _ _ (evalArgs_nil _ _ _)]
    rw [invoke_nil]
    show M.bind (M.bind ((run (n + 1)).block _ cb) _) _ _ = _
    unfold M.bind
    have hsz : ({ st1 with work := st1.work - 1 } : St).heap.size = st.heap.size + 1 := by simp [st1]
    simp only [hsz]
    cases (run (n + 1)).block ctxC cb st2 <;> rfl
  have hblock : (run (n + 2)).block ctxM [.content ⟨[], [], none⟩] st1 =
      match (run (n + 1)).block ctxC cb st2 with
      | .ok _ s => .ok none s
      | .err e s => .err e s
      | .oof => .oof := by
    show forEachM (fun s => do tick; stmtF (run (n + 1)) ctxM s) [.content ⟨[], [], none⟩] st1 = _
    unfold forEachM
    show M.bind (tick >>= fun _ => stmtF (run (n + 1)) ctxM (.content ⟨[], [], none⟩)) _ st1 = _
    unfold M.bind
    rw [bind_ok tick _ _ _ _ (tick_ok st1 hw), hstmt]
    cases (run (n + 1)).block ctxC cb st2 <;> rfl
  show M.bind (M.bind ((run (n + 2)).block ctxM _) _) _ st1 = _
  unfold M.bind
  rw [hblock]
  cases (run (n + 1)).block ctxC cb st2 <;> rfl

/-- `@for` (ascending or descending): if the iteration for `i` returns `v`, the statement returns
    `v` in the state right after that iteration; the remaining values `post` of the range are not
    visited. -/
theorem C03_return_exits_loops_for (r : Rec) (ctx : Ctx) (x : String) (lo hi : Expr) (incl : Bool)
    (body : List Stmt) (st st0 st0' st1 st2 : St) (a b : Int) (pre post : List Int) (i : Int) (v : Value)
    (hlo : r.expr ctx lo st = .ok (.num (a : Rat)) st0) (hhi : r.expr ctx hi st0 = .ok (.num (b : Rat)) st0')
    (hl : forRange a b incl = pre ++ i :: post) :
    let fid := st0'.heap.size
    let ctx' : Ctx := { ctx with env := fid :: ctx.env, semi := ctx.semi }
    let iter : Int → M (Option Value) := fun k => do setVarIn fid x (.num k); r.block ctx' body
    forEachM iter pre { st0' with heap := st0'.heap.push {} } = .ok none st1 →
    iter i st1 = .ok (some v) st2 →
    stmtF r ctx (.forr x lo hi incl body) st = .ok (some v) st2 := by
  intro fid ctx' iter h1 h2
  unfold stmtF
  show (r.expr ctx lo >>= _) st = _
  rw [bind_ok _ _ _ _ _ hlo]
  show (intOf _ >>= _) st0 = _
  rw [bind_ok _ _ _ _ _ (intOf_int a st0)]
  show (r.expr ctx hi >>= _) st0 = _
  rw [bind_ok _ _ _ _ _ hhi]
  show (intOf _ >>= _) st0' = _
  rw [bind_ok _ _ _ _ _ (intOf_int b st0'), inScope_eq]
  simp only [Bool.true_and, hl]
  exact C03_return_exits_loops_forEach iter pre i post _ st1 st2 v h1 h2

/-- **Nested loops**: a `@return` in an inner loop (any statement `s` of the outer loop's body that
    yields a value — in particular an inner `@for/@each/@while`, by the theorems above) ends the
    outer `@each` as well: later statements of the body (`spost`) and later elements (`post`) do
    not run; the function then returns that value (`C03_return_exits_loops_call`). -/
theorem C03_return_exits_loops (n : Nat) (ctx : Ctx) (x : String) (e : Expr)
    (spre : List Stmt) (s : Stmt) (spost : List Stmt)
    (st st0 st1 st1' st1'' st2 : St) (l : Value) (pre post : List Value) (a v : Value)
    (he : (run (n + 1)).expr ctx e st = .ok l st0) (hl : asList l = pre ++ a :: post) :
    let fid := st0.heap.size
    let ctx' : Ctx := { ctx with env := fid :: ctx.env, semi := ctx.semi }
    let iter : List Stmt → Value → M (Option Value) := fun b w => do setVarIn fid x w; (run (n + 1)).block ctx' b
    forEachM (iter (spre ++ s :: spost)) pre { st0 with heap := st0.heap.push {} } = .ok none st1 →
    setVarIn fid x a st1 = .ok () st1' →
    (run (n + 1)).block ctx' spre st1' = .ok none st1'' →
    (tick >>= fun _ => stmtF (run n) ctx' s) st1'' = .ok (some v) st2 →
    stmtF (run (n + 1)) ctx (.each [x] e (spre ++ s :: spost)) st = .ok (some v) st2 := by
  intro fid ctx' iter h1 hset hpre hs
  have hiter : iter (spre ++ s :: spost) a st1 = .ok (some v) st2 := by
    show (setVarIn fid x a >>= fun _ => (run (n + 1)).block ctx' (spre ++ s :: spost)) st1 = _
    rw [bind_ok _ _ _ _ _ hset]
    exact C03_return_exits_loops_block n ctx' spre s spost st1' st1'' st2 v hpre hs
  exact C03_return_exits_loops_each (run (n + 1)) ctx x e (spre ++ s :: spost) st st0 st1 st2 l pre post a v
    he hl h1 hiter

/-- **Lexical scoping**, all clauses: (a) block-local declaration, (b) assignment to an enclosing
    variable, (b') globals are shadowed from non-semi-global local scopes, (c) `!global`,
    (d) `!default`, (e) the semi-global flag. -/
theorem C03_lexical_scoping :
    type_of% @C03_lexical_scoping_block_local ∧ type_of% @C03_lexical_scoping_assign_outer ∧
    type_of% @C03_lexical_scoping_global_shadowed ∧ type_of% @C03_lexical_scoping_global_flag ∧
    type_of% @C03_lexical_scoping_default ∧ type_of% @C03_lexical_scoping_semi_global :=
  ⟨@C03_lexical_scoping_block_local, @C03_lexical_scoping_assign_outer, @C03_lexical_scoping_global_shadowed,
   @C03_lexical_scoping_global_flag, @C03_lexical_scoping_default, @C03_lexical_scoping_semi_global⟩

/-- concrete instance of (a)/(b): `$x: 1` in the global frame 0, a block frame 1 -/
example : assignTarget (#[{ vars := [("x", .num 1)] }, {}] : Array Frame) [1, 0] "x" false true = some 0 ∧
    assignTarget (#[{ vars := [("x", .num 1)] }, {}] : Array Frame) [1, 0] "x" false false = some 1 ∧
    assignTarget (#[{ vars := [("x", .num 1)] }, {}] : Array Frame) [1, 0] "y" false true = some 1 ∧
    assignTarget (#[{ vars := [("x", .num 1)] }, {}] : Array Frame) [1, 0] "y" true false = some 0 := by
  decide

/-! ### concrete instances (hypotheses of the growth theorems are satisfiable) -/

/-- a heap where the global frame declares `$x: 1`, the function `f() { @return $x }` and the mixin
    `m { @content }`; a caller frame 1 declares its own `$x: 2` -/
def exHeap : Array Frame :=
  #[{ vars := [("x", .num 1)],
      fns := [("f", { params := ⟨[], none⟩, body := [.ret (.var "x")], env := [0] })],
      mixins := [("m", { params := ⟨[], none⟩, body := [.content ⟨[], [], none⟩], env := [0] })] },
    { vars := [("x", .num 2)] }]

def exSt : St := { heap := exHeap, css := #[], log := #[] }
def exCtx : Ctx := { dev := Dev.spec, env := [1, 0], semi := false, content := none, sel := ["a"], inFn := false }

/-- called from a scope whose own `$x` is 2, `f()` still returns the defining scope's `$x` = 1 -/
example : ∃ s, (run 4).expr exCtx (.call "f" [] [] none) exSt = .ok (.num 1) s := by
  refine ⟨{ exSt with heap := exSt.heap.push {}, work := exSt.work - 1 }, ?_⟩
  rw [C03_closure_captures_definition_scope 0 exCtx "f" "x" [0] exSt rfl (by decide) (by decide)]
  rfl

example : lookupVar exHeap [1, 0] "x" = some (.num 2) ∧ lookupVar exHeap [0] "x" = some (.num 1) := ⟨rfl, rfl⟩

/-- hypotheses of `C03_content_in_caller_scope` / `C03_closure_mixin_body_in_definition_scope` -/
example : lookupMixin exSt.heap exCtx.env "m" =
    some { params := ⟨[], none⟩, body := [.content ⟨[], [], none⟩], env := [0] } := rfl

example : findFrame exHeap [0] "y" = none ∧ findFrame exHeap [1, 0] "x" = some 1 ∧ findFrame exHeap [0] "x" = some 0 :=
  ⟨rfl, rfl, rfl⟩

/-! ### as-found witnesses for the repaired findings N2 and N4 (tree before e36bfd5 / e10570a) -/

/-- N2: before the repair a space-separated list spread into a rest parameter arrived
    comma-separated; now (and in the specification) it keeps its separator, and arguments passed
    one by one give a comma list. -/
theorem C03_asFound_rest_separator :
    restSep Dev.asFound .space = .comma ∧ restSep Dev.now .space = .space ∧
    (∀ s, restSep Dev.now s = restSep Dev.spec s) ∧ restSep Dev.spec .undecided = .comma := by
  refine ⟨by decide, by decide, ?_, by decide⟩
  intro s; cases s <;> decide

/-- N4: before the repair `@debug "foo"` / `@warn "foo"` delivered the quotes; now (and in the
    specification) the string's text. -/
theorem C03_asFound_message_quotes :
    messageText Dev.asFound true (.str "foo" true) = (Value.str "foo" true).inspect ∧
    messageText Dev.asFound false (.str "foo" true) = (Value.str "foo" true).toCss ∧
    messageText Dev.now true (.str "foo" true) = .ok "foo" ∧
    messageText Dev.now false (.str "foo" true) = .ok "foo" := by
  refine ⟨rfl, rfl, ?_, ?_⟩ <;> simp [messageText, Dev.now, printable, plainText]

end Grass.Eval
