import Grass.Color
import Grass.Generated.CssColorsRef
/-
  C15 — Colours keep channels in range and agree across spellings and colour spaces.
-/
namespace Grass.Color
open Grass.Generated

/-- grass's `name_to_rgba` is the CSS table: every entry of one is an entry of the other. -/
theorem C15_named_table_eq_css :
    nameToRgba.all (fun e => cssColorsRef.contains e) = true ∧
    cssColorsRef.all (fun e => nameToRgba.contains e) = true ∧
    nameToRgba.length = cssColorsRef.length := by
  decide +kernel

end Grass.Color
