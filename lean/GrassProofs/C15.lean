import Grass.Color
import Grass.Generated.CssColorsRef
import GrassProofs.Lemmas.ColorNum
import GrassProofs.Lemmas.ColorConv
import GrassProofs.Lemmas.ColorRoundTrip
import GrassProofs.Lemmas.ColorHwb
/-
  C15 — Colours keep channels in range and agree across spellings and colour spaces.

  Everything is about the model of the code as it stands in /repo (`mix false`, `lightness false`);
  the variants found on the pinned tree (`asFound = true`: D14 rounded `lightness()`, D21 unrounded
  `mix()`) appear only in the `C15_asFound_…` witnesses at the end.

  P̂ (Grass/Color.lean): `Color.inRange` (integer channels in [0,255], alpha in [0,1]), `Color.wf` (the
  invariant that implies it and is preserved by every function), `sameColor` (equal under grass's
  `==` and printed identically in compressed mode).
-/
namespace Grass.Color
open Grass.Generated

/-! ## 1. The named-colour table is the CSS table -/

/-- grass's `name_to_rgba` (regenerated from color/name.rs on every run) and the committed CSS
    reference table contain exactly the same (name, rgba) entries, and no name occurs twice. -/
theorem C15_named_table_eq_css :
    nameToRgba.all (fun e => cssColorsRef.contains e) = true ∧
    cssColorsRef.all (fun e => nameToRgba.contains e) = true ∧
    nameToRgba.length = cssColorsRef.length ∧
    (nameToRgba.map (·.1)).eraseDups.length = nameToRgba.length := by
  decide +kernel

example : lookupName [114, 101, 100] = some (255, 0, 0, 255) := by decide +kernel  -- "red"

/-- The reverse table used by the serializer is consistent with the forward table: every
    `rgb ↦ name` entry names a colour whose value is that rgb (opaque), and every opaque named
    colour's rgb has a reverse entry — so a colour written by name is printed by a name (possibly the
    other of a synonym pair such as aqua/cyan, gray/grey, fuchsia/magenta) of the same colour. -/
theorem C15_named_reverse_consistent :
    rgbaToName.all (fun e => lookupName e.2 == some (e.1.1, e.1.2.1, e.1.2.2, 255)) = true ∧
    nameToRgba.all (fun e => e.2.2.2.2 != 255 ||
      match lookupRgb (e.2.1, e.2.2.1, e.2.2.2.1) with
      | some n => lookupName n == some e.2
      | none => false) = true := by
  decide +kernel

example : lookupRgb (0, 255, 255) = some [97, 113, 117, 97] := by decide +kernel  -- aqua (cyan is its synonym)

/-! ## 2. Channels stay in range -/

/-- the stored channels and raw alpha of a result, for the `example`s -/
def chansOf : Except Err Color → Option (Rat × Rat × Rat × Rat)
  | .ok c => some (c.r, c.g, c.b, c.a)
  | .error _ => none

theorem wf_inRange {c : Color} (h : c.wf = true) : c.inRange = true := by
  simp only [Color.wf, Bool.and_eq_true, Bool.or_eq_true, decide_eq_true_eq, beq_iff_eq] at h
  obtain ⟨⟨⟨hr, hg⟩, hb⟩, ha⟩ := h
  have key : 0 ≤ c.alpha ∧ c.alpha ≤ 1 := by
    unfold Color.alpha
    rcases ha with ⟨a0, a1⟩ | a255
    · split <;> grind
    · simp only [a255]; decide +kernel
  simp [Color.inRange, hr, hg, hb, key.1, key.2]

theorem wf_alpha {c : Color} (h : c.wf = true) : 0 ≤ c.alpha ∧ c.alpha ≤ 1 := by
  have := wf_inRange h
  simp only [Color.inRange, Bool.and_eq_true, decide_eq_true_eq] at this
  exact ⟨this.1.2, this.2⟩

theorem wf_mk {r g b a : Rat} {h : Option Hsl} {f : Fmt} (hr : chanOk r = true) (hg : chanOk g = true)
    (hb : chanOk b = true) (a0 : 0 ≤ a) (a1 : a ≤ 1) :
    ({ r := r, g := g, b := b, a := a, hsl := h, fmt := f } : Color).wf = true := by
  simp [Color.wf, hr, hg, hb, a0, a1]

/-- `from_rgba` / `from_rgba_fn` with integer channels (every caller passes rounded channels). -/
theorem fromRgba_wf {r g b : Rat} (a : Rat) (hr : isInt r = true) (hg : isInt g = true) (hb : isInt b = true) :
    (fromRgba r g b a).wf = true ∧ (fromRgbaFn r g b a).wf = true := by
  have ⟨a0, a1⟩ := clamp_bounds a 0 1 (by decide +kernel)
  exact ⟨wf_mk (chanOk_clamp hr) (chanOk_clamp hg) (chanOk_clamp hb) a0 a1,
         wf_mk (chanOk_clamp hr) (chanOk_clamp hg) (chanOk_clamp hb) a0 a1⟩

/-- rgb()/rgba() with numeric arguments: whatever the arguments, a produced colour is in range. -/
theorem C15_channels_in_range_rgb (r g b : Rat × String) (a : Option (Rat × String)) (c : Color)
    (h : fnRgb r g b a = .ok c) : c.wf = true ∧ c.inRange = true := by
  suffices c.wf = true from ⟨this, wf_inRange this⟩
  unfold fnRgb at h
  split at h
  · split at h
    · cases h; exact (fromRgba_wf _ (fuzzyRound_isInt _) (fuzzyRound_isInt _) (fuzzyRound_isInt _)).2
    · split at h
      · cases h; exact (fromRgba_wf _ (fuzzyRound_isInt _) (fuzzyRound_isInt _) (fuzzyRound_isInt _)).2
      · cases h
  all_goals cases h

example : chansOf (fnRgb (300, "") (-5, "") (255/2, "") (some (50, "pct"))) = some (255, 0, 128, 1/2) := by
  decide +kernel

theorem fromHsla_wf (hue sat light alpha : Rat) (a0 : 0 ≤ alpha) (a1 : alpha ≤ 1) :
    (fromHsla hue sat light alpha).wf = true ∧ (fromHslaFn hue sat light alpha).wf = true := by
  have ⟨h0, h1⟩ := sassMod_bounds hue
  have hb := hslToRgbExact_bounds (hue := sassMod hue 360) (sat := sat) (light := light) h0 h1
  simp only [fromHslaFn, fromHsla]
  generalize hslToRgbExact (sassMod hue 360) sat light = t at hb ⊢
  obtain ⟨r, g, b⟩ := t
  simp only [] at hb ⊢
  obtain ⟨⟨r0, r1⟩, ⟨g0, g1⟩, ⟨b0, b1⟩⟩ := hb
  exact ⟨wf_mk (chanOk_fuzzyRound r0 r1) (chanOk_fuzzyRound g0 g1) (chanOk_fuzzyRound b0 b1) a0 a1,
         wf_mk (chanOk_fuzzyRound r0 r1) (chanOk_fuzzyRound g0 g1) (chanOk_fuzzyRound b0 b1) a0 a1⟩

theorem pctOrUnitless_bounds {x : Rat} {u : String} {max v : Rat} (hm : 0 ≤ max)
    (h : pctOrUnitless x u max = .ok v) : 0 ≤ v ∧ v ≤ max := by
  unfold pctOrUnitless at h
  split at h
  · cases h; exact clamp_bounds _ _ _ hm
  · split at h
    · cases h; exact clamp_bounds _ _ _ hm
    · cases h

/-- hsl()/hsla() with numeric arguments — any hue, saturation and lightness, also far outside their
    ranges: a produced colour is in range. -/
theorem C15_channels_in_range_hsl (h s l : Rat × String) (a : Option (Rat × String)) (c : Color)
    (hc : fnHsl h s l a = .ok c) : c.wf = true ∧ c.inRange = true := by
  suffices c.wf = true from ⟨this, wf_inRange this⟩
  unfold fnHsl at hc
  split at hc
  · cases hc
  · simp only [] at hc
    split at hc
    · cases hc
    · rename_i alpha ha
      cases hc
      have ⟨a0, a1⟩ := pctOrUnitless_bounds (by decide +kernel) ha
      exact (fromHsla_wf _ _ _ _ a0 a1).2

example : chansOf (fnHsl (-30, "deg") (120, "pct") (50, "pct") none) = some (255, 0, 128, 1) := by
  decide +kernel

theorem fromHwb_wf (hue white black alpha : Rat) (w0 : 0 ≤ white) (b0 : 0 ≤ black) :
    (fromHwb hue white black alpha).wf = true := by
  have hb := hwbToRgbExact_bounds (hue := hue) w0 b0
  unfold fromHwb
  generalize hwbToRgbExact hue white black = t at hb ⊢
  obtain ⟨r, g, b⟩ := t
  simp only [] at hb ⊢
  obtain ⟨⟨r0, r1⟩, ⟨g0, g1⟩, ⟨b0', b1⟩⟩ := hb
  have ⟨a0, a1⟩ := clamp_bounds alpha 0 1 (by decide +kernel)
  exact wf_mk (chanOk_fuzzyRound r0 r1) (chanOk_fuzzyRound g0 g1) (chanOk_fuzzyRound b0' b1) a0 a1

theorem assertBounds_ok {x lo hi : Rat} {u : Unit} (h : assertBounds x lo hi = .ok u) : lo ≤ x ∧ x ≤ hi := by
  unfold assertBounds at h
  split at h
  · rename_i hx; exact ⟨hx.2, hx.1⟩
  · cases h

/-- color.hwb() with numeric arguments: a produced colour is in range. -/
theorem C15_channels_in_range_hwb (h w b : Rat × String) (a : Option (Rat × String)) (c : Color)
    (hc : fnHwb h w b a = .ok c) : c.wf = true ∧ c.inRange = true := by
  suffices c.wf = true from ⟨this, wf_inRange this⟩
  unfold fnHwb at hc
  split at hc
  · cases hc
  · split at hc
    · cases hc
    · split at hc
      · rename_i hw hb
        simp only [] at hc
        split at hc
        · cases hc
        · cases hc
          exact fromHwb_wf _ _ _ _ (assertBounds_ok hw).1 (assertBounds_ok hb).1
      all_goals cases hc

example : chansOf (fnHwb (120, "") (80, "pct") (60, "pct") none) = some (146, 146, 146, 1) := by
  decide +kernel

theorem natCast_le_255 {n : Nat} (h : n ≤ 255) : (n : Rat) ≤ 255 := by
  have := (Rat.natCast_le_natCast (a := n) (b := 255)).mpr h
  simpa using this

theorem chanOk_natCast {n : Nat} (h : n ≤ 255) : chanOk (n : Rat) = true := by
  simp [chanOk, isInt_natCast, Rat.natCast_nonneg, natCast_le_255 h]

theorem alpha255_bounds {n : Nat} (h : n ≤ 255) : 0 ≤ (n : Rat) / 255 ∧ (n : Rat) / 255 ≤ 1 := by
  have a := natCast_le_255 h
  have b : (0 : Rat) ≤ (n : Rat) := Rat.natCast_nonneg
  constructor <;> grind

/-- hex literals (3, 4, 6 or 8 digits): the parsed colour is in range. -/
theorem C15_channels_in_range_hex (ds : List Nat) (t : String) (c : Color) (hd : ∀ d ∈ ds, d < 16)
    (h : ofHexDigits ds t = some c) : c.wf = true ∧ c.inRange = true := by
  suffices c.wf = true from ⟨this, wf_inRange this⟩
  unfold ofHexDigits at h
  split at h
  · cases h
    rename_i d1 d2 d3
    have h1 := hd d1 (by simp); have h2 := hd d2 (by simp); have h3 := hd d3 (by simp)
    exact wf_mk (chanOk_natCast (by omega)) (chanOk_natCast (by omega)) (chanOk_natCast (by omega)) (by decide +kernel) (by decide +kernel)
  · cases h
    rename_i d1 d2 d3 d4
    have h1 := hd d1 (by simp); have h2 := hd d2 (by simp); have h3 := hd d3 (by simp); have h4 := hd d4 (by simp)
    have ⟨a0, a1⟩ := alpha255_bounds (n := d4 * 16 + d4) (by omega)
    exact wf_mk (chanOk_natCast (by omega)) (chanOk_natCast (by omega)) (chanOk_natCast (by omega)) a0 a1
  · cases h
    rename_i d1 d2 d3 d4 d5 d6
    have h1 := hd d1 (by simp); have h2 := hd d2 (by simp); have h3 := hd d3 (by simp); have h4 := hd d4 (by simp)
    have h5 := hd d5 (by simp); have h6 := hd d6 (by simp)
    exact wf_mk (chanOk_natCast (by omega)) (chanOk_natCast (by omega)) (chanOk_natCast (by omega)) (by decide +kernel) (by decide +kernel)
  · cases h
    rename_i d1 d2 d3 d4 d5 d6 d7 d8
    have h1 := hd d1 (by simp); have h2 := hd d2 (by simp); have h3 := hd d3 (by simp); have h4 := hd d4 (by simp)
    have h5 := hd d5 (by simp); have h6 := hd d6 (by simp); have h7 := hd d7 (by simp); have h8 := hd d8 (by simp)
    have ⟨a0, a1⟩ := alpha255_bounds (n := d7 * 16 + d8) (by omega)
    exact wf_mk (chanOk_natCast (by omega)) (chanOk_natCast (by omega)) (chanOk_natCast (by omega)) a0 a1
  · cases h

example : (ofHexDigits [10, 11, 12, 8] "#abc8").map (fun c => (c.r, c.g, c.b, c.a)) = some (170, 187, 204, 136/255) := by
  decide +kernel

theorem named_table_values_ok :
    nameToRgba.all (fun e => decide (e.2.1 ≤ 255) && decide (e.2.2.1 ≤ 255) && decide (e.2.2.2.1 ≤ 255)
      && (e.2.2.2.2 == 0 || e.2.2.2.2 == 255)) = true := by
  decide +kernel

/-- named colours: the colour the parser builds is in range (raw alpha 255 reads back as 1). -/
theorem C15_channels_in_range_named (codes : List Nat) (t : String) (c : Color)
    (h : ofNameCodes codes t = some c) : c.wf = true ∧ c.inRange = true := by
  suffices c.wf = true from ⟨this, wf_inRange this⟩
  unfold ofNameCodes at h
  split at h
  · rename_i r g b a hl
    cases h
    unfold lookupName at hl
    cases hf : nameToRgba.find? (fun e => e.1 == codes.map lowerCode) with
    | none => simp [hf] at hl
    | some e =>
      simp [hf] at hl
      have hm := List.mem_of_find?_eq_some hf
      have ok := List.all_eq_true.mp named_table_values_ok e hm
      rw [hl] at ok
      simp only [Bool.and_eq_true, decide_eq_true_eq, Bool.or_eq_true, beq_iff_eq] at ok
      obtain ⟨⟨⟨hr, hg⟩, hb⟩, ha⟩ := ok
      have cr := chanOk_natCast hr; have cg := chanOk_natCast hg; have cb := chanOk_natCast hb
      rcases ha with ha | ha <;> subst ha
      · exact wf_mk cr cg cb (by simp) (by simp; decide +kernel)
      · simp [newNamed, Color.wf, cr, cg, cb]
  · cases h

example : (ofNameCodes [82, 101, 68] "ReD").map (fun c => (c.r, c.g, c.b, c.a)) = some (255, 0, 0, 255) := by
  decide +kernel

/-! ## 3. Functions keep colours in range -/

/-- mix(): in range whatever the operands and the weight. -/
theorem C15_channels_in_range_mix (c1 c2 : Color) (w : Rat) :
    (mix false c1 c2 w).wf = true ∧ (mix false c1 c2 w).inRange = true := by
  suffices (mix false c1 c2 w).wf = true from ⟨this, wf_inRange this⟩
  unfold mix
  generalize mixPre c1 c2 w = t
  obtain ⟨r, g, b, a⟩ := t
  simp only [Bool.false_eq_true, if_false]
  exact (fromRgba_wf _ (fuzzyRound_isInt _) (fuzzyRound_isInt _) (fuzzyRound_isInt _)).1

theorem C15_channels_in_range_invert (c : Color) (w : Rat) (h : c.wf = true) :
    (invert false c w).wf = true ∧ (invert false c w).inRange = true := by
  suffices (invert false c w).wf = true from ⟨this, wf_inRange this⟩
  unfold invert
  split
  · exact h
  · exact (C15_channels_in_range_mix _ _ _).1

theorem asHsla_alpha (c : Color) : c.asHsla.2.2.2 = c.alpha := by
  unfold Color.asHsla
  split
  · rfl
  · generalize rgbToHsl (c.red / 255) (c.green / 255) (c.blue / 255) = t
    obtain ⟨h, s, l⟩ := t
    rfl

/-- adjust-hue, lighten, darken, saturate, desaturate, complement: in range for any amount. -/
theorem C15_channels_in_range_hsl_functions (c : Color) (x : Rat) (h : c.wf = true) :
    (adjustHue c x).wf = true ∧ (lighten c x).wf = true ∧ (darken c x).wf = true ∧
    (saturate c x).wf = true ∧ (desaturate c x).wf = true ∧ (complement c).wf = true := by
  have ⟨a0, a1⟩ := wf_alpha h
  have e := asHsla_alpha c
  unfold adjustHue lighten darken saturate desaturate complement
  generalize c.asHsla = t at e
  obtain ⟨hh, s, l, a⟩ := t
  simp only [] at e ⊢
  subst e
  exact ⟨(fromHsla_wf _ _ _ _ a0 a1).1, (fromHsla_wf _ _ _ _ a0 a1).1, (fromHsla_wf _ _ _ _ a0 a1).1,
    (fromHsla_wf _ _ _ _ a0 a1).1, (fromHsla_wf _ _ _ _ a0 a1).1, (fromHsla_wf _ _ _ _ a0 a1).1⟩

/-- rgba($color, $alpha), opacify/fade-in, transparentize/fade-out: in range for any amount. -/
theorem C15_channels_in_range_alpha_functions (c : Color) (x : Rat) :
    (withAlpha c x).wf = true ∧ (fadeIn c x).wf = true ∧ (fadeOut c x).wf = true :=
  ⟨(fromRgba_wf _ (roundQ_isInt _) (roundQ_isInt _) (roundQ_isInt _)).1,
   (fromRgba_wf _ (roundQ_isInt _) (roundQ_isInt _) (roundQ_isInt _)).1,
   (fromRgba_wf _ (roundQ_isInt _) (roundQ_isInt _) (roundQ_isInt _)).1⟩

example : (lighten (newRgba 18 52 87 1 .infer) (1/10)).wf = true := by decide +kernel

/-! ## 4. Same colour through different spellings -/

theorem visitColor_compressed_congr {c d : Color} (hr : c.r = d.r) (hg : c.g = d.g) (hb : c.b = d.b)
    (ha : c.alpha = d.alpha) : visitColor true c = visitColor true d := by
  simp only [visitColor, writeRgb, Color.red, Color.green, Color.blue, hr, hg, hb, ha, if_true]

/-- Colours with the same stored channels and the same alpha (raw alphas equal, or both the “opaque”
    raw values ≥ 1 that names and literals use) are equal under grass's `==` and print identically
    in compressed mode — whatever spelling (`fmt`) they came from. -/
theorem C15_spellings_equal_and_print_same {c d : Color} (hr : c.r = d.r) (hg : c.g = d.g) (hb : c.b = d.b)
    (ha : c.alpha = d.alpha) (hraw : (1 ≤ c.a ∧ 1 ≤ d.a) ∨ c.a = d.a) : sameColor c d = true := by
  unfold sameColor
  rw [visitColor_compressed_congr hr hg hb ha]
  simp only [Color.eq, Color.chanEq, hr, hg, hb, fuzzyEq_self, beq_self_eq_true, Bool.and_true]
  rcases hraw with ⟨h1, h2⟩ | h
  · simp [h1, h2]
  · simp [h, fuzzyEq_self]

theorem alpha_of_le_one {c : Color} (h : c.a ≤ 1) : c.alpha = c.a := by
  unfold Color.alpha; split <;> grind

theorem chanOk_255_sub {x : Rat} (h : chanOk x = true) : chanOk (255 - x) = true := by
  have ⟨hi, h0, h1⟩ := chanOk_bounds h
  have e := eq_intCast_of_isInt hi
  have : isInt (255 - x) = true := by
    rw [e]
    have : (255 : Rat) - ((x.num : Int) : Rat) = ((255 - x.num : Int) : Rat) := by
      simp [Rat.intCast_sub]
    rw [this]; exact isInt_intCast _
  simp [chanOk, this]
  constructor <;> grind

theorem wf_chan {c : Color} (h : c.wf = true) : chanOk c.r = true ∧ chanOk c.g = true ∧ chanOk c.b = true := by
  simp only [Color.wf, Bool.and_eq_true] at h
  exact ⟨h.1.1.1, h.1.1.2, h.1.2⟩

theorem wf_red {c : Color} (h : c.wf = true) : c.red = c.r ∧ c.green = c.g ∧ c.blue = c.b := by
  have ⟨a, b, d⟩ := wf_chan h
  exact ⟨roundQ_of_isInt (chanOk_bounds a).1, roundQ_of_isInt (chanOk_bounds b).1, roundQ_of_isInt (chanOk_bounds d).1⟩

/-- A result with the channels of `c` and raw alpha `c.alpha` is the same colour as `c`. -/
theorem sameColor_of_chan {c d : Color} (hw : c.wf = true) (hr : d.r = c.r) (hg : d.g = c.g) (hb : d.b = c.b)
    (ha : d.a = c.alpha) : sameColor d c = true := by
  have ⟨a0, a1⟩ := wf_alpha hw
  have da : d.alpha = c.alpha := by rw [alpha_of_le_one (by rw [ha]; exact a1), ha]
  apply C15_spellings_equal_and_print_same hr hg hb da
  simp only [Color.wf, Bool.and_eq_true, Bool.or_eq_true, decide_eq_true_eq, beq_iff_eq] at hw
  rcases hw.2 with ⟨b0, b1⟩ | b255
  · right; rw [ha, alpha_of_le_one b1]
  · left
    have : c.alpha = 1 := by unfold Color.alpha; simp only [b255]; decide +kernel
    rw [ha, this, b255]; decide +kernel

/-! ## 5. mix with weight 100% / 0% returns an operand -/

theorem mixPre_one (c1 c2 : Color) : mixPre c1 c2 1 = (c1.red, c1.green, c1.blue, c1.alpha) := by
  unfold mixPre
  have hc : clamp 1 0 100 = 1 := by decide +kernel
  simp only [hc]
  generalize c1.alpha - c2.alpha = ad
  have cw : (if fuzzyEq ((1 * 2 - 1) * ad) (-1) = true then (1 * 2 - 1 : Rat) else ((1 * 2 - 1) + ad) / (1 + (1 * 2 - 1) * ad)) = 1 := by
    split
    · grind
    · rename_i hne
      have : (1 : Rat) + (1 * 2 - 1) * ad ≠ 0 := by
        intro h0
        apply hne
        have : (1 * 2 - 1) * ad = -1 := by grind
        rw [this]; exact fuzzyEq_self _
      grind
  rw [cw]
  simp only [Prod.mk.injEq]
  refine ⟨?_, ?_, ?_, ?_⟩ <;> grind

theorem mixPre_zero (c1 c2 : Color) : mixPre c1 c2 0 = (c2.red, c2.green, c2.blue, c2.alpha) := by
  unfold mixPre
  have hc : clamp 0 0 100 = 0 := by decide +kernel
  simp only [hc]
  generalize c1.alpha - c2.alpha = ad
  have cw : (if fuzzyEq ((0 * 2 - 1) * ad) (-1) = true then (0 * 2 - 1 : Rat) else ((0 * 2 - 1) + ad) / (1 + (0 * 2 - 1) * ad)) = -1 := by
    split
    · grind
    · rename_i hne
      have : (1 : Rat) + (0 * 2 - 1) * ad ≠ 0 := by
        intro h0
        apply hne
        have : (0 * 2 - 1) * ad = -1 := by grind
        rw [this]; exact fuzzyEq_self _
      grind
  rw [cw]
  simp only [Prod.mk.injEq]
  refine ⟨?_, ?_, ?_, ?_⟩ <;> grind

theorem mix_of_pre {c1 c2 c : Color} {w : Rat} (hw : c.wf = true)
    (h : mixPre c1 c2 w = (c.red, c.green, c.blue, c.alpha)) :
    let d := mix false c1 c2 w
    d.r = c.r ∧ d.g = c.g ∧ d.b = c.b ∧ d.a = c.alpha := by
  have ⟨cr, cg, cb⟩ := wf_chan hw
  have ⟨er, eg, eb⟩ := wf_red hw
  have ⟨a0, a1⟩ := wf_alpha hw
  simp only [mix, h, er, eg, eb, Bool.false_eq_true, if_false, fromRgba, newRgba,
    fuzzyRound_of_isInt (chanOk_bounds cr).1, fuzzyRound_of_isInt (chanOk_bounds cg).1,
    fuzzyRound_of_isInt (chanOk_bounds cb).1, clamp_chanOk cr, clamp_chanOk cg, clamp_chanOk cb, clamp_id a0 a1]
  refine ⟨?_, ?_, ?_, ?_⟩ <;> first | trivial | rfl

/-- mix($a, $b, 100%) is `$a` and mix($a, $b, 0%) is `$b` (same colour: `==` and compressed print),
    for all colours, also with different alphas. -/
theorem C15_mix_weight_0_100 (c1 c2 : Color) (h1 : c1.wf = true) (h2 : c2.wf = true) :
    sameColor (mix false c1 c2 1) c1 = true ∧ sameColor (mix false c1 c2 0) c2 = true := by
  have ⟨a, b, c, d⟩ := mix_of_pre h1 (mixPre_one c1 c2)
  have ⟨a', b', c', d'⟩ := mix_of_pre h2 (mixPre_zero c1 c2)
  exact ⟨sameColor_of_chan h1 a b c d, sameColor_of_chan h2 a' b' c' d'⟩

example : sameColor (mix false (newRgba 10 20 30 (1/2) .infer) (newNamed 255 0 0 255 "red") 1) (newRgba 10 20 30 (1/2) .infer) = true := by
  decide +kernel

/-! ## 6. invert twice -/

theorem invert_full (c : Color) (h : c.wf = true) :
    let d := invert false c 1
    d.r = 255 - c.r ∧ d.g = 255 - c.g ∧ d.b = 255 - c.b ∧ d.a = c.alpha := by
  have ⟨cr, cg, cb⟩ := wf_chan h
  have ⟨er, eg, eb⟩ := wf_red h
  have ⟨a0, a1⟩ := wf_alpha h
  have hz : fuzzyEq 1 0 = false := by decide +kernel
  have iw : (inverseOf c).wf = true := by
    unfold inverseOf newRgba
    rw [er, eg, eb]
    exact wf_mk (chanOk_255_sub cr) (chanOk_255_sub cg) (chanOk_255_sub cb) a0 a1
  have key := mix_of_pre (c1 := inverseOf c) (c2 := c) (w := 1) iw (mixPre_one _ _)
  simp only [invert, hz, Bool.false_eq_true, if_false]
  have ia : (inverseOf c).alpha = c.alpha := alpha_of_le_one (c := inverseOf c) a1
  obtain ⟨k1, k2, k3, k4⟩ := key
  refine ⟨?_, ?_, ?_, ?_⟩
  · rw [k1]; simp [inverseOf, newRgba, er]
  · rw [k2]; simp [inverseOf, newRgba, eg]
  · rw [k3]; simp [inverseOf, newRgba, eb]
  · rw [k4, ia]

/-- invert(invert($c)) is `$c` for every colour grass can build. -/
theorem C15_invert_invert (c : Color) (h : c.wf = true) :
    sameColor (invert false (invert false c 1) 1) c = true := by
  have ⟨a, b, d, e⟩ := invert_full c h
  have hw := (C15_channels_in_range_invert c 1 h).1
  have ⟨a', b', d', e'⟩ := invert_full _ hw
  have ⟨a0, a1⟩ := wf_alpha h
  apply sameColor_of_chan h
  · rw [a', a]; grind
  · rw [b', b]; grind
  · rw [d', d]; grind
  · rw [e', alpha_of_le_one (by rw [e]; exact a1), e]

example : sameColor (invert false (invert false (newNamed 18 52 87 255 "x") 1) 1) (newNamed 18 52 87 255 "x") = true := by
  decide +kernel

/-! ## 7. opacify / transparentize clamp -/

/-- opacify/transparentize keep the channels and clamp the alpha into [0,1]. -/
theorem C15_opacify_transparentize_clamp (c : Color) (x : Rat) (h : c.wf = true) :
    (fadeIn c x).alpha = clamp (c.alpha + x) 0 1 ∧ (fadeOut c x).alpha = clamp (c.alpha - x) 0 1 ∧
    (fadeIn c 1).alpha = 1 ∧ (fadeOut c 1).alpha = 0 ∧
    (fadeIn c x).r = c.r ∧ (fadeIn c x).g = c.g ∧ (fadeIn c x).b = c.b ∧
    (fadeOut c x).r = c.r ∧ (fadeOut c x).g = c.g ∧ (fadeOut c x).b = c.b := by
  have ⟨cr, cg, cb⟩ := wf_chan h
  have ⟨er, eg, eb⟩ := wf_red h
  have ⟨a0, a1⟩ := wf_alpha h
  have A : ∀ y : Rat, (fromRgba c.red c.green c.blue y).alpha = clamp y 0 1 := by
    intro y
    exact alpha_of_le_one (c := fromRgba c.red c.green c.blue y) (clamp_bounds y 0 1 (by decide +kernel)).2
  have one : clamp (c.alpha + 1) 0 1 = 1 := by
    rcases clamp_cases (c.alpha + 1) 0 1 (by decide +kernel) with ⟨e, _, _⟩ | ⟨e, _⟩ | ⟨e, _⟩ <;> grind
  have zero : clamp (c.alpha - 1) 0 1 = 0 := by
    rcases clamp_cases (c.alpha - 1) 0 1 (by decide +kernel) with ⟨e, _, _⟩ | ⟨e, _⟩ | ⟨e, _⟩ <;> grind
  refine ⟨A _, A _, ?_, ?_, ?_, ?_, ?_, ?_, ?_, ?_⟩
  · show (fromRgba c.red c.green c.blue (c.alpha + 1)).alpha = 1
    rw [A, one]
  · show (fromRgba c.red c.green c.blue (c.alpha - 1)).alpha = 0
    rw [A, zero]
  all_goals simp [fadeIn, fadeOut, fromRgba, newRgba, er, eg, eb, clamp_chanOk cr, clamp_chanOk cg, clamp_chanOk cb]

/-! ## 8. rgb → hsl → rgb -/

theorem sep_of_nat (r g b : Nat) : Sep ((r : Rat) / 255) ((g : Rat) / 255) ((b : Rat) / 255) := by
  intro u v hu hv
  rcases hu with rfl | rfl | rfl <;> rcases hv with rfl | rfl | rfl <;> exact sep_natCast _ _

theorem unit_of_nat {n : Nat} (h : n ≤ 255) : 0 ≤ (n : Rat) / 255 ∧ (n : Rat) / 255 ≤ 1 := alpha255_bounds h

/-- **Round trip, symbolic, all 2^24 colours**: converting an 8-bit RGB colour to HSL (`as_hsla`, with
    its fuzzy comparisons) and back (`from_hsla`, before the final rounding) returns exactly the
    original channels.  Proved over the six orderings of max/min in `Rat`
    (Lemmas/ColorRoundTrip.lean: `roundtripE` for all rationals in [0,1], `rgbToHsl_eq_E` for k/255). -/
theorem C15_rgb_hsl_rgb_roundtrip (r g b : Nat) (hr : r ≤ 255) (hg : g ≤ 255) (hb : b ≤ 255) :
    hslToRgbExact (rgbToHsl ((r : Rat) / 255) ((g : Rat) / 255) ((b : Rat) / 255)).1
      (rgbToHsl ((r : Rat) / 255) ((g : Rat) / 255) ((b : Rat) / 255)).2.1
      (rgbToHsl ((r : Rat) / 255) ((g : Rat) / 255) ((b : Rat) / 255)).2.2 = ((r : Rat), (g : Rat), (b : Rat)) := by
  have ⟨r0, r1⟩ := unit_of_nat hr
  have ⟨g0, g1⟩ := unit_of_nat hg
  have ⟨b0, b1⟩ := unit_of_nat hb
  rw [rgbToHsl_eq_E (sep_of_nat r g b) r0 r1 g0 g1 b0 b1, roundtripE r0 r1 g0 g1 b0 b1]
  simp only [Prod.mk.injEq]
  refine ⟨?_, ?_, ?_⟩ <;> grind

example : rgbToHsl (18/255) (52/255) (87/255) = (4840/23, 23/35, 7/34) := by decide +kernel

theorem chanOk_nat {x : Rat} (h : chanOk x = true) : ∃ n : Nat, n ≤ 255 ∧ x = (n : Rat) := by
  have ⟨hi, h0, h1⟩ := chanOk_bounds h
  have e := eq_intCast_of_isInt hi
  have n0 : 0 ≤ x.num := by
    have : (0 : Rat) ≤ ((x.num : Int) : Rat) := by rw [← e]; exact h0
    exact Rat.intCast_nonneg.mp this
  have n1 : x.num ≤ 255 := by
    have : ((x.num : Int) : Rat) ≤ ((255 : Int) : Rat) := by rw [← e]; simpa using h1
    exact Rat.intCast_le_intCast.mp this
  refine ⟨x.num.toNat, by omega, ?_⟩
  have t1 : ((x.num.toNat : Nat) : Int) = x.num := Int.toNat_of_nonneg n0
  have t2 : ((x.num.toNat : Nat) : Rat) = ((x.num : Int) : Rat) := by rw [← Rat.intCast_natCast, t1]
  rw [t2]; exact e

theorem rgbToHsl_hue_bounds (x y z : Rat) : 0 ≤ (rgbToHsl x y z).1 ∧ (rgbToHsl x y z).1 < 360 := by
  simp only [rgbToHsl]
  exact sassMod_bounds _

/-- the stored HSL of a colour, when present, is what the colour was built from (`from_hsla`) -/
def hslConsistent (c : Color) : Prop :=
  match c.hsl with
  | none => True
  | some h => 0 ≤ h.hue ∧ h.hue < 360 ∧ 0 ≤ h.sat ∧ h.sat ≤ 1 ∧ 0 ≤ h.lum ∧ h.lum ≤ 1 ∧
      c.r = fuzzyRound (hslToRgbExact h.hue h.sat h.lum).1 ∧
      c.g = fuzzyRound (hslToRgbExact h.hue h.sat h.lum).2.1 ∧
      c.b = fuzzyRound (hslToRgbExact h.hue h.sat h.lum).2.2

theorem fromHsla_fields (h s l a : Rat) :
    (fromHsla h s l a).r = fuzzyRound (hslToRgbExact (sassMod h 360) s l).1 ∧
    (fromHsla h s l a).g = fuzzyRound (hslToRgbExact (sassMod h 360) s l).2.1 ∧
    (fromHsla h s l a).b = fuzzyRound (hslToRgbExact (sassMod h 360) s l).2.2 ∧
    (fromHsla h s l a).a = a ∧
    (fromHsla h s l a).hsl = some { hue := sassMod h 360, sat := clamp s 0 1, lum := clamp l 0 1 } := by
  simp only [fromHsla]
  generalize hslToRgbExact (sassMod h 360) s l = t
  obtain ⟨r, g, b⟩ := t
  refine ⟨?_, ?_, ?_, ?_, ?_⟩ <;> first | trivial | rfl

theorem hslToRgbExact_clamp (h s l : Rat) :
    hslToRgbExact h (clamp s 0 1) (clamp l 0 1) = hslToRgbExact h s l := by
  have cs : clamp (clamp s 0 1) 0 1 = clamp s 0 1 := by
    have ⟨a, b⟩ := clamp_bounds s 0 1 (by decide +kernel); exact clamp_id a b
  have cl : clamp (clamp l 0 1) 0 1 = clamp l 0 1 := by
    have ⟨a, b⟩ := clamp_bounds l 0 1 (by decide +kernel); exact clamp_id a b
  simp only [hslToRgbExact, cs, cl]

theorem fromHsla_consistent (h s l a : Rat) : hslConsistent (fromHsla h s l a) := by
  have ⟨f1, f2, f3, _, f5⟩ := fromHsla_fields h s l a
  have ⟨h0, h1⟩ := sassMod_bounds h
  have ⟨s0, s1⟩ := clamp_bounds s 0 1 (by decide +kernel)
  have ⟨l0, l1⟩ := clamp_bounds l 0 1 (by decide +kernel)
  unfold hslConsistent
  rw [f5]
  simp only [hslToRgbExact_clamp]
  exact ⟨h0, h1, s0, s1, l0, l1, f1, f2, f3⟩

/-- `from_hsla(as_hsla(c))` rebuilds `c`'s channels — by the round trip for colours that store only
    RGB, by construction for colours that keep the HSL they were built from. -/
theorem rebuild (c : Color) (hw : c.wf = true) (hc : hslConsistent c) :
    (fromHsla c.asHsla.1 c.asHsla.2.1 c.asHsla.2.2.1 c.asHsla.2.2.2).r = c.r ∧
    (fromHsla c.asHsla.1 c.asHsla.2.1 c.asHsla.2.2.1 c.asHsla.2.2.2).g = c.g ∧
    (fromHsla c.asHsla.1 c.asHsla.2.1 c.asHsla.2.2.1 c.asHsla.2.2.2).b = c.b ∧
    (fromHsla c.asHsla.1 c.asHsla.2.1 c.asHsla.2.2.1 c.asHsla.2.2.2).a = c.alpha := by
  have ⟨cr, cg, cb⟩ := wf_chan hw
  have ⟨er, eg, eb⟩ := wf_red hw
  have ha := asHsla_alpha c
  have ⟨f1, f2, f3, f4, _⟩ := fromHsla_fields c.asHsla.1 c.asHsla.2.1 c.asHsla.2.2.1 c.asHsla.2.2.2
  rw [f1, f2, f3, f4, ha]
  refine ⟨?_, ?_, ?_, rfl⟩
  all_goals
    unfold hslConsistent at hc
    unfold Color.asHsla
    cases hh : c.hsl with
    | some h =>
      rw [hh] at hc
      simp only [] at hc ⊢
      obtain ⟨h0, h1, _, _, _, _, k1, k2, k3⟩ := hc
      rw [sassMod_id h0 h1]
      first | exact k1.symm | exact k2.symm | exact k3.symm
    | none =>
      simp only []
      obtain ⟨nr, hnr, enr⟩ := chanOk_nat cr
      obtain ⟨ng, hng, eng⟩ := chanOk_nat cg
      obtain ⟨nb, hnb, enb⟩ := chanOk_nat cb
      rw [er, eg, eb, enr, eng, enb]
      have hb := rgbToHsl_hue_bounds ((nr : Rat) / 255) ((ng : Rat) / 255) ((nb : Rat) / 255)
      have rt := C15_rgb_hsl_rgb_roundtrip nr ng nb hnr hng hnb
      generalize rgbToHsl ((nr : Rat) / 255) ((ng : Rat) / 255) ((nb : Rat) / 255) = t at hb rt
      obtain ⟨th, ts, tl⟩ := t
      simp only [] at hb rt ⊢
      rw [sassMod_id hb.1 hb.2, rt]
      simp only []
      first | exact fuzzyRound_of_isInt (isInt_natCast _)

/-- the same statement at the level of colours: `from_hsla(as_hsla(c))` is the same colour as `c` -/
theorem C15_rgb_hsl_rgb_roundtrip_color (c : Color) (hw : c.wf = true) (hc : hslConsistent c) :
    sameColor (fromHsla c.asHsla.1 c.asHsla.2.1 c.asHsla.2.2.1 c.asHsla.2.2.2) c = true := by
  have ⟨a, b, d, e⟩ := rebuild c hw hc
  exact sameColor_of_chan hw a b d e

example : hslConsistent (newRgba 18 52 87 1 .infer) := trivial

/-! ## 9. lighten/darken/saturate/desaturate/adjust-hue by 0, complement twice -/

theorem hslFns_eq (c : Color) (x : Rat) :
    lighten c x = fromHsla c.asHsla.1 c.asHsla.2.1 (c.asHsla.2.2.1 + x) c.asHsla.2.2.2 ∧
    darken c x = fromHsla c.asHsla.1 c.asHsla.2.1 (c.asHsla.2.2.1 - x) c.asHsla.2.2.2 ∧
    saturate c x = fromHsla c.asHsla.1 (clamp (c.asHsla.2.1 + x) 0 1) c.asHsla.2.2.1 c.asHsla.2.2.2 ∧
    desaturate c x = fromHsla c.asHsla.1 (clamp (c.asHsla.2.1 - x) 0 1) c.asHsla.2.2.1 c.asHsla.2.2.2 ∧
    adjustHue c x = fromHsla (c.asHsla.1 + x) c.asHsla.2.1 c.asHsla.2.2.1 c.asHsla.2.2.2 ∧
    complement c = fromHsla (c.asHsla.1 + 180) c.asHsla.2.1 c.asHsla.2.2.1 c.asHsla.2.2.2 := by
  unfold lighten darken saturate desaturate adjustHue complement
  generalize c.asHsla = t
  obtain ⟨h, s, l, a⟩ := t
  exact ⟨rfl, rfl, rfl, rfl, rfl, rfl⟩

theorem hslToRgbExact_clamp_sat (h s l : Rat) : hslToRgbExact h (clamp s 0 1) l = hslToRgbExact h s l := by
  have cs : clamp (clamp s 0 1) 0 1 = clamp s 0 1 := by
    have ⟨a, b⟩ := clamp_bounds s 0 1 (by decide +kernel); exact clamp_id a b
  simp only [hslToRgbExact, cs]

theorem fromHsla_chan_congr {h h' s s' l l' a : Rat}
    (e : hslToRgbExact (sassMod h 360) s l = hslToRgbExact (sassMod h' 360) s' l') :
    (fromHsla h s l a).r = (fromHsla h' s' l' a).r ∧ (fromHsla h s l a).g = (fromHsla h' s' l' a).g ∧
    (fromHsla h s l a).b = (fromHsla h' s' l' a).b ∧ (fromHsla h s l a).a = (fromHsla h' s' l' a).a := by
  have ⟨f1, f2, f3, f4, _⟩ := fromHsla_fields h s l a
  have ⟨g1, g2, g3, g4, _⟩ := fromHsla_fields h' s' l' a
  rw [f1, f2, f3, f4, g1, g2, g3, g4, e]
  exact ⟨rfl, rfl, rfl, rfl⟩

/-- lighten, darken, saturate, desaturate and adjust-hue by 0 return the same colour. -/
theorem C15_hsl_functions_by_zero (c : Color) (hw : c.wf = true) (hc : hslConsistent c) :
    sameColor (lighten c 0) c = true ∧ sameColor (darken c 0) c = true ∧ sameColor (saturate c 0) c = true ∧
    sameColor (desaturate c 0) c = true ∧ sameColor (adjustHue c 0) c = true := by
  have ⟨e1, e2, e3, e4, e5, _⟩ := hslFns_eq c 0
  have ⟨a, b, d, e⟩ := rebuild c hw hc
  have z1 : ∀ x : Rat, x + 0 = x := fun x => by grind
  have z2 : ∀ x : Rat, x - 0 = x := fun x => by grind
  rw [e1, e2, e3, e4, e5]
  simp only [z1, z2]
  have sat := fromHsla_chan_congr (h := c.asHsla.1) (h' := c.asHsla.1) (l := c.asHsla.2.2.1) (l' := c.asHsla.2.2.1)
    (a := c.asHsla.2.2.2) (hslToRgbExact_clamp_sat (sassMod c.asHsla.1 360) c.asHsla.2.1 c.asHsla.2.2.1)
  obtain ⟨s1, s2, s3, s4⟩ := sat
  exact ⟨sameColor_of_chan hw a b d e, sameColor_of_chan hw a b d e,
    sameColor_of_chan hw (s1.trans a) (s2.trans b) (s3.trans d) (s4.trans e),
    sameColor_of_chan hw (s1.trans a) (s2.trans b) (s3.trans d) (s4.trans e),
    sameColor_of_chan hw a b d e⟩

example : sameColor (lighten (newRgba 18 52 87 1 .infer) 0) (newRgba 18 52 87 1 .infer) = true := by decide +kernel

theorem sassMod_add_int (h : Rat) (j : Int) : sassMod (h + 360 * (j : Rat)) 360 = sassMod h 360 := by
  unfold sassMod
  have e : (h + 360 * (j : Rat)) / 360 = h / 360 + (j : Rat) := by grind
  rw [e, Rat.floor_add_intCast]
  simp [Rat.intCast_add]
  grind

theorem sassMod_shift (h : Rat) : sassMod (sassMod (h + 180) 360 + 180) 360 = sassMod h 360 := by
  have e : sassMod (h + 180) 360 + 180 = h + 360 * (((1 - ((h + 180) / 360).floor : Int)) : Rat) := by
    unfold sassMod
    simp [Rat.intCast_sub]
    grind
  rw [e, sassMod_add_int]

theorem asHsla_of_some {c : Color} {h : Hsl} (e : c.hsl = some h) : c.asHsla = (h.hue, h.sat, h.lum, c.alpha) := by
  unfold Color.asHsla; rw [e]

/-- complement(complement($c)) is `$c`: the intermediate colour keeps its exact HSL, so the two
    half-turns cancel and what remains is the rgb → hsl → rgb round trip. -/
theorem C15_complement_complement (c : Color) (hw : c.wf = true) (hc : hslConsistent c) :
    sameColor (complement (complement c)) c = true := by
  have ⟨a0, a1⟩ := wf_alpha hw
  have hal := asHsla_alpha c
  have ⟨_, _, _, _, _, e6⟩ := hslFns_eq c 0
  have ⟨_, _, _, f4, f5⟩ := fromHsla_fields (c.asHsla.1 + 180) c.asHsla.2.1 c.asHsla.2.2.1 c.asHsla.2.2.2
  -- as_hsla of the complement is its stored HSL
  have das : (complement c).asHsla = (sassMod (c.asHsla.1 + 180) 360, clamp c.asHsla.2.1 0 1, clamp c.asHsla.2.2.1 0 1, c.alpha) := by
    have al : (complement c).alpha = c.alpha := by
      rw [e6]; rw [alpha_of_le_one (by rw [f4, hal]; exact a1), f4, hal]
    have hs : (complement c).hsl = some ⟨sassMod (c.asHsla.1 + 180) 360, clamp c.asHsla.2.1 0 1, clamp c.asHsla.2.2.1 0 1⟩ := by
      rw [e6]; exact f5
    rw [asHsla_of_some hs, al]
  have ⟨_, _, _, _, _, e6'⟩ := hslFns_eq (complement c) 0
  rw [e6', das]
  simp only []
  have ⟨a, b, d, e⟩ := rebuild c hw hc
  have cg := fromHsla_chan_congr (h := sassMod (c.asHsla.1 + 180) 360 + 180) (h' := c.asHsla.1)
    (s := clamp c.asHsla.2.1 0 1) (s' := c.asHsla.2.1) (l := clamp c.asHsla.2.2.1 0 1) (l' := c.asHsla.2.2.1)
    (a := c.alpha) (by rw [sassMod_shift, hslToRgbExact_clamp])
  obtain ⟨s1, s2, s3, s4⟩ := cg
  rw [hal] at a b d e
  exact sameColor_of_chan hw (s1.trans a) (s2.trans b) (s3.trans d) (s4.trans e)

example : sameColor (complement (complement (newRgba 18 52 87 1 .infer))) (newRgba 18 52 87 1 .infer) = true := by
  decide +kernel

/-- every constructor produces a colour whose stored HSL (if any) is the one it was built from -/
theorem hslConsistent_constructors (r g b a : Rat) (f : Fmt) (n1 n2 n3 n4 : Nat) (t : String) :
    hslConsistent (newRgba r g b a f) ∧ hslConsistent (newNamed n1 n2 n3 n4 t) ∧ hslConsistent (fromRgba r g b a) ∧
    hslConsistent (fromRgbaFn r g b a) ∧ hslConsistent (fromHwb r g b a) ∧ hslConsistent (fromHsla r g b a) ∧
    hslConsistent (fromHslaFn r g b a) := by
  refine ⟨trivial, trivial, trivial, trivial, ?_, fromHsla_consistent _ _ _ _, ?_⟩
  · unfold fromHwb
    generalize hwbToRgbExact r g b = t
    obtain ⟨x, y, z⟩ := t
    trivial
  · have := fromHsla_consistent r g b a
    unfold hslConsistent at this ⊢
    unfold fromHslaFn
    exact this

/-! ## 10. Hex forms, names, rgb() -/

/-- #rgb = #rrggbb, #rgba = #rrggbbaa, #rgbf = #rgb: same colour (`==` and compressed print). -/
theorem C15_hex_forms_agree (d1 d2 d3 d4 : Nat) (t t' : String) (c c' : Color) :
    (ofHexDigits [d1, d2, d3] t = some c → ofHexDigits [d1, d1, d2, d2, d3, d3] t' = some c' → sameColor c c' = true) ∧
    (ofHexDigits [d1, d2, d3, d4] t = some c → ofHexDigits [d1, d1, d2, d2, d3, d3, d4, d4] t' = some c' → sameColor c c' = true) ∧
    (ofHexDigits [d1, d2, d3, 15] t = some c → ofHexDigits [d1, d2, d3] t' = some c' → sameColor c c' = true) ∧
    (ofHexDigits [d1, d1, d2, d2, d3, d3, 15, 15] t = some c → ofHexDigits [d1, d2, d3] t' = some c' → sameColor c c' = true) := by
  refine ⟨?_, ?_, ?_, ?_⟩
  all_goals
    intro h1 h2
    simp only [ofHexDigits, Option.some.injEq] at h1 h2
    subst h1 h2
    apply C15_spellings_equal_and_print_same <;> simp [newRgba, Color.alpha] <;> decide +kernel

example : (ofHexDigits [10, 11, 12] "#abc").isSome ∧ (ofHexDigits [10, 10, 11, 11, 12, 12] "#aabbcc").isSome := by decide

/-- A named colour, the hex literal of its table value and rgb() of the same channels are the same
    colour; with `C15_named_table_eq_css` the value is the CSS one. -/
theorem C15_name_hex_rgb_agree (r g b : Nat) (hr : r ≤ 255) (hg : g ≤ 255) (hb : b ≤ 255) (t t' : String) (c : Color)
    (h : fnRgb ((r : Rat), "") ((g : Rat), "") ((b : Rat), "") none = .ok c) :
    sameColor (newNamed r g b 255 t) (newRgba r g b 1 (.literal t')) = true ∧
    sameColor (newRgba r g b 1 (.literal t')) c = true := by
  constructor
  · apply C15_spellings_equal_and_print_same <;> simp [newNamed, newRgba, Color.alpha] <;> decide +kernel
  · have cr := chanOk_natCast hr; have cg := chanOk_natCast hg; have cb := chanOk_natCast hb
    have e : c = fromRgbaFn (r : Rat) (g : Rat) (b : Rat) 1 := by
      simp [fnRgb, pctOrUnitless, clamp_chanOk cr, clamp_chanOk cg, clamp_chanOk cb,
        fuzzyRound_of_isInt (isInt_natCast _)] at h
      exact h.symm
    subst e
    have one : clamp 1 0 1 = 1 := by decide +kernel
    apply C15_spellings_equal_and_print_same <;>
      simp [fromRgbaFn, newRgba, Color.alpha, clamp_chanOk cr, clamp_chanOk cg, clamp_chanOk cb, one]

example : (fnRgb (255, "") (0, "") (0, "") none).toOption.isSome = true := by decide +kernel

/-! ### Round trips through the accessors: hsl(hue, saturation, lightness) and hwb(hue, whiteness, blackness) -/

/-- The accessors of an 8-bit RGB colour (no stored HSL) in terms of the exact conversions. -/
theorem accessors_eq (r g b : Nat) :
    let c := newRgba (r : Rat) (g : Rat) (b : Rat) 1 .infer
    let x := (r : Rat) / 255; let y := (g : Rat) / 255; let z := (b : Rat) / 255
    c.hue = hueE x y z ∧ c.saturation / 100 = (rgbToHslE x y z).2.1 ∧ c.lightness false / 100 = (rgbToHslE x y z).2.2 ∧
    c.whiteness * 100 = min3 x y z * 100 ∧ c.blackness * 100 = (1 - max3 x y z) * 100 := by
  intro c x y z
  have er : c.red = (r : Rat) := roundQ_of_isInt (isInt_natCast r)
  have eg : c.green = (g : Rat) := roundQ_of_isInt (isInt_natCast g)
  have eb : c.blue = (b : Rat) := roundQ_of_isInt (isInt_natCast b)
  have hn : c.hsl = none := rfl
  have hs := sep_of_nat r g b
  have F := minmax_facts x y z
  have ⟨w1, w2⟩ := nmin_assoc_div (r : Rat) (g : Rat) (b : Rat)
  simp only [Color.hue, Color.saturation, Color.lightness, Color.whiteness, Color.blackness, hn, er, eg, eb,
    hueE, rgbToHslE, w1, w2, Bool.false_eq_true, if_false]
  show _ ∧ _ ∧ _ ∧ _ ∧ _
  generalize hmn : min3 x y z = mn at F ⊢
  generalize hmx : max3 x y z = mx at F ⊢
  obtain ⟨f1, f2, f3, f4, f5, f6, f7, f8⟩ := F
  have e1 : fuzzyEq mn mx = decide (mn = mx) := fuzzyEq_sep (hs mn mx (by grind) (by grind))
  have e2 : fuzzyEq mx x = decide (mx = x) := fuzzyEq_sep (hs mx x (by grind) (by grind))
  have e3 : fuzzyEq mx y = decide (mx = y) := fuzzyEq_sep (hs mx y (by grind) (by grind))
  simp only [x, y, z] at e1 e2 e3 hmn hmx
  simp only [e1, e2, e3, decide_eq_true_eq]
  refine ⟨?_, ?_, ?_, ?_, ?_⟩
  all_goals first | trivial | rfl | grind | (split <;> grind)

theorem scaled_back (n : Nat) : (n : Rat) / 255 * 255 = (n : Rat) := by grind

/-- **rgb → hwb → rgb, symbolic, all 2^24 colours**: color.hwb(hue(c), whiteness(c), blackness(c)) of an
    8-bit RGB colour is that colour (`==` and compressed print). -/
theorem C15_rgb_hwb_rgb_roundtrip (r g b : Nat) (hr : r ≤ 255) (hg : g ≤ 255) (hb : b ≤ 255) :
    let c := newRgba (r : Rat) (g : Rat) (b : Rat) 1 .infer
    sameColor (fromHwb c.hue (c.whiteness * 100) (c.blackness * 100) 1) c = true := by
  intro c
  have ⟨r0, r1⟩ := unit_of_nat hr
  have ⟨g0, g1⟩ := unit_of_nat hg
  have ⟨b0, b1⟩ := unit_of_nat hb
  obtain ⟨e1, _, _, e4, e5⟩ := accessors_eq r g b
  try simp only [] at e1 e4 e5
  have rt := hwb_roundtripE r0 r1 g0 g1 b0 b1
  have one : clamp 1 0 1 = 1 := by decide +kernel
  have key : hwbToRgbExact c.hue (c.whiteness * 100) (c.blackness * 100) = ((r : Rat), (g : Rat), (b : Rat)) := by
    show hwbToRgbExact (newRgba (r : Rat) (g : Rat) (b : Rat) 1 .infer).hue _ _ = _
    rw [e1, e4, e5, rt]; simp only [scaled_back]
  have F : fromHwb c.hue (c.whiteness * 100) (c.blackness * 100) 1 = c := by
    simp only [fromHwb, key, one, fuzzyRound_of_isInt (isInt_natCast _)]
    rfl
  rw [F]
  exact C15_spellings_equal_and_print_same rfl rfl rfl rfl (Or.inr rfl)

example : (fromHwb (newRgba 18 52 87 1 .infer).hue ((newRgba 18 52 87 1 .infer).whiteness * 100)
    ((newRgba 18 52 87 1 .infer).blackness * 100) 1).b = 87 := by decide +kernel

/-- **hsl(hue(c), saturation(c), lightness(c)), symbolic, all 2^24 colours**: the accessor formulas
    (color/mod.rs:227–297, textually different from `as_hsla`) round-trip every 8-bit RGB colour. -/
theorem C15_hsl_accessors_roundtrip (r g b : Nat) (hr : r ≤ 255) (hg : g ≤ 255) (hb : b ≤ 255) :
    let c := newRgba (r : Rat) (g : Rat) (b : Rat) 1 .infer
    sameColor (fromHslaFn (sassMod c.hue 360) (c.saturation / 100) (c.lightness false / 100) 1) c = true := by
  intro c
  have ⟨r0, r1⟩ := unit_of_nat hr
  have ⟨g0, g1⟩ := unit_of_nat hg
  have ⟨b0, b1⟩ := unit_of_nat hb
  obtain ⟨e1, e2, e3, _, _⟩ := accessors_eq r g b
  try simp only [] at e1 e2 e3
  have rt := roundtripE_acc r0 r1 g0 g1 b0 b1
  have hb' : 0 ≤ hueE ((r : Rat) / 255) ((g : Rat) / 255) ((b : Rat) / 255) ∧
      hueE ((r : Rat) / 255) ((g : Rat) / 255) ((b : Rat) / 255) < 360 := by
    simp only [hueE]; exact sassMod_bounds _
  have ⟨f1, f2, f3, f4, _⟩ := fromHsla_fields (sassMod c.hue 360) (c.saturation / 100) (c.lightness false / 100) 1
  have key : hslToRgbExact (sassMod (sassMod c.hue 360) 360) (c.saturation / 100) (c.lightness false / 100) =
      ((r : Rat), (g : Rat), (b : Rat)) := by
    show hslToRgbExact (sassMod (sassMod (newRgba (r : Rat) (g : Rat) (b : Rat) 1 .infer).hue 360) 360) _ _ = _
    rw [e1, e2, e3, sassMod_id hb'.1 hb'.2, sassMod_id hb'.1 hb'.2, rt]; simp only [scaled_back]
  rw [key] at f1 f2 f3
  simp only [fuzzyRound_of_isInt (isInt_natCast _)] at f1 f2 f3
  exact C15_spellings_equal_and_print_same f1 f2 f3
    (by show Color.alpha (fromHslaFn _ _ _ _) = Color.alpha c
        have : (fromHslaFn (sassMod c.hue 360) (c.saturation / 100) (c.lightness false / 100) 1).a = 1 := f4
        simp only [Color.alpha, this]; rfl)
    (Or.inr f4)

/-! ### change-color / adjust-color / scale-color -/

/-- what `check_num` (other.rs:33) guarantees for an argument that is later used with `max = 1`:
    change-color accepts [0,1], adjust-color and scale-color [-1,1] (after the division by 100 where it applies) -/
def argOk (u : Upd) (v : Option Rat) : Prop :=
  ∀ x, v = some x → (if u = .change then 0 ≤ x else -1 ≤ x) ∧ x ≤ 1

theorem updateValue_unit {cur : Rat} {p : Option Rat} {u : Upd} (c0 : 0 ≤ cur) (c1 : cur ≤ 1) (hp : argOk u p) :
    0 ≤ updateValue cur p 1 u ∧ updateValue cur p 1 u ≤ 1 := by
  unfold updateValue
  cases p with
  | none => exact ⟨c0, c1⟩
  | some x =>
    have ⟨lo, hi⟩ := hp x rfl
    cases u with
    | change => simpa using ⟨lo, hi⟩
    | adjust => exact clamp_bounds _ 0 1 (by decide +kernel)
    | scale =>
      simp only [] at lo ⊢
      have lo' : -1 ≤ x := by simpa using lo
      split
      · rename_i hx
        have a := Rat.mul_nonneg (a := 1 - cur) (b := x) (by grind) (by grind)
        have b := Rat.mul_le_mul_of_nonneg_left (a := x) (b := 1) (c := 1 - cur) hi (by grind)
        constructor <;> grind
      · rename_i hx
        have b := Rat.mul_le_mul_of_nonneg_left (a := -1) (b := x) (c := cur) lo' c0
        have a := Rat.mul_le_mul_of_nonneg_left (a := x) (b := 0) (c := cur) (by grind) c0
        constructor <;> grind

theorem whiteness_blackness_unit {c : Color} (h : c.wf = true) :
    (0 ≤ c.whiteness ∧ c.whiteness ≤ 1) ∧ (0 ≤ c.blackness ∧ c.blackness ≤ 1) := by
  have ⟨cr, cg, cb⟩ := wf_chan h
  have ⟨er, eg, eb⟩ := wf_red h
  have ⟨_, r0, r1⟩ := chanOk_bounds cr
  have ⟨_, g0, g1⟩ := chanOk_bounds cg
  have ⟨_, b0, b1⟩ := chanOk_bounds cb
  simp only [Color.whiteness, Color.blackness, er, eg, eb, nmin, nmax]
  constructor <;> constructor <;> (repeat' split) <;> grind

/-- change-color / adjust-color / scale-color: with arguments in the ranges `check_num` enforces, the
    produced colour is in range (all four branches: RGB, HWB, HSL, alpha only). -/
theorem C15_channels_in_range_update (u : Upd) (c d : Color) (p : UpdArgs) (hc : c.wf = true)
    (ha : argOk u p.alpha) (hw : argOk u p.whiteness) (hb : argOk u p.blackness)
    (h : updateComponents u c p = .ok d) : d.wf = true ∧ d.inRange = true := by
  suffices d.wf = true from ⟨this, wf_inRange this⟩
  have ⟨a0, a1⟩ := wf_alpha hc
  have ⟨⟨w0, w1⟩, ⟨k0, k1⟩⟩ := whiteness_blackness_unit hc
  unfold updateComponents updatePlan at h
  simp only [] at h
  split at h
  · cases h
  · split at h
    · cases h
    · split at h
      · cases h
        exact (fromRgba_wf _ (fuzzyRound_isInt _) (fuzzyRound_isInt _) (fuzzyRound_isInt _)).1
      · split at h
        · cases h
          have ⟨x0, _⟩ := updateValue_unit w0 w1 hw
          have ⟨y0, _⟩ := updateValue_unit k0 k1 hb
          exact fromHwb_wf _ _ _ _ (by grind) (by grind)
        · split at h
          · have e := asHsla_alpha c
            generalize c.asHsla = t at e h
            obtain ⟨hh, s, l, a⟩ := t
            simp only [] at e
            subst e
            cases h
            have ⟨x0, x1⟩ := updateValue_unit a0 a1 ha
            exact (fromHsla_wf _ _ _ _ x0 x1).1
          · split at h
            · cases h
              exact (C15_channels_in_range_alpha_functions c _).1
            · cases h
              exact hc

/-! ## 12. change-color / adjust-color / scale-color compose as documented -/

/-- only the RGB-group arguments (and possibly alpha) are present -/
def UpdArgs.onlyRgb (p : UpdArgs) : Prop :=
  p.hue = none ∧ p.saturation = none ∧ p.lightness = none ∧ p.whiteness = none ∧ p.blackness = none
/-- only the HSL-group arguments (and possibly alpha) are present -/
def UpdArgs.onlyHsl (p : UpdArgs) : Prop :=
  p.red = none ∧ p.green = none ∧ p.blue = none ∧ p.whiteness = none ∧ p.blackness = none
/-- only the HWB-group arguments (hue, whiteness, blackness, possibly alpha) are present -/
def UpdArgs.onlyHwb (p : UpdArgs) : Prop :=
  p.red = none ∧ p.green = none ∧ p.blue = none ∧ p.saturation = none ∧ p.lightness = none
/-- only alpha may be present -/
def UpdArgs.onlyAlpha (p : UpdArgs) : Prop :=
  p.red = none ∧ p.green = none ∧ p.blue = none ∧ p.hue = none ∧ p.saturation = none ∧ p.lightness = none ∧
  p.whiteness = none ∧ p.blackness = none

theorem updateValue_none (cur max : Rat) (u : Upd) : updateValue cur none max u = cur := rfl
theorem updateValue_change (cur x max : Rat) : updateValue cur (some x) max .change = x := rfl
theorem updateValue_adjust (cur x max : Rat) : updateValue cur (some x) max .adjust = clamp (x + cur) 0 max := rfl
theorem updateValue_scale (cur x max : Rat) :
    updateValue cur (some x) max .scale = cur + (if x > 0 then max - cur else cur) * x := rfl

/-- Which constructor `update_components` calls, by argument group (other.rs:197–239). -/
theorem updatePlan_groups (u : Upd) (c : Color) (p : UpdArgs) :
    (p.onlyRgb → (p.red.isSome || p.green.isSome || p.blue.isSome) = true →
      updatePlan u c p = .ok (.rgb (updateValue c.red p.red 255 u) (updateValue c.green p.green 255 u)
        (updateValue c.blue p.blue 255 u) (updateValue c.alpha p.alpha 1 u))) ∧
    (p.onlyHwb → (p.whiteness.isSome || p.blackness.isSome) = true →
      updatePlan u c p = .ok (.hwb (if u = .change then p.hue.getD c.hue else c.hue + p.hue.getD 0)
        (updateValue c.whiteness p.whiteness 1 u * 100) (updateValue c.blackness p.blackness 1 u * 100)
        (updateValue c.alpha p.alpha 1 u))) ∧
    (p.onlyHsl → (p.hue.isSome || p.saturation.isSome || p.lightness.isSome) = true →
      updatePlan u c p = .ok (.hsl (if u = .change then p.hue.getD c.asHsla.1 else c.asHsla.1 + p.hue.getD 0)
        (updateValue c.asHsla.2.1 p.saturation 1 u) (updateValue c.asHsla.2.2.1 p.lightness 1 u)
        (updateValue c.asHsla.2.2.2 p.alpha 1 u))) ∧
    (p.onlyAlpha → p.alpha.isSome = true → updatePlan u c p = .ok (.alpha (updateValue c.alpha p.alpha 1 u))) ∧
    (p.onlyAlpha → p.alpha = none → updatePlan u c p = .ok .same) := by
  refine ⟨?_, ?_, ?_, ?_, ?_⟩
  · rintro ⟨h1, h2, h3, h4, h5⟩ hr
    simp [updatePlan, h1, h2, h3, h4, h5, hr]
  · rintro ⟨h1, h2, h3, h4, h5⟩ hw
    simp [updatePlan, h1, h2, h3, h4, h5, hw]
  · rintro ⟨h1, h2, h3, h4, h5⟩ hh
    generalize hq : c.asHsla = t
    obtain ⟨h, s, l, a⟩ := t
    simp only [updatePlan, h1, h2, h3, h4, h5, hq]
    simp at hh ⊢
    rcases hh with (hh | hh) | hh <;> (intro e1 e2 e3; simp_all)
  · rintro ⟨h1, h2, h3, h4, h5, h6, h7, h8⟩ ha
    simp [updatePlan, h1, h2, h3, h4, h5, h6, h7, h8, ha]
  · rintro ⟨h1, h2, h3, h4, h5, h6, h7, h8⟩ ha
    simp [updatePlan, h1, h2, h3, h4, h5, h6, h7, h8, ha]

theorem clamp_idem (x lo hi : Rat) (h : lo ≤ hi) : clamp (clamp x lo hi) lo hi = clamp x lo hi := by
  have ⟨a, b⟩ := clamp_bounds x lo hi h; exact clamp_id a b

theorem fromHsla_clamp_light (h s l a : Rat) : fromHsla h s (clamp l 0 1) a = fromHsla h s l a := by
  have cl := clamp_idem l 0 1 (by decide +kernel)
  simp only [fromHsla, hslToRgbExact, cl]

theorem fromHsla_clamp_sat (h s l a : Rat) : fromHsla h (clamp s 0 1) l a = fromHsla h s l a := by
  have cs := clamp_idem s 0 1 (by decide +kernel)
  simp only [fromHsla, hslToRgbExact, cs]

theorem fromRgba_clamp_alpha (r g b a : Rat) : fromRgba r g b (clamp a 0 1) = fromRgba r g b a := by
  simp only [fromRgba, clamp_idem a 0 1 (by decide +kernel)]

theorem add_zero' (x : Rat) : x + 0 = x := by grind

/-- **(4)** lighten / darken / saturate / desaturate / adjust-hue / opacify / transparentize *are* the
    corresponding single-argument adjust-color calls — as values of the model, for every colour and
    every amount (the built-ins differ only in the argument ranges they accept: lighten… take 0…100,
    adjust-color takes −100…100). -/
theorem C15_functions_are_adjust_color (c : Color) (x : Rat) :
    updateComponents .adjust c { lightness := some x } = .ok (lighten c x) ∧
    updateComponents .adjust c { lightness := some (-x) } = .ok (darken c x) ∧
    updateComponents .adjust c { saturation := some x } = .ok (saturate c x) ∧
    updateComponents .adjust c { saturation := some (-x) } = .ok (desaturate c x) ∧
    updateComponents .adjust c { hue := some x } = .ok (adjustHue c x) ∧
    updateComponents .adjust c { alpha := some x } = .ok (fadeIn c x) ∧
    updateComponents .adjust c { alpha := some (-x) } = .ok (fadeOut c x) := by
  have ⟨e1, e2, e3, e4, e5, _⟩ := hslFns_eq c x
  have G := fun p => updatePlan_groups .adjust c p
  refine ⟨?_, ?_, ?_, ?_, ?_, ?_, ?_⟩
  · rw [updateComponents, (G _).2.2.1 ⟨rfl, rfl, rfl, rfl, rfl⟩ rfl, e1]
    simp only [Except.map, execPlan, updateValue, Option.getD, add_zero', fromHsla_clamp_light]
    congr 2; grind
  · rw [updateComponents, (G _).2.2.1 ⟨rfl, rfl, rfl, rfl, rfl⟩ rfl, e2]
    simp only [Except.map, execPlan, updateValue, Option.getD, add_zero', fromHsla_clamp_light]
    congr 2; grind
  · rw [updateComponents, (G _).2.2.1 ⟨rfl, rfl, rfl, rfl, rfl⟩ rfl, e3]
    simp only [Except.map, execPlan, updateValue, Option.getD, add_zero']
    congr 3; grind
  · rw [updateComponents, (G _).2.2.1 ⟨rfl, rfl, rfl, rfl, rfl⟩ rfl, e4]
    simp only [Except.map, execPlan, updateValue, Option.getD, add_zero']
    congr 3; grind
  · rw [updateComponents, (G _).2.2.1 ⟨rfl, rfl, rfl, rfl, rfl⟩ rfl, e5]
    simp only [Except.map, execPlan, updateValue, Option.getD]
    rfl
  · rw [updateComponents, (G _).2.2.2.1 ⟨rfl, rfl, rfl, rfl, rfl, rfl, rfl, rfl⟩ rfl]
    simp only [Except.map, execPlan, updateValue, withAlpha, fadeIn, fromRgba_clamp_alpha]
    congr 2; grind
  · rw [updateComponents, (G _).2.2.2.1 ⟨rfl, rfl, rfl, rfl, rfl, rfl, rfl, rfl⟩ rfl]
    simp only [Except.map, execPlan, updateValue, withAlpha, fadeOut, fromRgba_clamp_alpha]
    congr 2; grind

example : updateComponents .adjust (newRgba 18 52 87 1 .infer) { lightness := some (1/10) } =
    .ok (lighten (newRgba 18 52 87 1 .infer) (1/10)) := (C15_functions_are_adjust_color _ _).1

/-- change-color: the new value of one component -/
def changed (cur : Rat) (v : Option Rat) : Rat := v.getD cur
/-- adjust-color: the new value of one component (`max` is 255 for channels, 1 for the others) -/
def adjusted (cur : Rat) (v : Option Rat) (max : Rat) : Rat :=
  match v with | some x => clamp (x + cur) 0 max | none => cur
/-- scale-color: the new value of one component, `x` already divided by 100 -/
def scaled (cur : Rat) (v : Option Rat) (max : Rat) : Rat :=
  match v with | some x => cur + (if x > 0 then max - cur else cur) * x | none => cur

theorem updateValue_eq (cur : Rat) (v : Option Rat) (max : Rat) :
    updateValue cur v max .change = changed cur v ∧ updateValue cur v max .adjust = adjusted cur v max ∧
    updateValue cur v max .scale = scaled cur v max := by
  cases v <;> exact ⟨rfl, rfl, rfl⟩

/-- the channel `update_rgb` stores: rounded, and unchanged by `from_rgba`'s clamp when in range -/
theorem stored_chan {v : Rat} (h0 : 0 ≤ v) (h1 : v ≤ 255) : clamp (fuzzyRound v) 0 255 = fuzzyRound v :=
  clamp_chanOk (chanOk_fuzzyRound h0 h1)

/-- components given to change-color are in the ranges `check_num` accepts -/
def UpdArgs.changeOk (p : UpdArgs) : Prop :=
  (∀ x, p.red = some x → 0 ≤ x ∧ x ≤ 255) ∧ (∀ x, p.green = some x → 0 ≤ x ∧ x ≤ 255) ∧
  (∀ x, p.blue = some x → 0 ≤ x ∧ x ≤ 255) ∧ (∀ x, p.alpha = some x → 0 ≤ x ∧ x ≤ 1)

theorem changed_bounds {cur lo hi : Rat} {v : Option Rat} (hc : lo ≤ cur ∧ cur ≤ hi)
    (hv : ∀ x, v = some x → lo ≤ x ∧ x ≤ hi) : lo ≤ changed cur v ∧ changed cur v ≤ hi := by
  cases v with
  | none => exact hc
  | some x => exact hv x rfl

theorem changed_chan {cur : Rat} (hc : chanOk cur = true) (v : Option Rat) :
    fuzzyRound (changed cur v) = (v.map fuzzyRound).getD cur := by
  cases v with
  | none => exact fuzzyRound_of_isInt (chanOk_bounds hc).1
  | some x => rfl

/-- **(1) change-color sets exactly the named components.**  No argument: identity.  RGB group: each
    given channel becomes its (rounded) argument, the others and an absent alpha are kept.  HSL group:
    `from_hsla` of the given components and the colour's own `as_hsla` values for the rest.  HWB group:
    `from_hwb` of the given components and the colour's own hue()/whiteness()/blackness() for the rest.
    Alpha alone: channels kept. -/
theorem C15_change_color_sets_exactly (c : Color) (p : UpdArgs) (hw : c.wf = true) (hp : p.changeOk) :
    updateComponents .change c {} = .ok c ∧
    (p.onlyRgb → (p.red.isSome || p.green.isSome || p.blue.isSome) = true →
      ∃ d, updateComponents .change c p = .ok d ∧ d.r = (p.red.map fuzzyRound).getD c.r ∧
        d.g = (p.green.map fuzzyRound).getD c.g ∧ d.b = (p.blue.map fuzzyRound).getD c.b ∧ d.a = p.alpha.getD c.alpha) ∧
    (p.onlyHsl → (p.hue.isSome || p.saturation.isSome || p.lightness.isSome) = true →
      updateComponents .change c p = .ok (fromHsla (p.hue.getD c.asHsla.1) (p.saturation.getD c.asHsla.2.1)
        (p.lightness.getD c.asHsla.2.2.1) (p.alpha.getD c.alpha))) ∧
    (p.onlyHwb → (p.whiteness.isSome || p.blackness.isSome) = true →
      updateComponents .change c p = .ok (fromHwb (p.hue.getD c.hue) (p.whiteness.getD c.whiteness * 100)
        (p.blackness.getD c.blackness * 100) (p.alpha.getD c.alpha))) ∧
    (p.onlyAlpha → ∀ a, p.alpha = some a →
      ∃ d, updateComponents .change c p = .ok d ∧ d.r = c.r ∧ d.g = c.g ∧ d.b = c.b ∧ d.a = a) := by
  have ⟨cr, cg, cb⟩ := wf_chan hw
  have ⟨er, eg, eb⟩ := wf_red hw
  have ⟨a0, a1⟩ := wf_alpha hw
  have ⟨_, r0, r1⟩ := chanOk_bounds cr
  have ⟨_, g0, g1⟩ := chanOk_bounds cg
  have ⟨_, b0, b1⟩ := chanOk_bounds cb
  obtain ⟨pr, pg, pb, pa⟩ := hp
  have G := updatePlan_groups .change c p
  refine ⟨?_, ?_, ?_, ?_, ?_⟩
  · rw [updateComponents, (updatePlan_groups .change c {}).2.2.2.2 ⟨rfl, rfl, rfl, rfl, rfl, rfl, rfl, rfl⟩ rfl]; rfl
  · intro ho hs
    refine ⟨_, by rw [updateComponents, G.1 ho hs]; rfl, ?_⟩
    simp only [execPlan, fromRgba, newRgba, (updateValue_eq _ _ _).1, er, eg, eb]
    have br := changed_bounds (v := p.red) ⟨r0, r1⟩ pr
    have bg := changed_bounds (v := p.green) ⟨g0, g1⟩ pg
    have bb := changed_bounds (v := p.blue) ⟨b0, b1⟩ pb
    have ba := changed_bounds (v := p.alpha) ⟨a0, a1⟩ pa
    rw [stored_chan br.1 br.2, stored_chan bg.1 bg.2, stored_chan bb.1 bb.2, clamp_id ba.1 ba.2,
      changed_chan cr, changed_chan cg, changed_chan cb]
    refine ⟨?_, ?_, ?_, ?_⟩ <;> first | trivial | rfl
  · intro ho hs
    rw [updateComponents, G.2.2.1 ho hs]
    simp only [Except.map, execPlan, (updateValue_eq _ _ _).1, changed, if_true, asHsla_alpha]
  · intro ho hs
    rw [updateComponents, G.2.1 ho hs]
    simp only [Except.map, execPlan, (updateValue_eq _ _ _).1, changed, if_true]
  · intro ho a ha
    have hs : p.alpha.isSome = true := by rw [ha]; rfl
    refine ⟨_, by rw [updateComponents, G.2.2.2.1 ho hs]; rfl, ?_⟩
    have ⟨x0, x1⟩ := pa a ha
    simp only [execPlan, withAlpha, fromRgba, newRgba, (updateValue_eq _ _ _).1, changed, ha, Option.getD, er, eg, eb,
      clamp_chanOk cr, clamp_chanOk cg, clamp_chanOk cb, clamp_id x0 x1]
    refine ⟨?_, ?_, ?_, ?_⟩ <;> first | trivial | rfl

theorem adjusted_bounds {cur max : Rat} (v : Option Rat) (h0 : 0 ≤ cur) (h1 : cur ≤ max) :
    0 ≤ adjusted cur v max ∧ adjusted cur v max ≤ max := by
  cases v with
  | none => exact ⟨h0, h1⟩
  | some x => exact clamp_bounds _ 0 max (by grind)

/-- **(2) adjust-color adds the amounts and clamps to the component's range.**  RGB group: each given
    channel becomes round(clamp(amount + channel, 0, 255)); HSL group: hue + amount (taken mod 360 by
    `from_hsla`), saturation/lightness clamp(amount + current, 0, 1); HWB group likewise on
    hue()/whiteness()/blackness(); alpha clamp(amount + alpha, 0, 1).  Components not named are kept. -/
theorem C15_adjust_color_adds_and_clamps (c : Color) (p : UpdArgs) (hw : c.wf = true) :
    (p.onlyRgb → (p.red.isSome || p.green.isSome || p.blue.isSome) = true →
      ∃ d, updateComponents .adjust c p = .ok d ∧ d.r = fuzzyRound (adjusted c.r p.red 255) ∧
        d.g = fuzzyRound (adjusted c.g p.green 255) ∧ d.b = fuzzyRound (adjusted c.b p.blue 255) ∧
        d.a = adjusted c.alpha p.alpha 1) ∧
    (p.onlyHsl → (p.hue.isSome || p.saturation.isSome || p.lightness.isSome) = true →
      updateComponents .adjust c p = .ok (fromHsla (c.asHsla.1 + p.hue.getD 0) (adjusted c.asHsla.2.1 p.saturation 1)
        (adjusted c.asHsla.2.2.1 p.lightness 1) (adjusted c.alpha p.alpha 1))) ∧
    (p.onlyHwb → (p.whiteness.isSome || p.blackness.isSome) = true →
      updateComponents .adjust c p = .ok (fromHwb (c.hue + p.hue.getD 0) (adjusted c.whiteness p.whiteness 1 * 100)
        (adjusted c.blackness p.blackness 1 * 100) (adjusted c.alpha p.alpha 1))) ∧
    (p.onlyAlpha → ∀ a, p.alpha = some a →
      ∃ d, updateComponents .adjust c p = .ok d ∧ d.r = c.r ∧ d.g = c.g ∧ d.b = c.b ∧ d.a = clamp (a + c.alpha) 0 1) := by
  have ⟨cr, cg, cb⟩ := wf_chan hw
  have ⟨er, eg, eb⟩ := wf_red hw
  have ⟨a0, a1⟩ := wf_alpha hw
  have ⟨_, r0, r1⟩ := chanOk_bounds cr
  have ⟨_, g0, g1⟩ := chanOk_bounds cg
  have ⟨_, b0, b1⟩ := chanOk_bounds cb
  have G := updatePlan_groups .adjust c p
  have ne : ¬ (Upd.adjust = Upd.change) := by decide
  refine ⟨?_, ?_, ?_, ?_⟩
  · intro ho hs
    refine ⟨_, by rw [updateComponents, G.1 ho hs]; rfl, ?_⟩
    simp only [execPlan, fromRgba, newRgba, (updateValue_eq _ _ _).2.1, er, eg, eb]
    have br := adjusted_bounds p.red r0 r1
    have bg := adjusted_bounds p.green g0 g1
    have bb := adjusted_bounds p.blue b0 b1
    have ba := adjusted_bounds p.alpha a0 a1
    rw [stored_chan br.1 br.2, stored_chan bg.1 bg.2, stored_chan bb.1 bb.2, clamp_id ba.1 ba.2]
    refine ⟨?_, ?_, ?_, ?_⟩ <;> first | trivial | rfl
  · intro ho hs
    rw [updateComponents, G.2.2.1 ho hs]
    simp only [Except.map, execPlan, (updateValue_eq _ _ _).2.1, if_neg ne, asHsla_alpha]
  · intro ho hs
    rw [updateComponents, G.2.1 ho hs]
    simp only [Except.map, execPlan, (updateValue_eq _ _ _).2.1, if_neg ne]
  · intro ho a ha
    have hs : p.alpha.isSome = true := by rw [ha]; rfl
    refine ⟨_, by rw [updateComponents, G.2.2.2.1 ho hs]; rfl, ?_⟩
    have ⟨x0, x1⟩ := clamp_bounds (a + c.alpha) 0 1 (by decide +kernel)
    simp only [execPlan, withAlpha, fromRgba, newRgba, (updateValue_eq _ _ _).2.1, adjusted, ha, er, eg, eb,
      clamp_chanOk cr, clamp_chanOk cg, clamp_chanOk cb, clamp_id x0 x1]
    refine ⟨?_, ?_, ?_, ?_⟩ <;> first | trivial | rfl

/-- channels of a colour without stored HSL determine hue()/whiteness()/blackness() -/
theorem hwb_exact_of (c : Color) (hw : c.wf = true) (hn : c.hsl = none) :
    hwbToRgbExact c.hue (c.whiteness * 100) (c.blackness * 100) = (c.r, c.g, c.b) := by
  have ⟨cr, cg, cb⟩ := wf_chan hw
  obtain ⟨nr, hnr, enr⟩ := chanOk_nat cr
  obtain ⟨ng, hng, eng⟩ := chanOk_nat cg
  obtain ⟨nb, hnb, enb⟩ := chanOk_nat cb
  have ⟨r0, r1⟩ := unit_of_nat hnr
  have ⟨g0, g1⟩ := unit_of_nat hng
  have ⟨b0, b1⟩ := unit_of_nat hnb
  obtain ⟨e1, _, _, e4, e5⟩ := accessors_eq nr ng nb
  have rt := hwb_roundtripE r0 r1 g0 g1 b0 b1
  have h1 : c.hue = (newRgba (nr : Rat) (ng : Rat) (nb : Rat) 1 .infer).hue := by
    simp only [Color.hue, hn, Color.red, Color.green, Color.blue, enr, eng, enb, newRgba]
    try rfl
  have h2 : c.whiteness = (newRgba (nr : Rat) (ng : Rat) (nb : Rat) 1 .infer).whiteness := by
    simp only [Color.whiteness, Color.red, Color.green, Color.blue, enr, eng, enb, newRgba]
    try rfl
  have h3 : c.blackness = (newRgba (nr : Rat) (ng : Rat) (nb : Rat) 1 .infer).blackness := by
    simp only [Color.blackness, Color.red, Color.green, Color.blue, enr, eng, enb, newRgba]
    try rfl
  rw [h1, h2, h3, e1, e4, e5, rt, enr, eng, enb]
  simp only [scaled_back]

/-- adjust-color by 0 in any single component returns the same colour (`==` and compressed print).
    The HWB components need a colour without stored HSL (an 8-bit RGB colour): `hue()` of a colour built
    by hsl() is its exact stored hue while whiteness()/blackness() come from the rounded channels. -/
theorem C15_adjust_color_by_zero (c d : Color) (hw : c.wf = true) (hc : hslConsistent c) :
    (updateComponents .adjust c { red := some 0 } = .ok d → sameColor d c = true) ∧
    (updateComponents .adjust c { green := some 0 } = .ok d → sameColor d c = true) ∧
    (updateComponents .adjust c { blue := some 0 } = .ok d → sameColor d c = true) ∧
    (updateComponents .adjust c { alpha := some 0 } = .ok d → sameColor d c = true) ∧
    (updateComponents .adjust c { hue := some 0 } = .ok d → sameColor d c = true) ∧
    (updateComponents .adjust c { saturation := some 0 } = .ok d → sameColor d c = true) ∧
    (updateComponents .adjust c { lightness := some 0 } = .ok d → sameColor d c = true) ∧
    (c.hsl = none → updateComponents .adjust c { whiteness := some 0 } = .ok d → sameColor d c = true) ∧
    (c.hsl = none → updateComponents .adjust c { blackness := some 0 } = .ok d → sameColor d c = true) := by
  have ⟨cr, cg, cb⟩ := wf_chan hw
  have ⟨_, r0, r1⟩ := chanOk_bounds cr
  have ⟨_, g0, g1⟩ := chanOk_bounds cg
  have ⟨_, b0, b1⟩ := chanOk_bounds cb
  have ⟨a0, a1⟩ := wf_alpha hw
  have ⟨⟨w0, w1⟩, ⟨k0, k1⟩⟩ := whiteness_blackness_unit hw
  have ⟨z1, z2, z3, z4, z5⟩ := C15_hsl_functions_by_zero c hw hc
  have ⟨f1, _, f3, _, f5, f6, _⟩ := C15_functions_are_adjust_color c 0
  have fr : ∀ x : Rat, chanOk x = true → fuzzyRound x = x := fun x h => fuzzyRound_of_isInt (chanOk_bounds h).1
  have zc : ∀ x hi : Rat, 0 ≤ x → x ≤ hi → clamp (0 + x) 0 hi = x := by
    intro x hi h0 h1; rw [clamp_id (by grind) (by grind)]; grind
  have rgbcase : ∀ p : UpdArgs, p.onlyRgb → (p.red.isSome || p.green.isSome || p.blue.isSome) = true →
      p.alpha = none → (p.red = none ∨ p.red = some 0) → (p.green = none ∨ p.green = some 0) →
      (p.blue = none ∨ p.blue = some 0) → updateComponents .adjust c p = .ok d → sameColor d c = true := by
    intro p ho hs ha h1 h2 h3 hd
    obtain ⟨d', e, q1, q2, q3, q4⟩ := (C15_adjust_color_adds_and_clamps c p hw).1 ho hs
    rw [e] at hd; cases hd
    apply sameColor_of_chan hw
    · rw [q1]; rcases h1 with h | h <;> simp only [h, adjusted, zc _ _ r0 r1, fr _ cr]
    · rw [q2]; rcases h2 with h | h <;> simp only [h, adjusted, zc _ _ g0 g1, fr _ cg]
    · rw [q3]; rcases h3 with h | h <;> simp only [h, adjusted, zc _ _ b0 b1, fr _ cb]
    · rw [q4, ha]; rfl
  refine ⟨?_, ?_, ?_, ?_, ?_, ?_, ?_, ?_, ?_⟩
  · exact rgbcase _ ⟨rfl, rfl, rfl, rfl, rfl⟩ rfl rfl (Or.inr rfl) (Or.inl rfl) (Or.inl rfl)
  · exact rgbcase _ ⟨rfl, rfl, rfl, rfl, rfl⟩ rfl rfl (Or.inl rfl) (Or.inr rfl) (Or.inl rfl)
  · exact rgbcase _ ⟨rfl, rfl, rfl, rfl, rfl⟩ rfl rfl (Or.inl rfl) (Or.inl rfl) (Or.inr rfl)
  · intro h; rw [f6] at h; cases h
    have ⟨o1, _, _, _, o5, o6, o7, _⟩ := C15_opacify_transparentize_clamp c 0 hw
    apply sameColor_of_chan hw o5 o6 o7
    show (fromRgba c.red c.green c.blue (c.alpha + 0)).a = c.alpha
    simp only [fromRgba, newRgba, add_zero', clamp_id a0 a1]
  · intro h; rw [f5] at h; cases h; exact z5
  · intro h; rw [f3] at h; cases h; exact z3
  · intro h; rw [f1] at h; cases h; exact z1
  · intro hn h
    rw [((C15_adjust_color_adds_and_clamps c _ hw).2.2.1) ⟨rfl, rfl, rfl, rfl, rfl⟩ rfl] at h
    cases h
    simp only [adjusted, Option.getD, add_zero', zc _ _ w0 w1]
    have e := hwb_exact_of c hw hn
    apply sameColor_of_chan hw <;>
      simp only [fromHwb, e, newRgba, fr _ cr, fr _ cg, fr _ cb, clamp_id a0 a1]
  · intro hn h
    rw [((C15_adjust_color_adds_and_clamps c _ hw).2.2.1) ⟨rfl, rfl, rfl, rfl, rfl⟩ rfl] at h
    cases h
    simp only [adjusted, Option.getD, add_zero', zc _ _ k0 k1]
    have e := hwb_exact_of c hw hn
    apply sameColor_of_chan hw <;>
      simp only [fromHwb, e, newRgba, fr _ cr, fr _ cg, fr _ cb, clamp_id a0 a1]

theorem isInt_add {x y : Rat} (hx : isInt x = true) (hy : isInt y = true) : isInt (x + y) = true := by
  rw [eq_intCast_of_isInt hx, eq_intCast_of_isInt hy]
  have : ((x.num : Int) : Rat) + ((y.num : Int) : Rat) = ((x.num + y.num : Int) : Rat) := by simp [Rat.intCast_add]
  rw [this]; exact isInt_intCast _

/-- adjust-color with one RGB channel, explicitly -/
theorem adjust_red_explicit (c : Color) (hw : c.wf = true) (a : Rat) :
    updateComponents .adjust c { red := some a } = .ok (newRgba (fuzzyRound (clamp (a + c.r) 0 255)) c.g c.b c.alpha .infer) ∧
    updateComponents .adjust c { green := some a } = .ok (newRgba c.r (fuzzyRound (clamp (a + c.g) 0 255)) c.b c.alpha .infer) ∧
    updateComponents .adjust c { blue := some a } = .ok (newRgba c.r c.g (fuzzyRound (clamp (a + c.b) 0 255)) c.alpha .infer) ∧
    updateComponents .adjust c { alpha := some a } = .ok (newRgba c.r c.g c.b (clamp (a + c.alpha) 0 1) .infer) := by
  have ⟨cr, cg, cb⟩ := wf_chan hw
  have ⟨er, eg, eb⟩ := wf_red hw
  have ⟨a0, a1⟩ := wf_alpha hw
  have fr : ∀ x : Rat, chanOk x = true → fuzzyRound x = x := fun x h => fuzzyRound_of_isInt (chanOk_bounds h).1
  have st : ∀ v : Rat, clamp (fuzzyRound (clamp v 0 255)) 0 255 = fuzzyRound (clamp v 0 255) := by
    intro v; have ⟨x0, x1⟩ := clamp_bounds v 0 255 (by decide +kernel); exact stored_chan x0 x1
  have G := fun p => updatePlan_groups .adjust c p
  refine ⟨?_, ?_, ?_, ?_⟩
  · rw [updateComponents, (G _).1 ⟨rfl, rfl, rfl, rfl, rfl⟩ rfl]
    simp only [Except.map, execPlan, updateValue, fromRgba, newRgba, er, eg, eb, st, fr _ cg, fr _ cb,
      clamp_chanOk cg, clamp_chanOk cb, clamp_id a0 a1]
  · rw [updateComponents, (G _).1 ⟨rfl, rfl, rfl, rfl, rfl⟩ rfl]
    simp only [Except.map, execPlan, updateValue, fromRgba, newRgba, er, eg, eb, st, fr _ cr, fr _ cb,
      clamp_chanOk cr, clamp_chanOk cb, clamp_id a0 a1]
  · rw [updateComponents, (G _).1 ⟨rfl, rfl, rfl, rfl, rfl⟩ rfl]
    simp only [Except.map, execPlan, updateValue, fromRgba, newRgba, er, eg, eb, st, fr _ cr, fr _ cg,
      clamp_chanOk cr, clamp_chanOk cg, clamp_id a0 a1]
  · rw [updateComponents, (G _).2.2.2.1 ⟨rfl, rfl, rfl, rfl, rfl, rfl, rfl, rfl⟩ rfl]
    simp only [Except.map, execPlan, updateValue, withAlpha, fromRgba, newRgba, er, eg, eb,
      clamp_chanOk cr, clamp_chanOk cg, clamp_chanOk cb, clamp_idem _ 0 1 (by decide +kernel)]

/-- Two successive adjust-color calls on the same channel add up, provided the first one neither
    rounds (integer amount) nor clamps (`0 ≤ a + channel ≤ 255`, resp. `0 ≤ a + alpha ≤ 1`); the
    second amount is unrestricted (it is rounded and clamped the same way on both sides). -/
theorem C15_adjust_color_twice_adds (c d : Color) (hw : c.wf = true) (a b : Rat) :
    (isInt a = true → 0 ≤ a + c.r → a + c.r ≤ 255 → updateComponents .adjust c { red := some a } = .ok d →
      updateComponents .adjust d { red := some b } = updateComponents .adjust c { red := some (a + b) }) ∧
    (isInt a = true → 0 ≤ a + c.g → a + c.g ≤ 255 → updateComponents .adjust c { green := some a } = .ok d →
      updateComponents .adjust d { green := some b } = updateComponents .adjust c { green := some (a + b) }) ∧
    (isInt a = true → 0 ≤ a + c.b → a + c.b ≤ 255 → updateComponents .adjust c { blue := some a } = .ok d →
      updateComponents .adjust d { blue := some b } = updateComponents .adjust c { blue := some (a + b) }) ∧
    (0 ≤ a + c.alpha → a + c.alpha ≤ 1 → updateComponents .adjust c { alpha := some a } = .ok d →
      updateComponents .adjust d { alpha := some b } = updateComponents .adjust c { alpha := some (a + b) }) := by
  have ⟨cr, cg, cb⟩ := wf_chan hw
  have ⟨a0, a1⟩ := wf_alpha hw
  have ⟨x1, x2, x3, x4⟩ := adjust_red_explicit c hw a
  have ⟨y1, y2, y3, y4⟩ := adjust_red_explicit c hw (a + b)
  refine ⟨?_, ?_, ?_, ?_⟩
  · intro ia h0 h1 hd
    rw [x1] at hd; cases hd
    have ii : isInt (a + c.r) = true := isInt_add ia (chanOk_bounds cr).1
    have e : fuzzyRound (clamp (a + c.r) 0 255) = a + c.r := by rw [clamp_id h0 h1]; exact fuzzyRound_of_isInt ii
    have okr : chanOk (a + c.r) = true := by simp [chanOk, ii, h0, h1]
    have dw : (newRgba (a + c.r) c.g c.b c.alpha .infer).wf = true := wf_mk okr cg cb a0 a1
    rw [e, (adjust_red_explicit _ dw b).1, y1]
    have al : (newRgba (a + c.r) c.g c.b c.alpha .infer).alpha = c.alpha := alpha_of_le_one (c := newRgba _ _ _ _ _) a1
    have re : b + (a + c.r) = a + b + c.r := by grind
    simp only [al]
    simp only [newRgba, re]
  · intro ia h0 h1 hd
    rw [x2] at hd; cases hd
    have ii : isInt (a + c.g) = true := isInt_add ia (chanOk_bounds cg).1
    have e : fuzzyRound (clamp (a + c.g) 0 255) = a + c.g := by rw [clamp_id h0 h1]; exact fuzzyRound_of_isInt ii
    have okr : chanOk (a + c.g) = true := by simp [chanOk, ii, h0, h1]
    have dw : (newRgba c.r (a + c.g) c.b c.alpha .infer).wf = true := wf_mk cr okr cb a0 a1
    rw [e, (adjust_red_explicit _ dw b).2.1, y2]
    have al : (newRgba c.r (a + c.g) c.b c.alpha .infer).alpha = c.alpha := alpha_of_le_one (c := newRgba _ _ _ _ _) a1
    have re : b + (a + c.g) = a + b + c.g := by grind
    simp only [al]
    simp only [newRgba, re]
  · intro ia h0 h1 hd
    rw [x3] at hd; cases hd
    have ii : isInt (a + c.b) = true := isInt_add ia (chanOk_bounds cb).1
    have e : fuzzyRound (clamp (a + c.b) 0 255) = a + c.b := by rw [clamp_id h0 h1]; exact fuzzyRound_of_isInt ii
    have okr : chanOk (a + c.b) = true := by simp [chanOk, ii, h0, h1]
    have dw : (newRgba c.r c.g (a + c.b) c.alpha .infer).wf = true := wf_mk cr cg okr a0 a1
    rw [e, (adjust_red_explicit _ dw b).2.2.1, y3]
    have al : (newRgba c.r c.g (a + c.b) c.alpha .infer).alpha = c.alpha := alpha_of_le_one (c := newRgba _ _ _ _ _) a1
    have re : b + (a + c.b) = a + b + c.b := by grind
    simp only [al]
    simp only [newRgba, re]
  · intro h0 h1 hd
    rw [x4] at hd; cases hd
    rw [clamp_id h0 h1]
    have dw : (newRgba c.r c.g c.b (a + c.alpha) .infer).wf = true := wf_mk cr cg cb h0 h1
    rw [(adjust_red_explicit _ dw b).2.2.2, y4]
    have al : (newRgba c.r c.g c.b (a + c.alpha) .infer).alpha = a + c.alpha := alpha_of_le_one (c := newRgba _ _ _ _ _) h1
    have re : b + (a + c.alpha) = a + b + c.alpha := by grind
    simp only [al]
    simp only [newRgba, re]

/-- scale-color arguments after `check_num`: within −100%…100%, i.e. [−1,1] -/
def UpdArgs.scaleOk (p : UpdArgs) : Prop :=
  (∀ x, p.red = some x → -1 ≤ x ∧ x ≤ 1) ∧ (∀ x, p.green = some x → -1 ≤ x ∧ x ≤ 1) ∧
  (∀ x, p.blue = some x → -1 ≤ x ∧ x ≤ 1) ∧ (∀ x, p.alpha = some x → -1 ≤ x ∧ x ≤ 1)

/-- the scaled value moves `x` (a fraction in [−1,1]) of the way towards `max` (x > 0) or 0 (x ≤ 0) and
    stays in range -/
theorem scaled_facts {cur max x : Rat} (h0 : 0 ≤ cur) (h1 : cur ≤ max) (x0 : -1 ≤ x) (x1 : x ≤ 1) :
    (0 < x → scaled cur (some x) max - cur = x * (max - cur)) ∧
    (x ≤ 0 → cur - scaled cur (some x) max = (-x) * (cur - 0)) ∧
    0 ≤ scaled cur (some x) max ∧ scaled cur (some x) max ≤ max := by
  simp only [scaled]
  refine ⟨?_, ?_, ?_, ?_⟩
  · intro h; rw [if_pos h]; grind
  · intro h; rw [if_neg (by grind)]; grind
  · split
    · have := Rat.mul_nonneg (a := max - cur) (b := x) (by grind) (by grind); grind
    · have := Rat.mul_le_mul_of_nonneg_left (a := -1) (b := x) (c := cur) x0 h0; grind
  · split
    · have := Rat.mul_le_mul_of_nonneg_left (a := x) (b := 1) (c := max - cur) x1 (by grind); grind
    · have := Rat.mul_le_mul_of_nonneg_left (a := x) (b := 0) (c := cur) (by grind) h0; grind

theorem scaled_bounds {cur max : Rat} {v : Option Rat} (h0 : 0 ≤ cur) (h1 : cur ≤ max)
    (hv : ∀ x, v = some x → -1 ≤ x ∧ x ≤ 1) : 0 ≤ scaled cur v max ∧ scaled cur v max ≤ max := by
  cases v with
  | none => exact ⟨h0, h1⟩
  | some x => have ⟨a, b⟩ := hv x rfl; exact (scaled_facts h0 h1 a b).2.2

/-- **(3) scale-color interpolates.**  The new value of a component is
    `current + p·(max − current)` for p > 0 and `current + p·current` for p ≤ 0 (p the percentage / 100):
    0% keeps it, 100% reaches the maximum, −100% reaches 0, anything between stays in range and moves
    that fraction of the way.  RGB group: each given channel becomes the rounded scaled value, the rest is
    kept; HSL/HWB groups: the constructor receives the scaled saturation/lightness (whiteness/blackness);
    alpha alone: channels kept. -/
theorem C15_scale_color_interpolates (c : Color) (p : UpdArgs) (hw : c.wf = true) (hp : p.scaleOk) :
    (∀ cur max : Rat, scaled cur (some 0) max = cur ∧ scaled cur (some 1) max = max ∧ scaled cur (some (-1)) max = 0) ∧
    (∀ cur max x : Rat, 0 ≤ cur → cur ≤ max → -1 ≤ x → x ≤ 1 →
      (0 < x → scaled cur (some x) max - cur = x * (max - cur)) ∧
      (x ≤ 0 → cur - scaled cur (some x) max = (-x) * (cur - 0)) ∧
      0 ≤ scaled cur (some x) max ∧ scaled cur (some x) max ≤ max) ∧
    (p.onlyRgb → (p.red.isSome || p.green.isSome || p.blue.isSome) = true →
      ∃ d, updateComponents .scale c p = .ok d ∧ d.r = fuzzyRound (scaled c.r p.red 255) ∧
        d.g = fuzzyRound (scaled c.g p.green 255) ∧ d.b = fuzzyRound (scaled c.b p.blue 255) ∧
        d.a = scaled c.alpha p.alpha 1) ∧
    (p.onlyHsl → p.hue = none → (p.saturation.isSome || p.lightness.isSome) = true →
      updateComponents .scale c p = .ok (fromHsla (c.asHsla.1 + 0) (scaled c.asHsla.2.1 p.saturation 1)
        (scaled c.asHsla.2.2.1 p.lightness 1) (scaled c.alpha p.alpha 1))) ∧
    (p.onlyHwb → p.hue = none → (p.whiteness.isSome || p.blackness.isSome) = true →
      updateComponents .scale c p = .ok (fromHwb (c.hue + 0) (scaled c.whiteness p.whiteness 1 * 100)
        (scaled c.blackness p.blackness 1 * 100) (scaled c.alpha p.alpha 1))) ∧
    (p.onlyAlpha → ∀ a, p.alpha = some a →
      ∃ d, updateComponents .scale c p = .ok d ∧ d.r = c.r ∧ d.g = c.g ∧ d.b = c.b ∧ d.a = scaled c.alpha (some a) 1) := by
  have ⟨cr, cg, cb⟩ := wf_chan hw
  have ⟨er, eg, eb⟩ := wf_red hw
  have ⟨a0, a1⟩ := wf_alpha hw
  have ⟨_, r0, r1⟩ := chanOk_bounds cr
  have ⟨_, g0, g1⟩ := chanOk_bounds cg
  have ⟨_, b0, b1⟩ := chanOk_bounds cb
  obtain ⟨pr, pg, pb, pa⟩ := hp
  have G := updatePlan_groups .scale c p
  have ne : ¬ (Upd.scale = Upd.change) := by decide
  refine ⟨?_, ?_, ?_, ?_, ?_, ?_⟩
  · intro cur max
    simp only [scaled]
    refine ⟨?_, ?_, ?_⟩
    · grind
    · rw [if_pos (by decide +kernel)]; grind
    · rw [if_neg (by decide +kernel)]; grind
  · intro cur max x h0 h1 x0 x1; exact scaled_facts h0 h1 x0 x1
  · intro ho hs
    refine ⟨_, by rw [updateComponents, G.1 ho hs]; rfl, ?_⟩
    simp only [execPlan, fromRgba, newRgba, (updateValue_eq _ _ _).2.2, er, eg, eb]
    have br := scaled_bounds (v := p.red) r0 r1 pr
    have bg := scaled_bounds (v := p.green) g0 g1 pg
    have bb := scaled_bounds (v := p.blue) b0 b1 pb
    have ba := scaled_bounds (v := p.alpha) a0 a1 pa
    rw [stored_chan br.1 br.2, stored_chan bg.1 bg.2, stored_chan bb.1 bb.2, clamp_id ba.1 ba.2]
    refine ⟨?_, ?_, ?_, ?_⟩ <;> first | trivial | rfl
  · intro ho hh hs
    rw [updateComponents, G.2.2.1 ho (by simp [hh]; simpa using hs)]
    simp only [Except.map, execPlan, (updateValue_eq _ _ _).2.2, if_neg ne, asHsla_alpha, hh, Option.getD]
  · intro ho hh hs
    rw [updateComponents, G.2.1 ho hs]
    simp only [Except.map, execPlan, (updateValue_eq _ _ _).2.2, if_neg ne, hh, Option.getD]
  · intro ho a ha
    have hs : p.alpha.isSome = true := by rw [ha]; rfl
    refine ⟨_, by rw [updateComponents, G.2.2.2.1 ho hs]; rfl, ?_⟩
    have ⟨x0, x1⟩ := scaled_bounds (v := some a) a0 a1 (fun x hx => pa x (by rw [ha]; exact hx))
    simp only [execPlan, withAlpha, fromRgba, newRgba, (updateValue_eq _ _ _).2.2, ha, er, eg, eb,
      clamp_chanOk cr, clamp_chanOk cg, clamp_chanOk cb, clamp_id x0 x1]
    refine ⟨?_, ?_, ?_, ?_⟩ <;> first | trivial | rfl

/-- scale-color by 0% in any single component returns the same colour (HWB components: colours without
    stored HSL, as for adjust-color). -/
theorem C15_scale_color_by_zero (c d : Color) (hw : c.wf = true) (hc : hslConsistent c) :
    (updateComponents .scale c { red := some 0 } = .ok d → sameColor d c = true) ∧
    (updateComponents .scale c { green := some 0 } = .ok d → sameColor d c = true) ∧
    (updateComponents .scale c { blue := some 0 } = .ok d → sameColor d c = true) ∧
    (updateComponents .scale c { alpha := some 0 } = .ok d → sameColor d c = true) ∧
    (updateComponents .scale c { saturation := some 0 } = .ok d → sameColor d c = true) ∧
    (updateComponents .scale c { lightness := some 0 } = .ok d → sameColor d c = true) ∧
    (c.hsl = none → updateComponents .scale c { whiteness := some 0 } = .ok d → sameColor d c = true) ∧
    (c.hsl = none → updateComponents .scale c { blackness := some 0 } = .ok d → sameColor d c = true) := by
  have ⟨cr, cg, cb⟩ := wf_chan hw
  have ⟨a0, a1⟩ := wf_alpha hw
  have fr : ∀ x : Rat, chanOk x = true → fuzzyRound x = x := fun x h => fuzzyRound_of_isInt (chanOk_bounds h).1
  have z : ∀ cur max : Rat, scaled cur (some 0) max = cur := fun cur max => by simp only [scaled]; grind
  have okz : ∀ x : Rat, some (0 : Rat) = some x → -1 ≤ x ∧ x ≤ 1 := by
    intro x h; cases h; constructor <;> decide +kernel
  have no : ∀ x : Rat, (none : Option Rat) = some x → -1 ≤ x ∧ x ≤ 1 := fun _ h => by cases h
  have ⟨k1, k2, k3, k4⟩ := rebuild c hw hc
  rw [asHsla_alpha c] at k1 k2 k3 k4
  have rgbcase : ∀ p : UpdArgs, p.scaleOk → p.onlyRgb → (p.red.isSome || p.green.isSome || p.blue.isSome) = true →
      p.alpha = none → (p.red = none ∨ p.red = some 0) → (p.green = none ∨ p.green = some 0) →
      (p.blue = none ∨ p.blue = some 0) → updateComponents .scale c p = .ok d → sameColor d c = true := by
    intro p pk ho hs ha h1 h2 h3 hd
    obtain ⟨d', e, q1, q2, q3, q4⟩ := (C15_scale_color_interpolates c p hw pk).2.2.1 ho hs
    rw [e] at hd; cases hd
    apply sameColor_of_chan hw
    · rw [q1]; rcases h1 with h | h
      · simp only [h, scaled, fr _ cr]
      · simp only [h, z, fr _ cr]
    · rw [q2]; rcases h2 with h | h
      · simp only [h, scaled, fr _ cg]
      · simp only [h, z, fr _ cg]
    · rw [q3]; rcases h3 with h | h
      · simp only [h, scaled, fr _ cb]
      · simp only [h, z, fr _ cb]
    · rw [q4, ha]; rfl
  refine ⟨?_, ?_, ?_, ?_, ?_, ?_, ?_, ?_⟩
  · exact rgbcase _ ⟨okz, no, no, no⟩ ⟨rfl, rfl, rfl, rfl, rfl⟩ rfl rfl (Or.inr rfl) (Or.inl rfl) (Or.inl rfl)
  · exact rgbcase _ ⟨no, okz, no, no⟩ ⟨rfl, rfl, rfl, rfl, rfl⟩ rfl rfl (Or.inl rfl) (Or.inr rfl) (Or.inl rfl)
  · exact rgbcase _ ⟨no, no, okz, no⟩ ⟨rfl, rfl, rfl, rfl, rfl⟩ rfl rfl (Or.inl rfl) (Or.inl rfl) (Or.inr rfl)
  · intro h
    obtain ⟨d', e, q1, q2, q3, q4⟩ := (C15_scale_color_interpolates c { alpha := some 0 } hw ⟨no, no, no, okz⟩).2.2.2.2.2
      ⟨rfl, rfl, rfl, rfl, rfl, rfl, rfl, rfl⟩ 0 rfl
    rw [e] at h; cases h
    exact sameColor_of_chan hw q1 q2 q3 (by rw [q4, z])
  · intro h
    rw [(C15_scale_color_interpolates c { saturation := some 0 } hw ⟨no, no, no, no⟩).2.2.2.1 ⟨rfl, rfl, rfl, rfl, rfl⟩ rfl rfl] at h
    cases h
    simp only [z, add_zero']
    simp only [scaled]
    exact sameColor_of_chan hw k1 k2 k3 (by rw [k4])
  · intro h
    rw [(C15_scale_color_interpolates c { lightness := some 0 } hw ⟨no, no, no, no⟩).2.2.2.1 ⟨rfl, rfl, rfl, rfl, rfl⟩ rfl rfl] at h
    cases h
    simp only [z, add_zero']
    simp only [scaled]
    exact sameColor_of_chan hw k1 k2 k3 (by rw [k4])
  · intro hn h
    rw [(C15_scale_color_interpolates c { whiteness := some 0 } hw ⟨no, no, no, no⟩).2.2.2.2.1 ⟨rfl, rfl, rfl, rfl, rfl⟩ rfl rfl] at h
    cases h
    simp only [z, add_zero']
    simp only [scaled]
    have e := hwb_exact_of c hw hn
    apply sameColor_of_chan hw <;>
      simp only [fromHwb, e, newRgba, fr _ cr, fr _ cg, fr _ cb, clamp_id a0 a1]
  · intro hn h
    rw [(C15_scale_color_interpolates c { blackness := some 0 } hw ⟨no, no, no, no⟩).2.2.2.2.1 ⟨rfl, rfl, rfl, rfl, rfl⟩ rfl rfl] at h
    cases h
    simp only [z, add_zero']
    simp only [scaled]
    have e := hwb_exact_of c hw hn
    apply sameColor_of_chan hw <;>
      simp only [fromHwb, e, newRgba, fr _ cr, fr _ cg, fr _ cb, clamp_id a0 a1]

/-- Mixing argument groups in one call is an error, for change-, adjust- and scale-color alike
    (other.rs:150–171): RGB arguments with any HSL/HWB argument or `$hue`; saturation/lightness with
    whiteness/blackness. -/
theorem C15_update_mixed_groups_error (u : Upd) (c : Color) (p : UpdArgs) :
    ((p.red.isSome || p.green.isSome || p.blue.isSome) = true →
      (p.hue.isSome || p.saturation.isSome || p.lightness.isSome || p.whiteness.isSome || p.blackness.isSome) = true →
      updateComponents u c p = .error .mixedSpaces) ∧
    ((p.saturation.isSome || p.lightness.isSome) = true → (p.whiteness.isSome || p.blackness.isSome) = true →
      updateComponents u c p = .error .mixedSpaces) := by
  constructor
  · intro h1 h2
    have h2' : ((p.saturation.isSome || p.lightness.isSome) || (p.whiteness.isSome || p.blackness.isSome) || p.hue.isSome) = true := by
      revert h2; cases p.hue.isSome <;> cases p.saturation.isSome <;> cases p.lightness.isSome <;>
        cases p.whiteness.isSome <;> cases p.blackness.isSome <;> simp
    simp only [updateComponents, updatePlan, h1, h2', Bool.and_self, if_true]
    rfl
  · intro h1 h2
    simp only [updateComponents, updatePlan, h1, h2, Bool.and_self, if_true]
    split <;> rfl

example : updateComponents .scale (newRgba 1 2 3 1 .infer) { red := some (1/2), lightness := some (1/2) } = .error .mixedSpaces :=
  (C15_update_mixed_groups_error _ _ _).1 rfl rfl

/-- the saturation `as_hsla` reports is in [0,1] for colours satisfying the invariants -/
theorem asHsla_sat_le_one (c : Color) (hw : c.wf = true) (hc : hslConsistent c) : c.asHsla.2.1 ≤ 1 := by
  unfold Color.asHsla
  cases hh : c.hsl with
  | some h =>
    unfold hslConsistent at hc; rw [hh] at hc
    exact hc.2.2.2.1
  | none =>
    have ⟨cr, cg, cb⟩ := wf_chan hw
    have ⟨er, eg, eb⟩ := wf_red hw
    obtain ⟨nr, hnr, enr⟩ := chanOk_nat cr
    obtain ⟨ng, hng, eng⟩ := chanOk_nat cg
    obtain ⟨nb, hnb, enb⟩ := chanOk_nat cb
    have ⟨r0, r1⟩ := unit_of_nat hnr
    have ⟨g0, g1⟩ := unit_of_nat hng
    have ⟨b0, b1⟩ := unit_of_nat hnb
    simp only [er, eg, eb, enr, eng, enb]
    rw [rgbToHsl_eq_E (sep_of_nat nr ng nb) r0 r1 g0 g1 b0 b1]
    have F := minmax_facts ((nr : Rat) / 255) ((ng : Rat) / 255) ((nb : Rat) / 255)
    simp only [rgbToHslE]
    generalize min3 ((nr : Rat) / 255) ((ng : Rat) / 255) ((nb : Rat) / 255) = mn at F ⊢
    generalize max3 ((nr : Rat) / 255) ((ng : Rat) / 255) ((nb : Rat) / 255) = mx at F ⊢
    obtain ⟨f1, f2, f3, f4, f5, f6, f7, f8⟩ := F
    split
    · decide +kernel
    · split <;> apply div_le_one' <;> grind

/-- **(5a)** grayscale($c) is desaturate($c, 100%) (builtin/functions/color/hsl.rs:275), and its result
    is a grey: the three channels are equal. -/
theorem C15_grayscale_is_desaturate_100 (c : Color) (hw : c.wf = true) (hc : hslConsistent c) :
    applyFn "grayscale" [.color c] [] = .ok (.color (desaturate c 1)) ∧
    (desaturate c 1).r = (desaturate c 1).g ∧ (desaturate c 1).g = (desaturate c 1).b := by
  refine ⟨rfl, ?_⟩
  have ⟨_, _, _, e4, _, _⟩ := hslFns_eq c 1
  have s1 := asHsla_sat_le_one c hw hc
  have cz : clamp (c.asHsla.2.1 - 1) 0 1 = 0 := by
    rcases clamp_cases (c.asHsla.2.1 - 1) 0 1 (by decide +kernel) with ⟨e, a, _⟩ | ⟨e, _⟩ | ⟨e, a⟩ <;> grind
  have ⟨f1, f2, f3, _, _⟩ := fromHsla_fields c.asHsla.1 0 c.asHsla.2.2.1 c.asHsla.2.2.2
  rw [e4, cz, f1, f2, f3]
  have c0 : clamp 0 0 1 = 0 := by decide +kernel
  simp only [hslToRgbExact, c0]
  generalize clamp c.asHsla.2.2.1 0 1 = l
  have m2 : (if l ≤ 1 / 2 then l * (0 + 1) else l * -0 + (l + 0)) = l := by split <;> grind
  have m1 : l * 2 + -l = l := by grind
  simp only [m2, m1, hueToRgb_const]
  exact ⟨trivial, trivial⟩

example : ((desaturate (newRgba 18 52 87 1 .infer) 1).r, (desaturate (newRgba 18 52 87 1 .infer) 1).g) = (53, 53) := by
  decide +kernel

theorem mix_congr {f : Bool} {c1 c1' c2 : Color} {w : Rat} (hr : c1.red = c1'.red) (hg : c1.green = c1'.green)
    (hb : c1.blue = c1'.blue) (ha : c1.alpha = c1'.alpha) : mix f c1 c2 w = mix f c1' c2 w := by
  simp only [mix, mixPre, hr, hg, hb, ha]

/-- **(5b)** invert($c, $w) for a non-zero weight is mix(invert($c), $c, $w) — with the fully inverted
    colour as first operand (color/mod.rs:417–428); weight 0 returns `$c` itself. -/
theorem C15_invert_weight (c : Color) (w : Rat) (hw : c.wf = true) :
    (fuzzyEq w 0 = true → invert false c w = c) ∧
    (fuzzyEq w 0 = false → invert false c w = mix false (invert false c 1) c w) := by
  constructor
  · intro h; simp only [invert, h, if_true]
  · intro h
    have ⟨cr, cg, cb⟩ := wf_chan hw
    have ⟨er, eg, eb⟩ := wf_red hw
    have ⟨a0, a1⟩ := wf_alpha hw
    have ⟨i1, i2, i3, i4⟩ := invert_full c hw
    have iw := (C15_channels_in_range_invert c 1 hw).1
    have ⟨jr, jg, jb⟩ := wf_red iw
    have ja : (invert false c 1).alpha = c.alpha := by rw [alpha_of_le_one (by rw [i4]; exact a1), i4]
    have kr : (inverseOf c).red = 255 - c.r := by
      show roundQ (255 - c.red) = 255 - c.r
      rw [er]; exact roundQ_of_isInt (chanOk_bounds (chanOk_255_sub cr)).1
    have kg : (inverseOf c).green = 255 - c.g := by
      show roundQ (255 - c.green) = 255 - c.g
      rw [eg]; exact roundQ_of_isInt (chanOk_bounds (chanOk_255_sub cg)).1
    have kb : (inverseOf c).blue = 255 - c.b := by
      show roundQ (255 - c.blue) = 255 - c.b
      rw [eb]; exact roundQ_of_isInt (chanOk_bounds (chanOk_255_sub cb)).1
    have ka : (inverseOf c).alpha = c.alpha := alpha_of_le_one (c := inverseOf c) a1
    have e : invert false c w = mix false (inverseOf c) c w := by
      simp only [invert, h, Bool.false_eq_true, if_false]
    rw [e]
    exact mix_congr (by rw [kr, jr, i1]) (by rw [kg, jg, i2]) (by rw [kb, jb, i3]) (by rw [ka, ja])

/-! ## 11. The variants found on the pinned tree violate the property (kernel-checked witnesses) -/

/-- D21 as found: `mix(#000, #020202, 25%)` kept fractional channels (1.5): not in range, `red()` = 2,
    yet not equal to #020202.  With the rounding now in /repo the same call is in range and equal. -/
theorem C15_asFound_mix_unrounded :
    let a := newRgba 0 0 0 1 .infer; let b := newRgba 2 2 2 1 .infer
    (mix true a b (1/4)).inRange = false ∧ (mix true a b (1/4)).red = 2 ∧ (mix true a b (1/4)).eq b = false ∧
    (mix false a b (1/4)).inRange = true ∧ (mix false a b (1/4)).eq b = true := by
  decide +kernel

/-- D14 as found: `lightness()` rounded to an integer, so hsl(hue(c), saturation(c), lightness(c)) of
    #123457 was #123559; unrounded it is #123457 again. -/
theorem C15_asFound_lightness_rounded :
    let c := newRgba 18 52 87 1 .infer
    let back (asFound : Bool) := fromHslaFn (sassMod c.hue 360) (c.saturation / 100) (c.lightness asFound / 100) 1
    ((back true).r, (back true).g, (back true).b) = (18, 53, 89) ∧
    ((back false).r, (back false).g, (back false).b) = (18, 52, 87) := by
  decide +kernel

end Grass.Color
