import Grass.Color
import Grass.Generated.CssColorsRef
import GrassProofs.Lemmas.ColorNum
import GrassProofs.Lemmas.ColorConv
/-
  C15 — Colours keep channels in range and agree across spellings and colour spaces.

  Everything is about the model of the code as it stands in /repo (`mix false`, `lightness false`);
  the variants found on the pinned tree (`asFound = true`: D14 rounded `lightness()`, D21 unrounded
  `mix()`) appear only in the `C15_asFound_…` witnesses at the end.

  P̂ (Grass/Color.lean): `Color.inRange` (integer channels in [0,255], alpha in [0,1]), `Color.wf` (the
  invariant that implies it and is preserved by every function), `sameColor` (equal under grass's
  `==` and printed identically in compressed mode).
-/
namespace Grass.Color
open Grass.Generated

/-! ## 1. The named-colour table is the CSS table -/

/-- grass's `name_to_rgba` (regenerated from color/name.rs on every run) and the committed CSS
    reference table contain exactly the same (name, rgba) entries, and no name occurs twice. -/
theorem C15_named_table_eq_css :
    nameToRgba.all (fun e => cssColorsRef.contains e) = true ∧
    cssColorsRef.all (fun e => nameToRgba.contains e) = true ∧
    nameToRgba.length = cssColorsRef.length ∧
    (nameToRgba.map (·.1)).eraseDups.length = nameToRgba.length := by
  decide +kernel

example : lookupName [114, 101, 100] = some (255, 0, 0, 255) := by decide +kernel  -- "red"

/-- The reverse table used by the serializer is consistent with the forward table: every
    `rgb ↦ name` entry names a colour whose value is that rgb (opaque), and every opaque named
    colour's rgb has a reverse entry — so a colour written by name is printed by a name (possibly the
    other of a synonym pair such as aqua/cyan, gray/grey, fuchsia/magenta) of the same colour. -/
theorem C15_named_reverse_consistent :
    rgbaToName.all (fun e => lookupName e.2 == some (e.1.1, e.1.2.1, e.1.2.2, 255)) = true ∧
    nameToRgba.all (fun e => e.2.2.2.2 != 255 ||
      match lookupRgb (e.2.1, e.2.2.1, e.2.2.2.1) with
      | some n => lookupName n == some e.2
      | none => false) = true := by
  decide +kernel

example : lookupRgb (0, 255, 255) = some [97, 113, 117, 97] := by decide +kernel  -- aqua (cyan is its synonym)

/-! ## 2. Channels stay in range -/

theorem wf_inRange {c : Color} (h : c.wf = true) : c.inRange = true := by
  simp only [Color.wf, Bool.and_eq_true, Bool.or_eq_true, decide_eq_true_eq, beq_iff_eq] at h
  obtain ⟨⟨⟨hr, hg⟩, hb⟩, ha⟩ := h
  simp only [Color.inRange, Color.alpha, hr, hg, hb, Bool.and_eq_true, decide_eq_true_eq, true_and]
  rcases ha with ⟨a0, a1⟩ | a255
  · split <;> grind
  · rw [a255]; decide +kernel

theorem wf_alpha {c : Color} (h : c.wf = true) : 0 ≤ c.alpha ∧ c.alpha ≤ 1 := by
  have := wf_inRange h
  simp only [Color.inRange, Bool.and_eq_true, decide_eq_true_eq] at this
  exact ⟨this.1.2, this.2⟩

theorem wf_mk {r g b a : Rat} {h : Option Hsl} {f : Fmt} (hr : chanOk r = true) (hg : chanOk g = true)
    (hb : chanOk b = true) (a0 : 0 ≤ a) (a1 : a ≤ 1) :
    ({ r := r, g := g, b := b, a := a, hsl := h, fmt := f } : Color).wf = true := by
  simp [Color.wf, hr, hg, hb, a0, a1]

/-- `from_rgba` / `from_rgba_fn` with integer channels (every caller passes rounded channels). -/
theorem fromRgba_wf {r g b : Rat} (a : Rat) (hr : isInt r = true) (hg : isInt g = true) (hb : isInt b = true) :
    (fromRgba r g b a).wf = true ∧ (fromRgbaFn r g b a).wf = true := by
  have ⟨a0, a1⟩ := clamp_bounds a 0 1 (by decide +kernel)
  exact ⟨wf_mk (chanOk_clamp hr) (chanOk_clamp hg) (chanOk_clamp hb) a0 a1,
         wf_mk (chanOk_clamp hr) (chanOk_clamp hg) (chanOk_clamp hb) a0 a1⟩

/-- rgb()/rgba() with numeric arguments: whatever the arguments, a produced colour is in range. -/
theorem C15_channels_in_range_rgb (r g b : Rat × String) (a : Option (Rat × String)) (c : Color)
    (h : fnRgb r g b a = .ok c) : c.wf = true ∧ c.inRange = true := by
  suffices c.wf = true from ⟨this, wf_inRange this⟩
  unfold fnRgb at h
  split at h
  · split at h
    · cases h; exact (fromRgba_wf _ (fuzzyRound_isInt _) (fuzzyRound_isInt _) (fuzzyRound_isInt _)).2
    · split at h
      · cases h; exact (fromRgba_wf _ (fuzzyRound_isInt _) (fuzzyRound_isInt _) (fuzzyRound_isInt _)).2
      · cases h
  all_goals cases h

example : ∃ c, fnRgb (300, "") (-5, "") (255/2, "") (some (50, "pct")) = .ok c ∧ c.r = 255 ∧ c.g = 0 ∧ c.b = 128 ∧ c.a = 1/2 :=
  ⟨_, by decide +kernel⟩

theorem fromHsla_wf (hue sat light alpha : Rat) (a0 : 0 ≤ alpha) (a1 : alpha ≤ 1) :
    (fromHsla hue sat light alpha).wf = true ∧ (fromHslaFn hue sat light alpha).wf = true := by
  have ⟨h0, h1⟩ := sassMod_bounds hue
  have hb := hslToRgbExact_bounds (hue := sassMod hue 360) (sat := sat) (light := light) h0 h1
  unfold fromHslaFn fromHsla
  generalize hslToRgbExact (sassMod hue 360) sat light = t at hb
  obtain ⟨r, g, b⟩ := t
  simp only [] at hb ⊢
  obtain ⟨⟨r0, r1⟩, ⟨g0, g1⟩, ⟨b0, b1⟩⟩ := hb
  exact ⟨wf_mk (chanOk_fuzzyRound r0 r1) (chanOk_fuzzyRound g0 g1) (chanOk_fuzzyRound b0 b1) a0 a1,
         wf_mk (chanOk_fuzzyRound r0 r1) (chanOk_fuzzyRound g0 g1) (chanOk_fuzzyRound b0 b1) a0 a1⟩

theorem pctOrUnitless_bounds {x : Rat} {u : String} {max v : Rat} (hm : 0 ≤ max)
    (h : pctOrUnitless x u max = .ok v) : 0 ≤ v ∧ v ≤ max := by
  unfold pctOrUnitless at h
  split at h
  · cases h; exact clamp_bounds _ _ _ hm
  · split at h
    · cases h; exact clamp_bounds _ _ _ hm
    · cases h

/-- hsl()/hsla() with numeric arguments — any hue, saturation and lightness, also far outside their
    ranges: a produced colour is in range. -/
theorem C15_channels_in_range_hsl (h s l : Rat × String) (a : Option (Rat × String)) (c : Color)
    (hc : fnHsl h s l a = .ok c) : c.wf = true ∧ c.inRange = true := by
  suffices c.wf = true from ⟨this, wf_inRange this⟩
  unfold fnHsl at hc
  split at hc
  · cases hc
  · simp only [] at hc
    split at hc
    · cases hc
    · rename_i alpha ha
      cases hc
      have ⟨a0, a1⟩ := pctOrUnitless_bounds (by decide +kernel) ha
      exact (fromHsla_wf _ _ _ _ a0 a1).2

example : ∃ c, fnHsl (-30, "deg") (120, "pct") (50, "pct") none = .ok c ∧ c.r = 255 ∧ c.g = 0 ∧ c.b = 128 :=
  ⟨_, by decide +kernel⟩

theorem fromHwb_wf (hue white black alpha : Rat) (w0 : 0 ≤ white) (b0 : 0 ≤ black) :
    (fromHwb hue white black alpha).wf = true := by
  have hb := hwbToRgbExact_bounds (hue := hue) w0 b0
  unfold fromHwb
  generalize hwbToRgbExact hue white black = t at hb
  obtain ⟨r, g, b⟩ := t
  simp only [] at hb ⊢
  obtain ⟨⟨r0, r1⟩, ⟨g0, g1⟩, ⟨b0', b1⟩⟩ := hb
  have ⟨a0, a1⟩ := clamp_bounds alpha 0 1 (by decide +kernel)
  exact wf_mk (chanOk_fuzzyRound r0 r1) (chanOk_fuzzyRound g0 g1) (chanOk_fuzzyRound b0' b1) a0 a1

theorem assertBounds_ok {x lo hi : Rat} {u : Unit} (h : assertBounds x lo hi = .ok u) : lo ≤ x ∧ x ≤ hi := by
  unfold assertBounds at h
  split at h
  · rename_i hx; exact ⟨hx.2, hx.1⟩
  · cases h

/-- color.hwb() with numeric arguments: a produced colour is in range. -/
theorem C15_channels_in_range_hwb (h w b : Rat × String) (a : Option (Rat × String)) (c : Color)
    (hc : fnHwb h w b a = .ok c) : c.wf = true ∧ c.inRange = true := by
  suffices c.wf = true from ⟨this, wf_inRange this⟩
  unfold fnHwb at hc
  split at hc
  · cases hc
  · split at hc
    · cases hc
    · split at hc
      · rename_i hw hb
        simp only [] at hc
        split at hc
        · cases hc
        · cases hc
          exact fromHwb_wf _ _ _ _ (assertBounds_ok hw).1 (assertBounds_ok hb).1
      all_goals cases hc

example : ∃ c, fnHwb (120, "") (80, "pct") (60, "pct") none = .ok c ∧ c.r = 146 ∧ c.g = 146 ∧ c.b = 146 :=
  ⟨_, by decide +kernel⟩

end Grass.Color
