import Grass.Interner
import Grass.Generated.GlobalState
/-
  C02 — A result is a pure function of source, options and visible files.

  PARTIAL by design.  The theorems are about the state that survives a compilation in grass — the
  thread-local string interner and the two process-wide id counters — and about a small language
  of what a compilation may do with identifiers and ids (Grass/Interner.lean).  They say: as long
  as identifiers are used only through key equality, `resolve` and insertion-ordered iteration,
  and ids only through equality, the output is the same after every history, for every initial
  counter value and for every interleaving with other threads.  The two kinds of leak (key-ordered
  and hash-ordered iteration reaching the output, D13) are modelled by `ordered true` and
  `hashed π` and shown to break the property (`C02_asFound_…`); named arguments and merged member
  views were repaired in /repo (adef70c, d156cce: the `now` variants are the insertion-ordered
  ones), module member maps and `with` configurations are still key-ordered.  That the *whole* compiler is a
  pure function (`C02_full`) is tested, not proved: tools/props/c02.py runs real grass after
  adversarial histories, on concurrent threads and in fresh processes.
-/
namespace Grass.Interner

/-! ### helper lemmas: the table -/

theorem find?_some_get {s : Str} : ∀ {st : Interner} {k : Nat}, find? s st = some k → st[k]? = some s := by
  intro st
  induction st with
  | nil => intro k h; simp [find?] at h
  | cons t ts ih =>
    intro k h
    unfold find? at h
    split at h
    · rename_i ht; cases h; simp [ht]
    · cases hf : find? s ts with
      | none => simp [hf] at h
      | some j => simp [hf] at h; subst h; simpa using ih hf

theorem find?_none_not_mem {s : Str} : ∀ {st : Interner}, find? s st = none → s ∉ st := by
  intro st
  induction st with
  | nil => intro _; simp
  | cons t ts ih =>
    intro h
    unfold find? at h
    split at h
    · cases h
    · rename_i ht
      cases hf : find? s ts with
      | none => simp only [List.mem_cons, not_or]; exact ⟨fun e => ht e.symm, ih hf⟩
      | some j => simp [hf] at h

theorem find?_append_self {s : Str} : ∀ {st : Interner}, find? s st = none → find? s (st ++ [s]) = some st.length := by
  intro st
  induction st with
  | nil => intro _; simp [find?]
  | cons t ts ih =>
    intro h
    unfold find? at h
    split at h
    · cases h
    · rename_i ht
      cases hf : find? s ts with
      | none => simp [find?, ht, ih hf]
      | some j => simp [hf] at h

theorem nodup_getElem?_inj {α} {l : List α} (h : l.Nodup) {i j : Nat} {x : α}
    (hi : l[i]? = some x) (hj : l[j]? = some x) : i = j := by
  induction l generalizing i j with
  | nil => simp at hi
  | cons a as ih =>
    rw [List.nodup_cons] at h
    cases i with
    | zero =>
      cases j with
      | zero => rfl
      | succ j =>
        simp at hi hj; subst hi
        exact absurd (List.mem_of_getElem? hj) h.1
    | succ i =>
      cases j with
      | zero =>
        simp at hi hj; subst hj
        exact absurd (List.mem_of_getElem? hi) h.1
      | succ j => simp at hi hj; rw [ih h.2 hi hj]

/-! ### interner laws -/

/-- Resolving the key returned by `get_or_intern s` gives back `s`, in every state. -/
theorem C02_resolve_intern (st : Interner) (s : Str) :
    resolve (intern st s).1 (intern st s).2 = some s := by
  unfold intern resolve
  cases h : find? s st with
  | none => simp
  | some k => simpa using find?_some_get h

/-- Interning the same string again returns the same key and leaves the table unchanged. -/
theorem C02_intern_idempotent (st : Interner) (s : Str) :
    intern (intern st s).1 s = intern st s := by
  unfold intern
  cases h : find? s st with
  | none => simp [find?_append_self h]
  | some k => simp [h]

/-- Keys are stable under growth: a key keeps its string whatever is interned later. -/
theorem C02_keys_stable (st : Interner) (s t : Str) (k : Nat) (h : resolve st k = some t) :
    resolve (intern st s).1 k = some t := by
  unfold intern resolve at *
  cases hf : find? s st with
  | none =>
    have hk : k < st.length := by
      rcases Nat.lt_or_ge k st.length with hlt | hge
      · exact hlt
      · simp [List.getElem?_eq_none hge] at h
    simp [List.getElem?_append_left hk, h]
  | some j => simpa using h

theorem C02_keys_stable_history (h : List Str) : ∀ (st : Interner) (t : Str) (k : Nat),
    resolve st k = some t → resolve (internAll st h) k = some t := by
  induction h with
  | nil => intro st t k hk; exact hk
  | cons s ss ih => intro st t k hk; exact ih _ t k (C02_keys_stable st s t k hk)

/-- The table never stores a string twice: preserved by `get_or_intern`. -/
theorem C02_wf_intern (st : Interner) (s : Str) (h : Wf st) : Wf (intern st s).1 := by
  unfold intern Wf at *
  cases hf : find? s st with
  | none =>
    simp only
    rw [List.nodup_append]
    refine ⟨h, by simp, ?_⟩
    intro a ha b hb
    simp at hb; subst hb
    intro e; subst e
    exact find?_none_not_mem hf ha
  | some k => simpa using h

theorem C02_wf_history (h : List Str) : ∀ st, Wf st → Wf (internAll st h) := by
  induction h with
  | nil => intro st w; exact w
  | cons s ss ih => intro st w; exact ih _ (C02_wf_intern st s w)

theorem wf_nil : Wf [] := by simp [Wf]

/-- Every reachable state (any history from the empty table) is well-formed. -/
theorem C02_wf_reachable (h : List Str) : Wf (internAll [] h) := C02_wf_history h [] wf_nil

/-- Key equality is string equality: two valid keys of one table are equal exactly when the
    strings they stand for are equal. -/
theorem C02_keyEq_iff_streq (st : Interner) (w : Wf st) (a b : Nat) (x y : Str)
    (ha : resolve st a = some x) (hb : resolve st b = some y) :
    keyEq a b = true ↔ x = y := by
  unfold keyEq resolve at *
  constructor
  · intro e
    have : a = b := by simpa using e
    subst this; rw [ha] at hb; cases hb; rfl
  · intro e; subst e
    have := nodup_getElem?_inj w ha hb
    simp [this]


/-! ### key-renaming simulation -/

/-- Two keys of two tables stand for the same string. -/
def KRel (st₁ st₂ : Interner) (a b : Nat) : Prop :=
  ∃ s, resolve st₁ a = some s ∧ resolve st₂ b = some s

/-- Register files related position by position. -/
inductive RRel (st₁ st₂ : Interner) : List Nat → List Nat → Prop
  | nil : RRel st₁ st₂ [] []
  | cons {a b as bs} : KRel st₁ st₂ a b → RRel st₁ st₂ as bs → RRel st₁ st₂ (a :: as) (b :: bs)

theorem KRel.mono {st₁ st₂ a b} (s t : Str) (h : KRel st₁ st₂ a b) :
    KRel (intern st₁ s).1 (intern st₂ t).1 a b := by
  obtain ⟨x, h1, h2⟩ := h
  exact ⟨x, C02_keys_stable _ _ _ _ h1, C02_keys_stable _ _ _ _ h2⟩

theorem RRel.mono {st₁ st₂ r₁ r₂} (s t : Str) (h : RRel st₁ st₂ r₁ r₂) :
    RRel (intern st₁ s).1 (intern st₂ t).1 r₁ r₂ := by
  induction h with
  | nil => exact .nil
  | cons hk _ ih => exact .cons (hk.mono s t) ih

theorem RRel.snoc {st₁ st₂ r₁ r₂ a b} (h : RRel st₁ st₂ r₁ r₂) (hk : KRel st₁ st₂ a b) :
    RRel st₁ st₂ (r₁ ++ [a]) (r₂ ++ [b]) := by
  induction h with
  | nil => exact .cons hk .nil
  | cons hk' _ ih => exact .cons hk' ih

theorem RRel.get {st₁ st₂ r₁ r₂} (h : RRel st₁ st₂ r₁ r₂) (i : Nat) :
    (r₁[i]? = none ∧ r₂[i]? = none) ∨ ∃ a b, r₁[i]? = some a ∧ r₂[i]? = some b ∧ KRel st₁ st₂ a b := by
  induction h generalizing i with
  | nil => left; simp
  | cons hk _ ih =>
    cases i with
    | zero => right; exact ⟨_, _, by simp, by simp, hk⟩
    | succ i => simpa using ih i

theorem KRel.eq_iff {st₁ st₂ a b a' b'} (w₁ : Wf st₁) (w₂ : Wf st₂)
    (h : KRel st₁ st₂ a b) (h' : KRel st₁ st₂ a' b') : a = a' ↔ b = b' := by
  obtain ⟨x, h1, h2⟩ := h
  obtain ⟨y, h1', h2'⟩ := h'
  have e1 := C02_keyEq_iff_streq st₁ w₁ a a' x y h1 h1'
  have e2 := C02_keyEq_iff_streq st₂ w₂ b b' x y h2 h2'
  simp only [keyEq, beq_iff_eq] at e1 e2
  rw [e1, e2]

theorem evalS_rel {st₁ st₂ r₁ r₂} (h : RRel st₁ st₂ r₁ r₂) (e : SExpr) :
    evalS st₁ r₁ e = evalS st₂ r₂ e := by
  induction e with
  | lit s => rfl
  | res r =>
    unfold evalS
    rcases h.get r with ⟨h1, h2⟩ | ⟨a, b, h1, h2, x, hx1, hx2⟩
    · simp [h1, h2]
    · simp [h1, h2, hx1, hx2]
  | cat a b iha ihb => unfold evalS; rw [iha, ihb]

theorem getAll_rel {st₁ st₂ r₁ r₂} (h : RRel st₁ st₂ r₁ r₂) (rs : List Nat) :
    (getAll r₁ rs = none ∧ getAll r₂ rs = none) ∨
    ∃ k₁ k₂, getAll r₁ rs = some k₁ ∧ getAll r₂ rs = some k₂ ∧ RRel st₁ st₂ k₁ k₂ := by
  induction rs with
  | nil => right; exact ⟨[], [], rfl, rfl, .nil⟩
  | cons r rs ih =>
    unfold getAll at *
    unfold mapOpt
    rcases h.get r with ⟨h1, h2⟩ | ⟨a, b, h1, h2, hk⟩
    · left; simp [h1, h2]
    · rcases ih with ⟨i1, i2⟩ | ⟨k₁, k₂, i1, i2, hr⟩
      · left; simp [h1, h2, i1, i2]
      · right; exact ⟨a :: k₁, b :: k₂, by simp [h1, i1], by simp [h2, i2], .cons hk hr⟩

theorem filter_rel {st₁ st₂ l₁ l₂} (h : RRel st₁ st₂ l₁ l₂) (p q : Nat → Bool)
    (hpq : ∀ a b, KRel st₁ st₂ a b → p a = q b) :
    RRel st₁ st₂ (l₁.filter p) (l₂.filter q) := by
  induction h with
  | nil => exact .nil
  | cons hk _ ih =>
    simp only [List.filter_cons]
    rw [hpq _ _ hk]
    split
    · exact .cons hk ih
    · exact ih

theorem firstOcc_rel {st₁ st₂ l₁ l₂} (w₁ : Wf st₁) (w₂ : Wf st₂) (h : RRel st₁ st₂ l₁ l₂) :
    RRel st₁ st₂ (firstOcc l₁) (firstOcc l₂) := by
  induction h with
  | nil => exact .nil
  | cons hk _ ih =>
    unfold firstOcc
    refine .cons hk (filter_rel ih _ _ ?_)
    intro a b hab
    have := KRel.eq_iff w₁ w₂ hab hk
    simp only [ne_eq, decide_not]
    rw [Bool.eq_iff_iff]; simp [this]

theorem resolveAll_rel {st₁ st₂ l₁ l₂} (h : RRel st₁ st₂ l₁ l₂) :
    mapOpt (resolve st₁) l₁ = mapOpt (resolve st₂) l₂ := by
  induction h with
  | nil => rfl
  | cons hk _ ih =>
    obtain ⟨x, h1, h2⟩ := hk
    unfold mapOpt
    rw [h1, h2, ih]

/-- The simulation: a disciplined program started on related register files in two well-formed
    tables produces the same output (and gets stuck in the same places). -/
theorem run_rel (p : Prog) : ∀ (st₁ st₂ : Interner) (r₁ r₂ ids sup : List Nat),
    Wf st₁ → Wf st₂ → RRel st₁ st₂ r₁ r₂ → p.disciplined = true →
    run p st₁ r₁ ids sup = run p st₂ r₂ ids sup := by
  induction p with
  | halt => intros; rfl
  | intern e k ih =>
    intro st₁ st₂ r₁ r₂ ids sup w₁ w₂ hr hd
    simp only [Prog.disciplined] at hd
    unfold run
    rw [evalS_rel hr e]
    cases he : evalS st₂ r₂ e with
    | none => rfl
    | some s =>
      simp only
      refine ih _ _ _ _ _ _ (C02_wf_intern _ _ w₁) (C02_wf_intern _ _ w₂) ?_ hd
      exact (hr.mono s s).snoc ⟨s, C02_resolve_intern st₁ s, C02_resolve_intern st₂ s⟩
  | emit e k ih =>
    intro st₁ st₂ r₁ r₂ ids sup w₁ w₂ hr hd
    simp only [Prog.disciplined] at hd
    unfold run
    rw [evalS_rel hr e, ih _ _ _ _ _ _ w₁ w₂ hr hd]
  | ifKeyEq a b t e iht ihe =>
    intro st₁ st₂ r₁ r₂ ids sup w₁ w₂ hr hd
    simp only [Prog.disciplined, Bool.and_eq_true] at hd
    unfold run
    rcases hr.get a with ⟨a1, a2⟩ | ⟨x₁, x₂, a1, a2, hka⟩
    · simp [a1, a2]
    · rcases hr.get b with ⟨b1, b2⟩ | ⟨y₁, y₂, b1, b2, hkb⟩
      · simp [a1, a2, b1, b2]
      · have := KRel.eq_iff w₁ w₂ hka hkb
        simp only [a1, a2, b1, b2, keyEq]
        by_cases hxy : x₁ = y₁
        · have hxy' := this.mp hxy
          simp only [hxy, hxy', beq_self_eq_true, if_true]
          exact iht _ _ _ _ _ _ w₁ w₂ hr hd.1
        · have hxy' : ¬ x₂ = y₂ := fun e => hxy (this.mpr e)
          simp only [beq_iff_eq, hxy, hxy', if_false]
          exact ihe _ _ _ _ _ _ w₁ w₂ hr hd.2
  | ordered byKey rs k ih =>
    intro st₁ st₂ r₁ r₂ ids sup w₁ w₂ hr hd
    simp only [Prog.disciplined, Bool.and_eq_true, Bool.not_eq_true'] at hd
    obtain ⟨hb, hd⟩ := hd
    subst hb
    unfold run
    rcases getAll_rel hr rs with ⟨g1, g2⟩ | ⟨k₁, k₂, g1, g2, hk⟩
    · simp [g1, g2]
    · simp only [g1, g2, Bool.false_eq_true, if_false]
      rw [resolveAll_rel (firstOcc_rel w₁ w₂ hk), ih _ _ _ _ _ _ w₁ w₂ hr hd]
  | hashed π rs k ih =>
    intro st₁ st₂ r₁ r₂ ids sup w₁ w₂ hr hd
    simp [Prog.disciplined] at hd
  | fresh k ih =>
    intro st₁ st₂ r₁ r₂ ids sup w₁ w₂ hr hd
    simp only [Prog.disciplined] at hd
    unfold run
    cases sup with
    | nil => rfl
    | cons i sup' => exact ih _ _ _ _ _ _ w₁ w₂ hr hd
  | ifIdEq i j t e iht ihe =>
    intro st₁ st₂ r₁ r₂ ids sup w₁ w₂ hr hd
    simp only [Prog.disciplined, Bool.and_eq_true] at hd
    unfold run
    cases ids[i]? with
    | none => rfl
    | some a =>
      cases ids[j]? with
      | none => rfl
      | some b =>
        simp only
        split
        · exact iht _ _ _ _ _ _ w₁ w₂ hr hd.1
        · exact ihe _ _ _ _ _ _ w₁ w₂ hr hd.2

/-- **Non-interference of the interner.**  A compilation that uses identifiers only through key
    equality, `resolve` and insertion-ordered iteration produces the same output from any two
    initial interner states — whatever the thread compiled before. -/
theorem C02_noninterference_eq_resolve (p : Prog) (hd : p.disciplined = true)
    (st₁ st₂ : Interner) (w₁ : Wf st₁) (w₂ : Wf st₂) (supply : List Nat) :
    compile p st₁ supply = compile p st₂ supply :=
  run_rel p st₁ st₂ [] [] [] supply w₁ w₂ .nil hd

/-- The same, phrased over histories: the output does not depend on the sequence of strings the
    thread interned before this compilation. -/
theorem C02_history_independent (p : Prog) (hd : p.disciplined = true) (h₁ h₂ : List Str)
    (supply : List Nat) :
    compile p (internAll [] h₁) supply = compile p (internAll [] h₂) supply :=
  C02_noninterference_eq_resolve p hd _ _ (C02_wf_reachable h₁) (C02_wf_reachable h₂) supply


/-! ### ids: only their equality pattern matters -/

theorem nodup_getElem?_eq_iff {α} {l : List α} (h : l.Nodup) {i j : Nat} {x y : α}
    (hi : l[i]? = some x) (hj : l[j]? = some y) : x = y ↔ i = j := by
  constructor
  · intro e; subst e; exact nodup_getElem?_inj h hi hj
  · intro e; subst e; rw [hi] at hj; cases hj; rfl

theorem nodup_append_left {α} {a b : List α} (h : (a ++ b).Nodup) : a.Nodup :=
  (List.nodup_append.mp h).1

/-- A program cannot tell two supplies of pairwise distinct ids apart. -/
theorem run_ids_invariant (p : Prog) : ∀ (st : Interner) (regs ids₁ ids₂ sup₁ sup₂ : List Nat),
    ids₁.length = ids₂.length → (ids₁ ++ sup₁).Nodup → (ids₂ ++ sup₂).Nodup →
    p.draws ≤ sup₁.length → p.draws ≤ sup₂.length →
    run p st regs ids₁ sup₁ = run p st regs ids₂ sup₂ := by
  induction p with
  | halt => intros; rfl
  | intern e k ih =>
    intro st regs ids₁ ids₂ sup₁ sup₂ hl n₁ n₂ d₁ d₂
    unfold run
    cases evalS st regs e with
    | none => rfl
    | some s => exact ih _ _ _ _ _ _ hl n₁ n₂ d₁ d₂
  | emit e k ih =>
    intro st regs ids₁ ids₂ sup₁ sup₂ hl n₁ n₂ d₁ d₂
    unfold run
    rw [ih _ _ _ _ _ _ hl n₁ n₂ d₁ d₂]
  | ifKeyEq a b t e iht ihe =>
    intro st regs ids₁ ids₂ sup₁ sup₂ hl n₁ n₂ d₁ d₂
    simp only [Prog.draws] at d₁ d₂
    unfold run
    cases regs[a]? with
    | none => rfl
    | some x =>
      cases regs[b]? with
      | none => rfl
      | some y =>
        simp only
        split
        · exact iht _ _ _ _ _ _ hl n₁ n₂ (by omega) (by omega)
        · exact ihe _ _ _ _ _ _ hl n₁ n₂ (by omega) (by omega)
  | ordered byKey rs k ih =>
    intro st regs ids₁ ids₂ sup₁ sup₂ hl n₁ n₂ d₁ d₂
    unfold run
    rw [ih _ _ _ _ _ _ hl n₁ n₂ d₁ d₂]
  | hashed π rs k ih =>
    intro st regs ids₁ ids₂ sup₁ sup₂ hl n₁ n₂ d₁ d₂
    unfold run
    rw [ih _ _ _ _ _ _ hl n₁ n₂ d₁ d₂]
  | fresh k ih =>
    intro st regs ids₁ ids₂ sup₁ sup₂ hl n₁ n₂ d₁ d₂
    simp only [Prog.draws] at d₁ d₂
    unfold run
    cases sup₁ with
    | nil => simp at d₁
    | cons i₁ s₁ =>
      cases sup₂ with
      | nil => simp at d₂
      | cons i₂ s₂ =>
        simp only
        refine ih _ _ _ _ _ _ (by simp [hl]) (by simpa using n₁) (by simpa using n₂) ?_ ?_
        · simp at d₁; omega
        · simp at d₂; omega
  | ifIdEq i j t e iht ihe =>
    intro st regs ids₁ ids₂ sup₁ sup₂ hl n₁ n₂ d₁ d₂
    simp only [Prog.draws] at d₁ d₂
    unfold run
    by_cases hi : i < ids₁.length
    · by_cases hj : j < ids₁.length
      · have hi₂ : i < ids₂.length := hl ▸ hi
        have hj₂ : j < ids₂.length := hl ▸ hj
        have a1 : ids₁[i]? = some ids₁[i] := List.getElem?_eq_getElem hi
        have b1 : ids₁[j]? = some ids₁[j] := List.getElem?_eq_getElem hj
        have a2 : ids₂[i]? = some ids₂[i] := List.getElem?_eq_getElem hi₂
        have b2 : ids₂[j]? = some ids₂[j] := List.getElem?_eq_getElem hj₂
        have e1 := nodup_getElem?_eq_iff (nodup_append_left n₁) a1 b1
        have e2 := nodup_getElem?_eq_iff (nodup_append_left n₂) a2 b2
        rw [a1, b1, a2, b2]
        simp only [beq_iff_eq]
        by_cases hij : i = j
        · simp only [e1.mpr hij, e2.mpr hij, if_true]
          exact iht _ _ _ _ _ _ hl n₁ n₂ (by omega) (by omega)
        · have h1 : ¬ ids₁[i] = ids₁[j] := fun e => hij (e1.mp e)
          have h2 : ¬ ids₂[i] = ids₂[j] := fun e => hij (e2.mp e)
          simp only [h1, h2, if_false]
          exact ihe _ _ _ _ _ _ hl n₁ n₂ (by omega) (by omega)
      · have hj₂ : ¬ j < ids₂.length := hl ▸ hj
        rw [List.getElem?_eq_none (by omega : ids₁.length ≤ j), List.getElem?_eq_none (by omega : ids₂.length ≤ j)]
        cases ids₁[i]? <;> cases ids₂[i]? <;> rfl
    · have hi₂ : ¬ i < ids₂.length := hl ▸ hi
      rw [List.getElem?_eq_none (by omega : ids₁.length ≤ i), List.getElem?_eq_none (by omega : ids₂.length ≤ i)]

/-- Outputs that use ids only through equality are the same for any two supplies of pairwise
    distinct ids (any program: ids and identifiers do not interact). -/
theorem C02_idEq_supply_invariant (p : Prog) (st : Interner) (sup₁ sup₂ : List Nat)
    (n₁ : sup₁.Nodup) (n₂ : sup₂.Nodup) (d₁ : p.draws ≤ sup₁.length) (d₂ : p.draws ≤ sup₂.length) :
    compile p st sup₁ = compile p st sup₂ :=
  run_ids_invariant p st [] [] [] sup₁ sup₂ rfl (by simpa using n₁) (by simpa using n₂) d₁ d₂

/-! ### the counters -/

theorem mem_seqSupply {m x : Nat} : ∀ {n c : Nat}, x ∈ seqSupply m c n → ∃ i, i < n ∧ x = (c + i) % m := by
  intro n
  induction n with
  | zero => intro c h; simp [seqSupply] at h
  | succ n ih =>
    intro c h
    simp only [seqSupply, List.mem_cons] at h
    rcases h with h | h
    · exact ⟨0, by omega, by simpa using h⟩
    · obtain ⟨i, hi, hx⟩ := ih h
      exact ⟨i + 1, by omega, by rw [hx]; congr 1; omega⟩

theorem mod_add_ne {m c i : Nat} (hi : 0 < i) (him : i < m) : c % m ≠ (c + i) % m := by
  intro h
  have := Nat.sub_mod_eq_zero_of_mod_eq h.symm
  have e : c + i - c = i := by omega
  rw [e, Nat.mod_eq_of_lt him] at this
  omega

/-- Without wrap-around (at most `m` draws) consecutive `fetch_add`s return pairwise distinct ids,
    whatever the counter's initial value. -/
theorem seqSupply_nodup (m : Nat) : ∀ (n c : Nat), n ≤ m → (seqSupply m c n).Nodup := by
  intro n
  induction n with
  | zero => intro c _; simp [seqSupply]
  | succ n ih =>
    intro c h
    simp only [seqSupply, List.nodup_cons]
    refine ⟨?_, ih (c + 1) (by omega)⟩
    intro hm
    obtain ⟨i, hi, hx⟩ := mem_seqSupply hm
    have : c + 1 + i = c + (i + 1) := by omega
    rw [this] at hx
    exact mod_add_ne (by omega) (by omega) hx

theorem seqSupply_length (m : Nat) : ∀ (n c : Nat), (seqSupply m c n).length = n := by
  intro n; induction n with
  | zero => intro c; rfl
  | succ n ih => intro c; simp [seqSupply, ih]

theorem seqSupply_mod (m : Nat) : ∀ (n c : Nat), seqSupply m (c % m) n = seqSupply m c n := by
  intro n; induction n with
  | zero => intro c; rfl
  | succ n ih =>
    intro c
    simp only [seqSupply, Nat.mod_mod]
    rw [← ih (c % m + 1), ← ih (c + 1)]
    rw [Nat.mod_add_mod c m 1]

/-- The ids handed out under a schedule are those of `schedule.length` consecutive `fetch_add`s:
    the interleaving decides who gets which id, never the set of ids. -/
theorem runSchedule_ids (m : Nat) : ∀ (sched : List Nat) (c : Nat),
    (runSchedule m c sched).map (·.2) = seqSupply m c sched.length := by
  intro sched
  induction sched with
  | nil => intro c; rfl
  | cons t ts ih =>
    intro c
    simp only [runSchedule, fetchAdd, List.map_cons, List.length_cons, seqSupply]
    rw [ih, seqSupply_mod]

/-- **Offset invariance.**  A compilation that uses ids only through `idEq` gives the same output
    whatever values the process-wide counter holds when it starts (guard: it draws at most
    `m = 2^32` ids, so no id repeats by wrap-around). -/
theorem C02_freshId_offset_invariant (p : Prog) (st : Interner) (m c₁ c₂ n : Nat)
    (hn : n ≤ m) (hp : p.draws ≤ n) :
    compile p st (seqSupply m c₁ n) = compile p st (seqSupply m c₂ n) :=
  C02_idEq_supply_invariant p st _ _ (seqSupply_nodup m n c₁ hn) (seqSupply_nodup m n c₂ hn)
    (by rw [seqSupply_length]; exact hp) (by rw [seqSupply_length]; exact hp)

/-- **Interleavings.**  For every interleaving of the threads' `fetch_add` requests (at most `m`
    in total) all ids handed out are pairwise distinct — across threads and, in particular,
    within each thread. -/
theorem C02_interleaving_distinct (m c : Nat) (sched : List Nat) (h : sched.length ≤ m) :
    ((runSchedule m c sched).map (·.2)).Nodup ∧ ∀ t, (observed m c sched t).Nodup := by
  have all : ((runSchedule m c sched).map (·.2)).Nodup := by
    rw [runSchedule_ids]; exact seqSupply_nodup m _ c h
  refine ⟨all, fun t => ?_⟩
  unfold observed
  exact List.Pairwise.sublist (List.Sublist.map _ List.filter_sublist) all

/-- Every request is answered: thread `t` observes as many ids as it issued `fetch_add`s. -/
theorem C02_observed_length (m : Nat) (t : Nat) : ∀ (sched : List Nat) (c : Nat),
    (observed m c sched t).length = sched.count t := by
  intro sched
  induction sched with
  | nil => intro c; rfl
  | cons u us ih =>
    intro c
    have := ih (fetchAdd m c).1
    unfold observed at *
    simp only [runSchedule, List.filter_cons, List.count_cons]
    by_cases hu : u = t
    · subst hu; simp [this]
    · have : (u == t) = false := by simpa using hu
      simp [*]

/-- **Schedule invariance.**  What a thread computes from its ids through `idEq` does not depend
    on how the other threads' requests are interleaved with its own, nor on the counter's
    initial value (guard: at most `m` requests per schedule). -/
theorem C02_schedule_invariant (p : Prog) (st : Interner) (m c₁ c₂ t : Nat) (s₁ s₂ : List Nat)
    (h₁ : s₁.length ≤ m) (h₂ : s₂.length ≤ m)
    (d₁ : p.draws ≤ s₁.count t) (d₂ : p.draws ≤ s₂.count t) :
    compile p st (observed m c₁ s₁ t) = compile p st (observed m c₂ s₂ t) :=
  C02_idEq_supply_invariant p st _ _ ((C02_interleaving_distinct m c₁ s₁ h₁).2 t)
    ((C02_interleaving_distinct m c₂ s₂ h₂).2 t)
    (by rw [C02_observed_length]; exact d₁) (by rw [C02_observed_length]; exact d₂)


/-! ### the combined statement (partial) and the full property -/

/-- Everything outside one compilation that the model lets it read: what the thread interned
    before, the ids its `fetch_add`s return (counter values × interleaving with other threads). -/
structure Ambient where
  history : List Str
  supply  : List Nat

/-- The full property, for an arbitrary compiler `impl` reading its source and an ambient state:
    the observation is a function of the source alone.  For grass itself (`impl` = the real
    `from_path` with its thread-local, process-wide and per-hasher state) this is NOT proved here;
    it is what the metamorphic run of tools/props/c02.py tests. -/
def C02_full (Src : Type) (impl : Src → Ambient → Option (List Str)) : Prop :=
  ∀ (src : Src) (a₁ a₂ : Ambient), impl src a₁ = impl src a₂

/-- **Proved part.**  For compilations expressed in the identifier/id language that respect the
    discipline (identifiers only through key equality, `resolve` and insertion-ordered iteration;
    ids only through equality) the full property holds over all histories and all supplies of
    pairwise distinct ids that are long enough.  Missing for `C02_full` of grass: that every use
    grass makes of `Identifier`, `ComplexSelector::unique_id` and `Builtin` ids has this shape
    (it does not: see the two `C02_asFound_…` theorems and the site list in evidence), and every
    other place the compiler could keep state. -/
theorem C02_noninterference_partial (p : Prog) (hd : p.disciplined = true) (a₁ a₂ : Ambient)
    (n₁ : a₁.supply.Nodup) (n₂ : a₂.supply.Nodup)
    (d₁ : p.draws ≤ a₁.supply.length) (d₂ : p.draws ≤ a₂.supply.length) :
    compile p (internAll [] a₁.history) a₁.supply = compile p (internAll [] a₂.history) a₂.supply := by
  rw [C02_history_independent p hd a₁.history a₂.history a₁.supply]
  exact C02_idEq_supply_invariant p _ _ _ n₁ n₂ d₁ d₂

/-! ### the specified iteration order is history-independent; the as-found ones are not -/

theorem foldr_intern_disciplined (k : Prog) (hk : k.disciplined = true) : ∀ (names : List Str),
    (names.foldr (fun s k => Prog.intern (.lit s) k) k).disciplined = true := by
  intro names; induction names with
  | nil => exact hk
  | cons s ss ih => simpa [Prog.disciplined] using ih

/-- **The code as it stands** (`byKey = false`: named arguments in an `IndexMap`, fix adef70c):
    `keywords()` lists the names in the same order after every history. -/
theorem C02_keywords_insertionOrder_history_independent (names h₁ h₂ : List Str) :
    compile (keywordsProg false names) (internAll [] h₁) [] =
    compile (keywordsProg false names) (internAll [] h₂) [] :=
  C02_history_independent _ (foldr_intern_disciplined _ (by simp [Prog.disciplined]) names) h₁ h₂ []

/-- Key-ordered iteration (`byKey = true`: `BTreeMap<Identifier, _>`): one program, two histories,
    two different outputs.  This was `keywords()` on the pinned tree (D13 a1, repaired by adef70c)
    and is still `meta.module-variables()` of a module's own members (D13 a3, `moduleMembersProg true`). -/
theorem C02_asFound_orderedIterate_history_dependent :
    ∃ (names h₁ h₂ : List Str),
      compile (keywordsProg true names) (internAll [] h₁) [] = some ["zq", "yq"] ∧
      compile (keywordsProg true names) (internAll [] h₂) [] = some ["yq", "zq"] :=
  ⟨["zq", "yq"], [], ["yq", "zq"], by decide, by decide⟩

/-- Pinned-tree variant of “No arguments named …” (args.rs `BTreeSet<Identifier>`, D13 a2, repaired
    by adef70c); the last conjunct is the code as it stands. -/
theorem C02_asFound_unknownNames_history_dependent :
    unknownNames true (internAll [] []) ["a"] ["a", "zq", "yq"] = some ["zq", "yq"] ∧
    unknownNames true (internAll [] ["yq", "zq"]) ["a"] ["a", "zq", "yq"] = some ["yq", "zq"] ∧
    unknownNames false (internAll [] ["yq", "zq"]) ["a"] ["a", "zq", "yq"] = some ["zq", "yq"] := by
  decide

/-- Pinned-tree variant (`HashSet<Identifier>` in `MergedMapView`, D13 b, repaired by d156cce):
    one program, one history, two hasher states, two different outputs. -/
theorem C02_asFound_hashIterate_perm_dependent :
    ∃ (names : List Str) (π₁ π₂ : List Nat),
      π₁.Perm (List.range names.length) ∧ π₂.Perm (List.range names.length) ∧
      compile (mergedKeysProg π₁ names) [] [] ≠ compile (mergedKeysProg π₂ names) [] [] :=
  ⟨["zq", "yq"], [0, 1], [1, 0], by decide, by decide, by decide⟩

/-- As the code stands: the own members of a module are listed in key order, so the listing depends
    on the thread's history (known finding D13 a3) — and so does which variable a `with` error
    names (D13 a4). -/
theorem C02_asFound_moduleMembers_history_dependent :
    compile (moduleMembersProg true ["zq", "yq"]) (internAll [] []) [] = some ["zq", "yq"] ∧
    compile (moduleMembersProg true ["zq", "yq"]) (internAll [] ["yq", "zq"]) [] = some ["yq", "zq"] ∧
    configFirst true (internAll [] []) ["zq", "yq"] = some "zq" ∧
    configFirst true (internAll [] ["yq", "zq"]) ["zq", "yq"] = some "yq" := by
  decide

/-- With insertion order both would be history-independent (what a repair has to achieve). -/
theorem C02_moduleMembers_insertionOrder_history_independent (names h₁ h₂ : List Str) :
    compile (moduleMembersProg false names) (internAll [] h₁) [] =
    compile (moduleMembersProg false names) (internAll [] h₂) [] ∧
    configFirst false (internAll [] h₁) names = configFirst false (internAll [] h₂) names := by
  have h := C02_keywords_insertionOrder_history_independent names h₁ h₂
  exact ⟨h, by unfold configFirst; rw [h]⟩

theorem filterMap_getElem?_range {α} (xs : List α) :
    (List.range xs.length).filterMap (xs[·]?) = xs := by
  induction xs with
  | nil => rfl
  | cons x xs ih =>
    rw [List.length_cons, List.range_succ_eq_map, List.filterMap_cons]
    simp only [List.getElem?_cons_zero, List.filterMap_map]
    congr 1

/-- Whatever the hasher does, the members listed are a rearrangement of the same members: sorting
    the listing (or iterating in insertion order) would make it independent of the hasher. -/
theorem C02_hashed_is_permutation {α} (π : List Nat) (xs : List α)
    (hπ : π.Perm (List.range xs.length)) : (permuteBy π xs).Perm xs := by
  unfold permuteBy
  have := hπ.filterMap (xs[·]?)
  rwa [filterMap_getElem?_range] at this

/-! ### unique-id() -/

theorem isAlnum_isNameChar (c : Char) (h : isAlnum c = true) : isNameChar c = true := by
  unfold isAlnum at h; unfold isNameChar isNameStart
  rcases Bool.or_eq_true _ _ |>.mp h with h | h <;> simp [h]

/-- Every `unique-id()` result (“id-” followed by alphanumerics) is a valid CSS identifier. -/
theorem C02_uniqueId_valid_ident (rnd : List Char) (h : rnd.all isAlnum = true) :
    isIdent (uniqueId rnd) = true := by
  have h1 : ('i' == '-') = false := by decide
  have h2 : isNameStart 'i' = true := by decide
  have h3 : isNameChar 'd' = true := by decide
  have h4 : isNameChar '-' = true := by decide
  simp only [uniqueId, isIdent, h1, h2, h3, h4, List.all_cons, Bool.true_and, Bool.false_eq_true, if_false]
  rw [List.all_eq_true] at *
  exact fun c hc => isAlnum_isNameChar c (h c hc)

/-- Distinct samples give distinct ids (that the 12-character samples are distinct is a
    probabilistic fact about `rand`, outside the model; the check tests it). -/
theorem C02_uniqueId_distinct (rnds : List (List Char)) (h : rnds.Nodup) :
    (rnds.map uniqueId).Nodup := by
  induction rnds with
  | nil => simp
  | cons r rs ih =>
    simp only [List.map_cons, List.nodup_cons] at *
    refine ⟨?_, ih h.2⟩
    intro hm
    obtain ⟨x, hx, e⟩ := List.mem_map.mp hm
    have : x = r := by simpa [uniqueId] using e
    subst this; exact h.1 hx

/-! ### unique-id(): how the id is drawn (string.rs:240-249 over rand's `Alphanumeric`)

  Distinctness is PROBABILISTIC in the code: each call draws twelve fresh characters, nothing is
  remembered between calls.  What is proved: every result has the shape `id-` + 12 charset
  characters and is a valid identifier whatever the generator returns and from whatever evaluation
  context it is called (`C02_uniqueIdDraws_valid`); an id determines its twelve accepted words
  (`C02_uniqueIdOfWords_injective`), so two calls collide IFF they draw the same 12-word vector:
  for a uniform independent generator that is probability exactly 62^-12 per pair, hence at most
  N(N-1)/2 · 62^-12 (< N² · 1.6e-22) for N calls in one compilation (union bound; the uniformity of
  `thread_rng` is outside the model). -/

theorem alnumCharset_isAlnum : ∀ c ∈ alnumCharset, isAlnum c = true := by decide
theorem alnumCharset_nodup : alnumCharset.Nodup := by decide
theorem alnumCharset_length : alnumCharset.length = 62 := by decide

theorem sampleAlnum_mem : ∀ (ws : List Nat) (c : Char) (ws' : List Nat),
    sampleAlnum ws = some (c, ws') → c ∈ alnumCharset := by
  intro ws
  induction ws with
  | nil => intro c ws' h; simp [sampleAlnum] at h
  | cons w ws ih =>
    intro c ws' h
    unfold sampleAlnum at h
    split at h
    · rename_i c' hc
      simp only [Option.some.injEq, Prod.mk.injEq] at h
      obtain ⟨rfl, _⟩ := h
      exact List.mem_of_getElem? hc
    · exact ih c ws' h

theorem sampleAlnums_spec : ∀ (n : Nat) (ws : List Nat) (cs : List Char) (ws' : List Nat),
    sampleAlnums n ws = some (cs, ws') → cs.length = n ∧ ∀ c ∈ cs, c ∈ alnumCharset := by
  intro n
  induction n with
  | zero =>
    intro ws cs ws' h
    simp only [sampleAlnums, Option.some.injEq, Prod.mk.injEq] at h
    obtain ⟨rfl, _⟩ := h
    simp
  | succ n ih =>
    intro ws cs ws' h
    unfold sampleAlnums at h
    split at h
    · cases h
    · rename_i c ws1 h1
      split at h
      · cases h
      · rename_i cs1 ws2 h2
        simp only [Option.some.injEq, Prod.mk.injEq] at h
        obtain ⟨rfl, _⟩ := h
        obtain ⟨hl, hm⟩ := ih _ _ _ h2
        refine ⟨by simp [hl], ?_⟩
        intro x hx
        rcases List.mem_cons.mp hx with rfl | hx
        · exact sampleAlnum_mem _ _ _ h1
        · exact hm x hx

/-- One call: whatever words the generator returns, the result is `id-` + twelve charset characters,
    a valid CSS identifier of length 15. -/
theorem C02_uniqueIdDraw_shape (ws ws' : List Nat) (id : List Char) (h : uniqueIdDraw ws = some (id, ws')) :
    isDrawShape id = true ∧ isIdent id = true ∧ id.length = 15 := by
  unfold uniqueIdDraw at h
  split at h
  · cases h
  · rename_i cs ws1 h1
    simp only [Option.some.injEq, Prod.mk.injEq] at h
    obtain ⟨rfl, _⟩ := h
    obtain ⟨hl, hm⟩ := sampleAlnums_spec _ _ _ _ h1
    refine ⟨?_, ?_, by simp [uniqueId, hl]⟩
    · simp only [isDrawShape, uniqueId, List.take, List.drop, hl, beq_self_eq_true, Bool.true_and, List.all_eq_true]
      intro c hc
      exact List.contains_iff_mem.mpr (hm c hc)
    · apply C02_uniqueId_valid_ident
      rw [List.all_eq_true]
      exact fun c hc => alnumCharset_isAlnum c (hm c hc)

/-- Any number of calls within one compilation, from whatever contexts (the generator is the
    thread's, not a copied field): `n` results, each of the drawn shape and a valid identifier. -/
theorem C02_uniqueIdDraws_valid : ∀ (n : Nat) (ws : List Nat) (ids : List (List Char)),
    uniqueIdDraws n ws = some ids →
    ids.length = n ∧ ids.all isIdent = true ∧ ids.all isDrawShape = true := by
  intro n
  induction n with
  | zero =>
    intro ws ids h
    simp only [uniqueIdDraws, Option.some.injEq] at h
    subst h; simp
  | succ n ih =>
    intro ws ids h
    unfold uniqueIdDraws at h
    split at h
    · cases h
    · rename_i id ws1 h1
      split at h
      · cases h
      · rename_i ids1 h2
        simp only [Option.some.injEq] at h
        subst h
        obtain ⟨hl, hv, hs⟩ := ih _ _ h2
        obtain ⟨s1, s2, _⟩ := C02_uniqueIdDraw_shape _ _ _ h1
        simp [hl, hv, hs, s1, s2]

theorem filterMap_charset_inj : ∀ (v w : List Nat), (∀ x ∈ v, x < 62) → (∀ x ∈ w, x < 62) →
    v.filterMap (alnumCharset[·]?) = w.filterMap (alnumCharset[·]?) → v = w := by
  have some_of_lt : ∀ a, a < 62 → ∃ c, alnumCharset[a]? = some c := by
    intro a ha
    exact ⟨alnumCharset[a]'(by rw [alnumCharset_length]; exact ha), List.getElem?_eq_getElem _⟩
  intro v
  induction v with
  | nil =>
    intro w _ hw h
    cases w with
    | nil => rfl
    | cons b w =>
      obtain ⟨c, hc⟩ := some_of_lt b (hw b (by simp))
      simp [List.filterMap_cons, hc] at h
  | cons a v ih =>
    intro w hv hw h
    obtain ⟨c, hc⟩ := some_of_lt a (hv a (by simp))
    cases w with
    | nil => simp [List.filterMap_cons, hc] at h
    | cons b w =>
      obtain ⟨d, hd⟩ := some_of_lt b (hw b (by simp))
      simp only [List.filterMap_cons, hc, hd, List.cons.injEq] at h
      obtain ⟨rfl, h2⟩ := h
      have hab : a = b := nodup_getElem?_inj alnumCharset_nodup hc hd
      subst hab
      rw [ih w (fun x hx => hv x (by simp [hx])) (fun x hx => hw x (by simp [hx])) h2]

/-- An id determines the accepted words it was made from: two calls return the same id IFF they
    drew the same twelve words (per pair: one vector out of 62^12). -/
theorem C02_uniqueIdOfWords_injective (v w : List Nat) (hv : ∀ x ∈ v, x < 62) (hw : ∀ x ∈ w, x < 62)
    (h : uniqueIdOfWords v = uniqueIdOfWords w) : v = w := by
  apply filterMap_charset_inj v w hv hw
  simpa [uniqueIdOfWords, uniqueId] using h

/-- Calls that draw pairwise distinct word vectors give pairwise distinct valid identifiers: P̂ holds. -/
theorem C02_uniqueIdOfWords_ok (vs : List (List Nat)) (hlt : ∀ v ∈ vs, ∀ x ∈ v, x < 62) (hnd : vs.Nodup) :
    uniqueIdsOk (vs.map uniqueIdOfWords) = true := by
  have hvalid : ∀ v ∈ vs, isIdent (uniqueIdOfWords v) = true := by
    intro v _
    apply C02_uniqueId_valid_ident
    rw [List.all_eq_true]
    intro c hc
    obtain ⟨x, _, hx⟩ := List.mem_filterMap.mp hc
    exact alnumCharset_isAlnum c (List.mem_of_getElem? hx)
  have hdist : (vs.map uniqueIdOfWords).Nodup := by
    induction vs with
    | nil => simp
    | cons v vs ih =>
      rw [List.nodup_cons] at hnd
      simp only [List.map_cons, List.nodup_cons]
      refine ⟨?_, ih (fun u hu => hlt u (by simp [hu])) hnd.2 (fun u hu => hvalid u (by simp [hu]))⟩
      intro hm
      obtain ⟨u, hu, e⟩ := List.mem_map.mp hm
      have := C02_uniqueIdOfWords_injective u v (hlt u (by simp [hu])) (hlt v (by simp)) e
      subst this
      exact hnd.1 hu
  simp only [uniqueIdsOk, Bool.and_eq_true, decide_eq_true_eq, List.all_eq_true]
  refine ⟨?_, hdist⟩
  intro id hid
  obtain ⟨v, hv, rfl⟩ := List.mem_map.mp hid
  exact hvalid v hv

-- non-vacuity: words ≥ 62 are rejected (63 and 62 skipped); two calls; shapes; injectivity premise met
example : uniqueIdDraws 2 ([63, 0, 26, 62, 52, 1, 2, 3, 4, 5, 6, 7, 8, 9] ++ List.replicate 12 61)
    = some ["id-Aa0BCDEFGHIJ".toList, "id-999999999999".toList] := by decide
example : uniqueIdsOk ([[0, 1, 2, 3, 4, 5, 6, 7, 8, 9, 10, 11], [0, 1, 2, 3, 4, 5, 6, 7, 8, 9, 10, 12]].map uniqueIdOfWords) = true := by
  decide
example : isDrawShape "id-aB3aB3aB3aB3".toList = true ∧ isDrawShape "u00zk3f".toList = false
    ∧ isDrawShape "id-aB3aB3aB3aB".toList = false := by decide

/-! ### random($limit): argument validation and range (math.rs:89-120) -/

/-- Whatever the generator samples (`r` from `gen_range(0..n)`, i.e. `r < n`; `num/10^scale` from
    `gen_range(0.0..1.0)`, i.e. `num < 10^scale`), the result of `random` lies in the range the
    specification gives for its argument: [0,1) without a limit, 1 for limit 1, an integer in
    1..limit for an integer limit ≥ 2, an error of the right class otherwise. -/
theorem C02_random_in_range (a : RandArg) (r num scale : Nat)
    (hr : ∀ n, randomSpec a = .oneTo n → (r : Int) < n) (hu : (num : Int) < pow10 scale) :
    randomOk (randomSpec a) (randomResult a r num scale) = true := by
  have p0 : pow10 0 = 1 := by decide
  unfold randomResult
  cases hs : randomSpec a with
  | unit01 =>
    simp only [randomOk, Bool.and_eq_true, decide_eq_true_eq]
    exact ⟨Int.natCast_nonneg _, hu⟩
  | exactly1 => simp [randomOk, p0]
  | oneTo n =>
    have := hr n hs
    simp only [randomOk, p0, Bool.and_eq_true, decide_eq_true_eq]
    omega
  | errNumber => simp [randomOk]
  | errInt => simp [randomOk]
  | errPositive => simp [randomOk]

/-- The validation accepts exactly the integer limits ≥ 1 (and the absent limit). -/
theorem C02_random_accepts_iff (m : Int) (s : Nat) :
    (randomSpec (.number m s) = .exactly1 ∨ ∃ n, randomSpec (.number m s) = .oneTo n) ↔
    (m % pow10 s = 0 ∧ 1 ≤ m / pow10 s) := by
  by_cases h1 : m % pow10 s = 0
  · by_cases h2 : m / pow10 s = 1
    · simp [randomSpec, h1, h2]
    · by_cases h3 : m / pow10 s ≤ 0
      · have h4 : ¬ (1 ≤ m / pow10 s) := by omega
        simp [randomSpec, h1, h2, h3, h4]
      · have h4 : 1 ≤ m / pow10 s := by omega
        simp [randomSpec, h1, h2, h3, h4]
  · simp [randomSpec, h1]

example : randomSpec (.number 50 1) = .oneTo 5 ∧ randomSpec (.number 15 1) = .errInt ∧ randomSpec (.number 0 0) = .errPositive
    ∧ randomSpec (.number (-3) 0) = .errPositive ∧ randomSpec (.number 10 1) = .exactly1 ∧ randomSpec .absent = .unit01 := by decide
example : randomOk (.oneTo 5) (.value 5 0) = true ∧ randomOk (.oneTo 5) (.value 6 0) = false ∧ randomOk (.oneTo 5) (.value 25 1) = false
    ∧ randomOk .unit01 (.value 9999 4) = true ∧ randomOk .unit01 (.value 1 0) = false := by decide
example : randomOk (randomSpec (.number 7 0)) (randomResult (.number 7 0) 6 0 0) = true := by decide

/-! ### static tie: the state that can outlive a compilation

  `Grass.Generated.GlobalState.globalState` is regenerated on every run from the Rust source
  (tools/translate_iter_sites.py `scan_globals`): every `static` / `thread_local!` / `lazy_static!`
  item of the workspace with a class read off its declared type.  The survivors modelled in
  Grass/Interner.lean are the interner (`STRINGS`: `Interner`) and the two counters
  (`FUNCTION_COUNT`, `COMPLEX_SELECTOR_UNIQUE_ID`: `fetchAdd`/`runSchedule`). -/

open Grass.Generated.GlobalState in
/-- The modelled survivors, with the class the table must give them. -/
def modelledSurvivors : List (String × Grass.Generated.GlobalState.GlobalClass) :=
  [("STRINGS", .threadLocal), ("FUNCTION_COUNT", .counter), ("COMPLEX_SELECTOR_UNIQUE_ID", .counter)]

open Grass.Generated.GlobalState in
/-- Every item of the generated table is either never written after initialisation (no interior
    mutability in its declared type) or one of the modelled survivors with the modelled class; no
    item is of unknown class; and every modelled survivor is in the table.  A new `static`,
    `thread_local!`, atomic or `static mut` in the source makes this fail until it is modelled. -/
theorem C02_survivors_modelled :
    (∀ g ∈ globalState, g.cls = .constAfterInit ∨ (g.name, g.cls) ∈ modelledSurvivors) ∧
    (∀ m ∈ modelledSurvivors, ∃ g ∈ globalState, (g.name, g.cls) = m) := by
  decide

example : Grass.Generated.GlobalState.globalState.length ≥ 3 := by decide

/-! ### non-vacuity: the hypotheses are met by concrete non-trivial values -/

/-- interns `b`, `a`, `b`; compares keys 0 and 2 (equal) and 0 and 1 (different); lists the three
    in insertion order; draws two ids and compares them. -/
private def demo : Prog :=
  .intern (.lit "b") <| .intern (.lit "a") <| .intern (.cat (.lit "") (.res 0)) <|
  .ifKeyEq 0 2
    (.ifKeyEq 0 1 (.emit (.lit "wrong") .halt)
      (.ordered false [0, 1, 2] <| .fresh <| .fresh <|
        .ifIdEq 0 1 (.emit (.lit "same-id") .halt) (.emit (.cat (.res 1) (.res 2)) .halt)))
    (.emit (.lit "wrong") .halt)

example : demo.disciplined = true ∧ demo.draws = 2 := by decide
example : compile demo (internAll [] []) (seqSupply 4 3 2) = some ["b", "a", "ab"] := by decide
example : compile demo (internAll [] ["a", "x", "b"]) (observed 8 7 [1, 0, 1, 0, 0] 0) = some ["b", "a", "ab"] := by decide
example : Wf (internAll [] ["a", "x", "a", "b"]) ∧ internAll [] ["a", "x", "a", "b"] = ["a", "x", "b"] :=
  ⟨C02_wf_reachable _, by decide⟩
example : intern ["a", "x"] "x" = (["a", "x"], 1) ∧ intern ["a", "x"] "y" = (["a", "x", "y"], 2) := by decide
-- wrap-around inside the guard (3 draws, modulus 4, counter at 3) and outside it (3 draws, modulus 2)
example : seqSupply 4 3 3 = [3, 0, 1] ∧ seqSupply 2 0 3 = [0, 1, 0] := by decide
example : runSchedule 8 6 [0, 1, 1, 0] = [(0, 6), (1, 7), (1, 0), (0, 1)] ∧ observed 8 6 [0, 1, 1, 0] 1 = [7, 0] := by decide
example : permuteBy [2, 0, 1] ["a", "b", "c"] = ["c", "a", "b"] := by decide
example : uniqueIdsOk ["id-aB3".toList, "id-zzz".toList] = true ∧ uniqueIdsOk ["id-a".toList, "id-a".toList] = false
    ∧ uniqueIdsOk ["1d".toList] = false := by decide

end Grass.Interner
