import Grass.CssTree
import GrassProofs.Lemmas.CssTreeBasic
import GrassProofs.Lemmas.CssTreeSel
import GrassProofs.Lemmas.CssTreeBuild
import GrassProofs.Lemmas.CssTreeBubble2
import GrassProofs.Lemmas.CssTreeNest
/-
  C04 — Nesting, `&`, @at-root and bubbling at-rules flatten to equivalent flat CSS.

  `flattenSpec`  : flatten by hand (Grass/CssTree.lean, part (a))
  `compile af`   : grass's algorithm — `treeBuild af`, `finish`, invisibility, blocks (part (b));
                   `AsFound.code` is the code as it stands now (C04-D1 and C04-D2 repaired in /repo,
                   C04-D3 still present), `AsFound.pinned` the tree as found (all three deviations),
                   `AsFound.specified` has all three repaired.
  P̂ = `specHolds src obs` : the observed block list is `flattenSpec src`.

  Full statement (NOT proved in general — the @at-root and bubbling fragments are covered by the
  correspondence run only):
-/
namespace Grass.CssTree

/-- The whole property for the specified algorithm: on every source tree it yields exactly the
    block list flattening by hand yields (errors compared as a class). -/
def C04_full : Prop := ∀ src : Stmts, specHolds src (compile AsFound.specified src) = true

/-! ### parent-selector resolution -/

/-- `&` alone yields the parent list (whatever the parents are). -/
theorem C04_resolveParent_amp_alone (P : SelList) (implicit : Bool) :
    resolveList (some P) implicit [[.cmp { par := some none, simples := [] }]] = .ok P := by
  simp [resolveList, mapE, resolveComplex, complexHasParent, compHasParent, foldComps, stepComp,
    resolveCompound, flattenVertically_single]

example : resolveList (some [[.cmp ⟨none, ["a"]⟩], [.cmp ⟨none, ["b"]⟩, .comb ">", .cmp ⟨none, [".x"]⟩]]) true
    [[.cmp ⟨some none, []⟩]] = .ok [[.cmp ⟨none, ["a"]⟩], [.cmp ⟨none, ["b"]⟩, .comb ">", .cmp ⟨none, [".x"]⟩]] :=
  C04_resolveParent_amp_alone _ _

/-- **Cross product in source order.**  For parents as grass produces them (`goodParent`: the
    complex ends in a non-empty compound) and nested complexes with at most one `&`-compound each
    (no `&`, `&`, `&-suffix`, `&.x`, `a &`, `& > b` …), the resolved list is the matrix
    `combine p c` — the by-hand substitution of parent `p` into child `c` — read parent-major:
    all children under the first parent, then all under the second, …; lengths multiply. -/
theorem C04_resolveParent_cross_product (P C : SelList)
    (hP : ∀ p ∈ P, goodParent p = true) (hC : ∀ c ∈ C, parentRefs c ≤ 1) :
    ∃ M : List (List Complex),
      mapE (fun p => mapE (combine p) C) P = .ok M ∧
      resolveList (some P) true C = .ok M.flatten ∧
      M.flatten.length = P.length * C.length :=
  ⟨P.map (fun p => C.map (combineT p)), matrix_spec P C hP, resolveList_matrix P C hP hC,
    length_flatten_const combineT P C⟩

-- hypotheses satisfiable, non-trivially: `a, b { c, &-s, d & {…} }`
example : (∀ p ∈ ([[.cmp ⟨none, ["a"]⟩], [.cmp ⟨none, ["b"]⟩]] : SelList), goodParent p = true) ∧
    (∀ c ∈ ([[.cmp ⟨none, ["c"]⟩], [.cmp ⟨some (some "-s"), []⟩], [.cmp ⟨none, ["d"]⟩, .cmp ⟨some none, []⟩]] : SelList),
      parentRefs c ≤ 1) := by decide

/-- **Repeated `&`** (`& + &`, `& &-s`, …): every compound that contains `&` multiplies the number
    of results by the number of parents, so a complex with k such compounds yields |P|^k selectors
    (all k-tuples of parents; `flatten_vertically` then interleaves the columns of different
    children). -/
theorem C04_resolveParent_repeated_length (P : SelList) (hP : ∀ p ∈ P, goodParent p = true)
    (implicit : Bool) (c : Complex) (hc : complexHasParent c = true) :
    ∃ R, resolveComplex implicit P c = .ok R ∧ R.length = P.length ^ parentRefs c :=
  resolveComplex_length P hP implicit c hc

-- `a, b { & + & {…} }` is `a + a, a + b, b + a, b + b`
example : resolveList (some [[.cmp ⟨none, ["a"]⟩], [.cmp ⟨none, ["b"]⟩]]) true
    [[.cmp ⟨some none, []⟩, .comb "+", .cmp ⟨some none, []⟩]]
    = .ok [[.cmp ⟨none, ["a"]⟩, .comb "+", .cmp ⟨none, ["a"]⟩], [.cmp ⟨none, ["a"]⟩, .comb "+", .cmp ⟨none, ["b"]⟩],
           [.cmp ⟨none, ["b"]⟩, .comb "+", .cmp ⟨none, ["a"]⟩], [.cmp ⟨none, ["b"]⟩, .comb "+", .cmp ⟨none, ["b"]⟩]] := by
  simp [resolveList, mapE, resolveComplex, complexHasParent, compHasParent, foldComps, stepComp, resolveCompound,
    flattenVertically_single]

/-! ### nested properties -/

/-- The name the visitor builds by carrying `declaration_name` (`format!("{}-{}")`) is the
    `-`-joined path of enclosing property names; values and order are those of the source. -/
theorem C04_nested_property_name (d : Decl) : visitDecl none d = declSpec [] d := visitDecl_none d

/-- `a: {b: {c: v}}` is the declaration `a-b-c: v`. -/
theorem C04_nested_property_name_abc (a b c v : String) :
    visitDecl none (.mk a none (.cons (.mk b none (.cons (.mk c (some v) .nil) .nil)) .nil))
      = [(a ++ "-" ++ b ++ "-" ++ c, v)] := by
  simp [visitDecl, visitDecls]

/-! ### invisibility -/

/-- **Empty rules vanish, and only they do.**  (1) a style rule without children is invisible;
    (2) nothing the top-level loop writes is invisible, and neither is anything `write_children`
    writes below it (`emit` applies the same test at every level); (3) skipping invisible
    statements never loses a block that has declarations: the observation is the same with and
    without the skipping. -/
theorem C04_finish_invisible (cs : List Css) (sel : SelList) :
    isInvisible (.mk (.rule sel) .nil) = true ∧
    (∀ c ∈ emitTop cs, isInvisible c = false) ∧
    (∀ c : Css, isInvisible (emit c) = isInvisible c) ∧
    blocksTop (emitTop cs) = blocksTop cs := by
  exact ⟨by simp [isInvisible, allInvisible], emitTop_visible cs, emit_invisible, blocksTop_emitTop cs⟩

example : blocksTop (emitTop [.mk (.rule [[.cmp ⟨none, ["a"]⟩]]) .nil,
    .mk (.media [[0]]) (.cons (.mk (.rule [[.cmp ⟨none, ["a"]⟩]]) .nil) .nil)]) = [] := by decide

/-! ### the tree algorithm against flattening by hand -/

-- `rulesOnlyL src`: the tree consists of style rules, declarations and nested properties
-- (GrassProofs/Lemmas/CssTreeBuild.lean).

/-- **First cut of the property.**  For every source tree of style rules (any selector lists, `&`
    anywhere), declarations and nested properties, to any depth and width, grass's algorithm —
    `add_child` with `through`, `with_parent`, declarations attached to the current parent, the
    mutating `finish` over the index-addressed tree, invisibility, blocks as the CSS reader sees
    them — yields exactly the block list flattening by hand yields, with the same error when a
    selector cannot be resolved or a declaration stands outside a rule.  It holds for the code as
    it stands and for every repaired variant (`af` arbitrary: the three deviations only concern
    @at-root).  Proof: the representation invariant `Wf` (ROOT → rules → declaration leaves) with
    the abstraction `viewI` (= blocks emitted so far, the open block being the entry of the
    current parent), preserved by every visitor step (`stmt_rel`/`stmts_rel`), and `finish_wf`. -/
theorem C04_treeBuild_eq_flattenSpec_rules (af : AsFound) (src : Stmts) (h : rulesOnlyL src = true) :
    compile af src = flattenSpec src := compile_eq_flattenSpec_rules af src h

/-- The same as P̂, the predicate the check evaluates on grass's own output. -/
theorem C04_specHolds_rules_partial (af : AsFound) (src : Stmts) (h : rulesOnlyL src = true) :
    specHolds src (compile af src) = true := by
  rw [C04_treeBuild_eq_flattenSpec_rules af src h]
  unfold specHolds
  cases flattenSpec src <;> simp

-- hypothesis satisfiable, non-trivially: `a, b { x: 1; & c { y: { z: 2 } } w: 3 }  d { }`
example : rulesOnlyL
    (.cons (.rule [[.cmp ⟨none, ["a"]⟩], [.cmp ⟨none, ["b"]⟩]]
      (.cons (.decl (.mk "x" (some "1") .nil))
        (.cons (.rule [[.cmp ⟨some none, []⟩, .cmp ⟨none, ["c"]⟩]]
          (.cons (.decl (.mk "y" none (.cons (.mk "z" (some "2") .nil) .nil))) .nil))
          (.cons (.decl (.mk "w" (some "3") .nil)) .nil))))
      (.cons (.rule [[.cmp ⟨none, ["d"]⟩]] .nil) .nil)) = true := by decide

/-- **Declaration order is preserved**: a rule whose body is a list of declarations and nested
    properties compiles to one block carrying exactly those declarations, in source order, under
    the resolved selector. -/
theorem C04_declaration_order (af : AsFound) (sel : SelList) (ds : Decls)
    (hsel : sel.any complexHasParent = false) (hne : declsSpec [] ds ≠ []) :
    compile af (.cons (.rule sel (declStmts ds)) .nil)
      = .ok [{ ctx := [], sel := some sel, decls := declsSpec [] ds }] := by
  rw [C04_treeBuild_eq_flattenSpec_rules af _ (by simp [rulesOnlyL, rulesOnly, rulesOnlyL_declStmts])]
  simp only [flattenSpec, specStmts, specStmt, SCtx.init, resolveList, hsel, Bool.false_eq_true, if_false]
  rw [specStmts_declStmts { frames := [], sel := some sel, exclStyle := false, inUnknown := false }
        (by simp [SCtx.ruleHere]) ds]
  cases hd : declsSpec [] ds with
  | nil => exact absurd hd hne
  | cons d rest => simp [wrapBlock, seqRes, SCtx.home, SCtx.ruleHere, Block.nonEmpty]

/-! ### growth 1: bubbling @media / @supports / unknown at-rules -/

-- `bubOnlyL src`: style rules, declarations, nested properties, @media (feature-only queries),
-- @supports and unknown at-rules, nested in each other to any depth; no @at-root
-- (GrassProofs/Lemmas/CssTreeBubble.lean).
-- `readIdx r` / `observeIdx t` (Lemmas/CssTreeBubble2.lean): the blocks of the built tree read off
-- the index tree directly — every non-declaration node in index (= creation) order, its at-rule
-- context from the parent chain, its declarations from its child list, empty blocks dropped.

/-- **Bubbling (partial).**  For every tree of the bubbling fragment and every variant of the
    visitor that has the shallow sibling test of the code as it stands (`AsFound.code`,
    `AsFound.pinned`), the tree built by grass's algorithm — `add_child` with the three `through`
    closures (style rules; style rules and the @media rules already merged), the
    copy-when-following-sibling step, the style rule re-created inside every bubbling at-rule,
    nested @media merged with the nearest enclosing @media and lifted out of it, declarations
    attached to the current parent — contains, in creation order, exactly the blocks
    (at-rule context, selector, declarations) that flattening by hand yields, and fails with the
    same error where flattening by hand fails.  One bubbling lemma (`bubble_rel`) serves the three
    at-rules; `addChild_landing` covers both branches of the sibling test (the copy inherits kind,
    parent and therefore context of the landing node).
    MISSING for the full statement (`C04_bubbling_full` below): that the mutating `finish` plus the
    serializer's invisibility rule emit the nodes of such a tree in creation order, each under the
    context its parent chain spells — `C04_finish_reads_index_order_full`.  That is exactly the
    part where the *position* of the copy (after the interstitial sibling) matters; it is proved
    for the style-rule fragment (`finish_wf`) and covered by the correspondence for the rest. -/
theorem C04_treeBuild_eq_flattenSpec_bubbling_partial (af : AsFound) (h : af.shallowSibling = true)
    (src : Stmts) (hb : bubOnlyL src = true) : readIdx (treeBuild af src) = flattenSpec src :=
  readIdx_eq_flattenSpec_bubbling af h src hb

-- hypothesis satisfiable, non-trivially: `@media (f0) { a { @media (f1) { x: 1 } b { y: 2 } } }`
example : bubOnlyL
    (.cons (.media [[0]] (.cons (.rule [[.cmp ⟨none, ["a"]⟩]]
      (.cons (.media [[1]] (.cons (.decl (.mk "x" (some "1") .nil)) .nil))
        (.cons (.rule [[.cmp ⟨none, ["b"]⟩]] (.cons (.decl (.mk "y" (some "2") .nil)) .nil)) .nil))) .nil)) .nil) = true := by
  decide

/-- The missing link, stated exactly: `finish` + invisibility + the reader's block view return the
    index-order reading for every tree the visitor builds from the bubbling fragment. -/
def C04_finish_reads_index_order_full : Prop :=
  ∀ (af : AsFound) (src : Stmts) (t : Tree), af.shallowSibling = true → bubOnlyL src = true →
    treeBuild af src = .ok t → observeTree t = .ok (observeIdx t)

/-- Growth 1 in full (follows from the partial theorem and `C04_finish_reads_index_order_full`). -/
def C04_bubbling_full : Prop :=
  ∀ (af : AsFound) (src : Stmts), af.shallowSibling = true → bubOnlyL src = true →
    compile af src = flattenSpec src

theorem C04_bubbling_full_of_finish (hfin : C04_finish_reads_index_order_full) : C04_bubbling_full := by
  intro af src h hb
  have hp := C04_treeBuild_eq_flattenSpec_bubbling_partial af h src hb
  unfold compile observe
  cases ht : treeBuild af src with
  | error e => rw [ht] at hp; exact hp
  | ok t =>
    rw [ht] at hp
    simp only [readIdx] at hp
    show observeTree t = flattenSpec src
    rw [hfin af src t h hb ht]; exact hp

/-! ### round 3: the mutating `finish` is out of the unproved part -/

-- `Good t` (Lemmas/CssTreeBubble.lean): ROOT is a tombstone, every other node has a kind and a parent
-- with a smaller index, child lists and parent pointers describe the same tree (`cp`, `pc`, no
-- duplicates), declarations have no children.  Every tree the visitor builds from the bubbling
-- fragment is `Good` (`C04_treeBuild_good_bubbling`).
-- `nestedTop t` (Lemmas/CssTreeNest.lean): the children of ROOT in index order, each with the
-- statements nested below it in child-list order (`subF`).

/-- **`CssTree::finish` returns the nested reading.**  On every well-formed index tree — any kinds,
    any depth, at-rules included — the mutating loop of css_tree.rs:43 (`stmts[idx].take()`,
    recursive `apply_children` over the child map, `add_child_to_parent`, tombstones filtered out at
    the end; the loop bound `idx < len - 1` included) never reaches an `unreachable!()` and returns
    exactly the statements whose parent is ROOT, in index order, each carrying the statements nested
    below it in child-list order.  Proof: `applyChildren` completes one subtree and touches nothing
    outside it (`pspec_all`/`inner`, disjointness of sibling subtrees `desc_disjoint`), and the outer
    loop only ever starts at children of ROOT because everything else has been taken (`tstep`). -/
theorem C04_finish_nested (t : Tree) (gd : Good t) : finish t = some (nestedTop t) := finish_good t gd

/-- The observation of a well-formed tree is the block view of its nested reading (the serializer's
    skipping of invisible statements changes nothing, `C04_finish_invisible`). -/
theorem C04_observeTree_nested (t : Tree) (gd : Good t) : observeTree t = .ok (blocksTop (nestedTop t)) := by
  unfold observeTree
  rw [C04_finish_nested t gd]
  simp only [blocksTop_emitTop]

/-- Every tree built from the bubbling fragment is well-formed. -/
theorem C04_treeBuild_good_bubbling (af : AsFound) (h : af.shallowSibling = true) (src : Stmts)
    (hb : bubOnlyL src = true) (t : Tree) (ht : treeBuild af src = .ok t) : Good t := by
  have rel := stmtsB_rel af h src hb Tree.init SCtx.init VCtx.init good_init cohB_init
  unfold treeBuild at ht
  cases hs : specStmts SCtx.init src with
  | error e =>
    rw [hs] at rel
    simp only [RelB] at rel
    rw [rel] at ht; cases ht
  | ok x =>
    obtain ⟨ds, bs⟩ := x
    rw [hs] at rel
    obtain ⟨t', hb', gd', _⟩ := rel
    rw [hb'] at ht; injection ht with ht; subst ht; exact gd'

/-- What is left of the missing link after `C04_finish_nested`: reading the nested tree depth-first
    (what the serializer does) visits the nodes in creation order, i.e. every `add_child` of the
    bubbling fragment lands on the right-most branch of the tree (this is where the position of the
    copy made by the following-sibling test matters; C04-D3 is the case where it fails, and it
    needs @at-root).  NOT proved; covered by the correspondence. -/
def C04_preorder_is_creation_order_full : Prop :=
  ∀ (af : AsFound) (src : Stmts) (t : Tree), af.shallowSibling = true → bubOnlyL src = true →
    treeBuild af src = .ok t → blocksTop (nestedTop t) = observeIdx t

/-- The smaller statement suffices for the full bubbling theorem. -/
theorem C04_bubbling_full_of_preorder (hpre : C04_preorder_is_creation_order_full) : C04_bubbling_full := by
  apply C04_bubbling_full_of_finish
  intro af src t h hb ht
  rw [C04_observeTree_nested t (C04_treeBuild_good_bubbling af h src hb t ht), hpre af src t h hb ht]

/-- Growth 2, not proved: @at-root (without and with queries) for the specified variant.  Missing:
    an invariant for `link_child_to_parent` trees (copies re-parented above one another) and the
    deep sibling test `addRawDeep`; covered by the correspondence only. -/
def C04_atroot_full : Prop :=
  ∀ src : Stmts, compile AsFound.specified src = flattenSpec src

/-! ### bubbling and @at-root: kernel-checked instances and witnesses -/

/-- DESIGN §8 example: `@media (f0) { a { @media (f1) { x: 1 } b { y: 2 } } }` — the inner @media
    bubbles out merged, and `a b` needs a *copy* of `@media (f0)` because the merged rule now
    follows it (copy-when-following-sibling). -/
def exBubble : Stmts :=
  .cons (.media [[0]] (.cons (.rule [[.cmp ⟨none, ["a"]⟩]]
    (.cons (.media [[1]] (.cons (.decl (.mk "x" (some "1") .nil)) .nil))
      (.cons (.rule [[.cmp ⟨none, ["b"]⟩]] (.cons (.decl (.mk "y" (some "2") .nil)) .nil)) .nil))) .nil)) .nil

example : specHolds exBubble (compile AsFound.code exBubble) = true ∧
    specHolds exBubble (.ok [⟨[.media [[0, 1]]], some [[.cmp ⟨none, ["a"]⟩]], [("x", "1")]⟩,
                            ⟨[.media [[0]]], some [[.cmp ⟨none, ["a"]⟩, .cmp ⟨none, ["b"]⟩]], [("y", "2")]⟩]) = true := by
  decide

-- non-vacuity of `C04_finish_nested` / `C04_treeBuild_good_bubbling`: the tree built for `exBubble`
-- (copy-when-following-sibling) is well-formed and `finish` on it is its nested reading:
-- `@media (f0) {a {}}  @media (f0) and (f1) {a {x: 1}}  @media (f0) {a b {y: 2}}`
example : ∃ t, treeBuild AsFound.code exBubble = .ok t ∧ Good t ∧ (nestedTop t).length = 3 ∧
    finish t = some (nestedTop t) := by
  have hb : bubOnlyL exBubble = true := by decide
  refine ⟨_, rfl, ?_, by decide, ?_⟩
  · exact C04_treeBuild_good_bubbling AsFound.code rfl exBubble hb _ rfl
  · exact C04_finish_nested _ (C04_treeBuild_good_bubbling AsFound.code rfl exBubble hb _ rfl)

/-- `@media (f0) { @supports (s0: v) { a { @at-root (without: supports) { p0: v1 } } } }` -/
def witD1 : Stmts :=
  .cons (.media [[0]] (.cons (.supports "(s0: v)" (.cons (.rule [[.cmp ⟨none, ["a"]⟩]]
    (.cons (.atroot (some ⟨false, ["supports"]⟩) (.cons (.decl (.mk "p0" (some "v1") .nil)) .nil)) .nil)) .nil)) .nil)) .nil

/-- C04-D1 (fixed in /repo, c501619): with the outermost copy as the new parent the declaration
    lost its style rule; taking the innermost copy repairs it — and the code as it stands does. -/
theorem C04_asFound_D1_outerCopyParent :
    specHolds witD1 (compile AsFound.pinned witD1) = false ∧
    specHolds witD1 (compile { AsFound.pinned with outerCopyParent := false } witD1) = true ∧
    specHolds witD1 (compile AsFound.code witD1) = true := by decide

/-- `@foo { @at-root (without: all) { p0: v1 } }` -/
def witD2 : Stmts :=
  .cons (.unknown "foo" "" (.cons (.atroot (some ⟨false, ["all"]⟩) (.cons (.decl (.mk "p0" (some "v1") .nil)) .nil)) .nil)) .nil

/-- C04-D2 (fixed in /repo, ea0c00a): IN_UNKNOWN_AT_RULE survived the @at-root, so the declaration
    was accepted although nothing encloses it; the property (and dart-sass) ask for an error. -/
theorem C04_asFound_D2_keepInUnknown :
    specHolds witD2 (compile AsFound.pinned witD2) = false ∧
    specHolds witD2 (compile { AsFound.pinned with keepInUnknown := false } witD2) = true ∧
    specHolds witD2 (compile AsFound.code witD2) = true := by decide

/-- `@supports s { @supports t { a { @at-root (without: all) { & { p: 1 } } & { p: 2 } } } }` -/
def witD3 : Stmts :=
  .cons (.supports "s" (.cons (.supports "t" (.cons (.rule [[.cmp ⟨none, ["a"]⟩]]
    (.cons (.atroot (some ⟨false, ["all"]⟩)
        (.cons (.rule [[.cmp ⟨some none, []⟩]] (.cons (.decl (.mk "p" (some "1") .nil)) .nil)) .nil))
      (.cons (.rule [[.cmp ⟨some none, []⟩]] (.cons (.decl (.mk "p" (some "2") .nil)) .nil)) .nil))) .nil)) .nil)) .nil

/-- C04-D3: only the landing parent is tested for a following sibling (visitor.rs:1653), so the
    later `a { p: 2 }` is written before the @at-root's `a { p: 1 }`; testing the ancestors too
    keeps source order. -/
theorem C04_asFound_D3_shallowSibling : specHolds witD3 (compile AsFound.code witD3) = false := by decide

set_option maxHeartbeats 1600000 in
theorem C04_asFound_D3_repaired :
    specHolds witD3 (compile { AsFound.code with shallowSibling := false } witD3) = true := by decide

/-! ### round 3: declaration order with nested rules and at-rules in between -/

/-- the declarations written directly in a body, in source order (nested properties flattened) -/
def ownDecls : Stmts → List (String × String)
  | .nil => []
  | .cons (.decl d) ss => declSpec [] d ++ ownDecls ss
  | .cons _ ss => ownDecls ss

theorem wrapBlock_own (c : SCtx) (r : SpecRes) (ds : List (String × String)) (bs : List Block)
    (h : wrapBlock c r = .ok (ds, bs)) : ds = [] := by
  cases r with
  | error e => simp [wrapBlock] at h
  | ok x =>
    obtain ⟨d, b⟩ := x
    simp only [wrapBlock] at h
    injection h with h
    injection h with h1 _
    exact h1.symm

theorem specStmt_own (c : SCtx) (s : Stmt) (hb : bubOnly s = true) (ds : List (String × String)) (bs : List Block)
    (h : specStmt c s = .ok (ds, bs)) : ds = ownDecls (.cons s .nil) := by
  cases s with
  | decl d =>
    simp only [specStmt] at h
    split at h
    · injection h with h
      injection h with h1 _
      simp [ownDecls, ← h1]
    · cases h
  | rule sel body =>
    simp only [specStmt] at h
    split at h
    · cases h
    · simpa [ownDecls] using wrapBlock_own _ _ _ _ h
  | media qs body =>
    simp only [specStmt] at h
    split at h
    · injection h with h
      injection h with h1 _
      simp [ownDecls, ← h1]
    · simpa [ownDecls] using wrapBlock_own _ _ _ _ h
  | supports cond body =>
    simp only [specStmt] at h
    simpa [ownDecls] using wrapBlock_own _ _ _ _ h
  | unknown n p body =>
    simp only [specStmt] at h
    simpa [ownDecls] using wrapBlock_own _ _ _ _ h
  | atroot q body => simp [bubOnly] at hb

theorem ownDecls_cons (s : Stmt) (ss : Stmts) : ownDecls (.cons s ss) = ownDecls (.cons s .nil) ++ ownDecls ss := by
  cases s <;> simp [ownDecls]

theorem specStmts_own (c : SCtx) : ∀ (ss : Stmts), bubOnlyL ss = true → ∀ (ds : List (String × String)) (bs : List Block),
    specStmts c ss = .ok (ds, bs) → ds = ownDecls ss
  | .nil, _, ds, bs, h => by
    simp only [specStmts] at h
    injection h with h
    injection h with h1 _
    simp [ownDecls, ← h1]
  | .cons s ss, hb, ds, bs, h => by
    simp only [bubOnlyL, Bool.and_eq_true] at hb
    simp only [specStmts] at h
    cases h1 : specStmt c s with
    | error e => rw [h1] at h; simp [seqRes] at h
    | ok x1 =>
      obtain ⟨d1, b1⟩ := x1
      cases h2 : specStmts c ss with
      | error e => rw [h1, h2] at h; simp [seqRes] at h
      | ok x2 =>
        obtain ⟨d2, b2⟩ := x2
        rw [h1, h2] at h
        simp only [seqRes] at h
        injection h with h
        injection h with hd _
        rw [ownDecls_cons, ← hd, specStmt_own c s hb.1 d1 b1 h1, specStmts_own c ss hb.2 d2 b2 h2]

mutual
theorem rulesOnly_bub : ∀ s : Stmt, rulesOnly s = true → bubOnly s = true
  | .decl _, _ => rfl
  | .rule _ body, h => by simp only [rulesOnly] at h; simp only [bubOnly]; exact rulesOnlyL_bub body h
  | .media _ _, h => by simp [rulesOnly] at h
  | .supports _ _, h => by simp [rulesOnly] at h
  | .unknown _ _ _, h => by simp [rulesOnly] at h
  | .atroot _ _, h => by simp [rulesOnly] at h
theorem rulesOnlyL_bub : ∀ ss : Stmts, rulesOnlyL ss = true → bubOnlyL ss = true
  | .nil, _ => rfl
  | .cons s ss, h => by
    simp only [rulesOnlyL, Bool.and_eq_true] at h
    simp only [bubOnlyL, Bool.and_eq_true]
    exact ⟨rulesOnly_bub s h.1, rulesOnlyL_bub ss h.2⟩
end

/-- **Declaration order is preserved across nested constructs** (hand-flattening side, bubbling
    fragment): whatever rules and at-rules stand between them, the declarations written directly in
    a body reach the enclosing block in source order — the own-declaration part of `specStmts` is
    `ownDecls`. -/
theorem C04_spec_own_declarations_in_source_order (c : SCtx) (ss : Stmts) (hb : bubOnlyL ss = true)
    (ds : List (String × String)) (bs : List Block) (h : specStmts c ss = .ok (ds, bs)) : ds = ownDecls ss :=
  specStmts_own c ss hb ds bs h

/-- **Declaration order, grass side** (generalises `C04_declaration_order` to bodies with nested
    rules in between): a top-level rule whose body consists of declarations, nested properties and
    nested rules (to any depth) compiles to a list that starts with ONE block carrying all the
    declarations written directly in the body, in source order — those after a nested rule
    included — followed by the blocks of the nested rules. -/
theorem C04_declaration_order_interleaved (af : AsFound) (sel : SelList) (body : Stmts)
    (hsel : sel.any complexHasParent = false) (hb : rulesOnlyL body = true)
    (ds : List (String × String)) (bs : List Block)
    (hspec : specStmts { frames := [], sel := some sel, exclStyle := false, inUnknown := false } body = .ok (ds, bs))
    (hne : ownDecls body ≠ []) :
    compile af (.cons (.rule sel body) .nil)
      = .ok ({ ctx := [], sel := some sel, decls := ownDecls body } :: bs.filter Block.nonEmpty) := by
  rw [C04_treeBuild_eq_flattenSpec_rules af _ (by simp [rulesOnlyL, rulesOnly, hb])]
  have hds := specStmts_own _ body (rulesOnlyL_bub body hb) ds bs hspec
  subst hds
  simp only [flattenSpec, specStmts, specStmt, SCtx.init, resolveList, hsel, Bool.false_eq_true, if_false, hspec]
  cases hd : ownDecls body with
  | nil => exact absurd hd hne
  | cons d rest => simp [wrapBlock, seqRes, SCtx.home, SCtx.ruleHere, Block.nonEmpty]

-- `a { x: 1; b { y: 2 } z: 3 }`: one block `a {x: 1; z: 3}`, then `a b {y: 2}`
example : (match compile AsFound.code (.cons (.rule [[.cmp ⟨none, ["a"]⟩]]
    (.cons (.decl (.mk "x" (some "1") .nil))
      (.cons (.rule [[.cmp ⟨none, ["b"]⟩]] (.cons (.decl (.mk "y" (some "2") .nil)) .nil))
        (.cons (.decl (.mk "z" (some "3") .nil)) .nil)))) .nil) with
    | .ok bs => bs == [⟨[], some [[.cmp ⟨none, ["a"]⟩]], [("x", "1"), ("z", "3")]⟩,
           ⟨[], some [[.cmp ⟨none, ["a"]⟩, .cmp ⟨none, ["b"]⟩]], [("y", "2")]⟩]
    | .error _ => false) = true := by decide

/-! ### round 3: empty-rule elimination -/

def isNilL : CssList → Bool | .nil => true | .cons _ _ => false
/-- statements that are only written when something visible is inside (css.rs:54) -/
def needsBody : Kind → Bool | .rule _ => true | .media _ => true | .supports _ => true | _ => false

mutual
  /-- no style rule, @media or @supports with an empty body anywhere in the statement -/
  def noEmptyBlock : Css → Bool
    | .mk k body => !(needsBody k && isNilL body) && noEmptyBlockL body
  def noEmptyBlockL : CssList → Bool
    | .nil => true
    | .cons c cs => noEmptyBlock c && noEmptyBlockL cs
end

theorem emitList_nonempty : ∀ body : CssList, allInvisible body = false → isNilL (emitList body) = false
  | .nil, h => by simp [allInvisible] at h
  | .cons c cs, h => by
    simp only [allInvisible] at h
    by_cases hc : isInvisible c = true
    · simp only [hc, Bool.true_and] at h
      simp only [emitList, hc, if_true]
      exact emitList_nonempty cs h
    · have hc' : isInvisible c = false := by simpa using hc
      simp only [emitList, hc', Bool.false_eq_true, if_false]
      rfl

mutual
  theorem emit_noEmpty : ∀ c : Css, isInvisible c = false → noEmptyBlock (emit c) = true
    | .mk k body, h => by
      simp only [emit, noEmptyBlock, Bool.and_eq_true, Bool.not_eq_true']
      refine ⟨?_, emitList_noEmpty body⟩
      cases k with
      | rule sel => simp only [isInvisible] at h; simp [needsBody, emitList_nonempty body h]
      | decl n v => simp [needsBody]
      | media q => simp only [isInvisible] at h; simp [needsBody, emitList_nonempty body h]
      | supports q => simp only [isInvisible] at h; simp [needsBody, emitList_nonempty body h]
      | unknown a b => simp [needsBody]
  theorem emitList_noEmpty : ∀ body : CssList, noEmptyBlockL (emitList body) = true
    | .nil => by simp [emitList, noEmptyBlockL]
    | .cons c cs => by
      by_cases hc : isInvisible c = true
      · simp only [emitList, hc, if_true]; exact emitList_noEmpty cs
      · have hc' : isInvisible c = false := by simpa using hc
        simp only [emitList, hc', Bool.false_eq_true, if_false, noEmptyBlockL, Bool.and_eq_true]
        exact ⟨emit_noEmpty c hc', emitList_noEmpty cs⟩
end

/-- **Empty-rule elimination.**  Nothing that is written — at the top level or nested to any depth
    — is a style rule, @media or @supports with zero written children: the serializer's skipping of
    invisible statements (`emitTop`/`emit`, the model of lib.rs:205 and serializer.rs:1113 with
    `CssStmt::is_invisible`, css.rs:54) removes a rule exactly when nothing visible is left in it,
    so rules that contain only empty rules vanish with them. -/
theorem C04_emitted_blocks_nonempty (cs : List Css) : ∀ c ∈ emitTop cs, noEmptyBlock c = true := by
  induction cs with
  | nil => intro c h; simp [emitTop] at h
  | cons a as ih =>
    intro c h
    by_cases ha : isInvisible a = true
    · simp only [emitTop, ha, if_true] at h; exact ih c h
    · have ha' : isInvisible a = false := by simpa using ha
      simp only [emitTop, ha', Bool.false_eq_true, if_false, List.mem_cons] at h
      rcases h with h | h
      · subst h; exact emit_noEmpty a ha'
      · exact ih c h

-- `a { b { } c { d { } } }  e { f { } x: 1 }`: the first rule vanishes entirely, the second keeps only `x: 1`
example : emitTop [.mk (.rule [[.cmp ⟨none, ["a"]⟩]])
      (.cons (.mk (.rule [[.cmp ⟨none, ["b"]⟩]]) .nil)
        (.cons (.mk (.rule [[.cmp ⟨none, ["c"]⟩]]) (.cons (.mk (.rule [[.cmp ⟨none, ["d"]⟩]]) .nil) .nil)) .nil)),
    .mk (.rule [[.cmp ⟨none, ["e"]⟩]])
      (.cons (.mk (.rule [[.cmp ⟨none, ["f"]⟩]]) .nil) (.cons (.mk (.decl "x" "1") .nil) .nil))]
    = [.mk (.rule [[.cmp ⟨none, ["e"]⟩]]) (.cons (.mk (.decl "x" "1") .nil) .nil)] := by
  simp [emitTop, emit, emitList, isInvisible, allInvisible]

end Grass.CssTree
