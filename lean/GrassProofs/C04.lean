import Grass.CssTree
import GrassProofs.Lemmas.CssTreeBasic
import GrassProofs.Lemmas.CssTreeSel
import GrassProofs.Lemmas.CssTreeBuild
import GrassProofs.Lemmas.CssTreeBubble2
/-
  C04 — Nesting, `&`, @at-root and bubbling at-rules flatten to equivalent flat CSS.

  `flattenSpec`  : flatten by hand (Grass/CssTree.lean, part (a))
  `compile af`   : grass's algorithm — `treeBuild af`, `finish`, invisibility, blocks (part (b));
                   `AsFound.code` is the code as it stands now (C04-D1 and C04-D2 repaired in /repo,
                   C04-D3 still present), `AsFound.pinned` the tree as found (all three deviations),
                   `AsFound.specified` has all three repaired.
  P̂ = `specHolds src obs` : the observed block list is `flattenSpec src`.

  Full statement (NOT proved in general — the @at-root and bubbling fragments are covered by the
  correspondence run only):
-/
namespace Grass.CssTree

/-- The whole property for the specified algorithm: on every source tree it yields exactly the
    block list flattening by hand yields (errors compared as a class). -/
def C04_full : Prop := ∀ src : Stmts, specHolds src (compile AsFound.specified src) = true

/-! ### parent-selector resolution -/

/-- `&` alone yields the parent list (whatever the parents are). -/
theorem C04_resolveParent_amp_alone (P : SelList) (implicit : Bool) :
    resolveList (some P) implicit [[.cmp { par := some none, simples := [] }]] = .ok P := by
  simp [resolveList, mapE, resolveComplex, complexHasParent, compHasParent, foldComps, stepComp,
    resolveCompound, flattenVertically_single]

example : resolveList (some [[.cmp ⟨none, ["a"]⟩], [.cmp ⟨none, ["b"]⟩, .comb ">", .cmp ⟨none, [".x"]⟩]]) true
    [[.cmp ⟨some none, []⟩]] = .ok [[.cmp ⟨none, ["a"]⟩], [.cmp ⟨none, ["b"]⟩, .comb ">", .cmp ⟨none, [".x"]⟩]] :=
  C04_resolveParent_amp_alone _ _

/-- **Cross product in source order.**  For parents as grass produces them (`goodParent`: the
    complex ends in a non-empty compound) and nested complexes with at most one `&`-compound each
    (no `&`, `&`, `&-suffix`, `&.x`, `a &`, `& > b` …), the resolved list is the matrix
    `combine p c` — the by-hand substitution of parent `p` into child `c` — read parent-major:
    all children under the first parent, then all under the second, …; lengths multiply. -/
theorem C04_resolveParent_cross_product (P C : SelList)
    (hP : ∀ p ∈ P, goodParent p = true) (hC : ∀ c ∈ C, parentRefs c ≤ 1) :
    ∃ M : List (List Complex),
      mapE (fun p => mapE (combine p) C) P = .ok M ∧
      resolveList (some P) true C = .ok M.flatten ∧
      M.flatten.length = P.length * C.length :=
  ⟨P.map (fun p => C.map (combineT p)), matrix_spec P C hP, resolveList_matrix P C hP hC,
    length_flatten_const combineT P C⟩

-- hypotheses satisfiable, non-trivially: `a, b { c, &-s, d & {…} }`
example : (∀ p ∈ ([[.cmp ⟨none, ["a"]⟩], [.cmp ⟨none, ["b"]⟩]] : SelList), goodParent p = true) ∧
    (∀ c ∈ ([[.cmp ⟨none, ["c"]⟩], [.cmp ⟨some (some "-s"), []⟩], [.cmp ⟨none, ["d"]⟩, .cmp ⟨some none, []⟩]] : SelList),
      parentRefs c ≤ 1) := by decide

/-- **Repeated `&`** (`& + &`, `& &-s`, …): every compound that contains `&` multiplies the number
    of results by the number of parents, so a complex with k such compounds yields |P|^k selectors
    (all k-tuples of parents; `flatten_vertically` then interleaves the columns of different
    children). -/
theorem C04_resolveParent_repeated_length (P : SelList) (hP : ∀ p ∈ P, goodParent p = true)
    (implicit : Bool) (c : Complex) (hc : complexHasParent c = true) :
    ∃ R, resolveComplex implicit P c = .ok R ∧ R.length = P.length ^ parentRefs c :=
  resolveComplex_length P hP implicit c hc

-- `a, b { & + & {…} }` is `a + a, a + b, b + a, b + b`
example : resolveList (some [[.cmp ⟨none, ["a"]⟩], [.cmp ⟨none, ["b"]⟩]]) true
    [[.cmp ⟨some none, []⟩, .comb "+", .cmp ⟨some none, []⟩]]
    = .ok [[.cmp ⟨none, ["a"]⟩, .comb "+", .cmp ⟨none, ["a"]⟩], [.cmp ⟨none, ["a"]⟩, .comb "+", .cmp ⟨none, ["b"]⟩],
           [.cmp ⟨none, ["b"]⟩, .comb "+", .cmp ⟨none, ["a"]⟩], [.cmp ⟨none, ["b"]⟩, .comb "+", .cmp ⟨none, ["b"]⟩]] := by
  simp [resolveList, mapE, resolveComplex, complexHasParent, compHasParent, foldComps, stepComp, resolveCompound,
    flattenVertically_single]

/-! ### nested properties -/

/-- The name the visitor builds by carrying `declaration_name` (`format!("{}-{}")`) is the
    `-`-joined path of enclosing property names; values and order are those of the source. -/
theorem C04_nested_property_name (d : Decl) : visitDecl none d = declSpec [] d := visitDecl_none d

/-- `a: {b: {c: v}}` is the declaration `a-b-c: v`. -/
theorem C04_nested_property_name_abc (a b c v : String) :
    visitDecl none (.mk a none (.cons (.mk b none (.cons (.mk c (some v) .nil) .nil)) .nil))
      = [(a ++ "-" ++ b ++ "-" ++ c, v)] := by
  simp [visitDecl, visitDecls]

/-! ### invisibility -/

/-- **Empty rules vanish, and only they do.**  (1) a style rule without children is invisible;
    (2) nothing the top-level loop writes is invisible, and neither is anything `write_children`
    writes below it (`emit` applies the same test at every level); (3) skipping invisible
    statements never loses a block that has declarations: the observation is the same with and
    without the skipping. -/
theorem C04_finish_invisible (cs : List Css) (sel : SelList) :
    isInvisible (.mk (.rule sel) .nil) = true ∧
    (∀ c ∈ emitTop cs, isInvisible c = false) ∧
    (∀ c : Css, isInvisible (emit c) = isInvisible c) ∧
    blocksTop (emitTop cs) = blocksTop cs := by
  exact ⟨by simp [isInvisible, allInvisible], emitTop_visible cs, emit_invisible, blocksTop_emitTop cs⟩

example : blocksTop (emitTop [.mk (.rule [[.cmp ⟨none, ["a"]⟩]]) .nil,
    .mk (.media [[0]]) (.cons (.mk (.rule [[.cmp ⟨none, ["a"]⟩]]) .nil) .nil)]) = [] := by decide

/-! ### the tree algorithm against flattening by hand -/

-- `rulesOnlyL src`: the tree consists of style rules, declarations and nested properties
-- (GrassProofs/Lemmas/CssTreeBuild.lean).

/-- **First cut of the property.**  For every source tree of style rules (any selector lists, `&`
    anywhere), declarations and nested properties, to any depth and width, grass's algorithm —
    `add_child` with `through`, `with_parent`, declarations attached to the current parent, the
    mutating `finish` over the index-addressed tree, invisibility, blocks as the CSS reader sees
    them — yields exactly the block list flattening by hand yields, with the same error when a
    selector cannot be resolved or a declaration stands outside a rule.  It holds for the code as
    it stands and for every repaired variant (`af` arbitrary: the three deviations only concern
    @at-root).  Proof: the representation invariant `Wf` (ROOT → rules → declaration leaves) with
    the abstraction `viewI` (= blocks emitted so far, the open block being the entry of the
    current parent), preserved by every visitor step (`stmt_rel`/`stmts_rel`), and `finish_wf`. -/
theorem C04_treeBuild_eq_flattenSpec_rules (af : AsFound) (src : Stmts) (h : rulesOnlyL src = true) :
    compile af src = flattenSpec src := compile_eq_flattenSpec_rules af src h

/-- The same as P̂, the predicate the check evaluates on grass's own output. -/
theorem C04_specHolds_rules_partial (af : AsFound) (src : Stmts) (h : rulesOnlyL src = true) :
    specHolds src (compile af src) = true := by
  rw [C04_treeBuild_eq_flattenSpec_rules af src h]
  unfold specHolds
  cases flattenSpec src <;> simp

-- hypothesis satisfiable, non-trivially: `a, b { x: 1; & c { y: { z: 2 } } w: 3 }  d { }`
example : rulesOnlyL
    (.cons (.rule [[.cmp ⟨none, ["a"]⟩], [.cmp ⟨none, ["b"]⟩]]
      (.cons (.decl (.mk "x" (some "1") .nil))
        (.cons (.rule [[.cmp ⟨some none, []⟩, .cmp ⟨none, ["c"]⟩]]
          (.cons (.decl (.mk "y" none (.cons (.mk "z" (some "2") .nil) .nil))) .nil))
          (.cons (.decl (.mk "w" (some "3") .nil)) .nil))))
      (.cons (.rule [[.cmp ⟨none, ["d"]⟩]] .nil) .nil)) = true := by decide

/-- **Declaration order is preserved**: a rule whose body is a list of declarations and nested
    properties compiles to one block carrying exactly those declarations, in source order, under
    the resolved selector. -/
theorem C04_declaration_order (af : AsFound) (sel : SelList) (ds : Decls)
    (hsel : sel.any complexHasParent = false) (hne : declsSpec [] ds ≠ []) :
    compile af (.cons (.rule sel (declStmts ds)) .nil)
      = .ok [{ ctx := [], sel := some sel, decls := declsSpec [] ds }] := by
  rw [C04_treeBuild_eq_flattenSpec_rules af _ (by simp [rulesOnlyL, rulesOnly, rulesOnlyL_declStmts])]
  simp only [flattenSpec, specStmts, specStmt, SCtx.init, resolveList, hsel, Bool.false_eq_true, if_false]
  rw [specStmts_declStmts { frames := [], sel := some sel, exclStyle := false, inUnknown := false }
        (by simp [SCtx.ruleHere]) ds]
  cases hd : declsSpec [] ds with
  | nil => exact absurd hd hne
  | cons d rest => simp [wrapBlock, seqRes, SCtx.home, SCtx.ruleHere, Block.nonEmpty]

/-! ### growth 1: bubbling @media / @supports / unknown at-rules -/

-- `bubOnlyL src`: style rules, declarations, nested properties, @media (feature-only queries),
-- @supports and unknown at-rules, nested in each other to any depth; no @at-root
-- (GrassProofs/Lemmas/CssTreeBubble.lean).
-- `readIdx r` / `observeIdx t` (Lemmas/CssTreeBubble2.lean): the blocks of the built tree read off
-- the index tree directly — every non-declaration node in index (= creation) order, its at-rule
-- context from the parent chain, its declarations from its child list, empty blocks dropped.

/-- **Bubbling (partial).**  For every tree of the bubbling fragment and every variant of the
    visitor that has the shallow sibling test of the code as it stands (`AsFound.code`,
    `AsFound.pinned`), the tree built by grass's algorithm — `add_child` with the three `through`
    closures (style rules; style rules and the @media rules already merged), the
    copy-when-following-sibling step, the style rule re-created inside every bubbling at-rule,
    nested @media merged with the nearest enclosing @media and lifted out of it, declarations
    attached to the current parent — contains, in creation order, exactly the blocks
    (at-rule context, selector, declarations) that flattening by hand yields, and fails with the
    same error where flattening by hand fails.  One bubbling lemma (`bubble_rel`) serves the three
    at-rules; `addChild_landing` covers both branches of the sibling test (the copy inherits kind,
    parent and therefore context of the landing node).
    MISSING for the full statement (`C04_bubbling_full` below): that the mutating `finish` plus the
    serializer's invisibility rule emit the nodes of such a tree in creation order, each under the
    context its parent chain spells — `C04_finish_reads_index_order_full`.  That is exactly the
    part where the *position* of the copy (after the interstitial sibling) matters; it is proved
    for the style-rule fragment (`finish_wf`) and covered by the correspondence for the rest. -/
theorem C04_treeBuild_eq_flattenSpec_bubbling_partial (af : AsFound) (h : af.shallowSibling = true)
    (src : Stmts) (hb : bubOnlyL src = true) : readIdx (treeBuild af src) = flattenSpec src :=
  readIdx_eq_flattenSpec_bubbling af h src hb

-- hypothesis satisfiable, non-trivially: `@media (f0) { a { @media (f1) { x: 1 } b { y: 2 } } }`
example : bubOnlyL
    (.cons (.media [[0]] (.cons (.rule [[.cmp ⟨none, ["a"]⟩]]
      (.cons (.media [[1]] (.cons (.decl (.mk "x" (some "1") .nil)) .nil))
        (.cons (.rule [[.cmp ⟨none, ["b"]⟩]] (.cons (.decl (.mk "y" (some "2") .nil)) .nil)) .nil))) .nil)) .nil) = true := by
  decide

/-- The missing link, stated exactly: `finish` + invisibility + the reader's block view return the
    index-order reading for every tree the visitor builds from the bubbling fragment. -/
def C04_finish_reads_index_order_full : Prop :=
  ∀ (af : AsFound) (src : Stmts) (t : Tree), af.shallowSibling = true → bubOnlyL src = true →
    treeBuild af src = .ok t → observeTree t = .ok (observeIdx t)

/-- Growth 1 in full (follows from the partial theorem and `C04_finish_reads_index_order_full`). -/
def C04_bubbling_full : Prop :=
  ∀ (af : AsFound) (src : Stmts), af.shallowSibling = true → bubOnlyL src = true →
    compile af src = flattenSpec src

theorem C04_bubbling_full_of_finish (hfin : C04_finish_reads_index_order_full) : C04_bubbling_full := by
  intro af src h hb
  have hp := C04_treeBuild_eq_flattenSpec_bubbling_partial af h src hb
  unfold compile observe
  cases ht : treeBuild af src with
  | error e => rw [ht] at hp; exact hp
  | ok t =>
    rw [ht] at hp
    simp only [readIdx] at hp
    show observeTree t = flattenSpec src
    rw [hfin af src t h hb ht]; exact hp

/-- Growth 2, not proved: @at-root (without and with queries) for the specified variant.  Missing:
    an invariant for `link_child_to_parent` trees (copies re-parented above one another) and the
    deep sibling test `addRawDeep`; covered by the correspondence only. -/
def C04_atroot_full : Prop :=
  ∀ src : Stmts, compile AsFound.specified src = flattenSpec src

/-! ### bubbling and @at-root: kernel-checked instances and witnesses -/

/-- DESIGN §8 example: `@media (f0) { a { @media (f1) { x: 1 } b { y: 2 } } }` — the inner @media
    bubbles out merged, and `a b` needs a *copy* of `@media (f0)` because the merged rule now
    follows it (copy-when-following-sibling). -/
def exBubble : Stmts :=
  .cons (.media [[0]] (.cons (.rule [[.cmp ⟨none, ["a"]⟩]]
    (.cons (.media [[1]] (.cons (.decl (.mk "x" (some "1") .nil)) .nil))
      (.cons (.rule [[.cmp ⟨none, ["b"]⟩]] (.cons (.decl (.mk "y" (some "2") .nil)) .nil)) .nil))) .nil)) .nil

example : specHolds exBubble (compile AsFound.code exBubble) = true ∧
    specHolds exBubble (.ok [⟨[.media [[0, 1]]], some [[.cmp ⟨none, ["a"]⟩]], [("x", "1")]⟩,
                            ⟨[.media [[0]]], some [[.cmp ⟨none, ["a"]⟩, .cmp ⟨none, ["b"]⟩]], [("y", "2")]⟩]) = true := by
  decide

/-- `@media (f0) { @supports (s0: v) { a { @at-root (without: supports) { p0: v1 } } } }` -/
def witD1 : Stmts :=
  .cons (.media [[0]] (.cons (.supports "(s0: v)" (.cons (.rule [[.cmp ⟨none, ["a"]⟩]]
    (.cons (.atroot (some ⟨false, ["supports"]⟩) (.cons (.decl (.mk "p0" (some "v1") .nil)) .nil)) .nil)) .nil)) .nil)) .nil

/-- C04-D1 (fixed in /repo, c501619): with the outermost copy as the new parent the declaration
    lost its style rule; taking the innermost copy repairs it — and the code as it stands does. -/
theorem C04_asFound_D1_outerCopyParent :
    specHolds witD1 (compile AsFound.pinned witD1) = false ∧
    specHolds witD1 (compile { AsFound.pinned with outerCopyParent := false } witD1) = true ∧
    specHolds witD1 (compile AsFound.code witD1) = true := by decide

/-- `@foo { @at-root (without: all) { p0: v1 } }` -/
def witD2 : Stmts :=
  .cons (.unknown "foo" "" (.cons (.atroot (some ⟨false, ["all"]⟩) (.cons (.decl (.mk "p0" (some "v1") .nil)) .nil)) .nil)) .nil

/-- C04-D2 (fixed in /repo, ea0c00a): IN_UNKNOWN_AT_RULE survived the @at-root, so the declaration
    was accepted although nothing encloses it; the property (and dart-sass) ask for an error. -/
theorem C04_asFound_D2_keepInUnknown :
    specHolds witD2 (compile AsFound.pinned witD2) = false ∧
    specHolds witD2 (compile { AsFound.pinned with keepInUnknown := false } witD2) = true ∧
    specHolds witD2 (compile AsFound.code witD2) = true := by decide

/-- `@supports s { @supports t { a { @at-root (without: all) { & { p: 1 } } & { p: 2 } } } }` -/
def witD3 : Stmts :=
  .cons (.supports "s" (.cons (.supports "t" (.cons (.rule [[.cmp ⟨none, ["a"]⟩]]
    (.cons (.atroot (some ⟨false, ["all"]⟩)
        (.cons (.rule [[.cmp ⟨some none, []⟩]] (.cons (.decl (.mk "p" (some "1") .nil)) .nil)) .nil))
      (.cons (.rule [[.cmp ⟨some none, []⟩]] (.cons (.decl (.mk "p" (some "2") .nil)) .nil)) .nil))) .nil)) .nil)) .nil

/-- C04-D3: only the landing parent is tested for a following sibling (visitor.rs:1653), so the
    later `a { p: 2 }` is written before the @at-root's `a { p: 1 }`; testing the ancestors too
    keeps source order. -/
theorem C04_asFound_D3_shallowSibling : specHolds witD3 (compile AsFound.code witD3) = false := by decide

set_option maxHeartbeats 1600000 in
theorem C04_asFound_D3_repaired :
    specHolds witD3 (compile { AsFound.code with shallowSibling := false } witD3) = true := by decide

end Grass.CssTree
