import Grass.Module
import GrassProofs.Lemmas.ModuleView
import GrassProofs.Lemmas.ModuleLoader
import GrassProofs.Lemmas.ModuleConfig
/-
  C12 — Modules load once, stay isolated and expose only public members.

  Property theorems about the model in Grass/Module.lean.  `Switches.spec` is the specified
  behaviour, `Switches.now` the code as it stands in /repo (the correspondence runs against it;
  since the fixes of F1–F4 it equals `spec`, `C12_now_is_spec`), `Switches.beforeFixes` the tree
  before those fixes, `Switches.pinned` the tree before the D7 fix.  Theorems that hold for the code as it stands are
  stated for *every* switch setting (`sw`); theorems that the code violates are stated for the
  specified variant, with a kernel-checked `C12_asFound_…` witness beside them.

  Full statement (kept visible; what is not proved is listed below):

    C12_full :=  ∀ project entry,
      (1) each canonical path is evaluated at most once and its CSS emitted at most once,
      (2) members are reachable only through a namespace / `as *`, private members never,
      (3) an assignment through a namespace updates the one shared variable,
      (4) `@forward` exposes exactly prefix ∘ filter(show/hide) of the upstream's public members,
      (5) `with` overrides only `!default` variables, is rejected for unknown / non-default
          variables and for already loaded modules — at every depth of `@forward … with`,
      (6) built-in modules offer the same functions as their global aliases,
      (7) every `@use`/`@forward` cycle is reported as an error.

  Proved here: (1) (2) (3) (4) in full for the model (the code as it stands is the specified
  variant, `C12_now_is_spec`); (5) in full for the rejection half: `C12_with_unknown_is_error`
  (a configured variable that no module reachable through `@forward`s — with or without `with`
  clauses, prefixes, show/hide — declares `!default` makes the `@use` fail), plus
  `C12_with_after_load_is_error`, `C12_with_never_overrides_plain`, `C12_with_overrides_default`;
  the tree before the fix of F2 violated it (`C12_asFound_forward_with_unchecked`).  Not stated as
  a theorem: the positive half for nested `@forward … with` (which value a forwarded `!default`
  variable finally gets) — checked by the correspondence only.
  RESIDUAL, not in the model: `meta.load-css` and `@import` of a module that has `@forward` rules
  (`import_forwards`).  In the code load-css is an import into the caller (meta.rs:70: the sheet is
  re-evaluated on each call, its members and namespaces leak, `$with` is ignored — known finding
  C12-loadCssIsImport), so "evaluated once" holds for `@use`/`@forward` (and for the modules a
  load-css'ed or imported sheet uses) but not for the load-css'ed sheet itself; tools/props/c12.py
  `check_loadcss_import` judges fixed scenarios on grass's own output;
  (6) as alias sameness of the generated table; (7) as the active-set invariant: a load that
  resolves to a module under evaluation is an error (`C12_cycle_is_error`), the active set is
  exactly restored by every successful load (`C12_active_restored`), and the cache of every run
  is a well-founded graph (`C12_module_graph_wellfounded`, `C12_no_dependency_cycle`): no module
  ever completes loading while depending on itself.
-/
namespace Grass.Module

/-- the error of a result, if any (`Except` has no `DecidableEq`; the witnesses below use this) -/
def resErr {α : Type} (r : Except Err α) : Option Err :=
  match r with
  | .ok _ => none
  | .error e => some e

/-! ## (1) loads once -/

/-- The initial state of `run` satisfies the loader invariant. -/
theorem inv_init (entry : Ident) : St.Inv ⟨[], [entry], [entry], []⟩ :=
  ⟨by simp, fun p hp => Or.inl hp, fun _ _ => rfl, fun p hp => hp⟩

theorem run_inv (sw : Switches) (proj : Project) (entry : Ident) : (run sw proj entry).st.Inv := by
  unfold run
  split
  · exact ⟨by simp, by simp, fun _ _ => rfl, by simp⟩
  · rename_i src _
    simp only
    split
    · exact ⟨by simp, by simp, fun _ _ => rfl, by simp⟩
    · have := evalStmts_inv sw (load sw proj (proj.length + 1)) (load_restores sw proj _) (load_inv sw proj _)
        src.body (Env.new entry) Cfg.empty _ (inv_init entry) (by simp [Env.new])
      generalize evalStmts sw (load sw proj (proj.length + 1)) src.body (Env.new entry) Cfg.empty
        ⟨[], [entry], [entry], []⟩ = o at this
      cases o.res <;> exact this

/-- **Loads once.** For every project, every entry and every switch setting — also when the
    compilation ends in an error — no canonical path starts evaluation twice. -/
theorem C12_loads_once (sw : Switches) (proj : Project) (entry : Ident) :
    (run sw proj entry).st.entered.Nodup :=
  (run_inv sw proj entry).nodup

/-- **CSS once.** If every module source has at most one CSS marker statement (`Project.wf`), no
    marker is emitted twice, whatever the shape of the `@use`/`@forward` graph (diamonds, repeated
    loads under different spellings and namespaces, configuration, errors). -/
theorem C12_css_once (sw : Switches) (proj : Project) (entry : Ident) (hwf : proj.wf = true) (p : Ident) :
    cssCount p (run sw proj entry).st.trace ≤ 1 := by
  unfold run
  split
  · simp [cssCount, cssOf]
  · rename_i src hfind
    simp only
    split
    · simp [cssCount, cssOf]
    · have hmem : src ∈ proj := List.mem_of_find?_eq_some hfind
      have hname : src.name = entry := by
        have := List.find?_some hfind
        simpa using this
      have hb : nCss src.body ≤ 1 := by
        simp only [Project.wf, Bool.and_eq_true, List.all_eq_true, decide_eq_true_eq] at hwf
        exact hwf.2 src hmem
      have := evalStmts_css sw (load sw proj (proj.length + 1)) (load_restores sw proj _) (load_inv sw proj _)
        (load_css sw proj hwf _) src.body (Env.new entry) Cfg.empty ⟨[], [entry], [entry], []⟩ (inv_init entry)
        (by intro q; simp [cssCount, cssOf]) (by simp [Env.new]) (by simp [cssCount, cssOf]; exact hb)
      generalize evalStmts sw (load sw proj (proj.length + 1)) src.body (Env.new entry) Cfg.empty
        ⟨[], [entry], [entry], []⟩ = o at this
      cases o.res <;> exact this.1 p

theorem nodup_of_count_le_one (l : List Ident) (h : ∀ p, l.count p ≤ 1) : l.Nodup := by
  induction l with
  | nil => simp
  | cons a l ih =>
    simp only [List.nodup_cons]
    refine ⟨?_, ih fun p => ?_⟩
    · intro hm
      have := h a
      have h1 : 0 < l.count a := List.count_pos_iff.mpr hm
      simp at this
      omega
    · have := h p
      simp only [List.count_cons] at this
      omega

/-- The per-input predicate P̂ (`onceOK`, evaluated by the driver on the implementation's own
    debug messages and CSS) holds of the model's output. -/
theorem C12_once_holds (sw : Switches) (proj : Project) (entry : Ident) (hwf : proj.wf = true) :
    onceOK (run sw proj entry).st.entered (cssOf (run sw proj entry).st.trace) = true := by
  simp only [onceOK, Bool.and_eq_true, decide_eq_true_eq]
  exact ⟨C12_loads_once sw proj entry, nodup_of_count_le_one _ (fun p => C12_css_once sw proj entry hwf p)⟩

/-- **Termination.** The fuel `run` hands to the loader (number of files + 1) is never exhausted:
    nesting depth is bounded by the active set, which only holds files of the project. -/
theorem C12_fuel_suffices (sw : Switches) (proj : Project) (entry : Ident) :
    (run sw proj entry).res ≠ .error .outOfFuel := by
  unfold run
  split
  · simp
  · rename_i src _
    simp only
    split
    · simp
    · have hN : NoFuelErr (load sw proj (proj.length + 1)) [entry] := by
        intro url cfg st hA
        apply load_nofuel
        rw [hA]
        have : notActive proj [entry] ≤ proj.length := by unfold notActive; exact List.length_filter_le _ _
        omega
      have := evalStmts_nofuel sw (load sw proj (proj.length + 1)) (load_restores sw proj _) [entry] hN
        src.body (Env.new entry) Cfg.empty ⟨[], [entry], [entry], []⟩ rfl
      generalize evalStmts sw (load sw proj (proj.length + 1)) src.body (Env.new entry) Cfg.empty
        ⟨[], [entry], [entry], []⟩ = o at this
      cases hres : o.res with
      | error e => simp only; intro he; cases he; exact this hres
      | ok r => simp

/-! ## what "the same module" means: the canonical path -/

/-- A URL resolves to the module whose canonical path is the canonical form (what
    `Fs::canonicalize` returns: the path itself on the in-memory Fs, its lexical normal form on the
    real disk) of one of the literal paths `find_import` probes — relative to the importing file
    first, then the load paths. -/
theorem C12_resolve_is_canonical (proj : Project) (u : Url) (m : ModSrc) (h : resolve proj u = some m) :
    m ∈ proj ∧ ∃ c ∈ candidates u, m.path = (if u.lexical then normPath [] c else c) := by
  unfold resolve at h
  obtain ⟨c, hc, hf⟩ := List.exists_of_findSome?_eq_some h
  refine ⟨List.mem_of_find?_eq_some hf, c, hc, ?_⟩
  have := List.find?_some hf
  simpa using this

/-- Two spellings (`a`, `../p/a`, `x/../a`, through a load path, …) that reach the same canonical
    path reach the same module — and `C12_loads_once` is about that module: one cache entry, one
    evaluation.  Conversely, spellings that canonicalise differently (e.g. `x/../a` on a file system
    whose `canonicalize` is the identity) are different modules for the code. -/
theorem C12_same_canonical_path_same_module (proj : Project) (hd : proj.pathsDistinct = true) (m1 m2 : ModSrc)
    (h1 : m1 ∈ proj) (h2 : m2 ∈ proj) (hp : m1.path = m2.path) : m1 = m2 := by
  simp only [Project.pathsDistinct, decide_eq_true_eq] at hd
  induction proj with
  | nil => cases h1
  | cons a l ih =>
    simp only [List.map_cons, List.nodup_cons, List.mem_map, not_exists, not_and] at hd
    simp only [List.mem_cons] at h1 h2
    rcases h1 with h1 | h1 <;> rcases h2 with h2 | h2
    · rw [h1, h2]
    · subst h1; exact absurd hp.symm (hd.1 m2 h2)
    · subst h2; exact absurd hp (hd.1 m1 h1)
    · exact ih h1 h2 hd.2

/-! ## (7) cycles -/

/-- **Cycle is an error.** A load whose URL resolves to a module that is being evaluated (it is
    in the active set) is the error `moduleLoop`, and nothing is evaluated. -/
theorem C12_cycle_is_error (sw : Switches) (proj : Project) (fuel : Nat) (url : Url) (cfg : Cfg) (st : St)
    (src : ModSrc) (hres : resolve proj url = some src) (hparse : src.parseError = false)
    (hact : src.name ∈ st.active) :
    load sw proj (fuel + 1) url cfg st = ⟨st, .error .moduleLoop⟩ := by
  have : st.active.contains src.name = true := by simpa using hact
  simp only [load, hres, hparse, Bool.false_eq_true, if_false]
  rw [if_pos this]

/-- **Active-set invariant.** Every successful load returns with the active set exactly as it
    found it (so during the evaluation of a module body the set is: the entry, the chain of
    modules whose bodies are being evaluated, and nothing else). -/
theorem C12_active_restored (sw : Switches) (proj : Project) (fuel : Nat) (url : Url) (cfg : Cfg) (st : St)
    (r : Nat × Cfg) (h : (load sw proj fuel url cfg st).res = .ok r) :
    (load sw proj fuel url cfg st).st.active = st.active :=
  load_restores sw proj fuel url cfg st r h

/-- A module that is being evaluated is in the active set for the whole evaluation of its body:
    whatever its statements load, a load of the module itself is the error above. -/
theorem C12_self_load_is_error (sw : Switches) (proj : Project) (fuel : Nat) (url : Url) (cfg : Cfg) (st : St)
    (src : ModSrc) (hres : resolve proj url = some src) (hparse : src.parseError = false)
    (body : List Stmt) (env : Env) (c : Cfg) (hin : src.name ∈ st.active)
    (r : Env × Cfg) (hok : (evalStmts sw (load sw proj (fuel + 1)) body env c st).res = .ok r) :
    load sw proj (fuel + 1) url cfg (evalStmts sw (load sw proj (fuel + 1)) body env c st).st
      = ⟨(evalStmts sw (load sw proj (fuel + 1)) body env c st).st, .error .moduleLoop⟩ := by
  apply C12_cycle_is_error sw proj fuel url cfg _ src hres hparse
  rw [(evalStmts_restores sw _ (load_restores sw proj (fuel + 1)) body env c st r hok).1]
  exact hin

/-- A successful compilation ends with the entry as the only active module. -/
theorem C12_run_active_restored (sw : Switches) (proj : Project) (entry : Ident) (h : resErr (run sw proj entry).res = none) :
    (run sw proj entry).st.active = [entry] := by
  revert h
  unfold run
  split
  · simp [resErr]
  · rename_i src _
    simp only
    split
    · simp [resErr]
    · have hr := evalStmts_restores sw (load sw proj (proj.length + 1)) (load_restores sw proj _) src.body (Env.new entry)
        Cfg.empty ⟨[], [entry], [entry], []⟩
      generalize evalStmts sw (load sw proj (proj.length + 1)) src.body (Env.new entry) Cfg.empty
        ⟨[], [entry], [entry], []⟩ = o at hr
      cases hres : o.res with
      | error e => simp [resErr]
      | ok r => intro _; exact (hr r hres).1

/-- module `i` of the cache refers to module `j` (forwards it, uses it under a namespace or `as *`) -/
def dependsOn (ms : List Mod) (i j : Nat) : Prop :=
  ∃ m, modAt ms i = some m ∧ ((∃ f ∈ m.fwds, f.target = j) ∨ j ∈ m.globals ∨ (∃ e ∈ m.nss, e.2 = j))

/-- **The module graph is well-founded.** Whatever the project, every reference a completed
    module holds points to a module that was completed before it (so `scopeView`, which looks
    forwards up in the older part of the cache, sees every forwarded module). -/
theorem C12_module_graph_wellfounded (sw : Switches) (proj : Project) (entry : Ident) :
    ModsWF (run sw proj entry).st.mods := by
  have h0 : ModsWF ([] : List Mod) := by intro i m h; simp [modAt] at h
  unfold run
  split
  · exact h0
  · rename_i src _
    simp only
    split
    · exact h0
    · have := evalStmts_graph sw (load sw proj (proj.length + 1)) (load_graph sw proj _) src.body (Env.new entry) Cfg.empty
        ⟨[], [entry], [entry], []⟩ h0 (by simp [EnvBelow, Env.new])
      generalize evalStmts sw (load sw proj (proj.length + 1)) src.body (Env.new entry) Cfg.empty
        ⟨[], [entry], [entry], []⟩ = o at this
      cases o.res <;> exact this.1

/-- **No dependency cycle can ever be completed**: in the cache of any run — successful or not — no
    module depends, directly or transitively, on itself.  Together with `C12_cycle_is_error` (the
    attempt is an error) this is the statement that `@use`/`@forward` cycles never load. -/
theorem C12_no_dependency_cycle (sw : Switches) (proj : Project) (entry : Ident) (i : Nat) :
    ¬ Relation.TransGen (dependsOn (run sw proj entry).st.mods) i i := by
  have hw := C12_module_graph_wellfounded sw proj entry
  have step : ∀ a b, dependsOn (run sw proj entry).st.mods a b → b < a := by
    intro a b ⟨m, hm, hd⟩
    have := hw a m hm
    rcases hd with ⟨f, hf, rfl⟩ | hg | ⟨e, he, rfl⟩
    · exact this.1 f hf
    · exact this.2.1 b hg
    · exact this.2.2 e he
  have lt : ∀ a b, Relation.TransGen (dependsOn (run sw proj entry).st.mods) a b → b < a := by
    intro a b h
    induction h with
    | single h => exact step _ _ h
    | tail _ h ih => exact Nat.lt_trans (step _ _ h) ih
  intro h
  exact Nat.lt_irrefl _ (lt i i h)

/-! ## (2) privacy -/

/-- **Private members are never visible.** Whatever a module's scope hands out — through `@use`,
    through any chain of `@forward`s with any prefixes and show/hide lists, for every switch
    setting — was declared under a public name. -/
theorem C12_private_never_visible (sw : Switches) (k : Kind) (ms : List Mod) (id : Nat) (n : Ident) (o : Origin)
    (h : (scopeView sw k ms id).get n = some o) : isPrivate o.name = false :=
  pubOrigins_scopeView sw k ms id n o h

/-- The same for bare names resolved through `as *` modules. -/
theorem C12_private_never_visible_star (sw : Switches) (k : Kind) (ms : List Mod) (globals : List Nat) (n : Ident)
    (o : Origin) (h : fromGlobals sw k ms globals n = some o) : isPrivate o.name = false := by
  unfold fromGlobals at h
  obtain ⟨g, _, hg⟩ := List.exists_of_findSome?_eq_some h
  exact pubOrigins_scopeView sw k ms g n o hg

/-- A name that is private after normalisation (`-x`, `_x`) is not served by a module's own
    public view, so without a prefix it is not reachable at all. -/
theorem C12_private_name_not_served (id : Nat) (own : List Ident) (n : Ident) (h : isPrivate n = true) :
    (View.pub (View.base id own)).get n = none := by
  simp [View.pub, h]

theorem isPrivate_norm_underscore (s : Ident) : isPrivate (norm ('_' :: s)) = true := by
  simp [isPrivate, norm, normChar]

theorem isPrivate_norm_hyphen (s : Ident) : isPrivate (norm ('-' :: s)) = true := by
  simp [isPrivate, norm, normChar]

/-- A module source with an unguarded namespaced reference to a private name is rejected when it
    is loaded: nothing of it is evaluated (`assert_public`, parse/stylesheet.rs:2648). -/
theorem C12_private_ref_is_error (sw : Switches) (proj : Project) (fuel : Nat) (url : Url) (cfg : Cfg) (st : St)
    (src : ModSrc) (hres : resolve proj url = some src) (hparse : src.parseError = true) :
    load sw proj (fuel + 1) url cfg st = ⟨st, .error .privateAccess⟩ := by
  simp [load, hres, hparse]

/-! ## (4) the forward view -/

/-- **Forward view.** For the specified variant, what `@forward "m" [as p*] [show …|hide …]` makes
    visible is `prefix ∘ filter(show/hide)` of what `m` exposes; the lists name the *prefixed*
    names, variables and mixins-and-functions separately. -/
theorem C12_forward_view_spec (k : Kind) (r : FwdRule) (ms : List Mod) (target : Nat) (n : Ident) :
    (forwardedMap .spec k r (scopeView .spec k ms target)).get n
      = fwdSpecGet r k (scopeView .spec k ms target).get n :=
  forwardedMap_get_spec .spec rfl rfl k r _ (good_scopeView .spec rfl k ms target) n

/-- The whole scope of a module, along the whole `@forward` graph: its own public members, else the
    last `@forward` that lets the name through (`specGet`, written without views). -/
theorem C12_scope_spec (k : Kind) (ms : List Mod) (id : Nat) (n : Ident) :
    (scopeView .spec k ms id).get n = specGet k ms id n :=
  scopeView_get_spec .spec rfl rfl k ms id n

/-- `keys()` (what `meta.module-variables` / `module-functions` list) agrees with `get` for the
    specified variant: every member that can be referenced is listed. -/
theorem C12_forward_keys_complete (k : Kind) (ms : List Mod) (id : Nat) (n : Ident)
    (h : ((scopeView .spec k ms id).get n).isSome = true) : n ∈ (scopeView .spec k ms id).keys :=
  (good_scopeView .spec rfl k ms id).complete n h

/-- … and, for every switch setting, nothing is listed that cannot be referenced. -/
theorem C12_forward_keys_sound (sw : Switches) (k : Kind) (ms : List Mod) (id : Nat) (n : Ident)
    (h : n ∈ (scopeView sw k ms id).keys) : ((scopeView sw k ms id).get n).isSome = true :=
  sound_scopeView sw k ms id n h

/-- **The code as it stands is the specified variant** (every found deviation is repaired), so the
    theorems stated for `Switches.spec` are theorems about the code's model. -/
theorem C12_now_is_spec : Switches.now = Switches.spec := rfl

/-- … in particular the forward view, the whole scope and the key set, for the code as it stands. -/
theorem C12_forward_view_now (k : Kind) (r : FwdRule) (ms : List Mod) (target : Nat) (n : Ident) :
    (forwardedMap .now k r (scopeView .now k ms target)).get n = fwdSpecGet r k (scopeView .now k ms target).get n :=
  C12_forward_view_spec k r ms target n

theorem C12_scope_now (k : Kind) (ms : List Mod) (id : Nat) (n : Ident) :
    (scopeView .now k ms id).get n = specGet k ms id n :=
  C12_scope_spec k ms id n

theorem C12_forward_keys_complete_now (k : Kind) (ms : List Mod) (id : Nat) (n : Ident)
    (h : ((scopeView .now k ms id).get n).isSome = true) : n ∈ (scopeView .now k ms id).keys :=
  C12_forward_keys_complete k ms id n h

/-- Before F1 was fixed (but after D7) the forward view was already the specified one when no
    prefix was involved. -/
theorem C12_forward_view_beforeFixes_without_prefix (k : Kind) (vis : Vis) (v : View) (hv : v.Good) (n : Ident) :
    (forwardedMap .beforeFixes k ⟨none, vis⟩ v).get n = fwdSpecGet ⟨none, vis⟩ k v.get n := by
  unfold forwardedMap fwdSpecGet FwdRule.allows
  simp only [Switches.beforeFixes, Bool.false_eq_true, if_false, prefixBy, stripPfx]
  rw [limitBy_get vis k v hv n]

private def mA : Mod := ⟨['a'], [(['x'], 1), (['y'], 2), (['-', 'p'], 3)], [(['f'], .const)], [['m']], [], [], []⟩

/-- Witness for D7 (the pinned tree): `@forward "a" show $x` exposed `$y` as well. -/
theorem C12_asFound_forward_ignores_show_hide :
    ∃ (r : FwdRule) (ms : List Mod) (n : Ident),
      (forwardedMap .pinned .var r (scopeView .pinned .var ms 0)).get n
        ≠ fwdSpecGet r .var (scopeView .pinned .var ms 0).get n :=
  ⟨⟨none, .allow [['x']] []⟩, [mA], ['y'], by decide⟩

/-- Witness (the tree before the fix): `@forward "a" as p-* hide $p-y` hides `$p-x` too, because the
    blocklist is computed from `PrefixedMapView::keys`, which drops every upstream key that does
    not already start with the prefix. -/
theorem C12_asFound_prefix_hide_loses_members :
    ∃ (r : FwdRule) (ms : List Mod) (n : Ident),
      (forwardedMap .beforeFixes .var r (scopeView .beforeFixes .var ms 0)).get n
        ≠ fwdSpecGet r .var (scopeView .beforeFixes .var ms 0).get n :=
  ⟨⟨some ['p', '-'], .hide [['p', '-', 'y']] []⟩, [mA], ['p', '-', 'x'], by decide⟩

/-- Witness (the tree before the fix): the key set of a prefixed forward is not complete — `$p-x` can be
    referenced but `meta.module-variables` does not list it. -/
theorem C12_asFound_prefixed_keys_incomplete :
    ∃ (ms : List Mod) (id : Nat) (n : Ident),
      ((scopeView .beforeFixes .var ms id).get n).isSome = true ∧ n ∉ (scopeView .beforeFixes .var ms id).keys :=
  ⟨[⟨['m', 'i', 'd'], [], [], [], [⟨⟨some ['p', '-'], .all⟩, 0⟩], [], []⟩, mA], 1, ['p', '-', 'x'], by decide⟩

/-! ## (3) assignment through a namespace -/

/-- **Assignment through a namespace is shared.** After `ns₁.$n₁: v` in one module, *every*
    reference from any other module, through any namespace and any chain of forwards, that denotes
    the same member reads `v`. -/
theorem C12_namespace_assignment_shared (sw : Switches) (loadF : LoadF) (env1 env2 : Env) (cfg : Cfg) (st : St)
    (ns1 ns2 n1 n2 : Ident) (v : Val) (id1 id2 : Nat) (o : Origin)
    (h1 : env1.nss.lookup ns1 = some id1) (h2 : env2.nss.lookup ns2 = some id2)
    (hg1 : (scopeView sw .var st.mods id1).get n1 = some o)
    (hg2 : (scopeView sw .var st.mods id2).get n2 = some o) :
    lookupMember sw env2 (step sw loadF (.assign ns1 n1 v false) env1 cfg st).st .var (some ns2) n2
      = .ok (some (.val v)) := by
  have hex := scopeView_var_exists sw st.mods id1 n1 o hg1
  simp only [step, h1, hg1, Bool.false_eq_true, if_false, St.withMods, lookupMember, h2]
  rw [scopeView_setVar sw .var st.mods o.owner o.name v id2 hex, hg2]
  simp only [Option.map_some, resOf]
  rw [readVar_setVar st.mods o.owner o.name v hex]

/-- In particular two users of the same module see each other's assignment. -/
theorem C12_namespace_assignment_shared_same_module (sw : Switches) (loadF : LoadF) (env1 env2 : Env) (cfg : Cfg)
    (st : St) (ns1 ns2 n : Ident) (v : Val) (id : Nat) (o : Origin)
    (h1 : env1.nss.lookup ns1 = some id) (h2 : env2.nss.lookup ns2 = some id)
    (hg : (scopeView sw .var st.mods id).get n = some o) :
    lookupMember sw env2 (step sw loadF (.assign ns1 n v false) env1 cfg st).st .var (some ns2) n
      = .ok (some (.val v)) :=
  C12_namespace_assignment_shared sw loadF env1 env2 cfg st ns1 ns2 n n v id id o h1 h2 hg hg

/-- The assignment does not create or hide members: every scope is unchanged. -/
theorem C12_assignment_keeps_views (sw : Switches) (k : Kind) (ms : List Mod) (o : Origin) (v : Val) (i : Nat)
    (hex : (readVar ms o.owner o.name).isSome = true) :
    scopeView sw k (setVar ms o.owner o.name v) i = scopeView sw k ms i :=
  scopeView_setVar sw k ms o.owner o.name v i hex

/-! ## (5) configuration -/

/-- `with` never reaches a variable declared without `!default`: the declaration assigns its own
    value and leaves the configuration as it is. -/
theorem C12_with_never_overrides_plain (sw : Switches) (loadF : LoadF) (n : Ident) (v : Val) (env : Env) (cfg : Cfg)
    (st : St) :
    (step sw loadF (.var n v false) env cfg st).res = .ok ((insertRoot sw env st n v).1, cfg) ∧
    (step sw loadF (.var n v false) env cfg st).st = (insertRoot sw env st n v).2 := by
  simp [step]

/-- A `!default` declaration takes the configured value and consumes it. -/
theorem C12_with_overrides_default (sw : Switches) (loadF : LoadF) (n : Ident) (v cv : Val) (env : Env)
    (base : List (Ident × Val)) (st : St) (h : base.lookup n = some cv) :
    (step sw loadF (.var n v true) env ⟨base, [], true⟩ st).res
      = .ok ((insertRoot sw env st n cv).1, ⟨eraseKey base n, [], true⟩) := by
  simp [step, Cfg.remove, viaLayers, h]

/-- **Only top-level `!default` declarations are configurable.**  A `$n: v !default` nested in a
    style rule, in a top-level `@if`/`@each` block or in a mixin/function the module calls while
    loading (`env.at_root()` is false, visitor.rs:1980) never consults the `with` configuration,
    whatever it contains, and creates no module member: configuration and environment are unchanged;
    the declaration sees the module's own global of that name if there is one, else its own value. -/
theorem C12_with_only_top_level_default (sw : Switches) (loadF : LoadF) (pid ctx : Nat) (n : Ident) (v : Val) (env : Env)
    (cfg : Cfg) (st : St) :
    (step sw loadF (.nested pid ctx n v) env cfg st).res = .ok (env, cfg) ∧
    (step sw loadF (.nested pid ctx n v) env cfg st).st = st.emit (.probe pid (.val ((env.vars.lookup n).getD v))) := by
  simp [step]

/-- … so a `with` that names a variable declared `!default` only in nested positions is rejected:
    such declarations count as "cannot take it" in `cannotConsume`, the hypothesis of
    `C12_with_unknown_is_error`. -/
theorem C12_nested_default_cannot_consume (rec : Url → Option Ident → Bool) (vis : Option Ident) (pid ctx : Nat)
    (n : Ident) (v : Val) : stmtKeeps rec vis (.nested pid ctx n v) = true := rfl

/-- statements that cannot consume the configured name `n` -/
def keepsCfg (n : Ident) : Stmt → Bool
  | .forward _ _ _ => false
  | .var m _ true => m != n
  | _ => true

theorem lookup_eraseKey_ne (l : List (Ident × Val)) (n m : Ident) (h : m ≠ n) : (eraseKey l m).lookup n = l.lookup n := by
  induction l with
  | nil => rfl
  | cons e l ih =>
    obtain ⟨k, x⟩ := e
    unfold eraseKey at ih ⊢
    simp only [List.filter_cons]
    by_cases hk : k = m
    · subst hk
      have : (n == k) = false := by simpa using Ne.symm h
      simp [List.lookup, this, ih]
    · have : (k != m) = true := by simpa using hk
      simp only [this, if_true, List.lookup]
      split
      · rfl
      · exact ih

theorem step_keeps_cfg (sw : Switches) (loadF : LoadF) (n : Ident) (s : Stmt) (hs : keepsCfg n s = true) (env : Env)
    (base : List (Ident × Val)) (ex : Bool) (st : St) (env' : Env) (cfg' : Cfg)
    (h : (step sw loadF s env ⟨base, [], ex⟩ st).res = .ok (env', cfg')) :
    cfg'.layers = [] ∧ cfg'.explicit = ex ∧ cfg'.base.lookup n = base.lookup n := by
  cases s with
  | var m v g =>
    cases g with
    | false => simp [step] at h; rw [← h.2]; exact ⟨rfl, rfl, rfl⟩
    | true =>
      have hne : m ≠ n := by simpa [keepsCfg] using hs
      simp only [step, Cfg.remove, viaLayers, if_true] at h
      split at h
      · rename_i heq
        cases h
        simp only [Prod.mk.injEq] at heq
        rw [← heq.2]
        exact ⟨rfl, rfl, lookup_eraseKey_ne _ _ _ hne⟩
      · rename_i heq
        simp only [Prod.mk.injEq] at heq
        split at h
        · cases h; rw [← heq.2]; exact ⟨rfl, rfl, lookup_eraseKey_ne _ _ _ hne⟩
        · cases h; rw [← heq.2]; exact ⟨rfl, rfl, lookup_eraseKey_ne _ _ _ hne⟩
  | fn m b => simp [step] at h; rw [← h.2]; exact ⟨rfl, rfl, rfl⟩
  | mixin m => simp [step] at h; rw [← h.2]; exact ⟨rfl, rfl, rfl⟩
  | css => simp [step] at h; rw [← h.2]; exact ⟨rfl, rfl, rfl⟩
  | dbg => simp [step] at h; rw [← h.2]; exact ⟨rfl, rfl, rfl⟩
  | nested pid ctx n' v => simp [step] at h; rw [← h.2]; exact ⟨rfl, rfl, rfl⟩
  | use url ns withs =>
    simp only [step] at h
    repeat' split at h
    all_goals (first | cases h | skip)
    all_goals exact ⟨rfl, rfl, rfl⟩
  | forward url rule withs => simp [keepsCfg] at hs
  | assign ns m v g =>
    simp only [step] at h
    repeat' split at h
    all_goals (first | cases h | skip)
    all_goals exact ⟨rfl, rfl, rfl⟩
  | probe pid g k ns m =>
    simp only [step] at h
    repeat' split at h
    all_goals (first | cases h | skip)
    all_goals exact ⟨rfl, rfl, rfl⟩
  | pkeys pid k ns =>
    simp only [step] at h
    repeat' split at h
    all_goals (first | cases h | skip)
    all_goals exact ⟨rfl, rfl, rfl⟩
  | fail e => simp [step] at h
  | loadCssSpec url withs =>
    simp only [step] at h
    repeat' split at h
    all_goals (first | cases h | skip)
    all_goals exact ⟨rfl, rfl, rfl⟩

theorem evalStmts_keeps_cfg (sw : Switches) (loadF : LoadF) (n : Ident) :
    ∀ (ss : List Stmt), (∀ s ∈ ss, keepsCfg n s = true) → ∀ (env : Env) (base : List (Ident × Val)) (ex : Bool) (st : St)
      (env' : Env) (cfg' : Cfg), (evalStmts sw loadF ss env ⟨base, [], ex⟩ st).res = .ok (env', cfg') →
      cfg'.layers = [] ∧ cfg'.explicit = ex ∧ cfg'.base.lookup n = base.lookup n := by
  intro ss
  induction ss with
  | nil => intro _ env base ex st env' cfg' h; unfold evalStmts at h; cases h; exact ⟨rfl, rfl, rfl⟩
  | cons s rest ih =>
    intro hk env base ex st env' cfg' h
    simp only [evalStmts] at h
    cases hs : (step sw loadF s env ⟨base, [], ex⟩ st).res with
    | error e => simp only [hs] at h; cases h
    | ok r1 =>
      obtain ⟨env1, cfg1⟩ := r1
      simp only [hs] at h
      have h1 := step_keeps_cfg sw loadF n s (hk s (by simp)) env base ex st env1 cfg1 hs
      obtain ⟨b1, l1, e1⟩ := cfg1
      simp only at h1
      obtain ⟨hl, he, hb⟩ := h1
      subst hl he
      have := ih (fun s hs => hk s (by simp [hs])) env1 b1 e1 _ env' cfg' h
      exact ⟨this.1, this.2.1, this.2.2.trans hb⟩

/-- **`with` of a variable that is not configurable is an error.** If the `with` clause of a
    `@use` names `n`, and the module it loads (for the first time) has no `!default` declaration of
    `n` and no `@forward`, the `@use` fails — the variable may exist without `!default`, or not at
    all.  PARTIAL with respect to (5): modules that `@forward` (where the configuration is threaded
    on, possibly through prefix/show/hide views and further `with` clauses) are not covered; for
    those the code deviates (`C12_asFound_forward_with_unchecked`). -/
theorem C12_with_unknown_is_error_partial (sw : Switches) (proj : Project) (fuel : Nat) (url : Url) (ns : UseNs)
    (withs : List (Ident × Val)) (n : Ident) (env : Env) (cfg : Cfg) (st : St) (src : ModSrc)
    (hres : resolve proj url = some src) (hn : (withs.lookup n).isSome = true)
    (hbody : ∀ s ∈ src.body, keepsCfg n s = true) :
    ∃ e, (step sw (load sw proj (fuel + 1)) (.use url ns withs) env cfg st).res = .error e := by
  have hne : withs.isEmpty = false := by cases withs <;> simp_all
  simp only [step, hne, Bool.false_eq_true, if_false]
  cases hl : (load sw proj (fuel + 1) url ⟨withs, [], true⟩ st).res with
  | error e => exact ⟨e, rfl⟩
  | ok r =>
    obtain ⟨id, c1⟩ := r
    simp only
    have hc1 : c1.leftover = true := by
      revert hl
      simp only [load, hres]
      split
      · intro h; cases h
      · split
        · intro h; cases h
        · split
          · intro h; cases h; simp [Cfg.leftover, Cfg.isEmpty, layersEmpty, hne]
          · generalize ho : evalStmts sw (load sw proj fuel) src.body (Env.new src.name) ⟨withs, [], true⟩ _ = o
            cases hres' : o.res with
            | error e => intro h; cases h
            | ok r1 =>
              obtain ⟨env1, cfg1⟩ := r1
              intro h
              cases h
              have := evalStmts_keeps_cfg sw (load sw proj fuel) n src.body hbody (Env.new src.name) withs true _ env1 c1
                (by rw [ho]; exact hres')
              obtain ⟨b, l, e⟩ := c1
              simp only at this
              obtain ⟨hl', he', hb'⟩ := this
              subst hl' he'
              have hbne : b.isEmpty = false := by
                cases b with
                | nil => rw [← hb'] at hn; simp at hn
                | cons _ _ => rfl
              simp [Cfg.leftover, Cfg.isEmpty, layersEmpty, hbne]
    cases addModule sw env ns url.base id (load sw proj (fuel + 1) url ⟨withs, [], true⟩ st).st.mods with
    | error e => exact ⟨e, rfl⟩
    | ok env' => simp only [hc1, if_true]; exact ⟨_, rfl⟩

/-! ### … and through any chain of `@forward`s, with or without a `with` clause of their own -/

/-- **`with` of a variable that nothing can take is an error — unrestricted.**  If the `with`
    clause of a `@use` names `n` and `cannotConsume` holds — no module reachable from the used one
    through `@forward`s declares that variable with `!default` under the name it has there
    (translated through every `as p-*`; show/hide only make it less visible), where a
    `@forward … with (…)` on the way either sets the name itself (then the outer value is never
    used), or takes it with a `!default` entry / copies it into the new configuration (then the
    forwarded module must not be able to take it either) — then the `@use` fails: with the
    not-declared-with-`!default` error of the `@use` itself, of the `@forward … with` whose
    `!default` entry took the value, or with an earlier error of the modules being loaded.
    Holds for every switch setting in which a configuration stays explicit through `@forward`
    (e12a9ef), in particular for the code as it stands. -/
theorem C12_with_unknown_is_error (sw : Switches) (hsw : sw.fwdCfgImplicit = false) (proj : Project) (fuel d : Nat)
    (url : Url) (ns : UseNs) (withs : List (Ident × Val)) (n : Ident) (env : Env) (cfg : Cfg) (st : St)
    (hn : (withs.lookup n).isSome = true) (hc : cannotConsume proj d url (some n) = true) :
    ∃ e, (step sw (load sw proj fuel) (.use url ns withs) env cfg st).res = .error e := by
  have hne : withs.isEmpty = false := by cases withs <;> simp_all
  simp only [step, hne, Bool.false_eq_true, if_false]
  cases hl : (load sw proj fuel url ⟨withs, [], true⟩ st).res with
  | error e => exact ⟨e, rfl⟩
  | ok r =>
    obtain ⟨id, c1⟩ := r
    simp only
    have hk := load_keepsB sw hsw proj fuel d url ⟨withs, [], true⟩ st n (some n) id c1 rfl
      (by intro m hm; simp only [viaLayers] at hm; exact hm.symm ▸ rfl) hc hl
    have hc1 : c1.leftover = true := by
      obtain ⟨b, l, e⟩ := c1
      simp only at hk
      obtain ⟨hl', he', hb'⟩ := hk
      subst hl' he'
      have hbne : b.isEmpty = false := by
        cases b with
        | nil => rw [← hb'] at hn; simp at hn
        | cons _ _ => rfl
      simp [Cfg.leftover, Cfg.isEmpty, layersEmpty, hbne]
    cases addModule sw env ns url.base id (load sw proj fuel url ⟨withs, [], true⟩ st).st.mods with
    | error e => exact ⟨e, rfl⟩
    | ok env' => simp only [hc1, if_true]; exact ⟨_, rfl⟩

/-- for the code as it stands -/
theorem C12_with_unknown_is_error_now (proj : Project) (fuel d : Nat) (url : Url) (ns : UseNs)
    (withs : List (Ident × Val)) (n : Ident) (env : Env) (cfg : Cfg) (st : St)
    (hn : (withs.lookup n).isSome = true) (hc : cannotConsume proj d url (some n) = true) :
    ∃ e, (step .now (load .now proj fuel) (.use url ns withs) env cfg st).res = .error e :=
  C12_with_unknown_is_error .now rfl proj fuel d url ns withs n env cfg st hn hc


/-- **`with` after load is an error.** A `@use … with (…)` of a module that is already in the
    cache cannot configure it; the clause is left over and the rule fails (grass reports it with
    the text of the not-`!default` error; the specific "already loaded" message of dart-sass is
    commented out in `execute`, visitor.rs:564). -/
theorem C12_with_after_load_is_error (sw : Switches) (proj : Project) (fuel : Nat) (url : Url) (ns : UseNs)
    (withs : List (Ident × Val)) (env : Env) (cfg : Cfg) (st : St) (src : ModSrc) (id : Nat)
    (hres : resolve proj url = some src) (hloaded : findLoaded st.mods src.name = some id) (hw : withs ≠ []) :
    ∃ e, (step sw (load sw proj (fuel + 1)) (.use url ns withs) env cfg st).res = .error e := by
  have hne : withs.isEmpty = false := by cases withs <;> simp_all
  by_cases hp : src.parseError = true
  · exact ⟨.privateAccess, by simp [step, load, hres, hp]⟩
  · by_cases ha : st.active.contains src.name = true
    · exact ⟨.moduleLoop, by simp only [step, hne, load, hres, hp, ha]; simp⟩
    · have hl : load sw proj (fuel + 1) url ⟨withs, [], true⟩ st = ⟨st, .ok (id, ⟨withs, [], true⟩)⟩ := by
        simp only [load, hres, hp, ha, hloaded]; simp
      simp only [step, hne, Bool.false_eq_true, if_false, hl]
      cases addModule sw env ns url.base id st.mods with
      | error e => exact ⟨e, rfl⟩
      | ok env' =>
        have : (⟨withs, [], true⟩ : Cfg).leftover = true := by simp [Cfg.leftover, Cfg.isEmpty, layersEmpty, hne]
        simp only [this, if_true]; exact ⟨_, rfl⟩

private def srcA : ModSrc := (ModSrc.flat ['a'] false [.var ['x'] 1 true, .var ['y'] 2 false, .var ['z'] 3 true, .dbg, .css])

/-- Witness (the tree before the fix): under an outer configuration a `@forward … with` is never
    checked — `@use "mid" with ($x: 8)` where `mid` is `@forward "a" with ($zz: 7)` compiles although
    `a` has no `$zz`; the specified variant reports the error. -/
theorem C12_asFound_forward_with_unchecked :
    ∃ (proj : Project) (entry : Ident), proj.wf = true ∧
      resErr (run .beforeFixes proj entry).res = none ∧ resErr (run .spec proj entry).res = some .withNotDefault :=
  ⟨[srcA, (ModSrc.flat ['m'] false [.forward (Url.flat ['a'] false) ⟨none, .all⟩ [(['z', 'z'], 7, false)]]),
    (ModSrc.flat ['e'] false [.use (Url.flat ['m'] false) .dflt [(['x'], 8)]])], ['e'], by decide, by decide, by decide⟩

/-- Witnesses (the tree before the fixes): two inputs on which grass panics where the specified variant
    reports an ordinary error or compiles. -/
theorem C12_asFound_panics :
    ∃ (p1 p2 : Project) (entry : Ident),
      resErr (run .beforeFixes p1 entry).res = some .panic ∧ resErr (run .spec p1 entry).res = some .undefVar ∧
      resErr (run .beforeFixes p2 entry).res = some .panic ∧ resErr (run .spec p2 entry).res = none :=
  ⟨[srcA, (ModSrc.flat ['m'] false [.forward (Url.flat ['a'] false) ⟨none, .all⟩ []]),
     (ModSrc.flat ['e'] false [.use (Url.flat ['m'] false) .dflt [], .assign ['m'] ['n', 'o'] 5 false])],
   [srcA, (ModSrc.flat ['m'] false [.forward (Url.flat ['a'] false) ⟨some ['p', '-'], .all⟩ [(['z'], 7, true)]]),
     (ModSrc.flat ['e'] false [.use (Url.flat ['m'] false) .dflt [(['p', '-', 'x'], 8)]])],
   ['e'], by decide, by decide, by decide, by decide⟩

/-! ## (6) built-in modules and their global aliases -/

/-- **Alias sameness** (by construction of the tables regenerated from the Rust source on every
    run): a global name listed as an alias of `module.member` is implemented by the very same Rust
    function, so the two calls cannot differ. -/
theorem C12_builtin_alias_same (m f g : String) (h : g ∈ builtinAliases m f) :
    ∃ impl, moduleImpl m f = some impl ∧ (g, impl) ∈ Grass.Generated.globalTable := by
  unfold builtinAliases at h
  cases hm : moduleImpl m f with
  | none => simp [hm] at h
  | some impl =>
    simp only [hm, List.mem_map, List.mem_filter] at h
    obtain ⟨e, ⟨he, himpl⟩, hg⟩ := h
    refine ⟨impl, rfl, ?_⟩
    have : e = (g, impl) := by
      obtain ⟨a, b⟩ := e
      simp only at hg himpl
      simp_all
    rw [← this]; exact he

/-- Global names are unique in the table, so "the implementation of `g`" is well defined. -/
theorem C12_builtin_global_names_unique : (Grass.Generated.globalTable.map (·.1)).Nodup := by
  decide +kernel

example : "floor" ∈ builtinAliases "math" "floor" ∧ "map-get" ∈ builtinAliases "map" "get" ∧
    "adjust-color" ∈ builtinAliases "color" "adjust" ∧ builtinAliases "math" "clamp" = [] := by decide +kernel

/-! ## non-vacuity: the hypotheses are met by concrete non-trivial values -/

private def srcB : ModSrc := (ModSrc.flat ['b'] false [.use (Url.flat ['a'] false) .dflt [], .dbg, .css])
private def srcC : ModSrc := (ModSrc.flat ['c'] true [.use (Url.flat ['a'] false) (.named ['n']) [], .assign ['n'] ['y'] 9 false, .dbg, .css])
private def srcMain : ModSrc := (ModSrc.flat ['e'] false [.use (Url.flat ['b'] false) .dflt [], .use (Url.flat ['c'] true) .dflt [], .use (Url.flat ['a'] false) .star [], .dbg, .css,
   .probe 1 false .var none ['y']])
private def diamond : Project := [srcA, srcB, srcC, srcMain]

-- a diamond: `a` is loaded three times, evaluated once; the assignment made in `c` is seen in the entry
example : diamond.wf = true ∧ resErr (run .now diamond ['e']).res = none ∧
    (run .now diamond ['e']).st.entered = [['e'], ['b'], ['a'], ['c']] ∧
    cssOf (run .now diamond ['e']).st.trace = [['a'], ['b'], ['c'], ['e']] ∧
    (run .now diamond ['e']).st.trace.getLast? = some (.probe 1 (.val 9)) := by decide

-- the cache of the diamond has real dependency edges (b → a, c → a), all pointing backwards
example : (modAt (run .now diamond ['e']).st.mods 1).map (·.nss) = some [(['a'], 0)] ∧
    (modAt (run .now diamond ['e']).st.mods 2).map (·.nss) = some [(['n'], 0)] ∧
    (modAt (run .now diamond ['e']).st.mods 0).map (·.path) = some ['a'] := by decide

-- directories, load paths and canonicalisation: from `p/x`, `../a` is the literal path `p/x/../a`; it is the file `p/a`
-- only where canonicalize resolves `..`; `b` is found through the load path `p/lib` after the relative miss
private def mRootA : ModSrc := ⟨['a'], [['p'], ['a']], [.dbg, .css]⟩
private def mLibB : ModSrc := ⟨['b'], [['p'], ['l', 'i', 'b'], ['_', 'b']], [.dbg, .css]⟩
example : resolve [mRootA, mLibB] ⟨[['p'], ['x']], [['.', '.']], ['a'], false, false, [], true⟩ = some mRootA ∧
    resolve [mRootA, mLibB] ⟨[['p'], ['x']], [['.', '.']], ['a'], false, false, [], false⟩ = none ∧
    resolve [mRootA, mLibB] ⟨[['p'], ['x']], [], ['b'], false, false, [[['p'], ['l', 'i', 'b']]], false⟩ = some mLibB ∧
    resolve [mRootA, mLibB] ⟨[['p'], ['x']], [], ['b'], false, true, [[['p'], ['l', 'i', 'b']]], false⟩ = some mLibB ∧
    Project.pathsDistinct [mRootA, mLibB] = true := by decide

-- cycles of length 2 (through @use) and through @forward are errors
example : resErr (run .now [(ModSrc.flat ['a'] false [.use (Url.flat ['b'] false) .dflt []]), (ModSrc.flat ['b'] false [.use (Url.flat ['a'] false) .dflt []]),
    (ModSrc.flat ['e'] false [.use (Url.flat ['a'] false) .dflt []])] ['e']).res = some .moduleLoop := by decide
example : resErr (run .now [(ModSrc.flat ['a'] false [.forward (Url.flat ['e'] false) ⟨none, .all⟩ []]),
    (ModSrc.flat ['e'] false [.use (Url.flat ['a'] false) .dflt []])] ['e']).res = some .moduleLoop := by decide

-- C12_cycle_is_error: its hypotheses hold in the state in which `b` tries to load `a`
example : resolve [srcA, srcB] (Url.flat ['a'] false) = some srcA ∧ srcA.parseError = false ∧
    ['a'] ∈ (⟨[], [['b'], ['a'], ['e']], [], []⟩ : St).active := by decide

-- privacy: `$-p` is in the module, visible under no name; `$x` is
example : (scopeView .now .var [mA] 0).get ['-', 'p'] = none ∧
    (scopeView .now .var [mA] 0).get ['x'] = some ⟨0, ['x']⟩ ∧ isPrivate (norm ['_', 'p']) = true := by decide

-- C12_namespace_assignment_shared: two users (namespaces `n` and `a`, one of them through a prefixed forward) denote
-- the same member `$y` of module 0; and C12_with_after_load / _unknown hypotheses are met by `srcA`
example : (scopeView .now .var [⟨['m'], [], [], [], [⟨⟨some ['p', '-'], .all⟩, 0⟩], [], []⟩, mA] 1).get ['p', '-', 'y'] = some ⟨0, ['y']⟩ ∧
    (scopeView .now .var [⟨['m'], [], [], [], [⟨⟨some ['p', '-'], .all⟩, 0⟩], [], []⟩, mA] 0).get ['y'] = some ⟨0, ['y']⟩ ∧
    ([(['n'], 1)] : List (Ident × Nat)).lookup ['n'] = some 1 ∧ ([(['a'], 0)] : List (Ident × Nat)).lookup ['a'] = some 0 := by decide
example : resolve [srcA] (Url.flat ['a'] false) = some srcA ∧ findLoaded [mA] ['a'] = some 0 ∧
    (([(['y'], 8)] : List (Ident × Val)).lookup ['y']).isSome = true := by decide

-- forward view: prefix and show list naming the prefixed name
example : (forwardedMap .spec .var ⟨some ['p', '-'], .allow [['p', '-', 'x']] []⟩ (scopeView .spec .var [mA] 0)).get ['p', '-', 'x']
      = some ⟨0, ['x']⟩ ∧
    (forwardedMap .spec .var ⟨some ['p', '-'], .allow [['p', '-', 'x']] []⟩ (scopeView .spec .var [mA] 0)).get ['p', '-', 'y'] = none ∧
    (forwardedMap .spec .var ⟨some ['p', '-'], .allow [['x']] []⟩ (scopeView .spec .var [mA] 0)).get ['p', '-', 'x'] = none := by decide

-- configuration: ok for `!default`, error for a plain variable, for an unknown one and after load
example : (run .now [srcA, (ModSrc.flat ['e'] false [.use (Url.flat ['a'] false) .dflt [(['x'], 8)], .probe 1 false .var (some ['a']) ['x']])] ['e']).st.trace.getLast?
    = some (.probe 1 (.val 8)) := by decide
example : resErr (run .now [srcA, (ModSrc.flat ['e'] false [.use (Url.flat ['a'] false) .dflt [(['y'], 8)]])] ['e']).res = some .withNotDefault := by decide
example : resErr (run .now [srcA, (ModSrc.flat ['e'] false [.use (Url.flat ['a'] false) .dflt [(['q'], 8)]])] ['e']).res = some .withNotDefault := by decide
example : resErr (run .now [srcA, (ModSrc.flat ['e'] false [.use (Url.flat ['a'] false) .dflt [], .use (Url.flat ['a'] false) (.named ['n']) [(['x'], 8)]])] ['e']).res
    = some .withNotDefault := by decide
example : ∀ s ∈ srcA.body, keepsCfg ['y'] s = true := by decide

-- C12_with_unknown_is_error: `$p-y` reaches `a` as `$y` through `@forward "a" as p-*` (and through
-- a second forwarder); `a` declares `$y` without `!default`, so nothing can take it — and the compilation fails
private def srcMidP : ModSrc := (ModSrc.flat ['m'] false [.forward (Url.flat ['a'] false) ⟨some ['p', '-'], .all⟩ []])
private def srcTop : ModSrc := (ModSrc.flat ['t'] false [.forward (Url.flat ['m'] false) ⟨none, .hide [['p', '-', 'x']] []⟩ []])
example : cannotConsume [srcA, srcMidP, srcTop] 3 (Url.flat ['t'] false) (some ['p', '-', 'y']) = true ∧
    cannotConsume [srcA, srcMidP, srcTop] 3 (Url.flat ['t'] false) (some ['p', '-', 'z']) = false ∧
    resErr (run .now [srcA, srcMidP, srcTop, (ModSrc.flat ['e'] false [.use (Url.flat ['t'] false) .dflt [(['p', '-', 'y'], 8)]])] ['e']).res
      = some .withNotDefault ∧
    resErr (run .now [srcA, srcMidP, srcTop, (ModSrc.flat ['e'] false [.use (Url.flat ['t'] false) .dflt [(['p', '-', 'z'], 8)]])] ['e']).res
      = none := by decide

-- only nested `!default` declarations of `$x` (a style rule, a mixin called while loading): `with ($x: …)` is rejected;
-- with a top-level one beside them it is accepted and the nested declaration sees the configured value
private def srcTheme (top : Bool) : ModSrc :=
  ModSrc.flat ['t'] false ((if top then [.var ['x'] 1 true] else []) ++ [.nested 1 0 ['x'] 2, .nested 2 3 ['x'] 3, .dbg, .css])
example : cannotConsume [srcTheme false] 1 (Url.flat ['t'] false) (some ['x']) = true ∧
    resErr (run .now [srcTheme false, ModSrc.flat ['e'] false [.use (Url.flat ['t'] false) .dflt [(['x'], 8)]]] ['e']).res
      = some .withNotDefault ∧
    (run .now [srcTheme false, ModSrc.flat ['e'] false [.use (Url.flat ['t'] false) .dflt []]] ['e']).st.trace.take 2
      = [.probe 1 (.val 2), .probe 2 (.val 3)] ∧
    (run .now [srcTheme true, ModSrc.flat ['e'] false [.use (Url.flat ['t'] false) .dflt [(['x'], 8)]]] ['e']).st.trace.take 2
      = [.probe 1 (.val 8), .probe 2 (.val 8)] := by decide

-- … and through `@forward … with`: `a` has `$x`, `$z` with `!default` and a plain `$y`.
--   with ($y: 7 !default) takes the outer `$y`, `a` cannot: error at the @forward;  with ($x: 7) sets `$x` itself, so an
--   outer `$x` is never used: error at the @use;  an outer `$z` is copied through and taken by `a`: fine.
private def srcFw (ws : List (Ident × Val × Bool)) : ModSrc := (ModSrc.flat ['m'] false [.forward (Url.flat ['a'] false) ⟨none, .all⟩ ws])
example : cannotConsume [srcA, srcFw [(['y'], 7, true)]] 2 (Url.flat ['m'] false) (some ['y']) = true ∧
    resErr (run .now [srcA, srcFw [(['y'], 7, true)], (ModSrc.flat ['e'] false [.use (Url.flat ['m'] false) .dflt [(['y'], 8)]])] ['e']).res
      = some .withNotDefault ∧
    cannotConsume [srcA, srcFw [(['x'], 7, false)]] 2 (Url.flat ['m'] false) (some ['x']) = true ∧
    resErr (run .now [srcA, srcFw [(['x'], 7, false)], (ModSrc.flat ['e'] false [.use (Url.flat ['m'] false) .dflt [(['x'], 8)]])] ['e']).res
      = some .withNotDefault ∧
    cannotConsume [srcA, srcFw [(['x'], 7, false)]] 2 (Url.flat ['m'] false) (some ['z']) = false ∧
    resErr (run .now [srcA, srcFw [(['x'], 7, false)], (ModSrc.flat ['e'] false [.use (Url.flat ['m'] false) .dflt [(['z'], 8)]])] ['e']).res
      = none := by decide

end Grass.Module

/-! ## @import of plain sheets and meta.load-css (round 3)

  `runX` = `run` on the project after inclusion (`expandProj`), so (1)–(7) above hold for projects
  with `@import` / `load-css` as well; stated here for the entry points the driver uses. -/

namespace Grass.Module

/-- **Loads once, with `@import` and `load-css`.** However often sheets are included, and for both
    variants of `load-css`, no module starts evaluation twice. -/
theorem C12_x_loads_once (xsw : XSwitches) (xp : XProject) (entry : Ident) :
    (runX xsw xp entry).st.entered.Nodup := by
  unfold runX
  split
  · exact C12_loads_once _ _ _
  · exact List.nodup_nil

/-- **CSS once, with `@import` and `load-css`** (`wf` of the included project: the driver checks it). -/
theorem C12_x_once_holds (xsw : XSwitches) (xp : XProject) (entry : Ident)
    (hwf : (expandProj xsw.loadCssIsImport xp).wf = true) :
    onceOK (runX xsw xp entry).st.entered (cssOf (runX xsw xp entry).st.trace) = true := by
  unfold runX
  split
  · exact C12_once_holds _ _ _ hwf
  · decide

theorem C12_x_fuel_suffices (xsw : XSwitches) (xp : XProject) (entry : Ident) :
    (runX xsw xp entry).res ≠ .error .outOfFuel := by
  unfold runX
  split
  · exact C12_fuel_suffices _ _ _
  · simp

/-- **`@import` is inclusion.** An `@import` that resolves to a plain sheet (no `@use`/`@forward`,
    no syntax error, not being imported already) stands for the statements of that sheet, with the
    sheet pushed on the import stack. -/
theorem C12_import_is_inclusion (asFound : Bool) (xp : XProject) (fuel : Nat) (stack : List Ident) (u : Url) (f : XSrc)
    (hres : resolveX xp u = some f) (hparse : f.parseError = false) (hstack : stack.contains f.name = false)
    (hsheet : f.sheet = true) (hok : f.body.all sheetStmtOK = true) (hplain : f.body.any XStmt.isLoad = false) :
    expandStmts asFound xp (fuel + 1) stack [.imp u] = expandStmts asFound xp fuel (f.name :: stack) f.body := by
  simp only [expandStmts, List.flatMap_cons, List.flatMap_nil, List.append_nil, hres, hparse, hstack, hsheet, hok, hplain,
    Bool.not_true, Bool.or_self, Bool.or_false, Bool.false_eq_true, if_false]

/-- **Import cycles are errors.** An `@import` of a sheet that is being imported is the error
    `importLoop` ("This file is already being loaded.") at that point: nothing of it is evaluated,
    and the statements after it are not reached. -/
theorem C12_import_cycle_is_error (sw : Switches) (loadF : LoadF) (asFound : Bool) (xp : XProject) (fuel : Nat)
    (stack : List Ident) (u : Url) (f : XSrc) (rest : List XStmt) (env : Env) (cfg : Cfg) (st : St)
    (hres : resolveX xp u = some f) (hparse : f.parseError = false) (hstack : stack.contains f.name = true) :
    evalStmts sw loadF (expandStmts asFound xp (fuel + 1) stack (.imp u :: rest)) env cfg st
      = ⟨st, .error .importLoop⟩ := by
  simp only [expandStmts, List.flatMap_cons, hres, hparse, hstack, Bool.false_eq_true, if_false, if_true,
    List.singleton_append, List.cons_append, List.nil_append, evalStmts, step, ImpErr.toErr]

/-- **`load-css` as specified exposes nothing.** Whatever the loaded module declares, forwards or
    uses, the environment (variables, functions, mixins, namespaces, `as *` modules, forwards) and
    the configuration of the caller are unchanged. -/
theorem C12_loadcss_spec_no_leak (sw : Switches) (loadF : LoadF) (url : Url) (withs : List (Ident × Val))
    (env env' : Env) (cfg cfg' : Cfg) (st : St)
    (h : (step sw loadF (.loadCssSpec url withs) env cfg st).res = .ok (env', cfg')) : env' = env ∧ cfg' = cfg := by
  simp only [step] at h
  repeat' split at h
  all_goals (first | cases h | skip)
  all_goals exact ⟨rfl, rfl⟩

/-- **`load-css` as specified loads like `@use … with`.** Same loader call (same cache, same active
    set, same configuration), hence the same shared state afterwards; and it fails whenever the
    `@use` would fail for a reason other than its namespace (`$with` naming a variable that is not
    `!default`, unknown, or of a module already loaded; a module loop; a missing file). -/
theorem C12_loadcss_spec_like_use (sw : Switches) (loadF : LoadF) (url : Url) (ns : UseNs) (withs : List (Ident × Val))
    (env : Env) (cfg : Cfg) (st : St) :
    (step sw loadF (.loadCssSpec url withs) env cfg st).st = (step sw loadF (.use url ns withs) env cfg st).st ∧
    (∀ r, (step sw loadF (.use url ns withs) env cfg st).res = .ok r →
      (step sw loadF (.loadCssSpec url withs) env cfg st).res = .ok (env, cfg)) := by
  simp only [step]
  generalize (if withs.isEmpty = true then Cfg.empty else ({ base := withs, layers := [], explicit := true } : Cfg)) = c0
  cases hr : (loadF url c0 st).res with
  | error e => exact ⟨rfl, by intro r h; cases h⟩
  | ok r =>
    obtain ⟨id, c1⟩ := r
    simp only
    cases addModule sw env ns url.base id (loadF url c0 st).st.mods with
    | error e =>
      refine ⟨?_, by intro r h; cases h⟩
      split <;> rfl
    | ok env' =>
      simp only
      split
      · exact ⟨rfl, by intro r h; cases h⟩
      · exact ⟨rfl, fun _ _ => rfl⟩

/-- **`load-css` as specified cannot configure a loaded module**: `$with` for a sheet that is
    already in the cache is an error, as for `@use` (`C12_with_after_load_is_error`). -/
theorem C12_loadcss_spec_with_after_load_is_error (sw : Switches) (proj : Project) (fuel : Nat) (url : Url)
    (withs : List (Ident × Val)) (env : Env) (cfg : Cfg) (st : St) (src : ModSrc) (id : Nat)
    (hres : resolve proj url = some src) (hloaded : findLoaded st.mods src.name = some id) (hw : withs ≠ []) :
    ∃ e, (step sw (load sw proj (fuel + 1)) (.loadCssSpec url withs) env cfg st).res = .error e := by
  have hne : withs.isEmpty = false := by cases withs <;> simp_all
  by_cases hp : src.parseError = true
  · exact ⟨.privateAccess, by simp [step, load, hres, hp]⟩
  · by_cases ha : st.active.contains src.name = true
    · exact ⟨.moduleLoop, by simp only [step, hne, load, hres, hp, ha]; simp⟩
    · have hl : load sw proj (fuel + 1) url ⟨withs, [], true⟩ st = ⟨st, .ok (id, ⟨withs, [], true⟩)⟩ := by
        simp only [load, hres, hp, ha, hloaded]; simp
      have : (⟨withs, [], true⟩ : Cfg).leftover = true := by simp [Cfg.leftover, Cfg.isEmpty, layersEmpty, hne]
      simp only [step, hne, Bool.false_eq_true, if_false, hl, this, if_true]
      exact ⟨_, rfl⟩

private def xB : XSrc := ⟨['b'], [['b']], false, [.base (.var ['x'] 1 true), .base .dbg, .base .css]⟩
/-- sheet `s`: `@use "b"; $y: 5 !default; p7 { r: $y }` -/
private def xS : XSrc := ⟨['s'], [['s']], true,
  [.base (.use (Url.flat ['b'] false) .dflt []), .base (.var ['y'] 5 true), .base (.probe 7 false .var none ['y'])]⟩
private def xMain (body : List XStmt) : XSrc := ⟨['e'], [['e']], false, body⟩
private def lc (w : List (Ident × Val)) : XStmt := .loadCss (Url.flat ['s'] false) w

/-- Witnesses of known finding C12-loadCssIsImport (meta.rs:70).  As found, `load-css`
    (1) makes the members of the sheet visible to the caller (`$y` readable after the call; as
    specified: undefined variable), (2) adds the namespaces of the sheet's `@use` rules to the caller,
    so a second `load-css` of the same sheet fails with `nsExists` (as specified: fine, nothing is
    evaluated again), (3) ignores `$with` (`$y` stays 5; as specified a `!default` variable takes the
    configured value — and a `$with` naming nothing configurable is an error). -/
theorem C12_asFound_loadcss_is_import :
    (resErr (runX .now [xB, xS, xMain [lc [], .base (.probe 1 false .var none ['y'])]] ['e']).res = none ∧
      resErr (runX .spec [xB, xS, xMain [lc [], .base (.probe 1 false .var none ['y'])]] ['e']).res = some .undefVar) ∧
    (resErr (runX .now [xB, xS, xMain [lc [], lc []]] ['e']).res = some .nsExists ∧
      resErr (runX .spec [xB, xS, xMain [lc [], lc []]] ['e']).res = none ∧
      (runX .spec [xB, xS, xMain [lc [], lc []]] ['e']).st.entered = [['e'], ['s'], ['b']]) ∧
    ((runX .now [xB, xS, xMain [lc [(['y'], 9)]]] ['e']).st.trace.getLast? = some (.probe 7 (.val 5)) ∧
      (runX .spec [xB, xS, xMain [lc [(['y'], 9)]]] ['e']).st.trace.getLast? = some (.probe 7 (.val 9)) ∧
      resErr (runX .now [xB, xS, xMain [lc [(['q'], 9)]]] ['e']).res = none ∧
      resErr (runX .spec [xB, xS, xMain [lc [(['q'], 9)]]] ['e']).res = some .withNotDefault) := by
  refine ⟨⟨?_, ?_⟩, ⟨?_, ?_, ?_⟩, ⟨?_, ?_, ?_, ?_⟩⟩ <;> decide

-- non-vacuity: an import that is an inclusion, an import cycle, a load-css (specified) that succeeds
private def xT : XSrc := ⟨['t'], [['t']], true, [.base (.var ['z'] 3 false), .imp (Url.flat ['t'] false)]⟩
example : resolveX [xB, xT] (Url.flat ['t'] false) = some xT ∧ xT.parseError = false ∧ xT.sheet = true ∧
    xT.body.all sheetStmtOK = true ∧ xT.body.any XStmt.isLoad = false ∧ ([['e']] : List Ident).contains xT.name = false ∧
    ([['t'], ['e']] : List Ident).contains xT.name = true := by decide
example : resErr (runX .now [xB, xT, xMain [.imp (Url.flat ['t'] false)]] ['e']).res = some .importLoop ∧
    (XProject.ok [xB, xS, xMain [lc []]]) = true ∧ (expandProj true [xB, xS, xMain [lc []]]).wf = true := by decide
example : resErr (step .spec (load .spec (expandProj false [xB, xS, xMain []]) 4) (.loadCssSpec (Url.flat ['s'] false) [(['y'], 9)])
    (Env.new ['e']) Cfg.empty ⟨[], [['e']], [['e']], []⟩).res = none := by decide

/-- **Private members are not listed.** `meta.module-variables` / `meta.module-functions` (the
    `pkeys` statement) never report a private name, whatever the module declares or forwards. -/
theorem C12_private_not_in_module_keys (sw : Switches) (loadF : LoadF) (pid : Nat) (k : Kind) (ns : Ident) (env : Env)
    (cfg : Cfg) (st : St) (ks : List Ident)
    (h : (step sw loadF (.pkeys pid k ns) env cfg st).st.trace.getLast? = some (.probe pid (.keys ks)))
    (hok : resErr (step sw loadF (.pkeys pid k ns) env cfg st).res = none) :
    ∀ n ∈ ks, isPrivate n = false := by
  cases hl : env.nss.lookup ns with
  | none => simp [step, hl, resErr] at hok
  | some id =>
    simp only [step, hl, St.emit, List.getLast?_append, List.getLast?_singleton, Option.some_or, Option.some.injEq,
      Event.probe.injEq, PRes.keys.injEq, true_and] at h
    intro n hn
    rw [← h] at hn
    simpa using (List.mem_filter.mp hn).2

example : (step .now (fun _ _ st => ⟨st, .error .notFound⟩) (.pkeys 1 .var ['a']) { Env.new ['e'] with nss := [(['a'], 0)] } Cfg.empty
    ⟨[⟨['a'], [(['x'], 1), (['-', 'p'], 2)], [], [], [], [], []⟩], [['e']], [['e']], []⟩).st.trace.getLast?
    = some (.probe 1 (.keys [['x']])) := by decide

end Grass.Module
