import Grass.Extend
import GrassProofs.Lemmas.SelSem
import GrassProofs.Lemmas.SelWalk
import GrassProofs.Lemmas.ExtSem
import GrassProofs.Lemmas.ExtComplex
import GrassProofs.Lemmas.ExtChain
import GrassProofs.Lemmas.ExtWeave
import GrassProofs.C11
/-
  C10 — @extend makes extenders match wherever the target matched, nothing else.

  Theorems are about the specified variant (`Switches.spec`); the as-found switches only appear in
  the `C10_asFound_…` witnesses.  PARTIAL: the theorems cover selectors without selector pseudos and
  extenders that are (lists of) single compounds, applied once or as a chain of re-extensions
  (`C10_extend_chain_n`).  `weave`/`unify_complex` for complex extenders are modelled (`weaveTop`,
  `runX`) and compared with grass, but their soundness is open (`C10_weave_sound_full`);
  `extend_existing_extensions` is modelled in `runX` (chains/cycles of single-compound extenders as whole
  stylesheets, compared as text with grass); `extend_pseudo` is not modelled (`C10_full` below stays open) —
  it is covered by the semantic search on the implementation only.
-/
namespace Grass.Extend
open Grass.Selector

/-- The full property (open): for an arbitrary stylesheet, every rule's final selector matches
    exactly (single-compound extenders) / at most (complex extenders) the credited original. -/
def C10_full : Prop :=
  ∀ (items : List Item) (outs : List SelList), run Switches.spec items = .ok outs →
    ∀ (k : Nat) (S O : SelList) (p : Ctx),
      (items.filterMap fun | .rule s _ => some s | _ => none)[k]? = some S → outs[k]? = some O →
      (matchesList O p = true → cList (creditN (extPairs items) (extPairs items).length.succ) S p = true)

def mF (l : List Flagged) (p : Ctx) : Bool := l.any fun x => matchesComplex x.1 p

theorem pullOut_sem (c1 : Complex) (p : Ctx) :
    ∀ (n : Nat) (result : List Flagged) (f : Flagged) (rest : List Flagged),
      pullOut c1 n result = some (f, rest) → f.1 = c1 ∧ mF (f :: rest) p = mF result p := by
  intro n
  induction n with
  | zero => intro result f rest h; simp [pullOut] at h
  | succ n ih =>
    intro result f rest h
    cases result with
    | nil => simp [pullOut] at h
    | cons r rs =>
      unfold pullOut at h
      split at h
      · rename_i hr
        injection h with h; injection h with h1 h2; subst h1 h2
        exact ⟨hr, rfl⟩
      · split at h
        · rename_i f' rest' hp
          injection h with h; injection h with h1 h2; subst h1 h2
          obtain ⟨e, hm⟩ := ih rs f' rest' hp
          refine ⟨e, ?_⟩
          simp only [mF, List.any_cons] at hm ⊢
          rw [← hm]
          cases matchesComplex f'.1 p <;> cases matchesComplex r.1 p <;> simp
        · cases h

theorem trimGo_sem (sup : Complex → Complex → Bool) (srcSpec : Simple → Nat) (p : Ctx)
    (hsup : ∀ a b, sup a b = true → matchesComplex b p = true → matchesComplex a p = true) :
    ∀ (rest result : List Flagged) (n : Nat),
      mF (trimGo sup srcSpec rest result n) p = (mF rest p || mF result p) := by
  intro rest
  induction rest with
  | nil => intro result n; simp [trimGo, mF]
  | cons x earlier ih =>
    intro result n
    obtain ⟨c1, fl⟩ := x
    cases fl with
    | true =>
      unfold trimGo
      split
      · rename_i f rest' hp
        obtain ⟨e, hm⟩ := pullOut_sem c1 p n result f rest' hp
        rw [ih, hm]
        have : matchesComplex c1 p = true → mF result p = true := by
          intro hc
          rw [← hm]; simp [mF, e, hc]
        simp only [mF, List.any_cons] at this ⊢
        cases hc : matchesComplex c1 p <;> simp_all
      · rw [ih]
        simp only [mF, List.any_cons]
        cases matchesComplex c1 p <;> cases List.any earlier _ <;> simp
    | false =>
      unfold trimGo
      simp only
      split
      · rename_i hcov
        rw [ih]
        have hc : matchesComplex c1 p = true → (mF earlier p || mF result p) = true := by
          intro hm
          simp only [Bool.or_eq_true, List.any_eq_true, Bool.and_eq_true] at hcov
          rcases hcov with ⟨c2, h2, _, hs⟩ | ⟨c2, h2, _, hs⟩
          · have := hsup _ _ hs hm
            simp only [mF, Bool.or_eq_true, List.any_eq_true]
            exact Or.inr ⟨c2, h2, this⟩
          · have := hsup _ _ hs hm
            simp only [mF, Bool.or_eq_true, List.any_eq_true]
            exact Or.inl ⟨c2, h2, this⟩
        simp only [mF, List.any_cons] at hc ⊢
        cases hm : matchesComplex c1 p <;> simp_all
      · rw [ih]
        simp only [mF, List.any_cons]
        cases matchesComplex c1 p <;> cases List.any earlier _ <;> simp

/-- **trim keeps the set of matched elements**: whatever `trim` (mod.rs:775) drops is covered by
    what it keeps, provided the superselector test it uses is sound. -/
theorem C10_trim_preserves_matches (sup : Complex → Complex → Bool) (srcSpec : Simple → Nat)
    (sels : List Flagged) (p : Ctx)
    (hsup : ∀ a b, sup a b = true → matchesComplex b p = true → matchesComplex a p = true) :
    matchesList ((trim sup srcSpec sels).map (·.1)) p = matchesList (sels.map (·.1)) p := by
  have key : mF (trim sup srcSpec sels) p = mF sels p := by
    unfold trim
    split
    · rfl
    · rw [trimGo_sem sup srcSpec p hsup]
      simp [mF]
  simpa [mF, matchesList, List.any_map, Function.comp_def] using key

/-- … in particular with the specified superselector walk (sound by C11) -/
theorem C10_trim_preserves_matches_spec (srcSpec : Simple → Nat) (sels : List Flagged) (p : Ctx) :
    matchesList ((trim (isSuperComplex0 false) srcSpec sels).map (·.1)) p = matchesList (sels.map (·.1)) p :=
  C10_trim_preserves_matches _ srcSpec sels p (fun a b h hb => isSuperComplex0_sound a b p h hb)


/-! ### the extension of one compound by one extension `E → T` -/

/-- **compound level**: the alternatives `extend_compound` (mod.rs:355) produces for a compound
    match exactly the elements the compound matches once elements matched by `E` are credited
    with `T` — this uses both directions of C11's `unifyCompound` theorems (`unify` is exact, and
    `none` only for empty intersections) and the soundness of `trim`. -/
theorem C10_extendCompound_iff (sw : Switches) (hsw : sw.supAsFound = false) (e : Ext) (all : List Ext) (hE : e.extender ≠ [])
    (m : Option Nat) (inO : Bool) (c : Compound) (p : Ctx) :
    match extendCompound sw [e] all m inO c with
    | .ok (some alts) => alts.any (matchesComplex · p) = credC e.extender e.target c p
    | .ok none => credC e.extender e.target c p = mComp c p
    | .error _ => True := by
  generalize hr : extendCompound sw [e] all m inO c = r
  unfold extendCompound at hr
  have hb := buildOptions_sem e p c [] none
  have hne := buildOptions_ne e hE c [] none (by intro v hv; cases hv)
  cases hbo : buildOptions [e] [] c none with
  | none =>
    rw [hbo] at hb hr
    simp only at hr; subst hr
    exact hb.2
  | some options =>
    rw [hbo] at hb hr
    simp only [mComp, Bool.true_and] at hb
    have hne := hne options hbo
    simp only at hr
    split at hr
    · rename_i single
      split at hr
      · subst hr
        simp only [List.any_map, Function.comp_def, matchesComplex_single]
        rw [← hb]; simp [optSem]
      · subst hr; trivial
    · split at hr
      · rename_i hp
        exact absurd hp (paths_ne_nil options (fun ch hch => (hne ch hch).1))
      · rename_i first others hp
        split at hr
        · subst hr
          simp only
          have htrim := C10_trim_preserves_matches (isSuperComplex0 sw.supAsFound) (srcSpecOf all)
            (([Component.compound (first.flatMap (·.comp))], inO) ::
              (others.filterMap fun q => (unifyPath q).map fun u => (q, u)).map fun pu => ([Component.compound pu.2], false)) p
            (by intro a b h hb'; rw [hsw] at h; exact isSuperComplex0_sound a b p h hb')
          simp only [matchesList] at htrim
          rw [htrim]
          simp only [List.map_cons, List.any_cons, List.map_map, List.any_map, Function.comp_def, matchesComplex_single]
          have hmem : ∀ path ∈ others, (∀ o ∈ path, o.comp ≠ []) ∧ path ≠ [] := by
            intro path hpath
            have hin : path ∈ paths options := by rw [hp]; simp [hpath]
            refine ⟨paths_mem (fun o => o.comp ≠ []) options (fun ch hch => (hne ch hch).2) path hin, ?_⟩
            have hl := paths_length options path hin
            intro hnil; rw [hnil] at hl
            cases options with
            | nil => simp [paths] at hp; rw [hp.2] at hpath; simp at hpath
            | cons _ _ => simp at hl
          rw [filterMap_unify_any others p hmem, mComp_flatMap]
          have := paths_any_all (fun (o : Opt) => mComp o.comp p) options
          rw [hp] at this
          simp only [List.any_cons] at this
          rw [this, ← hb]; rfl
        · subst hr; trivial

/-! ### from compounds to complex selectors and lists -/

/-- the alternatives `extend_complex` uses at one compound position -/
def altsOf (sw : Switches) (e : Ext) (all : List Ext) (m : Option Nat) (io : Bool) (c : Compound) : Except XErr (List Complex × Bool) :=
  match extendCompound sw [e] all m io c with
  | .error er => .error er
  | .ok none => .ok ([[.compound c]], false)
  | .ok (some ext) => .ok (ext, true)

theorem extendCompound_shape (sw : Switches) (e : Ext) (all : List Ext) (m : Option Nat) (io : Bool) (c : Compound) (alts : List Complex)
    (h : extendCompound sw [e] all m io c = .ok (some alts)) : ∀ a ∈ alts, ∃ u, a = [Component.compound u] := by
  unfold extendCompound at h
  split at h
  · cases h
  · split at h
    · split at h
      · injection h with h; injection h with h; subst h
        intro a ha; simp only [List.mem_map] at ha; obtain ⟨o, _, rfl⟩ := ha; exact ⟨_, rfl⟩
      · cases h
    · split at h
      · injection h with h; injection h with h; subst h; intro a ha; simp at ha
      · simp only at h
        split at h
        · injection h with h; injection h with h; subst h
          intro a ha
          simp only [List.mem_map] at ha
          obtain ⟨x, hx, rfl⟩ := ha
          have := trim_mem _ _ _ x hx
          rcases List.mem_cons.1 this with e1 | h2
          · subst e1; exact ⟨_, rfl⟩
          · simp only [List.mem_map] at h2; obtain ⟨pu, _, rfl⟩ := h2; exact ⟨_, rfl⟩
        · cases h

theorem altsOf_sem (sw : Switches) (hsw : sw.supAsFound = false) (e : Ext) (all : List Ext) (hE : e.extender ≠ [])
    (m : Option Nat) (io : Bool) (c : Compound) (alts : List Complex) (b : Bool)
    (h : altsOf sw e all m io c = .ok (alts, b)) :
    (∀ a ∈ alts, ∃ u, a = [Component.compound u]) ∧
    (∀ q, alts.any (matchesComplex · q) = credC e.extender e.target c q) ∧
    (b = false → alts = [[.compound c]]) := by
  unfold altsOf at h
  cases hx : extendCompound sw [e] all m io c with
  | error er => rw [hx] at h; cases h
  | ok r =>
    rw [hx] at h
    cases r with
    | none =>
      simp only at h
      injection h with h; injection h with h1 h2; subst h1 h2
      refine ⟨by intro a ha; simp only [List.mem_singleton] at ha; exact ⟨c, ha⟩, ?_, fun _ => rfl⟩
      intro q
      have := C10_extendCompound_iff sw hsw e all hE m io c q
      rw [hx] at this
      simp only at this
      simp [matchesComplex_single, this]
    | some ext =>
      simp only at h
      injection h with h; injection h with h1 h2; subst h1 h2
      refine ⟨extendCompound_shape sw e all m io c ext hx, ?_, by intro hh; cases hh⟩
      intro q
      have := C10_extendCompound_iff sw hsw e all hE m io c q
      rw [hx] at this
      exact this

theorem complexChoices_cons_compound (sw : Switches) (e : Ext) (all : List Ext) (m : Option Nat) (io : Bool) (c : Compound)
    (rest : Complex) (chs : List (List Complex)) (any : Bool)
    (h : complexChoices sw [e] all m io (.compound c :: rest) = .ok (chs, any)) :
    ∃ alts b chs' any', altsOf sw e all m io c = .ok (alts, b) ∧ complexChoices sw [e] all m io rest = .ok (chs', any') ∧
      chs = alts :: chs' ∧ any = (b || any') := by
  unfold complexChoices at h
  unfold altsOf
  cases hx : extendCompound sw [e] all m io c with
  | error er => rw [hx] at h; simp at h
  | ok r =>
    rw [hx] at h
    cases hr : complexChoices sw [e] all m io rest with
    | error er => rw [hr] at h; cases r <;> simp at h
    | ok v =>
      obtain ⟨chs', any'⟩ := v
      rw [hr] at h
      cases r with
      | none =>
        simp only at h
        injection h with h; injection h with h1 h2; subst h1 h2
        exact ⟨_, _, _, _, rfl, rfl, rfl, by simp⟩
      | some ext =>
        simp only at h
        injection h with h; injection h with h1 h2; subst h1 h2
        exact ⟨_, _, _, _, rfl, rfl, rfl, by simp⟩

theorem complexChoices_cons_comb (sw : Switches) (e : Ext) (all : List Ext) (m : Option Nat) (io : Bool) (cb : Comb)
    (rest : Complex) (chs : List (List Complex)) (any : Bool)
    (h : complexChoices sw [e] all m io (.comb cb :: rest) = .ok (chs, any)) :
    ∃ chs', complexChoices sw [e] all m io rest = .ok (chs', any) ∧ chs = [[.comb cb]] :: chs' := by
  unfold complexChoices at h
  cases hr : complexChoices sw [e] all m io rest with
  | error er => rw [hr] at h; simp at h
  | ok v =>
    obtain ⟨chs', any'⟩ := v
    rw [hr] at h
    simp only at h
    injection h with h; injection h with h1 h2; subst h1 h2
    exact ⟨_, rfl, rfl⟩

/-- **complex level** (anchored form): some choice of alternatives matches with its leftmost compound
    at `q` iff the original complex matches there with credited compounds -/
theorem complexChoices_sem (sw : Switches) (hsw : sw.supAsFound = false) (e : Ext) (all : List Ext) (hE : e.extender ≠ [])
    (m : Option Nat) (io : Bool) :
    ∀ (n : Nat) (X : Complex), X.length ≤ n → ∀ (chs : List (List Complex)) (any : Bool),
      complexChoices sw [e] all m io X = .ok (chs, any) →
      (∀ q p, (∃ path, Pick path chs ∧ GLX mComp (path.flatMap id) q p) ↔ GLX (credC e.extender e.target) X q p) ∧
      (any = false → chs = X.map fun cp => [[cp]]) := by
  intro n
  induction n with
  | zero =>
    intro X hl chs any h
    have : X = [] := List.eq_nil_of_length_eq_zero (Nat.le_zero.1 hl)
    subst this
    simp only [complexChoices] at h
    injection h with h; injection h with h1 h2; subst h1 h2
    refine ⟨?_, fun _ => rfl⟩
    intro q p
    constructor
    · rintro ⟨path, hp, hg⟩
      cases path with
      | nil => simp [GLX] at hg
      | cons _ _ => exact hp.elim
    · intro hg; simp [GLX] at hg
  | succ n ih =>
    intro X hl chs any h
    match X, hl, h with
    | [], _, h =>
      simp only [complexChoices] at h
      injection h with h; injection h with h1 h2; subst h1 h2
      refine ⟨?_, fun _ => rfl⟩
      intro q p
      constructor
      · rintro ⟨path, hp, hg⟩
        cases path with
        | nil => simp [GLX] at hg
        | cons _ _ => exact hp.elim
      · intro hg; simp [GLX] at hg
    | .comb cb :: rest, hl, h =>
      obtain ⟨chs', hr, rfl⟩ := complexChoices_cons_comb sw e all m io cb rest chs any h
      have hlen : rest.length ≤ n := by simp only [List.length_cons] at hl; omega
      have ih' := ih rest hlen chs' any hr
      refine ⟨?_, ?_⟩
      · intro q p
        constructor
        · rintro ⟨path, hp, hg⟩
          cases path with
          | nil => exact hp.elim
          | cons a path' =>
            have ha : a = [Component.comb cb] := by simpa using hp.1
            subst ha
            simp [GLX] at hg
        · intro hg; simp [GLX] at hg
      · intro ha; rw [ih'.2 ha]; rfl
    | [.compound c], _, h =>
      obtain ⟨alts, b, chs', any', ha, hr, rfl, rfl⟩ := complexChoices_cons_compound sw e all m io c [] chs any h
      simp only [complexChoices] at hr
      injection hr with hr; injection hr with h1 h2; subst h1 h2
      obtain ⟨hshape, hsem, hnone⟩ := altsOf_sem sw hsw e all hE m io c alts b ha
      refine ⟨?_, ?_⟩
      · intro q p
        simp only [GLX]
        constructor
        · rintro ⟨path, hp, hg⟩
          match path, hp, hg with
          | [a], hp, hg =>
            obtain ⟨u, rfl⟩ := hshape a hp.1
            simp only [List.flatMap_cons, List.flatMap_nil, List.append_nil, id, GLX] at hg
            refine ⟨hg.1, ?_⟩
            rw [← hsem p, List.any_eq_true]
            exact ⟨_, hp.1, by rw [matchesComplex_single]; exact hg.2⟩
          | [], hp, _ => exact hp.elim
          | _ :: _ :: _, hp, _ => exact hp.2.elim
        · rintro ⟨rfl, hc⟩
          rw [← hsem q, List.any_eq_true] at hc
          obtain ⟨a, ha', hm⟩ := hc
          obtain ⟨u, rfl⟩ := hshape a ha'
          refine ⟨[[.compound u]], ⟨ha', trivial⟩, ?_⟩
          simp only [List.flatMap_cons, List.flatMap_nil, List.append_nil, id, GLX]
          exact ⟨trivial, by rw [matchesComplex_single] at hm; exact hm⟩
      · intro hb
        simp only [Bool.or_false] at hb
        rw [hnone hb]; rfl
    | .compound c :: .comb cb :: rest, hl, h =>
      obtain ⟨alts, b, chs1, any1, ha, hr1, rfl, rfl⟩ := complexChoices_cons_compound sw e all m io c _ chs any h
      obtain ⟨chs', hr, rfl⟩ := complexChoices_cons_comb sw e all m io cb rest chs1 any1 hr1
      have hlen : rest.length ≤ n := by simp only [List.length_cons] at hl; omega
      have ih' := ih rest hlen chs' any1 hr
      obtain ⟨hshape, hsem, hnone⟩ := altsOf_sem sw hsw e all hE m io c alts b ha
      refine ⟨?_, ?_⟩
      · intro q p
        simp only [GLX]
        constructor
        · rintro ⟨path, hp, hg⟩
          match path, hp, hg with
          | a :: a2 :: path', hp, hg =>
            obtain ⟨u, rfl⟩ := hshape a hp.1
            have ha2 : a2 = [Component.comb cb] := by simpa using hp.2.1
            subst ha2
            simp only [List.flatMap_cons, id, List.singleton_append, GLX] at hg
            obtain ⟨hu, q2, hq2, hrest⟩ := hg
            refine ⟨?_, q2, hq2, (ih'.1 q2 p).1 ⟨path', hp.2.2, hrest⟩⟩
            rw [← hsem q, List.any_eq_true]
            exact ⟨_, hp.1, by rw [matchesComplex_single]; exact hu⟩
          | [], hp, _ => exact hp.elim
          | [_], hp, _ => exact hp.2.elim
        · rintro ⟨hc, q2, hq2, hrest⟩
          rw [← hsem q, List.any_eq_true] at hc
          obtain ⟨a, ha', hm⟩ := hc
          obtain ⟨u, rfl⟩ := hshape a ha'
          obtain ⟨path', hp', hg'⟩ := (ih'.1 q2 p).2 hrest
          refine ⟨[.compound u] :: [.comb cb] :: path', ⟨ha', by simp, hp'⟩, ?_⟩
          simp only [List.flatMap_cons, id, List.singleton_append, GLX]
          exact ⟨by rw [matchesComplex_single] at hm; exact hm, q2, hq2, hg'⟩
      · intro hb
        have hb' : b = false ∧ any1 = false := by cases b <;> cases any1 <;> simp_all
        rw [hnone hb'.1, ih'.2 hb'.2]; rfl
    | .compound c :: .compound d :: rest, hl, h =>
      obtain ⟨alts, b, chs1, any1, ha, hr1, rfl, rfl⟩ := complexChoices_cons_compound sw e all m io c _ chs any h
      have hlen : (Component.compound d :: rest).length ≤ n := by simp only [List.length_cons] at hl ⊢; omega
      have ih' := ih _ hlen chs1 any1 hr1
      obtain ⟨altsd, bd, chs2, any2, had, _, hchs1, _⟩ := complexChoices_cons_compound sw e all m io d _ chs1 any1 hr1
      obtain ⟨hshaped, _, _⟩ := altsOf_sem sw hsw e all hE m io d altsd bd had
      obtain ⟨hshape, hsem, hnone⟩ := altsOf_sem sw hsw e all hE m io c alts b ha
      refine ⟨?_, ?_⟩
      · intro q p
        simp only [GLX]
        constructor
        · rintro ⟨path, hp, hg⟩
          match path, hp, hg with
          | a :: path1, hp, hg =>
            obtain ⟨u, rfl⟩ := hshape a hp.1
            have hp1 := hp.2
            rw [hchs1] at hp1
            match path1, hp1, hp, hg with
            | a' :: path2, hp1, hp, hg =>
              obtain ⟨u', rfl⟩ := hshaped a' hp1.1
              simp only [List.flatMap_cons, id, List.singleton_append, GLX] at hg
              obtain ⟨hu, q2, hq2, hrest⟩ := hg
              refine ⟨?_, q2, hq2, (ih'.1 q2 p).1 ⟨[.compound u'] :: path2, hp.2, ?_⟩⟩
              · rw [← hsem q, List.any_eq_true]
                exact ⟨_, hp.1, by rw [matchesComplex_single]; exact hu⟩
              · simpa only [List.flatMap_cons, id, List.singleton_append] using hrest
            | [], hp1, _, _ => exact hp1.elim
          | [], hp, _ => exact hp.elim
        · rintro ⟨hc, q2, hq2, hrest⟩
          rw [← hsem q, List.any_eq_true] at hc
          obtain ⟨a, ha', hm⟩ := hc
          obtain ⟨u, rfl⟩ := hshape a ha'
          obtain ⟨path1, hp1, hg1⟩ := (ih'.1 q2 p).2 hrest
          have hp1' := hp1
          rw [hchs1] at hp1'
          match path1, hp1', hp1, hg1 with
          | a' :: path2, hp1', hp1, hg1 =>
            obtain ⟨u', rfl⟩ := hshaped a' hp1'.1
            refine ⟨[.compound u] :: [.compound u'] :: path2, ⟨ha', hp1⟩, ?_⟩
            simp only [List.flatMap_cons, id, List.singleton_append, GLX] at hg1 ⊢
            exact ⟨by rw [matchesComplex_single] at hm; exact hm, q2, hq2, hg1⟩
          | [], hp1', _, _ => exact hp1'.elim
      · intro hb
        have hb' : b = false ∧ any1 = false := by cases b <;> cases any1 <;> simp_all
        rw [hnone hb'.1, ih'.2 hb'.2]; rfl

theorem pick_singletons {α : Type} : ∀ (X : List α) (path : List (List α)),
    Pick path (X.map fun cp => [[cp]]) ↔ path = X.map fun cp => [cp] := by
  intro X
  induction X with
  | nil => intro path; cases path <;> simp [Pick]
  | cons x xs ih =>
    intro path
    cases path with
    | nil => simp [Pick]
    | cons a as =>
      simp only [List.map_cons, Pick, List.mem_singleton, ih, List.cons.injEq]

theorem flat_singletons {α : Type} (X : List α) : (X.map fun cp => [cp]).flatMap id = X := by
  induction X with
  | nil => rfl
  | cons x xs ih => simp [List.flatMap_cons, ih]

theorem cComplex_credC (E : Compound) (T : Simple) (X : Complex) (hX : noSelX X = true) (p : Ctx) :
    cComplex (credit1 E T) X p = true ↔ ∃ q, GLX (credC E T) X q p := by
  rw [cComplex_eq_g, gComplex_iff]
  have hc : ∀ c, Component.compound c ∈ X → ∀ q, cComp (credit1 E T) c q = credC E T c q := by
    intro c hc q
    have := (List.all_eq_true.1 hX) _ hc
    exact cComp_noSel E T q c (by simpa using this)
  constructor
  · rintro ⟨q, h⟩; exact ⟨q, (GLX_congr _ _ X hc q p).1 h⟩
  · rintro ⟨q, h⟩; exact ⟨q, (GLX_congr _ _ X hc q p).2 h⟩

theorem matchesComplex_GLX (X : Complex) (p : Ctx) : matchesComplex X p = true ↔ ∃ q, GLX mComp X q p := by
  rw [matchesComplex_eq_g, gComplex_iff]

/-- `extend_complex` (mod.rs:244), semantically -/
theorem extendComplex_sem (sw : Switches) (hsw : sw.supAsFound = false) (e : Ext) (all : List Ext) (hE : e.extender ≠ [])
    (m : Option Nat) (x : Flagged) (hx : noSelX x.1 = true) (p : Ctx) :
    match extendComplex sw [e] all m x with
    | .ok (some ys) => mF ys p = cComplex (credit1 e.extender e.target) x.1 p
    | .ok none => cComplex (credit1 e.extender e.target) x.1 p = matchesComplex x.1 p
    | .error _ => True := by
  unfold extendComplex
  cases hc : complexChoices sw [e] all m x.2 x.1 with
  | error er => trivial
  | ok v =>
    obtain ⟨chs, any⟩ := v
    obtain ⟨hsem, hnone⟩ := complexChoices_sem sw hsw e all hE m x.2 x.1.length x.1 (Nat.le_refl _) chs any hc
    cases any with
    | false =>
      simp only
      have hchs := hnone rfl
      rw [Bool.eq_iff_iff, cComplex_credC _ _ _ hx, matchesComplex_GLX]
      constructor
      · rintro ⟨q, h⟩
        obtain ⟨path, hp, hg⟩ := (hsem q p).2 h
        rw [hchs, pick_singletons] at hp
        rw [hp, flat_singletons] at hg
        exact ⟨q, hg⟩
      · rintro ⟨q, h⟩
        refine ⟨q, (hsem q p).1 ⟨x.1.map (fun cp => [cp]), ?_, by rw [flat_singletons]; exact h⟩⟩
        rw [hchs, pick_singletons]
    | true =>
      simp only
      have key : ((paths chs).map fun pth => pth.flatMap id).any (matchesComplex · p) =
          cComplex (credit1 e.extender e.target) x.1 p := by
        rw [Bool.eq_iff_iff, cComplex_credC _ _ _ hx, List.any_eq_true]
        constructor
        · rintro ⟨Y, hY, hm⟩
          simp only [List.mem_map] at hY
          obtain ⟨path, hpath, rfl⟩ := hY
          obtain ⟨q, hq⟩ := (matchesComplex_GLX _ p).1 hm
          exact ⟨q, (hsem q p).1 ⟨path, (mem_paths chs path).1 hpath, hq⟩⟩
        · rintro ⟨q, h⟩
          obtain ⟨path, hp, hg⟩ := (hsem q p).2 h
          exact ⟨path.flatMap id, List.mem_map.2 ⟨path, (mem_paths chs path).2 hp, rfl⟩,
            (matchesComplex_GLX _ p).2 ⟨q, hg⟩⟩
      rw [← key]
      cases (paths chs).map (fun pth => pth.flatMap id) with
      | nil => simp [mF]
      | cons f r => simp [mF, List.any_map, Function.comp_def]

theorem extendEach_sem (sw : Switches) (hsw : sw.supAsFound = false) (e : Ext) (all : List Ext) (hE : e.extender ≠ [])
    (m : Option Nat) (p : Ctx) :
    ∀ (l : List Flagged), (∀ x ∈ l, noSelX x.1 = true) →
      match extendEach sw [e] all m l with
      | .ok (l', any) => mF l' p = cList (credit1 e.extender e.target) (l.map (·.1)) p ∧ (any = false → l' = l)
      | .error _ => True := by
  intro l
  induction l with
  | nil => intro _; simp [extendEach, mF, cList]
  | cons x rest ih =>
    intro hl
    have hx := extendComplex_sem sw hsw e all hE m x (hl x (by simp)) p
    have hr := ih (fun y hy => hl y (by simp [hy]))
    unfold extendEach
    revert hx hr
    cases extendComplex sw [e] all m x with
    | error er => intro _ _; trivial
    | ok r =>
      cases extendEach sw [e] all m rest with
      | error er => intro _ _; cases r <;> trivial
      | ok v =>
        obtain ⟨l', any'⟩ := v
        cases r with
        | none =>
          intro hx hr
          simp only at hx hr ⊢
          refine ⟨?_, fun ha => by rw [hr.2 ha]⟩
          simp only [mF, List.any_cons, cList, List.map_cons] at hr ⊢
          rw [hr.1, hx]
        | some ys =>
          intro hx hr
          simp only at hx hr ⊢
          refine ⟨?_, fun ha => by cases ha⟩
          simp only [mF, List.any_append, cList, List.map_cons, List.any_cons] at hx hr ⊢
          rw [hx, hr.1]

/-- **@extend with a single-compound extender, on selectors without selector pseudos**: the
    rewritten selector list matches an element context iff the original list matches it once
    elements matched by the extender `E` are credited with the target `T` — for every context.
    (Specified `trim`; any media / original flags; `extend_list`, mod.rs:202.) -/
theorem C10_extend_single_compound_iff (sw : Switches) (hsw : sw.supAsFound = false) (e : Ext) (all : List Ext)
    (hE : e.extender ≠ []) (m : Option Nat) (S : SelList) (hS : noSelL S = true) (fl : Bool)
    (out : List Flagged) (h : extendList sw [e] all m (S.map fun x => (x, fl)) = .ok out) (p : Ctx) :
    matchesList (out.map (·.1)) p = matchesCredited S e.extender e.target p := by
  have hl : ∀ x ∈ S.map (fun x => (x, fl)), noSelX x.1 = true := by
    intro x hx
    simp only [List.mem_map] at hx
    obtain ⟨y, hy, rfl⟩ := hx
    exact (List.all_eq_true.1 hS) y hy
  have hsem := extendEach_sem sw hsw e all hE m p _ hl
  unfold extendList at h
  revert hsem
  cases hE' : extendEach sw [e] all m (S.map fun x => (x, fl)) with
  | error er => intro _; rw [hE'] at h; cases h
  | ok v =>
    obtain ⟨l', any⟩ := v
    intro hsem
    rw [hE'] at h
    simp only [List.map_map, Function.comp_def, List.map_id'] at hsem
    have hout : mF out p = mF l' p := by
      cases any with
      | false =>
        simp only at h; injection h with h; subst h
        rw [hsem.2 rfl]
      | true =>
        simp only at h; injection h with h; subst h
        have := C10_trim_preserves_matches (isSuperComplex0 sw.supAsFound) (srcSpecOf all) l' p
          (by intro a b hh hb; rw [hsw] at hh; exact isSuperComplex0_sound a b p hh hb)
        simpa [mF, matchesList, List.any_map, Function.comp_def] using this
    have : matchesList (out.map (·.1)) p = mF out p := by
      simp [mF, matchesList, List.any_map, Function.comp_def]
    rw [this, hout, hsem.1]
    rfl

/-- **first law** (no `:not` here: no selector pseudo at all): everything the original selector
    matched is still matched after extension. -/
theorem C10_first_law (sw : Switches) (hsw : sw.supAsFound = false) (e : Ext) (all : List Ext)
    (hE : e.extender ≠ []) (m : Option Nat) (S : SelList) (hS : noSelL S = true) (fl : Bool)
    (out : List Flagged) (h : extendList sw [e] all m (S.map fun x => (x, fl)) = .ok out) (p : Ctx)
    (hm : matchesList S p = true) : matchesList (out.map (·.1)) p = true := by
  rw [C10_extend_single_compound_iff sw hsw e all hE m S hS fl out h p]
  -- plain matching implies credited matching
  unfold matchesCredited cList
  unfold matchesList at hm
  rw [List.any_eq_true] at hm ⊢
  obtain ⟨X, hX, hXm⟩ := hm
  refine ⟨X, hX, ?_⟩
  have hXs : noSelX X = true := (List.all_eq_true.1 hS) X hX
  rw [cComplex_credC _ _ _ hXs]
  obtain ⟨q, hq⟩ := (matchesComplex_GLX X p).1 hXm
  refine ⟨q, ?_⟩
  exact GLX_mono mComp (credC e.extender e.target) (fun c q h => by
    simp only [credC, List.all_eq_true, Bool.or_eq_true]
    intro s hs; exact Or.inl (mComp_mem h hs)) X q p hq

/-! ### two successive @extends: `E {@extend t}` then `F {@extend .n}` (a chain when `.n` occurs in `E`) -/

/-- `extend_list` on an arbitrary flagged list (what `extend_existing_selectors` re-extends) -/
theorem extendList_sem (sw : Switches) (hsw : sw.supAsFound = false) (e : Ext) (all : List Ext)
    (hE : e.extender ≠ []) (m : Option Nat) (l out : List Flagged) (hl : ∀ x ∈ l, noSelX x.1 = true)
    (h : extendList sw [e] all m l = .ok out) (p : Ctx) :
    matchesList (out.map (·.1)) p = cList (credit1 e.extender e.target) (l.map (·.1)) p := by
  have hsem := extendEach_sem sw hsw e all hE m p l hl
  unfold extendList at h
  revert hsem
  cases hE' : extendEach sw [e] all m l with
  | error er => intro _; rw [hE'] at h; cases h
  | ok v =>
    obtain ⟨l', any⟩ := v
    intro hsem
    rw [hE'] at h
    have hout : mF out p = mF l' p := by
      cases any with
      | false =>
        simp only at h; injection h with h; subst h
        rw [hsem.2 rfl]
      | true =>
        simp only at h; injection h with h; subst h
        have := C10_trim_preserves_matches (isSuperComplex0 sw.supAsFound) (srcSpecOf all) l' p
          (by intro a b hh hb; rw [hsw] at hh; exact isSuperComplex0_sound a b p hh hb)
        simpa [mF, matchesList, List.any_map, Function.comp_def] using this
    have : matchesList (out.map (·.1)) p = mF out p := by
      simp [mF, matchesList, List.any_map, Function.comp_def]
    rw [this, hout, hsem.1]

/-- crediting through the chain: `.n` is credited to elements matched by `F`, `t` to elements matched by
    `E` once `.n` has been credited -/
def creditChain (E : Compound) (t : Simple) (F : Compound) (n : Name) : Simple → Ctx → Bool :=
  fun s p => credit1 F (.cls n) s p || (decide (s = t) && cComp (credit1 F (.cls n)) E p)

theorem mComp_tau (F : Compound) (n : Name) (hF : noSelC F = true) :
    ∀ (c : Compound) (p : Ctx), noSelC c = true →
      mComp c (tau (addCls F n) p) = cComp (credit1 F (.cls n)) c p := by
  intro c
  induction c with
  | nil => intro p _; simp [mComp, cComp]
  | cons s ss ih =>
    intro p h
    simp only [noSelC, List.all_cons, Bool.and_eq_true, Bool.not_eq_true'] at h
    simp only [mComp, cComp]
    rw [mSimple_tau F n hF s p h.1, cSimple_noSel _ _ _ h.1, ih p (by simpa [noSelC] using h.2)]
    rfl

theorem cComp_tau (E : Compound) (t : Simple) (F : Compound) (n : Name) (hF : noSelC F = true) (hE : noSelC E = true) :
    ∀ (c : Compound) (p : Ctx), noSelC c = true →
      cComp (credit1 E t) c (tau (addCls F n) p) = cComp (creditChain E t F n) c p := by
  intro c
  induction c with
  | nil => intro p _; simp [cComp]
  | cons s ss ih =>
    intro p h
    simp only [noSelC, List.all_cons, Bool.and_eq_true, Bool.not_eq_true'] at h
    simp only [cComp]
    rw [cSimple_noSel _ _ _ h.1, cSimple_noSel _ _ _ h.1, ih p (by simpa [noSelC] using h.2),
      mSimple_tau F n hF s p h.1]
    simp only [credit1, creditChain, mComp_tau F n hF E p hE]
    cases mSimple s p <;> cases decide (s = Simple.cls n) <;> cases mComp F p <;> cases decide (s = t) <;> simp

theorem complex_tau (mc1 mc2 : Compound → Ctx → Bool) (g : Elem → Elem) (X : Complex)
    (h : ∀ c, Component.compound c ∈ X → ∀ q, mc1 c (tau g q) = mc2 c q) (p : Ctx) :
    gComplex mc1 X (tau g p) = gComplex mc2 X p := by
  rw [Bool.eq_iff_iff, gComplex_iff, gComplex_iff]
  constructor
  · rintro ⟨q', hq'⟩
    obtain ⟨q, _, hq⟩ := (GLX_tau g mc1 X q' p).1 hq'
    exact ⟨q, (GLX_congr _ _ X h q p).1 hq⟩
  · rintro ⟨q, hq⟩
    exact ⟨tau g q, (GLX_tau g mc1 X _ p).2 ⟨q, rfl, (GLX_congr _ _ X h q p).2 hq⟩⟩

/-- **two successive single-compound @extends**: a rule `S` (no selector pseudo) extended by
    `E {@extend t}` and then re-extended — as `extend_existing_selectors` does — by `F {@extend .n}`
    matches exactly the contexts the original `S` matches when `.n` is credited to the elements
    matched by `F` and `t` to the elements matched by `E` *after that crediting* (so the chain
    `F → .n ∈ E → t` is followed).  Guards: the second target is a class, extenders carry no selector
    pseudo, and the intermediate selector carries none (`hout1`, decidable). -/
theorem C10_extend_two_step (sw : Switches) (hsw : sw.supAsFound = false) (e1 e2 : Ext) (all1 all2 : List Ext)
    (n : Name) (h2t : e2.target = .cls n) (hE1 : e1.extender ≠ []) (hE2 : e2.extender ≠ [])
    (hn1 : noSelC e1.extender = true) (hn2 : noSelC e2.extender = true)
    (m : Option Nat) (S : SelList) (hS : noSelL S = true) (fl : Bool) (out1 out2 : List Flagged)
    (h1 : extendList sw [e1] all1 m (S.map fun x => (x, fl)) = .ok out1)
    (hout1 : ∀ x ∈ out1, noSelX x.1 = true)
    (h2 : extendList sw [e2] all2 m out1 = .ok out2) (p : Ctx) :
    matchesList (out2.map (·.1)) p = cList (creditChain e1.extender e1.target e2.extender n) S p := by
  have hcomp : ∀ (X : Complex), noSelX X = true → ∀ c, Component.compound c ∈ X → noSelC c = true := by
    intro X hX c hc
    have := (List.all_eq_true.1 hX) _ hc
    simpa using this
  -- second step, read as plain matching in the context where `F`-elements carry the class
  have s2 := extendList_sem sw hsw e2 all2 hE2 m out1 out2 hout1 h2 p
  rw [s2, h2t]
  have a1 : cList (credit1 e2.extender (.cls n)) (out1.map (·.1)) p =
      matchesList (out1.map (·.1)) (tau (addCls e2.extender n) p) := by
    unfold cList matchesList
    rw [Bool.eq_iff_iff, List.any_eq_true, List.any_eq_true]
    have key : ∀ X ∈ out1.map (·.1), cComplex (credit1 e2.extender (.cls n)) X p =
        matchesComplex X (tau (addCls e2.extender n) p) := by
      intro X hX
      simp only [List.mem_map] at hX
      obtain ⟨x, hx, rfl⟩ := hX
      rw [cComplex_eq_g, matchesComplex_eq_g]
      exact (complex_tau mComp _ _ x.1 (fun c hc q => mComp_tau e2.extender n hn2 c q (hcomp x.1 (hout1 x hx) c hc)) p).symm
    constructor
    · rintro ⟨X, hX, hm⟩; exact ⟨X, hX, by rw [← key X hX]; exact hm⟩
    · rintro ⟨X, hX, hm⟩; exact ⟨X, hX, by rw [key X hX]; exact hm⟩
  rw [a1, C10_extend_single_compound_iff sw hsw e1 all1 hE1 m S hS fl out1 h1 (tau (addCls e2.extender n) p)]
  unfold matchesCredited cList
  rw [Bool.eq_iff_iff, List.any_eq_true, List.any_eq_true]
  have key2 : ∀ X ∈ S, cComplex (credit1 e1.extender e1.target) X (tau (addCls e2.extender n) p) =
      cComplex (creditChain e1.extender e1.target e2.extender n) X p := by
    intro X hX
    rw [cComplex_eq_g, cComplex_eq_g]
    exact complex_tau _ _ _ X (fun c hc q => cComp_tau e1.extender e1.target e2.extender n hn2 hn1 c q
      (hcomp X ((List.all_eq_true.1 hS) X hX) c hc)) p
  constructor
  · rintro ⟨X, hX, hm⟩; exact ⟨X, hX, by rw [← key2 X hX]; exact hm⟩
  · rintro ⟨X, hX, hm⟩; exact ⟨X, hX, by rw [key2 X hX]; exact hm⟩

/-- Rule-order independence for the two-step fragment at the level of the whole stylesheet (open):
    it needs `extend_existing_extensions` (derived extensions, mod.rs:1042) in the store model, which
    still answers `unsupported` for chains.  The repaired behaviour (C10-X1, c66199e) is checked on the
    implementation by the order oracle of the check and its regression cases. -/
def C10_two_step_order_full : Prop :=
  ∀ (sw : Switches) (S E F : SelList) (t u : Simple) (m : Option Nat),
    run sw [.rule S m, .extend E t false none, .extend F u false none] =
      run sw [.extend E t false none, .extend F u false none, .rule S m]

-- non-vacuity: `.a c` extended by `.b.x {@extend .a}` and then by `.q {@extend .b}` (a chain)
private def ext1 : Ext := ⟨[.cls ['b'], .cls ['x']], .cls ['a'], false, none⟩
private def ext2 : Ext := ⟨[.cls ['q']], .cls ['b'], false, none⟩
example :
    (match extendList Switches.spec [ext1] [ext1] none [([.compound [.cls ['a']], .compound [.type ['c']]], true)] with
     | .ok o1 => (match extendList Switches.spec [ext2] [ext1, ext2] none o1 with
        | .ok o2 => o2.map (·.1)
        | .error _ => [])
     | .error _ => []) =
    [[.compound [.cls ['a']], .compound [.type ['c']]],
     [.compound [.cls ['b'], .cls ['x']], .compound [.type ['c']]],
     [.compound [.cls ['x'], .cls ['q']], .compound [.type ['c']]]] := by decide +kernel

/-! ### placeholders -/

theorem invisC_eq_any (c : Compound) : invisC c = c.any invisS := by
  induction c with
  | nil => simp [invisC]
  | cons s ss ih => simp [invisC, ih]

/-- **placeholders never reach the output**: a complex that `serialise`/the driver's `selOut`
    (list.rs:47 filter) lets through has no placeholder among its simple selectors. -/
theorem C10_placeholders_never_serialised (l : SelList) :
    ∀ x ∈ l.filter (fun c => !c.isInvisible), ∀ s ∈ simplesOf x, s.isPlaceholder = false := by
  intro x hx s hs
  simp only [List.mem_filter, Bool.not_eq_true', Complex.isInvisible] at hx
  have hx2 := hx.2
  simp only [simplesOf, List.mem_flatMap] at hs
  obtain ⟨cp, hcp, hs⟩ := hs
  cases cp with
  | comb cb => simp at hs
  | compound c =>
    simp only at hs
    have h1 : Component.isInvisible (.compound c) = false := by
      cases h : Component.isInvisible (.compound c) with
      | false => rfl
      | true =>
        have : x.any Component.isInvisible = true := List.any_eq_true.2 ⟨_, hcp, h⟩
        rw [hx2] at this; cases this
    simp only [Component.isInvisible, invisC_eq_any] at h1
    have h2 : invisS s = false := by
      cases h : invisS s with
      | false => rfl
      | true =>
        have : c.any invisS = true := List.any_eq_true.2 ⟨_, hs, h⟩
        rw [h1] at this; cases this
    cases s <;> simp_all [invisS, Simple.isPlaceholder]

example : serialise [[.compound [.placeholder ['p']], .compound [.cls ['a']]], [.compound [.cls ['b']]]]
    = ['.', 'b'] := by decide +kernel

/-! ### mandatory extensions (D18) -/

/-- **extending a missing target is an error unless `!optional`** (specified variant): once all
    rules and extensions are registered, the run fails with `missingTarget` exactly when some
    extension that is not optional has a target occurring in no style rule. -/
theorem C10_missing_target_error_unless_optional (items : List Item) (st : Store)
    (h : runItems Switches.spec ⟨[], []⟩ items = .ok st) :
    (∃ e ∈ st.exts, e.optional = false ∧ targetFound st.rules e.target = false) ↔
      run Switches.spec items = .error .missingTarget := by
  unfold run
  rw [h]
  simp only [Switches.spec, Bool.not_false, Bool.true_and]
  constructor
  · intro ⟨e, he, h1, h2⟩
    have : (st.exts.any fun e => !e.optional && !targetFound st.rules e.target) = true :=
      List.any_eq_true.2 ⟨e, he, by simp [h1, h2]⟩
    simp [this]
  · intro hr
    split at hr
    · rename_i hc
      obtain ⟨e, he, hc⟩ := List.any_eq_true.1 hc
      exact ⟨e, he, by simpa using hc⟩
    · cases hr

private def ruleA : Item := .rule [[.compound [.type ['a']]]] none
private def extMissing (opt : Bool) : Item := .extend [[.compound [.type ['a']]]] (.cls ['m']) opt none

deriving instance DecidableEq for Except

example : run Switches.spec [ruleA, extMissing false] = .error .missingTarget := by decide +kernel
example : run Switches.spec [ruleA, extMissing true] = .ok [[[.compound [.type ['a']]]]] := by decide +kernel

/-- D18 as found: no "target not found" bookkeeping — `a {@extend .m}` compiles -/
theorem C10_asFound_missing_target_accepted :
    run Switches.asFound [ruleA, extMissing false] = .ok [[[.compound [.type ['a']]]]] ∧
    run Switches.spec [ruleA, extMissing false] = .error .missingTarget := by decide +kernel

/-! ### @media (D16) -/

private def ruleDotA : Item := .rule [[.compound [.cls ['a']]]] none
private def ruleDotB (m : Option Nat) : Item := .rule [[.compound [.cls ['b']]]] m
private def extBA (m : Option Nat) : Item := .extend [[.compound [.cls ['b']]]] (.cls ['a']) false m

/-- an `@extend` written inside `@media` does not reach a rule outside of it: the specified run is
    an error, extension from the top level or within the same block is accepted -/
theorem C10_media_confined :
    run Switches.spec [ruleDotA, ruleDotB (some 1), extBA (some 1)] = .error .crossMedia ∧
    run Switches.spec [.rule [[.compound [.cls ['a']]]] (some 1), ruleDotB (some 1), extBA (some 1)]
      = .ok [[[.compound [.cls ['a']]], [.compound [.cls ['b']]]], [[.compound [.cls ['b']]]]] ∧
    run Switches.spec [.rule [[.compound [.cls ['a']]]] (some 1), ruleDotB none, extBA none]
      = .ok [[[.compound [.cls ['a']]], [.compound [.cls ['b']]]], [[.compound [.cls ['b']]]]] := by
  decide +kernel

/-- D16 as found: `.a{x:y} @media screen{.b{@extend .a}}` rewrites the top-level rule to `.a, .b` -/
theorem C10_asFound_media_crossed :
    run Switches.asFound [ruleDotA, ruleDotB (some 1), extBA (some 1)]
      = .ok [[[.compound [.cls ['a']]], [.compound [.cls ['b']]]], [[.compound [.cls ['b']]]]] := by
  decide +kernel


/-- **order independence of registration** (one rule, one `@extend`): whether the style rule comes
    before the `@extend` (retroactive `extend_existing_selectors`, mod.rs:1132) or after it
    (`add_selector` extends with the stored extensions, mod.rs:875), the run gives the same
    selectors or the same error.  (Chains — where order does matter in the code as found, known
    finding C10-X1 — are outside the modelled fragment.) -/
theorem C10_order_independent (sw : Switches) (S E : SelList) (T : Simple) (o : Bool) (m m' : Option Nat)
    (hS : inFragment S = true) (hE : E ≠ []) :
    run sw [.rule S m, .extend E T o m'] = run sw [.extend E T o m', .rule S m] := by
  cases hc : asCompounds E with
  | none => simp [run, runItems, addSelector, addExtension, hS, hc]
  | some comps =>
    have hne : comps ≠ [] := by
      intro h; subst h
      cases E with
      | nil => exact hE rfl
      | cons x xs =>
        simp only [asCompounds, List.mapM_cons] at hc
        split at hc
        · rename_i c
          revert hc
          cases List.mapM (fun x => match x with | [Component.compound c] => some c | _ => none) xs <;> simp
        · simp at hc
    by_cases c1 : (T.isSel || T.isParent || !noSelL E) = true
    · simp [run, runItems, addSelector, addExtension, hS, hc, c1]
    · by_cases c2 : (comps.any fun c => c.contains T) = true
      · have c2' : ∃ x, x ∈ comps ∧ T ∈ x := by simpa using c2
        simp [run, runItems, addSelector, addExtension, hS, hc, c1, c2']
      · have c2' : ¬ ∃ x, x ∈ comps ∧ T ∈ x := by simpa using c2
        have hne2 : (comps.map fun c => (⟨c, T, o, m'⟩ : Ext)) ≠ [] := by
          cases comps with
          | nil => exact absurd rfl hne
          | cons _ _ => simp
        have hne3 : ¬ ∀ a : Compound, ¬ a ∈ comps := by
          intro h
          cases comps with
          | nil => exact hne rfl
          | cons c cs => exact h c (by simp)
        simp [run, runItems, addSelector, addExtension, hS, hc, c1, c2', reextend, hne3]
        generalize extendList sw (List.map (fun c => ({ extender := c, target := T, optional := o, media := m' } : Ext))
          (List.filter (fun _ => true) comps)) (List.map (fun c => ({ extender := c, target := T, optional := o, media := m' } : Ext))
          (List.filter (fun _ => true) comps)) m (List.map (fun x => (x, !S.isInvisible)) S) = r
        cases r <;> rfl

private def extXB : Ext := ⟨[.cls ['b']], .cls ['a'], false, none⟩
example : extendCompound Switches.spec [extXB] [extXB] none true [.type ['t'], .cls ['a'], .cls ['x']]
    = .ok (some [[.compound [.type ['t'], .cls ['a'], .cls ['x']]], [.compound [.type ['t'], .cls ['x'], .cls ['b']]]]) := by
  decide +kernel


/-! ### chains of any length: `E₁ {@extend .n₁}`, `E₂ {@extend .n₂}`, … applied one after the other -/

/-- one re-extension step read as plain matching in the relabelled context: a list `l` (no selector
    pseudo) re-extended — as `extend_existing_selectors` (mod.rs:1125) does — by `E {@extend .n}`
    matches `p` iff `l` matches `p` with class `n` added to every element matched by `E` -/
theorem extendList_tau (sw : Switches) (hsw : sw.supAsFound = false) (e : Ext) (all : List Ext) (n : Name)
    (ht : e.target = .cls n) (hE : e.extender ≠ []) (hn : noSelC e.extender = true)
    (m : Option Nat) (l out : List Flagged) (hl : ∀ x ∈ l, noSelX x.1 = true)
    (h : extendList sw [e] all m l = .ok out) (p : Ctx) :
    matchesList (out.map (·.1)) p = matchesList (l.map (·.1)) (tau (addCls e.extender n) p) := by
  have hcomp : ∀ (X : Complex), noSelX X = true → ∀ c, Component.compound c ∈ X → noSelC c = true := by
    intro X hX c hc
    have := (List.all_eq_true.1 hX) _ hc
    simpa using this
  rw [extendList_sem sw hsw e all hE m l out hl h p, ht]
  unfold cList matchesList
  rw [Bool.eq_iff_iff, List.any_eq_true, List.any_eq_true]
  have key : ∀ X ∈ l.map (·.1), cComplex (credit1 e.extender (.cls n)) X p =
      matchesComplex X (tau (addCls e.extender n) p) := by
    intro X hX
    simp only [List.mem_map] at hX
    obtain ⟨x, hx, rfl⟩ := hX
    rw [cComplex_eq_g, matchesComplex_eq_g]
    exact (complex_tau mComp _ _ x.1 (fun c hc q => mComp_tau e.extender n hn c q (hcomp x.1 (hl x hx) c hc)) p).symm
  constructor
  · rintro ⟨X, hX, hm⟩; exact ⟨X, hX, by rw [← key X hX]; exact hm⟩
  · rintro ⟨X, hX, hm⟩; exact ⟨X, hX, by rw [key X hX]; exact hm⟩

/-- a run of successive single-compound extensions with class targets: every step is `extend_list`
    (mod.rs:199) of the current selector by one extension; explicit guards per step (decidable) -/
inductive ChainRun (sw : Switches) (m : Option Nat) : List (Ext × Name × List Ext) → List Flagged → List Flagged → Prop
  | nil (l : List Flagged) : ChainRun sw m [] l l
  | cons (e : Ext) (n : Name) (all : List Ext) (rest : List (Ext × Name × List Ext)) (l l' l'' : List Flagged) :
      e.target = .cls n → e.extender ≠ [] → noSelC e.extender = true → (∀ x ∈ l, noSelX x.1 = true) →
      extendList sw [e] all m l = .ok l' → ChainRun sw m rest l' l'' → ChainRun sw m ((e, n, all) :: rest) l l''

/-- the context in which the elements matched by the last extender carry its target class, then the
    elements matched (in that context) by the one before carry its class, … back to the first -/
def tauChain : List (Ext × Name × List Ext) → Ctx → Ctx
  | [], p => p
  | (e, n, _) :: rest, p => tau (addCls e.extender n) (tauChain rest p)

/-- **chains of any length** (single-compound extenders, class targets, no selector pseudos): after
    `k` successive re-extensions the selector matches a context iff the ORIGINAL selector matches the
    context relabelled through the whole chain — "exactly as if those elements additionally matched
    the target", hop by hop, for every `k` (induction over the chain; `C10_extend_two_step` is `k = 2`). -/
theorem C10_extend_chain_n (sw : Switches) (hsw : sw.supAsFound = false) (m : Option Nat)
    (steps : List (Ext × Name × List Ext)) (l out : List Flagged) (h : ChainRun sw m steps l out) (p : Ctx) :
    matchesList (out.map (·.1)) p = matchesList (l.map (·.1)) (tauChain steps p) := by
  induction h generalizing p with
  | nil l => rfl
  | cons e n all rest l l' l'' ht hE hn hl hx _ ih =>
    rw [ih p, extendList_tau sw hsw e all n ht hE hn m l l' hl hx (tauChain rest p)]
    rfl

-- non-vacuity: `.a` extended by `.b {@extend .a}`, `.c {@extend .b}`, `.d {@extend .c}` (three hops)
private def cA : Ext := ⟨[.cls ['b']], .cls ['a'], false, none⟩
private def cB : Ext := ⟨[.cls ['c']], .cls ['b'], false, none⟩
private def cC : Ext := ⟨[.cls ['d']], .cls ['c'], false, none⟩
private def l0 : List Flagged := [([.compound [.cls ['a']]], true)]
private def l1 : List Flagged := [([.compound [.cls ['a']]], true), ([.compound [.cls ['b']]], false)]
private def l2 : List Flagged := l1 ++ [([.compound [.cls ['c']]], false)]
private def l3 : List Flagged := l2 ++ [([.compound [.cls ['d']]], false)]
example : ChainRun Switches.spec none [(cA, ['a'], [cA]), (cB, ['b'], [cA, cB]), (cC, ['c'], [cA, cB, cC])] l0 l3 :=
  .cons _ _ _ _ l0 l1 l3 rfl (by decide) (by decide) (by decide) (by decide +kernel)
    (.cons _ _ _ _ l1 l2 l3 rfl (by decide) (by decide) (by decide) (by decide +kernel)
      (.cons _ _ _ _ l2 l3 l3 rfl (by decide) (by decide) (by decide) (by decide +kernel) (.nil l3)))

/-! ### `weave` -/

/-- **`weave` on single-component paths is concatenation**: when every extender on a path of
    `extend_complex` (mod.rs:314) is a single compound, the model of `weave` (functions.rs:68, with any
    `weave_parents`) returns exactly the concatenation — the step `extendComplex` (and with it
    `C10_extend_single_compound_iff`) takes for granted. -/
theorem C10_weave_singletons_concat (sib : Bool) (path : List Complex) (hne : path ≠ [])
    (h : ∀ x ∈ path, ∃ c, x = [c]) : weaveTop sib path = [path.flatMap id] :=
  weaveWith_singletons _ path hne h

example : weaveTop true [[.compound [.cls ['a']]], [.comb .child], [.compound [.cls ['b']]]]
    = [[.compound [.cls ['a']], .comb .child, .compound [.cls ['b']]]] :=
  C10_weave_singletons_concat true _ (by simp) (by simp)

/-! ### C10-X3: `merge_final_combinators` with `~` against `+` (functions.rs:450–486) -/

private def xF : Compound := [.attr ['t'] none, .pclass ['f']]
private def xB : Compound := [.type ['b']]
private def xY : Compound := [.cls ['y']]
private def xT : Compound := [.type ['a']]
private def xP1 : Complex := [.compound xF, .comb .next, .compound xB, .comb .next]      -- `[t]:f + b +`
private def xP2 : Complex := [.compound xY, .comb .later]                                  -- `.y ~`
/-- the element `a` preceded by `b`, `c.y`, `c[t=v]:f` (nearest first) -/
private def xCtx : Ctx :=
  ⟨⟨⟨['a'], none, [], [], [], none⟩,
    [⟨['b'], none, [], [], [], none⟩, ⟨['c'], none, [['y']], [], [], none⟩, ⟨['c'], none, [], [(['t'], ['v'])], [['f']], none⟩]⟩, []⟩

/-- C10-X3 as found: weaving the parents `[t]:f + b +` and `.y ~` yields `[t]:f + .y ~ b +`, which (before
    the target `a`) matches a context that `[t]:f + b + a` does not match — `.y` was put between two
    components that must be adjacent.  The specified variant (`sibAsFound = false`) keeps only the
    unified alternative `[t]:f + b.y +`. -/
theorem C10_asFound_weave_sibling_unsound :
    weaveParentsTop true xP1 xP2 = some
      [[.compound xF, .comb .next, .compound xY, .comb .later, .compound xB, .comb .next],
       [.compound xF, .comb .next, .compound [.type ['b'], .cls ['y']], .comb .next]] ∧
    matchesComplex ([.compound xF, .comb .next, .compound xY, .comb .later, .compound xB, .comb .next] ++ [.compound xT]) xCtx = true ∧
    matchesComplex (xP1 ++ [.compound xT]) xCtx = false ∧
    weaveParentsTop false xP1 xP2 = some [[.compound xF, .comb .next, .compound [.type ['b'], .cls ['y']], .comb .next]] := by
  decide +kernel

/-! ### second law as `trim` implements it -/

theorem pullOut_keeps (c1 : Complex) :
    ∀ (n : Nat) (result : List Flagged) (f : Flagged) (rest : List Flagged),
      pullOut c1 n result = some (f, rest) → ∀ x, x ∈ result → x ∈ f :: rest := by
  intro n
  induction n with
  | zero => intro result f rest h; simp [pullOut] at h
  | succ n ih =>
    intro result f rest h x hx
    cases result with
    | nil => simp [pullOut] at h
    | cons r rs =>
      unfold pullOut at h
      split at h
      · injection h with h; injection h with h1 h2; subst h1 h2; exact hx
      · split at h
        · rename_i f' rest' hp
          injection h with h; injection h with h1 h2; subst h1 h2
          have := ih rs f' rest' hp
          rcases List.mem_cons.1 hx with e | hx
          · simp [e]
          · rcases List.mem_cons.1 (this x hx) with e | h2
            · simp [e]
            · simp [h2]
        · cases h

theorem trimGo_keeps (sup : Complex → Complex → Bool) (srcSpec : Simple → Nat) :
    ∀ (rest result : List Flagged) (n : Nat) (x : Flagged),
      x ∈ result → x ∈ trimGo sup srcSpec rest result n := by
  intro rest
  induction rest with
  | nil => intro result n x h; simpa [trimGo] using h
  | cons y earlier ih =>
    intro result n x h
    obtain ⟨c1, fl⟩ := y
    cases fl with
    | true =>
      unfold trimGo
      split
      · rename_i f rest' hp
        exact ih _ _ x (pullOut_keeps c1 n result f rest' hp x h)
      · exact ih _ _ x (List.mem_cons_of_mem _ h)
    | false =>
      unfold trimGo
      simp only
      split
      · exact ih _ _ x h
      · exact ih _ _ x (List.mem_cons_of_mem _ h)

theorem trimGo_floor (sup : Complex → Complex → Bool) (srcSpec : Simple → Nat) :
    ∀ (rest result : List Flagged) (n : Nat) (x : Flagged), x ∈ rest →
      x ∈ trimGo sup srcSpec rest result n ∨
      (x.2 = true ∧ ∃ y ∈ trimGo sup srcSpec rest result n, y.1 = x.1) ∨
      (x.2 = false ∧ ∃ y, (y ∈ rest ∨ y ∈ result) ∧ y.1.minSpecificity ≥ maxSourceSpec srcSpec x.1 ∧ sup y.1 x.1 = true) := by
  intro rest
  induction rest with
  | nil => intro result n x h; cases h
  | cons y earlier ih =>
    intro result n x hx
    obtain ⟨c1, fl⟩ := y
    rcases List.mem_cons.1 hx with e | hx'
    · subst e
      cases fl with
      | true =>
        unfold trimGo
        split
        · rename_i f rest' hp
          obtain ⟨e, _⟩ := pullOut_sem c1 ⟨⟨⟨[], none, [], [], [], none⟩, []⟩, []⟩ n result f rest' hp
          exact Or.inr (Or.inl ⟨rfl, f, trimGo_keeps sup srcSpec _ _ _ f (by simp), e⟩)
        · exact Or.inl (trimGo_keeps sup srcSpec _ _ _ _ (by simp))
      | false =>
        unfold trimGo
        simp only
        split
        · rename_i hcov
          simp only [Bool.or_eq_true, List.any_eq_true, Bool.and_eq_true, decide_eq_true_eq] at hcov
          rcases hcov with ⟨c2, h2, hs, hp⟩ | ⟨c2, h2, hs, hp⟩
          · exact Or.inr (Or.inr ⟨trivial, c2, Or.inr h2, hs, hp⟩)
          · exact Or.inr (Or.inr ⟨trivial, c2, Or.inl (List.mem_cons_of_mem _ h2), hs, hp⟩)
        · exact Or.inl (trimGo_keeps sup srcSpec _ _ _ _ (by simp))
    · have widen : ∀ (result' : List Flagged), (∀ y, y ∈ result' → y = (c1, fl) ∨ y ∈ result) →
          (x.2 = false ∧ ∃ y, (y ∈ earlier ∨ y ∈ result') ∧ y.1.minSpecificity ≥ maxSourceSpec srcSpec x.1 ∧ sup y.1 x.1 = true) →
          (x.2 = false ∧ ∃ y, (y ∈ (c1, fl) :: earlier ∨ y ∈ result) ∧ y.1.minSpecificity ≥ maxSourceSpec srcSpec x.1 ∧ sup y.1 x.1 = true) := by
        intro result' hsub ⟨h1, y, hy, h2, h3⟩
        refine ⟨h1, y, ?_, h2, h3⟩
        rcases hy with hy | hy
        · exact Or.inl (List.mem_cons_of_mem _ hy)
        · rcases hsub y hy with e | hr
          · exact Or.inl (by simp [e])
          · exact Or.inr hr
      cases fl with
      | true =>
        unfold trimGo
        split
        · rename_i f rest' hp
          rcases ih (f :: rest') n x hx' with h | h | h
          · exact Or.inl h
          · exact Or.inr (Or.inl h)
          · exact Or.inr (Or.inr (widen _ (fun y hy => Or.inr (pullOut_mem c1 n result f rest' hp y hy)) h))
        · rcases ih ((c1, true) :: result) (n + 1) x hx' with h | h | h
          · exact Or.inl h
          · exact Or.inr (Or.inl h)
          · exact Or.inr (Or.inr (widen _ (fun y hy => by simpa using hy) h))
      | false =>
        unfold trimGo
        simp only
        split
        · rcases ih result n x hx' with h | h | h
          · exact Or.inl h
          · exact Or.inr (Or.inl h)
          · exact Or.inr (Or.inr (widen _ (fun y hy => Or.inr hy) h))
        · rcases ih ((c1, false) :: result) n x hx' with h | h | h
          · exact Or.inl h
          · exact Or.inr (Or.inl h)
          · exact Or.inr (Or.inr (widen _ (fun y hy => by simpa using hy) h))

/-- **second law, as `trim` (mod.rs:775) implements it**: of the selectors handed to `trim`, an ORIGINAL one is
    never lost (it, or an equal copy, is kept), and a GENERATED one is dropped only if some other selector of
    the same list is its superselector AND is at least as specific as the extender that produced the dropped
    one (`min_specificity ≥ max over its simples of source_specificity`, mod.rs:815–848) — so trimming
    never lowers the specificity with which an element is matched below the extender's. -/
theorem C10_trim_second_law (sup : Complex → Complex → Bool) (srcSpec : Simple → Nat) (sels : List Flagged)
    (x : Flagged) (hx : x ∈ sels) :
    x ∈ trim sup srcSpec sels ∨
    (x.2 = true ∧ ∃ y ∈ trim sup srcSpec sels, y.1 = x.1) ∨
    (x.2 = false ∧ ∃ y ∈ sels, y.1.minSpecificity ≥ maxSourceSpec srcSpec x.1 ∧ sup y.1 x.1 = true) := by
  unfold trim
  split
  · exact Or.inl hx
  · rcases trimGo_floor sup srcSpec sels.reverse [] 0 x (by simpa using hx) with h | h | ⟨h1, y, hy, h2⟩
    · exact Or.inl h
    · exact Or.inr (Or.inl h)
    · refine Or.inr (Or.inr ⟨h1, y, ?_, h2⟩)
      rcases hy with hy | hy
      · simpa using hy
      · cases hy

-- non-vacuity: `a b` (generated, source specificity 1) is dropped for `b`; with source specificity 1001 it is kept
example : trim (isSuperComplex0 false) (fun _ => 1)
    [([.compound [.type ['b']]], true), ([.compound [.type ['a']], .compound [.type ['b']]], false)]
    = [([.compound [.type ['b']]], true)] := by decide +kernel
example : trim (isSuperComplex0 false) (fun _ => 1001)
    [([.compound [.type ['b']]], true), ([.compound [.type ['a']], .compound [.type ['b']]], false)]
    = [([.compound [.type ['b']]], true), ([.compound [.type ['a']], .compound [.type ['b']]], false)] := by decide +kernel

/-! ### monotonicity through any number of re-extensions -/

theorem cList_of_matches (E : Compound) (T : Simple) (L : SelList) (hL : ∀ X ∈ L, noSelX X = true) (p : Ctx)
    (hm : matchesList L p = true) : cList (credit1 E T) L p = true := by
  unfold cList
  unfold matchesList at hm
  rw [List.any_eq_true] at hm ⊢
  obtain ⟨X, hX, hXm⟩ := hm
  refine ⟨X, hX, ?_⟩
  rw [cComplex_credC _ _ _ (hL X hX)]
  obtain ⟨q, hq⟩ := (matchesComplex_GLX X p).1 hXm
  refine ⟨q, ?_⟩
  exact GLX_mono mComp (credC E T) (fun c q h => by
    simp only [credC, List.all_eq_true, Bool.or_eq_true]
    intro s hs; exact Or.inl (mComp_mem h hs)) X q p hq

/-- **monotonicity of extension** (selectors without `:not()` — here: without any selector pseudo): whatever a
    selector matched before is still matched after ANY number of successive (re-)extensions, chains included. -/
theorem C10_monotone_chain (sw : Switches) (hsw : sw.supAsFound = false) (m : Option Nat)
    (steps : List (Ext × Name × List Ext)) (l out : List Flagged) (h : ChainRun sw m steps l out) (p : Ctx)
    (hm : matchesList (l.map (·.1)) p = true) : matchesList (out.map (·.1)) p = true := by
  induction h with
  | nil l => exact hm
  | cons e n all rest l l' l'' ht hE hn hl hx _ ih =>
    apply ih
    rw [extendList_sem sw hsw e all hE m l l' hl hx p]
    apply cList_of_matches _ _ _ _ p hm
    intro X hX
    simp only [List.mem_map] at hX
    obtain ⟨x, hx', rfl⟩ := hX
    exact hl x hx'

/-! ### @media: the general statement -/

/-- **extension stays inside its `@media` block** (specified variant, any extender, target and media contexts): an
    extension declared inside `@media m` never rewrites the compound `T` of a rule in another media context (or at the
    top level) — the run stops with "You may not @extend selectors across media queries." — while the code as found
    (D16, `assert_compatible_media_context` commented out, extension.rs:68) rewrites it to `T, E`. -/
theorem C10_media_confined_general (e : Ext) (all : List Ext) (mm : Nat) (rm : Option Nat) (io : Bool)
    (hm : e.media = some mm) (hr : rm ≠ some mm) :
    extendCompound Switches.spec [e] all rm io [e.target] = .error .crossMedia ∧
    extendCompound Switches.asFound [e] all rm io [e.target]
      = .ok (some [[.compound [e.target]], [.compound e.extender]]) := by
  simp [extendCompound, buildOptions, extendersOf, checkMedia, mediaOk, origOpt, extOpt, Switches.spec,
    Switches.asFound, hm, hr]

/-- … and inside the same block, or for an extension declared at the top level, it applies -/
theorem C10_media_same_block_applies (sw : Switches) (e : Ext) (all : List Ext) (rm : Option Nat) (io : Bool)
    (hm : e.media = none ∨ e.media = rm) :
    extendCompound sw [e] all rm io [e.target] = .ok (some [[.compound [e.target]], [.compound e.extender]]) := by
  rcases hm with hm | hm
  · simp [extendCompound, buildOptions, extendersOf, checkMedia, mediaOk, origOpt, extOpt, hm]
  · cases hr : rm <;> simp [extendCompound, buildOptions, extendersOf, checkMedia, mediaOk, origOpt, extOpt, hm, hr]

example : extendCompound Switches.spec [⟨[.cls ['b']], .cls ['a'], false, some 1⟩] [] none true [.cls ['a']]
    = .error .crossMedia :=
  (C10_media_confined_general ⟨[.cls ['b']], .cls ['a'], false, some 1⟩ [] 1 none true rfl (by decide)).1

/-! ### chains and cycles as whole stylesheets (`extend_existing_extensions`, mod.rs:1042) -/

private def rCls (n : Char) (m : Option Nat := none) : Item := .rule [[.compound [.cls [n]]]] m
private def eCls (a b : Char) : Item := .extend [[.compound [.cls [a]]]] (.cls [b]) false none
private def sCls (l : List Char) : SelList := l.map fun n => [.compound [.cls [n]]]

/-- **a chain of three hops, whole stylesheets, every position of the target rule**: `.a{} .b{@extend .a}
    .c{@extend .b} .d{@extend .c}` — the model of `add_extension` with `extend_existing_extensions` (one structural
    pass over the extensions that mention the new target: no fuel, no fixpoint loop — the code has none) gives the
    rule `.a` all four members whether it is written first, last or in between. -/
theorem C10_chain_sheet_three_hops :
    runX ⟨Switches.spec, false⟩ [rCls 'a', rCls 'b', eCls 'b' 'a', rCls 'c', eCls 'c' 'b', rCls 'd', eCls 'd' 'c']
      = .ok [sCls ['a', 'b', 'c', 'd'], sCls ['b', 'c', 'd'], sCls ['c', 'd'], sCls ['d']] ∧
    runX ⟨Switches.spec, false⟩ [rCls 'b', eCls 'b' 'a', rCls 'c', eCls 'c' 'b', rCls 'd', eCls 'd' 'c', rCls 'a']
      = .ok [sCls ['b', 'c', 'd'], sCls ['c', 'd'], sCls ['d'], sCls ['a', 'b', 'c', 'd']] ∧
    runX ⟨Switches.spec, false⟩ [rCls 'd', eCls 'd' 'c', rCls 'b', eCls 'b' 'a', rCls 'a', rCls 'c', eCls 'c' 'b']
      = .ok [sCls ['d'], sCls ['b', 'c', 'd'], sCls ['a', 'b', 'c', 'd'], sCls ['c', 'd']] := by
  decide +kernel

/-- **a cycle terminates and closes**: `.a{@extend .b} .b{@extend .a}` followed by `.c{@extend .a}` — every member
    of the cycle ends up with all three selectors (the derived extensions `.b → .b`, `.c → .b` are registered by the
    single pass of `extend_existing_extensions`). -/
theorem C10_cycle_sheet_closes :
    runX ⟨Switches.spec, false⟩ [rCls 'a', eCls 'a' 'b', rCls 'b', eCls 'b' 'a', rCls 'c', eCls 'c' 'a']
      = .ok [sCls ['a', 'c', 'b'], sCls ['b', 'a', 'c'], sCls ['c']] := by
  decide +kernel

/-- Soundness of `weave` (open): every woven complex matches only contexts matched by each of the woven
    selectors read with the common target.  Proved so far: the single-component case
    (`C10_weave_singletons_concat`); the descendant/child fragment and the specified sibling variant are
    compared with grass (text) and judged by the credited-context oracle only. -/
def C10_weave_sound_full : Prop :=
  ∀ (p1 p2 : Complex) (t : Compound) (r : Complex) (p : Ctx),
    r ∈ (weaveParentsTop false p1 p2).getD [] → matchesComplex (r ++ [.compound t]) p = true →
      matchesComplex (p1 ++ [.compound t]) p = true ∧ matchesComplex (p2 ++ [.compound t]) p = true

end Grass.Extend
