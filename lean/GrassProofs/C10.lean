import Grass.Extend
import GrassProofs.Lemmas.SelSem
import GrassProofs.Lemmas.SelWalk
import GrassProofs.Lemmas.ExtSem
import GrassProofs.C11
/-
  C10 — @extend makes extenders match wherever the target matched, nothing else.

  Theorems are about the specified variant (`Switches.spec`); the as-found switches only appear in
  the `C10_asFound_…` witnesses.  PARTIAL: the model covers selectors without selector pseudos and
  extenders that are (lists of) single compounds; `weave`/`unify_complex` for complex extenders,
  `extend_pseudo` and extension chains are not modelled (`C10_full` below stays open) — they are
  covered by the semantic search on the implementation only.
-/
namespace Grass.Extend
open Grass.Selector

/-- The full property (open): for an arbitrary stylesheet, every rule's final selector matches
    exactly (single-compound extenders) / at most (complex extenders) the credited original. -/
def C10_full : Prop :=
  ∀ (items : List Item) (outs : List SelList), run Switches.spec items = .ok outs →
    ∀ (k : Nat) (S O : SelList) (p : Ctx),
      (items.filterMap fun | .rule s _ => some s | _ => none)[k]? = some S → outs[k]? = some O →
      (matchesList O p = true → cList (creditN (extPairs items) (extPairs items).length.succ) S p = true)

def mF (l : List Flagged) (p : Ctx) : Bool := l.any fun x => matchesComplex x.1 p

theorem pullOut_sem (c1 : Complex) (p : Ctx) :
    ∀ (n : Nat) (result : List Flagged) (f : Flagged) (rest : List Flagged),
      pullOut c1 n result = some (f, rest) → f.1 = c1 ∧ mF (f :: rest) p = mF result p := by
  intro n
  induction n with
  | zero => intro result f rest h; simp [pullOut] at h
  | succ n ih =>
    intro result f rest h
    cases result with
    | nil => simp [pullOut] at h
    | cons r rs =>
      unfold pullOut at h
      split at h
      · rename_i hr
        injection h with h; injection h with h1 h2; subst h1 h2
        exact ⟨hr, rfl⟩
      · split at h
        · rename_i f' rest' hp
          injection h with h; injection h with h1 h2; subst h1 h2
          obtain ⟨e, hm⟩ := ih rs f' rest' hp
          refine ⟨e, ?_⟩
          simp only [mF, List.any_cons] at hm ⊢
          rw [← hm]
          cases matchesComplex f'.1 p <;> cases matchesComplex r.1 p <;> simp
        · cases h

theorem trimGo_sem (sup : Complex → Complex → Bool) (srcSpec : Simple → Nat) (p : Ctx)
    (hsup : ∀ a b, sup a b = true → matchesComplex b p = true → matchesComplex a p = true) :
    ∀ (rest result : List Flagged) (n : Nat),
      mF (trimGo sup srcSpec rest result n) p = (mF rest p || mF result p) := by
  intro rest
  induction rest with
  | nil => intro result n; simp [trimGo, mF]
  | cons x earlier ih =>
    intro result n
    obtain ⟨c1, fl⟩ := x
    cases fl with
    | true =>
      unfold trimGo
      split
      · rename_i f rest' hp
        obtain ⟨e, hm⟩ := pullOut_sem c1 p n result f rest' hp
        rw [ih, hm]
        have : matchesComplex c1 p = true → mF result p = true := by
          intro hc
          rw [← hm]; simp [mF, e, hc]
        simp only [mF, List.any_cons] at this ⊢
        cases hc : matchesComplex c1 p <;> simp_all
      · rw [ih]
        simp only [mF, List.any_cons]
        cases matchesComplex c1 p <;> cases List.any earlier _ <;> simp
    | false =>
      unfold trimGo
      simp only
      split
      · rename_i hcov
        rw [ih]
        have hc : matchesComplex c1 p = true → (mF earlier p || mF result p) = true := by
          intro hm
          simp only [Bool.or_eq_true, List.any_eq_true, Bool.and_eq_true] at hcov
          rcases hcov with ⟨c2, h2, _, hs⟩ | ⟨c2, h2, _, hs⟩
          · have := hsup _ _ hs hm
            simp only [mF, Bool.or_eq_true, List.any_eq_true]
            exact Or.inr ⟨c2, h2, this⟩
          · have := hsup _ _ hs hm
            simp only [mF, Bool.or_eq_true, List.any_eq_true]
            exact Or.inl ⟨c2, h2, this⟩
        simp only [mF, List.any_cons] at hc ⊢
        cases hm : matchesComplex c1 p <;> simp_all
      · rw [ih]
        simp only [mF, List.any_cons]
        cases matchesComplex c1 p <;> cases List.any earlier _ <;> simp

/-- **trim keeps the set of matched elements**: whatever `trim` (mod.rs:775) drops is covered by
    what it keeps, provided the superselector test it uses is sound. -/
theorem C10_trim_preserves_matches (sup : Complex → Complex → Bool) (srcSpec : Simple → Nat)
    (sels : List Flagged) (p : Ctx)
    (hsup : ∀ a b, sup a b = true → matchesComplex b p = true → matchesComplex a p = true) :
    matchesList ((trim sup srcSpec sels).map (·.1)) p = matchesList (sels.map (·.1)) p := by
  have key : mF (trim sup srcSpec sels) p = mF sels p := by
    unfold trim
    split
    · rfl
    · rw [trimGo_sem sup srcSpec p hsup]
      simp [mF]
  simpa [mF, matchesList, List.any_map, Function.comp_def] using key

/-- … in particular with the specified superselector walk (sound by C11) -/
theorem C10_trim_preserves_matches_spec (srcSpec : Simple → Nat) (sels : List Flagged) (p : Ctx) :
    matchesList ((trim (isSuperComplex0 false) srcSpec sels).map (·.1)) p = matchesList (sels.map (·.1)) p :=
  C10_trim_preserves_matches _ srcSpec sels p (fun a b h hb => isSuperComplex0_sound a b p h hb)


/-! ### the extension of one compound by one extension `E → T` -/

/-- **compound level**: the alternatives `extend_compound` (mod.rs:355) produces for a compound
    match exactly the elements the compound matches once elements matched by `E` are credited
    with `T` — this uses both directions of C11's `unifyCompound` theorems (`unify` is exact, and
    `none` only for empty intersections) and the soundness of `trim`. -/
theorem C10_extendCompound_iff (sw : Switches) (hsw : sw.supAsFound = false) (e : Ext) (hE : e.extender ≠ [])
    (m : Option Nat) (inO : Bool) (c : Compound) (p : Ctx) :
    match extendCompound sw [e] m inO c with
    | .ok (some alts) => alts.any (matchesComplex · p) = credC e.extender e.target c p
    | .ok none => credC e.extender e.target c p = mComp c p
    | .error _ => True := by
  generalize hr : extendCompound sw [e] m inO c = r
  unfold extendCompound at hr
  have hb := buildOptions_sem e p c [] none
  have hne := buildOptions_ne e hE c [] none (by intro v hv; cases hv)
  cases hbo : buildOptions [e] [] c none with
  | none =>
    rw [hbo] at hb hr
    simp only at hr; subst hr
    exact hb.2
  | some options =>
    rw [hbo] at hb hr
    simp only [mComp, Bool.true_and] at hb
    have hne := hne options hbo
    simp only at hr
    split at hr
    · rename_i single
      split at hr
      · subst hr
        simp only [List.any_map, Function.comp_def, matchesComplex_single]
        rw [← hb]; simp [optSem]
      · subst hr; trivial
    · split at hr
      · rename_i hp
        exact absurd hp (paths_ne_nil options (fun ch hch => (hne ch hch).1))
      · rename_i first others hp
        split at hr
        · subst hr
          simp only
          have htrim := C10_trim_preserves_matches (isSuperComplex0 sw.supAsFound) (srcSpecOf [e])
            (([Component.compound (first.flatMap (·.comp))], inO) ::
              (others.filterMap fun q => (unifyPath q).map fun u => (q, u)).map fun pu => ([Component.compound pu.2], false)) p
            (by intro a b h hb'; rw [hsw] at h; exact isSuperComplex0_sound a b p h hb')
          simp only [matchesList] at htrim
          rw [htrim]
          simp only [List.map_cons, List.any_cons, List.map_map, List.any_map, Function.comp_def, matchesComplex_single]
          have hmem : ∀ path ∈ others, (∀ o ∈ path, o.comp ≠ []) ∧ path ≠ [] := by
            intro path hpath
            have hin : path ∈ paths options := by rw [hp]; simp [hpath]
            refine ⟨paths_mem (fun o => o.comp ≠ []) options (fun ch hch => (hne ch hch).2) path hin, ?_⟩
            have hl := paths_length options path hin
            intro hnil; rw [hnil] at hl
            cases options with
            | nil => simp [paths] at hp; rw [hp.2] at hpath; simp at hpath
            | cons _ _ => simp at hl
          rw [filterMap_unify_any others p hmem, mComp_flatMap]
          have := paths_any_all (fun (o : Opt) => mComp o.comp p) options
          rw [hp] at this
          simp only [List.any_cons] at this
          rw [this, ← hb]; rfl
        · subst hr; trivial

/-! ### placeholders -/

theorem invisC_eq_any (c : Compound) : invisC c = c.any invisS := by
  induction c with
  | nil => simp [invisC]
  | cons s ss ih => simp [invisC, ih]

/-- **placeholders never reach the output**: a complex that `serialise`/the driver's `selOut`
    (list.rs:47 filter) lets through has no placeholder among its simple selectors. -/
theorem C10_placeholders_never_serialised (l : SelList) :
    ∀ x ∈ l.filter (fun c => !c.isInvisible), ∀ s ∈ simplesOf x, s.isPlaceholder = false := by
  intro x hx s hs
  simp only [List.mem_filter, Bool.not_eq_true', Complex.isInvisible] at hx
  have hx2 := hx.2
  simp only [simplesOf, List.mem_flatMap] at hs
  obtain ⟨cp, hcp, hs⟩ := hs
  cases cp with
  | comb cb => simp at hs
  | compound c =>
    simp only at hs
    have h1 : Component.isInvisible (.compound c) = false := by
      cases h : Component.isInvisible (.compound c) with
      | false => rfl
      | true =>
        have : x.any Component.isInvisible = true := List.any_eq_true.2 ⟨_, hcp, h⟩
        rw [hx2] at this; cases this
    simp only [Component.isInvisible, invisC_eq_any] at h1
    have h2 : invisS s = false := by
      cases h : invisS s with
      | false => rfl
      | true =>
        have : c.any invisS = true := List.any_eq_true.2 ⟨_, hs, h⟩
        rw [h1] at this; cases this
    cases s <;> simp_all [invisS, Simple.isPlaceholder]

example : serialise [[.compound [.placeholder ['p']], .compound [.cls ['a']]], [.compound [.cls ['b']]]]
    = ['.', 'b'] := by decide +kernel

/-! ### mandatory extensions (D18) -/

/-- **extending a missing target is an error unless `!optional`** (specified variant): once all
    rules and extensions are registered, the run fails with `missingTarget` exactly when some
    extension that is not optional has a target occurring in no style rule. -/
theorem C10_missing_target_error_unless_optional (items : List Item) (st : Store)
    (h : runItems Switches.spec ⟨[], []⟩ items = .ok st) :
    (∃ e ∈ st.exts, e.optional = false ∧ targetFound st.rules e.target = false) ↔
      run Switches.spec items = .error .missingTarget := by
  unfold run
  rw [h]
  simp only [Switches.spec, Bool.not_false, Bool.true_and]
  constructor
  · intro ⟨e, he, h1, h2⟩
    have : (st.exts.any fun e => !e.optional && !targetFound st.rules e.target) = true :=
      List.any_eq_true.2 ⟨e, he, by simp [h1, h2]⟩
    simp [this]
  · intro hr
    split at hr
    · rename_i hc
      obtain ⟨e, he, hc⟩ := List.any_eq_true.1 hc
      exact ⟨e, he, by simpa using hc⟩
    · cases hr

private def ruleA : Item := .rule [[.compound [.type ['a']]]] none
private def extMissing (opt : Bool) : Item := .extend [[.compound [.type ['a']]]] (.cls ['m']) opt none

deriving instance DecidableEq for Except

example : run Switches.spec [ruleA, extMissing false] = .error .missingTarget := by decide +kernel
example : run Switches.spec [ruleA, extMissing true] = .ok [[[.compound [.type ['a']]]]] := by decide +kernel

/-- D18 as found: no "target not found" bookkeeping — `a {@extend .m}` compiles -/
theorem C10_asFound_missing_target_accepted :
    run Switches.asFound [ruleA, extMissing false] = .ok [[[.compound [.type ['a']]]]] ∧
    run Switches.spec [ruleA, extMissing false] = .error .missingTarget := by decide +kernel

/-! ### @media (D16) -/

private def ruleDotA : Item := .rule [[.compound [.cls ['a']]]] none
private def ruleDotB (m : Option Nat) : Item := .rule [[.compound [.cls ['b']]]] m
private def extBA (m : Option Nat) : Item := .extend [[.compound [.cls ['b']]]] (.cls ['a']) false m

/-- an `@extend` written inside `@media` does not reach a rule outside of it: the specified run is
    an error, extension from the top level or within the same block is accepted -/
theorem C10_media_confined :
    run Switches.spec [ruleDotA, ruleDotB (some 1), extBA (some 1)] = .error .crossMedia ∧
    run Switches.spec [.rule [[.compound [.cls ['a']]]] (some 1), ruleDotB (some 1), extBA (some 1)]
      = .ok [[[.compound [.cls ['a']]], [.compound [.cls ['b']]]], [[.compound [.cls ['b']]]]] ∧
    run Switches.spec [.rule [[.compound [.cls ['a']]]] (some 1), ruleDotB none, extBA none]
      = .ok [[[.compound [.cls ['a']]], [.compound [.cls ['b']]]], [[.compound [.cls ['b']]]]] := by
  decide +kernel

/-- D16 as found: `.a{x:y} @media screen{.b{@extend .a}}` rewrites the top-level rule to `.a, .b` -/
theorem C10_asFound_media_crossed :
    run Switches.asFound [ruleDotA, ruleDotB (some 1), extBA (some 1)]
      = .ok [[[.compound [.cls ['a']]], [.compound [.cls ['b']]]], [[.compound [.cls ['b']]]]] := by
  decide +kernel


private def extXB : Ext := ⟨[.cls ['b']], .cls ['a'], false, none⟩
example : extendCompound Switches.spec [extXB] none true [.type ['t'], .cls ['a'], .cls ['x']]
    = .ok (some [[.compound [.type ['t'], .cls ['a'], .cls ['x']]], [.compound [.type ['t'], .cls ['x'], .cls ['b']]]]) := by
  decide +kernel

end Grass.Extend
