import Grass.Cli
/-
  C20 — The command-line tool mirrors the library and signals failure correctly.

  PARTIAL by design: the theorems are about the model of `main` (Grass/Cli.lean): the map from
  flags to `Options`, the reading of the command line, and what `main` does with the library's
  result.  They are small; the assurance is mostly the tie (tools/props/c20.py runs the built
  binary against the library on the same inputs).  The operating-system side (exit status
  delivery, pipes, file permissions, clap's own parsing) is outside the model.
-/
namespace Grass.Cli

/-! ### flags → Options -/

/-- Each flag sets exactly its documented option: `--style` the style, `-I` the load paths in the
    order given, `-q` quiet, `--no-unicode` ⇒ `unicode_error_messages(false)`, `--no-charset` ⇒
    `allows_charset(false)`; nothing else is touched. -/
theorem C20_optionsOf_spec (f : Flags) :
    optionsOf true f =
      { style := f.style, loadPaths := f.loadPaths, quiet := f.quiet,
        unicodeErrorMessages := !f.noUnicode, allowsCharset := !f.noCharset } := by
  simp [optionsOf]

/-- Defaults: no flag given ⇒ expanded, no load paths, warnings on, Unicode messages, @charset allowed. -/
theorem C20_optionsOf_default :
    optionsOf true {} = { style := .expanded, loadPaths := [], quiet := false,
                          unicodeErrorMessages := true, allowsCharset := true } := by
  decide

/-- The variant that forgets the two negations is distinguishable: the spec theorem has content. -/
theorem C20_unnegated_variant_differs :
    ∃ f, optionsOf false f ≠ optionsOf true f := ⟨{}, by decide⟩

example : optionsOf true { style := .compressed, loadPaths := ["a", "b"], quiet := true, noUnicode := true } =
    { style := .compressed, loadPaths := ["a", "b"], quiet := true, unicodeErrorMessages := false, allowsCharset := true } := by
  decide

/-! ### reading the command line -/

theorem parseLoop_loadPaths (lps : List String) : ∀ (rest : List Tok) (st : PState),
    parseLoop (lps.flatMap (fun p => [Tok.loadPath, Tok.word p]) ++ rest) st =
      parseLoop rest { st with flags := { st.flags with loadPaths := st.flags.loadPaths ++ lps } } := by
  induction lps with
  | nil => intro rest st; simp
  | cons p ps ih =>
    intro rest st
    simp only [List.flatMap_cons, List.cons_append, List.nil_append, parseLoop, addLoadPath]
    rw [ih]
    simp [List.append_assoc]

theorem parseLoop_words (ws : List String) : ∀ (st : PState),
    parseLoop (ws.map Tok.word) st = .ok { st with positionals := st.positionals ++ ws } := by
  induction ws with
  | nil => intro st; simp [parseLoop]
  | cons w ws ih => intro st; simp [parseLoop, ih, List.append_assoc]

/-- What the parse loop makes of the canonical command line: exactly the flags it was rendered
    from (load paths in order) and the positionals in order. -/
theorem parseLoop_render (f : Flags) (ps : List String) :
    parseLoop (renderToks f ps) {} =
      .ok { flags := f, styleSeen := decide (f.style = .compressed), positionals := ps } := by
  obtain ⟨si, sty, lps, nc, q, nu⟩ := f
  unfold renderToks
  cases si <;> cases sty <;> cases nc <;> cases q <;> cases nu <;>
    simp [parseLoop, setStyle, styleOfValue, lower, parseLoop_loadPaths, parseLoop_words]

/-- **Round trip** (the code as it stands).  Parsing the canonical command line of a set of flags
    without `--stdin` gives back those flags (each flag read as itself, load-path order kept), the
    input and the output. -/
theorem C20_parse_render (f : Flags) (h : f.stdin = false) (input : String) (output : Option String) :
    parseToks false (renderToks f (input :: output.toList)) = .ok ⟨f, some input, output⟩ := by
  unfold parseToks
  rw [parseLoop_render]
  cases output <;> simp [assign, assignAsFound, h]

/-- With `--stdin`: no positional is needed; a single positional is the OUTPUT file; the source is
    stdin in both cases. -/
theorem C20_parse_render_stdin (f : Flags) (h : f.stdin = true) (output : Option String) :
    parseToks false (renderToks f output.toList) = .ok ⟨f, none, output⟩ ∧
    inputKind ⟨f, none, output⟩ = .stdin := by
  unfold parseToks
  rw [parseLoop_render]
  cases output <;> simp [assign, assignSpecStdin, h, inputKind]

/-- With `--stdin` two positionals are a usage error (`OUTPUT` conflicts with `--stdin`). -/
theorem C20_stdin_two_positionals_usage (f : Flags) (h : f.stdin = true) (a b : String) :
    ∃ why, parseToks false (renderToks f [a, b]) = .usage why := by
  unfold parseToks
  rw [parseLoop_render]
  exact ⟨"unexpected argument", by simp [assign, assignSpecStdin, h]⟩

/-- Without `--stdin` an input file is required (clap: `required_unless_present`). -/
theorem C20_input_required (f : Flags) (h : f.stdin = false) :
    ∃ why, parseToks false (renderToks f []) = .usage why := by
  unfold parseToks
  rw [parseLoop_render]
  exact ⟨"INPUT required", by simp [assign, assignAsFound, h]⟩

example : parseToks false [.loadPath, .word "x", .styleEq "Compressed", .loadPathEq "y", .quiet, .word "in.scss", .word "out.css"] =
    .ok ⟨{ style := .compressed, loadPaths := ["x", "y"], quiet := true }, some "in.scss", some "out.css"⟩ := by
  simp [parseToks, parseLoop, setStyle, styleOfValue, lower, addLoadPath, assign, assignAsFound]
example : parseToks false [.quiet, .quiet, .word "in.scss"] = .usage "flag given twice" := by
  simp [parseToks, parseLoop]
example : parseToks false [.style, .word "nested", .word "in.scss"] = .usage "invalid style value" := by
  simp [parseToks, parseLoop, setStyle, styleOfValue, lower]
-- the string-level classifier, evaluated (not a proof; tied to the binary by the correspondence run)
#guard parseArgv false ["-I", "x", "--style=Compressed", "-Iy", "-q", "in.scss", "out.css"] ==
  .ok ⟨{ style := .compressed, loadPaths := ["x", "y"], quiet := true }, some "in.scss", some "out.css"⟩
#guard parseArgv false ["--load-path=a b", "-t", "EXPANDED", "--no-unicode", "--no-charset", "--stdin"] ==
  .ok ⟨{ stdin := true, loadPaths := ["a b"], noUnicode := true, noCharset := true }, none, none⟩
#guard parseArgv false ["--stdin", "out.css"] == .ok ⟨{ stdin := true }, none, some "out.css"⟩
#guard parseArgv false ["--stdin", "a", "b"] == .usage "unexpected argument"
#guard parseArgv true ["--stdin", "out.css"] == .ok ⟨{ stdin := true }, some "out.css", none⟩
#guard parseArgv false ["--indented", "in.scss"] == .unsupported
#guard parseArgv false ["--frob", "in.scss"] == .usage "unexpected argument"
#guard renderArgv { stdin := true, style := .compressed, loadPaths := ["p", "q"], quiet := true } [] ==
  ["--stdin", "--style", "compressed", "-I", "p", "-I", "q", "--quiet"]

/-- As found on the pinned tree (before fix c1728ad), a positional after `--stdin` was the INPUT
    file (stdin was then never read) — there was no way to name an output file together with
    `--stdin`; the last conjunct is the code as it stands. -/
theorem C20_asFound_stdin_positional_is_input (f : Flags) (h : f.stdin = true) (out : String) :
    parseToks true (renderToks f [out]) = .ok ⟨f, some out, none⟩ ∧
    inputKind ⟨f, some out, none⟩ = .file ∧
    parseToks false (renderToks f [out]) = .ok ⟨f, none, some out⟩ := by
  unfold parseToks
  rw [parseLoop_render]
  simp [assign, assignAsFound, assignSpecStdin, h, inputKind]

/-! ### what a run does with the library's result -/

/-- On a compile or I/O error of the library: non-zero exit, nothing on stdout, the rendered
    error (plus newline) on stderr after the warnings, and no CSS in the output file (it is left
    empty — the file was created/truncated before compiling). -/
theorem C20_err_exit_nonzero_no_stdout (f : Flags) (i : InputKind) (o : OutputKind) (r w : String) :
    let out := outcome f i o (.err r w)
    out.exitZero = false ∧ out.stdout = "" ∧ (out.file = none ∨ out.file = some "") ∧
    (o ≠ .fileUnopenable → out.stderr = [.text w, .text (r ++ "\n")]) := by
  cases o <;> simp [outcome]

/-- On success: exit 0, the CSS — exactly the library's string — goes to the chosen sink and
    only there. -/
theorem C20_ok_exit_zero_css_to_sink (f : Flags) (i : InputKind) (css w : String) :
    (let out := outcome f i .stdout (.ok css w); out.exitZero = true ∧ out.stdout = css ∧ out.file = none) ∧
    (let out := outcome f i .file (.ok css w); out.exitZero = true ∧ out.stdout = "" ∧ out.file = some css) := by
  simp [outcome]

/-- Warnings never reach the CSS: stdout and the output file are the same whatever the logger
    wrote, and what it wrote is on stderr (first, because it is written while compiling). -/
theorem C20_warnings_not_in_css (f : Flags) (i : InputKind) (o : OutputKind) (w₁ w₂ : String) :
    (∀ css, (outcome f i o (.ok css w₁)).stdout = (outcome f i o (.ok css w₂)).stdout ∧
            (outcome f i o (.ok css w₁)).file = (outcome f i o (.ok css w₂)).file) ∧
    (∀ r, (outcome f i o (.err r w₁)).stdout = (outcome f i o (.err r w₂)).stdout ∧
          (outcome f i o (.err r w₁)).file = (outcome f i o (.err r w₂)).file) ∧
    (o ≠ .fileUnopenable → ∀ lib, (outcome f i o lib).stderr.head? = some (.text lib.warnings)) := by
  refine ⟨fun css => ?_, fun r => ?_, fun h lib => ?_⟩
  · cases o <;> simp [outcome]
  · cases o <;> simp [outcome]
  · cases o <;> cases lib <;> simp_all [outcome, LibResult.warnings]

/-- An output path that cannot be opened: non-zero exit, nothing on stdout, nothing compiled. -/
theorem C20_unopenable_output (f : Flags) (i : InputKind) (lib : LibResult) :
    outcome f i .fileUnopenable lib = { exitZero := false, stdout := "", stderr := [.osError], file := none } := by
  simp [outcome]

/-- Unreadable (non-UTF-8) stdin: non-zero exit, nothing on stdout, no CSS in the output file. -/
theorem C20_stdin_unreadable (o : OutputKind) :
    (outcomeStdinUnreadable o).exitZero = false ∧ (outcomeStdinUnreadable o).stdout = "" ∧
    (outcomeStdinUnreadable o).stderr = [.osError] ∧
    ((outcomeStdinUnreadable o).file = none ∨ (outcomeStdinUnreadable o).file = some "") := by
  cases o <;> simp [outcomeStdinUnreadable]

/-- A file argument and `--stdin` are treated alike once the library has been called. -/
theorem C20_input_kind_irrelevant (f : Flags) (o : OutputKind) (lib : LibResult) :
    outcome f .file o lib = outcome f .stdin o lib := by
  cases o <;> cases lib <;> rfl

/-! ### a sink whose writes fail (I/O error while delivering the CSS) -/

/-- Without a failing sink nothing changes. -/
theorem C20_outcomeIO_no_failure (b : Bool) (f : Flags) (i : InputKind) (o : OutputKind) (lib : LibResult) :
    outcomeIO b f i o lib false = outcome f i o lib := by
  simp [outcomeIO]

/-- **The code as it stands** (`flushChecked = true`: `main` flushes the sink and propagates the
    error, main.rs:270 since fix cea0756) behaves as specified: whenever there is
    CSS to deliver and the sink cannot take it, the exit status is non-zero, the operating-system
    error is on stderr (after the warnings), and nothing is reported as delivered. -/
theorem C20_sink_failure_exit_nonzero (f : Flags) (i : InputKind) (o : OutputKind) (css w : String)
    (ho : o ≠ .fileUnopenable) (hc : (css == "") = false) :
    let out := outcomeIO true f i o (.ok css w) true
    out.exitZero = false ∧ out.stderr = [.text w, .osError] ∧ out.stdout = "" ∧ out.file = none := by
  cases o <;> simp_all [outcomeIO]

/-- A library error is reported the same way whether or not the sink works (nothing is written). -/
theorem C20_sink_failure_lib_error (b : Bool) (f : Flags) (i : InputKind) (o : OutputKind) (r w : String)
    (ho : o ≠ .fileUnopenable) :
    let out := outcomeIO b f i o (.err r w) true
    out.exitZero = false ∧ out.stdout = "" ∧ out.stderr = [.text w, .text (r ++ "\n")] := by
  cases o <;> simp_all [outcomeIO]

/-- Where the variant found on the pinned tree (no flush) differs from the code as it stands now:
    exactly for non-empty CSS without a newline and shorter than stdout's buffer, sent to a
    failing stdout. -/
theorem C20_asFound_differs_iff (f : Flags) (i : InputKind) (o : OutputKind) (lib : LibResult) (sf : Bool) :
    outcomeIO false f i o lib sf ≠ outcomeIO true f i o lib sf ↔
      (sf = true ∧ o = .stdout ∧ ∃ css w, lib = .ok css w ∧ unterminatedSmall css = true) := by
  constructor
  · intro h
    cases sf
    · simp [outcomeIO] at h
    · cases o <;> cases lib <;> simp_all [outcomeIO]
      rename_i css w
      by_cases hs : unterminatedSmall css = true
      · exact hs
      · simp_all
  · rintro ⟨rfl, rfl, css, w, rfl, hs⟩
    have hne : (css == "") = false := by
      unfold unterminatedSmall at hs
      simp only [Bool.and_eq_true, bne_iff_ne, ne_eq] at hs
      simpa using hs.1.1
    simp [outcomeIO, hs, hne]

/-- As found on the pinned tree (before fix cea0756): `a{b:c}` (compressed output, 6 bytes, no
    newline) to a full stdout exits 0 with an empty stderr although nothing was delivered — the
    clause "on any I/O error it exits non-zero, prints the error on stderr" fails; the repaired
    code (`flushChecked = true`) exits non-zero. -/
theorem C20_asFound_unflushed_stdout_swallows_error :
    (outcomeIO false {} .file .stdout (.ok "a{b:c}" "") true).exitZero = true ∧
    (outcomeIO false {} .file .stdout (.ok "a{b:c}" "") true).stderr = [.text ""] ∧
    (outcomeIO true {} .file .stdout (.ok "a{b:c}" "") true).exitZero = false := by
  simp [outcomeIO, unterminatedSmall]
  decide

example : outcomeIO false {} .file .stdout (.ok "a {\n  b: c;\n}\n" "") true =
    { exitZero := false, stdout := "", stderr := [.text "", .osError], file := none } := by
  simp [outcomeIO, unterminatedSmall]
#guard agrees (outcomeIO true {} .file .file (.ok "a{b:c}" "W\n") true) ⟨1, "", "W\nError: Os { code: 28 }", none⟩
#guard !agrees (outcomeIO true {} .file .stdout (.ok "a{b:c}" "") true) ⟨0, "", "", none⟩
#guard agrees (outcomeIO false {} .file .stdout (.ok "a{b:c}" "") true) ⟨0, "", "", none⟩

/-- P̂ accepts exactly the model's own outcome (sanity of the oracle the driver evaluates). -/
theorem C20_agrees_outcome (f : Flags) (i : InputKind) (o : OutputKind) (lib : LibResult) (h : o ≠ .fileUnopenable) :
    agrees (outcome f i o lib)
      ⟨if (outcome f i o lib).exitZero then 0 else 1, (outcome f i o lib).stdout,
       stderrText (outcome f i o lib), (outcome f i o lib).file⟩ = true := by
  cases o <;> cases lib <;> simp_all [outcome, agrees, stderrText]

example : outcome {} .file .stdout (.err "Error: x" "Warning: w\n") =
    { exitZero := false, stdout := "", stderr := [.text "Warning: w\n", .text "Error: x\n"], file := none } := by decide
example : agrees (outcome {} .file .file (.ok "a{b:c}" "")) ⟨0, "", "", some "a{b:c}"⟩ = true := by decide
example : agrees (outcome {} .file .stdout (.ok "a{b:c}" "")) ⟨0, "a{b:c}Warning", "", none⟩ = false := by decide
example : agrees (outcome {} .file .stdout (.err "E" "")) ⟨0, "", "E\n", none⟩ = false := by decide

end Grass.Cli
