import Grass.Cli
/-
  C20 — The command-line tool mirrors the library and signals failure correctly.

  PARTIAL by design: the theorems are about the model of `main` (Grass/Cli.lean): the map from
  flags to `Options`, the reading of the command line, and what `main` does with the library's
  result.  They are small; the assurance is mostly the tie (tools/props/c20.py runs the built
  binary against the library on the same inputs).  The operating-system side (exit status
  delivery, pipes, file permissions, clap's own parsing) is outside the model.
-/
namespace Grass.Cli

/-! ### flags → Options -/

/-- Each flag sets exactly its documented option: `--style` the style, `-I` the load paths in the
    order given, `-q` quiet, `--no-unicode` ⇒ `unicode_error_messages(false)`, `--no-charset` ⇒
    `allows_charset(false)`; nothing else is touched. -/
theorem C20_optionsOf_spec (f : Flags) :
    optionsOf true f =
      { style := f.style, loadPaths := f.loadPaths, quiet := f.quiet,
        unicodeErrorMessages := !f.noUnicode, allowsCharset := !f.noCharset } := by
  simp [optionsOf]

/-- Defaults: no flag given ⇒ expanded, no load paths, warnings on, Unicode messages, @charset allowed. -/
theorem C20_optionsOf_default :
    optionsOf true {} = { style := .expanded, loadPaths := [], quiet := false,
                          unicodeErrorMessages := true, allowsCharset := true } := by
  decide

/-- The variant that forgets the two negations is distinguishable: the spec theorem has content. -/
theorem C20_unnegated_variant_differs :
    ∃ f, optionsOf false f ≠ optionsOf true f := ⟨{}, by decide⟩

example : optionsOf true { style := .compressed, loadPaths := ["a", "b"], quiet := true, noUnicode := true } =
    { style := .compressed, loadPaths := ["a", "b"], quiet := true, unicodeErrorMessages := false, allowsCharset := true } := by
  decide

/-- The flag → `Options` map read off the table of builder calls of main.rs:229-234 (regenerated from the
    source) is the hand-written one: every call present, each reading its own argument, negations as written. -/
theorem C20_optionsOf_table_driven (f : Flags) :
    optionsOfWith generated.optionCalls f = some (optionsOf true f) := by
  simp [optionsOfWith, generated, Grass.CliTable.optionCalls, readsOf, boolCall, flagVal, optionsOf, List.find?]

example : optionsOfWith generated.optionCalls { quiet := true, noUnicode := true } =
    some { style := .expanded, loadPaths := [], quiet := true, unicodeErrorMessages := false, allowsCharset := true } := by
  decide

/-! ### the table -/

/-- **The model's parser is the table-driven one.**  The table the model runs on (`spec`, written by hand
    from the documented command line) equals the table `tools/translate_cli.py` regenerates from
    crates/lib/src/main.rs on every run — every argument's id, long and short names, action (takes a value /
    may repeat), hidden, default, case-insensitivity, possible values, conflicts, required-unless; the
    `Options` builder calls; which positional is INPUT/OUTPUT; how the output file is opened; the order of
    the effectful expressions of `main` — hence parsing with either table is the same function.  A new,
    renamed, re-defaulted or re-wired flag in main.rs makes this theorem fail. -/
theorem C20_parse_table_driven :
    spec = generated ∧ ∀ (asFound : Bool) (argv : List String), parseArgv asFound argv = parseArgvWith generated asFound argv := by
  have h : spec = generated := by decide
  exact ⟨h, fun b argv => by unfold parseArgv; rw [h]⟩

example : parseArgvWith generated false ["-qscompressed", "-I=x", "in.scss"] =
    .ok ⟨{ style := .compressed, loadPaths := ["x"], quiet := true }, some "in.scss", none⟩ := by decide

/-- What the table says about repetition: only `-I` or `--load-path` (clap `Append`) may be given more than once. -/
theorem C20_table_repeatable :
    repeatable spec "LOAD_PATH" = true ∧ repeatable spec "STDIN" = false ∧ repeatable spec "STYLE" = false ∧
    repeatable spec "QUIET" = false ∧ repeatable spec "NO_CHARSET" = false ∧ repeatable spec "NO_UNICODE" = false := by decide

/-- The documented spellings, classified by the table-driven tokenizer (finite table: `decide`). -/
theorem C20_tokenize_documented :
    tokenize "--stdin" = [.stdin] ∧ tokenize "--no-charset" = [.noCharset] ∧ tokenize "--no-unicode" = [.noUnicode] ∧
    tokenize "--quiet" = [.quiet] ∧ tokenize "-q" = [.quiet] ∧
    tokenize "--style" = [.style] ∧ tokenize "-s" = [.style] ∧ tokenize "-t" = [.style] ∧
    tokenize "--load-path" = [.loadPath] ∧ tokenize "-I" = [.loadPath] ∧
    tokenize "--style=compressed" = [.styleEq "compressed"] ∧ tokenize "--load-path=a b" = [.loadPathEq "a b"] ∧
    tokenize "-Ilib" = [.loadPathEq "lib"] ∧ tokenize "-I=lib" = [.loadPathEq "lib"] ∧
    tokenize "-qscompressed" = [.quiet, .styleEq "compressed"] ∧
    tokenize "in.scss" = [.word "in.scss"] ∧ tokenize "-" = [.word "-"] ∧
    tokenize "--frob" = [.unknownLong] ∧ tokenize "-x" = [.unknownLong] ∧ tokenize "--quiet=1" = [.unknownLong] ∧
    tokenize "--indented" = [.outside] ∧ tokenize "--help" = [.outside] ∧ tokenize "-v" = [.outside] := by decide

theorem styleOfValue_compressed : styleOfValue "compressed" = some .compressed := by decide
theorem sov_compressed : styleOfValueWith spec "compressed" = some .compressed := by decide
theorem styleOfValue_expanded : styleOfValue "expanded" = some .expanded := by decide
theorem initState_spec : initStateWith spec = some {} := by decide
theorem rep_lp : repeatable spec "LOAD_PATH" = true := by decide
theorem rep_stdin : repeatable spec "STDIN" = false := by decide
theorem rep_style : repeatable spec "STYLE" = false := by decide
theorem rep_quiet : repeatable spec "QUIET" = false := by decide
theorem rep_nc : repeatable spec "NO_CHARSET" = false := by decide
theorem rep_nu : repeatable spec "NO_UNICODE" = false := by decide

/-- `--style` accepts exactly the two values of main.rs's `ValueEnum`, in any letter case. -/
theorem C20_style_values :
    styleOfValue "expanded" = some .expanded ∧ styleOfValue "compressed" = some .compressed ∧
    styleOfValue "COMPRESSED" = some .compressed ∧ styleOfValue "Expanded" = some .expanded ∧
    styleOfValue "nested" = none ∧ styleOfValue "" = none ∧ styleOfValue "compact" = none := by decide

/-- The positional rules read off the table (`required_unless_present("STDIN")` on INPUT,
    `conflicts_with("STDIN")` on OUTPUT, main.rs:237-244 for which is which) are the hand-written ones. -/
theorem assignWith_spec (f : Flags) (ps : List String) : assignWith spec f ps = assign false f ps := by
  have hpos : spec.args.filter Grass.CliTable.ArgSpec.positional =
      [{ id := "INPUT", requiredUnless := ["STDIN"] }, { id := "OUTPUT", conflicts := ["STDIN"] }] := by decide
  unfold assignWith
  rw [hpos]
  match ps with
  | [] => cases h : f.stdin <;> simp [assign, assignAsFound, assignSpecStdin, presentOf, lookupBound, spec, h]
  | [a] => cases h : f.stdin <;> simp [assign, assignAsFound, assignSpecStdin, presentOf, lookupBound, spec, h]
  | [a, b] => cases h : f.stdin <;> simp [assign, assignAsFound, assignSpecStdin, presentOf, lookupBound, spec, h]
  | _ :: _ :: _ :: _ => cases h : f.stdin <;> simp [assign, assignAsFound, assignSpecStdin, h]

theorem C20_positionals_table_driven (f : Flags) (ps : List String) :
    assignWith generated f ps = assign false f ps := by
  rw [← C20_parse_table_driven.1]; exact assignWith_spec f ps

theorem parseToks_eq (asFound : Bool) (toks : List Tok) :
    parseToks asFound toks = match parseLoop spec toks {} with
      | .error e => e
      | .ok st => assign asFound st.flags st.positionals := by
  unfold parseToks parseToksWith
  rw [initState_spec]
  cases asFound <;> simp [assignWith_spec] <;> rfl

/-! ### reading the command line -/

theorem parseLoop_loadPaths (lps : List String) : ∀ (rest : List Tok) (st : PState),
    parseLoop spec (lps.flatMap (fun p => [Tok.loadPath, Tok.word p]) ++ rest) st =
      parseLoop spec rest { st with flags := { st.flags with loadPaths := st.flags.loadPaths ++ lps } } := by
  induction lps with
  | nil => intro rest st; simp
  | cons p ps ih =>
    intro rest st
    simp only [List.flatMap_cons, List.cons_append, List.nil_append, parseLoop, addLoadPath, rep_lp]
    simp only [Bool.not_true, Bool.and_false, Bool.false_eq_true, if_false]
    rw [ih]
    simp [List.append_assoc]

theorem parseLoop_words (ws : List String) : ∀ (st : PState),
    parseLoop spec (ws.map Tok.word) st = .ok { st with positionals := st.positionals ++ ws } := by
  induction ws with
  | nil => intro st; simp [parseLoop]
  | cons w ws ih => intro st; simp [parseLoop, ih, List.append_assoc]

/-- What the parse loop makes of the canonical command line: exactly the flags it was rendered
    from (load paths in order) and the positionals in order. -/
theorem parseLoop_render (f : Flags) (ps : List String) :
    parseLoop spec (renderToks f ps) {} =
      .ok { flags := f, styleSeen := decide (f.style = .compressed), positionals := ps } := by
  obtain ⟨si, sty, lps, nc, q, nu⟩ := f
  unfold renderToks
  cases si <;> cases sty <;> cases nc <;> cases q <;> cases nu <;>
    simp [parseLoop, setStyle, sov_compressed, rep_style, rep_stdin, rep_quiet, rep_nc, rep_nu, parseLoop_loadPaths, parseLoop_words]

/-- **Round trip** (the code as it stands).  Parsing the canonical command line of a set of flags
    without `--stdin` gives back those flags (each flag read as itself, load-path order kept), the
    input and the output. -/
theorem C20_parse_render (f : Flags) (h : f.stdin = false) (input : String) (output : Option String) :
    parseToks false (renderToks f (input :: output.toList)) = .ok ⟨f, some input, output⟩ := by
  rw [parseToks_eq, parseLoop_render]
  cases output <;> simp [assign, assignAsFound, h]

/-- With `--stdin`: no positional is needed; a single positional is the OUTPUT file; the source is
    stdin in both cases. -/
theorem C20_parse_render_stdin (f : Flags) (h : f.stdin = true) (output : Option String) :
    parseToks false (renderToks f output.toList) = .ok ⟨f, none, output⟩ ∧
    inputKind ⟨f, none, output⟩ = .stdin := by
  rw [parseToks_eq, parseLoop_render]
  cases output <;> simp [assign, assignSpecStdin, h, inputKind]

/-- With `--stdin` two positionals are a usage error (`OUTPUT` conflicts with `--stdin`). -/
theorem C20_stdin_two_positionals_usage (f : Flags) (h : f.stdin = true) (a b : String) :
    ∃ why, parseToks false (renderToks f [a, b]) = .usage why := by
  rw [parseToks_eq, parseLoop_render]
  exact ⟨"unexpected argument", by simp [assign, assignSpecStdin, h]⟩

/-- Without `--stdin` an input file is required (clap: `required_unless_present`). -/
theorem C20_input_required (f : Flags) (h : f.stdin = false) :
    ∃ why, parseToks false (renderToks f []) = .usage why := by
  rw [parseToks_eq, parseLoop_render]
  exact ⟨"INPUT required", by simp [assign, assignAsFound, h]⟩

example : parseToks false [.loadPath, .word "x", .styleEq "Compressed", .loadPathEq "y", .quiet, .word "in.scss", .word "out.css"] =
    .ok ⟨{ style := .compressed, loadPaths := ["x", "y"], quiet := true }, some "in.scss", some "out.css"⟩ := by decide
example : parseToks false [.quiet, .quiet, .word "in.scss"] = .usage "flag given twice" := by decide
example : parseToks false [.style, .word "nested", .word "in.scss"] = .usage "invalid style value" := by decide
example : parseToks false [.style, .quiet, .word "in.scss"] = .usage "missing value" := by decide
-- the string-level classifier, evaluated (not a proof; tied to the binary by the correspondence run)
#guard parseArgv false ["-I", "x", "--style=Compressed", "-Iy", "-q", "in.scss", "out.css"] ==
  .ok ⟨{ style := .compressed, loadPaths := ["x", "y"], quiet := true }, some "in.scss", some "out.css"⟩
#guard parseArgv false ["--load-path=a b", "-t", "EXPANDED", "--no-unicode", "--no-charset", "--stdin"] ==
  .ok ⟨{ stdin := true, loadPaths := ["a b"], noUnicode := true, noCharset := true }, none, none⟩
#guard parseArgv false ["--stdin", "out.css"] == .ok ⟨{ stdin := true }, none, some "out.css"⟩
#guard parseArgv false ["--stdin", "a", "b"] == .usage "unexpected argument"
#guard parseArgv true ["--stdin", "out.css"] == .ok ⟨{ stdin := true }, some "out.css", none⟩
#guard parseArgv false ["--indented", "in.scss"] == .unsupported
#guard parseArgv false ["--", "--stdin"] == .ok ⟨{}, some "--stdin", none⟩
#guard parseArgv false ["-I", "--", "in.scss"] == .usage "missing value"
#guard parseArgv false ["-I", "-", "in.scss"] == .ok ⟨{ loadPaths := ["-"] }, some "in.scss", none⟩
#guard parseArgv false ["-x", "in.scss"] == .usage "unexpected argument"
#guard parseArgvRaw false [none, some "in.scss"] == .usage "invalid UTF-8"
#guard parseArgv false ["--frob", "in.scss"] == .usage "unexpected argument"
#guard renderArgv { stdin := true, style := .compressed, loadPaths := ["p", "q"], quiet := true } [] ==
  ["--stdin", "--style", "compressed", "-I", "p", "-I", "q", "--quiet"]

/-- As found on the pinned tree (before fix c1728ad), a positional after `--stdin` was the INPUT
    file (stdin was then never read) — there was no way to name an output file together with
    `--stdin`; the last conjunct is the code as it stands. -/
theorem C20_asFound_stdin_positional_is_input (f : Flags) (h : f.stdin = true) (out : String) :
    parseToks true (renderToks f [out]) = .ok ⟨f, some out, none⟩ ∧
    inputKind ⟨f, some out, none⟩ = .file ∧
    parseToks false (renderToks f [out]) = .ok ⟨f, none, some out⟩ := by
  simp only [parseToks_eq, parseLoop_render]
  simp [assign, assignAsFound, assignSpecStdin, h, inputKind]

/-! ### what a run does with the library's result -/

/-- On a compile or I/O error of the library: non-zero exit, nothing on stdout, the rendered
    error (plus newline) on stderr after the warnings, and no CSS in the output file (it is left
    empty — the file was created/truncated before compiling). -/
theorem C20_err_exit_nonzero_no_stdout (f : Flags) (i : InputKind) (o : OutputKind) (r w : String) :
    let out := outcome f i o (.err r w)
    out.exitZero = false ∧ out.stdout = "" ∧ (out.file = none ∨ out.file = some "") ∧
    (o ≠ .fileUnopenable → out.stderr = [.text w, .text (r ++ "\n")]) := by
  cases o <;> simp [outcome]

/-- On success: exit 0, the CSS — exactly the library's string — goes to the chosen sink and
    only there. -/
theorem C20_ok_exit_zero_css_to_sink (f : Flags) (i : InputKind) (css w : String) :
    (let out := outcome f i .stdout (.ok css w); out.exitZero = true ∧ out.stdout = css ∧ out.file = none) ∧
    (let out := outcome f i .file (.ok css w); out.exitZero = true ∧ out.stdout = "" ∧ out.file = some css) := by
  simp [outcome]

/-- Warnings never reach the CSS: stdout and the output file are the same whatever the logger
    wrote, and what it wrote is on stderr (first, because it is written while compiling). -/
theorem C20_warnings_not_in_css (f : Flags) (i : InputKind) (o : OutputKind) (w₁ w₂ : String) :
    (∀ css, (outcome f i o (.ok css w₁)).stdout = (outcome f i o (.ok css w₂)).stdout ∧
            (outcome f i o (.ok css w₁)).file = (outcome f i o (.ok css w₂)).file) ∧
    (∀ r, (outcome f i o (.err r w₁)).stdout = (outcome f i o (.err r w₂)).stdout ∧
          (outcome f i o (.err r w₁)).file = (outcome f i o (.err r w₂)).file) ∧
    (o ≠ .fileUnopenable → ∀ lib, (outcome f i o lib).stderr.head? = some (.text lib.warnings)) := by
  refine ⟨fun css => ?_, fun r => ?_, fun h lib => ?_⟩
  · cases o <;> simp [outcome]
  · cases o <;> simp [outcome]
  · cases o <;> cases lib <;> simp_all [outcome, LibResult.warnings]

/-- An output path that cannot be opened: non-zero exit, nothing on stdout, nothing compiled. -/
theorem C20_unopenable_output (f : Flags) (i : InputKind) (lib : LibResult) :
    outcome f i .fileUnopenable lib = { exitZero := false, stdout := "", stderr := [.osError], file := none } := by
  simp [outcome]

/-- Unreadable (non-UTF-8) stdin: non-zero exit, nothing on stdout, no CSS in the output file. -/
theorem C20_stdin_unreadable (o : OutputKind) :
    (outcomeStdinUnreadable o).exitZero = false ∧ (outcomeStdinUnreadable o).stdout = "" ∧
    (outcomeStdinUnreadable o).stderr = [.osError] ∧
    ((outcomeStdinUnreadable o).file = none ∨ (outcomeStdinUnreadable o).file = some "") := by
  cases o <;> simp [outcomeStdinUnreadable]

/-- A file argument and `--stdin` are treated alike once the library has been called. -/
theorem C20_input_kind_irrelevant (f : Flags) (o : OutputKind) (lib : LibResult) :
    outcome f .file o lib = outcome f .stdin o lib := by
  cases o <;> cases lib <;> rfl

/-! ### a sink whose writes fail (I/O error while delivering the CSS) -/

/-- Without a failing sink nothing changes. -/
theorem C20_outcomeIO_no_failure (b : Bool) (f : Flags) (i : InputKind) (o : OutputKind) (lib : LibResult) :
    outcomeIO b f i o lib false = outcome f i o lib := by
  simp [outcomeIO]

/-- **The code as it stands** (`flushChecked = true`: `main` flushes the sink and propagates the
    error, main.rs:270 since fix cea0756) behaves as specified: whenever there is
    CSS to deliver and the sink cannot take it, the exit status is non-zero, the operating-system
    error is on stderr (after the warnings), and nothing is reported as delivered. -/
theorem C20_sink_failure_exit_nonzero (f : Flags) (i : InputKind) (o : OutputKind) (css w : String)
    (ho : o ≠ .fileUnopenable) (hc : (css == "") = false) :
    let out := outcomeIO true f i o (.ok css w) true
    out.exitZero = false ∧ out.stderr = [.text w, .osError] ∧ out.stdout = "" ∧ out.file = none := by
  cases o <;> simp_all [outcomeIO]

/-- A library error is reported the same way whether or not the sink works (nothing is written). -/
theorem C20_sink_failure_lib_error (b : Bool) (f : Flags) (i : InputKind) (o : OutputKind) (r w : String)
    (ho : o ≠ .fileUnopenable) :
    let out := outcomeIO b f i o (.err r w) true
    out.exitZero = false ∧ out.stdout = "" ∧ out.stderr = [.text w, .text (r ++ "\n")] := by
  cases o <;> simp_all [outcomeIO]

/-- Where the variant found on the pinned tree (no flush) differs from the code as it stands now:
    exactly for non-empty CSS without a newline and shorter than stdout's buffer, sent to a
    failing stdout. -/
theorem C20_asFound_differs_iff (f : Flags) (i : InputKind) (o : OutputKind) (lib : LibResult) (sf : Bool) :
    outcomeIO false f i o lib sf ≠ outcomeIO true f i o lib sf ↔
      (sf = true ∧ o = .stdout ∧ ∃ css w, lib = .ok css w ∧ unterminatedSmall css = true) := by
  constructor
  · intro h
    cases sf
    · simp [outcomeIO] at h
    · cases o <;> cases lib <;> simp_all [outcomeIO]
      rename_i css w
      by_cases hs : unterminatedSmall css = true
      · exact hs
      · simp_all
  · rintro ⟨rfl, rfl, css, w, rfl, hs⟩
    have hne : (css == "") = false := by
      unfold unterminatedSmall at hs
      simp only [Bool.and_eq_true, bne_iff_ne, ne_eq] at hs
      simpa using hs.1.1
    simp [outcomeIO, hs, hne]

/-- As found on the pinned tree (before fix cea0756): `a{b:c}` (compressed output, 6 bytes, no
    newline) to a full stdout exits 0 with an empty stderr although nothing was delivered — the
    clause "on any I/O error it exits non-zero, prints the error on stderr" fails; the repaired
    code (`flushChecked = true`) exits non-zero. -/
theorem C20_asFound_unflushed_stdout_swallows_error :
    (outcomeIO false {} .file .stdout (.ok "a{b:c}" "") true).exitZero = true ∧
    (outcomeIO false {} .file .stdout (.ok "a{b:c}" "") true).stderr = [.text ""] ∧
    (outcomeIO true {} .file .stdout (.ok "a{b:c}" "") true).exitZero = false := by
  simp [outcomeIO, unterminatedSmall]
  decide

example : outcomeIO false {} .file .stdout (.ok "a {\n  b: c;\n}\n" "") true =
    { exitZero := false, stdout := "", stderr := [.text "", .osError], file := none } := by
  simp [outcomeIO, unterminatedSmall]
#guard agrees (outcomeIO true {} .file .file (.ok "a{b:c}" "W\n") true) ⟨1, "", "W\nError: Os { code: 28 }", none⟩
#guard !agrees (outcomeIO true {} .file .stdout (.ok "a{b:c}" "") true) ⟨0, "", "", none⟩
#guard agrees (outcomeIO false {} .file .stdout (.ok "a{b:c}" "") true) ⟨0, "", "", none⟩

/-- P̂ accepts exactly the model's own outcome (sanity of the oracle the driver evaluates). -/
theorem C20_agrees_outcome (f : Flags) (i : InputKind) (o : OutputKind) (lib : LibResult) (h : o ≠ .fileUnopenable) :
    agrees (outcome f i o lib)
      ⟨if (outcome f i o lib).exitZero then 0 else 1, (outcome f i o lib).stdout,
       stderrText (outcome f i o lib), (outcome f i o lib).file⟩ = true := by
  cases o <;> cases lib <;> simp_all [outcome, agrees, stderrText]

example : outcome {} .file .stdout (.err "Error: x" "Warning: w\n") =
    { exitZero := false, stdout := "", stderr := [.text "Warning: w\n", .text "Error: x\n"], file := none } := by decide
example : agrees (outcome {} .file .file (.ok "a{b:c}" "")) ⟨0, "", "", some "a{b:c}"⟩ = true := by decide
example : agrees (outcome {} .file .stdout (.ok "a{b:c}" "")) ⟨0, "a{b:c}Warning", "", none⟩ = false := by decide
example : agrees (outcome {} .file .stdout (.err "E" "")) ⟨0, "", "E\n", none⟩ = false := by decide

/-! ### `main` as a sequence of effects; every error path -/

/-- The effect trace and the outcome function tell the same story: for the code as it stands
    (`openFirst = true`), a readable stdin and a working sink, the run's exit class, stdout, stderr and
    output file are `outcome` applied to the library's result — where the library saw a TRUNCATED input
    exactly when OUTPUT names the INPUT file. -/
theorem C20_runMain_is_outcome (f : Flags) (i : InputKind) (e : Env)
    (hs : i = .stdin → e.stdinUtf8 = true) (hk : e.sinkFails = false) :
    let r := runMain true i e
    let o := outcome f i e.output (e.libOf (e.output == .file && e.outputIsInput && i == .file))
    (r.exitCode == 0) = o.exitZero ∧ r.stdout = o.stdout ∧ r.stderr = o.stderr ∧ r.file = o.file := by
  obtain ⟨out, isIn, su, libOf, sf⟩ := e
  simp only at hs hk
  subst hk
  cases i <;> cases out <;> cases isIn <;> simp_all [runMain, outcome, writeSteps] <;>
    (try split) <;> (try simp_all)

/-- **Every error path.**  Whatever goes wrong after clap — the output cannot be opened, stdin is not
    UTF-8, the library returns an error (missing / unreadable / non-UTF-8 / directory input, syntax or
    runtime error), the sink refuses the CSS — in either order of opening: the exit code is exactly 1,
    NOTHING is written to stdout, no successful write step happens, and the output file is untouched
    (`none`) or left empty (`some ""`); with a working sink it is left empty exactly when the code opens
    it first (as it stands) and it could be opened. -/
theorem C20_error_paths (openFirst : Bool) (i : InputKind) (e : Env) :
    let r := runMain openFirst i e
    r.exitCode ≠ 0 →
      r.exitCode = 1 ∧ r.stdout = "" ∧ Step.write true ∉ r.steps ∧ (r.file = none ∨ r.file = some "") ∧
      (e.sinkFails = false → (r.file = some "" ↔ (openFirst = true ∧ e.output = .file))) := by
  obtain ⟨out, isIn, su, libOf, sf⟩ := e
  cases openFirst <;> cases i <;> cases out <;> cases su <;> cases sf <;>
    simp [runMain, writeSteps] <;> (try split) <;> (try simp_all) <;> (try split) <;> (try simp_all)

/-- On success: exit 0, the last three effects are write, flush, exit 0, and the library's CSS is in the
    sink and nowhere else. -/
theorem C20_success_path (openFirst : Bool) (i : InputKind) (e : Env) (hk : e.sinkFails = false) :
    (runMain openFirst i e).exitCode = 0 →
      [Step.write true, .flush true, .exit 0] <:+ (runMain openFirst i e).steps ∧
      ∃ css w t, e.libOf t = .ok css w ∧ (runMain openFirst i e).stderr = [.text w] ∧
        ((e.output = .stdout ∧ (runMain openFirst i e).stdout = css ∧ (runMain openFirst i e).file = none) ∨
         (e.output = .file ∧ (runMain openFirst i e).stdout = "" ∧ (runMain openFirst i e).file = some css)) := by
  obtain ⟨out, isIn, su, libOf, sf⟩ := e
  simp only at hk
  subst hk
  cases hl : libOf (openFirst && out == .file && isIn && i == .file) with
  | err rr w =>
    cases openFirst <;> cases i <;> cases out <;> cases su <;> simp_all [runMain, writeSteps]
  | ok css w =>
    intro h0
    refine ⟨?_, css, w, _, hl, ?_⟩ <;> revert h0 <;>
      cases openFirst <;> cases i <;> cases out <;> cases su <;> simp_all [runMain, writeSteps, List.suffix_cons_iff]

/-- Order of effects, the code as it stands: when an OUTPUT is named, opening it is the FIRST effect
    (before stdin is read and before anything is compiled); every run ends with `exit` of its code. -/
theorem C20_order_of_effects (i : InputKind) (e : Env) :
    (e.output ≠ .stdout → (runMain true i e).steps.head? = some (.openOutput (e.output == .file))) ∧
    (∀ b, (runMain b i e).steps.getLast? = some (.exit (runMain b i e).exitCode)) := by
  obtain ⟨out, isIn, su, libOf, sf⟩ := e
  refine ⟨fun h => ?_, fun b => ?_⟩
  · cases i <;> cases out <;> cases su <;> simp_all [runMain, writeSteps] <;> (try split) <;> (try simp_all) <;> (try split) <;> (try simp_all)
  · cases b <;> cases i <;> cases out <;> cases su <;> simp [runMain, writeSteps] <;> (try split) <;> (try simp_all) <;> (try split) <;> (try simp_all)

/-- A usage error (unknown flag, repeated flag, bad `--style` value, missing value, missing INPUT,
    too many positionals, `--stdin` with two positionals, an argument that is not UTF-8): clap exits 2
    before `main` does anything — nothing on stdout, no file opened, nothing compiled. -/
theorem C20_usage_error_run (openFirst : Bool) (argv : List (Option String)) (e : Env) (why : String)
    (h : parseArgvRaw false argv = .usage why) :
    runCli openFirst argv e = some { steps := [.clapUsage, .exit 2], exitCode := 2, stdout := "", stderr := [.clapError],
                                     file := none, inputDestroyed := false } := by
  simp [runCli, h]

example : parseArgvRaw false [some "--frob", some "in.scss"] = .usage "unexpected argument" := by decide
example : parseArgvRaw false [some "in.scss", none] = .usage "invalid UTF-8" := by decide

/-- The whole tool, every failure: if `runCli` does not exit 0 then stdout is empty and the output file
    is untouched or empty. -/
theorem C20_cli_failure_no_stdout (openFirst : Bool) (argv : List (Option String)) (e : Env) (r : Run)
    (h : runCli openFirst argv e = some r) (hne : r.exitCode ≠ 0) :
    r.stdout = "" ∧ (r.file = none ∨ r.file = some "") ∧ (r.exitCode = 1 ∨ r.exitCode = 2) := by
  unfold runCli at h
  split at h
  · simp at h
  · simp at h; subst h; simp
  · simp at h; subst h
    have := C20_error_paths openFirst _ e hne
    exact ⟨this.2.1, this.2.2.2.1, Or.inl this.1⟩

/-- The specified order (compile, then open the output) and the order as it stands agree on exit code
    and stdout always, and on the output file of every successful run, as long as OUTPUT is not the INPUT file. -/
theorem C20_open_order_observable_only_on_failure (i : InputKind) (e : Env) (h : e.outputIsInput = false) :
    (runMain true i e).exitCode = (runMain false i e).exitCode ∧ (runMain true i e).stdout = (runMain false i e).stdout ∧
    ((runMain true i e).exitCode = 0 → (runMain true i e).file = (runMain false i e).file) := by
  obtain ⟨out, isIn, su, libOf, sf⟩ := e
  simp only at h
  subst h
  cases i <;> cases out <;> cases su <;> simp [runMain, writeSteps] <;> (try split) <;> (try simp_all) <;> (try split) <;> (try simp_all)

/-- As found (known finding C20-output-is-input): `grass in.scss in.scss` opens — and truncates — the
    output BEFORE reading the input, so the library compiles an empty file: exit 0, the file is empty, the
    source is lost.  In the specified order the file receives the CSS of its former content. -/
theorem C20_asFound_output_is_input_destroys_source (e : Env) (css w : String)
    (ho : e.output = .file) (hi : e.outputIsInput = true) (hk : e.sinkFails = false)
    (hl : e.libOf false = .ok css w) (ht : e.libOf true = .ok "" "") :
    (runMain true .file e).exitCode = 0 ∧ (runMain true .file e).inputDestroyed = true ∧
    (runMain true .file e).file = some "" ∧ Step.compile true ∈ (runMain true .file e).steps ∧
    (runMain false .file e).inputDestroyed = false ∧ (runMain false .file e).file = some css := by
  obtain ⟨out, isIn, su, libOf, sf⟩ := e
  simp only at ho hi hk hl ht
  subst ho hi hk
  simp [runMain, hl, ht, writeSteps]

example : (runMain true .file { output := .file, outputIsInput := true, libOf := fun t => if t then .ok "" "" else .ok "a{b:c}" "" }).file = some "" := by
  decide
example : (runMain true .stdin { output := .file, stdinUtf8 := false, libOf := fun _ => .ok "x" "" }).steps =
    [.openOutput true, .readStdin false, .returnErr, .exit 1] := by decide
example : (runMain true .file { output := .stdout, libOf := fun _ => .err "Error: Is a directory (os error 21)\n" "" }).stderr =
    [.text "", .text "Error: Is a directory (os error 21)\n\n"] := by decide

/-! ### what `StdLogger` prints -/

theorem C20_renderLog_append (a b : List LogEvent) : renderLog (a ++ b) = renderLog a ++ renderLog b := by
  induction a with
  | nil => simp [renderLog]
  | cons x xs ih => simp [renderLog, ih, String.append_assoc]

/-- `@warn` / `@debug` output goes to stderr only: what `StdLogger` printed (the rendering of the Logger
    calls, in order) is the first thing on stderr, and exit code, stdout, the output file and the steps'
    shape do not depend on it; without Logger calls (`--quiet`: the evaluator makes none) nothing is printed. -/
theorem C20_log_to_stderr_only (openFirst : Bool) (i : InputKind) (out : OutputKind) (isIn su sf : Bool)
    (css : String) (evs₁ evs₂ : List LogEvent) :
    let r₁ := runMain openFirst i { output := out, outputIsInput := isIn, stdinUtf8 := su, sinkFails := sf, libOf := fun _ => libOk css evs₁ }
    let r₂ := runMain openFirst i { output := out, outputIsInput := isIn, stdinUtf8 := su, sinkFails := sf, libOf := fun _ => libOk css evs₂ }
    r₁.exitCode = r₂.exitCode ∧ r₁.stdout = r₂.stdout ∧ r₁.file = r₂.file ∧
    (Step.compile false ∈ r₁.steps ∨ Step.compile true ∈ r₁.steps → r₁.stderr.head? = some (.text (renderLog evs₁))) ∧
    renderLog [] = "" := by
  cases openFirst <;> cases i <;> cases out <;> cases su <;> cases sf <;>
    simp [runMain, libOk, writeSteps, renderLog] <;> (try split) <;> (try simp_all)

#guard renderLog [⟨.warn, "ml.scss", 0, 6, "line1\nline2"⟩, ⟨.debug, "ml.scss", 1, 2, "x\ny"⟩] ==
  "Warning: line1\nline2\n    ./ml.scss:1:7\nml.scss:2 DEBUG: x\ny\n"
#guard agreesRun (runMain true .file { libOf := fun _ => libErr "Error: e\n" [⟨.warn, "a.scss", 2, 0, "w"⟩] })
  ⟨1, "", "Warning: w\n    ./a.scss:3:1\nError: e\n\n", none⟩
#guard !agreesRun (runMain true .file { libOf := fun _ => libOk "a{b:c}" [⟨.warn, "a.scss", 2, 0, "w"⟩] })
  ⟨0, "a{b:c}Warning: w\n    ./a.scss:3:1\n", "", none⟩
#guard (runCli true [some "--frob"] { libOf := fun _ => .ok "" "" }).map (·.exitCode) == some 2

end Grass.Cli
