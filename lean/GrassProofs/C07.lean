import Grass.Num
namespace Grass.Num

theorem C07_fuzzyEqF_refl (a : Rat) : fuzzyEqF a a = true := by
  simp [fuzzyEqF]

end Grass.Num
