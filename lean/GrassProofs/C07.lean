import GrassProofs.Lemmas.Num
import GrassProofs.Lemmas.NumScan
/-
  C07 — Numbers are IEEE doubles with Sass rounding, modulo and printing rules.
  Property theorems about the model `Grass/Num.lean`.

  Conventions: a finite double is its exact rational value.  `…F` functions are the code as
  executed (every floating-point operation followed by `rnd53`); `…X` functions are the same
  formulas in exact arithmetic (the Sass rule).  Helper lemmas: `GrassProofs/Lemmas/Num.lean`.
-/
namespace Grass.Num

/-- the double a decimal literal denotes (used only to name concrete witnesses) -/
def dLit (s : String) : Rat := rnd53 ((parseLit s.toList).map Lit.value |>.getD 0)

/-! ## fuzzy equality (number.rs:40) -/

/-- `fuzzy_equals` as executed is reflexive. -/
theorem C07_fuzzyEqF_refl (a : Rat) : fuzzyEqF a a = true := fuzzyEqF_refl a
/-- `fuzzy_equals` as executed is symmetric. -/
theorem C07_fuzzyEqF_symm (a b : Rat) : fuzzyEqF a b = fuzzyEqF b a := fuzzyEqF_symm a b
example : fuzzyEqF 1 (dLit "1.000000000001") = true ∧ fuzzyEqF 1 (dLit "1.00000000001") = false := by
  decide +kernel

/-- In exact arithmetic the rule is "same 10⁻¹¹ bucket": the `|a−b| ≤ ε` conjunct is implied. -/
theorem C07_fuzzyEqX_iff_bucket (a b : Rat) : fuzzyEqX a b = (bucket a == bucket b) :=
  fuzzyEqX_eq_bucket a b
/-- … hence an equivalence relation. -/
theorem C07_fuzzyEqX_equivalence : Equivalence (fun a b : Rat => fuzzyEqX a b = true) :=
  fuzzyEqX_equivalence
example : fuzzyEqX 1 (1 + 1/1000000000000) = true ∧ fuzzyEqX 1 (1 + 1/100000000000) = false := by
  decide +kernel

/-- Transitivity of the relation *as executed in floating point* can only fail through the
    `|a − c| ≤ ε` conjunct: the bucket conjunct is transitive.  This is the exact guard. -/
theorem C07_fuzzyEqF_trans_guarded (a b c : Rat) (h1 : fuzzyEqF a b = true) (h2 : fuzzyEqF b c = true)
    (hg : absQ (rnd53 (a - c)) ≤ epsF) : fuzzyEqF a c = true := fuzzyEqF_trans_guarded a b c h1 h2 hg

/-- NOT CLAIMED without the guard (kept visible).  No counterexample exists among the extreme pairs of the
    buckets 0…3 (the only ones where the rounding of `a·10¹¹` at a binade border leaves a window against
    `ε = rnd53(10⁻¹¹) = 10⁻¹¹·(1 − 0.545·2⁻⁵³)`; checked numerically with exact rationals) and a targeted
    search found none; a proof needs an error analysis of the three roundings and is not done. -/
def C07_fuzzyEqF_transitive_full : Prop :=
  ∀ a b c : Rat, fuzzyEqF a b = true → fuzzyEqF b c = true → fuzzyEqF a c = true

/-! ## ordering consistent with equality (number.rs:79-85; value/mod.rs:341) -/

/-- Trichotomy of the specified ordering over `fuzzy_equals` as executed: exactly one of
    `a < b`, `a == b`, `b < a`. -/
theorem C07_trichotomyF (a b : Rat) :
    (fuzzyLt fuzzyEqF a b = true ∧ fuzzyEqF a b = false ∧ fuzzyLt fuzzyEqF b a = false) ∨
    (fuzzyLt fuzzyEqF a b = false ∧ fuzzyEqF a b = true ∧ fuzzyLt fuzzyEqF b a = false) ∨
    (fuzzyLt fuzzyEqF a b = false ∧ fuzzyEqF a b = false ∧ fuzzyLt fuzzyEqF b a = true) :=
  fuzzy_trichotomy fuzzyEqF fuzzyEqF_refl fuzzyEqF_symm a b

/-- the same for the exact rule -/
theorem C07_trichotomyX (a b : Rat) :
    (fuzzyLt fuzzyEqX a b = true ∧ fuzzyEqX a b = false ∧ fuzzyLt fuzzyEqX b a = false) ∨
    (fuzzyLt fuzzyEqX a b = false ∧ fuzzyEqX a b = true ∧ fuzzyLt fuzzyEqX b a = false) ∨
    (fuzzyLt fuzzyEqX a b = false ∧ fuzzyEqX a b = false ∧ fuzzyLt fuzzyEqX b a = true) :=
  fuzzy_trichotomy fuzzyEqX (fun a => C07_fuzzyEqX_equivalence.refl a)
    (fun a b => by rw [fuzzyEqX_eq_bucket, fuzzyEqX_eq_bucket]; exact BEq.comm) a b

/-- `<=` is `<` or `==`, and is the negation of the reversed `<`. -/
theorem C07_fuzzyLe_consistent (a b : Rat) :
    fuzzyLe fuzzyEqF a b = (fuzzyLt fuzzyEqF a b || fuzzyEqF a b) ∧
    fuzzyLe fuzzyEqF a b = !fuzzyLt fuzzyEqF b a := by
  rcases C07_trichotomyF a b with h | h | h <;>
    (obtain ⟨h1, h2, h3⟩ := h
     simp only [fuzzyLt, fuzzyLe, Bool.and_eq_true, Bool.and_eq_false_iff, decide_eq_true_eq,
       decide_eq_false_iff_not, Bool.not_eq_true', Bool.not_eq_false'] at *
     constructor <;> (rw [fuzzyEqF_symm b a] at *; cases hd : decide (a < b) <;> cases hd' : decide (b < a) <;> simp_all))

/-- The comparison of two finite numbers as the code stands (`cmpD false`, value/mod.rs:341) answers
    "equal" exactly when `==` does, so `<`/`==`/`>` cannot overlap. -/
theorem C07_cmp_specified_eq_iff (x y : Rat) :
    (cmpD false (.fin x) (.fin y) = some .eq) ↔ eqD (.fin x) (.fin y) = true := by
  unfold cmpD
  simp only [D.isNan, Bool.or_self, Bool.false_eq_true, if_false, Bool.not_false, Bool.true_and]
  by_cases he : eqD (.fin x) (.fin y) = true
  · simp [he]
  · simp only [he, if_false]
    have hne : x ≠ y := by
      intro e; subst e; exact he (by simp [eqD, D.toRat?, fuzzyEqF])
    simp only [D.lt, D.toRat?]
    by_cases h1 : x < y
    · simp [h1, he]
    · have h2 : y < x := by grind
      simp [h1, h2, he]

/-- `Value::cmp` as the code stands, on finite numbers: `Equal` when fuzzy-equal, else the IEEE order. -/
theorem C07_cmp_now (x y : Rat) :
    cmpD false (.fin x) (.fin y) =
      some (if fuzzyEqF x y = true then .eq else if x < y then .lt else .gt) := by
  have he : eqD (.fin x) (.fin y) = fuzzyEqF x y := by simp [eqD, D.toRat?]
  unfold cmpD
  simp only [D.isNan, Bool.or_self, Bool.false_eq_true, if_false, Bool.not_false, Bool.true_and, he]
  by_cases hf : fuzzyEqF x y = true
  · simp [hf]
  · simp only [hf, if_false]
    have hne : x ≠ y := by intro e; subst e; exact hf (fuzzyEqF_refl x)
    simp only [D.lt, D.toRat?]
    by_cases h1 : x < y
    · simp [h1]
    · have h2 : y < x := by grind
      simp [h1, h2]

/-- **`<` and `<=` of the code as it stands are the tolerance-aware `fuzzy_less_than` /
    `fuzzy_less_than_or_equals`** — so the trichotomy and consistency theorems above
    (`C07_trichotomyF`, `C07_fuzzyLe_consistent`) are statements about the running code. -/
theorem C07_lt_le_now (x y : Rat) :
    cmpResult .lt (cmpD false (.fin x) (.fin y)) = fuzzyLt fuzzyEqF x y ∧
    cmpResult .le (cmpD false (.fin x) (.fin y)) = fuzzyLe fuzzyEqF x y ∧
    cmpResult .gt (cmpD false (.fin x) (.fin y)) = fuzzyLt fuzzyEqF y x ∧
    cmpResult .ge (cmpD false (.fin x) (.fin y)) = fuzzyLe fuzzyEqF y x := by
  rw [C07_cmp_now]
  have hs := fuzzyEqF_symm y x
  unfold fuzzyLt fuzzyLe cmpResult
  by_cases hf : fuzzyEqF x y = true
  · simp [hf, hs]
  · have hf' : fuzzyEqF x y = false := by simpa using hf
    have hne : x ≠ y := by intro e; subst e; exact hf (fuzzyEqF_refl x)
    by_cases h1 : x < y
    · have h2 : ¬ y < x := by grind
      simp [hf', hs, h1, h2]
    · have h2 : y < x := by grind
      simp [hf', hs, h1, h2]
example : cmpResult .lt (cmpD false (.fin 1) (.fin (dLit "1.000000000001"))) = false ∧
    cmpResult .le (cmpD false (.fin (dLit "1.000000000001")) (.fin 1)) = true ∧
    cmpResult .lt (cmpD false (.fin 1) (.fin (dLit "1.00000000002"))) = true := by decide +kernel

/-- **The variant found on the pinned tree** (fixed since, commit "<, <=, > and >= use the same
    tolerance as =="): the ordering was the exact IEEE order although `==` is fuzzy, so both
    `1 < 1.000000000001` and `1 == 1.000000000001` held; the code as it stands answers "equal". -/
theorem C07_asFound_order_overlaps_eq :
    cmpD true (.fin 1) (.fin (dLit "1.000000000001")) = some .lt ∧
    eqD (.fin 1) (.fin (dLit "1.000000000001")) = true ∧
    cmpD false (.fin 1) (.fin (dLit "1.000000000001")) = some .eq := by decide +kernel

/-! ## integer checks (number.rs:48) and round/ceil/floor -/

/-- `fuzzy_as_int` (exact rule) is sound: the answer is the nearest integer and lies within
    ½·10⁻¹¹ of the number. -/
theorem C07_fuzzyAsIntX_sound (x : Rat) (n : Int) (h : fuzzyAsInt fuzzyEqX x = some n) :
    n = roundHA x ∧ 2 * absQ (x - n) * invEps ≤ 1 := fuzzyAsIntX_sound x n h
/-- … and complete: every number strictly within ½·10⁻¹¹ of an integer is that integer. -/
theorem C07_fuzzyAsIntX_complete (x : Rat) (n : Int) (h : 2 * absQ (x - n) * invEps < 1) :
    fuzzyAsInt fuzzyEqX x = some n := fuzzyAsIntX_complete x n h
example : fuzzyAsInt fuzzyEqX (2 + 4/1000000000000) = some 2 ∧ fuzzyAsInt fuzzyEqX (2 + 1/100000000000) = none := by
  decide +kernel

/-- as executed: the answer is `round(x)` and is `==` to `x` -/
theorem C07_fuzzyAsIntF_sound (x : Rat) (n : Int) (h : fuzzyAsInt fuzzyEqF x = some n) :
    n = roundHA x ∧ fuzzyEqF x n = true := by
  unfold fuzzyAsInt at h
  simp only at h
  split at h
  · rename_i he; injection h with h; subst h; exact ⟨rfl, he⟩
  · cases h

/-- `round()` is the nearest integer (halves away from zero): within ½. -/
theorem C07_round_nearest (q : Rat) : 2 * absQ (q - (roundHA q : Int)) ≤ 1 := roundHA_dist q
/-- integers are fixed by `round()` -/
theorem C07_round_int (k : Int) : roundHA (k : Rat) = k := roundHA_intCast k
/-- `floor`/`ceil` bracket the number within one unit -/
theorem C07_floor_ceil (q : Rat) :
    (q.floor : Rat) ≤ q ∧ q < (q.floor : Rat) + 1 ∧ q ≤ (ceilQ q : Rat) ∧ (ceilQ q : Rat) < q + 1 := by
  have h1 := Rat.floor_le q
  have h2 := Rat.lt_floor_add_one q
  have h3 := Rat.floor_le (-q)
  have h4 := Rat.lt_floor_add_one (-q)
  simp only [Rat.intCast_add] at h2 h4
  unfold ceilQ
  simp only [Rat.intCast_neg]
  refine ⟨h1, by simpa using h2, by grind, by grind⟩
example : roundHA (5/2) = 3 ∧ roundHA (-5/2) = -3 ∧ ceilQ (-1/2) = 0 ∧ (-1/2 : Rat).floor = -1 := by decide +kernel

/-- `nth` as the code stands checks the integer first: `nth(1 2 3, 3.000000000001)` is the third
    element; the variant found on the pinned tree compared the raw index with the length first. -/
theorem C07_asFound_nth_range_first :
    (match nthV true 3 (.fin (dLit "3.000000000001")) with | .error .badIdx => true | _ => false) = true ∧
    (match nthV false 3 (.fin (dLit "3.000000000001")) with | .ok (.num (.fin q)) => decide (q = 3) | _ => false) = true := by
  decide +kernel

/-- dormant (not reachable from Sass today, all callers pass non-negative channels):
    `fuzzy_round` floors every negative input because Rust's `%` truncates. -/
theorem C07_asFound_fuzzyRound_negative : fuzzyRoundX (-24/10) = -3 := by decide +kernel

/-! ## modulo (number.rs:378-398) -/

/-- Sass `%` in exact arithmetic: the result has the sign of the divisor (or is zero), is smaller in
    magnitude than the divisor and differs from the dividend by an integer multiple of the divisor. -/
theorem C07_modulo_sign (a b r : Rat) (hb : b ≠ 0) (h : moduloX a b = some r) :
    (0 < b → 0 ≤ r) ∧ (b < 0 → r ≤ 0) ∧ absQ r < absQ b ∧ ∃ k : Int, a = r + (k : Rat) * b :=
  modulo_sign a b r hb h
/-- a zero divisor yields NaN -/
theorem C07_modulo_zero (a : Rat) : moduloX a 0 = none := modulo_zero a
example : moduloX 5 (-3) = some (-1) ∧ moduloX (-5) 3 = some 1 ∧ moduloX (11/2) (-2) = some (-1/2) := by
  decide +kernel

/-- Floating-point caveat, kernel-checked: as executed (`rem_euclid` rounds `r + |b|`) the strict
    bound `|r| < |b|` can degrade to equality: `-1e-20 % 3` is `3`. The sign law still holds there. -/
theorem C07_moduloD_rounding_edge :
    moduloD (.fin (dLit "-1e-20")) (.fin 3) = some (.fin 3) := by decide +kernel

/-! ## printing (serializer.rs:568, number.rs:265) -/

/-- **Exact value of the printed text**, both styles: re-parsing the text with the literal grammar
    of `parse_number` gives exactly `x` rounded (half-even) to 10 fractional digits. -/
theorem C07_print_parse_exact (compressed : Bool) (x : Rat) :
    ∃ l, parseLit (printFinite false compressed x) = some l ∧ l.value = round10 x :=
  printFinite_parse compressed x

/-- **Correct rounding**: the printed text denotes a number within ½·10⁻¹⁰ of `x`. -/
theorem C07_print_correctly_rounded (compressed : Bool) (x : Rat) :
    ∃ l, parseLit (printFinite false compressed x) = some l ∧
      2 * absQ (l.value - x) * 10000000000 ≤ 1 := by
  obtain ⟨l, h1, h2⟩ := printFinite_parse compressed x
  exact ⟨l, h1, by rw [h2]; exact round10_close x⟩

/-- the decidable predicate the driver evaluates on grass's text holds of the model's text -/
theorem C07_print_roundedOK (compressed : Bool) (x : Rat) :
    roundedOK x (printFinite false compressed x) = true := by
  obtain ⟨l, h1, h2⟩ := C07_print_correctly_rounded compressed x
  unfold roundedOK
  rw [h1]
  simpa using h2

/-- **Compressed and expanded spellings denote the same number.** -/
theorem C07_styles_same_value (x : Rat) :
    ∃ l₁ l₂, parseLit (printFinite false false x) = some l₁ ∧ parseLit (printFinite false true x) = some l₂ ∧
      l₁.value = l₂.value := by
  obtain ⟨l₁, a1, a2⟩ := printFinite_parse false x
  obtain ⟨l₂, b1, b2⟩ := printFinite_parse true x
  exact ⟨l₁, l₂, a1, b1, by rw [a2, b2]⟩
example : printFinite false false (dLit "-0.5") = "-0.5".toList ∧ printFinite false true (dLit "-0.5") = "-.5".toList ∧
    printFinite false false (dLit "-0.00000000004") = "0".toList ∧
    printFinite false true (dLit "0.99999999999") = "1".toList ∧
    printFinite false false (1/2048) = "0.0004882812".toList := by decide +kernel

/-- **Shape of the printed text**, both styles: plain decimal notation — optional `-`, digits, optional
    `.` followed by 1–10 digits the last of which is not `0`; no exponent, no `+`, at least one digit,
    and never a minus sign in front of an all-zero text (`-0`, `-0.0`, `-.0`). -/
theorem C07_print_shape (compressed : Bool) (x : Rat) :
    shapeOK (printFinite false compressed x) = true := printFinite_shape compressed x
example : shapeOK "-0".toList = false ∧ shapeOK "1e3".toList = false ∧ shapeOK "+1".toList = false ∧
    shapeOK "0.50".toList = false ∧ shapeOK "0.12345678901".toList = false ∧ shapeOK "-.5".toList = true := by decide

/-- **No superfluous leading zero**: expanded style keeps exactly one `0` before the point, compressed
    style drops exactly the leading `0` of a number of magnitude below 1 (and nothing else). -/
theorem C07_print_lead (compressed : Bool) (x : Rat) :
    leadOK compressed (printFinite false compressed x) = true := printFinite_lead compressed x
example : leadOK false "0.5".toList = true ∧ leadOK true "0.5".toList = false ∧ leadOK true ".5".toList = true ∧
    leadOK false "007".toList = false := by decide

/-- **Re-reading, characterised exactly** (exact arithmetic): the re-read number is `==` to `x`
    iff `x` lies in the 10⁻¹¹ bucket of its own 10-digit rounding, i.e. iff the bucket of `x` is ten
    times its scaled 10-digit value.  For every other `x` — those whose 11th fractional digit does
    not round away — Sass itself says printed and original differ (known finding D15). -/
theorem C07_reread_fuzzyEq_iff (compressed : Bool) (x : Rat) :
    rereadX x (printFinite false compressed x) = true ↔ d15ClassX x = false := by
  obtain ⟨l, h1, h2⟩ := printFinite_parse compressed x
  unfold rereadX d15ClassX
  rw [h1]
  simp only [h2]
  rw [fuzzyEqX_eq_bucket]
  have hb : bucket (round10 x) = 10 * (if x < 0 then -(scaled10 x : Int) else (scaled10 x : Int)) := by
    unfold bucket round10 invEps
    have hs : ((scaled10 x : Nat) : Rat) / 10000000000 * 100000000000 = ((scaled10 x : Nat) : Rat) * 10 := by grind
    by_cases hx : x < 0
    · rw [if_pos hx, if_pos hx]
      have e : -(((scaled10 x : Nat) : Rat) / 10000000000) * 100000000000 = ((10 * -(scaled10 x : Int) : Int) : Rat) := by
        simp only [Rat.intCast_mul, Rat.intCast_neg, Rat.intCast_natCast]; grind
      rw [e, roundHA_intCast]
    · rw [if_neg hx, if_neg hx]
      have e : ((scaled10 x : Nat) : Rat) / 10000000000 * 100000000000 = ((10 * (scaled10 x : Int) : Int) : Rat) := by
        simp only [Rat.intCast_mul, Rat.intCast_natCast]; grind
      rw [e, roundHA_intCast]
  rw [hb]
  simp [BEq.comm]

/-- The last clause of the property is false of Sass's own rules — kernel-checked witness, floating
    point as executed: `0.12345678904` prints `0.123456789`, and re-reading that text gives a number
    that is not `==` to the original.  (Known finding D15; class predicate `d15Class`.) -/
theorem C07_asFound_reread_fails :
    printFinite false false (dLit "0.12345678904") = "0.123456789".toList ∧
    rereadF (dLit "0.12345678904") "0.123456789".toList = some false ∧
    d15Class (dLit "0.12345678904") = true ∧ d15ClassX (dLit "0.12345678904") = true := by decide +kernel

/-- the re-read clause as far as it holds: outside the characterised class re-reading succeeds -/
theorem C07_reread_partial (compressed : Bool) (x : Rat) (h : d15ClassX x = false) :
    rereadX x (printFinite false compressed x) = true := (C07_reread_fuzzyEq_iff compressed x).2 h
example : d15ClassX (dLit "0.5") = false ∧ d15ClassX (dLit "0.123456789") = false := by decide +kernel

/-- The variant found on the pinned tree (`format!(…)[1..]`, fixed since): compressed output of
    `0.99999999999` was `0`, eleven orders of magnitude off; the code as it stands prints `1`. -/
theorem C07_asFound_slice_prints_zero :
    printFinite true true (dLit "0.99999999999") = "0".toList ∧
    printFinite true true (dLit "-0.99999999999") = "0".toList ∧
    roundedOK (dLit "0.99999999999") (printFinite true true (dLit "0.99999999999")) = false ∧
    printFinite false true (dLit "0.99999999999") = "1".toList := by decide +kernel

/-! ## arithmetic is correctly rounded exact arithmetic (by construction of the model) -/

/-- `+` on finite doubles is the exact sum rounded once (`none` = result below the normal range). -/
theorem C07_add_rounded_exact (x y : Rat) : D.add (.fin x) (.fin y) = D.ofExact (x + y) false := rfl
theorem C07_mul_rounded_exact (x y : Rat) :
    D.mul (.fin x) (.fin y) = D.ofExact (x * y) (decide (x < 0) != decide (y < 0)) := rfl
/-- division by zero yields Infinity / NaN -/
theorem C07_div_zero (x : Rat) :
    D.div (.fin x) (.fin 0) = some (if x = 0 then .nan else if x < 0 then .ninf else .pinf) := by
  unfold D.div
  by_cases h0 : x = 0
  · subst h0; decide +kernel
  · by_cases hn : x < 0 <;> simp [D.isInf, D.isZero, D.isNeg, D.inf, h0, hn]
/-- rounding commutes with negation -/
theorem C07_rnd53_neg (q : Rat) : rnd53 (-q) = -rnd53 q := rnd53_neg q
example : D.add (.fin (dLit "0.1")) (.fin (dLit "0.2")) = some (.fin (1351079888211149/4503599627370496)) ∧
    rnd53 (1/10) = 3602879701896397/36028797018963968 := by decide +kernel

/-- **`rnd53` is round-to-nearest to 53 significant bits** (unbounded exponent — the model guards the
    normal range separately): for every non-zero `q` the result is `±m·2^e` with `2^52 ≤ m ≤ 2^53` in the
    binade of `q`, within half a unit in the last place, and no multiple of `2^e` is nearer to `q`. -/
theorem C07_rnd53_nearest (q : Rat) (hq : q ≠ 0) :
    ∃ (m : Nat) (e : Int), absQ (rnd53 q) = (m : Rat) * pow2 e ∧ 4503599627370496 ≤ m ∧ m ≤ 9007199254740992 ∧
      pow2 (e + 52) ≤ absQ q ∧ absQ q < pow2 (e + 53) ∧ 2 * absQ (rnd53 q - q) ≤ pow2 e ∧
      ∀ j : Int, absQ (rnd53 q - q) ≤ absQ ((j : Rat) * pow2 e - absQ q) := rnd53_nearest q hq

/-- relative error at most 2⁻⁵³ (the statement formerly kept as `C07_rnd53_nearest_full`) -/
theorem C07_rnd53_relative (q : Rat) (hq : q ≠ 0) : absQ (rnd53 q - q) * 9007199254740992 ≤ absQ q :=
  rnd53_relative q hq

/-- ties go to the even mantissa: `rndPosME` rounds the scaled quotient `N/D` with `divRoundEven` -/
theorem C07_rnd53_ties_even (N D : Nat) (h : 2 * (N % D) = D) : divRoundEven N D % 2 = 0 :=
  divRoundEven_tie_even N D h
example : rnd53 (9007199254740993 : Rat) = 9007199254740992 ∧ rnd53 (9007199254740995 : Rat) = 9007199254740996 := by
  decide +kernel

/-! ## round 3 — the arithmetic clause as theorems about the model's `+ - * /` -/

/-- `+` inside the guard (finite, non-zero exact sum, result finite): the exact sum rounded ONCE to the
    nearest double, relative error ≤ 2⁻⁵³, inside the normal range. -/
theorem C07_add_correctly_rounded (x y r : Rat) (hne : x + y ≠ 0) (h : D.add (.fin x) (.fin y) = some (.fin r)) :
    r = rnd53 (x + y) ∧ absQ (r - (x + y)) * 9007199254740992 ≤ absQ (x + y) ∧ absQ r < pow2 1024 ∧ -1022 ≤ expOf r :=
  ofExact_fin (x + y) false r hne (by rw [← C07_add_rounded_exact]; exact h)
theorem C07_sub_correctly_rounded (x y r : Rat) (hy : y ≠ 0) (hne : x - y ≠ 0) (h : D.sub (.fin x) (.fin y) = some (.fin r)) :
    r = rnd53 (x - y) ∧ absQ (r - (x - y)) * 9007199254740992 ≤ absQ (x - y) ∧ absQ r < pow2 1024 ∧ -1022 ≤ expOf r :=
  ofExact_fin (x - y) false r hne (by rw [← sub_fin_fin x y hy]; exact h)
theorem C07_mul_correctly_rounded (x y r : Rat) (hne : x * y ≠ 0) (h : D.mul (.fin x) (.fin y) = some (.fin r)) :
    r = rnd53 (x * y) ∧ absQ (r - x * y) * 9007199254740992 ≤ absQ (x * y) ∧ absQ r < pow2 1024 ∧ -1022 ≤ expOf r :=
  ofExact_fin (x * y) _ r hne (by rw [← C07_mul_rounded_exact]; exact h)
theorem C07_div_correctly_rounded (x y r : Rat) (hy : y ≠ 0) (hne : x / y ≠ 0) (h : D.div (.fin x) (.fin y) = some (.fin r)) :
    r = rnd53 (x / y) ∧ absQ (r - x / y) * 9007199254740992 ≤ absQ (x / y) ∧ absQ r < pow2 1024 ∧ -1022 ≤ expOf r :=
  ofExact_fin (x / y) _ r hne (by rw [← div_fin_fin x y hy]; exact h)
example : D.div (.fin 1) (.fin 3) = some (.fin (6004799503160661/18014398509481984)) ∧
    D.sub (.fin (dLit "0.3")) (.fin (dLit "0.1")) = some (.fin (dLit "0.19999999999999998")) := by decide +kernel

/-- what the model refuses: exactly the non-zero results whose rounded value lies BELOW the normal range
    (answered `unsupported`, never guessed) … -/
theorem C07_arith_unsupported_iff (q : Rat) (z : Bool) :
    D.ofExact q z = none ↔ q ≠ 0 ∧ absQ (rnd53 q) < pow2 1024 ∧ expOf (rnd53 q) < -1022 := ofExact_none_iff q z
/-- … while overflow is not refused: a result that rounds to 2¹⁰²⁴ or more is ±Infinity by its sign. -/
theorem C07_arith_overflow_infinity (q : Rat) (z : Bool) (hq : q ≠ 0) (h : pow2 1024 ≤ absQ (rnd53 q)) :
    D.ofExact q z = some (D.inf (decide (q < 0))) := ofExact_inf q z hq h
example : D.mul (.fin (dLit "1e200")) (.fin (dLit "-1e200")) = some .ninf ∧
    D.mul (.fin (dLit "1e-200")) (.fin (dLit "1e-200")) = none := by decide +kernel

/-- division by NEGATIVE zero: the sign flips (`1 / -0` is `-Infinity`), `0 / -0` is NaN. -/
theorem C07_div_negzero (x : Rat) :
    D.div (.fin x) .nz = some (if x = 0 then .nan else if x < 0 then .pinf else .ninf) := by
  unfold D.div
  by_cases h0 : x = 0
  · subst h0; decide +kernel
  · by_cases hn : x < 0 <;> simp [D.isInf, D.isZero, D.isNeg, D.inf, h0, hn]
example : D.div .nz (.fin 0) = some .nan ∧ D.div .nz .nz = some .nan ∧ D.div .nz (.fin 2) = some .nz := by decide +kernel

/-- a finite number (negative zero included) is never printed as `-0`. -/
theorem C07_print_never_neg_zero (c : Bool) (q : Rat) :
    printD false c (.fin q) ≠ ['-', '0'] ∧ printD false c .nz ≠ ['-', '0'] := by
  have h2 : shapeOK ['-', '0'] = false := by decide +kernel
  refine ⟨fun h => ?_, by cases c <;> decide⟩
  have hs := printFinite_shape c q
  have h' : printFinite false c q = ['-', '0'] := h
  rw [h', h2] at hs
  exact Bool.noConfusion hs
example : printD false true .nz = ['0'] ∧ printD false false (.fin (dLit "-0.00000000001")) = ['0'] := by decide +kernel

/-! ## round 3 — number literals: `parse_number` as a prefix scanner, decimal → double -/

/-- **A literal denotes the correctly rounded double of its decimal text** (any number of digits, any
    exponent spelling): inside the guard (non-zero value, finite result) the double is `rnd53` of the exact
    value — the nearest 53-bit value, ties to even (`C07_rnd53_nearest`, `C07_rnd53_ties_even`). -/
theorem C07_literal_correctly_rounded (l : Lit) (r : Rat) (hv : l.value ≠ 0) (h : litD l = some (.fin r)) :
    r = rnd53 l.value ∧ absQ (r - l.value) * 9007199254740992 ≤ absQ l.value ∧
    ∃ (m : Nat) (e : Int), absQ r = (m : Rat) * pow2 e ∧ 4503599627370496 ≤ m ∧ m ≤ 9007199254740992 ∧
      2 * absQ (r - l.value) ≤ pow2 e ∧ ∀ j : Int, absQ (r - l.value) ≤ absQ ((j : Rat) * pow2 e - absQ l.value) := by
  obtain ⟨h1, h2, _, _⟩ := ofExact_fin l.value l.neg r hv h
  obtain ⟨m, e, a, b, c, _, _, d, f⟩ := rnd53_nearest l.value hv
  subst h1
  exact ⟨rfl, h2, m, e, a, b, c, d, f⟩
/-- a literal whose value rounds to 2¹⁰²⁴ or beyond is ±Infinity (Rust `parse::<f64>` overflow). -/
theorem C07_literal_overflow_infinity (l : Lit) (hv : l.value ≠ 0) (h : pow2 1024 ≤ absQ (rnd53 l.value)) :
    litD l = some (D.inf (decide (l.value < 0))) := ofExact_inf l.value l.neg hv h
example : (parseLit "9007199254740993".toList).bind litD = some (.fin 9007199254740992) ∧
    (parseLit "0.1000000000000000055511151231257827021181583404541015625".toList).bind litD = some (.fin (dLit "0.1")) ∧
    (parseLit "1.797693134862315807e308".toList).bind litD = (parseLit "1.7976931348623157e308".toList).bind litD ∧
    (parseLit "-1.797693134862315808e308".toList).bind litD = some .ninf := by decide +kernel

/-- **The prefix scanner (`parse_number` as written) accepts every complete literal of the grammar
    `parseLit`, with the same digits, and consumes all of it** — so the printing/re-reading theorems, stated
    with `parseLit`, speak about what `parse_number` reads back. -/
theorem C07_scan_complete (s : List Char) (l : Lit) (h : parseLit s = some l) : scanNumber s = .ok l [] :=
  scanNumber_of_parseLit s l h
/-- the converse direction (what the scanner consumed is a literal of the grammar with the same digits) is
    NOT proved; the driver checks it on every generated text (`same=` in `num scan`). -/
def C07_scan_sound_full : Prop :=
  ∀ s l rest, scanNumber s = .ok l rest → ∃ pre, s = pre ++ rest ∧ parseLit pre = some l
example : scanNumber "+.5e1px".toList = .ok ⟨false, [], ['5'], 1⟩ ['p', 'x'] ∧ scanNumber "5.;".toList = .ok ⟨false, ['5'], [], 0⟩ ['.', ';'] ∧
    scanNumber "5.".toList = .expectedDigit ∧ scanNumber "1e-x".toList = .expectedDigit ∧
    scanNumber "1em".toList = .ok ⟨false, ['1'], [], 0⟩ ['e', 'm'] ∧ scanNumber ".;".toList = .expectedDigit := by decide +kernel

/-! ## round 3 — sass:math min / max / clamp (no libm) -/

/-- `math.min` / `math.max` of two finite numbers return one of the arguments, the second only when it is
    tolerance-aware `<` / `>` the first; neither argument is then `<` (resp. `>`) the result. -/
theorem C07_min_two (x y : Rat) :
    minD (.fin x) [.fin y] = (if fuzzyLt fuzzyEqF y x = true then .fin y else .fin x) ∧
    maxD (.fin x) [.fin y] = (if fuzzyLt fuzzyEqF x y = true then .fin y else .fin x) := by
  have h := C07_lt_le_now y x
  constructor <;> simp [minD, maxD, h.1, h.2.2.1]
example : minD (.fin 1) [.fin (dLit "1.000000000001"), .fin (dLit "0.999999999999")] = .fin 1 ∧
    clampD (.fin 1) (.fin (dLit "0.5")) (.fin 3) = .fin 1 ∧ clampD (.fin 1) (.fin 7) (.fin 3) = .fin 3 := by decide +kernel

end Grass.Num
