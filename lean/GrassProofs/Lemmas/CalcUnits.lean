import Grass.Calc
/-
  Helper lemmas for C16: unit table, conversion, unit cancellation in `multiply_units`.
-/
namespace Grass.Calc

theorem size_pos (ρ : Env) (h : ρ.wf) (b : BU) : 0 < b.size ρ := by
  obtain ⟨h1, h2, h3, h4, h5, h6, h7, h8, h9⟩ := h
  cases b <;> simp only [BU.size, piF] <;> grind

theorem table_ratio (ρ : Env) (to frm : BU) (f : Rat) (h : table to frm = some f) :
    f * to.size ρ = frm.size ρ := by
  cases to <;> cases frm <;> simp only [table, reduceCtorEq, Option.some.injEq] at h <;> subst h <;>
    simp only [BU.size, piF] <;> grind

@[simp] theorem isNone_iff (u : CUnit) : u.isNone = true ↔ u = ⟨[], []⟩ := by
  rcases u with ⟨n, d⟩
  cases n <;> cases d <;> simp [CUnit.isNone]

theorem unitVal_none (ρ : Env) : unitVal ρ ⟨[], []⟩ = 1 := by
  simp [unitVal, prodSize]; grind

theorem unitVal_single (ρ : Env) (b : BU) : unitVal ρ ⟨[b], []⟩ = b.size ρ := by
  simp [unitVal, prodSize]; grind

/-- every conversion between comparable units is defined (no `HashMap` index panic). -/
theorem convert_isSome_of_comparable (x : Rat) (frm to : CUnit) (h : comparable frm to = true) :
    (convert x frm to).isSome = true := by
  rcases frm with ⟨_ | ⟨f1, _ | ⟨f2, fr⟩⟩, _ | ⟨fd1, fdr⟩⟩ <;>
  rcases to with ⟨_ | ⟨t1, _ | ⟨t2, tr⟩⟩, _ | ⟨td1, tdr⟩⟩ <;>
  simp [convert, comparable, CUnit.kind, CUnit.isNone] at h ⊢ <;>
  first
  | done
  | exact h
  | (cases f1 <;> simp_all [BU.kind]; done)
  | (cases f1 <;> cases t1 <;> simp_all [table, BU.kind]; done)

theorem compatible_comparable (a b : CUnit) (h : compatible a b = true) : comparable a b = true := by
  unfold compatible at h
  split at h <;> simp_all

theorem convert_value (ρ : Env) (x y : Rat) (frm to : CUnit)
    (hc : compatible frm to = true) (h : convert x frm to = some y) :
    y * unitVal ρ to = x * unitVal ρ frm := by
  rcases frm with ⟨_ | ⟨f1, _ | ⟨f2, fr⟩⟩, _ | ⟨fd1, fdr⟩⟩ <;>
  rcases to with ⟨_ | ⟨t1, _ | ⟨t2, tr⟩⟩, _ | ⟨td1, tdr⟩⟩ <;>
  simp [convert, compatible, comparable, CUnit.kind, CUnit.isNone] at hc h ⊢ <;>
  (try (subst h; rfl)) <;> (try (simp_all; done))
  rw [unitVal_single, unitVal_single]
  split at h
  · rename_i e; subst e; injection h with h; subst h; rfl
  · simp only [hc] at h
    simp at h
    obtain ⟨c, hc', hy⟩ := h
    have := table_ratio ρ t1 f1 c hc'
    subst hy; grind

theorem prodSize_pos (ρ : Env) (h : ρ.wf) (l : List BU) : 0 < prodSize ρ l := by
  induction l with
  | nil => simp only [prodSize]; grind
  | cons b bs ih =>
    simp only [prodSize]
    exact Rat.mul_pos (size_pos ρ h b) ih

theorem prodSize_append (ρ : Env) (a b : List BU) : prodSize ρ (a ++ b) = prodSize ρ a * prodSize ρ b := by
  induction a with
  | nil => simp [prodSize]
  | cons x xs ih => simp only [List.cons_append, prodSize, ih]; grind

theorem convFactor_ratio (ρ : Env) (d n : BU) (f : Rat) (h : convFactor d n = some f) :
    f * n.size ρ = d.size ρ := by
  unfold convFactor at h
  split at h
  · rename_i e; subst e; injection h with h; subst h; grind
  · exact table_ratio ρ n d f h

theorem removeFirstConv_prod (ρ : Env) (n : BU) :
    ∀ (ds ds' : List BU) (f : Rat), removeFirstConv n ds = some (f, ds') →
      prodSize ρ ds = f * n.size ρ * prodSize ρ ds' := by
  intro ds
  induction ds with
  | nil => intro ds' f h; simp [removeFirstConv] at h
  | cons d ds ih =>
    intro ds' f h
    unfold removeFirstConv at h
    split at h
    · rename_i f0 hf
      injection h with h; injection h with h1 h2; subst h1; subst h2
      simp only [prodSize]; rw [convFactor_ratio ρ d n f0 hf]
    · split at h
      · rename_i f1 r hr
        injection h with h; injection h with h1 h2; subst h1; subst h2
        simp only [prodSize]; rw [ih r f1 hr]; grind
      · cases h

theorem cancelLoop_prod (ρ : Env) (hw : ρ.wf) :
    ∀ (ns ds : List BU) (x x' : Rat) (kept ds' : List BU), cancelLoop ns ds x = (x', kept, ds') →
      x' * prodSize ρ kept * prodSize ρ ds = x * prodSize ρ ns * prodSize ρ ds' := by
  intro ns
  induction ns with
  | nil =>
    intro ds x x' kept ds' h
    simp [cancelLoop] at h
    obtain ⟨h1, h2, h3⟩ := h; subst h1; subst h2; subst h3; simp [prodSize]
  | cons n ns ih =>
    intro ds x x' kept ds' h
    unfold cancelLoop at h
    split at h
    · rename_i f ds1 hr
      have h1 := removeFirstConv_prod ρ n ds ds1 f hr
      have h2 := ih ds1 (x / f) x' kept ds' h
      have hn := size_pos ρ hw n
      have hd := prodSize_pos ρ hw ds
      have hd1 := prodSize_pos ρ hw ds1
      have hf : f ≠ 0 := by
        intro e; subst e; grind
      simp only [prodSize]
      rw [h1]
      have : x' * prodSize ρ kept * (f * n.size ρ * prodSize ρ ds1)
           = f * n.size ρ * (x' * prodSize ρ kept * prodSize ρ ds1) := by grind
      rw [this, h2]; grind
    · rename_i hr
      cases hc : cancelLoop ns ds x with
      | mk x0 rest =>
        obtain ⟨k0, d0⟩ := rest
        rw [hc] at h
        simp at h
        obtain ⟨e1, e2, e3⟩ := h; subst e1; subst e2; subst e3
        have := ih ds x x0 k0 d0 hc
        simp only [prodSize]; grind

theorem cancel_arith (x1 x2 num a b c d k1 k2 b' d' : Rat)
    (hb : 0 < b) (hd : 0 < d) (hb' : 0 < b') (hd' : 0 < d')
    (e1 : x1 * k1 * d = num * a * d') (e2 : x2 * k2 * b = x1 * c * b') :
    x2 * (k1 * k2 / (b' * d')) = num * (a / b) * (c / d) := by
  have h1 : b' * d' ≠ 0 := by
    have := Rat.mul_pos hb' hd'; grind
  have hb0 : b ≠ 0 := by grind
  have hd0 : d ≠ 0 := by grind
  have key : x2 * (k1 * k2) * (b * d) = num * a * c * (b' * d') := by
    have : x2 * (k1 * k2) * (b * d) = (x2 * k2 * b) * (k1 * d) := by grind
    rw [this, e2]
    have : x1 * c * b' * (k1 * d) = (x1 * k1 * d) * (c * b') := by grind
    rw [this, e1]; grind
  grind

theorem multiplyUnits_value (ρ : Env) (hw : ρ.wf) (su ou : CUnit) (num : Rat) (hou : ou.isNone = false) :
    (multiplyUnits su num ou).val ρ = num * unitVal ρ su * unitVal ρ ou := by
  rcases su with ⟨nu, du⟩
  rcases ou with ⟨on, od⟩
  have pnu := prodSize_pos ρ hw nu
  have pdu := prodSize_pos ρ hw du
  have pon := prodSize_pos ρ hw on
  have pod := prodSize_pos ρ hw od
  unfold multiplyUnits
  simp only []
  split
  · rename_i hc
    simp only [Bool.and_eq_true, List.isEmpty_iff] at hc
    obtain ⟨⟨e1, e2⟩, _⟩ := hc; subst e1; subst e2
    simp only [Num.val, unitVal, prodSize]; grind
  · split
    · rename_i hc
      simp only [Bool.and_eq_true, List.isEmpty_iff] at hc
      obtain ⟨e1, e2⟩ := hc; subst e1; subst e2
      simp only [Num.val, unitVal, prodSize]; grind
    · split
      · rename_i hc
        simp only [Bool.and_eq_true, Bool.or_eq_true, List.isEmpty_iff, Bool.not_eq_true'] at hc
        obtain ⟨⟨_, e1⟩, e2⟩ := hc
        subst e1
        rcases e2 with e2 | ⟨e2, _⟩
        · subst e2; simp [CUnit.isNone] at hou
        · subst e2; simp only [Num.val, unitVal, prodSize]; grind
      · cases h1 : cancelLoop nu od num with
        | mk x1 r1 =>
          obtain ⟨k1, od'⟩ := r1
          cases h2 : cancelLoop on du x1 with
          | mk x2 r2 =>
            obtain ⟨k2, du'⟩ := r2
            have e1 := cancelLoop_prod ρ hw nu od num x1 k1 od' h1
            have e2 := cancelLoop_prod ρ hw on du x1 x2 k2 du' h2
            have pk1 := prodSize_pos ρ hw k1
            have pk2 := prodSize_pos ρ hw k2
            have pod' := prodSize_pos ρ hw od'
            have pdu' := prodSize_pos ρ hw du'
            simp only [Num.val, unitVal, prodSize_append]
            exact cancel_arith x1 x2 num _ _ _ _ _ _ _ _ pdu pod pdu' pod' e1 e2

end Grass.Calc
