import Grass.Value
/-
  Helper lemmas for C09, numbers (kept apart from the property theorems in GrassProofs/C09.lean).
  Part 1: the fuzzy comparison is bucket equality; `numEq` is equality of a function of each operand.
  Part 2: membership-style characterisations of the recursive helpers on `VPairs`/`VList`.
  Part 3: `veq` is reflexive / transitive / symmetric on the values described by `ok`.
-/
namespace Grass.Value

/-! ## Part 1 — numbers -/

theorem round_close (x y : Rat) (h : roundHalfAway x = roundHalfAway y) : x - y < 1 ∧ y - x < 1 := by
  unfold roundHalfAway at h
  have h1 := Rat.floor_le (x + 1/2)
  have h2 := Rat.lt_floor_add_one (x + 1/2)
  have h3 := Rat.floor_le (y + 1/2)
  have h4 := Rat.lt_floor_add_one (y + 1/2)
  have h5 := Rat.floor_le (-x + 1/2)
  have h6 := Rat.lt_floor_add_one (-x + 1/2)
  have h7 := Rat.floor_le (-y + 1/2)
  have h8 := Rat.lt_floor_add_one (-y + 1/2)
  split at h <;> split at h
  · grind
  · have hc := congrArg (fun z : Int => (z : Rat)) h
    simp only [Rat.intCast_neg] at hc
    grind
  · have hc := congrArg (fun z : Int => (z : Rat)) h
    simp only [Rat.intCast_neg] at hc
    grind
  · grind

theorem abs_le_of (x e : Rat) (h1 : x ≤ e) (h2 : -x ≤ e) : x.abs ≤ e := by
  unfold Rat.abs; split <;> grind

/-- The bucket of a finite value: `(a * inverse_epsilon()).round()`. -/
def bucket (a : Rat) : Int := roundHalfAway (a * inverseEpsilon)

/-- `fuzzy_equals` is equality of buckets (the `|a-b| <= eps` conjunct is implied). -/
theorem fuzzyEq_iff (a b : Rat) : fuzzyEq a b = true ↔ bucket a = bucket b := by
  unfold fuzzyEq bucket
  constructor
  · intro h
    simp only [Bool.or_eq_true, Bool.and_eq_true, decide_eq_true_eq] at h
    rcases h with h | h
    · rw [h]
    · exact h.2
  · intro h
    simp only [Bool.or_eq_true, Bool.and_eq_true, decide_eq_true_eq]
    right
    refine ⟨?_, h⟩
    have := round_close _ _ h
    unfold inverseEpsilon at this
    unfold epsilon
    apply abs_le_of <;> grind

theorem fuzzyEq_refl (a : Rat) : fuzzyEq a a = true := by simp [fuzzyEq]

theorem fuzzyEq_symm (a b : Rat) (h : fuzzyEq a b = true) : fuzzyEq b a = true := by
  rw [fuzzyEq_iff] at *; exact h.symm

theorem fuzzyEq_trans (a b c : Rat) (h1 : fuzzyEq a b = true) (h2 : fuzzyEq b c = true) :
    fuzzyEq a c = true := by
  rw [fuzzyEq_iff] at *; exact h1.trans h2

theorem fuzzyN_refl (n : Num) (h : n.isNaN = false) : fuzzyN n n = true := by
  cases n <;> simp_all [fuzzyN, Num.isNaN, fuzzyEq_refl]

theorem fuzzyN_symm (a b : Num) (h : fuzzyN a b = true) : fuzzyN b a = true := by
  cases a <;> cases b <;> simp_all [fuzzyN]
  exact fuzzyEq_symm _ _ h

theorem fuzzyN_trans (a b c : Num) (h1 : fuzzyN a b = true) (h2 : fuzzyN b c = true) :
    fuzzyN a c = true := by
  cases a <;> cases b <;> cases c <;> simp_all [fuzzyN]
  exact fuzzyEq_trans _ _ _ h1 h2

theorem scale_isNaN (n : Num) (f : Rat) : (n.scale f).isNaN = n.isNaN := by
  cases n <;> simp [Num.scale, Num.isNaN]

theorem rat_div_one (a : Rat) : a / 1 = a := by grind

theorem scale_one (n : Num) : n.scale 1 = n := by cases n <;> simp [Num.scale]

/-- The class of a unit for `==`: the canonical unit of its kind, or the unit itself. -/
def cls (u : U) : U := (u.canonical).getD u

set_option maxHeartbeats 1000000 in
/-- With cross-unit comparisons made in the canonical unit (`canon`) and same-unit comparisons
    either made there too (`canonSame`) or only occurring for canonical units, `SassNumber::eq`
    is: same class, and fuzzily equal values after scaling into the canonical unit. -/
theorem numEq_char (sw : Sw) (n1 n2 : Num) (u1 u2 : U) (hc : sw.canon = true)
    (hs : sw.canonSame = true ∨ (u1.isCanon = true ∧ u2.isCanon = true)) :
    numEq sw n1 u1 n2 u2 =
      (decide (cls u1 = cls u2) && fuzzyN (n1.scale u1.toCanon) (n2.scale u2.toCanon)) := by
  unfold numEq
  rw [hc]
  cases u1 <;> cases u2 <;>
    simp [comparable, U.kind, U.canonical, U.isCanon, cls, conv, factor, U.toCanon, rat_div_one, scale_one] at hs ⊢ <;>
    (try (rcases hs with hs | hs <;> simp [hs])) <;>
    (try (intro h; simp [hs] at h))

/-- `SassNumber::eq` is reflexive on non-NaN numbers (no scope condition needed). -/
theorem numEq_refl (sw : Sw) (n : Num) (u : U) (h : n.isNaN = false) : numEq sw n u n u = true := by
  have hcmp : comparable u u = true := by cases u <;> simp [comparable, U.kind]
  unfold numEq
  simp only [hcmp, Bool.not_true, Bool.false_eq_true, if_false, ne_eq, not_true_eq_false, and_false, false_or]
  split
  · split
    · apply fuzzyN_refl; unfold conv; split <;> simp [scale_isNaN, h]
    · simp only [conv, or_true, if_true]; exact fuzzyN_refl _ h
  · simp only [conv, or_true, if_true]; exact fuzzyN_refl _ h

end Grass.Value
