import Grass.Extend
import GrassProofs.Lemmas.SelSem
/-
  Helper lemmas for C10: `paths`, the options of `extend_compound`, unification of a path.
-/
namespace Grass.Extend
open Grass.Selector

/-! ### `paths` (functions.rs:708) -/

theorem paths_step_any {α : Type} (f : α → Bool) (ps : List (List α)) (choice : List α) :
    (choice.flatMap fun o => ps.map (· ++ [o])).any (fun path => path.all f) =
      (ps.any (fun path => path.all f) && choice.any f) := by
  rw [Bool.eq_iff_iff]
  simp only [List.any_eq_true, List.mem_flatMap, List.mem_map, Bool.and_eq_true]
  constructor
  · rintro ⟨path, ⟨o, ho, pre, hpre, rfl⟩, hall⟩
    simp only [List.all_append, List.all_cons, List.all_nil, Bool.and_true, Bool.and_eq_true] at hall
    exact ⟨⟨pre, hpre, hall.1⟩, o, ho, hall.2⟩
  · rintro ⟨⟨pre, hpre, hall⟩, o, ho, hf⟩
    exact ⟨pre ++ [o], ⟨o, ho, pre, hpre, rfl⟩, by simp [List.all_append, hall, hf]⟩

theorem paths_foldl_any {α : Type} (f : α → Bool) :
    ∀ (choices : List (List α)) (ps : List (List α)),
      (choices.foldl (fun ps choice => choice.flatMap fun o => ps.map (· ++ [o])) ps).any (fun path => path.all f) =
        (ps.any (fun path => path.all f) && choices.all (fun ch => ch.any f)) := by
  intro choices
  induction choices with
  | nil => intro ps; simp
  | cons ch rest ih =>
    intro ps
    simp only [List.foldl_cons, ih, paths_step_any, List.all_cons, Bool.and_assoc]

/-- some path satisfies `f` everywhere iff every choice has an option satisfying `f` -/
theorem paths_any_all {α : Type} (f : α → Bool) (choices : List (List α)) :
    (paths choices).any (fun path => path.all f) = choices.all (fun ch => ch.any f) := by
  unfold paths
  rw [paths_foldl_any]
  simp

theorem paths_foldl_mem {α : Type} (P : α → Prop) :
    ∀ (choices : List (List α)) (ps : List (List α)),
      (∀ path ∈ ps, ∀ o ∈ path, P o) → (∀ ch ∈ choices, ∀ o ∈ ch, P o) →
      ∀ path ∈ choices.foldl (fun ps choice => choice.flatMap fun o => ps.map (· ++ [o])) ps, ∀ o ∈ path, P o := by
  intro choices
  induction choices with
  | nil => intro ps h _; simpa using h
  | cons ch rest ih =>
    intro ps h1 h2
    simp only [List.foldl_cons]
    apply ih
    · intro path hp o ho
      simp only [List.mem_flatMap, List.mem_map] at hp
      obtain ⟨o', ho', pre, hpre, rfl⟩ := hp
      rcases List.mem_append.1 ho with h | h
      · exact h1 pre hpre o h
      · simp only [List.mem_singleton] at h; rw [h]; exact h2 ch (by simp) o' ho'
    · intro ch' hch' o ho; exact h2 ch' (by simp [hch']) o ho

theorem paths_mem {α : Type} (P : α → Prop) (choices : List (List α))
    (h : ∀ ch ∈ choices, ∀ o ∈ ch, P o) : ∀ path ∈ paths choices, ∀ o ∈ path, P o := by
  unfold paths
  exact paths_foldl_mem P choices [[]] (by simp) h


/-! ### credited matching of a compound without selector pseudos -/

def credC (E : Compound) (T : Simple) (c : Compound) (p : Ctx) : Bool :=
  c.all fun s => mSimple s p || (decide (s = T) && mComp E p)

theorem cSimple_noSel (credit : Simple → Ctx → Bool) (s : Simple) (p : Ctx) (h : s.isSel = false) :
    cSimple credit s p = (mSimple s p || credit s p) := by
  cases s with
  | sel k a => simp [Simple.isSel] at h
  | placeholder n => simp [cSimple, mSimple]
  | parent x => simp [cSimple, mSimple]
  | univ => simp [cSimple]
  | type n => simp [cSimple]
  | cls n => simp [cSimple]
  | id n => simp [cSimple]
  | attr n v => simp [cSimple]
  | pclass n => simp [cSimple]
  | pelem n => simp [cSimple]

theorem cComp_noSel (E : Compound) (T : Simple) (p : Ctx) :
    ∀ (c : Compound), noSelC c = true → cComp (credit1 E T) c p = credC E T c p := by
  intro c
  induction c with
  | nil => intro _; simp [cComp, credC]
  | cons s ss ih =>
    intro h
    simp only [noSelC, List.all_cons, Bool.and_eq_true, Bool.not_eq_true'] at h
    have := ih (by simpa [noSelC] using h.2)
    simp only [cComp, credC, List.all_cons] at this ⊢
    rw [this, cSimple_noSel _ _ _ h.1]
    rfl

/-! ### the options of `extend_compound` for one extension `E → T` -/

def optSem (opts : List (List Opt)) (p : Ctx) : Bool := opts.all fun ch => ch.any fun o => mComp o.comp p

theorem extendersOf_single (e : Ext) (s : Simple) :
    extendersOf [e] s = if e.target = s then [e] else [] := by
  simp [extendersOf, List.filter]
  split <;> simp_all

theorem optSem_append (a b : List (List Opt)) (p : Ctx) : optSem (a ++ b) p = (optSem a p && optSem b p) := by
  simp [optSem, List.all_append]

theorem buildOptions_sem (e : Ext) (p : Ctx) :
    ∀ (rest pre : Compound) (acc : Option (List (List Opt))),
      match buildOptions [e] pre rest acc with
      | none => acc = none ∧ credC e.extender e.target rest p = mComp rest p
      | some opts =>
        optSem opts p = ((match acc with | none => mComp pre p | some v => optSem v p) &&
          credC e.extender e.target rest p) := by
  intro rest
  induction rest with
  | nil =>
    intro pre acc
    cases acc <;> simp [buildOptions, credC, mComp]
  | cons s rest ih =>
    intro pre acc
    unfold buildOptions
    simp only [extendersOf_single]
    by_cases hs : e.target = s
    · subst hs
      simp only [if_true, List.isEmpty_cons, Bool.false_eq_true, if_false, List.map_cons, List.map_nil]
      cases acc with
      | none =>
        simp only
        have := ih (pre ++ [e.target]) (some ((if pre.isEmpty then [] else [[origOpt pre]]) ++ [[origOpt [e.target], extOpt e]]))
        revert this
        cases buildOptions [e] (pre ++ [e.target]) rest _ with
        | none => intro h; exact absurd h.1 (by simp)
        | some opts =>
          intro h
          simp only at h ⊢
          rw [h, optSem_append]
          have h1 : optSem (if pre.isEmpty then [] else [[origOpt pre]]) p = mComp pre p := by
            cases pre <;> simp [optSem, origOpt, mComp]
          rw [h1]
          simp [optSem, origOpt, extOpt, credC, mComp, Bool.and_assoc]
      | some v =>
        simp only
        have := ih (pre ++ [e.target]) (some (v ++ [[origOpt [e.target], extOpt e]]))
        revert this
        cases buildOptions [e] (pre ++ [e.target]) rest _ with
        | none => intro h; exact absurd h.1 (by simp)
        | some opts =>
          intro h
          simp only at h ⊢
          rw [h, optSem_append]
          simp [optSem, origOpt, extOpt, credC, mComp, Bool.and_assoc]
    · simp only [hs, if_false, List.isEmpty_nil, if_true]
      have hne : decide (s = e.target) = false := by
        simp; exact fun h => hs h.symm
      cases acc with
      | none =>
        simp only
        have := ih (pre ++ [s]) none
        revert this
        cases buildOptions [e] (pre ++ [s]) rest none with
        | none =>
          intro h
          simp only at h ⊢
          refine ⟨rfl, ?_⟩
          simp only [credC, List.all_cons, hne, Bool.false_and, Bool.or_false, mComp] at h ⊢
          rw [h.2]
        | some opts =>
          intro h
          simp only at h ⊢
          rw [h]
          simp [credC, hne, mComp_append, mComp, Bool.and_assoc]
      | some v =>
        simp only
        have := ih (pre ++ [s]) (some (v ++ [[origOpt [s]]]))
        revert this
        cases buildOptions [e] (pre ++ [s]) rest _ with
        | none => intro h; exact absurd h.1 (by simp)
        | some opts =>
          intro h
          simp only at h ⊢
          rw [h, optSem_append]
          simp [optSem, origOpt, credC, hne, mComp, Bool.and_assoc]

end Grass.Extend
