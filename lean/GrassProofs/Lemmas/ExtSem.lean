import Grass.Extend
import GrassProofs.Lemmas.SelSem
/-
  Helper lemmas for C10: `paths`, the options of `extend_compound`, unification of a path.
-/
namespace Grass.Extend
open Grass.Selector

/-! ### `paths` (functions.rs:708) -/

theorem paths_step_any {α : Type} (f : α → Bool) (ps : List (List α)) (choice : List α) :
    (choice.flatMap fun o => ps.map (· ++ [o])).any (fun path => path.all f) =
      (ps.any (fun path => path.all f) && choice.any f) := by
  rw [Bool.eq_iff_iff]
  simp only [List.any_eq_true, List.mem_flatMap, List.mem_map, Bool.and_eq_true]
  constructor
  · rintro ⟨path, ⟨o, ho, pre, hpre, rfl⟩, hall⟩
    simp only [List.all_append, List.all_cons, List.all_nil, Bool.and_true, Bool.and_eq_true] at hall
    exact ⟨⟨pre, hpre, hall.1⟩, o, ho, hall.2⟩
  · rintro ⟨⟨pre, hpre, hall⟩, o, ho, hf⟩
    exact ⟨pre ++ [o], ⟨o, ho, pre, hpre, rfl⟩, by simp [List.all_append, hall, hf]⟩

theorem paths_foldl_any {α : Type} (f : α → Bool) :
    ∀ (choices : List (List α)) (ps : List (List α)),
      (choices.foldl (fun ps choice => choice.flatMap fun o => ps.map (· ++ [o])) ps).any (fun path => path.all f) =
        (ps.any (fun path => path.all f) && choices.all (fun ch => ch.any f)) := by
  intro choices
  induction choices with
  | nil => intro ps; simp
  | cons ch rest ih =>
    intro ps
    simp only [List.foldl_cons, ih, paths_step_any, List.all_cons, Bool.and_assoc]

/-- some path satisfies `f` everywhere iff every choice has an option satisfying `f` -/
theorem paths_any_all {α : Type} (f : α → Bool) (choices : List (List α)) :
    (paths choices).any (fun path => path.all f) = choices.all (fun ch => ch.any f) := by
  unfold paths
  rw [paths_foldl_any]
  simp

theorem paths_foldl_mem {α : Type} (P : α → Prop) :
    ∀ (choices : List (List α)) (ps : List (List α)),
      (∀ path ∈ ps, ∀ o ∈ path, P o) → (∀ ch ∈ choices, ∀ o ∈ ch, P o) →
      ∀ path ∈ choices.foldl (fun ps choice => choice.flatMap fun o => ps.map (· ++ [o])) ps, ∀ o ∈ path, P o := by
  intro choices
  induction choices with
  | nil => intro ps h _; simpa using h
  | cons ch rest ih =>
    intro ps h1 h2
    simp only [List.foldl_cons]
    apply ih
    · intro path hp o ho
      simp only [List.mem_flatMap, List.mem_map] at hp
      obtain ⟨o', ho', pre, hpre, rfl⟩ := hp
      rcases List.mem_append.1 ho with h | h
      · exact h1 pre hpre o h
      · simp only [List.mem_singleton] at h; rw [h]; exact h2 ch (by simp) o' ho'
    · intro ch' hch' o ho; exact h2 ch' (by simp [hch']) o ho

theorem paths_mem {α : Type} (P : α → Prop) (choices : List (List α))
    (h : ∀ ch ∈ choices, ∀ o ∈ ch, P o) : ∀ path ∈ paths choices, ∀ o ∈ path, P o := by
  unfold paths
  exact paths_foldl_mem P choices [[]] (by simp) h


/-! ### credited matching of a compound without selector pseudos -/

def credC (E : Compound) (T : Simple) (c : Compound) (p : Ctx) : Bool :=
  c.all fun s => mSimple s p || (decide (s = T) && mComp E p)

theorem cSimple_noSel (credit : Simple → Ctx → Bool) (s : Simple) (p : Ctx) (h : s.isSel = false) :
    cSimple credit s p = (mSimple s p || credit s p) := by
  cases s with
  | sel k a => simp [Simple.isSel] at h
  | placeholder n => simp [cSimple, mSimple]
  | parent x => simp [cSimple, mSimple]
  | univ => simp [cSimple]
  | type n => simp [cSimple]
  | cls n => simp [cSimple]
  | id n => simp [cSimple]
  | attr n v => simp [cSimple]
  | pclass n => simp [cSimple]
  | pelem n => simp [cSimple]

theorem cComp_noSel (E : Compound) (T : Simple) (p : Ctx) :
    ∀ (c : Compound), noSelC c = true → cComp (credit1 E T) c p = credC E T c p := by
  intro c
  induction c with
  | nil => intro _; simp [cComp, credC]
  | cons s ss ih =>
    intro h
    simp only [noSelC, List.all_cons, Bool.and_eq_true, Bool.not_eq_true'] at h
    have := ih (by simpa [noSelC] using h.2)
    simp only [cComp, credC, List.all_cons] at this ⊢
    rw [this, cSimple_noSel _ _ _ h.1]
    rfl

/-! ### the options of `extend_compound` for one extension `E → T` -/

def optSem (opts : List (List Opt)) (p : Ctx) : Bool := opts.all fun ch => ch.any fun o => mComp o.comp p

theorem extendersOf_single (e : Ext) (s : Simple) :
    extendersOf [e] s = if e.target = s then [e] else [] := by
  simp [extendersOf, List.filter]
  split <;> simp_all

theorem optSem_append (a b : List (List Opt)) (p : Ctx) : optSem (a ++ b) p = (optSem a p && optSem b p) := by
  simp [optSem, List.all_append]

theorem buildOptions_sem (e : Ext) (p : Ctx) :
    ∀ (rest pre : Compound) (acc : Option (List (List Opt))),
      match buildOptions [e] pre rest acc with
      | none => acc = none ∧ credC e.extender e.target rest p = mComp rest p
      | some opts =>
        optSem opts p = ((match acc with | none => mComp pre p | some v => optSem v p) &&
          credC e.extender e.target rest p) := by
  intro rest
  induction rest with
  | nil =>
    intro pre acc
    cases acc <;> simp [buildOptions, credC, mComp]
  | cons s rest ih =>
    intro pre acc
    unfold buildOptions
    simp only [extendersOf_single]
    by_cases hs : e.target = s
    · subst hs
      simp only [if_true, List.isEmpty_cons, Bool.false_eq_true, if_false, List.map_cons, List.map_nil]
      cases acc with
      | none =>
        simp only
        have := ih (pre ++ [e.target]) (some ((if pre.isEmpty then [] else [[origOpt pre]]) ++ [[origOpt [e.target], extOpt e]]))
        revert this
        cases buildOptions [e] (pre ++ [e.target]) rest _ with
        | none => intro h; exact absurd h.1 (by simp)
        | some opts =>
          intro h
          simp only at h ⊢
          rw [h, optSem_append]
          have h1 : optSem (if pre.isEmpty then [] else [[origOpt pre]]) p = mComp pre p := by
            cases pre <;> simp [optSem, origOpt, mComp]
          rw [h1]
          simp [optSem, origOpt, extOpt, credC, mComp, Bool.and_assoc]
      | some v =>
        simp only
        have := ih (pre ++ [e.target]) (some (v ++ [[origOpt [e.target], extOpt e]]))
        revert this
        cases buildOptions [e] (pre ++ [e.target]) rest _ with
        | none => intro h; exact absurd h.1 (by simp)
        | some opts =>
          intro h
          simp only at h ⊢
          rw [h, optSem_append]
          simp [optSem, origOpt, extOpt, credC, mComp, Bool.and_assoc]
    · simp only [hs, if_false, List.isEmpty_nil, if_true]
      have hne : decide (s = e.target) = false := by
        simp; exact fun h => hs h.symm
      cases acc with
      | none =>
        simp only
        have := ih (pre ++ [s]) none
        revert this
        cases buildOptions [e] (pre ++ [s]) rest none with
        | none =>
          intro h
          simp only at h ⊢
          refine ⟨trivial, ?_⟩
          simp only [credC, List.all_cons, hne, Bool.false_and, Bool.or_false, mComp] at h ⊢
          rw [h.2]
        | some opts =>
          intro h
          simp only at h ⊢
          rw [h]
          simp [credC, hne, mComp_append, mComp, Bool.and_assoc]
      | some v =>
        simp only
        have := ih (pre ++ [s]) (some (v ++ [[origOpt [s]]]))
        revert this
        cases buildOptions [e] (pre ++ [s]) rest _ with
        | none => intro h; exact absurd h.1 (by simp)
        | some opts =>
          intro h
          simp only at h ⊢
          rw [h, optSem_append]
          simp [optSem, origOpt, credC, hne, mComp, Bool.and_assoc]


/-! ### unification of one path -/

theorem unifyCompound_ne_nil (p : Ctx) : ∀ (A B C : Compound), B ≠ [] → unifyCompound A B = some C → C ≠ [] := by
  intro A
  induction A with
  | nil => intro B C hB h; simp [unifyCompound] at h; subst h; exact hB
  | cons s A ih =>
    intro B C hB h
    unfold unifyCompound at h
    split at h
    · rename_i B' hB'
      exact ih B' C (unifySimple_sem s B B' p hB').2 h
    · cases h

theorem unifyInto_sem (p : Ctx) :
    ∀ (rest : List Compound) (base : Compound), base ≠ [] →
      match unifyInto base rest with
      | some u => mComp u p = (mComp base p && rest.all (mComp · p))
      | none => (mComp base p && rest.all (mComp · p)) = false := by
  intro rest
  induction rest with
  | nil => intro base _; simp [unifyInto]
  | cons c rest ih =>
    intro base hb
    unfold unifyInto
    cases hu : unifyCompound c base with
    | none =>
      simp only
      have := unifyCompound_none p c base hb hu
      simp only [List.all_cons]
      cases h1 : mComp base p <;> cases h2 : mComp c p <;> simp_all
    | some b =>
      simp only
      have hb' := unifyCompound_ne_nil p c base b hb hu
      have hs := unifyCompound_sem p c base b hu
      have := ih b hb'
      revert this
      cases unifyInto b rest with
      | none =>
        intro h; simp only at h ⊢
        rw [hs] at h
        simp only [List.all_cons]
        cases h1 : mComp base p <;> cases h2 : mComp c p <;> simp_all
      | some u =>
        intro h; simp only at h ⊢
        rw [h, hs]
        simp only [List.all_cons]
        cases mComp base p <;> cases mComp c p <;> simp

theorem all_filter_split {α : Type} (g f : α → Bool) (l : List α) :
    l.all f = ((l.filter g).all f && (l.filter (fun x => !g x)).all f) := by
  induction l with
  | nil => simp
  | cons x xs ih =>
    simp only [List.all_cons, List.filter_cons, ih]
    cases g x <;> simp [Bool.and_assoc, Bool.and_left_comm]

theorem mComp_flatMap (os : List Opt) (p : Ctx) :
    mComp (os.flatMap (·.comp)) p = os.all (fun o => mComp o.comp p) := by
  induction os with
  | nil => simp [mComp]
  | cons o os ih => simp [List.flatMap_cons, mComp_append, ih]

theorem unifyAll_sem (O : Compound) (N : List Compound) (p : Ctx) (hN : ∀ c ∈ N, c ≠ [])
    (hON : O ≠ [] ∨ N ≠ []) :
    match unifyAll (if O.isEmpty then N else O :: N) with
    | some u => mComp u p = (mComp O p && N.all (mComp · p))
    | none => (mComp O p && N.all (mComp · p)) = false := by
  cases O with
  | nil =>
    simp only [List.isEmpty_nil, if_true]
    cases N with
    | nil => simp at hON
    | cons base rest =>
      simp only [unifyAll]
      have := unifyInto_sem p rest base (hN base (by simp))
      revert this
      cases unifyInto base rest <;> simp [mComp]
  | cons s ss =>
    simp only [List.isEmpty_cons, Bool.false_eq_true, if_false, unifyAll]
    have := unifyInto_sem p N (s :: ss) (by simp)
    revert this
    cases unifyInto (s :: ss) N <;> simp

/-- a path that is not the first one: its unification matches exactly the conjunction of its options -/
theorem unifyPath_sem (path : List Opt) (p : Ctx) (hne : ∀ o ∈ path, o.comp ≠ []) (hp : path ≠ []) :
    match unifyPath path with
    | some u => mComp u p = path.all (fun o => mComp o.comp p)
    | none => path.all (fun o => mComp o.comp p) = false := by
  unfold unifyPath
  rw [all_filter_split (·.isOriginal) (fun o => mComp o.comp p) path]
  have hO : mComp ((path.filter (·.isOriginal)).flatMap (·.comp)) p = (path.filter (·.isOriginal)).all (fun o => mComp o.comp p) :=
    mComp_flatMap _ p
  have hN : ((path.filter (fun o => !o.isOriginal)).map (·.comp)).all (mComp · p) =
      (path.filter (fun o => !o.isOriginal)).all (fun o => mComp o.comp p) := by
    simp [List.all_map, Function.comp_def]
  have hNne : ∀ c ∈ (path.filter (fun o => !o.isOriginal)).map (·.comp), c ≠ [] := by
    intro c hc
    simp only [List.mem_map, List.mem_filter] at hc
    obtain ⟨o, ⟨ho, _⟩, rfl⟩ := hc
    exact hne o ho
  have hON : (path.filter (·.isOriginal)).flatMap (·.comp) ≠ [] ∨ (path.filter (fun o => !o.isOriginal)).map (·.comp) ≠ [] := by
    cases path with
    | nil => exact absurd rfl hp
    | cons o os =>
      have ho := hne o (by simp)
      by_cases hoo : o.isOriginal = true
      · left
        simp only [List.filter_cons, hoo, if_true, List.flatMap_cons]
        intro h; exact ho (List.append_eq_nil_iff.1 h).1
      · right
        simp [List.filter_cons, hoo]
  have := unifyAll_sem _ _ p hNne hON
  rw [hO, hN] at this
  exact this


/-! ### `extend_compound` for one extension -/

theorem paths_foldl_length {α : Type} :
    ∀ (choices : List (List α)) (ps : List (List α)) (n : Nat),
      (∀ path ∈ ps, path.length = n) →
      ∀ path ∈ choices.foldl (fun ps choice => choice.flatMap fun o => ps.map (· ++ [o])) ps,
        path.length = n + choices.length := by
  intro choices
  induction choices with
  | nil => intro ps n h; simpa using h
  | cons ch rest ih =>
    intro ps n h path hp
    simp only [List.foldl_cons] at hp
    have := ih _ (n + 1) (by
      intro q hq
      simp only [List.mem_flatMap, List.mem_map] at hq
      obtain ⟨o, _, pre, hpre, rfl⟩ := hq
      simp [h pre hpre]) path hp
    simp only [List.length_cons]; omega

theorem paths_length {α : Type} (choices : List (List α)) : ∀ path ∈ paths choices, path.length = choices.length := by
  intro path hp
  have := paths_foldl_length choices [[]] 0 (by simp) path hp
  simpa using this

def GoodChoice (ch : List Opt) : Prop := ch ≠ [] ∧ ∀ o ∈ ch, o.comp ≠ []

theorem good_append (v : List (List Opt)) (x : List Opt) (hv : ∀ ch ∈ v, GoodChoice ch) (hx : GoodChoice x) :
    ∀ ch ∈ v ++ [x], GoodChoice ch := by
  intro ch hch
  rcases List.mem_append.1 hch with h | h
  · exact hv ch h
  · simp only [List.mem_singleton] at h; subst h; exact hx

theorem good_orig (c : Compound) (hc : c ≠ []) : GoodChoice [origOpt c] :=
  ⟨by simp, by intro o ho; simp only [List.mem_singleton] at ho; subst ho; simpa [origOpt] using hc⟩

theorem good_entry (e : Ext) (hE : e.extender ≠ []) (s : Simple) : GoodChoice [origOpt [s], extOpt e] :=
  ⟨by simp, by
    intro o ho
    simp only [List.mem_cons, List.not_mem_nil, or_false] at ho
    rcases ho with rfl | rfl
    · simp [origOpt]
    · simpa [extOpt] using hE⟩

theorem buildOptions_ne (e : Ext) (hE : e.extender ≠ []) :
    ∀ (rest pre : Compound) (acc : Option (List (List Opt))),
      (∀ v, acc = some v → ∀ ch ∈ v, GoodChoice ch) →
      ∀ opts, buildOptions [e] pre rest acc = some opts → ∀ ch ∈ opts, GoodChoice ch := by
  intro rest
  induction rest with
  | nil => intro pre acc h opts ho; simp only [buildOptions] at ho; exact h opts ho
  | cons s rest ih =>
    intro pre acc h opts ho
    unfold buildOptions at ho
    simp only [extendersOf_single] at ho
    by_cases hs : e.target = s
    · simp only [hs, if_true, List.isEmpty_cons, Bool.false_eq_true, if_false, List.map_cons, List.map_nil] at ho
      cases acc with
      | none =>
        simp only at ho
        refine ih _ _ ?_ opts ho
        intro v hv
        injection hv with hv; subst hv
        apply good_append _ _ _ (good_entry e hE s)
        intro ch hch
        cases pre with
        | nil => simp at hch
        | cons x xs =>
          simp only [List.isEmpty_cons, Bool.false_eq_true, if_false, List.mem_singleton] at hch
          subst hch; exact good_orig _ (by simp)
      | some v =>
        simp only at ho
        refine ih _ _ ?_ opts ho
        intro v' hv
        injection hv with hv; subst hv
        exact good_append _ _ (h v rfl) (good_entry e hE s)
    · simp only [hs, if_false, List.isEmpty_nil, if_true] at ho
      cases acc with
      | none => simp only at ho; exact ih _ _ (by intro v hv; cases hv) opts ho
      | some v =>
        simp only at ho
        refine ih _ _ ?_ opts ho
        intro v' hv
        injection hv with hv; subst hv
        exact good_append _ _ (h v rfl) (good_orig [s] (by simp))

theorem paths_foldl_ne {α : Type} :
    ∀ (choices : List (List α)) (ps : List (List α)), ps ≠ [] → (∀ ch ∈ choices, ch ≠ []) →
      choices.foldl (fun ps choice => choice.flatMap fun o => ps.map (· ++ [o])) ps ≠ [] := by
  intro choices
  induction choices with
  | nil => intro ps h _; simpa using h
  | cons ch rest ih =>
    intro ps hps h
    simp only [List.foldl_cons]
    apply ih
    · have hch := h ch (by simp)
      cases ch with
      | nil => exact absurd rfl hch
      | cons o os =>
        cases ps with
        | nil => exact absurd rfl hps
        | cons q qs => simp [List.flatMap_cons]
    · intro ch' hch'; exact h ch' (by simp [hch'])

theorem paths_ne_nil {α : Type} (choices : List (List α)) (h : ∀ ch ∈ choices, ch ≠ []) : paths choices ≠ [] :=
  paths_foldl_ne choices [[]] (by simp) h

theorem matchesComplex_single (u : Compound) (p : Ctx) : matchesComplex [.compound u] p = mComp u p := by
  simp [matchesComplex, norm, fwd, revGo, mRC, mSteps]

theorem filterMap_unify_any (others : List (List Opt)) (p : Ctx)
    (h : ∀ path ∈ others, (∀ o ∈ path, o.comp ≠ []) ∧ path ≠ []) :
    (others.filterMap fun q => (unifyPath q).map fun u => (q, u)).any (fun pu => mComp pu.2 p) =
      others.any (fun path => path.all fun o => mComp o.comp p) := by
  induction others with
  | nil => simp
  | cons q qs ih =>
    have hq := h q (by simp)
    have := unifyPath_sem q p hq.1 hq.2
    have ih' := ih (fun path hp => h path (by simp [hp]))
    simp only [List.filterMap_cons, List.any_cons]
    revert this
    cases unifyPath q with
    | none => intro h1; simp only [Option.map_none] ; simp only at h1; rw [h1, ih']; simp
    | some u => intro h1; simp only [Option.map_some, List.any_cons] ; simp only at h1; rw [h1, ih']


end Grass.Extend
