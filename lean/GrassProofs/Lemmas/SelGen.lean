import Grass.Extend
import GrassProofs.Lemmas.SelWalk
/-
  The matching semantics with the compound matcher as a parameter (`mc`), in anchored
  (left-to-right) form.  Instances: `mc = mComp` (plain matching) and `mc = cComp credit`
  (credited matching, C10).
-/
namespace Grass.Selector

def gSteps (mc : Compound → Ctx → Bool) : RSteps → Ctx → Bool
  | [], _ => true
  | (r, c) :: rest, p => (steps r p).any fun q => mc c q && gSteps mc rest q

def gComplex (mc : Compound → Ctx → Bool) (X : Complex) (p : Ctx) : Bool :=
  match norm X with
  | some r => mc r.1 p && gSteps mc r.2 p
  | none => false

theorem mSteps_eq_g : ∀ (st : RSteps) (p : Ctx), mSteps st p = gSteps mComp st p := by
  intro st
  induction st with
  | nil => intro p; simp [mSteps, gSteps]
  | cons x rest ih => intro p; obtain ⟨r, c⟩ := x; simp [mSteps, gSteps, ih]

theorem matchesComplex_eq_g (X : Complex) (p : Ctx) : matchesComplex X p = gComplex mComp X p := by
  unfold matchesComplex gComplex mRC
  cases norm X <;> simp [mSteps_eq_g]

def LFg (mc : Compound → Ctx → Bool) : Compound → List (Rel × Compound) → Ctx → Ctx → Prop
  | c, [], q, p => q = p ∧ mc c p = true
  | c, (r, d) :: rest, q, p => mc c q = true ∧ ∃ q2, q ∈ steps r q2 ∧ LFg mc d rest q2 p

theorem gRC_revGo (mc : Compound → Ctx → Bool) :
    ∀ (st : List (Rel × Compound)) (h : Compound) (acc : RSteps) (p : Ctx),
      (mc (revGo h acc st).1 p && gSteps mc (revGo h acc st).2 p) = true ↔
        ∃ q, LFg mc h st q p ∧ gSteps mc acc q = true := by
  intro st
  induction st with
  | nil =>
    intro h acc p
    simp only [revGo, LFg, Bool.and_eq_true]
    constructor
    · intro ⟨a, b⟩; exact ⟨p, ⟨rfl, a⟩, b⟩
    · intro ⟨q, ⟨e, a⟩, b⟩; subst e; exact ⟨a, b⟩
  | cons x rest ih =>
    intro h acc p
    obtain ⟨r, c⟩ := x
    simp only [revGo]
    rw [ih c ((r, h) :: acc) p]
    constructor
    · intro ⟨q2, hl, hm⟩
      simp only [gSteps, List.any_eq_true, Bool.and_eq_true] at hm
      obtain ⟨q, hq, hm⟩ := hm
      exact ⟨q, ⟨hm.1, q2, hq, hl⟩, hm.2⟩
    · intro ⟨q, ⟨hc, q2, hq, hl⟩, hm⟩
      refine ⟨q2, hl, ?_⟩
      simp only [gSteps, List.any_eq_true, Bool.and_eq_true]
      exact ⟨q, hq, hc, hm⟩

/-- anchored semantics by direct recursion on grass's component vector -/
def GLX (mc : Compound → Ctx → Bool) : Complex → Ctx → Ctx → Prop
  | [], _, _ => False
  | [.compound c], q, p => q = p ∧ mc c p = true
  | .compound c :: .comb cb :: rest, q, p => mc c q = true ∧ ∃ q2, q ∈ steps cb.rel q2 ∧ GLX mc rest q2 p
  | .compound c :: .compound d :: rest, q, p =>
    mc c q = true ∧ ∃ q2, q ∈ steps .desc q2 ∧ GLX mc (.compound d :: rest) q2 p
  | .comb _ :: _, _, _ => False

theorem GLX_eq_fwd (mc : Compound → Ctx → Bool) (X : Complex) :
    ∀ (q p : Ctx), GLX mc X q p ↔ match fwd X with | none => False | some (c, st) => LFg mc c st q p := by
  fun_induction fwd X with
  | case1 => intro q p; simp [GLX]
  | case2 c => intro q p; simp [GLX, LFg]
  | case3 c cb rest d ds h ih =>
    intro q p
    simp only [GLX, LFg]
    constructor
    · rintro ⟨a, q2, b, hh⟩; exact ⟨a, q2, b, by have := (ih q2 p).1 hh; simpa [h] using this⟩
    · rintro ⟨a, q2, b, hh⟩; exact ⟨a, q2, b, (ih q2 p).2 (by simpa [h] using hh)⟩
  | case4 c cb rest h ih =>
    intro q p
    simp only [GLX]
    constructor
    · rintro ⟨_, q2, _, hh⟩; have := (ih q2 p).1 hh; simp [h] at this
    · intro hf; exact hf.elim
  | case5 c d rest d' ds h ih =>
    intro q p
    simp only [GLX, LFg]
    constructor
    · rintro ⟨a, q2, b, hh⟩; exact ⟨a, q2, b, by have := (ih q2 p).1 hh; simpa [h] using this⟩
    · rintro ⟨a, q2, b, hh⟩; exact ⟨a, q2, b, (ih q2 p).2 (by simpa [h] using hh)⟩
  | case6 c d rest h ih =>
    intro q p
    simp only [GLX]
    constructor
    · rintro ⟨_, q2, _, hh⟩; have := (ih q2 p).1 hh; simp [h] at this
    · intro hf; exact hf.elim
  | case7 => intro q p; simp [GLX]

theorem gComplex_iff (mc : Compound → Ctx → Bool) (X : Complex) (p : Ctx) :
    gComplex mc X p = true ↔ ∃ q, GLX mc X q p := by
  simp only [GLX_eq_fwd]
  unfold gComplex norm
  cases h : fwd X with
  | none => simp
  | some cs =>
    obtain ⟨c, st⟩ := cs
    simp only
    rw [gRC_revGo]
    simp [gSteps]

theorem GLX_congr (mc1 mc2 : Compound → Ctx → Bool) :
    ∀ (X : Complex), (∀ c, Component.compound c ∈ X → ∀ q, mc1 c q = mc2 c q) →
      ∀ q p, GLX mc1 X q p ↔ GLX mc2 X q p := by
  intro X
  fun_induction fwd X with
  | case1 => intro _ q p; simp [GLX]
  | case2 c => intro h q p; simp [GLX, h c (by simp)]
  | case3 c cb rest d ds _ ih =>
    intro h q p
    simp only [GLX, h c (by simp)]
    have ih' := ih (fun c' hc' => h c' (by simp [hc']))
    constructor <;> rintro ⟨a, q2, b, hh⟩
    · exact ⟨a, q2, b, (ih' q2 p).1 hh⟩
    · exact ⟨a, q2, b, (ih' q2 p).2 hh⟩
  | case4 c cb rest _ ih =>
    intro h q p
    simp only [GLX, h c (by simp)]
    have ih' := ih (fun c' hc' => h c' (by simp [hc']))
    constructor <;> rintro ⟨a, q2, b, hh⟩
    · exact ⟨a, q2, b, (ih' q2 p).1 hh⟩
    · exact ⟨a, q2, b, (ih' q2 p).2 hh⟩
  | case5 c d rest d' ds _ ih =>
    intro h q p
    simp only [GLX, h c (by simp)]
    have ih' := ih (fun c' hc' => h c' (List.mem_cons_of_mem _ hc'))
    constructor <;> rintro ⟨a, q2, b, hh⟩
    · exact ⟨a, q2, b, (ih' q2 p).1 hh⟩
    · exact ⟨a, q2, b, (ih' q2 p).2 hh⟩
  | case6 c d rest _ ih =>
    intro h q p
    simp only [GLX, h c (by simp)]
    have ih' := ih (fun c' hc' => h c' (List.mem_cons_of_mem _ hc'))
    constructor <;> rintro ⟨a, q2, b, hh⟩
    · exact ⟨a, q2, b, (ih' q2 p).1 hh⟩
    · exact ⟨a, q2, b, (ih' q2 p).2 hh⟩
  | case7 => intro _ q p; simp [GLX]


theorem GLX_mono (mc1 mc2 : Compound → Ctx → Bool) (hm : ∀ c q, mc1 c q = true → mc2 c q = true) :
    ∀ (X : Complex) (q p : Ctx), GLX mc1 X q p → GLX mc2 X q p := by
  intro X
  fun_induction fwd X with
  | case1 => intro q p h; simp [GLX] at h
  | case2 c => intro q p h; simp only [GLX] at h ⊢; exact ⟨h.1, hm _ _ h.2⟩
  | case3 c cb rest d ds _ ih =>
    intro q p h; simp only [GLX] at h ⊢
    obtain ⟨a, q2, b, hh⟩ := h; exact ⟨hm _ _ a, q2, b, ih q2 p hh⟩
  | case4 c cb rest _ ih =>
    intro q p h; simp only [GLX] at h ⊢
    obtain ⟨a, q2, b, hh⟩ := h; exact ⟨hm _ _ a, q2, b, ih q2 p hh⟩
  | case5 c d rest d' ds _ ih =>
    intro q p h; simp only [GLX] at h ⊢
    obtain ⟨a, q2, b, hh⟩ := h; exact ⟨hm _ _ a, q2, b, ih q2 p hh⟩
  | case6 c d rest _ ih =>
    intro q p h; simp only [GLX] at h ⊢
    obtain ⟨a, q2, b, hh⟩ := h; exact ⟨hm _ _ a, q2, b, ih q2 p hh⟩
  | case7 => intro q p h; simp [GLX] at h

end Grass.Selector
