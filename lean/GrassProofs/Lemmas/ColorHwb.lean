import GrassProofs.Lemmas.ColorRoundTrip
/-
  Helper lemmas for C15: rgb → hwb → rgb and the accessor-based hsl round trip
  (`hue()` uses a red-first case order, `as_hsla` a blue-first one), in exact rationals.
-/
namespace Grass.Color

theorem nmin_assoc_div (a b c : Rat) :
    nmin (nmin a b) c / 255 = min3 (a / 255) (b / 255) (c / 255) ∧
    nmax (nmax a b) c / 255 = max3 (a / 255) (b / 255) (c / 255) := by
  simp only [min3, max3, nmin, nmax]
  constructor <;> (repeat' split) <;> grind

theorem hq_casesB {x y z mn mx : Rat} (f1 : mn ≤ x) (f2 : mn ≤ y) (f3 : mn ≤ z) (f4 : x ≤ mx) (f5 : y ≤ mx) (f6 : z ≤ mx)
    (f7 : mn = x ∨ mn = y ∨ mn = z) (f8 : mx = x ∨ mx = y ∨ mx = z) (hlt : mn < mx) :
    ∃ q : Rat, 0 ≤ q ∧ q ≤ 1 ∧
      ((if mx = x then (y - z) / (mx - mn) else if mx = y then 2 + (z - x) / (mx - mn) else 4 + (x - y) / (mx - mn)) = 4 + q
          ∧ x = (mx - mn) * q + mn ∧ y = mn ∧ z = mx ∨
       (if mx = x then (y - z) / (mx - mn) else if mx = y then 2 + (z - x) / (mx - mn) else 4 + (x - y) / (mx - mn)) = 4 - q
          ∧ x = mn ∧ y = (mx - mn) * q + mn ∧ z = mx ∨
       (if mx = x then (y - z) / (mx - mn) else if mx = y then 2 + (z - x) / (mx - mn) else 4 + (x - y) / (mx - mn)) = 2 + q
          ∧ x = mn ∧ y = mx ∧ z = (mx - mn) * q + mn ∨
       (if mx = x then (y - z) / (mx - mn) else if mx = y then 2 + (z - x) / (mx - mn) else 4 + (x - y) / (mx - mn)) = 2 - q
          ∧ x = (mx - mn) * q + mn ∧ y = mx ∧ z = mn ∨
       (if mx = x then (y - z) / (mx - mn) else if mx = y then 2 + (z - x) / (mx - mn) else 4 + (x - y) / (mx - mn)) = q
          ∧ x = mx ∧ y = (mx - mn) * q + mn ∧ z = mn ∨
       (if mx = x then (y - z) / (mx - mn) else if mx = y then 2 + (z - x) / (mx - mn) else 4 + (x - y) / (mx - mn)) = -q
          ∧ x = mx ∧ y = mn ∧ z = (mx - mn) * q + mn) := by
  have hd : mx - mn ≠ 0 := by grind
  have hd0 : 0 < mx - mn := by grind
  have Q : ∀ w : Rat, mn ≤ w → w ≤ mx → 0 ≤ (w - mn) / (mx - mn) ∧ (w - mn) / (mx - mn) ≤ 1 ∧ w = (mx - mn) * ((w - mn) / (mx - mn)) + mn := by
    intro w a b
    exact ⟨div_nonneg' (by grind) hd0, div_le_one' hd0 (by grind), by grind⟩
  by_cases hx : mx = x
  · simp only [if_pos hx]
    by_cases hz' : z = mn
    · have ⟨a, b, c⟩ := Q y f2 f5
      exact ⟨_, a, b, Or.inr (Or.inr (Or.inr (Or.inr (Or.inl ⟨by grind, hx.symm, c, hz'⟩))))⟩
    · have hy' : y = mn := by grind
      have ⟨a, b, c⟩ := Q z f3 f6
      exact ⟨_, a, b, Or.inr (Or.inr (Or.inr (Or.inr (Or.inr ⟨by grind, hx.symm, hy', c⟩))))⟩
  · simp only [if_neg hx]
    by_cases hy : mx = y
    · simp only [if_pos hy]
      by_cases hx' : x = mn
      · have ⟨a, b, c⟩ := Q z f3 f6
        exact ⟨_, a, b, Or.inr (Or.inr (Or.inl ⟨by grind, hx', hy.symm, c⟩))⟩
      · have hz' : z = mn := by grind
        have ⟨a, b, c⟩ := Q x f1 f4
        exact ⟨_, a, b, Or.inr (Or.inr (Or.inr (Or.inl ⟨by grind, c, hy.symm, hz'⟩)))⟩
    · simp only [if_neg hy]
      have hz : z = mx := by grind
      by_cases hy' : y = mn
      · have ⟨a, b, c⟩ := Q x f1 f4
        exact ⟨_, a, b, Or.inl ⟨by grind, c, hy', hz⟩⟩
      · have hx' : x = mn := by grind
        have ⟨a, b, c⟩ := Q y f2 f5
        exact ⟨_, a, b, Or.inr (Or.inl ⟨by grind, hx', c, hz⟩)⟩

theorem hue_normB {hq : Rat} (h0 : -1 ≤ hq) (h1 : hq < 6) :
    sassMod (hq * 60) 360 / 360 = (if hq < 0 then hq + 6 else hq) / 6 := by
  split
  · unfold sassMod
    have : ((hq * 60) / 360).floor = -1 := by
      apply floor_eq <;> (try simp) <;> grind
    rw [this]; simp; grind
  · rw [sassMod_id (by grind) (by grind)]; grind


/-- the `hue()` accessor (color/mod.rs:227) on scaled channels, with exact comparisons -/
def hueE (x y z : Rat) : Rat :=
  let mn := min3 x y z; let mx := max3 x y z
  let hue :=
    if mn = mx then 0
    else if mx = x then 60 * (y - z) / (mx - mn)
    else if mx = y then 120 + 60 * (z - x) / (mx - mn)
    else 240 + 60 * (x - y) / (mx - mn)
  sassMod hue 360

/-- rgb → hwb → rgb is the identity on exact channels in [0,1] (before any rounding). -/
theorem hwb_roundtripE {x y z : Rat} (x0 : 0 ≤ x) (x1 : x ≤ 1) (y0 : 0 ≤ y) (y1 : y ≤ 1) (_z0 : 0 ≤ z) (_z1 : z ≤ 1) :
    hwbToRgbExact (hueE x y z) (min3 x y z * 100) ((1 - max3 x y z) * 100) = (x * 255, y * 255, z * 255) := by
  have F := minmax_facts x y z
  simp only [hueE, hwbToRgbExact]
  generalize min3 x y z = mn at F ⊢
  generalize max3 x y z = mx at F ⊢
  obtain ⟨f1, f2, f3, f4, f5, f6, f7, f8⟩ := F
  have hsum : ¬ (mn * 100 / 100 + (1 - mx) * 100 / 100 > 1) := by grind
  simp only [if_neg hsum]
  have ew : mn * 100 / 100 = mn := by grind
  have ef : 1 - mn * 100 / 100 - (1 - mx) * 100 / 100 = mx - mn := by grind
  rw [ef, ew]
  by_cases he : mn = mx
  · have hx : x = mn := by grind
    have hy : y = mn := by grind
    have hz : z = mn := by grind
    subst he hx hy hz
    simp only [Prod.mk.injEq]
    refine ⟨?_, ?_, ?_⟩ <;> grind
  · have hlt : mn < mx := by grind
    simp only [if_neg he]
    obtain ⟨q, q0, q1, hc⟩ := hq_casesB f1 f2 f3 f4 f5 f6 f7 f8 hlt
    have hd : mx - mn ≠ 0 := by grind
    have eH : (if mx = x then 60 * (y - z) / (mx - mn) else if mx = y then 120 + 60 * (z - x) / (mx - mn)
          else 240 + 60 * (x - y) / (mx - mn)) =
        (if mx = x then (y - z) / (mx - mn) else if mx = y then 2 + (z - x) / (mx - mn) else 4 + (x - y) / (mx - mn)) * 60 := by
      split
      · grind
      · split <;> grind
    rw [eH]
    generalize (if mx = x then (y - z) / (mx - mn) else if mx = y then 2 + (z - x) / (mx - mn) else 4 + (x - y) / (mx - mn)) = hq at hc ⊢
    have hb : -1 ≤ hq ∧ hq < 6 := by grind
    have ⟨m0, m1⟩ := sassMod_bounds (hq * 60)
    rw [sassMod_id m0 m1, hue_normB hb.1 hb.2]
    have S := six_orderings (mn := 0) (mx := 1) q0 q1 (if hq < 0 then hq + 6 else hq)
    simp only [] at S
    obtain ⟨s1, s2, s3, s4, s5, s6⟩ := S
    rcases hc with ⟨h, ex, ey, ez⟩ | ⟨h, ex, ey, ez⟩ | ⟨h, ex, ey, ez⟩ | ⟨h, ex, ey, ez⟩ | ⟨h, ex, ey, ez⟩ | ⟨h, ex, ey, ez⟩
    · have := s1 (by grind); simp only [Prod.mk.injEq] at this ⊢; obtain ⟨t1, t2, t3⟩ := this; rw [t1, t2, t3]; refine ⟨?_, ?_, ?_⟩ <;> grind
    · have := s2 (by grind); simp only [Prod.mk.injEq] at this ⊢; obtain ⟨t1, t2, t3⟩ := this; rw [t1, t2, t3]; refine ⟨?_, ?_, ?_⟩ <;> grind
    · have := s3 (by grind); simp only [Prod.mk.injEq] at this ⊢; obtain ⟨t1, t2, t3⟩ := this; rw [t1, t2, t3]; refine ⟨?_, ?_, ?_⟩ <;> grind
    · have := s4 (by grind); simp only [Prod.mk.injEq] at this ⊢; obtain ⟨t1, t2, t3⟩ := this; rw [t1, t2, t3]; refine ⟨?_, ?_, ?_⟩ <;> grind
    · have := s5 (by grind); simp only [Prod.mk.injEq] at this ⊢; obtain ⟨t1, t2, t3⟩ := this; rw [t1, t2, t3]; refine ⟨?_, ?_, ?_⟩ <;> grind
    · by_cases hq0 : q = 0
      · have := s5 (by grind); simp only [Prod.mk.injEq] at this ⊢; obtain ⟨t1, t2, t3⟩ := this; rw [t1, t2, t3]; refine ⟨?_, ?_, ?_⟩ <;> grind
      · have := s6 (by grind) (by grind); simp only [Prod.mk.injEq] at this ⊢; obtain ⟨t1, t2, t3⟩ := this; rw [t1, t2, t3]; refine ⟨?_, ?_, ?_⟩ <;> grind


/-- hsl → rgb applied to the `hue()` accessor's value and the saturation/lightness of `as_hsla`. -/
theorem roundtripE_acc {x y z : Rat} (x0 : 0 ≤ x) (x1 : x ≤ 1) (y0 : 0 ≤ y) (y1 : y ≤ 1) (z0 : 0 ≤ z) (z1 : z ≤ 1) :
    hslToRgbExact (hueE x y z) (rgbToHslE x y z).2.1 (rgbToHslE x y z).2.2 = (x * 255, y * 255, z * 255) := by
  have F := minmax_facts x y z
  simp only [rgbToHslE, hueE]
  generalize min3 x y z = mn at F ⊢
  generalize max3 x y z = mx at F ⊢
  obtain ⟨f1, f2, f3, f4, f5, f6, f7, f8⟩ := F
  by_cases he : mn = mx
  · have hx : x = mn := by grind
    have hy : y = mn := by grind
    have hz : z = mn := by grind
    subst he hx hy hz
    simp only [if_true]
    have e0 : sassMod 0 360 = 0 := by decide +kernel
    rw [e0]
    simp only [hslToRgbExact]
    have c0 : clamp 0 0 1 = 0 := by decide +kernel
    have c1 : clamp ((z + z) / 2) 0 1 = z := by
      rw [clamp_id (x := (z + z) / 2) (lo := 0) (hi := 1) (by grind) (by grind)]; grind
    rw [c0, c1]
    have m2 : (if z ≤ 1 / 2 then z * (0 + 1) else z * -0 + (z + 0)) = z := by split <;> grind
    rw [m2]
    have m1 : z * 2 + -z = z := by grind
    rw [m1]
    simp only [hueToRgb_const]
  · have hlt : mn < mx := by grind
    simp only [if_neg he]
    obtain ⟨q, q0, q1, hc⟩ := hq_casesB f1 f2 f3 f4 f5 f6 f7 f8 hlt
    have hd : mx - mn ≠ 0 := by grind
    have eH : (if mx = x then 60 * (y - z) / (mx - mn) else if mx = y then 120 + 60 * (z - x) / (mx - mn)
          else 240 + 60 * (x - y) / (mx - mn)) =
        (if mx = x then (y - z) / (mx - mn) else if mx = y then 2 + (z - x) / (mx - mn) else 4 + (x - y) / (mx - mn)) * 60 := by
      split
      · grind
      · split <;> grind
    rw [eH]
    generalize (if mx = x then (y - z) / (mx - mn) else if mx = y then 2 + (z - x) / (mx - mn) else 4 + (x - y) / (mx - mn)) = hq at hc ⊢
    have hb : -1 ≤ hq ∧ hq < 6 := by grind
    rw [hslToRgbExact_of_minmax (by grind) (by grind) hlt, hue_normB hb.1 hb.2]
    have S := six_orderings (mn := mn) (mx := mx) q0 q1 (if hq < 0 then hq + 6 else hq)
    simp only [] at S
    obtain ⟨s1, s2, s3, s4, s5, s6⟩ := S
    rcases hc with ⟨h, ex, ey, ez⟩ | ⟨h, ex, ey, ez⟩ | ⟨h, ex, ey, ez⟩ | ⟨h, ex, ey, ez⟩ | ⟨h, ex, ey, ez⟩ | ⟨h, ex, ey, ez⟩
    · have := s1 (by grind); simp only [Prod.mk.injEq] at this ⊢; grind
    · have := s2 (by grind); simp only [Prod.mk.injEq] at this ⊢; grind
    · have := s3 (by grind); simp only [Prod.mk.injEq] at this ⊢; grind
    · have := s4 (by grind); simp only [Prod.mk.injEq] at this ⊢; grind
    · have := s5 (by grind); simp only [Prod.mk.injEq] at this ⊢; grind
    · by_cases hq0 : q = 0
      · have := s5 (by grind); simp only [Prod.mk.injEq] at this ⊢; grind
      · have := s6 (by grind) (by grind); simp only [Prod.mk.injEq] at this ⊢; grind

end Grass.Color
