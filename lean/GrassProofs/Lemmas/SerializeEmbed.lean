import GrassProofs.Lemmas.SerializeReadTree
import GrassProofs.Lemmas.SerializeRead
/-
  Helper lemmas for C05_fixed_point_model: a read tree that satisfies `embedOk`, embedded back into
  statements (`embedTop`), is readable and its canonical tree is the read tree itself
  (`embed_node` / `embed_kids`, `embed_top`); hence `readTree_embed`.
-/
namespace Grass.Serialize
set_option linter.unusedSimpArgs false
set_option linter.unusedVariables false

/-! lemmas -/

theorem splitColon_eq (t n v : Str) (h : splitColon t = some (n, v)) : t = n ++ ':' :: v := by
  induction t generalizing n with
  | nil => simp [splitColon] at h
  | cons c cs ih =>
    simp only [splitColon] at h
    by_cases hc : c = ':'
    · subst hc; simp at h; obtain ⟨h1, h2⟩ := h; subst h1; subst h2; rfl
    · simp only [hc, if_false, Option.map_eq_some_iff] at h
      obtain ⟨r, hr, he⟩ := h
      obtain ⟨r1, r2⟩ := r
      simp only [Prod.mk.injEq] at he
      obtain ⟨e1, e2⟩ := he
      subst e1; subst e2
      rw [ih r1 hr]; rfl

theorem unquotedLoop_no_nl (x : Str) (h : '\n' ∉ x) : unquotedLoop false x = x := by
  induction x with
  | nil => simp [unquotedLoop]
  | cons c cs ih =>
    simp only [List.mem_cons, not_or] at h
    have a : c ≠ '\n' := fun e => h.1 e.symm
    by_cases b : c = ' '
    · subst b; simp [unquotedLoop, ih h.2]
    · simp [unquotedLoop, a, b, ih h.2]

theorem canonKids_allInvisible (st : Style) : ∀ (ss : Stmts), ss.allInvisible = true → canonKids st ss = .nil
  | .nil, _ => by rw [canonKids]
  | .cons s ss, h => by
    simp only [Stmts.allInvisible, Bool.and_eq_true] at h
    rw [canonKids, canon_invisible st s h.1, canonKids_allInvisible st ss h.2]; rfl

theorem atText_shape (p : Str) (h : isAtText p = true) : p = '@' :: p.drop 1 := by
  cases p with
  | nil => simp [isAtText] at h
  | cons c cs => simp [isAtText] at h; subst h; rfl

theorem unknownPrelude_nil (name : Str) : unknownPrelude name [] = '@' :: name := by
  simp [unknownPrelude]

theorem textOk_parts (P : Char → Bool) (p : Str) (h : textOk P p = true) : hdrOk p = true ∧ nm P p = p ∧ '\n' ∉ p := by
  simp only [textOk, Bool.and_eq_true, beq_iff_eq, Bool.not_eq_true', List.contains_eq_mem, decide_eq_false_iff_not] at h
  exact ⟨h.1.1, h.1.2, h.2⟩

theorem hdrOk_ne_nil (p : Str) (h : hdrOk p = true) : p ≠ [] := by
  intro e; subst e; simp [hdrOk, headOk] at h

mutual
theorem embed_node (st : Style) : ∀ (n : RNode), n.embedOk = true →
    n.embed.readable st = true ∧ canonStmt st n.embed = some n
  | .block p kids, h => by
    simp only [RNode.embedOk, Bool.and_eq_true, Bool.or_eq_true, Bool.not_eq_true'] at h
    obtain ⟨⟨ht, hk⟩, hv⟩ := h
    obtain ⟨hp, hs, _⟩ := textOk_parts Ppre p ht
    obtain ⟨ik1, ik2⟩ := embed_kids st kids hk
    by_cases ha : isAtText p = true
    · have hp' := atText_shape p ha
      simp only [RNode.embed, ha, if_true]
      refine ⟨?_, ?_⟩
      · simp only [Stmt.readable, Bool.and_eq_true, unknownPrelude_nil, ← hp']
        exact ⟨hp, ik1⟩
      · rw [canonStmt]
        simp only [Bool.not_true, Bool.false_eq_true, if_false, unknownPrelude_nil, ← hp', hs]
        by_cases hi : kids.embed.allInvisible = true
        · simp only [hi, if_true]
          rw [← ik2, canonKids_allInvisible st _ hi]
        · simp only [hi, Bool.false_eq_true, if_false, ik2]
    · have ha' : isAtText p = false := by simpa using ha
      have hvis : kids.embed.allInvisible = false := by
        rcases hv with e | e
        · rw [ha'] at e; simp at e
        · exact e
      simp only [RNode.embed, ha', Bool.false_eq_true, if_false]
      have hinv : (Stmt.rule true [⟨false, [.compound [.text p]]⟩] kids.embed).isInvisible = false := by
        simp [Stmt.isInvisible, selectorInvisible, Complex.isInvisible, Component.isInvisible, compoundInvisible,
          Simple.isInvisible, hvis]
      have hsel : rulePrelude st [⟨false, [.compound [.text p]]⟩] = p := selectorOut_single st p (hdrOk_ne_nil p hp)
      refine ⟨?_, ?_⟩
      · simp only [Stmt.readable, hinv, Bool.false_or, Bool.and_eq_true, hsel]
        exact ⟨hp, ik1⟩
      · rw [canonStmt]
        simp only [hinv, Bool.false_eq_true, if_false, hsel, hs, ik2]
  | .item t, h => by
    simp only [RNode.embedOk, Bool.and_eq_true, Bool.or_eq_true] at h
    obtain ⟨ht, hv⟩ := h
    obtain ⟨hp, hs, hnl⟩ := textOk_parts Pitem t ht
    by_cases ha : isAtText t = true
    · have hp' := atText_shape t ha
      simp only [RNode.embed, ha, if_true]
      refine ⟨?_, ?_⟩
      · simp only [Stmt.readable, Stmts.readable, Bool.and_true, unknownPrelude_nil, ← hp']
        exact hp
      · rw [canonStmt]
        simp only [Bool.not_false, if_true, unknownPrelude_nil, ← hp', hs]
    · have ha' : isAtText t = false := by simpa using ha
      rw [ha'] at hv
      simp only [Bool.false_eq_true, false_or] at hv
      cases hsp : splitColon t with
      | none => rw [hsp] at hv; simp at hv
      | some r =>
        obtain ⟨n, v⟩ := r
        rw [hsp] at hv
        simp only [Bool.and_eq_true, Bool.not_eq_true'] at hv
        have et := splitColon_eq t n v hsp
        have hnlv : '\n' ∉ v := by
          intro hm; apply hnl; rw [et]; simp [hm]
        have hdt : ∀ st, declText st n true (.atom (.raw v)) = t := by
          intro st
          simp [declText, Value.out, Atom.out, unquotedOut, unquotedLoop_no_nl v hnlv, et]
        simp only [RNode.embed, ha', Bool.false_eq_true, if_false, hsp]
        have hb : Value.isBlank (.atom (.raw v)) = false := by simpa [Value.isBlank, Atom.isBlank] using hv.1
        refine ⟨?_, ?_⟩
        · simp only [Stmt.readable, hb, Bool.false_or, hdt]; exact hp
        · rw [canonStmt]
          simp only [hb, Bool.false_eq_true, if_false, hdt, hs]
  | .comment c, h => by
    simp only [RNode.embedOk, Bool.and_eq_true, beq_iff_eq] at h
    obtain ⟨⟨hc, hl⟩, he⟩ := h
    have hlit : lit "/*!" = ['/', '*', '!'] := by decide
    simp only [RNode.embed]
    refine ⟨?_, ?_⟩
    · simp only [Stmt.readable, he, hc, Bool.true_and, beq_iff_eq, hlit]
      rfl
    · rw [canonStmt]
      simp only [he, hl, if_true]
theorem embed_kids (st : Style) : ∀ (ns : RNodes), ns.embedOk = true →
    ns.embed.readable st = true ∧ canonKids st ns.embed = ns
  | .nil, _ => by
    simp only [RNodes.embed, Stmts.readable, true_and]; rw [canonKids]
  | .cons n ns, h => by
    simp only [RNodes.embedOk, Bool.and_eq_true] at h
    obtain ⟨a1, a2⟩ := embed_node st n h.1
    obtain ⟨b1, b2⟩ := embed_kids st ns h.2
    simp only [RNodes.embed, Stmts.readable, a1, b1, Bool.and_self, true_and]
    rw [canonKids, a2, b2]; rfl
end

theorem embed_top (st : Style) : ∀ (c : RNodes), c.embedOk = true →
    treeReadable st (embedTop c) = true ∧ canonTop st (embedTop c) = c
  | .nil, _ => ⟨rfl, rfl⟩
  | .cons n ns, h => by
    simp only [RNodes.embedOk, Bool.and_eq_true] at h
    obtain ⟨a1, a2⟩ := embed_node st n h.1
    obtain ⟨b1, b2⟩ := embed_top st ns h.2
    refine ⟨?_, ?_⟩
    · simp only [embedTop, RNodes.toList, List.map_cons, treeReadable, List.all_cons, a1, Bool.true_and]
      simpa [treeReadable, embedTop] using b1
    · simp only [embedTop, RNodes.toList, List.map_cons, canonTop, a2, consOpt]
      simp only [embedTop] at b2
      rw [b2]

/-- Reading what was printed from an embedded read tree gives that tree back. -/
theorem readTree_embed (st : Style) (cs : Bool) (c : RNodes) (h : c.embedOk = true)
    (hg : hasCharsetOrBom (serialize st false (embedTop c)) = false) :
    readTree (serialize st cs (embedTop c)) = some c := by
  obtain ⟨h1, h2⟩ := embed_top st c h
  rw [readTree_serialize st cs _ h1 hg, h2]

end Grass.Serialize
