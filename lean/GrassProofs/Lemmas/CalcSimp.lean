import GrassProofs.Lemmas.CalcUnits
/-
  Helper lemmas for C16: value preservation of the number operations and of `operate`,
  min/max/clamp reduction.
-/
namespace Grass.Calc

theorem comparable_symm (a b : CUnit) (ha : a.isNone = false) (hb : b.isNone = false)
    (h : comparable a b = true) : comparable b a = true := by
  rcases a with ⟨_ | ⟨f1, _ | ⟨f2, fr⟩⟩, _ | ⟨fd1, fdr⟩⟩ <;>
  rcases b with ⟨_ | ⟨t1, _ | ⟨t2, tr⟩⟩, _ | ⟨td1, tdr⟩⟩ <;>
  simp [comparable, CUnit.kind, CUnit.isNone] at h ha hb ⊢ <;>
  first
  | done
  | (simp_all; done)
  | (cases f1 <;> simp_all [BU.kind]; done)
  | (cases t1 <;> simp_all [BU.kind]; done)
  | (cases f1 <;> cases t1 <;> simp_all [BU.kind]; done)

theorem compatible_symm (a b : CUnit) (h : compatible a b = true) : compatible b a = true := by
  rcases a with ⟨_ | ⟨f1, _ | ⟨f2, fr⟩⟩, _ | ⟨fd1, fdr⟩⟩ <;>
  rcases b with ⟨_ | ⟨t1, _ | ⟨t2, tr⟩⟩, _ | ⟨td1, tdr⟩⟩ <;>
  simp [compatible, comparable, CUnit.kind, CUnit.isNone] at h ⊢ <;>
  first
  | done
  | (simp_all; done)
  | (cases f1 <;> simp_all [BU.kind]; done)
  | (cases t1 <;> simp_all [BU.kind]; done)
  | (cases f1 <;> cases t1 <;> simp_all [BU.kind]; done)

theorem compatible_none_left (b : CUnit) (h : compatible ⟨[], []⟩ b = true) : b = ⟨[], []⟩ := by
  rcases b with ⟨_ | ⟨t1, tr⟩, _ | ⟨td1, tdr⟩⟩ <;> simp [compatible, CUnit.isNone] at h ⊢

theorem compatible_none_right (a : CUnit) (h : compatible a ⟨[], []⟩ = true) : a = ⟨[], []⟩ := by
  rcases a with ⟨_ | ⟨t1, tr⟩, _ | ⟨td1, tdr⟩⟩ <;> simp [compatible, CUnit.isNone] at h ⊢

theorem numAdd_value (ρ : Env) (a b r : Num) (hc : compatible a.u b.u = true)
    (h : numAdd a b = .ok r) : r.val ρ = a.val ρ + b.val ρ := by
  unfold numAdd at h
  split at h
  · rename_i e; simp at e; injection h with h; subst h; simp only [Num.val, ← e]; grind
  · rename_i ne
    split at h
    · rename_i e; simp at e; rw [e] at hc ne
      have := compatible_none_left _ hc; simp_all
    · split at h
      · rename_i e; simp at e; rw [e] at hc ne
        have := compatible_none_right _ hc; simp_all
      · split at h
        · rename_i c hcv
          injection h with h; subst h
          have := convert_value ρ b.n c b.u a.u (compatible_symm _ _ hc) hcv
          simp only [Num.val]; grind
        · cases h

theorem numSub_value (ρ : Env) (a b r : Num) (hc : compatible a.u b.u = true)
    (h : numSub a b = .ok r) : r.val ρ = a.val ρ - b.val ρ := by
  unfold numSub at h
  split at h
  · rename_i e; simp at e; injection h with h; subst h; simp only [Num.val, ← e]; grind
  · rename_i ne
    split at h
    · rename_i e; simp at e; rw [e] at hc ne
      have := compatible_none_left _ hc; simp_all
    · split at h
      · rename_i e; simp at e; rw [e] at hc ne
        have := compatible_none_right _ hc; simp_all
      · split at h
        · rename_i c hcv
          injection h with h; subst h
          have := convert_value ρ b.n c b.u a.u (compatible_symm _ _ hc) hcv
          simp only [Num.val]; grind
        · cases h

/-- `numAdd`/`numSub` never reach the panicking branch when the units are comparable. -/
theorem numAdd_no_panic (a b : Num) (hc : comparable a.u b.u = true) : numAdd a b ≠ .panic := by
  unfold numAdd
  split; · simp
  split; · simp
  split; · simp
  rename_i h1 h2 h3
  have := convert_isSome_of_comparable b.n b.u a.u
    (comparable_symm _ _ (Bool.eq_false_iff.mpr h2) (Bool.eq_false_iff.mpr h3) hc)
  cases hcv : convert b.n b.u a.u <;> simp_all

theorem numSub_no_panic (a b : Num) (hc : comparable a.u b.u = true) : numSub a b ≠ .panic := by
  unfold numSub
  split; · simp
  split; · simp
  split; · simp
  rename_i h1 h2 h3
  have := convert_isSome_of_comparable b.n b.u a.u
    (comparable_symm _ _ (Bool.eq_false_iff.mpr h2) (Bool.eq_false_iff.mpr h3) hc)
  cases hcv : convert b.n b.u a.u <;> simp_all

theorem numMul_value (ρ : Env) (hw : ρ.wf) (a b : Num) : (numMul a b).val ρ = a.val ρ * b.val ρ := by
  unfold numMul
  split
  · rename_i e; simp at e; simp only [Num.val, e, unitVal_none]; grind
  · rename_i e
    rw [multiplyUnits_value ρ hw a.u b.u _ (Bool.eq_false_iff.mpr e)]
    simp only [Num.val]; grind

theorem unitVal_pos (ρ : Env) (hw : ρ.wf) (u : CUnit) : 0 < unitVal ρ u := by
  unfold unitVal
  rw [Rat.div_def]; exact Rat.mul_pos (prodSize_pos ρ hw _) (Rat.inv_pos.mpr (prodSize_pos ρ hw _))

theorem unitVal_invert (ρ : Env) (hw : ρ.wf) (u : CUnit) : unitVal ρ u.invert * unitVal ρ u = 1 := by
  have h1 := prodSize_pos ρ hw u.numer
  have h2 := prodSize_pos ρ hw u.denom
  simp only [unitVal, CUnit.invert]; grind

theorem numDiv_value (ρ : Env) (hw : ρ.wf) (a b r : Num) (h : numDiv a b = .ok r) :
    b.val ρ ≠ 0 ∧ r.val ρ = a.val ρ / b.val ρ := by
  have hu := unitVal_pos ρ hw b.u
  unfold numDiv at h
  split at h; · cases h
  rename_i hn
  have hb : b.val ρ ≠ 0 := by
    simp only [Num.val]; intro e
    rcases Rat.mul_eq_zero.mp e with e | e
    · exact hn e
    · grind
  refine ⟨hb, ?_⟩
  split at h
  · rename_i e; simp at e; injection h with h; subst h
    simp only [Num.val, e, unitVal_none] at hb ⊢; grind
  · rename_i e
    injection h with h; subst h
    have hi : b.u.invert.isNone = false := by
      rcases hbu : b.u with ⟨n, d⟩
      rw [hbu] at e
      cases n <;> cases d <;> simp_all [CUnit.invert, CUnit.isNone]
    rw [multiplyUnits_value ρ hw a.u b.u.invert _ hi]
    have := unitVal_invert ρ hw b.u
    simp only [Num.val] at hb ⊢; grind

theorem Res.bind_eq_ok {α β : Type} {r : Res α} {f : α → Res β} {b : β} :
    r.bind f = .ok b ↔ ∃ a, r = .ok a ∧ f a = .ok b := by
  cases r <;> simp [Res.bind]

theorem simplify_value (ρ : Env) (a : CalcArg) : evalCalc ρ (simplify a) = evalCalc ρ a := by
  unfold simplify
  split
  · rename_i a
    simp only [evalCalc, evalArgs]
    cases evalCalc ρ a <;> simp [evalFn]
  · rfl

theorem eval_operation_congr (ρ : Env) (l r l' r' : CalcArg) (op : Op)
    (hl : evalCalc ρ l' = evalCalc ρ l) (hr : evalCalc ρ r' = evalCalc ρ r) :
    evalCalc ρ (.operation l' op r') = evalCalc ρ (.operation l op r) := by
  simp only [evalCalc, hl, hr]

/-- sign normalisation: `a + -b` is `a - b`, `a - -b` is `a + b`. -/
theorem sign_flip_value (ρ : Env) (l : CalcArg) (op : Op) (n : Rat) (u : CUnit)
    (hop : op = .plus ∨ op = .minus) :
    evalCalc ρ (.operation l op.flip (.number (-n) u)) = evalCalc ρ (.operation l op (.number n u)) := by
  simp only [evalCalc]
  cases evalCalc ρ l with
  | none => rfl
  | some x =>
    rcases hop with e | e <;> subst e <;> simp only [Op.flip, applyOp] <;> congr 1 <;> grind

theorem operate_value (ρ : Env) (hw : ρ.wf) (cfg : Cfg) (imm : Bool) (op : Op) (l r : CalcArg) (o : Out)
    (h : operate cfg imm op l r = .ok o) (hco : o.coerced = false) :
    evalCalc ρ o.arg = evalCalc ρ (.operation l op r) := by
  rw [← eval_operation_congr ρ l r (simplify l) (simplify r) op (simplify_value ρ l) (simplify_value ρ r)]
  unfold operate at h
  simp only [] at h
  generalize simplify l = L at h ⊢
  generalize simplify r = R at h ⊢
  cases op <;> cases L <;> cases R <;> simp only [] at h
  case plus.number.number a ua b ub =>
    by_cases hg : (if imm = true then comparable ua ub else compatible ua ub) = true
    · rw [if_pos hg] at h
      obtain ⟨rr, hr, ho⟩ := Res.bind_eq_ok.mp h
      injection ho with ho; subst ho
      simp at hco
      have := numAdd_value ρ ⟨a, ua⟩ ⟨b, ub⟩ rr hco (by simpa using hr)
      simp only [evalCalc, applyOp]; simp only [Num.val] at this; rw [this]
    · rw [if_neg hg] at h
      obtain ⟨_, _, h⟩ := Res.bind_eq_ok.mp h
      split at h <;> cases h
      · exact sign_flip_value ρ _ .plus _ _ (Or.inl rfl)
      · rfl
  case minus.number.number a ua b ub =>
    by_cases hg : (if imm = true then comparable ua ub else compatible ua ub) = true
    · rw [if_pos hg] at h
      obtain ⟨rr, hr, ho⟩ := Res.bind_eq_ok.mp h
      injection ho with ho; subst ho
      simp at hco
      have := numSub_value ρ ⟨a, ua⟩ ⟨b, ub⟩ rr hco (by simpa using hr)
      simp only [evalCalc, applyOp]; simp only [Num.val] at this; rw [this]
    · rw [if_neg hg] at h
      obtain ⟨_, _, h⟩ := Res.bind_eq_ok.mp h
      split at h <;> cases h
      · exact sign_flip_value ρ _ .minus _ _ (Or.inr rfl)
      · rfl
  case mul.number.number a ua b ub =>
    simp only [if_true] at h
    cases h
    have := numMul_value ρ hw ⟨a, ua⟩ ⟨b, ub⟩
    simp only [evalCalc, applyOp]; simp only [Num.val] at this; rw [this]
  case div.number.number a ua b ub =>
    simp at h
    obtain ⟨rr, hr, ho⟩ := Res.bind_eq_ok.mp h
    injection ho with ho; subst ho
    obtain ⟨hb, hv⟩ := numDiv_value ρ hw ⟨a, ua⟩ ⟨b, ub⟩ rr hr
    simp only [Num.val] at hb hv
    simp only [evalCalc, applyOp, hb, if_false]; rw [hv]
  all_goals
    first
    | (cases h; rfl)
    | (obtain ⟨_, _, h⟩ := Res.bind_eq_ok.mp h
       first
       | (cases h; rfl)
       | (split at h <;> cases h
          · first
            | exact sign_flip_value ρ _ .plus _ _ (Or.inl rfl)
            | exact sign_flip_value ρ _ .minus _ _ (Or.inr rfl)
          · rfl))

theorem Res.bind_eq_panic {α β : Type} {r : Res α} {f : α → Res β} :
    r.bind f = .panic ↔ r = .panic ∨ ∃ a, r = .ok a ∧ f a = .panic := by
  cases r <;> simp [Res.bind]

theorem verifyCompatible_no_panic (s : Bool) (args : List CalcArg) : verifyCompatible s args ≠ .panic := by
  unfold verifyCompatible; split <;> (try split) <;> simp

theorem verifyLength_no_panic (args : List CalcArg) (n : Nat) : verifyLength args n ≠ .panic := by
  unfold verifyLength; split <;> (try split) <;> simp

theorem numDiv_no_panic (a b : Num) : numDiv a b ≠ .panic := by
  unfold numDiv; split <;> (try split) <;> simp

theorem operate_no_panic (cfg : Cfg) (imm : Bool) (op : Op) (l r : CalcArg) :
    operate cfg imm op l r ≠ .panic := by
  intro h
  unfold operate at h
  simp only [] at h
  generalize simplify l = L at h
  generalize simplify r = R at h
  have gen : ∀ (x : CalcArg) (f : Unit → Res Out), (∀ u, f u ≠ .panic) →
      (verifyCompatible cfg.strict [L, x]).bind f ≠ .panic := by
    intro x f hf hp
    rcases Res.bind_eq_panic.mp hp with hp | ⟨u, _, hp⟩
    · exact verifyCompatible_no_panic _ _ hp
    · exact hf u hp
  cases op <;> cases L <;> cases R <;> simp only [] at h
  case plus.number.number a ua b ub =>
    by_cases hg : (if imm = true then comparable ua ub else compatible ua ub) = true
    · rw [if_pos hg] at h
      have hc : comparable ua ub = true := by
        cases imm <;> simp at hg
        · exact compatible_comparable _ _ hg
        · exact hg
      rcases Res.bind_eq_panic.mp h with hp | ⟨u, _, hp⟩
      · simp only [if_true] at hp; exact numAdd_no_panic _ _ hc hp
      · cases hp
    · rw [if_neg hg] at h
      refine gen _ _ ?_ h
      intro u; split <;> simp
  case minus.number.number a ua b ub =>
    by_cases hg : (if imm = true then comparable ua ub else compatible ua ub) = true
    · rw [if_pos hg] at h
      have hc : comparable ua ub = true := by
        cases imm <;> simp at hg
        · exact compatible_comparable _ _ hg
        · exact hg
      rcases Res.bind_eq_panic.mp h with hp | ⟨u, _, hp⟩
      · exact numSub_no_panic _ _ hc (by simpa using hp)
      · cases hp
    · rw [if_neg hg] at h
      refine gen _ _ ?_ h
      intro u; split <;> simp
  case mul.number.number a ua b ub => simp at h
  case div.number.number a ua b ub =>
    simp at h
    rcases Res.bind_eq_panic.mp h with hp | ⟨u, _, hp⟩
    · exact numDiv_no_panic _ _ hp
    · cases hp
  all_goals
    first
    | (cases h; done)
    | (refine gen _ _ ?_ h; intro u; first | (split <;> simp) | simp)

end Grass.Calc
