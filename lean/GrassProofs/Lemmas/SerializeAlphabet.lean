import GrassProofs.Lemmas.SerializeTree
/-
  Helper lemmas for C05_sass_free: the serializer writes none of the characters `& $ % #` on its own —
  if no opaque leaf of the tree contains such a character, the output does not contain it
  (`serialize_NI`; mutual induction `visit_NI` / `children_NI`).
-/
namespace Grass.Serialize
set_option linter.unusedSimpArgs false
set_option linter.unusedVariables false

/-! ## the serializer writes no Sass character of its own -/

theorem ni_of_plain (c : Char) (hc : sassChar c = true) (x : Str) (h : plainText x = true) : c ∉ x := by
  intro hm
  simp only [plainText, List.all_eq_true, Bool.not_eq_true'] at h
  have := h c hm
  rw [hc] at this; simp at this

theorem ni_append {c : Char} {a b : Str} (ha : c ∉ a) (hb : c ∉ b) : c ∉ a ++ b := by
  simp [ha, hb]

theorem ni_nil (c : Char) : c ∉ ([] : Str) := by simp

theorem plain_spaces (n : Nat) : plainText (spaces n) = true := by
  simp [plainText, spaces, sassChar]

theorem ni_indent (c : Char) (hc : sassChar c = true) (st : Style) (n : Nat) : c ∉ indentOut st n := by
  unfold indentOut; split
  · exact ni_nil c
  · exact ni_of_plain c hc _ (plain_spaces n)

theorem ni_optNl (c : Char) (hc : sassChar c = true) (st : Style) : c ∉ optNl st :=
  ni_of_plain c hc _ (by cases st <;> decide)

theorem ni_optSp (c : Char) (hc : sassChar c = true) (st : Style) : c ∉ optSp st :=
  ni_of_plain c hc _ (by cases st <;> decide)

/-! selectors (generalises `pct_selectorOut`) -/

theorem ni_compoundOut (c : Char) (hc : sassChar c = true) (ss : List Simple) (hv : compoundInvisible ss = false)
    (h : ∀ s ∈ simpleTexts ss, c ∉ s) : c ∉ compoundOut ss := by
  have key : c ∉ (ss.map Simple.out).flatten := by
    induction ss with
    | nil => simp
    | cons a r ih =>
      simp only [compoundInvisible, List.any_cons, Bool.or_eq_false_iff] at hv
      cases a with
      | text s =>
        have h1 := h s (by simp [simpleTexts])
        have h2 := ih (by simpa [compoundInvisible] using hv.2) (fun s hs => h s (by simp [simpleTexts, hs]))
        simp [Simple.out, h1, h2]
      | placeholder n => simp [Simple.isInvisible] at hv
  unfold compoundOut
  simp only
  split
  · exact ni_of_plain c hc _ (by decide)
  · exact key

theorem ni_complexOut (c : Char) (hc : sassChar c = true) (st : Style) (last : Option Component) (cs : List Component)
    (hv : cs.any Component.isInvisible = false) (h : ∀ s ∈ compTexts cs, c ∉ s) :
    c ∉ complexOut st last cs := by
  induction cs generalizing last with
  | nil => simp [complexOut]
  | cons x r ih =>
    simp only [List.any_cons, Bool.or_eq_false_iff] at hv
    have hsp : c ∉ (match last with
      | some l => if (!omitSpaces st l && !omitSpaces st x) = true then [' '] else []
      | none => []) := by
      cases last with
      | none => simp
      | some l =>
        show c ∉ (if (!omitSpaces st l && !omitSpaces st x) = true then [' '] else [])
        split
        · exact ni_of_plain c hc _ (by decide)
        · simp
    have hx : c ∉ x.out := by
      cases x with
      | comb ch => simpa [Component.out] using h [ch] (by simp [compTexts])
      | compound ss =>
        exact ni_compoundOut c hc ss (by simpa [Component.isInvisible] using hv.1)
          (fun s hs => h s (by simp [compTexts, hs]))
    have hr := ih (some x) hv.2 (fun s hs => h s (by cases x <;> simp [compTexts, hs]))
    simp only [complexOut, List.mem_append, not_or]
    exact ⟨⟨hsp, hx⟩, hr⟩

theorem ni_selectorLoop (c : Char) (hc : sassChar c = true) (st : Style) (first : Bool) (l : List Complex)
    (hv : ∀ cx ∈ l, cx.isInvisible = false) (h : ∀ cx ∈ l, ∀ s ∈ compTexts cx.comps, c ∉ s) :
    c ∉ selectorLoop st first l := by
  induction l generalizing first with
  | nil => simp [selectorLoop]
  | cons cx r ih =>
    have h1 : c ∉ (if first = true then [] else ',' :: (if cx.lineBreak = true then optNl st else optSp st)) := by
      split
      · simp
      · have : c ∉ [','] := ni_of_plain c hc _ (by decide)
        have h2 : c ∉ (if cx.lineBreak = true then optNl st else optSp st) := by
          split; exact ni_optNl c hc st; exact ni_optSp c hc st
        simpa using ni_append this h2
    have h2 := ni_complexOut c hc st none cx.comps (by simpa [Complex.isInvisible] using hv cx (by simp)) (h cx (by simp))
    have h3 := ih false (fun x hx => hv x (by simp [hx])) (fun x hx => h x (by simp [hx]))
    simp only [selectorLoop, List.mem_append, not_or]
    exact ⟨⟨h1, h2⟩, h3⟩

theorem ni_selectorOut (c : Char) (hc : sassChar c = true) (st : Style) (sel : Selector)
    (h : ∀ s ∈ selTexts sel, c ∉ s) : c ∉ selectorOut st sel := by
  unfold selectorOut
  apply ni_selectorLoop c hc
  · intro cx hcx
    simpa using (List.mem_filter.mp hcx).2
  · intro cx hcx s hs
    exact h s (by
      simp only [selTexts, List.mem_flatten, List.mem_map]
      exact ⟨compTexts cx.comps, ⟨cx, (List.mem_filter.mp hcx).1, rfl⟩, hs⟩)

/-! values -/

theorem ni_unquotedLoop (c : Char) (hc : sassChar c = true) (b : Bool) (s : Str) (h : c ∉ s) : c ∉ unquotedLoop b s := by
  have hsp : c ≠ ' ' := by
    intro e; subst e; simp [sassChar] at hc
  induction s generalizing b with
  | nil => simp [unquotedLoop]
  | cons x xs ih =>
    simp only [List.mem_cons, not_or] at h
    simp only [unquotedLoop]
    split
    · simp [hsp, ih true h.2]
    · split
      · have : c ∉ (if b = true then [] else [' ']) := by split <;> simp [hsp]
        exact ni_append this (ih b h.2)
      · simp [h.1, ih false h.2]

theorem hex_plain : ∀ n, n < 16 → sassChar (hexCharFor n) = false := by decide

theorem ni_escChar (c : Char) (hc : sassChar c = true) (force : Bool) (x : Char) (next : Option Char) (hx : c ≠ x) :
    c ∉ escChar force x next := by
  have q1 : c ≠ '\'' := by intro e; subst e; simp [sassChar] at hc
  have q2 : c ≠ '"' := by intro e; subst e; simp [sassChar] at hc
  have q3 : c ≠ '\\' := by intro e; subst e; simp [sassChar] at hc
  have q4 : c ≠ ' ' := by intro e; subst e; simp [sassChar] at hc
  unfold escChar
  split
  · simp [q1]
  · split
    · split <;> simp [q2, q3]
    · split
      · rename_i hctl
        have hlt := ctl_lt x hctl
        have f1 := hex_plain (x.toNat / 16) (by omega)
        have f2 := hex_plain (x.toNat % 16) (by omega)
        have g1 : c ≠ hexCharFor (x.toNat / 16) := by intro e; rw [← e, hc] at f1; simp at f1
        have g2 : c ≠ hexCharFor (x.toNat % 16) := by intro e; rw [← e, hc] at f2; simp at f2
        simp only [controlEscape]
        cases next with
        | none => split <;> simp [q3, g1, g2]
        | some n => split <;> split <;> simp [q3, g1, g2, q4]
      · split
        · simp [q3]
        · simp [hx]

theorem ni_escBody (c : Char) (hc : sassChar c = true) (force : Bool) (s : Str) (h : c ∉ s) : c ∉ escBody force s := by
  induction s with
  | nil => simp [escBody]
  | cons x xs ih =>
    simp only [List.mem_cons, not_or] at h
    simp only [escBody]
    exact ni_append (ni_escChar c hc force x _ h.1) (ih h.2)

theorem ni_quote (c : Char) (hc : sassChar c = true) (s : Str) (h : c ∉ s) : c ∉ quote s := by
  have q1 : c ≠ '\'' := by intro e; subst e; simp [sassChar] at hc
  have q2 : c ≠ '"' := by intro e; subst e; simp [sassChar] at hc
  unfold quote
  cases quoteFlags false false s with
  | none => simp [q2, ni_escBody c hc true s h]
  | some hd => cases hd <;> simp [q1, q2, ni_escBody c hc false s h]

theorem ni_atom (c : Char) (hc : sassChar c = true) (a : Atom) (h : a.leafFree c = true) : c ∉ a.out := by
  cases a with
  | raw s => exact ni_unquotedLoop c hc false s (by simpa [Atom.leafFree] using h)
  | quoted s => exact ni_quote c hc s (by simpa [Atom.leafFree] using h)

theorem ni_sepOut (c : Char) (hc : sassChar c = true) (st : Style) (sep : Sep) : c ∉ sepOut st sep :=
  ni_of_plain c hc _ (by cases st <;> cases sep <;> decide)

theorem ni_listLoop (c : Char) (hc : sassChar c = true) (st : Style) (sep : Sep) (l : List Atom)
    (h : l.all (Atom.leafFree c) = true) : c ∉ listLoop st sep l := by
  induction l with
  | nil => simp [listLoop]
  | cons a r ih =>
    simp only [List.all_cons, Bool.and_eq_true] at h
    cases r with
    | nil => simpa [listLoop] using ni_atom c hc a h.1
    | cons b r' =>
      simp only [listLoop]
      exact ni_append (ni_append (ni_atom c hc a h.1) (ni_sepOut c hc st sep)) (ih h.2)

theorem ni_value (c : Char) (hc : sassChar c = true) (st : Style) (v : Value) (h : v.leafFree c = true) : c ∉ v.out st := by
  cases v with
  | atom a => exact ni_atom c hc a h
  | list sep items => exact ni_listLoop c hc st sep _ (all_filter _ _ _ h)

/-! the tree -/

theorem ni_joinWith (c : Char) (sep : Str) (l : List Str) (hs : c ∉ sep) (h : l.all (fun s => !s.contains c) = true) :
    c ∉ joinWith sep l := by
  induction l with
  | nil => simp [joinWith]
  | cons x r ih =>
    simp only [List.all_cons, Bool.and_eq_true, Bool.not_eq_true', List.contains_eq_mem, decide_eq_false_iff_not] at h
    cases r with
    | nil => simpa [joinWith] using h.1
    | cons y r' =>
      simp only [joinWith]
      exact ni_append (ni_append h.1 hs) (ih (by simpa using h.2))

theorem ni_contains {c : Char} {x : Str} (h : (!x.contains c) = true) : c ∉ x := by
  simpa using h

theorem ni_block (c : Char) (hc : sassChar c = true) (st : Style) (ind : Nat) (K : Str) (h : c ∉ K) :
    c ∉ blockOut st ind K := by
  have h1 : c ∉ openBlock st := ni_of_plain c hc _ (by cases st <;> decide)
  have h2 : c ∉ closeBlock st ind := by
    unfold closeBlock
    exact ni_append (ni_indent c hc st ind) (ni_of_plain c hc _ (by decide))
  unfold blockOut
  exact ni_append (ni_append h1 h) h2

theorem ni_params (c : Char) (hc : sassChar c = true) (params : Str) (h : c ∉ params) :
    c ∉ (if params.isEmpty then [] else ' ' :: params) := by
  have : c ≠ ' ' := by intro e; subst e; simp [sassChar] at hc
  split <;> simp [this, h]

theorem ni_childSemi (c : Char) (hc : sassChar c = true) (st : Style) (b : Bool) (s : Stmt) : c ∉ childSemi st b s := by
  unfold childSemi
  split
  · exact ni_of_plain c hc [';'] (by decide)
  · exact ni_nil c

mutual
theorem visit_NI (c : Char) (hc : sassChar c = true) (st : Style) :
    ∀ (s : Stmt) (ind : Nat), s.leafFree c = true → c ∉ (visitStmt st ind s).2
  | .rule ge sel body, ind, h => by
    simp only [Stmt.leafFree, Bool.and_eq_true] at h
    rw [visitStmt]
    split
    · exact ni_nil c
    · have hb := children_NI c hc st body (ind + 2) h.2
      have hsel : c ∉ selectorOut st sel := ni_selectorOut c hc st sel (by
        intro s hs
        have := (List.all_eq_true.mp h.1) s hs
        exact ni_contains this)
      exact ni_append (ni_append (ni_indent c hc st ind) hsel) (ni_block c hc st ind _ hb)
  | .decl name custom v, ind, h => by
    simp only [Stmt.leafFree, Bool.and_eq_true] at h
    rw [visitStmt]
    split
    · exact ni_nil c
    · refine ni_append (ni_append (ni_append (ni_append (ni_indent c hc st ind) (ni_contains h.1))
        (ni_of_plain c hc _ (by decide))) ?_) (ni_value c hc st v h.2)
      split
      · exact ni_of_plain c hc _ (by decide)
      · exact ni_nil c
  | .media ge qs body, ind, h => by
    simp only [Stmt.leafFree, Bool.and_eq_true] at h
    rw [visitStmt]
    split
    · exact ni_nil c
    · have hb := children_NI c hc st body (ind + 2) h.2
      have hsep : c ∉ ',' :: optSp st := by
        have : c ∉ [','] := ni_of_plain c hc _ (by decide)
        simpa using ni_append this (ni_optSp c hc st)
      exact ni_append (ni_append (ni_append (ni_indent c hc st ind) (ni_of_plain c hc _ (by decide)))
        (ni_joinWith c _ _ hsep h.1)) (ni_block c hc st ind _ hb)
  | .supports ge params body, ind, h => by
    simp only [Stmt.leafFree, Bool.and_eq_true] at h
    rw [visitStmt]
    split
    · exact ni_nil c
    · have hb := children_NI c hc st body (ind + 2) h.2
      exact ni_append (ni_append (ni_append (ni_indent c hc st ind) (ni_of_plain c hc _ (by decide)))
        (ni_params c hc params (ni_contains h.1))) (ni_block c hc st ind _ hb)
  | .unknown ge name params hasBody body, ind, h => by
    simp only [Stmt.leafFree, Bool.and_eq_true] at h
    rw [visitStmt]
    have hb := children_NI c hc st body (ind + 2) h.2
    have hat : c ∉ '@' :: name := by
      have : c ≠ '@' := by intro e; subst e; simp [sassChar] at hc
      simp [this, ni_contains h.1.1]
    refine ni_append (ni_append (ni_append (ni_indent c hc st ind) hat) (ni_params c hc params (ni_contains h.1.2))) ?_
    split
    · exact ni_nil c
    · split
      · exact ni_of_plain c hc _ (by decide)
      · exact ni_block c hc st ind _ hb
  | .kf sels body, ind, h => by
    simp only [Stmt.leafFree, Bool.and_eq_true] at h
    rw [visitStmt]
    split
    · exact ni_nil c
    · have hb := children_NI c hc st body (ind + 2) h.2
      exact ni_append (ni_append (ni_indent c hc st ind)
        (ni_joinWith c _ _ (ni_of_plain c hc _ (by decide)) h.1)) (ni_block c hc st ind _ hb)
  | .comment text col, ind, h => by
    simp only [Stmt.leafFree] at h
    unfold visitStmt
    split
    · exact ni_append (ni_indent c hc st ind) (ni_contains h)
    · exact ni_nil c
  | .import url mods, ind, h => by
    simp only [Stmt.leafFree, Bool.and_eq_true] at h
    unfold visitStmt
    refine ni_append (ni_append (ni_append (ni_indent c hc st ind) (ni_of_plain c hc _ (by decide))) (ni_contains h.1)) ?_
    cases mods with
    | none => exact ni_nil c
    | some m =>
      have : c ≠ ' ' := by intro e; subst e; simp [sassChar] at hc
      have hm : c ∉ m := ni_contains (by simpa [optFree] using h.2)
      simp [this, hm]
theorem children_NI (c : Char) (hc : sassChar c = true) (st : Style) :
    ∀ (ss : Stmts) (ind : Nat), ss.leafFree c = true → c ∉ childrenLoop st ind ss
  | .nil, ind, _ => by rw [childrenLoop]; exact ni_nil c
  | .cons s ss, ind, h => by
    simp only [Stmts.leafFree, Bool.and_eq_true] at h
    unfold childrenLoop
    have h1 := visit_NI c hc st s ind h.1
    have h2 := children_NI c hc st ss ind h.2
    refine ni_append ?_ h2
    cases hw : (visitStmt st ind s).1
    · simp only [Bool.false_eq_true, if_false]; exact ni_nil c
    · simp only [if_true]
      exact ni_append (ni_append h1 (ni_childSemi c hc st _ s)) (ni_optNl c hc st)
end

theorem visitGroup_NI (c : Char) (hc : sassChar c = true) (st : Style) (T : Top) (s : Stmt) (hT : c ∉ T.buf)
    (hs : s.leafFree c = true) : c ∉ (visitGroup st T s).buf := by
  unfold visitGroup
  simp only
  refine ni_append ?_ (visit_NI c hc st s 0 hs)
  have h1 : c ∉ (if T.prevSemi then T.buf ++ [';'] else T.buf) := by
    split
    · exact ni_append hT (ni_of_plain c hc _ (by decide))
    · exact hT
  generalize (if T.prevSemi then T.buf ++ [';'] else T.buf) = b1 at h1
  have h2 : c ∉ (if !b1.isEmpty then b1 ++ optNl st else b1) := by
    split
    · exact ni_append h1 (ni_optNl c hc st)
    · exact h1
  generalize (if !b1.isEmpty then b1 ++ optNl st else b1) = b2 at h2
  split
  · exact ni_append h2 (ni_optNl c hc st)
  · exact h2

theorem topLoop_NI (c : Char) (hc : sassChar c = true) (st : Style) (t : List Stmt) (T : Top) (hT : c ∉ T.buf)
    (ht : treeLeafFree c t = true) : c ∉ (topLoop st T t).buf := by
  induction t generalizing T with
  | nil => simpa [topLoop] using hT
  | cons s ss ih =>
    simp only [treeLeafFree, List.all_cons, Bool.and_eq_true] at ht
    simp only [topLoop]
    split
    · exact ih T hT (by simpa [treeLeafFree] using ht.2)
    · exact ih _ (visitGroup_NI c hc st T s hT ht.1) (by simpa [treeLeafFree] using ht.2)

theorem serialize_NI (c : Char) (hc : sassChar c = true) (st : Style) (cs : Bool) (t : List Stmt)
    (ht : treeLeafFree c t = true) : c ∉ serialize st cs t := by
  have hT := topLoop_NI c hc st t Top.init (by simp [Top.init]) ht
  unfold serialize finish
  simp only
  generalize topLoop st Top.init t = T at hT
  have h1 : c ∉ (if T.prevSemi then T.buf ++ [';'] else T.buf) := by
    split
    · exact ni_append hT (ni_of_plain c hc _ (by decide))
    · exact hT
  generalize (if T.prevSemi then T.buf ++ [';'] else T.buf) = b1 at h1
  have h2 : c ∉ (if !b1.isEmpty then b1 ++ optNl st else b1) := by
    split
    · exact ni_append h1 (ni_optNl c hc st)
    · exact h1
  generalize (if !b1.isEmpty then b1 ++ optNl st else b1) = b2 at h2
  have hb : c ≠ bom := by intro e; subst e; revert hc; decide
  split
  · simp [hb, h2]
  · split
    · exact ni_append (ni_of_plain c hc _ (by decide)) h2
    · exact h2


end Grass.Serialize
