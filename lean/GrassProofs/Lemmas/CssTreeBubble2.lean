import GrassProofs.Lemmas.CssTreeBubble
/-
  Helper lemmas for C04 (the bubbling lemma shared by @media/@supports/unknown at-rules and the
  induction over the bubbling fragment).  Property theorems live in GrassProofs/C04.lean.
-/
namespace Grass.CssTree

/-- Visiting the body of a bubbling at-rule once its node `r` exists (shared by @media, @supports and
    unknown at-rules): inside a style rule the rule is re-created in the at-rule first. -/
def atVisit (af : AsFound) (vcf : Option Nat → VCtx) (ruleExists : Bool) (styleRule : Option SelList)
    (r : Tree × Nat) (body : Stmts) : Except Err Tree :=
  if !ruleExists then visitStmts af (vcf (some r.2)) r.1 body
  else match styleRule with
    | none => .error .unreachable
    | some sel =>
      visitStmts af (vcf (some (addChild false r.1 (some r.2) (.rule sel) .never).2))
        (addChild false r.1 (some r.2) (.rule sel) .never).1 body

theorem isAt_not_decl (k : Kind) (h : k.isAt = true) : k.isDecl = false := by
  cases k <;> simp_all [Kind.isAt, Kind.isDecl]

theorem isAt_selOf (k : Kind) (h : k.isAt = true) : selOf k = none := by
  cases k <;> simp_all [Kind.isAt, selOf]

/-- **The bubbling lemma**, shared by the three at-rules: the at-rule node lands at `L`, the style
    rule (if any) is re-created inside it, and the body then fills the block
    `(context of L ++ [at-rule], current selector, own declarations)`. -/
theorem bubble_rel (af : AsFound) (t : Tree) (gd : Good t) (sc : SCtx) (vc : VCtx) (coh : CohB t sc vc)
    (k : Kind) (hkat : k.isAt = true) (th : Through) (L : Nat) (hL : L < t.length)
    (hland : landing t vc.parent th = L)
    (hLat : L = 0 ∨ ∃ kL, kindAt t L = some kL ∧ kL.isAt = true)
    (sc' : SCtx) (vcf : Option Nat → VCtx)
    (hf : sc'.frames = fullCtx t L ++ [k]) (hsel : sc'.sel = sc.sel) (hex : sc'.exclStyle = false)
    (hunk : sc'.inUnknown = sc'.frames.any Kind.isUnknown) (hnoadj : noAdjR sc'.frames.reverse = true)
    (hv1 : ∀ P, (vcf P).parent = P) (hv2 : ∀ P, (vcf P).styleRule = vc.styleRule)
    (hv3 : ∀ P, (vcf P).atRootExcl = false) (hv4 : ∀ P, (vcf P).inUnknown = sc'.inUnknown)
    (hv5 : ∀ P, (vcf P).mq = innermostMedia sc'.frames)
    (body : Stmts)
    (ih : ∀ t2 vc2, Good t2 → CohB t2 sc' vc2 →
      RelB t2 vc2.parent (specStmts sc' body) (visitStmts af vc2 t2 body)) :
    RelB t vc.parent (wrapBlock sc' (specStmts sc' body))
      (atVisit af vcf vc.styleRuleExists vc.styleRule (addChild false t vc.parent k th) body) := by
  have hknd := isAt_not_decl k hkat
  have hLnd : ∀ kL, kindAt t L = some kL → kL.isDecl = false := by
    intro kL hkL
    rcases hLat with h0 | ⟨kL', h1, h2⟩
    · subst h0; rw [gd.root] at hkL; cases hkL
    · rw [h1] at hkL; injection hkL with hkL; subst hkL; exact isAt_not_decl _ h2
  obtain ⟨pre1, gd1, ex1, hlen1, hge1, hk1, hfc1, _, ⟨q1, hq1p, _, hq1k, _⟩, hview1, hpre1⟩ :=
    addChild_landing t gd vc.parent k hknd th L hL hland hLnd
  generalize addChild false t vc.parent k th = r1 at *
  obtain ⟨t1, x⟩ := r1
  simp only at gd1 ex1 hlen1 hge1 hk1 hfc1 hview1 hpre1 hq1p hq1k
  have hq1at : q1 = 0 ∨ ∃ kG, kindAt t1 q1 = some kG ∧ kG.isAt = true := by
    rcases hq1k with h0 | ⟨kq, h1, h2⟩
    · exact Or.inl h0
    · rcases hLat with h0 | ⟨kL, h3, h4⟩
      · subst h0; rw [gd.root] at h2; cases h2
      · rw [h3] at h2; injection h2 with h2; subst h2; exact Or.inr ⟨kL, h1, h4⟩
  have hx0 : x ≠ 0 := by have := gd.pos; omega
  have hxlt : x < t1.length := by omega
  have cohBase : ∀ P, (vcf P).styleRule = sc'.sel := fun P => by rw [hv2 P, coh.sel, hsel]
  by_cases hre : vc.styleRuleExists = true
  · -- inside a style rule: re-create it in the at-rule
    have hsome : ∃ S, vc.styleRule = some S := by
      simp only [VCtx.styleRuleExists, Bool.and_eq_true] at hre
      cases hs : vc.styleRule with
      | none => simp [hs] at hre
      | some S => exact ⟨S, rfl⟩
    obtain ⟨S, hS⟩ := hsome
    have hscS : sc'.sel = some S := by rw [hsel, ← coh.sel, hS]
    have hland2 : landing t1 (some x) .never = x := by
      rw [landing_some_succ t1 .never x hx0]
      obtain ⟨f, hf'⟩ : ∃ f, t1.length = f + 1 := ⟨t1.length - 1, by omega⟩
      rw [hf']; exact climb_stop t1 .never f x k hk1 (by cases k <;> rfl)
    obtain ⟨pre2, gd2, ex2, hlen2, hge2, hk2, hfc2, _, ⟨q2, hq2p, hq2c, hq2k, hq2g⟩, hview2, hpre2⟩ :=
      addChild_landing t1 gd1 (some x) (.rule S) rfl .never x hxlt hland2
        (fun kL hkL => by rw [hk1] at hkL; injection hkL with hkL; subst hkL; exact hknd)
    simp only [atVisit, hre, Bool.not_true, Bool.false_eq_true, if_false, hS]
    generalize addChild false t1 (some x) (.rule S) .never = r2 at *
    obtain ⟨t2, y⟩ := r2
    simp only at gd2 ex2 hlen2 hge2 hk2 hfc2 hq2p hq2c hq2k hq2g hview2 hpre2
    have hy0 : y ≠ 0 := by omega
    have hq2lt : q2 < y := gd2.po y q2 hq2p
    have coh2 : CohB t2 sc' (vcf (some y)) := by
      refine ⟨hex, hv3 _, cohBase _, hv4 _, hunk, hv5 _, hnoadj, q2, by omega, by rw [hq2c, hfc1, hf], ?_, ?_, ?_⟩
      · rcases hq2k with h0 | ⟨kq, h1, h2⟩
        · exact Or.inl h0
        · rw [hk1] at h2; injection h2 with h2; subst h2
          exact Or.inr ⟨k, h1, hkat⟩
      · intro G hG
        have hG1 := hq2g G hG
        rw [hq1p] at hG1; injection hG1 with hG1; subst hG1
        rcases hq1at with h0 | ⟨kG, h1, h2⟩
        · exact Or.inl h0
        · have := gd1.po x q1 hq1p
          exact Or.inr ⟨kG, by rw [ex2.kind q1 (by omega)]; exact h1, h2⟩
      · rw [hscS, hv1]
        exact ⟨y, rfl, hy0, by omega, hk2, hq2p⟩
    have hrel := ih t2 (vcf (some y)) gd2 coh2
    rw [hv1] at hrel
    apply construct_rel t t2 gd vc.parent y (fullCtx t1 x) (some S)
      (pre1 ++ [(x, fullCtx t L ++ (if k.isAt then [k] else []), selOf k, [])] ++ pre2) ?_ ?_ (by omega)
      (Ext.trans ex1 ex2) _ _ hrel sc' (by rw [hfc1, hf]) (by simp [SCtx.home, SCtx.ruleHere, hscS, hex])
    · rw [hview2, hview1]
      simp [selOf, Kind.isAt]
    · intro e he
      simp only [List.mem_append, List.mem_singleton] at he
      rcases he with (he | he) | he
      · have := hpre1 e he; exact ⟨this.1, this.2.1, by omega⟩
      · subst he; exact ⟨rfl, hge1, by omega⟩
      · have h2 := hpre2 e he; have := ex1.len; exact ⟨h2.1, by omega, by omega⟩
  · -- no style rule: declarations go directly into the at-rule
    have hre' : vc.styleRuleExists = false := by simpa using hre
    have hnone : sc.sel = none := by
      rw [← coh.sel]
      simp only [VCtx.styleRuleExists, coh.aexcl, Bool.not_false, Bool.true_and] at hre'
      cases hs : vc.styleRule with
      | none => rfl
      | some S => simp [hs] at hre'
    simp only [atVisit, hre', Bool.not_false, if_true]
    have coh1 : CohB t1 sc' (vcf (some x)) := by
      refine ⟨hex, hv3 _, cohBase _, hv4 _, hunk, hv5 _, hnoadj, x, hxlt, by rw [hfc1, hf],
        Or.inr ⟨k, hk1, hkat⟩, ?_, ?_⟩
      · intro G hG
        rw [hq1p] at hG; injection hG with hG; subst hG; exact hq1at
      rw [hsel, hnone, hv1]
      simp [ParentIs, hx0]
    have hrel := ih t1 (vcf (some x)) gd1 coh1
    rw [hv1] at hrel
    apply construct_rel t t1 gd vc.parent x (fullCtx t L ++ [k]) none pre1 ?_ ?_ hge1 ex1 _ _ hrel sc' hf
      (by simp [SCtx.home, SCtx.ruleHere, hsel, hnone])
    · rw [hview1]; simp [hkat, isAt_selOf k hkat]
    · intro e he
      have := hpre1 e he; exact ⟨this.1, this.2.1, by omega⟩


theorem coh_ruleExists (t : Tree) (sc : SCtx) (vc : VCtx) (coh : CohB t sc vc) :
    vc.styleRuleExists = sc.ruleHere := by
  simp [VCtx.styleRuleExists, SCtx.ruleHere, coh.aexcl, coh.excl, coh.sel]

theorem through_media_self (ms cur qs2 : List (List Nat)) (hne : cur ≠ []) :
    (Through.media ((ms ++ cur) ++ qs2)).test (.media cur) = true := by
  simp only [Through.test, Bool.and_eq_true, Bool.not_eq_true', List.all_eq_true]
  refine ⟨?_, ?_⟩
  · cases cur with
    | nil => exact absurd rfl hne
    | cons a as => cases ms <;> simp
  · intro q hq
    simp [hq]

theorem innermostMedia_none_last (fs : List Kind) (k : Kind) (h : innermostMedia (fs ++ [k]) = none) :
    k.isMedia = false ∧ innermostMedia fs = none := by
  rw [innermostMedia_snoc] at h
  cases k <;> simp_all [Kind.isMedia]

/-- the visitor code of the three at-rules is `atVisit` -/
theorem visit_supports_eq (af : AsFound) (h : af.shallowSibling = true) (vc : VCtx) (t : Tree) (cond : String)
    (body : Stmts) :
    visitStmt af vc t (.supports cond body) =
      atVisit af (fun P => { vc with parent := P }) vc.styleRuleExists vc.styleRule
        (addChild false t vc.parent (.supports cond) .styleRule) body := by
  simp only [visitStmt, atVisit, h, Bool.not_true]
  split <;> rfl

theorem visit_unknown_eq (af : AsFound) (h : af.shallowSibling = true) (vc : VCtx) (t : Tree) (n p : String)
    (body : Stmts) :
    visitStmt af vc t (.unknown n p body) =
      atVisit af (fun P => { vc with parent := P, inUnknown := true }) vc.styleRuleExists vc.styleRule
        (addChild false t vc.parent (.unknown n p) .styleRule) body := by
  simp only [visitStmt, atVisit, h, Bool.not_true]
  split <;> rfl


theorem stop_media_nonMedia (srcs : List (List Nat)) (k : Kind) (hat : k.isAt = true) (hm : k.isMedia = false) :
    (Through.media srcs).test k = false := by
  cases k <;> simp_all [Kind.isAt, Kind.isMedia, Through.test]

theorem mergeQ_nil_left (qs : List (List Nat)) : mergeQ [] qs = [] := rfl

theorem media_rel (af : AsFound) (h : af.shallowSibling = true) (qs : List (List Nat)) (body : Stmts)
    (t : Tree) (sc : SCtx) (vc : VCtx) (gd : Good t) (coh : CohB t sc vc)
    (ih : ∀ t2 sc2 vc2, Good t2 → CohB t2 sc2 vc2 →
      RelB t2 vc2.parent (specStmts sc2 body) (visitStmts af vc2 t2 body)) :
    RelB t vc.parent (specStmt sc (.media qs body)) (visitStmt af vc t (.media qs body)) := by
  obtain ⟨g, hg, hf, hk, hgp, hp⟩ := coh.node
  cases hm : innermostMedia sc.frames with
  | none =>
    have hvm : vc.mq = none := by rw [coh.mq, hm]
    have e : visitStmt af vc t (.media qs body) =
        atVisit af (fun P => { vc with parent := P, mq := some qs, mqSources := [] }) vc.styleRuleExists vc.styleRule
          (addChild false t vc.parent (.media qs) (.media [])) body := by
      have hb : ((none : Option (List (List Nat))) == some []) = false := rfl
      simp only [visitStmt, atVisit, h, hvm, Bool.not_true, Option.map_none, Option.getD_none, hb,
        Bool.false_eq_true, if_false]
      split <;> rfl
    rw [e]
    simp only [specStmt, pushMedia, hm]
    have hstop : ∀ k, kindAt t g = some k → (Through.media []).test k = false := by
      intro k hkk
      rcases hk with h0 | ⟨k', h1, h2⟩
      · subst h0; rw [gd.root] at hkk; cases hkk
      · rw [h1] at hkk; injection hkk with hkk; subst hkk
        cases k' <;> simp_all [Kind.isAt, Through.test]
    have hland := landing_at_g t gd (.media []) (fun _ => rfl) vc.parent g hg sc.sel hp hstop
    apply bubble_rel af t gd sc vc coh (.media qs) rfl (.media []) g hg hland hk
      { sc with frames := sc.frames ++ [.media qs] }
      (fun P => { vc with parent := P, mq := some qs, mqSources := [] })
      (by simp [hf]) rfl coh.excl (by simp [coh.unkf, Kind.isUnknown]) ?_
      (fun _ => rfl) (fun _ => rfl) (fun _ => coh.aexcl) (fun _ => coh.unk)
      (fun _ => by simp [innermostMedia_snoc])
    · intro t2 vc2 gd2 coh2
      exact ih t2 _ vc2 gd2 coh2
    · simp only [List.reverse_append, List.reverse_cons, List.reverse_nil, List.nil_append, List.cons_append]
      have hn := coh.noadj
      unfold innermostMedia at hm
      cases hr : sc.frames.reverse with
      | nil => rfl
      | cons b rest =>
        rw [hr] at hm hn
        have hb : b.isMedia = false := by
          cases b <;> simp_all [Kind.isMedia]
        simp [noAdjR, hb, hn]
  | some cur =>
    have hvm : vc.mq = some cur := by rw [coh.mq, hm]
    cases hmm : mergeQ cur qs with
    | nil =>
      have e : visitStmt af vc t (.media qs body) = .ok t := by
        simp only [visitStmt, hvm, Option.map_some, hmm]
        rfl
      rw [e]
      simp only [specStmt, pushMedia, hm, hmm, List.isEmpty_nil, if_true, RelB]
      exact ⟨t, rfl, gd, Ext.refl t, [], by
        simp only [List.append_nil]
        exact (map_eq_self _ _ (fun e _ => extOB_nil vc.parent e)).symm, rfl, by simp⟩
    | cons m0 ms =>
      have hcur : cur ≠ [] := by
        intro hc; subst hc; simp [mergeQ_nil_left] at hmm
      have e : visitStmt af vc t (.media qs body) =
          atVisit af (fun P => { vc with parent := P, mq := some (m0 :: ms), mqSources := (vc.mqSources ++ cur) ++ qs })
            vc.styleRuleExists vc.styleRule
            (addChild false t vc.parent (.media (m0 :: ms)) (.media ((vc.mqSources ++ cur) ++ qs))) body := by
        have hb : ((some (m0 :: ms) : Option (List (List Nat))) == some []) = false := rfl
        simp only [visitStmt, atVisit, h, hvm, Bool.not_true, Option.map_some, hmm, Option.getD_some, hb,
          Bool.false_eq_true, if_false]
        split <;> rfl
      rw [e]
      -- the innermost at-rule node exists
      have hg0 : g ≠ 0 := by
        intro h0; subst h0
        rw [fullCtx_zero t gd] at hf
        rw [← hf] at hm; simp [innermostMedia] at hm
      obtain ⟨kg, hkg, hkgat⟩ : ∃ kg, kindAt t g = some kg ∧ kg.isAt = true := by
        rcases hk with h0 | h1
        · exact absurd h0 hg0
        · exact h1
      obtain ⟨G, hG, hGg, hfG⟩ := frames_of_node t gd g hg0 hg kg hkg
      have hfr : sc.frames = fullCtx t G ++ [kg] := by rw [← hf, hfG]
      by_cases hkm : kg.isMedia = true
      · -- merged with the enclosing @media: bubbles through it
        obtain ⟨c, hc⟩ : ∃ c, kg = .media c := by cases kg <;> simp_all [Kind.isMedia]
        subst hc
        have hcc : c = cur := by
          rw [hfr, innermostMedia_snoc] at hm; simpa using hm
        subst hcc
        have hGat := hgp G hG
        have hnoG : ∀ kG, kindAt t G = some kG → kG.isMedia = false := by
          intro kG hkG
          by_cases hG0 : G = 0
          · subst hG0; rw [gd.root] at hkG; cases hkG
          · obtain ⟨G', _, _, hfG'⟩ := frames_of_node t gd G hG0 (by omega) kG hkG
            have hn := coh.noadj
            rw [hfr, hfG'] at hn
            simp only [List.reverse_append, List.reverse_cons, List.reverse_nil, List.nil_append, List.cons_append,
              noAdjR, Kind.isMedia, Bool.true_and, Bool.and_eq_true, Bool.not_eq_true'] at hn
            exact hn.1
        have hstopG : ∀ kG, kindAt t G = some kG → (Through.media ((vc.mqSources ++ c) ++ qs)).test kG = false := by
          intro kG hkG
          rcases hGat with h0 | ⟨kG', h1, h2⟩
          · subst h0; rw [gd.root] at hkG; cases hkG
          · rw [h1] at hkG; injection hkG with hkG; subst hkG
            exact stop_media_nonMedia _ _ h2 (hnoG _ h1)
        have hland := landing_at_G t gd (.media ((vc.mqSources ++ c) ++ qs)) (fun _ => rfl) vc.parent g G hg hg0
          sc.sel hp (.media c) hkg (through_media_self vc.mqSources c qs hcur) hG hstopG
        have hpm : pushMedia sc.frames qs = some (fullCtx t G ++ [.media (m0 :: ms)]) := by
          simp only [pushMedia, hm, hmm, List.isEmpty_cons, Bool.false_eq_true, if_false]
          rw [hfr, dropMedia_snoc_media _ _ rfl (by rw [← hfr]; exact coh.noadj)]
        simp only [specStmt, hpm]
        have hnF : noAdjR (fullCtx t G).reverse = true := by
          have hn := coh.noadj
          rw [hfr] at hn
          simp only [List.reverse_append, List.reverse_cons, List.reverse_nil, List.nil_append, List.cons_append] at hn
          exact noAdjR_tail _ _ hn
        apply bubble_rel af t gd sc vc coh (.media (m0 :: ms)) rfl _ G (by omega) hland hGat
          { sc with frames := fullCtx t G ++ [.media (m0 :: ms)] }
          (fun P => { vc with parent := P, mq := some (m0 :: ms), mqSources := (vc.mqSources ++ c) ++ qs })
          rfl rfl coh.excl (by simp [coh.unkf, hfr, Kind.isUnknown]) ?_
          (fun _ => rfl) (fun _ => rfl) (fun _ => coh.aexcl) (fun _ => coh.unk)
          (fun _ => by simp [innermostMedia_snoc])
        · intro t2 vc2 gd2 coh2
          exact ih t2 _ vc2 gd2 coh2
        · simp only [List.reverse_append, List.reverse_cons, List.reverse_nil, List.nil_append, List.cons_append]
          cases hr : (fullCtx t G).reverse with
          | nil => rfl
          | cons b rest =>
            rw [hr] at hnF
            have hb : b.isMedia = false := by
              by_cases hG0 : G = 0
              · subst hG0; rw [fullCtx_zero t gd] at hr; simp at hr
              · obtain ⟨kG, hkG⟩ := gd.kinds G (by omega) (by omega)
                obtain ⟨G', _, _, hfG'⟩ := frames_of_node t gd G hG0 (by omega) kG hkG
                rw [hfG'] at hr
                simp only [List.reverse_append, List.reverse_cons, List.reverse_nil, List.nil_append,
                  List.cons_append] at hr
                injection hr with hr1 _
                subst hr1; exact hnoG _ hkG
            simp [noAdjR, hb, hnF]
      · -- separated from the enclosing @media by another at-rule: stays inside it
        have hkm' : kg.isMedia = false := by simpa using hkm
        have hstop : ∀ k, kindAt t g = some k → (Through.media ((vc.mqSources ++ cur) ++ qs)).test k = false := by
          intro k hkk
          rw [hkg] at hkk; injection hkk with hkk; subst hkk
          exact stop_media_nonMedia _ _ hkgat hkm'
        have hland := landing_at_g t gd (.media ((vc.mqSources ++ cur) ++ qs)) (fun _ => rfl) vc.parent g hg sc.sel hp hstop
        have hpm : pushMedia sc.frames qs = some (sc.frames ++ [.media (m0 :: ms)]) := by
          simp only [pushMedia, hm, hmm, List.isEmpty_cons, Bool.false_eq_true, if_false]
          rw [hfr, dropMedia_snoc_nonMedia _ _ hkm']
        simp only [specStmt, hpm]
        apply bubble_rel af t gd sc vc coh (.media (m0 :: ms)) rfl _ g hg hland hk
          { sc with frames := sc.frames ++ [.media (m0 :: ms)] }
          (fun P => { vc with parent := P, mq := some (m0 :: ms), mqSources := (vc.mqSources ++ cur) ++ qs })
          (by simp [hf]) rfl coh.excl (by simp [coh.unkf, Kind.isUnknown]) ?_
          (fun _ => rfl) (fun _ => rfl) (fun _ => coh.aexcl) (fun _ => coh.unk)
          (fun _ => by simp [innermostMedia_snoc])
        · intro t2 vc2 gd2 coh2
          exact ih t2 _ vc2 gd2 coh2
        · have hn := coh.noadj
          rw [hfr] at hn ⊢
          simp only [List.reverse_append, List.reverse_cons, List.reverse_nil, List.nil_append, List.cons_append] at hn ⊢
          simp [noAdjR, hkm', hn]

theorem coh_parent_lt (t : Tree) (sc : SCtx) (vc : VCtx) (coh : CohB t sc vc) :
    ∀ p, vc.parent = some p → p < t.length := by
  obtain ⟨g, hg, _, _, _, hp⟩ := coh.node
  exact parentIs_lt t vc.parent g hg sc.sel hp

theorem stop_styleRule (t : Tree) (gd : Good t) (g : Nat)
    (hk : g = 0 ∨ ∃ k, kindAt t g = some k ∧ k.isAt = true) :
    ∀ k, kindAt t g = some k → Through.styleRule.test k = false := by
  intro k hkk
  rcases hk with h0 | ⟨k', h1, h2⟩
  · subst h0; rw [gd.root] at hkk; cases hkk
  · rw [h1] at hkk; injection hkk with hkk; subst hkk
    cases k' <;> simp_all [Kind.isAt, Through.test]

mutual
  theorem stmtB_rel (af : AsFound) (h : af.shallowSibling = true) : ∀ (s : Stmt), bubOnly s = true →
      ∀ (t : Tree) (sc : SCtx) (vc : VCtx), Good t → CohB t sc vc →
        RelB t vc.parent (specStmt sc s) (visitStmt af vc t s)
    | .decl d, _, t, sc, vc, gd, coh => by
      have hre := coh_ruleExists t sc vc coh
      simp only [specStmt, visitStmt, hre, coh.unk]
      by_cases hok : (sc.ruleHere || sc.inUnknown) = true
      · have hnot : (!sc.ruleHere && !sc.inUnknown) = false := by
          cases h1 : sc.ruleHere <;> cases h2 : sc.inUnknown <;> simp_all
        simp only [hok, if_true, hnot, Bool.false_eq_true, if_false, RelB, visitDecl_none]
        -- the current parent exists
        obtain ⟨g, hg, hf, hk, _, hp⟩ := coh.node
        have hP : ∃ p, vc.parent = some p ∧ p < t.length ∧ ∀ n v, kindAt t p ≠ some (.decl n v) := by
          cases hs : sc.sel with
          | some S =>
            rw [hs] at hp
            obtain ⟨p, h1, _, h3, h4, _⟩ := hp
            exact ⟨p, h1, h3, by intro n v h; rw [h4] at h; cases h⟩
          | none =>
            rw [hs] at hp
            simp only [ParentIs] at hp
            have hu : sc.inUnknown = true := by simpa [SCtx.ruleHere, hs] using hok
            have hg0 : g ≠ 0 := by
              intro h0; subst h0
              rw [fullCtx_zero t gd] at hf
              rw [coh.unkf, ← hf] at hu; simp at hu
            simp only [hg0, if_false] at hp
            refine ⟨g, hp, hg, ?_⟩
            intro n v h
            rcases hk with h0 | ⟨k', h1, h2⟩
            · exact hg0 h0
            · rw [h1] at h; injection h with h; subst h; simp [Kind.isAt] at h2
        obtain ⟨p, hp1, hp2, hp3⟩ := hP
        obtain ⟨g2, e2, v2⟩ := addDecls_B p (declSpec [] d) t gd hp2 hp3
        rw [hp1]
        exact ⟨_, rfl, g2, e2, [], by simp [v2, extOB], rfl, by simp⟩
      · have hnot : (!sc.ruleHere && !sc.inUnknown) = true := by
          cases h1 : sc.ruleHere <;> cases h2 : sc.inUnknown <;> simp_all
        simp [hok, hnot, RelB]
    | .rule sel0 body, hro, t, sc, vc, gd, coh => by
      simp only [bubOnly] at hro
      simp only [specStmt, visitStmt, coh.sel, coh.aexcl, coh.excl, h, Bool.not_true, Bool.not_false]
      cases hres : resolveList sc.sel true sel0 with
      | error e => simp [RelB]
      | ok sel' =>
        simp only
        obtain ⟨g, hg, hf, hk, hgp, hp⟩ := coh.node
        have hland := landing_at_g t gd .styleRule (fun _ => rfl) vc.parent g hg sc.sel hp (stop_styleRule t gd g hk)
        have hLnd : ∀ kL, kindAt t g = some kL → kL.isDecl = false := by
          intro kL hkL
          rcases hk with h0 | ⟨k', h1, h2⟩
          · subst h0; rw [gd.root] at hkL; cases hkL
          · rw [h1] at hkL; injection hkL with hkL; subst hkL; exact isAt_not_decl _ h2
        obtain ⟨pre, gd1, ex1, hlen1, hge1, hk1, hfc1, _, ⟨q, hqp, hqc, hqk, hqg⟩, hview1, hpre1⟩ :=
          addChild_landing t gd vc.parent (.rule sel') rfl .styleRule g hg hland hLnd
        generalize addChild false t vc.parent (.rule sel') .styleRule = r1 at *
        obtain ⟨t1, x⟩ := r1
        simp only at gd1 ex1 hlen1 hge1 hk1 hfc1 hqp hqc hqk hqg hview1 hpre1 ⊢
        have hx0 : x ≠ 0 := by have := gd.pos; omega
        have hql : q < x := gd1.po x q hqp
        let sc' : SCtx := { sc with sel := some sel', exclStyle := false }
        let vc' : VCtx := { vc with parent := some x, styleRule := some sel', atRootExcl := false }
        have coh1 : CohB t1 sc' vc' := by
          refine ⟨rfl, rfl, rfl, coh.unk, coh.unkf, coh.mq, coh.noadj, q, by omega, by rw [hqc]; exact hf, ?_, ?_, ?_⟩
          · rcases hqk with h0 | ⟨kq, h1, h2⟩
            · exact Or.inl h0
            · rcases hk with h0 | ⟨k', h3, h4⟩
              · subst h0; rw [gd.root] at h2; cases h2
              · rw [h3] at h2; injection h2 with h2; subst h2; exact Or.inr ⟨k', h1, h4⟩
          · intro G hG
            have hG1 := hqg G hG
            rcases hgp G hG1 with h0 | ⟨kG, h1, h2⟩
            · exact Or.inl h0
            · have := gd.po g G hG1
              exact Or.inr ⟨kG, by rw [ex1.kind G (by omega)]; exact h1, h2⟩
          · exact ⟨x, rfl, hx0, by omega, hk1, hqp⟩
        have ih := stmtsB_rel af h body hro t1 sc' vc' gd1 coh1
        apply construct_rel t t1 gd vc.parent x (fullCtx t g) (some sel') pre ?_ ?_ hge1 ex1 _ _ ih sc'
          (by simp [sc', hf]) (by simp [sc', SCtx.home, SCtx.ruleHere])
        · rw [hview1]; simp [selOf, Kind.isAt]
        · intro e he
          have := hpre1 e he; exact ⟨this.1, this.2.1, by omega⟩
    | .supports cond body, hro, t, sc, vc, gd, coh => by
      simp only [bubOnly] at hro
      rw [visit_supports_eq af h]
      simp only [specStmt]
      obtain ⟨g, hg, hf, hk, hgp, hp⟩ := coh.node
      have hland := landing_at_g t gd .styleRule (fun _ => rfl) vc.parent g hg sc.sel hp (stop_styleRule t gd g hk)
      apply bubble_rel af t gd sc vc coh (.supports cond) rfl .styleRule g hg hland hk
        { sc with frames := sc.frames ++ [.supports cond] } (fun P => { vc with parent := P })
        (by simp [hf]) rfl coh.excl (by simp [any_unknown_snoc, coh.unkf, Kind.isUnknown])
        (by simp only [List.reverse_append, List.reverse_cons, List.reverse_nil, List.nil_append, List.cons_append]
            exact noAdjR_snoc_nonMedia _ _ rfl coh.noadj)
        (fun _ => rfl) (fun _ => rfl) (fun _ => coh.aexcl) (fun _ => coh.unk)
        (fun _ => by simp [innermostMedia_snoc, coh.mq])
      intro t2 vc2 gd2 coh2
      exact stmtsB_rel af h body hro t2 _ vc2 gd2 coh2
    | .unknown n p body, hro, t, sc, vc, gd, coh => by
      simp only [bubOnly] at hro
      rw [visit_unknown_eq af h]
      simp only [specStmt]
      obtain ⟨g, hg, hf, hk, hgp, hp⟩ := coh.node
      have hland := landing_at_g t gd .styleRule (fun _ => rfl) vc.parent g hg sc.sel hp (stop_styleRule t gd g hk)
      apply bubble_rel af t gd sc vc coh (.unknown n p) rfl .styleRule g hg hland hk
        { sc with frames := sc.frames ++ [.unknown n p], inUnknown := true }
        (fun P => { vc with parent := P, inUnknown := true })
        (by simp [hf]) rfl coh.excl (by simp [any_unknown_snoc, Kind.isUnknown])
        (by simp only [List.reverse_append, List.reverse_cons, List.reverse_nil, List.nil_append, List.cons_append]
            exact noAdjR_snoc_nonMedia _ _ rfl coh.noadj)
        (fun _ => rfl) (fun _ => rfl) (fun _ => coh.aexcl) (fun _ => rfl)
        (fun _ => by simp [innermostMedia_snoc, coh.mq])
      intro t2 vc2 gd2 coh2
      exact stmtsB_rel af h body hro t2 _ vc2 gd2 coh2
    | .media qs body, hro, t, sc, vc, gd, coh => by
      simp only [bubOnly] at hro
      exact media_rel af h qs body t sc vc gd coh (fun t2 sc2 vc2 gd2 coh2 => stmtsB_rel af h body hro t2 sc2 vc2 gd2 coh2)
    | .atroot _ _, hro, _, _, _, _, _ => by simp [bubOnly] at hro
  theorem stmtsB_rel (af : AsFound) (h : af.shallowSibling = true) : ∀ (ss : Stmts), bubOnlyL ss = true →
      ∀ (t : Tree) (sc : SCtx) (vc : VCtx), Good t → CohB t sc vc →
        RelB t vc.parent (specStmts sc ss) (visitStmts af vc t ss)
    | .nil, _, t, sc, vc, gd, coh => by
      simp only [specStmts, visitStmts, RelB]
      refine ⟨t, rfl, gd, Ext.refl t, [], ?_, rfl, by simp⟩
      simp only [List.append_nil]
      exact (map_eq_self _ _ (fun e _ => extOB_nil vc.parent e)).symm
    | .cons s ss, hro, t, sc, vc, gd, coh => by
      simp only [bubOnlyL, Bool.and_eq_true] at hro
      simp only [specStmts, visitStmts]
      show RelB t vc.parent _ (bindT (visitStmt af vc t s) (fun t' => visitStmts af vc t' ss))
      apply relB_seq t vc.parent (coh_parent_lt t sc vc coh)
      · exact stmtB_rel af h s hro.1 t sc vc gd coh
      · intro t1 _ gd1 ex1
        exact stmtsB_rel af h ss hro.2 t1 sc vc gd1 (cohB_ext t t1 gd ex1 sc vc coh)
end


/-! ### the bubbling fragment: `treeBuild` read in index order against `flattenSpec` -/

/-- Blocks of a tree read off the index tree directly: every non-declaration node in index
    (= creation) order, context from its parent chain, declarations from its child list; blocks
    without declarations dropped. -/
def observeIdx (t : Tree) : List Block := ((viewB t).map toBlockB).filter Block.nonEmpty

def readIdx : Except Err Tree → Except Err (List Block)
  | .error e => .error e
  | .ok t => .ok (observeIdx t)

theorem cohB_init : CohB Tree.init SCtx.init VCtx.init := by
  refine ⟨rfl, rfl, rfl, rfl, rfl, rfl, rfl, 0, by simp [Tree.init], fullCtx_zero _ good_init, Or.inl rfl, ?_, ?_⟩
  · intro G hG; simp [parentOf, Tree.init] at hG
  · simp [ParentIs, SCtx.init, VCtx.init]

theorem viewB_init : viewB Tree.init = [] := by
  simp [viewB, entB, kindAt, Tree.init, List.range_succ]

theorem readIdx_eq_flattenSpec_bubbling (af : AsFound) (h : af.shallowSibling = true) (src : Stmts)
    (hb : bubOnlyL src = true) : readIdx (treeBuild af src) = flattenSpec src := by
  have rel := stmtsB_rel af h src hb Tree.init SCtx.init VCtx.init good_init cohB_init
  unfold treeBuild flattenSpec
  cases hs : specStmts SCtx.init src with
  | error e =>
    rw [hs] at rel
    simp only [RelB] at rel
    rw [rel]; rfl
  | ok x =>
    obtain ⟨ds, bs⟩ := x
    rw [hs] at rel
    obtain ⟨t', hb', _, _, new, v, m, _⟩ := rel
    rw [hb']
    simp only [readIdx, observeIdx]
    rw [v, viewB_init]
    simp [m]

end Grass.CssTree
