import Grass.Builtins

/-!
# String builtins: `sliceCore`, `insertCore`, `findSub`

Position arithmetic of `str-slice`, `str-insert` and `str-index` on code points:
1-based inclusive positions, negative positions counting from the end, clamping at both ends.
-/

namespace Grass.Builtins

/-! ## `sliceCore` -/

theorem sliceCore_eq (s : List Char) (a b st en : Int)
    (hst : st = if a = 0 then 1 else if 0 < a then min a ((s.length : Int) + 1) else max (a + (s.length : Int) + 1) 1)
    (hen : en = min (max (if b < 0 then b + (s.length : Int) + 1 else b) 0) ((s.length : Int) + 1)) :
    sliceCore s a b =
      if en < st ∨ (s.length : Int) < st then [] else (s.drop (st.toNat - 1)).take (en - st + 1).toNat := by
  subst hst hen
  rfl

theorem slice_eq_take_drop (s : List Char) (a b : Int) (ha : 1 ≤ a) (hab : a ≤ b + 1) (hb : b ≤ (s.length : Int)) :
    sliceCore s a b = (s.drop (a.toNat - 1)).take (b - a + 1).toNat := by
  unfold sliceCore
  simp only []
  have h1 : (if a = 0 then (1:Int) else if 0 < a then min a ((s.length : Int) + 1) else max (a + (s.length:Int) + 1) 1) = a := by
    split
    · omega
    · split <;> omega
  have h2 : (min (max (if b < 0 then b + (s.length:Int) + 1 else b) 0) ((s.length : Int) + 1)) = b := by
    split <;> omega
  rw [h1, h2]
  split
  · have : (b - a + 1).toNat = 0 := by omega
    rw [this, List.take_zero]
  · rfl

theorem length_slice (s : List Char) (a b : Int) (ha : 1 ≤ a) (hab : a ≤ b + 1) (hb : b ≤ (s.length : Int)) :
    (sliceCore s a b).length = (b - a + 1).toNat := by
  rw [slice_eq_take_drop s a b ha hab hb, List.length_take, List.length_drop]
  omega

theorem slice_concat (s : List Char) (k : Nat) (hk : k ≤ s.length) :
    sliceCore s 1 (k : Int) ++ sliceCore s ((k : Int) + 1) (-1) = s := by
  rw [slice_eq_take_drop s 1 k (by omega) (by omega) (by omega)]
  have hneg : sliceCore s ((k : Int) + 1) (-1) = s.drop k := by
    unfold sliceCore
    simp only []
    have h1 : (if (k:Int) + 1 = 0 then (1:Int) else if 0 < (k:Int) + 1 then min ((k:Int) + 1) ((s.length : Int) + 1) else max ((k:Int) + 1 + (s.length:Int) + 1) 1) = (k:Int) + 1 := by
      split
      · omega
      · split <;> omega
    have h2 : (min (max (if (-1:Int) < 0 then (-1:Int) + (s.length:Int) + 1 else -1) 0) ((s.length : Int) + 1)) = (s.length : Int) := by
      split <;> omega
    rw [h1, h2]
    split
    · rw [List.drop_eq_nil_of_le (by omega)]
    · have e1 : ((k:Int) + 1).toNat - 1 = k := by omega
      rw [e1]
      apply List.take_of_length_le
      rw [List.length_drop]; omega
  rw [hneg]
  have e1 : (1:Int).toNat - 1 = 0 := by omega
  have e2 : ((k:Int) - 1 + 1).toNat = k := by omega
  rw [e1, e2, List.drop_zero, List.take_append_drop]

theorem slice_neg_start (s : List Char) (k : Int) (e : Int) (hk1 : 1 ≤ k) (hk2 : k ≤ (s.length : Int)) :
    sliceCore s (-k) e = sliceCore s ((s.length : Int) - k + 1) e := by
  unfold sliceCore
  simp only []
  have h1 : (if -k = 0 then (1:Int) else if 0 < -k then min (-k) ((s.length : Int) + 1) else max (-k + (s.length:Int) + 1) 1)
      = (if (s.length : Int) - k + 1 = 0 then (1:Int) else if 0 < (s.length : Int) - k + 1 then min ((s.length : Int) - k + 1) ((s.length : Int) + 1) else max ((s.length : Int) - k + 1 + (s.length:Int) + 1) 1) := by
    repeat' split
    all_goals omega
  rw [h1]

theorem slice_neg_end (s : List Char) (a : Int) (k : Int) (hk1 : 1 ≤ k) (hk2 : k ≤ (s.length : Int)) :
    sliceCore s a (-k) = sliceCore s a ((s.length : Int) - k + 1) := by
  unfold sliceCore
  simp only []
  have h2 : (if -k < 0 then -k + (s.length:Int) + 1 else -k) = (if (s.length : Int) - k + 1 < 0 then (s.length : Int) - k + 1 + (s.length:Int) + 1 else (s.length : Int) - k + 1) := by
    repeat' split
    all_goals omega
  rw [h2]

theorem slice_start_zero (s : List Char) (e : Int) : sliceCore s 0 e = sliceCore s 1 e := by
  have h0 : (1:Int) = if (0:Int) = 0 then 1 else if 0 < (0:Int) then min (0:Int) ((s.length : Int) + 1) else max ((0:Int) + (s.length : Int) + 1) 1 := by
    repeat' split
    all_goals omega
  have h1 : (1:Int) = if (1:Int) = 0 then 1 else if 0 < (1:Int) then min (1:Int) ((s.length : Int) + 1) else max ((1:Int) + (s.length : Int) + 1) 1 := by
    repeat' split
    all_goals omega
  rw [sliceCore_eq s 0 e 1 _ h0 rfl, sliceCore_eq s 1 e 1 _ h1 rfl]

theorem slice_clamp_end (s : List Char) (a e : Int) (he : (s.length : Int) ≤ e) :
    sliceCore s a e = sliceCore s a (s.length : Int) := by
  unfold sliceCore
  simp only []
  generalize hst : (if a = 0 then (1:Int) else if 0 < a then min a ((s.length : Int) + 1) else max (a + (s.length:Int) + 1) 1) = st
  have hst1 : 1 ≤ st ∧ st ≤ (s.length : Int) + 1 := by
    subst hst
    repeat' split
    all_goals omega
  generalize hen : (min (max (if e < 0 then e + (s.length:Int) + 1 else e) 0) ((s.length : Int) + 1)) = en
  have hen1 : (s.length : Int) ≤ en ∧ en ≤ (s.length : Int) + 1 := by
    subst hen
    split <;> omega
  have hen2 : (min (max (if (s.length : Int) < 0 then (s.length : Int) + (s.length:Int) + 1 else (s.length : Int)) 0) ((s.length : Int) + 1)) = (s.length : Int) := by
    split <;> omega
  rw [hen2]
  by_cases hc : (s.length : Int) < st
  · rw [if_pos (Or.inr hc), if_pos (Or.inr hc)]
  · rw [if_neg (by omega), if_neg (by omega)]
    rw [List.take_of_length_le (by rw [List.length_drop]; omega),
        List.take_of_length_le (by rw [List.length_drop]; omega)]

theorem length_insertAfter (s ins : List Char) (n : Nat) (h : n ≤ s.length) :
    (insertAfter s ins n).length = s.length + ins.length := by
  unfold insertAfter
  rw [if_neg (by omega)]
  simp only [List.length_append, List.length_take, List.length_drop]
  omega

theorem insertAfter_le (s ins : List Char) (n : Nat) (h : n ≤ s.length) :
    insertAfter s ins n = s.take n ++ ins ++ s.drop n := by
  unfold insertAfter
  rw [if_neg (by omega)]

theorem length_insert (s ins : List Char) (i : Int) :
    (insertCore s ins i).length = s.length + ins.length := by
  unfold insertCore
  split
  · next h => subst h; simp only [List.length_nil, Nat.zero_add]
  · simp only []
    split
    · exact length_insertAfter _ _ _ (by omega)
    · split
      · exact length_insertAfter _ _ _ (by omega)
      · exact length_insertAfter _ _ _ (by omega)

theorem insert_pos (s ins : List Char) (i : Int) (h1 : 1 ≤ i) (h2 : i ≤ (s.length : Int) + 1) :
    insertCore s ins i = s.take (i.toNat - 1) ++ ins ++ s.drop (i.toNat - 1) := by
  unfold insertCore
  split
  · next h => subst h; simp only [List.take_nil, List.drop_nil, List.nil_append, List.append_nil]
  · simp only []
    rw [if_pos (by omega)]
    have e : (min (i - 1) (s.length : Int)).toNat = i.toNat - 1 := by omega
    rw [e]
    exact insertAfter_le _ _ _ (by omega)

theorem insert_neg (s ins : List Char) (k : Int) (h1 : 1 ≤ k) (h2 : k ≤ (s.length : Int) + 1) :
    insertCore s ins (-k) = s.take ((s.length : Int) - k + 1).toNat ++ ins ++ s.drop ((s.length : Int) - k + 1).toNat := by
  unfold insertCore
  split
  · next h => subst h; simp only [List.take_nil, List.drop_nil, List.nil_append, List.append_nil]
  · simp only []
    rw [if_neg (by omega), if_neg (by omega)]
    have e : (max ((s.length : Int) + -k + 1) 0).toNat = ((s.length : Int) - k + 1).toNat := by omega
    rw [e]
    exact insertAfter_le _ _ _ (by omega)

theorem insert_clamp_hi (s ins : List Char) (i : Int) (h : (s.length : Int) + 1 ≤ i) : insertCore s ins i = s ++ ins := by
  unfold insertCore
  split
  · next h => subst h; simp only [List.nil_append]
  · simp only []
    rw [if_pos (by omega)]
    have e : (min (i - 1) (s.length : Int)).toNat = s.length := by omega
    rw [e, insertAfter_le _ _ _ (by omega), List.take_length, List.drop_length, List.append_nil]

theorem insert_clamp_lo (s ins : List Char) (i : Int) (h : i ≤ -((s.length : Int) + 1)) : insertCore s ins i = ins ++ s := by
  unfold insertCore
  split
  · next h => subst h; simp only [List.append_nil]
  · simp only []
    rw [if_neg (by omega), if_neg (by omega)]
    have e : (max ((s.length : Int) + i + 1) 0).toNat = 0 := by omega
    rw [e, insertAfter_le _ _ _ (by omega), List.take_zero, List.drop_zero, List.nil_append]

/-! ## `findSub` / `occursAt` -/

theorem occursAt_zero (sub s : List Char) : occursAt sub s 0 = sub.isPrefixOf s := by
  simp only [occursAt, List.drop_zero]

theorem occursAt_succ (sub : List Char) (c : Char) (t : List Char) (j : Nat) :
    occursAt sub (c :: t) (j + 1) = occursAt sub t j := by
  simp only [occursAt, List.drop_succ_cons]

theorem occursAt_take (sub s : List Char) (j : Nat) (h : occursAt sub s j = true) :
    (s.drop j).take sub.length = sub := by
  unfold occursAt at h
  rw [List.isPrefixOf_iff_prefix, List.prefix_iff_eq_take] at h
  exact h.symm

theorem occursAt_le (sub s : List Char) (j : Nat) (h : occursAt sub s j = true) :
    j + sub.length ≤ s.length ∨ (sub = [] ) := by
  have h2 := congrArg List.length (occursAt_take sub s j h)
  rw [List.length_take, List.length_drop] at h2
  by_cases hs : sub = []
  · exact Or.inr hs
  · left
    have : 0 < sub.length := List.length_pos_iff.mpr hs
    omega

theorem findSub_some (sub s : List Char) (i : Nat) (h : findSub sub s = some i) :
    occursAt sub s i = true ∧ (∀ j, j < i → occursAt sub s j = false) ∧ i ≤ s.length ∧
      (s.drop i).take sub.length = sub := by
  have key : occursAt sub s i = true ∧ (∀ j, j < i → occursAt sub s j = false) ∧ i ≤ s.length := by
    induction s generalizing i with
    | nil =>
      unfold findSub at h
      split at h
      · next hs =>
        injection h with h
        subst h; subst hs
        refine ⟨?_, ?_, Nat.le_refl _⟩
        · simp only [occursAt, List.isPrefixOf]
        · intro j hj; omega
      · cases h
    | cons c t ih =>
      unfold findSub at h
      split at h
      · next hp =>
        injection h with h
        subst h
        refine ⟨?_, ?_, Nat.zero_le _⟩
        · rw [occursAt_zero]; exact hp
        · intro j hj; omega
      · next hp =>
        cases hf : findSub sub t with
        | none => rw [hf] at h; cases h
        | some i' =>
          rw [hf] at h
          simp only [Option.map_some] at h
          injection h with h
          subst h
          obtain ⟨h1, h2, h3⟩ := ih i' hf
          refine ⟨?_, ?_, ?_⟩
          · rw [occursAt_succ]; exact h1
          · intro j hj
            cases j with
            | zero =>
              rw [occursAt_zero]
              cases hb : sub.isPrefixOf (c :: t) with
              | true => exact absurd hb hp
              | false => rfl
            | succ j' =>
              rw [occursAt_succ]
              exact h2 j' (by omega)
          · simp only [List.length_cons]; omega
  exact ⟨key.1, key.2.1, key.2.2, occursAt_take sub s i key.1⟩

theorem findSub_none (sub s : List Char) :
    findSub sub s = none ↔ ∀ j, j ≤ s.length → occursAt sub s j = false := by
  induction s with
  | nil =>
    unfold findSub
    constructor
    · intro h j hj
      split at h
      · cases h
      · next hs =>
        have : j = 0 := by simp only [List.length_nil] at hj; omega
        subst this
        rw [occursAt_zero]
        cases sub with
        | nil => exact absurd rfl hs
        | cons a l => rfl
    · intro h
      split
      · next hs =>
        subst hs
        have := h 0 (Nat.le_refl _)
        simp [occursAt] at this
      · rfl
  | cons c t ih =>
    unfold findSub
    constructor
    · intro h j hj
      split at h
      · cases h
      · next hp =>
        cases hf : findSub sub t with
        | some i' => rw [hf] at h; simp only [Option.map_some] at h; cases h
        | none =>
          have h2 := ih.mp hf
          cases j with
          | zero =>
            rw [occursAt_zero]
            cases hb : sub.isPrefixOf (c :: t) with
            | true => exact absurd hb hp
            | false => rfl
          | succ j' =>
            rw [occursAt_succ]
            exact h2 j' (by simp only [List.length_cons] at hj; omega)
    · intro h
      have h0 := h 0 (Nat.zero_le _)
      rw [occursAt_zero] at h0
      rw [if_neg (by rw [h0]; exact Bool.false_ne_true)]
      have : findSub sub t = none := by
        apply ih.mpr
        intro j hj
        have := h (j + 1) (by simp only [List.length_cons]; omega)
        rw [occursAt_succ] at this
        exact this
      rw [this]
      rfl

/-! ## composite facts -/

theorem insert_slice (s ins : List Char) (i : Int) (h1 : 1 ≤ i) (h2 : i ≤ (s.length : Int) + 1) (hne : ins ≠ []) :
    sliceCore (insertCore s ins i) i (i + (ins.length : Int) - 1) = ins := by
  have hlen := length_insert s ins i
  have hpos : 0 < ins.length := List.length_pos_iff.mpr hne
  rw [slice_eq_take_drop _ i (i + (ins.length : Int) - 1) h1 (by omega) (by omega)]
  rw [insert_pos s ins i h1 h2]
  have e : (i + (ins.length : Int) - 1 - i + 1).toNat = ins.length := by omega
  rw [e, List.append_assoc]
  have hl : (s.take (i.toNat - 1)).length = i.toNat - 1 := by
    rw [List.length_take]; omega
  rw [List.drop_append_of_le_length (by omega), List.drop_of_length_le (by omega), List.nil_append]
  rw [List.take_append_of_le_length (Nat.le_refl _), List.take_length]

theorem findSub_slice (sub s : List Char) (i : Nat) (h : findSub sub s = some i) (hne : sub ≠ []) :
    sliceCore s ((i : Int) + 1) ((i : Int) + (sub.length : Int)) = sub := by
  obtain ⟨ho, _, _, ht⟩ := findSub_some sub s i h
  have hle : i + sub.length ≤ s.length := by
    cases occursAt_le sub s i ho with
    | inl h => exact h
    | inr h => exact absurd h hne
  rw [slice_eq_take_drop s _ _ (by omega) (by omega) (by omega)]
  have e1 : ((i : Int) + 1).toNat - 1 = i := by omega
  have e2 : ((i : Int) + (sub.length : Int) - ((i : Int) + 1) + 1).toNat = sub.length := by omega
  rw [e1, e2]
  exact ht

end Grass.Builtins
