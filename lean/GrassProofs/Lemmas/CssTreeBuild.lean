import Grass.CssTree
import GrassProofs.Lemmas.CssTreeBasic
import GrassProofs.Lemmas.CssTreeFinish
/-
  Helper lemmas for C04 (the visitor on the style-rule fragment, against flattenSpec).  Property theorems live in GrassProofs/C04.lean.
-/
namespace Grass.CssTree

/-! ### `addRaw` on fragment trees -/

theorem addRaw_length (t : Tree) (k : Kind) (p : Nat) : (addRaw t k p).1.length = t.length + 1 := by
  simp [addRaw]

theorem addRaw_snd (t : Tree) (k : Kind) (p : Nat) : (addRaw t k p).2 = t.length := rfl

theorem addRaw_get_new (t : Tree) (k : Kind) (p : Nat) :
    (addRaw t k p).1[t.length]? = some { stmt := some k, parent := some p, children := [] } := by
  simp [addRaw]

theorem addRaw_get_ne (t : Tree) (k : Kind) (p j : Nat) (hj : j < t.length) (hne : j ≠ p) :
    (addRaw t k p).1[j]? = t[j]? := by
  simp only [addRaw, List.getElem?_append, List.length_modify, hj, if_true, List.getElem?_modify]
  have : ¬ p = j := fun h => hne h.symm
  cases t[j]? <;> simp [this]

theorem addRaw_get_eq (t : Tree) (k : Kind) (p : Nat) (r : NodeRec) (hr : t[p]? = some r) :
    (addRaw t k p).1[p]? = some { r with children := r.children ++ [t.length] } := by
  have hp : p < t.length := by
    rcases Nat.lt_or_ge p t.length with h | h
    · exact h
    · rw [List.getElem?_eq_none h] at hr; cases hr
  simp only [addRaw, List.getElem?_append, List.length_modify, hp, if_true, List.getElem?_modify, hr]
  rfl

theorem addRaw_kindAt (t : Tree) (k : Kind) (p j : Nat) (hj : j < t.length) :
    kindAt (addRaw t k p).1 j = kindAt t j := by
  by_cases hne : j = p
  · subst hne
    have hr : t[j]? = some t[j] := by simp [hj]
    simp [kindAt, addRaw_get_eq t k j _ hr, hr]
  · simp [kindAt, addRaw_get_ne t k p j hj hne]

theorem addRaw_dv (t : Tree) (k : Kind) (p j : Nat) (hj : j < t.length) : dv (addRaw t k p).1 j = dv t j := by
  simp [dv, addRaw_kindAt t k p j hj]

theorem lt_length_of_get {α : Type} (l : List α) (i : Nat) (a : α) (h : l[i]? = some a) : i < l.length := by
  rcases Nat.lt_or_ge i l.length with h' | h'
  · exact h'
  · rw [List.getElem?_eq_none h'] at h; cases h

/-- a new style rule is added at ROOT -/
theorem wf_addRule (t : Tree) (wf : Wf t) (sel : SelList) : Wf (addRaw t (.rule sel) 0).1 := by
  have hpos := wf.pos
  refine ⟨?_, by rw [addRaw_length]; omega, ?_⟩
  · rw [addRaw_kindAt t _ 0 0 hpos]; exact wf.root
  · intro i r hi0 hr
    by_cases hi : i < t.length
    · rw [addRaw_get_ne t _ 0 i hi (by omega)] at hr
      rcases wf.node i r hi0 hr with ⟨sel', hs, hp, hch, hpw⟩ | ⟨n, v, p, hrec, hp0, hpi, rp, hrp, hmem⟩
      · refine Or.inl ⟨sel', hs, hp, ?_, hpw⟩
        intro c hc
        obtain ⟨h1, n, v, h2⟩ := hch c hc
        refine ⟨h1, n, v, ?_⟩
        rw [addRaw_get_ne t _ 0 c (lt_length_of_get _ _ _ h2) (by omega)]; exact h2
      · refine Or.inr ⟨n, v, p, hrec, hp0, hpi, rp, ?_, hmem⟩
        rw [addRaw_get_ne t _ 0 p (by omega) (by omega)]; exact hrp
    · have hlen := lt_length_of_get _ _ _ hr
      rw [addRaw_length] at hlen
      have : i = t.length := by omega
      subst this
      rw [addRaw_get_new] at hr; injection hr with hr; subst hr
      exact Or.inl ⟨sel, rfl, rfl, by simp, by simp⟩

theorem viewI_addRule (t : Tree) (wf : Wf t) (sel : SelList) :
    viewI (addRaw t (.rule sel) 0).1 = viewI t ++ [(t.length, sel, [])] := by
  unfold viewI
  rw [addRaw_length, List.range_succ, List.filterMap_append]
  congr 1
  · apply filterMap_congr'
    intro j hj
    have hj : j < t.length := by simpa using hj
    unfold viewEntry
    by_cases hj0 : j = 0
    · subst hj0
      have h1 := wf.root
      have h2 : kindAt (addRaw t (.rule sel) 0).1 0 = none := by rw [addRaw_kindAt t _ 0 0 hj]; exact h1
      simp only [kindAt] at h1 h2
      cases ha : (addRaw t (.rule sel) 0).1[0]? with
      | none => cases hb : t[0]? with
        | none => rfl
        | some rb => simp [hb] at h1; simp [h1]
      | some ra =>
        simp [ha] at h2
        cases hb : t[0]? with
        | none => simp [h2]
        | some rb => simp [hb] at h1; simp [h1, h2]
    · rw [addRaw_get_ne t _ 0 j hj hj0]
      cases hr : t[j]? with
      | none => rfl
      | some r =>
        simp only
        cases hst : r.stmt with
        | none => rfl
        | some k =>
          cases k with
          | rule sel' =>
            simp only
            congr 3
            apply List.map_congr_left
            intro c hc
            rcases wf.node j r (by omega) hr with ⟨_, _, _, hch, _⟩ | ⟨n, v, p, hrec, _⟩
            · obtain ⟨_, n, v, h2⟩ := hch c hc
              exact addRaw_dv t _ 0 c (lt_length_of_get _ _ _ h2)
            · rw [hrec] at hst; cases hst
          | decl n v => rfl
          | media q => rfl
          | supports q => rfl
          | unknown a b => rfl
  · simp [viewEntry, addRaw_get_new]

/-- entry of rule `p` gets the declarations `ds` appended -/
def ext (p : Nat) (ds : List (String × String)) (e : Nat × SelList × List (String × String)) :
    Nat × SelList × List (String × String) :=
  if e.1 = p then (e.1, e.2.1, e.2.2 ++ ds) else e

theorem wf_addDecl (t : Tree) (wf : Wf t) (p : Nat) (S : SelList) (hp0 : 0 < p)
    (hk : kindAt t p = some (.rule S)) (n v : String) : Wf (addRaw t (.decl n v) p).1 := by
  have hpos := wf.pos
  obtain ⟨rp, hrp⟩ : ∃ rp, t[p]? = some rp := by
    cases h : t[p]? with
    | none => simp [kindAt, h] at hk
    | some r => exact ⟨r, rfl⟩
  have hplt := lt_length_of_get _ _ _ hrp
  have hrps : rp.stmt = some (.rule S) := by simpa [kindAt, hrp] using hk
  refine ⟨?_, by rw [addRaw_length]; omega, ?_⟩
  · rw [addRaw_kindAt t _ p 0 hpos]; exact wf.root
  · intro i r hi0 hr
    -- declaration nodes are never `p`
    have notp : ∀ c n' v' q cs, t[c]? = some { stmt := some (.decl n' v'), parent := q, children := cs } → c ≠ p := by
      intro c n' v' q cs h hcp
      subst hcp
      rw [hrp] at h; injection h with h; subst h; cases hrps
    by_cases hi : i < t.length
    · by_cases hip : i = p
      · subst hip
        rw [addRaw_get_eq t _ i rp hrp] at hr; injection hr with hr; subst hr
        rcases wf.node i rp hi0 hrp with ⟨sel', hs, hpar, hch, hpw⟩ | ⟨n', v', p', hrec, _⟩
        · refine Or.inl ⟨sel', hs, hpar, ?_, ?_⟩
          · intro c hc
            simp only [List.mem_append, List.mem_singleton] at hc
            rcases hc with hc | hc
            · obtain ⟨h1, n', v', h2⟩ := hch c hc
              refine ⟨h1, n', v', ?_⟩
              rw [addRaw_get_ne t _ i c (lt_length_of_get _ _ _ h2) (notp c n' v' _ _ h2)]; exact h2
            · subst hc
              exact ⟨hi, n, v, addRaw_get_new t _ i⟩
          · rw [List.pairwise_append]
            refine ⟨hpw, by simp, ?_⟩
            intro a ha b hb
            simp only [List.mem_singleton] at hb; subst hb
            obtain ⟨_, n', v', h2⟩ := hch a ha
            exact lt_length_of_get _ _ _ h2
        · rw [hrec] at hrps; cases hrps
      · rw [addRaw_get_ne t _ p i hi hip] at hr
        rcases wf.node i r hi0 hr with ⟨sel', hs, hpar, hch, hpw⟩ | ⟨n', v', p', hrec, hp0', hpi, rp', hrp', hmem⟩
        · refine Or.inl ⟨sel', hs, hpar, ?_, hpw⟩
          intro c hc
          obtain ⟨h1, n', v', h2⟩ := hch c hc
          refine ⟨h1, n', v', ?_⟩
          rw [addRaw_get_ne t _ p c (lt_length_of_get _ _ _ h2) (notp c n' v' _ _ h2)]; exact h2
        · by_cases hpp : p' = p
          · subst hpp
            rw [hrp] at hrp'; injection hrp' with hrp'; subst hrp'
            exact Or.inr ⟨n', v', p', hrec, hp0', hpi, _, addRaw_get_eq t _ p' rp hrp, by simp [hmem]⟩
          · refine Or.inr ⟨n', v', p', hrec, hp0', hpi, rp', ?_, hmem⟩
            rw [addRaw_get_ne t _ p p' (by omega) hpp]; exact hrp'
    · have hlen := lt_length_of_get _ _ _ hr
      rw [addRaw_length] at hlen
      have : i = t.length := by omega
      subst this
      rw [addRaw_get_new] at hr; injection hr with hr; subst hr
      exact Or.inr ⟨n, v, p, rfl, hp0, hplt, _, addRaw_get_eq t _ p rp hrp, by simp⟩

theorem viewI_addDecl (t : Tree) (wf : Wf t) (p : Nat) (S : SelList) (hp0 : 0 < p)
    (hk : kindAt t p = some (.rule S)) (n v : String) :
    viewI (addRaw t (.decl n v) p).1 = (viewI t).map (ext p [(n, v)]) := by
  obtain ⟨rp, hrp⟩ : ∃ rp, t[p]? = some rp := by
    cases h : t[p]? with
    | none => simp [kindAt, h] at hk
    | some r => exact ⟨r, rfl⟩
  have hplt := lt_length_of_get _ _ _ hrp
  have hrps : rp.stmt = some (.rule S) := by simpa [kindAt, hrp] using hk
  have hdvnew : dv (addRaw t (.decl n v) p).1 t.length = (n, v) := by
    simp [dv, kindAt, addRaw_get_new]
  unfold viewI
  rw [addRaw_length, List.range_succ, List.filterMap_append, List.map_filterMap]
  have hlast : List.filterMap (viewEntry (addRaw t (.decl n v) p).1) [t.length] = [] := by
    simp [viewEntry, addRaw_get_new]
  rw [hlast, List.append_nil]
  apply filterMap_congr'
  intro j hj
  have hj : j < t.length := by simpa using hj
  unfold viewEntry
  by_cases hjp : j = p
  · subst hjp
    rw [addRaw_get_eq t _ j rp hrp, hrp]
    simp only [hrps, Option.map_some, ext, if_true, List.map_append, List.map_cons, List.map_nil, hdvnew]
    congr 4
    apply List.map_congr_left
    intro c hc
    rcases wf.node j rp hp0 hrp with ⟨_, _, _, hch, _⟩ | ⟨n', v', p', hrec, _⟩
    · obtain ⟨_, n', v', h2⟩ := hch c hc
      exact addRaw_dv t _ j c (lt_length_of_get _ _ _ h2)
    · rw [hrec] at hrps; cases hrps
  · rw [addRaw_get_ne t _ p j hj hjp]
    cases hr : t[j]? with
    | none => rfl
    | some r =>
      simp only
      cases hst : r.stmt with
      | none => rfl
      | some k =>
        cases k with
        | rule sel' =>
          simp only [Option.map_some, ext, if_neg hjp]
          congr 3
          apply List.map_congr_left
          intro c hc
          have hj0 : 0 < j := by
            rcases Nat.eq_zero_or_pos j with h | h
            · subst h; have := wf.root; simp [kindAt, hr, hst] at this
            · exact h
          rcases wf.node j r hj0 hr with ⟨_, _, _, hch, _⟩ | ⟨n', v', p', hrec, _⟩
          · obtain ⟨_, n', v', h2⟩ := hch c hc
            exact addRaw_dv t _ p c (lt_length_of_get _ _ _ h2)
          · rw [hrec] at hst; cases hst
        | decl n' v' => rfl
        | media q => rfl
        | supports q => rfl
        | unknown a b => rfl



/-! ### the style-rule fragment: `treeBuild` against `flattenSpec` -/

mutual
  def rulesOnly : Stmt → Bool
    | .decl _ => true
    | .rule _ body => rulesOnlyL body
    | _ => false
  def rulesOnlyL : Stmts → Bool
    | .nil => true
    | .cons s ss => rulesOnly s && rulesOnlyL ss
end

def sc (sel : Option SelList) : SCtx := { frames := [], sel := sel, exclStyle := false, inUnknown := false }
def vc (p : Option Nat) (sel : Option SelList) : VCtx :=
  { parent := p, styleRule := sel, atRootExcl := false, inUnknown := false, mq := none, mqSources := [] }

def toBlock (e : Nat × SelList × List (String × String)) : Block := { ctx := [], sel := some e.2.1, decls := e.2.2 }

def extO (p : Option Nat) (ds : List (String × String)) :
    Nat × SelList × List (String × String) → Nat × SelList × List (String × String) :=
  match p with
  | some p => ext p ds
  | none => id

/-- current parent and current style rule agree -/
def Coh (t : Tree) : Option Nat → Option SelList → Prop
  | none, none => True
  | some p, some S => 0 < p ∧ kindAt t p = some (.rule S)
  | _, _ => False

/-- what the spec says about a statement (list) vs what the visitor does to the tree -/
def Rel (t : Tree) (p : Option Nat) : SpecRes → Except Err Tree → Prop
  | .error e, r => r = .error e
  | .ok (ds, bs), r => ∃ t', r = .ok t' ∧ Wf t' ∧ t.length ≤ t'.length ∧
      (∀ j, j < t.length → kindAt t' j = kindAt t j) ∧
      ∃ new, viewI t' = (viewI t).map (extO p ds) ++ new ∧ new.map toBlock = bs ∧ ∀ e ∈ new, t.length ≤ e.1

theorem viewI_idx_lt (t : Tree) : ∀ e ∈ viewI t, e.1 < t.length := by
  intro e he
  simp only [viewI, viewEntry, List.mem_filterMap, List.mem_range] at he
  obtain ⟨j, hj, h⟩ := he
  cases hr : t[j]? with
  | none => simp [hr] at h
  | some r =>
    simp only [hr] at h
    cases hst : r.stmt with
    | none => simp [hst] at h
    | some k => cases k <;> simp [hst] at h <;> (subst h; exact hj)

theorem ext_ext (p : Nat) (a b : List (String × String)) (e : Nat × SelList × List (String × String)) :
    ext p b (ext p a e) = ext p (a ++ b) e := by
  unfold ext
  by_cases h : e.1 = p <;> simp [h]

theorem ext_nil (p : Nat) (e : Nat × SelList × List (String × String)) : ext p [] e = e := by
  obtain ⟨a, b, c⟩ := e
  unfold ext; by_cases h : a = p <;> simp [h]

theorem map_eq_self {α : Type} (f : α → α) (l : List α) (h : ∀ a ∈ l, f a = a) : l.map f = l := by
  conv => rhs; rw [← List.map_id l]
  exact List.map_congr_left (fun a ha => by simp [h a ha])

def bindT (b : Except Err Tree) (k : Tree → Except Err Tree) : Except Err Tree :=
  match b with
  | .error e => .error e
  | .ok t => k t

theorem extO_nil (p : Option Nat) (e : Nat × SelList × List (String × String)) : extO p [] e = e := by
  cases p <;> simp [extO, ext_nil]

theorem extO_extO (p : Option Nat) (a b : List (String × String)) (e : Nat × SelList × List (String × String)) :
    extO p b (extO p a e) = extO p (a ++ b) e := by
  cases p <;> simp [extO, ext_ext]

theorem ext_ne (p : Nat) (ds : List (String × String)) (e : Nat × SelList × List (String × String)) (h : e.1 ≠ p) :
    ext p ds e = e := by simp [ext, h]

theorem coh_lt (t : Tree) (p : Nat) (sel : Option SelList) (h : Coh t (some p) sel) : p < t.length := by
  cases sel with
  | none => exact absurd h (by simp [Coh])
  | some S =>
    obtain ⟨_, hk⟩ := h
    cases hr : t[p]? with
    | none => simp [kindAt, hr] at hk
    | some r => exact lt_length_of_get _ _ _ hr

theorem extO_new (t : Tree) (p : Option Nat) (sel : Option SelList) (h : Coh t p sel) (ds : List (String × String))
    (new : List (Nat × SelList × List (String × String))) (hn : ∀ e ∈ new, t.length ≤ e.1) :
    new.map (extO p ds) = new := by
  cases p with
  | none => simp [extO]
  | some p =>
    have := coh_lt t p sel h
    simp only [extO]
    conv => rhs; rw [← List.map_id new]
    apply List.map_congr_left
    intro e he
    have := hn e he
    exact ext_ne p ds e (by omega)

theorem addDecls_frag (p : Nat) (S : SelList) (hp0 : 0 < p) :
    ∀ (ds : List (String × String)) (t : Tree), Wf t → kindAt t p = some (.rule S) →
      Wf (addDecls t (some p) ds) ∧ t.length ≤ (addDecls t (some p) ds).length ∧
      (∀ j, j < t.length → kindAt (addDecls t (some p) ds) j = kindAt t j) ∧
      viewI (addDecls t (some p) ds) = (viewI t).map (ext p ds)
  | [], t, wf, _ => ⟨wf, Nat.le_refl _, fun _ _ => rfl, by
      simp only [addDecls]; exact (map_eq_self _ _ (fun e _ => ext_nil p e)).symm⟩
  | (n, v) :: ds, t, wf, hk => by
    have wf1 := wf_addDecl t wf p S hp0 hk n v
    have hp : p < t.length := by
      cases hr : t[p]? with
      | none => simp [kindAt, hr] at hk
      | some r => exact lt_length_of_get _ _ _ hr
    have hk1 : kindAt (addRaw t (.decl n v) p).1 p = some (.rule S) := by rw [addRaw_kindAt t _ p p hp]; exact hk
    obtain ⟨w, l, kk, vv⟩ := addDecls_frag p S hp0 ds (addRaw t (.decl n v) p).1 wf1 hk1
    simp only [addDecls, addStmt, Option.getD_some]
    refine ⟨w, ?_, ?_, ?_⟩
    · rw [addRaw_length] at l; omega
    · intro j hj
      rw [kk j (by rw [addRaw_length]; omega), addRaw_kindAt t _ p j hj]
    · rw [vv, viewI_addDecl t wf p S hp0 hk n v, List.map_map]
      apply List.map_congr_left
      intro e _
      simp [Function.comp, ext_ext]

theorem climb_zero (t : Tree) (th : Through) : ∀ f, climb t th f 0 = 0
  | 0 => rfl
  | f + 1 => by simp [climb]

theorem addChild_frag (deep : Bool) (t : Tree) (wf : Wf t) (p : Option Nat) (sel : Option SelList)
    (h : Coh t p sel) (k : Kind) : addChild deep t p k .styleRule = addRaw t k 0 := by
  cases p with
  | none => rfl
  | some q =>
    cases sel with
    | none => exact absurd h (by simp [Coh])
    | some S =>
      obtain ⟨hq0, hk⟩ := h
      obtain ⟨q', rfl⟩ : ∃ q', q = q' + 1 := ⟨q - 1, by omega⟩
      obtain ⟨r, hr⟩ : ∃ r, t[q' + 1]? = some r := by
        cases hh : t[q' + 1]? with
        | none => simp [kindAt, hh] at hk
        | some r => exact ⟨r, rfl⟩
      have hpar : parentOf t (q' + 1) = some 0 := by
        rcases wf.node (q' + 1) r hq0 hr with ⟨_, _, hp, _⟩ | ⟨n, v, p', hrec, _⟩
        · simp [parentOf, hr, hp]
        · simp [kindAt, hr, hrec] at hk
      have hclimb : climb t .styleRule t.length (q' + 1) = 0 := by
        obtain ⟨f, hf⟩ : ∃ f, t.length = f + 1 := ⟨t.length - 1, by have := wf.pos; omega⟩
        rw [hf]
        simp [climb, hk, hpar, Through.test, climb_zero]
      have hanc : ancestorsOf t t.length 0 = [] := by
        obtain ⟨f, hf⟩ : ∃ f, t.length = f + 1 := ⟨t.length - 1, by have := wf.pos; omega⟩
        rw [hf]; simp [ancestorsOf]
      simp only [addChild, hclimb]
      cases deep with
      | true => simp [addRawDeep, hanc]
      | false => simp [hasFollowingSibling]

theorem rel_seq (t : Tree) (p : Option Nat) (sel : Option SelList) (hc : Coh t p sel)
    (r1 r2 : SpecRes) (b1 : Except Err Tree) (k : Tree → Except Err Tree)
    (h1 : Rel t p r1 b1)
    (h2 : ∀ t1, b1 = .ok t1 → Wf t1 → t.length ≤ t1.length → (∀ j, j < t.length → kindAt t1 j = kindAt t j) →
            Rel t1 p r2 (k t1)) :
    Rel t p (seqRes r1 r2) (bindT b1 k) := by
  cases r1 with
  | error e =>
    simp only [Rel] at h1
    subst h1
    simp [seqRes, Rel, bindT]
  | ok x =>
    obtain ⟨d1, bs1⟩ := x
    obtain ⟨t1, hb, wf1, l1, k1, n1, v1, m1, i1⟩ := h1
    subst hb
    have h2' := h2 t1 rfl wf1 l1 k1
    cases r2 with
    | error e =>
      simp only [Rel] at h2'
      simp [seqRes, Rel, bindT, h2']
    | ok y =>
      obtain ⟨d2, bs2⟩ := y
      obtain ⟨t2, hb2, wf2, l2, k2, n2, v2, m2, i2⟩ := h2'
      have hc1 : Coh t1 p sel := by
        cases p with
        | none => cases sel <;> simp_all [Coh]
        | some q =>
          cases sel with
          | none => exact absurd hc (by simp [Coh])
          | some S =>
            have hq := coh_lt t q (some S) hc
            exact ⟨hc.1, by rw [k1 q hq]; exact hc.2⟩
      refine ⟨t2, by simpa [bindT] using hb2, wf2, by omega, ?_, n1 ++ n2, ?_, ?_, ?_⟩
      · intro j hj
        rw [k2 j (by omega), k1 j hj]
      · rw [v2, v1, List.map_append, List.map_map, extO_new t p sel hc d2 n1 i1, List.append_assoc]
        congr 1
        apply List.map_congr_left
        intro e _
        simp [Function.comp, extO_extO]
      · simp [m1, m2]
      · intro e he
        simp only [List.mem_append] at he
        rcases he with he | he
        · exact i1 e he
        · have := i2 e he; omega

mutual
  theorem stmt_rel (af : AsFound) : ∀ (s : Stmt), rulesOnly s = true →
      ∀ (t : Tree) (p : Option Nat) (sel : Option SelList), Wf t → Coh t p sel →
        Rel t p (specStmt (sc sel) s) (visitStmt af (vc p sel) t s)
    | .decl d, _, t, p, sel, wf, hc => by
      cases p with
      | none =>
        cases sel with
        | some S => exact absurd hc (by simp [Coh])
        | none => simp [specStmt, visitStmt, sc, vc, SCtx.ruleHere, VCtx.styleRuleExists, Rel]
      | some q =>
        cases sel with
        | none => exact absurd hc (by simp [Coh])
        | some S =>
          obtain ⟨hq0, hk⟩ := hc
          obtain ⟨w, l, kk, vv⟩ := addDecls_frag q S hq0 (declSpec [] d) t wf hk
          simp only [specStmt, visitStmt, sc, vc, SCtx.ruleHere, VCtx.styleRuleExists, Option.isSome_some,
            Bool.not_false, Bool.and_self, Bool.or_false, if_true, Bool.not_true, Bool.false_eq_true, if_false,
            Bool.false_and, Rel, visitDecl_none]
          exact ⟨_, rfl, w, l, kk, [], by simp [vv, extO], rfl, by simp⟩
    | .rule sel0 body, hro, t, p, sel, wf, hc => by
      simp only [rulesOnly] at hro
      simp only [specStmt, visitStmt, sc, vc, Bool.not_false]
      cases hres : resolveList sel true sel0 with
      | error e => simp [Rel]
      | ok sel' =>
        simp only
        rw [addChild_frag _ t wf p sel hc]
        have wf1 := wf_addRule t wf sel'
        have hc1 : Coh (addRaw t (.rule sel') 0).1 (some t.length) (some sel') :=
          ⟨wf.pos, by simp [kindAt, addRaw_get_new]⟩
        have ih := stmts_rel af body hro (addRaw t (.rule sel') 0).1 (some t.length) (some sel') wf1 hc1
        simp only [sc, vc] at ih
        cases hsp : specStmts { frames := [], sel := some sel', exclStyle := false, inUnknown := false } body with
        | error e =>
          rw [hsp] at ih
          simp only [Rel] at ih
          simp only [addRaw_snd]
          simp [wrapBlock, Rel, ih]
        | ok x =>
          obtain ⟨ds', bs'⟩ := x
          rw [hsp] at ih
          obtain ⟨t', hb, wf', l', k', new', v', m', i'⟩ := ih
          simp only [addRaw_snd, wrapBlock, Rel]
          refine ⟨t', hb, wf', by rw [addRaw_length] at l'; omega, ?_, (t.length, sel', ds') :: new', ?_, ?_, ?_⟩
          · intro j hj
            rw [k' j (by rw [addRaw_length]; omega), addRaw_kindAt t _ 0 j hj]
          · have e1 : (viewI t).map (extO (some t.length) ds') = viewI t := by
              apply map_eq_self
              intro e he
              have := viewI_idx_lt t e he
              exact ext_ne _ _ e (by omega)
            have e2 : (viewI t).map (extO p []) = viewI t := map_eq_self _ _ (fun e _ => extO_nil p e)
            have e3 : [(t.length, sel', ([] : List (String × String)))].map (extO (some t.length) ds')
                = [(t.length, sel', ds')] := by simp [extO, ext]
            rw [v', viewI_addRule t wf sel', List.map_append, e1, e2, e3]
            simp
          · simp [toBlock, m', SCtx.home, SCtx.ruleHere]
          · intro e he
            simp only [List.mem_cons] at he
            rcases he with rfl | he
            · exact Nat.le_refl _
            · have := i' e he; rw [addRaw_length] at this; omega
    | .media _ _, h, _, _, _, _, _ => by simp [rulesOnly] at h
    | .supports _ _, h, _, _, _, _, _ => by simp [rulesOnly] at h
    | .unknown _ _ _, h, _, _, _, _, _ => by simp [rulesOnly] at h
    | .atroot _ _, h, _, _, _, _, _ => by simp [rulesOnly] at h
  theorem stmts_rel (af : AsFound) : ∀ (ss : Stmts), rulesOnlyL ss = true →
      ∀ (t : Tree) (p : Option Nat) (sel : Option SelList), Wf t → Coh t p sel →
        Rel t p (specStmts (sc sel) ss) (visitStmts af (vc p sel) t ss)
    | .nil, _, t, p, sel, wf, hc => by
      simp only [specStmts, visitStmts, Rel]
      refine ⟨t, rfl, wf, Nat.le_refl _, fun _ _ => rfl, [], ?_, rfl, by simp⟩
      simp only [List.append_nil]
      exact (map_eq_self _ _ (fun e _ => extO_nil p e)).symm
    | .cons s ss, hro, t, p, sel, wf, hc => by
      simp only [rulesOnlyL, Bool.and_eq_true] at hro
      simp only [specStmts, visitStmts]
      show Rel t p _ (bindT (visitStmt af (vc p sel) t s) (fun t' => visitStmts af (vc p sel) t' ss))
      apply rel_seq t p sel hc
      · exact stmt_rel af s hro.1 t p sel wf hc
      · intro t1 _ wf1 l1 k1
        have hc1 : Coh t1 p sel := by
          cases p with
          | none => cases sel <;> simp_all [Coh]
          | some q =>
            cases sel with
            | none => exact absurd hc (by simp [Coh])
            | some S =>
              have hq := coh_lt t q (some S) hc
              exact ⟨hc.1, by rw [k1 q hq]; exact hc.2⟩
        exact stmts_rel af ss hro.2 t1 p sel wf1 hc1
end


/-! ### observation of a fragment tree -/

theorem declsIn_snoc_decl (n v : String) : ∀ b : CssList,
    declsIn (b.snoc (.mk (.decl n v) .nil)) = declsIn b ++ [(n, v)]
  | .nil => by simp [CssList.snoc, declsIn]
  | .cons (.mk k body) cs => by
    have := declsIn_snoc_decl n v cs
    cases k <;> simp [CssList.snoc, declsIn, this]

theorem declsIn_snocDecls : ∀ (ds : List (String × String)) (b : CssList),
    declsIn (snocDecls b ds) = declsIn b ++ ds
  | [], b => by simp [snocDecls]
  | (n, v) :: ds, b => by
    simp [snocDecls, declsIn_snocDecls ds, declsIn_snoc_decl]

theorem blocksOfList_snoc_decl (ctx : List Kind) (n v : String) : ∀ b : CssList,
    blocksOfList ctx (b.snoc (.mk (.decl n v) .nil)) = blocksOfList ctx b
  | .nil => by simp [CssList.snoc, blocksOfList, blocksOf]
  | .cons c cs => by
    simp [CssList.snoc, blocksOfList, blocksOfList_snoc_decl ctx n v cs]

theorem blocksOfList_snocDecls (ctx : List Kind) : ∀ (ds : List (String × String)) (b : CssList),
    blocksOfList ctx (snocDecls b ds) = blocksOfList ctx b
  | [], b => by simp [snocDecls]
  | (n, v) :: ds, b => by
    simp [snocDecls, blocksOfList_snocDecls ctx ds, blocksOfList_snoc_decl]

theorem blocksTopRules_entries (l : List (Nat × SelList × List (String × String))) :
    blocksTopRules (l.map entryCss) = l.map toBlock ∧ topDecls (l.map entryCss) = [] := by
  induction l with
  | nil => simp [blocksTopRules, topDecls]
  | cons e es ih =>
    simp only [List.map_cons, blocksTopRules, entryCss, blocksOf, topDecls, ih.1, ih.2, declsIn_snocDecls,
      blocksOfList_snocDecls, blocksOfList, declsIn, toBlock]
    simp

theorem observeTree_wf (t : Tree) (wf : Wf t) :
    observeTree t = .ok (((viewI t).map toBlock).filter Block.nonEmpty) := by
  unfold observeTree
  rw [finish_wf t wf]
  simp only
  rw [blocksTop_emitTop]
  have := blocksTopRules_entries (viewI t)
  simp [blocksTop, this.1, this.2, Block.nonEmpty]

theorem wf_init : Wf Tree.init := by
  refine ⟨rfl, by simp [Tree.init], ?_⟩
  intro i r hi hr
  simp only [Tree.init] at hr
  rw [List.getElem?_eq_none (by simp; omega)] at hr
  cases hr

theorem viewI_init : viewI Tree.init = [] := by
  simp [viewI, viewEntry, Tree.init, List.range_succ]

/-- The fragment theorem, for every variant of the visitor. -/
theorem compile_eq_flattenSpec_rules (af : AsFound) (src : Stmts) (h : rulesOnlyL src = true) :
    compile af src = flattenSpec src := by
  have rel := stmts_rel af src h Tree.init none none wf_init trivial
  unfold compile treeBuild flattenSpec
  change Rel Tree.init none (specStmts SCtx.init src) (visitStmts af VCtx.init Tree.init src) at rel
  cases hs : specStmts SCtx.init src with
  | error e =>
    rw [hs] at rel
    simp only [Rel] at rel
    rw [rel]; rfl
  | ok x =>
    obtain ⟨ds, bs⟩ := x
    rw [hs] at rel
    obtain ⟨t', hb, wf', _, _, new, v, m, _⟩ := rel
    rw [hb]
    simp only [observe]
    rw [observeTree_wf t' wf', v, viewI_init]
    simp [m]

/-! ### a body made of declarations only -/

def declStmts : Decls → Stmts
  | .nil => .nil
  | .cons d ds => .cons (.decl d) (declStmts ds)

theorem rulesOnlyL_declStmts : ∀ ds : Decls, rulesOnlyL (declStmts ds) = true
  | .nil => rfl
  | .cons d ds => by simp [declStmts, rulesOnlyL, rulesOnly, rulesOnlyL_declStmts ds]

theorem specStmts_declStmts (c : SCtx) (h : (c.ruleHere || c.inUnknown) = true) : ∀ ds : Decls,
    specStmts c (declStmts ds) = .ok (declsSpec [] ds, [])
  | .nil => by simp [declStmts, specStmts, declsSpec]
  | .cons d ds => by
    simp [declStmts, specStmts, specStmt, h, specStmts_declStmts c h ds, seqRes, declsSpec]

end Grass.CssTree
