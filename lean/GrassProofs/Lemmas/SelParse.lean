import Grass.Selector
/-
  Round trip of the model's printer and parser (`parseSelList (renderList l) = some l`),
  selectors without selector pseudos.
-/
namespace Grass.Selector

/-- identifiers the printer can emit and the parser reads back -/
def validName (n : Name) : Prop :=
  (∃ c cs, n = c :: cs ∧ isIdentStart c = true) ∧ n.all isIdentChar = true

/-- the text after a token does not continue it -/
def NoIdent (rest : List Char) : Prop := ∀ c cs, rest = c :: cs → isIdentChar c = false
def Stop (rest : List Char) : Prop := ∀ c cs, rest = c :: cs → isIdentChar c = false ∧ c ≠ '('

theorem spanIdent_app : ∀ (n rest : List Char), n.all isIdentChar = true → NoIdent rest →
    spanIdent (n ++ rest) = (n, rest) := by
  intro n
  induction n with
  | nil =>
    intro rest _ h
    cases rest with
    | nil => rfl
    | cons c cs => simp [spanIdent, h c cs rfl]
  | cons c cs ih =>
    intro rest hn h
    simp only [List.all_cons, Bool.and_eq_true] at hn
    simp [spanIdent, hn.1, ih rest hn.2 h]

theorem pIdent_app (n rest : List Char) (hn : validName n) (h : NoIdent rest) :
    pIdent (n ++ rest) = some (n, rest) := by
  obtain ⟨⟨c, cs, e, hc⟩, hall⟩ := hn
  subst e
  have := spanIdent_app (c :: cs) rest hall h
  simp only [List.cons_append] at this ⊢
  simp [pIdent, hc, this]

theorem Stop.noIdent {rest : List Char} (h : Stop rest) : NoIdent rest := fun c cs e => (h c cs e).1

theorem identStart_facts {c : Char} (h : isIdentStart c = true) :
    c ≠ '*' ∧ c ≠ '.' ∧ c ≠ '#' ∧ c ≠ '%' ∧ c ≠ '[' ∧ c ≠ '&' ∧ c ≠ ':' ∧ c ≠ '>' ∧ c ≠ '+' ∧ c ≠ '~' ∧
    c ≠ '"' ∧ c ≠ '\'' ∧ isWs c = false ∧ isIdentChar c = true := by
  refine ⟨?_, ?_, ?_, ?_, ?_, ?_, ?_, ?_, ?_, ?_, ?_, ?_, ?_, ?_⟩
  all_goals first
    | (intro e; subst e; revert h; decide)
    | skip
  · simp only [isIdentStart, Bool.or_eq_true, beq_iff_eq] at h
    simp only [isWs, Bool.or_eq_false_iff, beq_eq_false_iff_ne, ne_eq]
    refine ⟨⟨⟨?_, ?_⟩, ?_⟩, ?_⟩ <;> (intro e; subst e; revert h; decide)
  · simp only [isIdentStart, Bool.or_eq_true, beq_iff_eq] at h
    simp only [isIdentChar, Bool.or_eq_true, beq_iff_eq]
    rcases h with (h | h) | h
    · left; left; simp [Char.isAlphanum, h]
    · left; right; exact h
    · right; exact h


/-- the simple selectors covered by the round-trip theorem (no selector pseudo, no `&`; attribute
    values are bare identifiers without modifier) -/
def wfS : Simple → Prop
  | .univ => True
  | .type n => validName n
  | .cls n => validName n
  | .id n => validName n
  | .placeholder n => validName n
  | .pelem n => validName n
  | .pclass n => validName n ∧ isFakePelem n = false
  | .attr n none => validName n
  | .attr n (some v) => validName n ∧ validName v
  | .parent _ => False
  | .sel _ _ => False

theorem validName_head {n : Name} (h : validName n) : ∃ c cs, n = c :: cs ∧ isIdentStart c = true := h.1

theorem skipWs_ident {n rest : List Char} (h : validName n) : skipWs (n ++ rest) = n ++ rest := by
  obtain ⟨c, cs, e, hc⟩ := h.1
  subst e
  simp [skipWs, (identStart_facts hc).2.2.2.2.2.2.2.2.2.2.2.2.1]

theorem takeWhile_all {α : Type} (pr : α → Bool) : ∀ (l : List α), (∀ x ∈ l, pr x = true) → l.takeWhile pr = l := by
  intro l
  induction l with
  | nil => intro _; rfl
  | cons x xs ih => intro h; simp [List.takeWhile, h x (by simp), ih (fun y hy => h y (by simp [hy]))]

theorem dropWhile_all {α : Type} (pr : α → Bool) : ∀ (l : List α), (∀ x ∈ l, pr x = true) → l.dropWhile pr = [] := by
  intro l
  induction l with
  | nil => intro _; rfl
  | cons x xs ih => intro h; simp [List.dropWhile, h x (by simp), ih (fun y hy => h y (by simp [hy]))]

theorem attrValueText_valid {v : Name} (h : validName v) : attrValueText v = v := by
  obtain ⟨⟨c, cs, e, hc⟩, hall⟩ := h
  have h1 : ∀ x ∈ v, notMark x = true := by
    intro x hx
    have := (List.all_eq_true.1 hall) x hx
    simp only [notMark, bne_iff_ne, ne_eq]
    intro e1; subst e1; revert this; decide
  have hid : (v.all isIdentCharB && (v.head?.map isIdentStartB).getD false) = true := by
    subst e
    simp only [List.head?_cons, Option.map_some, Option.getD_some, Bool.and_eq_true]
    exact ⟨hall, hc⟩
  unfold attrValueText
  rw [takeWhile_all _ v h1, dropWhile_all _ v h1]
  simp only [hid]
  simp

theorem pSimple_type_head (c : Char) (cs : List Char) (f : Nat) (hc : isIdentStart c = true) :
    pSimple (f + 1) (c :: cs) = (pIdent (c :: cs)).map fun (n, r') => (Simple.type n, r') := by
  have hf := identStart_facts hc
  unfold pSimple
  split
  · rename_i heq; injection heq with h _; exact absurd h hf.1
  · rename_i heq; injection heq with h _; exact absurd h hf.2.1
  · rename_i heq; injection heq with h _; exact absurd h hf.2.2.1
  · rename_i heq; injection heq with h _; exact absurd h hf.2.2.2.1
  · rename_i heq; injection heq with h _; exact absurd h hf.2.2.2.2.1
  · rename_i heq; injection heq with h _; exact absurd h hf.2.2.2.2.2.1
  · rename_i heq; injection heq with h _; exact absurd h hf.2.2.2.2.2.2.1
  · rename_i heq; injection heq with h _; exact absurd h hf.2.2.2.2.2.2.1
  · rename_i heq
    injection heq with h1 h2
    subst h1 h2
    simp [hc]
  · rename_i heq; cases heq

theorem pSimple_colon (c : Char) (cs : List Char) (f : Nat) (hc : c ≠ ':') :
    pSimple (f + 1) (':' :: c :: cs) =
      match pIdent (c :: cs) with
      | some (n, '(' :: r') =>
        match pnameOf n with
        | none => none
        | some k =>
          match pList f (skipWs r') with
          | some (l, r'') =>
            match skipWs r'', normAll l with
            | ')' :: r3, some args => some (.sel k args, r3)
            | _, _ => none
          | none => none
      | some (n, r') => if isFakePelem n then some (.pelem n, r') else some (.pclass n, r')
      | none => none := by
  unfold pSimple
  split
  · rename_i heq; injection heq with h _; cases h
  · rename_i heq; injection heq with h _; cases h
  · rename_i heq; injection heq with h _; cases h
  · rename_i heq; injection heq with h _; cases h
  · rename_i heq; injection heq with h _; cases h
  · rename_i heq; injection heq with h _; cases h
  · rename_i heq
    injection heq with _ h2; injection h2 with h3 _
    exact absurd h3 hc
  · rename_i r hneg heq
    injection heq with _ h2
    subst h2
    rfl
  · exfalso
    rename_i hne heq
    injection heq with h1 _
    exact hne h1.symm
  · rename_i heq; cases heq

theorem pSimple_app (s : Simple) (rest : List Char) (hs : wfS s) (hr : Stop rest) (f : Nat) :
    pSimple (f + 1) (renderS s ++ rest) = some (s, rest) := by
  cases s with
  | univ => simp [renderS, pSimple]
  | type n =>
    obtain ⟨c, cs, e, hc⟩ := validName_head hs
    have hp := pIdent_app n rest hs hr.noIdent
    subst e
    simp only [renderS, List.cons_append] at hp ⊢
    rw [pSimple_type_head _ _ _ hc, hp]
    rfl
  | cls n => simp [renderS, pSimple, pIdent_app n rest hs hr.noIdent]
  | id n => simp [renderS, pSimple, pIdent_app n rest hs hr.noIdent]
  | placeholder n => simp [renderS, pSimple, pIdent_app n rest hs hr.noIdent]
  | pelem n =>
    have hp := pIdent_app n rest hs hr.noIdent
    simp only [renderS, List.cons_append, pSimple, hp]
    cases rest with
    | nil => rfl
    | cons d ds =>
      have := (hr d ds rfl).2
      split
      · rename_i heq; injection heq with h1; injection h1 with _ h2; injection h2 with h3; exact absurd h3 this
      · rename_i heq; injection heq with h1; injection h1 with h2 h3; subst h2 h3; rfl
      · rename_i heq; cases heq
  | pclass n =>
    obtain ⟨c, cs, e, hc⟩ := validName_head hs.1
    have hf := identStart_facts hc
    have hp := pIdent_app n rest hs.1 hr.noIdent
    subst e
    simp only [renderS, List.cons_append] at hp ⊢
    rw [pSimple_colon _ _ _ hf.2.2.2.2.2.2.1, hp]
    cases rest with
    | nil => simp [hs.2]
    | cons d ds =>
      have := (hr d ds rfl).2
      split
      · rename_i heq2; injection heq2 with h1; injection h1 with _ h2; injection h2 with h3; exact absurd h3 this
      · rename_i heq2; injection heq2 with h1; injection h1 with h2 h3; subst h2 h3; simp [hs.2]
      · rename_i heq2; cases heq2
  | attr n v =>
    cases v with
    | none =>
      have hn : validName n := hs
      have hp := pIdent_app n (']' :: rest) hn (by intro c cs e; injection e with e1 _; subst e1; decide)
      simp only [renderS, List.cons_append, List.append_assoc, List.nil_append, pSimple, pAttr, skipWs_ident hn]
      rw [hp]
      simp [skipWs, isWs]
    | some v =>
      have hn : validName n := hs.1
      have hv : validName v := hs.2
      obtain ⟨c, cs, e, hc⟩ := validName_head hv
      have hf := identStart_facts hc
      have hp := pIdent_app n ('=' :: (v ++ ']' :: rest)) hn (by intro c cs e; injection e with e1 _; subst e1; decide)
      have hpv := pIdent_app v (']' :: rest) hv (by intro c cs e; injection e with e1 _; subst e1; decide)
      have hno : v.contains '\x01' = false := by
        cases hcn : v.contains '\x01' with
        | false => rfl
        | true =>
          have hm : '\x01' ∈ v := by simpa using hcn
          have := (List.all_eq_true.1 hv.2) _ hm
          revert this; decide
      simp only [renderS, attrValueText_valid hv, List.cons_append, List.append_assoc, List.nil_append, pSimple, pAttr,
        skipWs_ident hn]
      rw [hp]
      dsimp only
      have e1 : skipWs ('=' :: (v ++ ']' :: rest)) = '=' :: (v ++ ']' :: rest) := by simp [skipWs, isWs]
      rw [e1]
      split
      · rename_i heq; injection heq with h _; exact absurd h (by decide)
      · rename_i r' heq
        injection heq with _ h2
        subst h2
        rw [skipWs_ident hv]
        subst e
        simp only [List.cons_append] at hpv ⊢
        have hval : (match c :: (cs ++ ']' :: rest) with
            | '"' :: r'' => spanUntilQuote '"' r''
            | '\'' :: r'' => spanUntilQuote '\'' r''
            | _ => pIdent (c :: (cs ++ ']' :: rest))) = some (c :: cs, ']' :: rest) := by
          split
          · rename_i heq; injection heq with h1; exact absurd h1 hf.2.2.2.2.2.2.2.2.2.2.1
          · rename_i heq; injection heq with h1; exact absurd h1 hf.2.2.2.2.2.2.2.2.2.2.2.1
          · exact hpv
        split
        · rename_i v' r'' heq
          have h3 := hval.symm.trans heq
          injection h3 with h3; injection h3 with h4 h5
          subst h4 h5
          simp only [hno]
          simp [skipWs, isWs]
        · rename_i heq
          have h3 := hval.symm.trans heq
          cases h3
      · rename_i h1 h2
        exact absurd rfl (h2 _)
  | parent x => exact hs.elim
  | sel k a => exact hs.elim


/-! ### compounds -/

/-- simple selectors that may follow the first one of a compound -/
def tailOK : Simple → Prop
  | .univ => False
  | .type _ => False
  | _ => True

def wfC : Compound → Prop
  | [] => False
  | s :: ss => wfS s ∧ ∀ t ∈ ss, wfS t ∧ tailOK t

/-- the text after a compound: not an identifier character, not `(`, not the start of a simple
    selector, not `&`/`*` -/
def StopC (rest : List Char) : Prop :=
  ∀ c cs, rest = c :: cs → isIdentChar c = false ∧ c ≠ '(' ∧ isSimpleStart c = false ∧ c ≠ '&' ∧ c ≠ '*'

theorem StopC.stop {rest : List Char} (h : StopC rest) : Stop rest :=
  fun c cs e => ⟨(h c cs e).1, (h c cs e).2.1⟩

theorem renderS_head (s : Simple) (hs : wfS s) (ht : tailOK s) :
    ∃ c cs, renderS s = c :: cs ∧ isSimpleStart c = true ∧ isIdentChar c = false ∧ c ≠ '(' := by
  cases s with
  | univ => exact ht.elim
  | type n => exact ht.elim
  | cls n => exact ⟨'.', n, rfl, by decide, by decide, by decide⟩
  | id n => exact ⟨'#', n, rfl, by decide, by decide, by decide⟩
  | placeholder n => exact ⟨'%', n, rfl, by decide, by decide, by decide⟩
  | pclass n => exact ⟨':', n, rfl, by decide, by decide, by decide⟩
  | pelem n => exact ⟨':', ':' :: n, rfl, by decide, by decide, by decide⟩
  | attr n v =>
    cases v with
    | none => exact ⟨'[', n ++ [']'], rfl, by decide, by decide, by decide⟩
    | some v => exact ⟨'[', n ++ '=' :: attrValueText v ++ [']'], rfl, by decide, by decide, by decide⟩
  | parent x => exact hs.elim
  | sel k a => exact hs.elim

theorem stop_of_tail (ss : Compound) (rest : List Char) (hss : ∀ t ∈ ss, wfS t ∧ tailOK t) (hr : StopC rest) :
    Stop (renderC ss ++ rest) := by
  cases ss with
  | nil => simpa [renderC] using hr.stop
  | cons t ts =>
    obtain ⟨c, cs, e, _, h2, h3⟩ := renderS_head t (hss t (by simp)).1 (hss t (by simp)).2
    intro d ds hd
    simp only [renderC, e, List.cons_append, List.append_assoc] at hd
    injection hd with h _
    subst h
    exact ⟨h2, h3⟩

theorem pCompoundRest_app : ∀ (ss : Compound) (rest : List Char),
    (∀ t ∈ ss, wfS t ∧ tailOK t) → StopC rest → ∀ f, ss.length < f →
    pCompoundRest f (renderC ss ++ rest) = some (ss, rest) := by
  intro ss
  induction ss with
  | nil =>
    intro rest _ hr f hf
    obtain ⟨f, rfl⟩ : ∃ g, f = g + 1 := ⟨f - 1, by omega⟩
    simp only [renderC, List.nil_append]
    unfold pCompoundRest
    cases rest with
    | nil => rfl
    | cons c cs =>
      obtain ⟨_, _, h3, h4, h5⟩ := hr c cs rfl
      simp [h3, h4, h5]
  | cons t ts ih =>
    intro rest hss hr f hf
    obtain ⟨f, rfl⟩ : ∃ g, f = g + 1 := ⟨f - 1, by simp only [List.length_cons] at hf; omega⟩
    obtain ⟨f, rfl⟩ : ∃ g, f = g + 1 := ⟨f - 1, by simp only [List.length_cons] at hf; omega⟩
    have ht := hss t (by simp)
    have hts : ∀ u ∈ ts, wfS u ∧ tailOK u := fun u hu => hss u (by simp [hu])
    obtain ⟨c, cs, e, h1, _, _⟩ := renderS_head t ht.1 ht.2
    have hps := pSimple_app t (renderC ts ++ rest) ht.1 (stop_of_tail ts rest hts hr) f
    have hrec := ih rest hts hr (f + 1) (by simp only [List.length_cons] at hf; omega)
    simp only [renderC, List.append_assoc] at hps ⊢
    unfold pCompoundRest
    rw [e] at hps ⊢
    simp only [List.cons_append, h1, if_true] at hps ⊢
    rw [hps]
    simp only [hrec, Option.map_some]

theorem pCompound_app (c : Compound) (rest : List Char) (hc : wfC c) (hr : StopC rest) (f : Nat)
    (hf : c.length < f) : pCompound f (renderC c ++ rest) = some (c, rest) := by
  cases c with
  | nil => exact hc.elim
  | cons s ss =>
    obtain ⟨f, rfl⟩ : ∃ g, f = g + 1 := ⟨f - 1, by simp only [List.length_cons] at hf; omega⟩
    obtain ⟨f, rfl⟩ : ∃ g, f = g + 1 := ⟨f - 1, by simp only [List.length_cons] at hf; omega⟩
    have hps := pSimple_app s (renderC ss ++ rest) hc.1 (stop_of_tail ss rest hc.2 hr) f
    have hrec := pCompoundRest_app ss rest hc.2 hr (f + 1) (by simp only [List.length_cons] at hf; omega)
    simp only [renderC, List.append_assoc] at hps ⊢
    unfold pCompound
    rw [hps]
    simp only [hrec, Option.map_some]


/-! ### complex selectors and lists -/

def wfX (x : Complex) : Prop := ∀ c, Component.compound c ∈ x → wfC c

def StopX (rest : List Char) : Prop := rest = [] ∨ ∃ r, rest = ',' :: r ∨ rest = ')' :: r

def needX : Complex → Nat
  | [] => 1
  | .comb _ :: xs => needX xs + 1
  | .compound c :: xs => needX xs + c.length + 2

theorem needX_pos : ∀ (x : Complex), 1 ≤ needX x := by
  intro x
  induction x with
  | nil => simp [needX]
  | cons cp xs ih => cases cp <;> simp only [needX] <;> omega

def tailText (tail : Complex) (rest : List Char) : List Char :=
  match tail with
  | [] => rest
  | _ :: _ => ' ' :: (renderComplex tail ++ rest)

theorem renderComplex_cons (cp : Component) (tail : Complex) (rest : List Char) :
    renderComplex (cp :: tail) ++ rest = renderComponent cp ++ tailText tail rest := by
  cases tail with
  | nil => simp [renderComplex, tailText]
  | cons d xs => simp [renderComplex, tailText]

theorem pComplexRest_space (f : Nat) (cs : List Char) : pComplexRest (f + 1) (' ' :: cs) = pComplexRest (f + 1) cs := by
  unfold pComplexRest
  simp [skipWs, isWs]

theorem pComplexRest_tailText (f : Nat) (tail : Complex) (rest : List Char) :
    pComplexRest (f + 1) (tailText tail rest) = pComplexRest (f + 1) (renderComplex tail ++ rest) := by
  cases tail with
  | nil => simp [tailText, renderComplex]
  | cons d xs => simp only [tailText]; exact pComplexRest_space f _

theorem StopC_tailText (tail : Complex) (rest : List Char) (hr : StopX rest) : StopC (tailText tail rest) := by
  intro c cs e
  cases tail with
  | nil =>
    simp only [tailText] at e
    rcases hr with h | ⟨r, h | h⟩
    · rw [h] at e; cases e
    · rw [h] at e; injection e with e1 _; subst e1; decide
    · rw [h] at e; injection e with e1 _; subst e1; decide
  | cons d xs =>
    simp only [tailText] at e
    injection e with e1 _; subst e1; decide

theorem renderC_head (c : Compound) (hc : wfC c) :
    ∃ h t, renderC c = h :: t ∧ isWs h = false ∧ h ≠ '>' ∧ h ≠ '+' ∧ h ≠ '~' ∧
      (isSimpleStart h || h == '&' || h == '*' || isIdentStart h) = true := by
  cases c with
  | nil => exact hc.elim
  | cons s ss =>
    have hs := hc.1
    cases s with
    | univ => exact ⟨'*', renderC ss, rfl, by decide, by decide, by decide, by decide, by decide⟩
    | type n =>
      obtain ⟨c, cs, e, hi⟩ := validName_head hs
      have hf := identStart_facts hi
      subst e
      exact ⟨c, cs ++ renderC ss, by simp [renderC, renderS], hf.2.2.2.2.2.2.2.2.2.2.2.2.1, hf.2.2.2.2.2.2.2.1,
        hf.2.2.2.2.2.2.2.2.1, hf.2.2.2.2.2.2.2.2.2.1, by simp [hi]⟩
    | cls n => exact ⟨'.', n ++ renderC ss, by simp [renderC, renderS], by decide, by decide, by decide, by decide, by decide⟩
    | id n => exact ⟨'#', n ++ renderC ss, by simp [renderC, renderS], by decide, by decide, by decide, by decide, by decide⟩
    | placeholder n => exact ⟨'%', n ++ renderC ss, by simp [renderC, renderS], by decide, by decide, by decide, by decide, by decide⟩
    | pclass n => exact ⟨':', n ++ renderC ss, by simp [renderC, renderS], by decide, by decide, by decide, by decide, by decide⟩
    | pelem n => exact ⟨':', ':' :: n ++ renderC ss, by simp [renderC, renderS], by decide, by decide, by decide, by decide, by decide⟩
    | attr n v =>
      cases v with
      | none => exact ⟨'[', n ++ [']'] ++ renderC ss, by simp [renderC, renderS], by decide, by decide, by decide, by decide, by decide⟩
      | some v => exact ⟨'[', n ++ '=' :: attrValueText v ++ [']'] ++ renderC ss, by simp [renderC, renderS], by decide, by decide, by decide, by decide, by decide⟩
    | parent x => exact hs.elim
    | sel k a => exact hs.elim

theorem pComplexRest_app : ∀ (x : Complex) (rest : List Char), wfX x → StopX rest → ∀ f, needX x ≤ f →
    pComplexRest f (renderComplex x ++ rest) = some (x, rest) := by
  intro x
  induction x with
  | nil =>
    intro rest _ hr f hf
    obtain ⟨f, rfl⟩ : ∃ g, f = g + 1 := ⟨f - 1, by simp only [needX] at hf; omega⟩
    simp only [renderComplex, List.nil_append]
    unfold pComplexRest
    rcases hr with h | ⟨r, h | h⟩ <;> subst h <;> simp [skipWs, isWs, isSimpleStart, isIdentStart]
  | cons cp tail ih =>
    intro rest hx hr f hf
    have htail : wfX tail := fun c hc => hx c (List.mem_cons_of_mem _ hc)
    rw [renderComplex_cons]
    cases cp with
    | comb cb =>
      obtain ⟨f, rfl⟩ : ∃ g, f = g + 1 := ⟨f - 1, by simp only [needX] at hf; omega⟩
      obtain ⟨f, rfl⟩ : ∃ g, f = g + 1 := ⟨f - 1, by simp only [needX] at hf; have := needX_pos tail; omega⟩
      have hrec := ih rest htail hr (f + 1) (by simp only [needX] at hf; omega)
      rw [← pComplexRest_tailText] at hrec
      unfold pComplexRest
      cases cb <;> simp [renderComponent, skipWs, isWs, hrec]
    | compound c =>
      have hc : wfC c := hx c (by simp)
      obtain ⟨f, rfl⟩ : ∃ g, f = g + 1 := ⟨f - 1, by simp only [needX] at hf; omega⟩
      obtain ⟨f, rfl⟩ : ∃ g, f = g + 1 := ⟨f - 1, by simp only [needX] at hf; have := needX_pos tail; omega⟩
      have hrec := ih rest htail hr (f + 1) (by simp only [needX] at hf; omega)
      rw [← pComplexRest_tailText] at hrec
      have hpc := pCompound_app c (tailText tail rest) hc (StopC_tailText tail rest hr) (f + 1)
        (by simp only [needX] at hf; have := needX_pos tail; omega)
      obtain ⟨h, t, e, h1, h2, h3, h4, h5⟩ := renderC_head c hc
      simp only [renderComponent]
      unfold pComplexRest
      rw [e] at hpc ⊢
      simp only [List.cons_append] at hpc ⊢
      simp only [skipWs, h1, Bool.false_eq_true, if_false]
      split
      · simp only [hpc, hrec, Option.map_some]
      · rename_i hneg; exact absurd h5 hneg


def needL : SelList → Nat
  | [] => 1
  | x :: l => needX x + needL l + 1

def wfL (l : SelList) : Prop := l ≠ [] ∧ ∀ x ∈ l, wfX x ∧ x ≠ []

def StopL (rest : List Char) : Prop := rest = [] ∨ ∃ r, rest = ')' :: r

theorem pList_space (f : Nat) (cs : List Char) : pList (f + 2) (' ' :: cs) = pList (f + 2) cs := by
  unfold pList
  rw [pComplexRest_space]

theorem pList_app : ∀ (l : SelList) (rest : List Char), wfL l → StopL rest → ∀ f, needL l ≤ f →
    pList f (renderList l ++ rest) = some (l, rest) := by
  intro l
  induction l with
  | nil => intro rest h; exact absurd rfl h.1
  | cons x tl ih =>
    intro rest hl hr f hf
    have hx := hl.2 x (by simp)
    have hnx := needX_pos x
    obtain ⟨f, rfl⟩ : ∃ g, f = g + 1 := ⟨f - 1, by simp only [needL] at hf; omega⟩
    cases tl with
    | nil =>
      simp only [renderList]
      have hsx : StopX rest := by
        rcases hr with h | ⟨r, h⟩
        · exact Or.inl h
        · exact Or.inr ⟨r, Or.inr h⟩
      have hp := pComplexRest_app x rest hx.1 hsx f (by simp only [needL] at hf; omega)
      unfold pList
      rw [hp]
      have hne : x.isEmpty = false := by cases x <;> simp_all
      simp only [hne, Bool.false_eq_true, if_false]
      rcases hr with h | ⟨r, h⟩ <;> subst h <;> simp [skipWs, isWs]
    | cons y ys =>
      have htl : wfL (y :: ys) := ⟨by simp, fun z hz => hl.2 z (List.mem_cons_of_mem _ hz)⟩
      have hny := needX_pos y
      simp only [renderList, List.append_assoc, List.cons_append]
      have hp := pComplexRest_app x (',' :: ' ' :: (renderList (y :: ys) ++ rest)) hx.1 (Or.inr ⟨_, Or.inl rfl⟩) f
        (by simp only [needL] at hf; omega)
      obtain ⟨f, rfl⟩ : ∃ g, f = g + 2 := ⟨f - 2, by simp only [needL] at hf; omega⟩
      have hrec := ih rest htl hr (f + 2) (by simp only [needL] at hf ⊢; omega)
      unfold pList
      rw [hp]
      have hne : x.isEmpty = false := by cases x <;> simp_all
      simp only [hne, Bool.false_eq_true, if_false]
      simp only [skipWs, isWs]
      simp only [show ((',' == ' ' || ',' == '\n' || ',' == '\t' || ',' == '\r') = true) = False by decide, if_false]
      rw [pList_space, hrec]
      rfl

/-! ### the fuel `parseSelList` gives is enough -/

theorem renderS_len (s : Simple) (hs : wfS s) : 1 ≤ (renderS s).length := by
  cases s with
  | univ => simp [renderS]
  | type n => obtain ⟨c, cs, e, _⟩ := validName_head hs; subst e; simp [renderS]
  | cls n => simp [renderS]
  | id n => simp [renderS]
  | placeholder n => simp [renderS]
  | pclass n => simp [renderS]
  | pelem n => simp [renderS]
  | attr n v => cases v <;> simp [renderS]
  | parent x => exact hs.elim
  | sel k a => exact hs.elim

theorem renderC_len : ∀ (c : Compound), (∀ s ∈ c, wfS s) → c.length ≤ (renderC c).length := by
  intro c
  induction c with
  | nil => intro _; simp
  | cons s ss ih =>
    intro h
    have := renderS_len s (h s (by simp))
    have := ih (fun t ht => h t (by simp [ht]))
    simp only [renderC, List.length_cons, List.length_append]; omega

theorem wfC_all {c : Compound} (h : wfC c) : (∀ s ∈ c, wfS s) ∧ 1 ≤ c.length := by
  cases c with
  | nil => exact h.elim
  | cons s ss =>
    refine ⟨?_, by simp⟩
    intro t ht
    rcases List.mem_cons.1 ht with e | e
    · subst e; exact h.1
    · exact (h.2 t e).1

theorem needX_le : ∀ (x : Complex), wfX x → needX x ≤ 3 * (renderComplex x).length + 1 := by
  intro x
  induction x with
  | nil => intro _; simp [needX]
  | cons cp tail ih =>
    intro hx
    have htail := ih (fun c hc => hx c (List.mem_cons_of_mem _ hc))
    have hlen : (renderComplex (cp :: tail)).length ≥ (renderComponent cp).length + (renderComplex tail).length := by
      cases tail with
      | nil => simp [renderComplex]
      | cons d xs => simp only [renderComplex, List.length_append, List.length_cons]; omega
    cases cp with
    | comb cb =>
      have : (renderComponent (.comb cb)).length = 1 := by cases cb <;> rfl
      simp only [needX]; omega
    | compound c =>
      obtain ⟨h1, h2⟩ := wfC_all (hx c (by simp))
      have := renderC_len c h1
      simp only [needX, renderComponent] at hlen ⊢; omega

theorem renderComplex_pos (x : Complex) (hx : wfX x) (hne : x ≠ []) : 1 ≤ (renderComplex x).length := by
  cases x with
  | nil => exact absurd rfl hne
  | cons cp tail =>
    have hlen : (renderComplex (cp :: tail)).length ≥ (renderComponent cp).length := by
      cases tail with
      | nil => simp [renderComplex]
      | cons d xs => simp only [renderComplex, List.length_append, List.length_cons]; omega
    cases cp with
    | comb cb =>
      have : (renderComponent (.comb cb)).length = 1 := by cases cb <;> rfl
      omega
    | compound c =>
      obtain ⟨h1, h2⟩ := wfC_all (hx c (by simp))
      have := renderC_len c h1
      simp only [renderComponent] at hlen; omega

theorem needL_le : ∀ (l : SelList), (∀ x ∈ l, wfX x ∧ x ≠ []) → needL l ≤ 8 * (renderList l).length + 1 := by
  intro l
  induction l with
  | nil => intro _; simp [needL]
  | cons x tl ih =>
    intro h
    have htl := ih (fun z hz => h z (List.mem_cons_of_mem _ hz))
    have hx := needX_le x (h x (by simp)).1
    have hpos := renderComplex_pos x (h x (by simp)).1 (h x (by simp)).2
    have hlen : (renderList (x :: tl)).length ≥ (renderComplex x).length + (renderList tl).length := by
      cases tl with
      | nil => simp [renderList]
      | cons y ys => simp only [renderList, List.length_append, List.length_cons]; omega
    simp only [needL]; omega

/-- well-formed selector lists of the round-trip theorem: non-empty list of non-empty complexes whose
    compounds are non-empty, start with any simple selector and continue with non-type ones, names
    are identifiers; no selector pseudo, no `&`, attribute values bare identifiers -/
theorem parse_render (l : SelList) (hl : wfL l) : parseSelList (renderList l) = some l := by
  have h := pList_app l [] hl (Or.inl rfl) (8 * (renderList l).length + 16)
    (by have := needL_le l hl.2; omega)
  simp only [List.append_nil] at h
  simp [parseSelList, h, skipWs]

end Grass.Selector
