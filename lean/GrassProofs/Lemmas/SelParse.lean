import Grass.Selector
/-
  Round trip of the model's printer and parser (`parseSelList (renderList l) = some l`),
  selectors without selector pseudos.
-/
namespace Grass.Selector

/-- identifiers the printer can emit and the parser reads back -/
def validName (n : Name) : Prop :=
  (∃ c cs, n = c :: cs ∧ isIdentStart c = true) ∧ n.all isIdentChar = true

/-- the text after a token does not continue it -/
def NoIdent (rest : List Char) : Prop := ∀ c cs, rest = c :: cs → isIdentChar c = false
def Stop (rest : List Char) : Prop := ∀ c cs, rest = c :: cs → isIdentChar c = false ∧ c ≠ '('

theorem spanIdent_app : ∀ (n rest : List Char), n.all isIdentChar = true → NoIdent rest →
    spanIdent (n ++ rest) = (n, rest) := by
  intro n
  induction n with
  | nil =>
    intro rest _ h
    cases rest with
    | nil => rfl
    | cons c cs => simp [spanIdent, h c cs rfl]
  | cons c cs ih =>
    intro rest hn h
    simp only [List.all_cons, Bool.and_eq_true] at hn
    simp [spanIdent, hn.1, ih rest hn.2 h]

theorem pIdent_app (n rest : List Char) (hn : validName n) (h : NoIdent rest) :
    pIdent (n ++ rest) = some (n, rest) := by
  obtain ⟨⟨c, cs, e, hc⟩, hall⟩ := hn
  subst e
  have := spanIdent_app (c :: cs) rest hall h
  simp only [List.cons_append] at this ⊢
  simp [pIdent, hc, this]

theorem Stop.noIdent {rest : List Char} (h : Stop rest) : NoIdent rest := fun c cs e => (h c cs e).1

theorem identStart_facts {c : Char} (h : isIdentStart c = true) :
    c ≠ '*' ∧ c ≠ '.' ∧ c ≠ '#' ∧ c ≠ '%' ∧ c ≠ '[' ∧ c ≠ '&' ∧ c ≠ ':' ∧ c ≠ '>' ∧ c ≠ '+' ∧ c ≠ '~' ∧
    c ≠ '"' ∧ c ≠ '\'' ∧ isWs c = false ∧ isIdentChar c = true := by
  refine ⟨?_, ?_, ?_, ?_, ?_, ?_, ?_, ?_, ?_, ?_, ?_, ?_, ?_, ?_⟩
  all_goals first
    | (intro e; subst e; revert h; decide)
    | skip
  · simp only [isIdentStart, Bool.or_eq_true, beq_iff_eq] at h
    simp only [isWs, Bool.or_eq_false_iff, beq_eq_false_iff_ne, ne_eq]
    refine ⟨⟨⟨?_, ?_⟩, ?_⟩, ?_⟩ <;> (intro e; subst e; revert h; decide)
  · simp only [isIdentStart, Bool.or_eq_true, beq_iff_eq] at h
    simp only [isIdentChar, Bool.or_eq_true, beq_iff_eq]
    rcases h with (h | h) | h
    · left; left; simp [Char.isAlphanum, h]
    · left; right; exact h
    · right; exact h


/-- attribute values the printer writes so that the parser reads them back: no double quote, no
    backslash (the printer quotes with `"` and the model has no escapes), none of the two marks -/
def wfAttrVal (val : Name) : Prop := ∀ x ∈ val, x ≠ '"' ∧ x ≠ '\\' ∧ x ≠ '\x01' ∧ x ≠ '\x02'

/-- every encoded attribute value the parser produces from such a value: any modifier letter, any of
    the six operators -/
def wfAttrV (v : Name) : Prop :=
  ∃ val md op, v = attrEnc val md op ∧ wfAttrVal val ∧ (∀ m, md = some m → m.isAlpha = true) ∧
    (∀ o, op = some o → (attrOpOfChar o).isSome = true)

/-- the simple selectors covered by the round-trip theorem (no selector pseudo, no `&`; attribute
    selectors with every operator, modifier, bare or quoted value) -/
def wfS : Simple → Prop
  | .univ => True
  | .type n => validName n
  | .cls n => validName n
  | .id n => validName n
  | .placeholder n => validName n
  | .pelem n => validName n
  | .pclass n => validName n ∧ isFakePelem n = false
  | .attr n none => validName n
  | .attr n (some v) => validName n ∧ wfAttrV v
  | .parent _ => False
  | .sel _ _ => False

theorem validName_head {n : Name} (h : validName n) : ∃ c cs, n = c :: cs ∧ isIdentStart c = true := h.1

theorem skipWs_ident {n rest : List Char} (h : validName n) : skipWs (n ++ rest) = n ++ rest := by
  obtain ⟨c, cs, e, hc⟩ := h.1
  subst e
  simp [skipWs, (identStart_facts hc).2.2.2.2.2.2.2.2.2.2.2.2.1]

theorem takeWhile_all {α : Type} (pr : α → Bool) : ∀ (l : List α), (∀ x ∈ l, pr x = true) → l.takeWhile pr = l := by
  intro l
  induction l with
  | nil => intro _; rfl
  | cons x xs ih => intro h; simp [List.takeWhile, h x (by simp), ih (fun y hy => h y (by simp [hy]))]

theorem dropWhile_all {α : Type} (pr : α → Bool) : ∀ (l : List α), (∀ x ∈ l, pr x = true) → l.dropWhile pr = [] := by
  intro l
  induction l with
  | nil => intro _; rfl
  | cons x xs ih => intro h; simp [List.dropWhile, h x (by simp), ih (fun y hy => h y (by simp [hy]))]

/-! ### attribute selectors: encoding, printer, parser -/

theorem takeWhile_app_stop {α : Type} (pr : α → Bool) (l t : List α) (hl : ∀ x ∈ l, pr x = true)
    (ht : ∀ c cs, t = c :: cs → pr c = false) :
    (l ++ t).takeWhile pr = l ∧ (l ++ t).dropWhile pr = t := by
  induction l with
  | nil =>
    cases t with
    | nil => simp
    | cons c cs => simp [List.takeWhile, List.dropWhile, ht c cs rfl]
  | cons x xs ih =>
    have := ih (fun y hy => hl y (by simp [hy]))
    simp [List.takeWhile, List.dropWhile, hl x (by simp), this.1, this.2]

theorem alpha_facts {m : Char} (h : m.isAlpha = true) :
    isWs m = false ∧ m ≠ ']' ∧ notMark2 m = true ∧ notMark m = true := by
  refine ⟨?_, ?_, ?_, ?_⟩
  · simp only [isWs, Bool.or_eq_false_iff, beq_eq_false_iff_ne, ne_eq]
    refine ⟨⟨⟨?_, ?_⟩, ?_⟩, ?_⟩ <;> (intro e; subst e; revert h; decide)
  · intro e; subst e; revert h; decide
  · simp only [notMark2, bne_iff_ne, ne_eq]; intro e; subst e; revert h; decide
  · simp only [notMark, bne_iff_ne, ne_eq]; intro e; subst e; revert h; decide

theorem attrOpChar_cases {o : Char} (h : (attrOpOfChar o).isSome = true) :
    o = '~' ∨ o = '|' ∨ o = '^' ∨ o = '$' ∨ o = '*' := by
  by_cases h1 : o = '~'; · exact Or.inl h1
  by_cases h2 : o = '|'; · exact Or.inr (Or.inl h2)
  by_cases h3 : o = '^'; · exact Or.inr (Or.inr (Or.inl h3))
  by_cases h4 : o = '$'; · exact Or.inr (Or.inr (Or.inr (Or.inl h4)))
  by_cases h5 : o = '*'; · exact Or.inr (Or.inr (Or.inr (Or.inr h5)))
  simp [attrOpOfChar, h1, h2, h3, h4, h5] at h

/-- the operator, the modifier and the value as the printer writes them -/
def opText (op : Option Char) : List Char := match op with | none => ['='] | some o => [o, '=']
def modText (md : Option Char) : List Char := match md with | none => [] | some m => [' ', m]
def isIdVal (val : Name) : Bool := val.all isIdentCharB && (val.head?.map isIdentStartB).getD false
def valText (val : Name) : List Char := if isIdVal val then val else '"' :: val ++ ['"']

/-- the three fields are recovered from the encoding -/
theorem attrEnc_decode (val : Name) (md op : Option Char) (hv : wfAttrVal val)
    (hm : ∀ m, md = some m → m.isAlpha = true) :
    attrVal (attrEnc val md op) = val ∧ attrMod (attrEnc val md op) = md.toList ∧
    attrOp (attrEnc val md op) = (match op with | none => some .eq | some o => attrOpOfChar o) := by
  have h1 : ∀ x ∈ val, notMark x = true := by
    intro x hx; simp [notMark, (hv x hx).2.2.1]
  cases md with
  | none =>
    cases op with
    | none =>
      have := takeWhile_app_stop notMark val [] h1 (by intro c cs e; cases e)
      simp only [List.append_nil] at this
      simp [attrEnc, attrVal, attrMod, attrOp, attrTail, this.1, this.2]
    | some o =>
      have := takeWhile_app_stop notMark val ['\x01', '\x02', o] h1
        (by intro c cs e; injection e with e1 _; subst e1; decide)
      simp [attrEnc, attrVal, attrMod, attrOp, attrTail, this.1, this.2, List.takeWhile, List.dropWhile, notMark2]
  | some m =>
    have hm2 : (m != '\x02') = true := (alpha_facts (hm m rfl)).2.2.1
    cases op with
    | none =>
      have := takeWhile_app_stop notMark val ['\x01', m] h1
        (by intro c cs e; injection e with e1 _; subst e1; decide)
      simp [attrEnc, attrVal, attrMod, attrOp, attrTail, this.1, this.2, List.takeWhile, List.dropWhile, hm2, notMark2]
    | some o =>
      have := takeWhile_app_stop notMark val ['\x01', m, '\x02', o] h1
        (by intro c cs e; injection e with e1 _; subst e1; decide)
      simp [attrEnc, attrVal, attrMod, attrOp, attrTail, this.1, this.2, List.takeWhile, List.dropWhile, hm2, notMark2]

theorem attrOp_text {o : Char} (h : (attrOpOfChar o).isSome = true) :
    (match attrOpOfChar o with | some k => k.text | none => ['=']) = [o, '='] := by
  rcases attrOpChar_cases h with e | e | e | e | e <;> subst e <;> rfl

theorem renderS_attr (n val : Name) (md op : Option Char) (hv : wfAttrVal val)
    (hm : ∀ m, md = some m → m.isAlpha = true) (ho : ∀ o, op = some o → (attrOpOfChar o).isSome = true) :
    renderS (.attr n (some (attrEnc val md op))) = '[' :: n ++ opText op ++ valText val ++ modText md ++ [']'] := by
  obtain ⟨d1, d2, d3⟩ := attrEnc_decode val md op hv hm
  have e1 : attrOpText (attrEnc val md op) = opText op := by
    unfold attrOpText
    rw [d3]
    cases op with
    | none => rfl
    | some o => exact attrOp_text (ho o rfl)
  have e2 : attrValueText (attrEnc val md op) = valText val ++ modText md := by
    unfold attrValueText
    rw [d1, d2]
    cases md <;> simp [valText, isIdVal, modText]
  simp only [renderS, e1, e2, List.append_assoc]

theorem spanUntilQuote_app (q : Char) : ∀ (val rest : List Char), (∀ x ∈ val, x ≠ q ∧ x ≠ '\\') →
    spanUntilQuote q (val ++ q :: rest) = some (val, rest) := by
  intro val
  induction val with
  | nil => intro rest _; simp [spanUntilQuote]
  | cons c cs ih =>
    intro rest h
    have hc := h c (by simp)
    simp [spanUntilQuote, hc.1, hc.2, ih rest (fun y hy => h y (by simp [hy]))]

theorem isIdVal_valid {val : Name} (h : isIdVal val = true) : validName val := by
  simp only [isIdVal, Bool.and_eq_true] at h
  cases val with
  | nil => simp at h
  | cons c cs =>
    simp only [List.head?_cons, Option.map_some, Option.getD_some] at h
    exact ⟨⟨c, cs, rfl, h.2⟩, h.1⟩

theorem pAttrValue_app (val tl : List Char) (hv : wfAttrVal val) (htl : NoIdent tl) :
    pAttrValue (valText val ++ tl) = some (val, tl) := by
  unfold valText
  cases hid : isIdVal val with
  | true =>
    have hvn := isIdVal_valid hid
    obtain ⟨c, cs, e, hc⟩ := validName_head hvn
    have hf := identStart_facts hc
    have hp := pIdent_app val tl hvn htl
    subst e
    simp only [if_true, List.cons_append] at hp ⊢
    unfold pAttrValue
    split
    · rename_i heq; injection heq with h1; exact absurd h1 hf.2.2.2.2.2.2.2.2.2.2.1
    · rename_i heq; injection heq with h1; exact absurd h1 hf.2.2.2.2.2.2.2.2.2.2.2.1
    · exact hp
  | false =>
    simp only [Bool.false_eq_true, if_false, List.cons_append, List.append_assoc, List.nil_append]
    simp only [pAttrValue]
    exact spanUntilQuote_app '"' val tl (fun x hx => ⟨(hv x hx).1, (hv x hx).2.1⟩)

theorem pAttrEnd_app (md : Option Char) (rest : List Char) (hm : ∀ m, md = some m → m.isAlpha = true) :
    pAttrEnd (modText md ++ ']' :: rest) = some (md, rest) := by
  cases md with
  | none => simp [pAttrEnd, modText, skipWs, isWs]
  | some m =>
    have ha := hm m rfl
    obtain ⟨h1, h2, _, _⟩ := alpha_facts ha
    simp only [pAttrEnd, modText, List.cons_append, List.nil_append]
    have e1 : skipWs (' ' :: m :: ']' :: rest) = m :: ']' :: rest := by
      rw [skipWs, if_pos (by decide), skipWs, if_neg (by simp [h1])]
    rw [e1]
    split
    · rename_i heq; injection heq with h3 _; exact absurd h3 h2
    · rename_i heq
      injection heq with h3 h4
      subst h3 h4
      simp [ha, skipWs, isWs]
    · rename_i heq; cases heq

theorem noIdent_modText (md : Option Char) (rest : List Char) : NoIdent (modText md ++ ']' :: rest) := by
  intro c cs e
  cases md with
  | none => simp only [modText, List.nil_append] at e; injection e with e1 _; subst e1; decide
  | some m => simp only [modText, List.cons_append] at e; injection e with e1 _; subst e1; decide

theorem wfAttrVal_contains {val : Name} (hv : wfAttrVal val) :
    (val.contains '\x01' || val.contains '\x02') = false := by
  have a : val.contains '\x01' = false := by
    cases hcn : val.contains '\x01' with
    | false => rfl
    | true => have hm : '\x01' ∈ val := by simpa using hcn
              exact absurd rfl (hv _ hm).2.2.1
  have b : val.contains '\x02' = false := by
    cases hcn : val.contains '\x02' with
    | false => rfl
    | true => have hm : '\x02' ∈ val := by simpa using hcn
              exact absurd rfl (hv _ hm).2.2.2
  rw [a, b]; rfl

theorem skipWs_nows {c : Char} (cs : List Char) (h : isWs c = false) : skipWs (c :: cs) = c :: cs := by
  rw [skipWs, if_neg (by simp [h])]

theorem pAttrOp_eq (r : List Char) : pAttrOp ('=' :: r) = some (none, r) := by simp [pAttrOp]

theorem pAttrOp_op (o : Char) (r : List Char) (h : o = '~' ∨ o = '|' ∨ o = '^' ∨ o = '$' ∨ o = '*') :
    pAttrOp (o :: '=' :: r) = some (some o, r) := by
  rcases h with e | e | e | e | e <;> subst e <;> simp [pAttrOp, attrOpOfChar]

theorem valText_head (val tl : List Char) : ∃ c cs, valText val ++ tl = c :: cs ∧ isWs c = false := by
  unfold valText
  cases hid : isIdVal val with
  | true =>
    obtain ⟨c, cs, e, hc⟩ := validName_head (isIdVal_valid hid)
    subst e
    exact ⟨c, cs ++ tl, by simp, (identStart_facts hc).2.2.2.2.2.2.2.2.2.2.2.2.1⟩
  | false => exact ⟨'"', val ++ ['"'] ++ tl, by simp, by decide⟩

/-- the parser reads back an attribute selector with any operator, modifier and value form -/
theorem pAttr_app (n val : Name) (md op : Option Char) (rest : List Char) (hn : validName n) (hv : wfAttrVal val)
    (hm : ∀ m, md = some m → m.isAlpha = true) (ho : ∀ o, op = some o → (attrOpOfChar o).isSome = true) :
    pAttr (n ++ opText op ++ valText val ++ modText md ++ ']' :: rest) =
      some (.attr n (some (attrEnc val md op)), rest) := by
  have hval := pAttrValue_app val (modText md ++ ']' :: rest) hv (noIdent_modText md rest)
  have hend := pAttrEnd_app md rest hm
  have hcont := wfAttrVal_contains hv
  obtain ⟨c, cs, ehead, hws⟩ := valText_head val (modText md ++ ']' :: rest)
  have hsk : skipWs (valText val ++ (modText md ++ ']' :: rest)) = valText val ++ (modText md ++ ']' :: rest) := by
    rw [ehead]; simp [skipWs, hws]
  simp only [List.append_assoc]
  unfold pAttr
  rw [skipWs_ident hn]
  cases op with
  | none =>
    have hp := pIdent_app n ('=' :: (valText val ++ (modText md ++ ']' :: rest))) hn
      (by intro c cs e; injection e with e1 _; subst e1; decide)
    simp only [opText, List.cons_append, List.nil_append]
    rw [hp]
    dsimp only
    rw [skipWs_nows _ (by decide)]
    split
    · rename_i heq; injection heq with h _; exact absurd h (by decide)
    · rw [pAttrOp_eq]
      dsimp only
      rw [hsk, hval]
      simp only [hcont, Bool.false_eq_true, if_false, hend]
  | some o =>
    have hcases := attrOpChar_cases (ho o rfl)
    have hp := pIdent_app n (o :: '=' :: (valText val ++ (modText md ++ ']' :: rest))) hn (by
        intro c cs e; injection e with e1 _; subst e1
        rcases hcases with e | e | e | e | e <;> subst e <;> decide)
    have hows : isWs o = false := by rcases hcases with e | e | e | e | e <;> subst e <;> decide
    have hob : o ≠ ']' := by rcases hcases with e | e | e | e | e <;> subst e <;> decide
    simp only [opText, List.cons_append, List.nil_append]
    rw [hp]
    dsimp only
    rw [skipWs_nows _ hows]
    split
    · rename_i heq; injection heq with h _; exact absurd h hob
    · rw [pAttrOp_op o _ hcases]
      dsimp only
      rw [hsk, hval]
      simp only [hcont, Bool.false_eq_true, if_false, hend]

theorem pSimple_type_head (c : Char) (cs : List Char) (f : Nat) (hc : isIdentStart c = true) :
    pSimple (f + 1) (c :: cs) = (pIdent (c :: cs)).map fun (n, r') => (Simple.type n, r') := by
  have hf := identStart_facts hc
  unfold pSimple
  split
  · rename_i heq; injection heq with h _; exact absurd h hf.1
  · rename_i heq; injection heq with h _; exact absurd h hf.2.1
  · rename_i heq; injection heq with h _; exact absurd h hf.2.2.1
  · rename_i heq; injection heq with h _; exact absurd h hf.2.2.2.1
  · rename_i heq; injection heq with h _; exact absurd h hf.2.2.2.2.1
  · rename_i heq; injection heq with h _; exact absurd h hf.2.2.2.2.2.1
  · rename_i heq; injection heq with h _; exact absurd h hf.2.2.2.2.2.2.1
  · rename_i heq; injection heq with h _; exact absurd h hf.2.2.2.2.2.2.1
  · rename_i heq
    injection heq with h1 h2
    subst h1 h2
    simp [hc]
  · rename_i heq; cases heq

theorem pSimple_colon (c : Char) (cs : List Char) (f : Nat) (hc : c ≠ ':') :
    pSimple (f + 1) (':' :: c :: cs) =
      match pIdent (c :: cs) with
      | some (n, '(' :: r') =>
        match pnameOf n with
        | none => (pOpaqueArg false n r').map fun (m, r'') => (.pclass m, r'')
        | some k =>
          match pList f (skipWs r') with
          | some (l, r'') =>
            match skipWs r'', normAll l with
            | ')' :: r3, some args => some (.sel k args, r3)
            | _, _ => none
          | none => none
      | some (n, r') => if isFakePelem n then some (.pelem n, r') else some (.pclass n, r')
      | none => none := by
  unfold pSimple
  split
  · rename_i heq; injection heq with h _; cases h
  · rename_i heq; injection heq with h _; cases h
  · rename_i heq; injection heq with h _; cases h
  · rename_i heq; injection heq with h _; cases h
  · rename_i heq; injection heq with h _; cases h
  · rename_i heq; injection heq with h _; cases h
  · rename_i heq
    injection heq with _ h2; injection h2 with h3 _
    exact absurd h3 hc
  · rename_i r hneg heq
    injection heq with _ h2
    subst h2
    rfl
  · exfalso
    rename_i hne heq
    injection heq with h1 _
    exact hne h1.symm
  · rename_i heq; cases heq

theorem pSimple_app (s : Simple) (rest : List Char) (hs : wfS s) (hr : Stop rest) (f : Nat) :
    pSimple (f + 1) (renderS s ++ rest) = some (s, rest) := by
  cases s with
  | univ => simp [renderS, pSimple]
  | type n =>
    obtain ⟨c, cs, e, hc⟩ := validName_head hs
    have hp := pIdent_app n rest hs hr.noIdent
    subst e
    simp only [renderS, List.cons_append] at hp ⊢
    rw [pSimple_type_head _ _ _ hc, hp]
    rfl
  | cls n => simp [renderS, pSimple, pIdent_app n rest hs hr.noIdent]
  | id n => simp [renderS, pSimple, pIdent_app n rest hs hr.noIdent]
  | placeholder n => simp [renderS, pSimple, pIdent_app n rest hs hr.noIdent]
  | pelem n =>
    have hp := pIdent_app n rest hs hr.noIdent
    simp only [renderS, List.cons_append, pSimple, hp]
    cases rest with
    | nil => rfl
    | cons d ds =>
      have := (hr d ds rfl).2
      split
      · rename_i heq; injection heq with h1; injection h1 with _ h2; injection h2 with h3; exact absurd h3 this
      · rename_i heq; injection heq with h1; injection h1 with h2 h3; subst h2 h3; rfl
      · rename_i heq; cases heq
  | pclass n =>
    obtain ⟨c, cs, e, hc⟩ := validName_head hs.1
    have hf := identStart_facts hc
    have hp := pIdent_app n rest hs.1 hr.noIdent
    subst e
    simp only [renderS, List.cons_append] at hp ⊢
    rw [pSimple_colon _ _ _ hf.2.2.2.2.2.2.1, hp]
    cases rest with
    | nil => simp [hs.2]
    | cons d ds =>
      have := (hr d ds rfl).2
      split
      · rename_i heq2; injection heq2 with h1; injection h1 with _ h2; injection h2 with h3; exact absurd h3 this
      · rename_i heq2; injection heq2 with h1; injection h1 with h2 h3; subst h2 h3; simp [hs.2]
      · rename_i heq2; cases heq2
  | attr n v =>
    cases v with
    | none =>
      have hn : validName n := hs
      have hp := pIdent_app n (']' :: rest) hn (by intro c cs e; injection e with e1 _; subst e1; decide)
      simp only [renderS, List.cons_append, List.append_assoc, List.nil_append, pSimple, pAttr, skipWs_ident hn]
      rw [hp]
      simp [skipWs, isWs]
    | some v =>
      have hn : validName n := hs.1
      obtain ⟨val, md, op, e, hv, hm, ho⟩ := hs.2
      subst e
      have hp := pAttr_app n val md op rest hn hv hm ho
      rw [renderS_attr n val md op hv hm ho]
      simp only [List.cons_append, List.append_assoc, List.nil_append, pSimple] at hp ⊢
      exact hp
  | parent x => exact hs.elim
  | sel k a => exact hs.elim


/-! ### compounds -/

/-- simple selectors that may follow the first one of a compound -/
def tailOK : Simple → Prop
  | .univ => False
  | .type _ => False
  | _ => True

def wfC : Compound → Prop
  | [] => False
  | s :: ss => wfS s ∧ ∀ t ∈ ss, wfS t ∧ tailOK t

/-- the text after a compound: not an identifier character, not `(`, not the start of a simple
    selector, not `&`/`*` -/
def StopC (rest : List Char) : Prop :=
  ∀ c cs, rest = c :: cs → isIdentChar c = false ∧ c ≠ '(' ∧ isSimpleStart c = false ∧ c ≠ '&' ∧ c ≠ '*'

theorem StopC.stop {rest : List Char} (h : StopC rest) : Stop rest :=
  fun c cs e => ⟨(h c cs e).1, (h c cs e).2.1⟩

theorem renderS_head (s : Simple) (hs : wfS s) (ht : tailOK s) :
    ∃ c cs, renderS s = c :: cs ∧ isSimpleStart c = true ∧ isIdentChar c = false ∧ c ≠ '(' := by
  cases s with
  | univ => exact ht.elim
  | type n => exact ht.elim
  | cls n => exact ⟨'.', n, rfl, by decide, by decide, by decide⟩
  | id n => exact ⟨'#', n, rfl, by decide, by decide, by decide⟩
  | placeholder n => exact ⟨'%', n, rfl, by decide, by decide, by decide⟩
  | pclass n => exact ⟨':', n, rfl, by decide, by decide, by decide⟩
  | pelem n => exact ⟨':', ':' :: n, rfl, by decide, by decide, by decide⟩
  | attr n v =>
    cases v with
    | none => exact ⟨'[', n ++ [']'], rfl, by decide, by decide, by decide⟩
    | some v => exact ⟨'[', n ++ attrOpText v ++ attrValueText v ++ [']'], rfl, by decide, by decide, by decide⟩
  | parent x => exact hs.elim
  | sel k a => exact hs.elim

theorem stop_of_tail (ss : Compound) (rest : List Char) (hss : ∀ t ∈ ss, wfS t ∧ tailOK t) (hr : StopC rest) :
    Stop (renderC ss ++ rest) := by
  cases ss with
  | nil => simpa [renderC] using hr.stop
  | cons t ts =>
    obtain ⟨c, cs, e, _, h2, h3⟩ := renderS_head t (hss t (by simp)).1 (hss t (by simp)).2
    intro d ds hd
    simp only [renderC, e, List.cons_append, List.append_assoc] at hd
    injection hd with h _
    subst h
    exact ⟨h2, h3⟩

theorem pCompoundRest_app : ∀ (ss : Compound) (rest : List Char),
    (∀ t ∈ ss, wfS t ∧ tailOK t) → StopC rest → ∀ f, ss.length < f →
    pCompoundRest f (renderC ss ++ rest) = some (ss, rest) := by
  intro ss
  induction ss with
  | nil =>
    intro rest _ hr f hf
    obtain ⟨f, rfl⟩ : ∃ g, f = g + 1 := ⟨f - 1, by omega⟩
    simp only [renderC, List.nil_append]
    unfold pCompoundRest
    cases rest with
    | nil => rfl
    | cons c cs =>
      obtain ⟨_, _, h3, h4, h5⟩ := hr c cs rfl
      simp [h3, h4, h5]
  | cons t ts ih =>
    intro rest hss hr f hf
    obtain ⟨f, rfl⟩ : ∃ g, f = g + 1 := ⟨f - 1, by simp only [List.length_cons] at hf; omega⟩
    obtain ⟨f, rfl⟩ : ∃ g, f = g + 1 := ⟨f - 1, by simp only [List.length_cons] at hf; omega⟩
    have ht := hss t (by simp)
    have hts : ∀ u ∈ ts, wfS u ∧ tailOK u := fun u hu => hss u (by simp [hu])
    obtain ⟨c, cs, e, h1, _, _⟩ := renderS_head t ht.1 ht.2
    have hps := pSimple_app t (renderC ts ++ rest) ht.1 (stop_of_tail ts rest hts hr) f
    have hrec := ih rest hts hr (f + 1) (by simp only [List.length_cons] at hf; omega)
    simp only [renderC, List.append_assoc] at hps ⊢
    unfold pCompoundRest
    rw [e] at hps ⊢
    simp only [List.cons_append, h1, if_true] at hps ⊢
    rw [hps]
    simp only [hrec, Option.map_some]

theorem pCompound_app (c : Compound) (rest : List Char) (hc : wfC c) (hr : StopC rest) (f : Nat)
    (hf : c.length < f) : pCompound f (renderC c ++ rest) = some (c, rest) := by
  cases c with
  | nil => exact hc.elim
  | cons s ss =>
    obtain ⟨f, rfl⟩ : ∃ g, f = g + 1 := ⟨f - 1, by simp only [List.length_cons] at hf; omega⟩
    obtain ⟨f, rfl⟩ : ∃ g, f = g + 1 := ⟨f - 1, by simp only [List.length_cons] at hf; omega⟩
    have hps := pSimple_app s (renderC ss ++ rest) hc.1 (stop_of_tail ss rest hc.2 hr) f
    have hrec := pCompoundRest_app ss rest hc.2 hr (f + 1) (by simp only [List.length_cons] at hf; omega)
    simp only [renderC, List.append_assoc] at hps ⊢
    unfold pCompound
    rw [hps]
    simp only [hrec, Option.map_some]


/-! ### complex selectors and lists -/

def wfX (x : Complex) : Prop := ∀ c, Component.compound c ∈ x → wfC c

def StopX (rest : List Char) : Prop := rest = [] ∨ ∃ r, rest = ',' :: r ∨ rest = ')' :: r

def needX : Complex → Nat
  | [] => 1
  | .comb _ :: xs => needX xs + 1
  | .compound c :: xs => needX xs + c.length + 2

theorem needX_pos : ∀ (x : Complex), 1 ≤ needX x := by
  intro x
  induction x with
  | nil => simp [needX]
  | cons cp xs ih => cases cp <;> simp only [needX] <;> omega

def tailText (tail : Complex) (rest : List Char) : List Char :=
  match tail with
  | [] => rest
  | _ :: _ => ' ' :: (renderComplex tail ++ rest)

theorem renderComplex_cons (cp : Component) (tail : Complex) (rest : List Char) :
    renderComplex (cp :: tail) ++ rest = renderComponent cp ++ tailText tail rest := by
  cases tail with
  | nil => simp [renderComplex, tailText]
  | cons d xs => simp [renderComplex, tailText]

theorem pComplexRest_space (f : Nat) (cs : List Char) : pComplexRest (f + 1) (' ' :: cs) = pComplexRest (f + 1) cs := by
  unfold pComplexRest
  simp [skipWs, isWs]

theorem pComplexRest_tailText (f : Nat) (tail : Complex) (rest : List Char) :
    pComplexRest (f + 1) (tailText tail rest) = pComplexRest (f + 1) (renderComplex tail ++ rest) := by
  cases tail with
  | nil => simp [tailText, renderComplex]
  | cons d xs => simp only [tailText]; exact pComplexRest_space f _

theorem StopC_tailText (tail : Complex) (rest : List Char) (hr : StopX rest) : StopC (tailText tail rest) := by
  intro c cs e
  cases tail with
  | nil =>
    simp only [tailText] at e
    rcases hr with h | ⟨r, h | h⟩
    · rw [h] at e; cases e
    · rw [h] at e; injection e with e1 _; subst e1; decide
    · rw [h] at e; injection e with e1 _; subst e1; decide
  | cons d xs =>
    simp only [tailText] at e
    injection e with e1 _; subst e1; decide

theorem renderC_head (c : Compound) (hc : wfC c) :
    ∃ h t, renderC c = h :: t ∧ isWs h = false ∧ h ≠ '>' ∧ h ≠ '+' ∧ h ≠ '~' ∧
      (isSimpleStart h || h == '&' || h == '*' || isIdentStart h) = true := by
  cases c with
  | nil => exact hc.elim
  | cons s ss =>
    have hs := hc.1
    cases s with
    | univ => exact ⟨'*', renderC ss, rfl, by decide, by decide, by decide, by decide, by decide⟩
    | type n =>
      obtain ⟨c, cs, e, hi⟩ := validName_head hs
      have hf := identStart_facts hi
      subst e
      exact ⟨c, cs ++ renderC ss, by simp [renderC, renderS], hf.2.2.2.2.2.2.2.2.2.2.2.2.1, hf.2.2.2.2.2.2.2.1,
        hf.2.2.2.2.2.2.2.2.1, hf.2.2.2.2.2.2.2.2.2.1, by simp [hi]⟩
    | cls n => exact ⟨'.', n ++ renderC ss, by simp [renderC, renderS], by decide, by decide, by decide, by decide, by decide⟩
    | id n => exact ⟨'#', n ++ renderC ss, by simp [renderC, renderS], by decide, by decide, by decide, by decide, by decide⟩
    | placeholder n => exact ⟨'%', n ++ renderC ss, by simp [renderC, renderS], by decide, by decide, by decide, by decide, by decide⟩
    | pclass n => exact ⟨':', n ++ renderC ss, by simp [renderC, renderS], by decide, by decide, by decide, by decide, by decide⟩
    | pelem n => exact ⟨':', ':' :: n ++ renderC ss, by simp [renderC, renderS], by decide, by decide, by decide, by decide, by decide⟩
    | attr n v =>
      cases v with
      | none => exact ⟨'[', n ++ [']'] ++ renderC ss, by simp [renderC, renderS], by decide, by decide, by decide, by decide, by decide⟩
      | some v => exact ⟨'[', n ++ attrOpText v ++ attrValueText v ++ [']'] ++ renderC ss, by simp [renderC, renderS], by decide, by decide, by decide, by decide, by decide⟩
    | parent x => exact hs.elim
    | sel k a => exact hs.elim

theorem pComplexRest_app : ∀ (x : Complex) (rest : List Char), wfX x → StopX rest → ∀ f, needX x ≤ f →
    pComplexRest f (renderComplex x ++ rest) = some (x, rest) := by
  intro x
  induction x with
  | nil =>
    intro rest _ hr f hf
    obtain ⟨f, rfl⟩ : ∃ g, f = g + 1 := ⟨f - 1, by simp only [needX] at hf; omega⟩
    simp only [renderComplex, List.nil_append]
    unfold pComplexRest
    rcases hr with h | ⟨r, h | h⟩ <;> subst h <;> simp [skipWs, isWs, isSimpleStart, isIdentStart]
  | cons cp tail ih =>
    intro rest hx hr f hf
    have htail : wfX tail := fun c hc => hx c (List.mem_cons_of_mem _ hc)
    rw [renderComplex_cons]
    cases cp with
    | comb cb =>
      obtain ⟨f, rfl⟩ : ∃ g, f = g + 1 := ⟨f - 1, by simp only [needX] at hf; omega⟩
      obtain ⟨f, rfl⟩ : ∃ g, f = g + 1 := ⟨f - 1, by simp only [needX] at hf; have := needX_pos tail; omega⟩
      have hrec := ih rest htail hr (f + 1) (by simp only [needX] at hf; omega)
      rw [← pComplexRest_tailText] at hrec
      unfold pComplexRest
      cases cb <;> simp [renderComponent, skipWs, isWs, hrec]
    | compound c =>
      have hc : wfC c := hx c (by simp)
      obtain ⟨f, rfl⟩ : ∃ g, f = g + 1 := ⟨f - 1, by simp only [needX] at hf; omega⟩
      obtain ⟨f, rfl⟩ : ∃ g, f = g + 1 := ⟨f - 1, by simp only [needX] at hf; have := needX_pos tail; omega⟩
      have hrec := ih rest htail hr (f + 1) (by simp only [needX] at hf; omega)
      rw [← pComplexRest_tailText] at hrec
      have hpc := pCompound_app c (tailText tail rest) hc (StopC_tailText tail rest hr) (f + 1)
        (by simp only [needX] at hf; have := needX_pos tail; omega)
      obtain ⟨h, t, e, h1, h2, h3, h4, h5⟩ := renderC_head c hc
      simp only [renderComponent]
      unfold pComplexRest
      rw [e] at hpc ⊢
      simp only [List.cons_append] at hpc ⊢
      simp only [skipWs, h1, Bool.false_eq_true, if_false]
      split
      · simp only [hpc, hrec, Option.map_some]
      · rename_i hneg; exact absurd h5 hneg


def needL : SelList → Nat
  | [] => 1
  | x :: l => needX x + needL l + 1

def wfL (l : SelList) : Prop := l ≠ [] ∧ ∀ x ∈ l, wfX x ∧ x ≠ []

def StopL (rest : List Char) : Prop := rest = [] ∨ ∃ r, rest = ')' :: r

theorem pList_space (f : Nat) (cs : List Char) : pList (f + 2) (' ' :: cs) = pList (f + 2) cs := by
  unfold pList
  rw [pComplexRest_space]

theorem pList_app : ∀ (l : SelList) (rest : List Char), wfL l → StopL rest → ∀ f, needL l ≤ f →
    pList f (renderList l ++ rest) = some (l, rest) := by
  intro l
  induction l with
  | nil => intro rest h; exact absurd rfl h.1
  | cons x tl ih =>
    intro rest hl hr f hf
    have hx := hl.2 x (by simp)
    have hnx := needX_pos x
    obtain ⟨f, rfl⟩ : ∃ g, f = g + 1 := ⟨f - 1, by simp only [needL] at hf; omega⟩
    cases tl with
    | nil =>
      simp only [renderList]
      have hsx : StopX rest := by
        rcases hr with h | ⟨r, h⟩
        · exact Or.inl h
        · exact Or.inr ⟨r, Or.inr h⟩
      have hp := pComplexRest_app x rest hx.1 hsx f (by simp only [needL] at hf; omega)
      unfold pList
      rw [hp]
      have hne : x.isEmpty = false := by cases x <;> simp_all
      simp only [hne, Bool.false_eq_true, if_false]
      rcases hr with h | ⟨r, h⟩ <;> subst h <;> simp [skipWs, isWs]
    | cons y ys =>
      have htl : wfL (y :: ys) := ⟨by simp, fun z hz => hl.2 z (List.mem_cons_of_mem _ hz)⟩
      have hny := needX_pos y
      simp only [renderList, List.append_assoc, List.cons_append]
      have hp := pComplexRest_app x (',' :: ' ' :: (renderList (y :: ys) ++ rest)) hx.1 (Or.inr ⟨_, Or.inl rfl⟩) f
        (by simp only [needL] at hf; omega)
      obtain ⟨f, rfl⟩ : ∃ g, f = g + 2 := ⟨f - 2, by simp only [needL] at hf; omega⟩
      have hrec := ih rest htl hr (f + 2) (by simp only [needL] at hf ⊢; omega)
      unfold pList
      rw [hp]
      have hne : x.isEmpty = false := by cases x <;> simp_all
      simp only [hne, Bool.false_eq_true, if_false]
      simp only [skipWs, isWs]
      simp only [show ((',' == ' ' || ',' == '\n' || ',' == '\t' || ',' == '\r') = true) = False by decide, if_false]
      rw [pList_space, hrec]
      rfl

/-! ### the fuel `parseSelList` gives is enough -/

theorem renderS_len (s : Simple) (hs : wfS s) : 1 ≤ (renderS s).length := by
  cases s with
  | univ => simp [renderS]
  | type n => obtain ⟨c, cs, e, _⟩ := validName_head hs; subst e; simp [renderS]
  | cls n => simp [renderS]
  | id n => simp [renderS]
  | placeholder n => simp [renderS]
  | pclass n => simp [renderS]
  | pelem n => simp [renderS]
  | attr n v => cases v <;> simp [renderS]
  | parent x => exact hs.elim
  | sel k a => exact hs.elim

theorem renderC_len : ∀ (c : Compound), (∀ s ∈ c, wfS s) → c.length ≤ (renderC c).length := by
  intro c
  induction c with
  | nil => intro _; simp
  | cons s ss ih =>
    intro h
    have := renderS_len s (h s (by simp))
    have := ih (fun t ht => h t (by simp [ht]))
    simp only [renderC, List.length_cons, List.length_append]; omega

theorem wfC_all {c : Compound} (h : wfC c) : (∀ s ∈ c, wfS s) ∧ 1 ≤ c.length := by
  cases c with
  | nil => exact h.elim
  | cons s ss =>
    refine ⟨?_, by simp⟩
    intro t ht
    rcases List.mem_cons.1 ht with e | e
    · subst e; exact h.1
    · exact (h.2 t e).1

theorem needX_le : ∀ (x : Complex), wfX x → needX x ≤ 3 * (renderComplex x).length + 1 := by
  intro x
  induction x with
  | nil => intro _; simp [needX]
  | cons cp tail ih =>
    intro hx
    have htail := ih (fun c hc => hx c (List.mem_cons_of_mem _ hc))
    have hlen : (renderComplex (cp :: tail)).length ≥ (renderComponent cp).length + (renderComplex tail).length := by
      cases tail with
      | nil => simp [renderComplex]
      | cons d xs => simp only [renderComplex, List.length_append, List.length_cons]; omega
    cases cp with
    | comb cb =>
      have : (renderComponent (.comb cb)).length = 1 := by cases cb <;> rfl
      simp only [needX]; omega
    | compound c =>
      obtain ⟨h1, h2⟩ := wfC_all (hx c (by simp))
      have := renderC_len c h1
      simp only [needX, renderComponent] at hlen ⊢; omega

theorem renderComplex_pos (x : Complex) (hx : wfX x) (hne : x ≠ []) : 1 ≤ (renderComplex x).length := by
  cases x with
  | nil => exact absurd rfl hne
  | cons cp tail =>
    have hlen : (renderComplex (cp :: tail)).length ≥ (renderComponent cp).length := by
      cases tail with
      | nil => simp [renderComplex]
      | cons d xs => simp only [renderComplex, List.length_append, List.length_cons]; omega
    cases cp with
    | comb cb =>
      have : (renderComponent (.comb cb)).length = 1 := by cases cb <;> rfl
      omega
    | compound c =>
      obtain ⟨h1, h2⟩ := wfC_all (hx c (by simp))
      have := renderC_len c h1
      simp only [renderComponent] at hlen; omega

theorem needL_le : ∀ (l : SelList), (∀ x ∈ l, wfX x ∧ x ≠ []) → needL l ≤ 8 * (renderList l).length + 1 := by
  intro l
  induction l with
  | nil => intro _; simp [needL]
  | cons x tl ih =>
    intro h
    have htl := ih (fun z hz => h z (List.mem_cons_of_mem _ hz))
    have hx := needX_le x (h x (by simp)).1
    have hpos := renderComplex_pos x (h x (by simp)).1 (h x (by simp)).2
    have hlen : (renderList (x :: tl)).length ≥ (renderComplex x).length + (renderList tl).length := by
      cases tl with
      | nil => simp [renderList]
      | cons y ys => simp only [renderList, List.length_append, List.length_cons]; omega
    simp only [needL]; omega

/-- well-formed selector lists of the round-trip theorem: non-empty list of non-empty complexes whose
    compounds are non-empty, start with any simple selector and continue with non-type ones, names
    are identifiers; no selector pseudo, no `&`, attribute values bare identifiers -/
theorem parse_render (l : SelList) (hl : wfL l) : parseSelList (renderList l) = some l := by
  have h := pList_app l [] hl (Or.inl rfl) (8 * (renderList l).length + 16)
    (by have := needL_le l hl.2; omega)
  simp only [List.append_nil] at h
  simp [parseSelList, h, skipWs]

end Grass.Selector
