import Grass.Builtins
import GrassProofs.Lemmas.Builtins

/-!
# Round 3 lemmas for C14: `index`, `string.split`, key paths, named arguments
-/

namespace Grass.Builtins
open Grass.Value

/-! ## `indexOf` -/

theorem VList.ind {motive : VList → Prop} (nil : motive .nil)
    (cons : ∀ v t, motive t → motive (.cons v t)) : ∀ l, motive l
  | .nil => nil
  | .cons v t => cons v t (VList.ind nil cons t)

theorem indexOf_some (e : Grass.Value.Sw) (l : VList) (v : Value) (i : Nat) (h : indexOf e l v = some i) :
    (∃ x, l.toList[i]? = some x ∧ veq e x v = true) ∧
      ∀ j, j < i → ∀ y, l.toList[j]? = some y → veq e y v = false := by
  induction l using VList.ind generalizing i with
  | nil => simp [indexOf] at h
  | cons a t ih =>
    simp only [indexOf] at h
    by_cases ha : veq e a v = true
    · simp only [ha, if_true, Option.some.injEq] at h
      subst h
      exact ⟨⟨a, by simp [VList.toList], ha⟩, fun j hj => absurd hj (Nat.not_lt_zero j)⟩
    · have ha' : veq e a v = false := by simpa using ha
      simp only [ha'] at h
      cases ht : indexOf e t v with
      | none => simp [ht] at h
      | some k =>
        simp [ht] at h
        subst h
        obtain ⟨⟨x, hx, hxv⟩, hlt⟩ := ih k ht
        refine ⟨⟨x, by simpa [VList.toList] using hx, hxv⟩, ?_⟩
        intro j hj y hy
        cases j with
        | zero =>
          simp [VList.toList] at hy
          subst hy
          simpa using ha
        | succ j' =>
          simp [VList.toList] at hy
          exact hlt j' (by omega) y hy

theorem indexOf_none (e : Grass.Value.Sw) (l : VList) (v : Value) :
    indexOf e l v = none ↔ ∀ y, y ∈ l.toList → veq e y v = false := by
  induction l using VList.ind with
  | nil => simp [indexOf, VList.toList]
  | cons a t ih =>
    simp only [indexOf, VList.toList, List.mem_cons, forall_eq_or_imp]
    by_cases ha : veq e a v = true
    · simp [ha]
    · simp [ha, ih]

/-! ## `string.split` -/

theorem joinWith_cons (sep p : List Char) (rest : List (List Char)) (h : rest ≠ []) :
    joinWith sep (p :: rest) = p ++ sep ++ joinWith sep rest := by
  cases rest with
  | nil => exact absurd rfl h
  | cons q t => rfl

theorem splitAux_ne_nil (sep : List Char) (lim skip : Nat) (acc t : List Char) :
    splitAux sep lim skip acc t ≠ [] := by
  fun_induction splitAux sep lim skip acc t <;> simp_all

/-- skipping the rest of a matched separator -/
theorem splitAux_skip (sep : List Char) (lim : Nat) (acc d t : List Char) :
    splitAux sep lim d.length acc (d ++ t) = splitAux sep lim 0 acc t := by
  induction d with
  | nil => rfl
  | cons c d ih =>
    cases hdt : d ++ t with
    | nil =>
      have : d = [] ∧ t = [] := by simpa using hdt
      obtain ⟨rfl, rfl⟩ := this
      simp [splitAux]
    | cons x r =>
      simp only [List.cons_append, List.length_cons, hdt]
      rw [← hdt]
      simp only [splitAux]
      exact ih

theorem isPrefixOf_split {sep s : List Char} (h : sep.isPrefixOf s = true) : ∃ t, s = sep ++ t := by
  obtain ⟨t, ht⟩ := List.isPrefixOf_iff_prefix.mp h
  exact ⟨t, ht.symm⟩

/-- the pieces joined with the separator give the text back (non-empty separator) -/
theorem joinWith_splitAux (sep : List Char) (hsep : sep ≠ []) (n : Nat) :
    ∀ (lim : Nat) (acc t : List Char), t.length ≤ n →
      joinWith sep (splitAux sep lim 0 acc t) = acc.reverse ++ t := by
  induction n with
  | zero =>
    intro lim acc t ht
    have : t = [] := List.eq_nil_of_length_eq_zero (by omega)
    subst this
    cases lim <;> simp [splitAux, joinWith]
  | succ n ih =>
    intro lim acc t ht
    cases t with
    | nil => cases lim <;> simp [splitAux, joinWith]
    | cons c t =>
      cases lim with
      | zero =>
        simp only [splitAux]
        rw [ih 0 (c :: acc) t (by simpa using ht)]
        simp
      | succ lim =>
        simp only [splitAux]
        split
        · rename_i hp
          obtain ⟨t', ht'⟩ := isPrefixOf_split hp
          cases sep with
          | nil => exact absurd rfl hsep
          | cons s0 sep' =>
            simp only [List.cons_append, List.cons.injEq] at ht'
            obtain ⟨hc, htt⟩ := ht'
            subst hc htt
            rw [joinWith_cons _ _ _ (splitAux_ne_nil _ _ _ _ _)]
            simp only [List.length_cons, Nat.add_sub_cancel]
            rw [splitAux_skip, ih lim [] t' (by simp at ht ⊢; omega)]
            simp
        · rw [ih (lim + 1) (c :: acc) t (by simpa using ht)]
          simp

theorem length_splitAux_le (sep : List Char) (lim skip : Nat) (acc t : List Char) :
    (splitAux sep lim skip acc t).length ≤ lim + 1 := by
  fun_induction splitAux sep lim skip acc t <;> simp_all <;> omega

theorem splitEmptyRest_ne_nil (k : Nat) (s : List Char) : splitEmptyRest k s ≠ [] := by
  fun_induction splitEmptyRest k s <;> simp

theorem joinWith_nil_splitEmptyRest (k : Nat) (s : List Char) : joinWith [] (splitEmptyRest k s) = s := by
  fun_induction splitEmptyRest k s with
  | case1 => rfl
  | case2 => rfl
  | case3 k c t ih =>
    rw [joinWith_cons _ _ _ (splitEmptyRest_ne_nil _ _), ih]
    simp

theorem length_splitEmptyRest_le (k : Nat) (s : List Char) : (splitEmptyRest k s).length ≤ k + 1 := by
  fun_induction splitEmptyRest k s <;> simp_all

theorem length_splitEmptyRest_full (k : Nat) (s : List Char) (h : s.length < k) :
    (splitEmptyRest k s).length = s.length + 1 := by
  fun_induction splitEmptyRest k s <;> simp_all

/-- every case of `string.split`: the pieces joined with the separator give the text back -/
theorem joinWith_splitPieces (sep : List Char) (lim : Nat) (s : List Char) :
    joinWith sep (splitPieces sep lim s) = s := by
  unfold splitPieces
  split
  · rename_i h
    subst h
    cases lim with
    | zero => rfl
    | succ k =>
      simp only [splitEmpty]
      rw [joinWith_cons _ _ _ (splitEmptyRest_ne_nil _ _), joinWith_nil_splitEmptyRest]
      simp
  · rename_i h
    rw [joinWith_splitAux sep h s.length lim [] s (Nat.le_refl _)]
    simp

theorem length_splitPieces_le (sep : List Char) (lim : Nat) (s : List Char) :
    (splitPieces sep lim s).length ≤ lim + 1 ∧ 1 ≤ (splitPieces sep lim s).length := by
  unfold splitPieces
  split
  · cases lim with
    | zero => simp [splitEmpty]
    | succ k =>
      have := length_splitEmptyRest_le k s
      simp only [splitEmpty, List.length_cons]
      omega
  · refine ⟨length_splitAux_le _ _ _ _ _, ?_⟩
    have := splitAux_ne_nil sep lim 0 [] s
    cases h : splitAux sep lim 0 [] s with
    | nil => exact absurd h this
    | cons a t => simp

theorem strsOf_map (ps : List (List Char)) : strsOf (ps.map (fun p => Value.str p true)) = some ps := by
  induction ps with
  | nil => rfl
  | cons p t ih => simp [strsOf, ih]

/-! ## key paths -/

/-- the nested map a key path leads to (`none`: a key is missing or its value is not a map) -/
def subMap (sw : Sw) : List Value → Value → Option VPairs
  | [], v => tryMap v
  | k :: ks, v =>
    match tryMap v with
    | none => none
    | some m =>
      match get sw.eq m k with
      | none => none
      | some v' => subMap sw ks v'

theorem getPath_null (sw : Sw) (ks : List Value) (h : ks ≠ []) : getPath sw ks .null = .null := by
  cases ks with
  | nil => exact absurd rfl h
  | cons k t => simp [getPath, tryMap]

/-- `map-get` along a path = single-level `map-get` on the nested map the path leads to -/
theorem getPath_snoc (sw : Sw) (ks : List Value) (k v : Value) :
    getPath sw (ks ++ [k]) v =
      match subMap sw ks v with
      | some m => getD sw m k
      | none => .null := by
  induction ks generalizing v with
  | nil =>
    simp only [List.nil_append, getPath, subMap]
    cases tryMap v <;> rfl
  | cons k1 ks ih =>
    simp only [List.cons_append, getPath, subMap]
    cases hv : tryMap v with
    | none => rfl
    | some m =>
      simp only [getD]
      cases hg : get sw.eq m k1 with
      | none =>
        simp only [Option.getD_none]
        exact getPath_null sw _ (by simp)
      | some v' =>
        simp only [Option.getD_some]
        exact ih v'

/-- `map-has-key` along a path = single-level `map-has-key` on the nested map the path leads to -/
theorem hasPath_snoc (sw : Sw) (ks : List Value) (k v : Value) :
    hasPath sw (ks ++ [k]) v =
      match subMap sw ks v with
      | some m => (get sw.eq m k).isSome
      | none => false := by
  induction ks generalizing v with
  | nil =>
    simp only [List.nil_append, hasPath, subMap]
    cases tryMap v with
    | none => rfl
    | some m => cases hg : get sw.eq m k <;> simp [hg]
  | cons k1 ks ih =>
    simp only [List.cons_append, hasPath, subMap]
    cases hv : tryMap v with
    | none => rfl
    | some m =>
      cases hg : get sw.eq m k1 with
      | none => simp only [hg]
      | some v' => simp only [hg]; exact ih v'

/-! ## named arguments -/

theorem slotsOf_nil_pos (nm : Named) (ps : List String) : slotsOf nm ps [] = ps.map nm.get := by
  induction ps with
  | nil => rfl
  | cons p ps ih => simp [slotsOf, ih]

/-- parameters given by position and not by name take the positional values -/
theorem slotsOf_prefix (nm : Named) (pre rest : List String) (pos : List Value)
    (hlen : pre.length = pos.length) (hpre : ∀ p, p ∈ pre → nm.get p = none) :
    slotsOf nm (pre ++ rest) pos = pos.map some ++ rest.map nm.get := by
  induction pre generalizing pos with
  | nil =>
    have : pos = [] := List.eq_nil_of_length_eq_zero hlen.symm
    subst this
    simp [slotsOf_nil_pos]
  | cons p pre ih =>
    cases pos with
    | nil => simp at hlen
    | cons v pos =>
      simp only [List.cons_append, slotsOf, hpre p (by simp), List.map_cons]
      rw [ih pos (by simpa using hlen) (fun q hq => hpre q (List.mem_cons_of_mem _ hq))]

theorem fillSlots_none (xs : List (Option Value)) (ds : List (Option Value)) (h : ∀ x, x ∈ xs → x = none) :
    fillSlots xs ds = [] := by
  cases xs with
  | nil => rfl
  | cons x rest =>
    have hx : x = none := h x (by simp)
    subst hx
    cases ds with
    | nil => rfl
    | cons d ds =>
      cases d with
      | none => rfl
      | some d =>
        have : rest.any Option.isSome = false := by
          rw [List.any_eq_false]
          intro y hy
          rw [h y (List.mem_cons_of_mem _ hy)]
          simp
        simp [fillSlots, this]

theorem fillSlots_some (vs : List Value) (tl : List (Option Value)) (ds : List (Option Value))
    (h : ∀ x, x ∈ tl → x = none) :
    fillSlots (vs.map some ++ tl) ds = vs := by
  induction vs generalizing ds with
  | nil => simpa using fillSlots_none tl ds h
  | cons v vs ih => simp [fillSlots, ih]


/-! ## `map.deep-remove` along a path -/

theorem subMap_cons_not_map (sw : Sw) (k : Value) (ks : List Value) (v : Value) (h : tryMap v = none) :
    subMap sw (k :: ks) v = none := by
  simp [subMap, h]

theorem dropKey_get (sw : Sw) (h : sw.eq.removeEq = true) (last v : Value) (m' : VPairs)
    (hm : tryMap (dropKey sw last v) = some m') : get sw.eq m' last = none := by
  unfold dropKey at hm
  cases hv : tryMap v with
  | none => simp [hv] at hm
  | some nm =>
    simp only [hv] at hm
    by_cases hc : contains sw.eq nm last = true
    · simp only [hc, if_true, tryMap, Option.some.injEq] at hm
      subst hm
      exact get_remove_self sw.eq h nm last
    · simp only [hc] at hm
      have : m' = nm := by simpa [hv] using hm.symm
      subst this
      have := contains_eq_isSome sw.eq m' last
      cases hg : get sw.eq m' last with
      | none => rfl
      | some x => simp [hg] at this; exact absurd this hc

/-- after `map.deep-remove(m, k₁ … kₙ, last)` the nested map the path leads to (if it still leads to one) has
    no `last` -/
theorem subMap_modNested (sw : Sw) (h : sw.eq.removeEq = true) (last : Value) (ks : List Value) (hne : ks ≠ [])
    (hr : ∀ x, x ∈ ks → veq sw.eq x x = true) (m m' : VPairs)
    (hs : subMap sw ks (.map (modNested sw last ks m)) = some m') : get sw.eq m' last = none := by
  induction ks generalizing m with
  | nil => exact absurd rfl hne
  | cons key rest ih =>
    have hk := hr key (by simp)
    cases rest with
    | nil =>
      simp only [modNested, subMap, tryMap_map, get_insert_self sw.eq m key _ hk] at hs
      exact dropKey_get sw h last _ m' hs
    | cons k2 rest' =>
      simp only [modNested] at hs
      cases hb : (get sw.eq m key).bind tryMap with
      | none =>
        simp only [hb, subMap, tryMap_map] at hs
        cases hg : get sw.eq m key with
        | none => simp [hg] at hs
        | some v' =>
          have hv : tryMap v' = none := by simpa [hg] using hb
          simp [hg, hv] at hs
      | some nm =>
        simp only [hb, subMap, tryMap_map, get_insert_self sw.eq m key _ hk] at hs
        exact ih (by simp) (fun x hx => hr x (List.mem_cons_of_mem _ hx)) nm hs

end Grass.Builtins
