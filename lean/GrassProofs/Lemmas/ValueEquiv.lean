import Grass.Value
import GrassProofs.Lemmas.ValueNum
import GrassProofs.Lemmas.ValueEq
/-
  Helper lemmas for C09: `veq sw` is reflexive (NaN-free values), transitive and symmetric on the
  values described by `ok sw` (see ValueEq.lean), for every variant `sw` with `canon = true`.
-/
set_option linter.unusedSimpArgs false
namespace Grass.Value

/-! ### numbers and colours -/

theorem hs_of (sw : Sw) (u1 u2 : U) (h1 : (sw.canonSame || u1.isCanon) = true)
    (h2 : (sw.canonSame || u2.isCanon) = true) :
    sw.canonSame = true ∨ (u1.isCanon = true ∧ u2.isCanon = true) := by
  cases h : sw.canonSame <;> simp_all

theorem numEq_trans (sw : Sw) (hc : sw.canon = true) (n1 n2 n3 : Num) (u1 u2 u3 : U)
    (h1 : (sw.canonSame || u1.isCanon) = true) (h2 : (sw.canonSame || u2.isCanon) = true)
    (h3 : (sw.canonSame || u3.isCanon) = true)
    (hab : numEq sw n1 u1 n2 u2 = true) (hbc : numEq sw n2 u2 n3 u3 = true) :
    numEq sw n1 u1 n3 u3 = true := by
  rw [numEq_char sw _ _ _ _ hc (hs_of sw _ _ h1 h2)] at hab
  rw [numEq_char sw _ _ _ _ hc (hs_of sw _ _ h2 h3)] at hbc
  rw [numEq_char sw _ _ _ _ hc (hs_of sw _ _ h1 h3)]
  simp only [Bool.and_eq_true, decide_eq_true_eq] at *
  exact ⟨hab.1.trans hbc.1, fuzzyN_trans _ _ _ hab.2 hbc.2⟩

theorem numEq_symm (sw : Sw) (hc : sw.canon = true) (n1 n2 : Num) (u1 u2 : U)
    (h1 : (sw.canonSame || u1.isCanon) = true) (h2 : (sw.canonSame || u2.isCanon) = true)
    (hab : numEq sw n1 u1 n2 u2 = true) : numEq sw n2 u2 n1 u1 = true := by
  rw [numEq_char sw _ _ _ _ hc (hs_of sw _ _ h1 h2)] at hab
  rw [numEq_char sw _ _ _ _ hc (hs_of sw _ _ h2 h1)]
  simp only [Bool.and_eq_true, decide_eq_true_eq] at *
  exact ⟨hab.1.symm, fuzzyN_symm _ _ hab.2⟩

theorem chanEq_eq (lim x y : Rat) (hx : x ≤ lim) (hy : y ≤ lim) : chanEq lim x y = fuzzyEq x y := by
  unfold chanEq
  by_cases h : lim ≤ x ∧ lim ≤ y
  · have : x = y := by grind
    subst this; simp [fuzzyEq_refl]
  · have : (decide (lim ≤ x) && decide (lim ≤ y)) = false := by
      simp only [Bool.and_eq_false_iff, decide_eq_false_iff_not]
      by_cases h1 : lim ≤ x
      · exact Or.inr (fun h2 => h ⟨h1, h2⟩)
      · exact Or.inl h1
    simp [this]

theorem colorEq_char (r1 g1 b1 a1 r2 g2 b2 a2 : Rat)
    (h1 : r1 ≤ 255 ∧ g1 ≤ 255 ∧ b1 ≤ 255 ∧ a1 ≤ 1) (h2 : r2 ≤ 255 ∧ g2 ≤ 255 ∧ b2 ≤ 255 ∧ a2 ≤ 1) :
    colorEq r1 g1 b1 a1 r2 g2 b2 a2 =
      (fuzzyEq a1 a2 && fuzzyEq r1 r2 && fuzzyEq g1 g2 && fuzzyEq b1 b2) := by
  unfold colorEq
  rw [chanEq_eq 1 a1 a2 h1.2.2.2 h2.2.2.2, chanEq_eq 255 r1 r2 h1.1 h2.1,
    chanEq_eq 255 g1 g2 h1.2.1 h2.2.1, chanEq_eq 255 b1 b2 h1.2.2.1 h2.2.2.1]
  cases fuzzyEq a1 a2 <;> simp

theorem colorEq_refl (r g b a : Rat) : colorEq r g b a r g b a = true := by
  simp [colorEq, chanEq, fuzzyEq_refl]

/-! ### reflexivity -/

mutual
  theorem veq_refl' (sw : Sw) : ∀ (a : Value), noNaN a = true → veq sw a a = true
    | .null, _ => by simp [veq]
    | .bool b, _ => by simp [veq]
    | .num n u, h => by
      simp only [noNaN, Bool.not_eq_true'] at h
      simp only [veq]; exact numEq_refl sw n u h
    | .str s q, _ => by simp [veq]
    | .color r g b a, _ => by simp only [veq]; exact colorEq_refl r g b a
    | .list es sp br, h => by
      simp only [noNaN] at h
      simp [veq, veqL_refl' sw es h]
    | .map ps, h => by
      simp only [noNaN] at h
      simp only [veq, decide_true, Bool.true_and]
      rw [subP_iff]; intro e he; rw [any_iff]
      have := veqP_refl' sw ps h e he
      exact ⟨e, he, by simp [this.1, this.2]⟩
    | .arglist es kw sp, h => by
      simp only [noNaN, Bool.and_eq_true] at h
      simp only [veq]
      split <;> simp [veqL_refl' sw es h.1, veqKw_refl' sw kw h.2]
  theorem veqL_refl' (sw : Sw) : ∀ (l : VList), noNaNL l = true → veqL sw l l = true
    | .nil, _ => by simp [veqL]
    | .cons v t, h => by
      simp only [noNaNL, Bool.and_eq_true] at h
      simp [veqL, veq_refl' sw v h.1, veqL_refl' sw t h.2]
  theorem veqKw_refl' (sw : Sw) : ∀ (p : VPairs), noNaNP p = true → veqKw sw p p = true
    | .nil, _ => by simp [veqKw]
    | .cons k v t, h => by
      simp only [noNaNP, Bool.and_eq_true] at h
      simp [veqKw, veq_refl' sw k h.1.1, veq_refl' sw v h.1.2, veqKw_refl' sw t h.2]
  theorem veqP_refl' (sw : Sw) : ∀ (p : VPairs), noNaNP p = true →
      ∀ e ∈ p.toList, veq sw e.1 e.1 = true ∧ veq sw e.2 e.2 = true
    | .nil, _, e, he => by simp [VPairs.toList] at he
    | .cons k v t, h, e, he => by
      simp only [noNaNP, Bool.and_eq_true] at h
      simp only [VPairs.toList, List.mem_cons] at he
      rcases he with he | he
      · subst he; exact ⟨veq_refl' sw k h.1.1, veq_refl' sw v h.1.2⟩
      · exact veqP_refl' sw t h.2 e he
end

/-! ### list-like values: a list, or (when argument lists are compared as lists) an argument list -/

def lview : Value → Option (VList × Sep × Bool)
  | .list l s b => some (l, s, b)
  | .arglist l _ s => some (l, s, false)
  | _ => none

theorem veq_lview (sw : Sw) (a b : Value) (ha : ok sw a = true) (hb : ok sw b = true)
    (l1 : VList) (s1 : Sep) (b1 : Bool) (hv : lview a = some (l1, s1, b1)) :
    veq sw a b = true ↔
      ∃ l2 s2 b2, lview b = some (l2, s2, b2) ∧ s1 = s2 ∧ b1 = b2 ∧ veqL sw l1 l2 = true := by
  cases a <;> simp only [lview, Option.some.injEq, Prod.mk.injEq, reduceCtorEq] at hv
  · obtain ⟨rfl, rfl, rfl⟩ := hv
    cases b <;> simp only [veq, lview, Bool.false_eq_true, false_iff, reduceCtorEq, false_and, exists_false,
      not_false_eq_true, exists_const]
    · simp only [Bool.and_eq_true, decide_eq_true_eq, Option.some.injEq, Prod.mk.injEq]
      constructor
      · rintro ⟨⟨h1, h2⟩, h3⟩; exact ⟨_, _, _, ⟨rfl, rfl, rfl⟩, h1, h2, h3⟩
      · rintro ⟨l2, s2, b2, ⟨rfl, rfl, rfl⟩, h1, h2, h3⟩; exact ⟨⟨h1, h2⟩, h3⟩
    · simp only [ok, Bool.and_eq_true] at hb
      simp only [hb.1.1, if_true, Bool.and_eq_true, decide_eq_true_eq, Option.some.injEq, Prod.mk.injEq]
      constructor
      · rintro ⟨⟨h1, h2⟩, h3⟩; exact ⟨_, _, _, ⟨rfl, rfl, rfl⟩, h1, h2, h3⟩
      · rintro ⟨l2, s2, b2, ⟨rfl, rfl, rfl⟩, h1, h2, h3⟩; exact ⟨⟨h1, h2⟩, h3⟩
  · obtain ⟨rfl, rfl, rfl⟩ := hv
    simp only [ok, Bool.and_eq_true] at ha
    cases b <;> simp only [veq, lview, Bool.false_eq_true, false_iff, reduceCtorEq, false_and, exists_false,
      not_false_eq_true, exists_const]
    · simp only [ha.1.1, if_true, Bool.and_eq_true, decide_eq_true_eq, Option.some.injEq, Prod.mk.injEq]
      constructor
      · rintro ⟨⟨h1, h2⟩, h3⟩; exact ⟨_, _, _, ⟨rfl, rfl, rfl⟩, h1, h2, h3⟩
      · rintro ⟨l2, s2, b2, ⟨rfl, rfl, rfl⟩, h1, h2, h3⟩; exact ⟨⟨h1, h2⟩, h3⟩
    · simp only [ha.1.1, if_true, Bool.and_eq_true, decide_eq_true_eq, Option.some.injEq, Prod.mk.injEq]
      constructor
      · rintro ⟨h1, h3⟩; exact ⟨_, _, _, ⟨rfl, rfl, rfl⟩, h1, rfl, h3⟩
      · rintro ⟨l2, s2, b2, ⟨rfl, rfl, rfl⟩, h1, _, h3⟩; exact ⟨h1, h3⟩

theorem okL_of_lview (sw : Sw) (a : Value) (ha : ok sw a = true) (l : VList) (s : Sep) (b : Bool)
    (hv : lview a = some (l, s, b)) : okL sw l = true := by
  cases a <;> simp only [lview, Option.some.injEq, Prod.mk.injEq, reduceCtorEq] at hv
  · obtain ⟨rfl, rfl, rfl⟩ := hv; simpa [ok] using ha
  · obtain ⟨rfl, rfl, rfl⟩ := hv
    simp only [ok, Bool.and_eq_true] at ha; exact ha.1.2

/-! ### transitivity -/

mutual
  theorem veq_trans' (sw : Sw) (hc : sw.canon = true) : ∀ (a b c : Value),
      ok sw a = true → ok sw b = true → ok sw c = true →
      veq sw a b = true → veq sw b c = true → veq sw a c = true
    | .null, b, c, _, _, _, h1, h2 => by
      cases b <;> simp only [veq, Bool.false_eq_true] at h1
      exact h2
    | .bool x, b, c, _, _, _, h1, h2 => by
      cases b <;> simp only [veq, Bool.false_eq_true, beq_iff_eq] at h1
      subst h1; exact h2
    | .num n1 u1, b, c, ha, hb, hc', h1, h2 => by
      cases b <;> simp only [veq, Bool.false_eq_true] at h1
      rename_i n2 u2
      cases c <;> simp only [veq, Bool.false_eq_true] at h2
      rename_i n3 u3
      simp only [ok] at ha hb hc'
      simp only [veq]
      exact numEq_trans sw hc n1 n2 n3 u1 u2 u3 ha hb hc' h1 h2
    | .str s1 q1, b, c, _, _, _, h1, h2 => by
      cases b <;> simp only [veq, Bool.false_eq_true, decide_eq_true_eq] at h1
      subst h1
      cases c <;> simp only [veq, Bool.false_eq_true, decide_eq_true_eq] at h2 ⊢
      exact h2
    | .color r1 g1 b1 a1, b, c, ha, hb, hc', h1, h2 => by
      cases b <;> simp only [veq, Bool.false_eq_true] at h1
      rename_i r2 g2 b2 a2
      cases c <;> simp only [veq, Bool.false_eq_true] at h2
      rename_i r3 g3 b3 a3
      simp only [ok, Bool.and_eq_true, decide_eq_true_eq] at ha hb hc'
      have ha' : r1 ≤ 255 ∧ g1 ≤ 255 ∧ b1 ≤ 255 ∧ a1 ≤ 1 := ⟨ha.1.1.1, ha.1.1.2, ha.1.2, ha.2⟩
      have hb' : r2 ≤ 255 ∧ g2 ≤ 255 ∧ b2 ≤ 255 ∧ a2 ≤ 1 := ⟨hb.1.1.1, hb.1.1.2, hb.1.2, hb.2⟩
      have hc'' : r3 ≤ 255 ∧ g3 ≤ 255 ∧ b3 ≤ 255 ∧ a3 ≤ 1 := ⟨hc'.1.1.1, hc'.1.1.2, hc'.1.2, hc'.2⟩
      rw [colorEq_char _ _ _ _ _ _ _ _ ha' hb'] at h1
      rw [colorEq_char _ _ _ _ _ _ _ _ hb' hc''] at h2
      simp only [veq]
      rw [colorEq_char _ _ _ _ _ _ _ _ ha' hc'']
      simp only [Bool.and_eq_true] at h1 h2 ⊢
      exact ⟨⟨⟨fuzzyEq_trans _ _ _ h1.1.1.1 h2.1.1.1, fuzzyEq_trans _ _ _ h1.1.1.2 h2.1.1.2⟩,
        fuzzyEq_trans _ _ _ h1.1.2 h2.1.2⟩, fuzzyEq_trans _ _ _ h1.2 h2.2⟩
    | .list l1 s1 b1, b, c, ha, hb, hc', h1, h2 => by
      have hv : lview (.list l1 s1 b1) = some (l1, s1, b1) := rfl
      obtain ⟨l2, s2, b2, hv2, e1, e2, h12⟩ := (veq_lview sw _ b ha hb _ _ _ hv).1 h1
      obtain ⟨l3, s3, b3, hv3, e3, e4, h23⟩ := (veq_lview sw b c hb hc' _ _ _ hv2).1 h2
      exact (veq_lview sw _ c ha hc' _ _ _ hv).2 ⟨l3, s3, b3, hv3, e1.trans e3, e2.trans e4,
        veqL_trans' sw hc l1 l2 l3 (by simpa [ok] using ha) (okL_of_lview sw b hb _ _ _ hv2)
          (okL_of_lview sw c hc' _ _ _ hv3) h12 h23⟩
    | .arglist l1 k1 sp1, b, c, ha, hb, hc', h1, h2 => by
      have hv : lview (.arglist l1 k1 sp1) = some (l1, sp1, false) := rfl
      obtain ⟨l2, s2, b2, hv2, e1, e2, h12⟩ := (veq_lview sw _ b ha hb _ _ _ hv).1 h1
      obtain ⟨l3, s3, b3, hv3, e3, e4, h23⟩ := (veq_lview sw b c hb hc' _ _ _ hv2).1 h2
      exact (veq_lview sw _ c ha hc' _ _ _ hv).2 ⟨l3, s3, b3, hv3, e1.trans e3, e2.trans e4,
        veqL_trans' sw hc l1 l2 l3 (by simp only [ok, Bool.and_eq_true] at ha; exact ha.1.2)
          (okL_of_lview sw b hb _ _ _ hv2) (okL_of_lview sw c hc' _ _ _ hv3) h12 h23⟩
    | .map p1, b, c, ha, hb, hc', h1, h2 => by
      cases b <;> simp only [veq, Bool.false_eq_true] at h1
      rename_i p2
      cases c <;> simp only [veq, Bool.false_eq_true] at h2
      rename_i p3
      simp only [ok] at ha hb hc'
      simp only [veq, Bool.and_eq_true, decide_eq_true_eq] at h1 h2 ⊢
      exact ⟨h1.1.trans h2.1, subP_trans' sw hc p1 p2 p3 ha hb hc' h1.2 h2.2⟩
  theorem veqL_trans' (sw : Sw) (hc : sw.canon = true) : ∀ (l1 l2 l3 : VList),
      okL sw l1 = true → okL sw l2 = true → okL sw l3 = true →
      veqL sw l1 l2 = true → veqL sw l2 l3 = true → veqL sw l1 l3 = true
    | .nil, l2, l3, _, _, _, h1, h2 => by
      cases l2 <;> simp only [veqL, Bool.false_eq_true] at h1
      exact h2
    | .cons a t, l2, l3, ha, hb, hc', h1, h2 => by
      cases l2 <;> simp only [veqL, Bool.false_eq_true, Bool.and_eq_true] at h1
      rename_i b u
      cases l3 <;> simp only [veqL, Bool.false_eq_true, Bool.and_eq_true] at h2
      rename_i c w
      simp only [okL, Bool.and_eq_true] at ha hb hc'
      simp only [veqL, Bool.and_eq_true]
      exact ⟨veq_trans' sw hc a b c ha.1 hb.1 hc'.1 h1.1 h2.1,
        veqL_trans' sw hc t u w ha.2 hb.2 hc'.2 h1.2 h2.2⟩
  theorem subP_trans' (sw : Sw) (hc : sw.canon = true) : ∀ (p q r : VPairs),
      okP sw p = true → okP sw q = true → okP sw r = true →
      subP sw p q = true → subP sw q r = true → subP sw p r = true
    | .nil, _, _, _, _, _, _, _ => by simp [subP]
    | .cons k v t, q, r, hp, hq, hr, h1, h2 => by
      simp only [subP, Bool.and_eq_true] at h1 ⊢
      simp only [okP, Bool.and_eq_true] at hp
      refine ⟨?_, subP_trans' sw hc t q r hp.2 hq hr h1.2 h2⟩
      obtain ⟨x, hx, hfx⟩ := (any_iff _ q).1 h1.1
      simp only [Bool.and_eq_true] at hfx
      have := (subP_iff sw q r).1 h2 x hx
      obtain ⟨y, hy, hfy⟩ := (any_iff _ r).1 this
      simp only [Bool.and_eq_true] at hfy
      have okx := okP_mem sw q hq x hx
      have oky := okP_mem sw r hr y hy
      exact (any_iff _ r).2 ⟨y, hy, by
        simp [veq_trans' sw hc k x.1 y.1 hp.1.1 okx.1 oky.1 hfx.1 hfy.1,
          veq_trans' sw hc v x.2 y.2 hp.1.2 okx.2 oky.2 hfx.2 hfy.2]⟩
end

/-! ### symmetry (needs pairwise unequal keys in the maps of the left operand) -/

theorem mapWfP_mem (sw : Sw) : ∀ (p : VPairs), mapWfP sw p = true →
    ∀ e ∈ p.toList, mapWf sw e.1 = true ∧ mapWf sw e.2 = true
  | .nil, _, e, he => by simp [VPairs.toList] at he
  | .cons k v t, h, e, he => by
    simp only [mapWfP, Bool.and_eq_true] at h
    simp only [VPairs.toList, List.mem_cons] at he
    rcases he with he | he
    · subst he; exact ⟨h.1.1, h.1.2⟩
    · exact mapWfP_mem sw t h.2 e he

mutual
  theorem veq_symm' (sw : Sw) (hc : sw.canon = true) : ∀ (a b : Value),
      ok sw a = true → ok sw b = true → mapWf sw a = true →
      veq sw a b = true → veq sw b a = true
    | .null, b, _, _, _, h1 => by
      cases b <;> simp only [veq, Bool.false_eq_true] at h1 ⊢
    | .bool x, b, _, _, _, h1 => by
      cases b <;> simp only [veq, Bool.false_eq_true, beq_iff_eq] at h1 ⊢
      exact h1.symm
    | .num n1 u1, b, ha, hb, _, h1 => by
      cases b <;> simp only [veq, Bool.false_eq_true] at h1 ⊢
      simp only [ok] at ha hb
      exact numEq_symm sw hc _ _ _ _ ha hb h1
    | .str s1 q1, b, _, _, _, h1 => by
      cases b <;> simp only [veq, Bool.false_eq_true, decide_eq_true_eq] at h1 ⊢
      exact h1.symm
    | .color r1 g1 b1 a1, b, ha, hb, _, h1 => by
      cases b <;> simp only [veq, Bool.false_eq_true] at h1 ⊢
      rename_i r2 g2 b2 a2
      simp only [ok, Bool.and_eq_true, decide_eq_true_eq] at ha hb
      have ha' : r1 ≤ 255 ∧ g1 ≤ 255 ∧ b1 ≤ 255 ∧ a1 ≤ 1 := ⟨ha.1.1.1, ha.1.1.2, ha.1.2, ha.2⟩
      have hb' : r2 ≤ 255 ∧ g2 ≤ 255 ∧ b2 ≤ 255 ∧ a2 ≤ 1 := ⟨hb.1.1.1, hb.1.1.2, hb.1.2, hb.2⟩
      rw [colorEq_char _ _ _ _ _ _ _ _ ha' hb'] at h1
      rw [colorEq_char _ _ _ _ _ _ _ _ hb' ha']
      simp only [Bool.and_eq_true] at h1 ⊢
      exact ⟨⟨⟨fuzzyEq_symm _ _ h1.1.1.1, fuzzyEq_symm _ _ h1.1.1.2⟩, fuzzyEq_symm _ _ h1.1.2⟩,
        fuzzyEq_symm _ _ h1.2⟩
    | .list l1 s1 b1, b, ha, hb, hw, h1 => by
      have hv : lview (.list l1 s1 b1) = some (l1, s1, b1) := rfl
      obtain ⟨l2, s2, b2, hv2, e1, e2, h12⟩ := (veq_lview sw _ b ha hb _ _ _ hv).1 h1
      exact (veq_lview sw b _ hb ha _ _ _ hv2).2 ⟨l1, s1, b1, hv, e1.symm, e2.symm,
        veqL_symm' sw hc l1 l2 (by simpa [ok] using ha) (okL_of_lview sw b hb _ _ _ hv2)
          (by simpa [mapWf] using hw) h12⟩
    | .arglist l1 k1 sp1, b, ha, hb, hw, h1 => by
      have hv : lview (.arglist l1 k1 sp1) = some (l1, sp1, false) := rfl
      obtain ⟨l2, s2, b2, hv2, e1, e2, h12⟩ := (veq_lview sw _ b ha hb _ _ _ hv).1 h1
      exact (veq_lview sw b _ hb ha _ _ _ hv2).2 ⟨l1, sp1, false, hv, e1.symm, e2.symm,
        veqL_symm' sw hc l1 l2 (by simp only [ok, Bool.and_eq_true] at ha; exact ha.1.2)
          (okL_of_lview sw b hb _ _ _ hv2)
          (by simp only [mapWf, Bool.and_eq_true] at hw; exact hw.1) h12⟩
    | .map p, b, ha, hb, hw, h1 => by
      cases b <;> simp only [veq, Bool.false_eq_true] at h1 ⊢
      rename_i q
      simp only [ok] at ha hb
      simp only [mapWf, Bool.and_eq_true] at hw
      simp only [Bool.and_eq_true, decide_eq_true_eq] at h1 ⊢
      refine ⟨h1.1.symm, subP_symm_of sw p q h1.1 h1.2 hw.1 ?_ ?_⟩
      · intro e he x hx
        have okx := okP_mem sw q hb x hx
        have := veqP_symm' sw hc p ha hw.2 e he
        exact ⟨this.1 x.1 okx.1, this.2 x.2 okx.2⟩
      · intro e he e' he' x hx h2 h3
        have oke := okP_mem sw p ha e he
        have oke' := okP_mem sw p ha e' he'
        have okx := okP_mem sw q hb x hx
        exact veq_trans' sw hc e.1 x.1 e'.1 oke.1 okx.1 oke'.1 h2 h3
  theorem veqL_symm' (sw : Sw) (hc : sw.canon = true) : ∀ (l1 l2 : VList),
      okL sw l1 = true → okL sw l2 = true → mapWfL sw l1 = true →
      veqL sw l1 l2 = true → veqL sw l2 l1 = true
    | .nil, l2, _, _, _, h1 => by
      cases l2 <;> simp only [veqL, Bool.false_eq_true] at h1 ⊢
    | .cons a t, l2, ha, hb, hw, h1 => by
      cases l2 <;> simp only [veqL, Bool.false_eq_true, Bool.and_eq_true] at h1 ⊢
      rename_i b u
      simp only [okL, Bool.and_eq_true] at ha hb
      simp only [mapWfL, Bool.and_eq_true] at hw
      exact ⟨veq_symm' sw hc a b ha.1 hb.1 hw.1 h1.1, veqL_symm' sw hc t u ha.2 hb.2 hw.2 h1.2⟩
  theorem veqP_symm' (sw : Sw) (hc : sw.canon = true) : ∀ (p : VPairs),
      okP sw p = true → mapWfP sw p = true →
      ∀ e ∈ p.toList, (∀ x, ok sw x = true → veq sw e.1 x = true → veq sw x e.1 = true) ∧
        (∀ x, ok sw x = true → veq sw e.2 x = true → veq sw x e.2 = true)
    | .nil, _, _, e, he => by simp [VPairs.toList] at he
    | .cons k v t, hp, hw, e, he => by
      simp only [okP, Bool.and_eq_true] at hp
      simp only [mapWfP, Bool.and_eq_true] at hw
      simp only [VPairs.toList, List.mem_cons] at he
      rcases he with he | he
      · subst he
        exact ⟨fun x hx h => veq_symm' sw hc k x hp.1.1 hx hw.1.1 h,
          fun x hx h => veq_symm' sw hc v x hp.1.2 hx hw.1.2 h⟩
      · exact veqP_symm' sw hc t hp.2 hw.2 e he
end

end Grass.Value
