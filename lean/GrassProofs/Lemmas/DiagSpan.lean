import Grass.Diag
/-
  Helper lemmas for C19, part 1: bytes, boundaries, tokens, the two lexer invariants
  (`Fits` = offsets stay inside the source span, `Aligned` = offsets are character boundaries of
  the file) and the codemap look-up.
-/
namespace Grass.Diag

theorem utf8Size_pos' (c : Char) : 0 < c.utf8Size := Char.utf8Size_pos c

/-! ### boundaries -/

theorem isBoundary_zero (cs : List Char) : isBoundary cs 0 = true := by
  cases cs <;> simp [isBoundary]

theorem isBoundary_cons_add (c : Char) (cs : List Char) (k : Nat) :
    isBoundary (c :: cs) (k + c.utf8Size) = isBoundary cs k := by
  have hp := utf8Size_pos' c
  obtain ⟨m, hm⟩ : ∃ m, k + c.utf8Size = m + 1 := ⟨k + c.utf8Size - 1, by omega⟩
  rw [hm, isBoundary]
  have : ¬ (m + 1 < c.utf8Size) := by omega
  simp only [this, if_false]
  congr 1; omega

theorem isBoundary_byteLen (cs : List Char) : isBoundary cs (byteLen cs) = true := by
  induction cs with
  | nil => simp [byteLen, isBoundary]
  | cons c cs ih =>
    rw [byteLen, Nat.add_comm, isBoundary_cons_add]; exact ih

theorem isBoundary_le : ∀ (cs : List Char) (n : Nat), isBoundary cs n = true → n ≤ byteLen cs := by
  intro cs
  induction cs with
  | nil => intro n h; cases n <;> simp_all [isBoundary]
  | cons c cs ih =>
    intro n h
    cases n with
    | zero => omega
    | succ n =>
      rw [isBoundary] at h
      split at h
      · cases h
      · have := ih _ h
        simp only [byteLen]; omega

theorem isBoundary_append_left (pre r : List Char) (k : Nat) :
    isBoundary (pre ++ r) (byteLen pre + k) = isBoundary r k := by
  induction pre with
  | nil => simp [byteLen]
  | cons c pre ih =>
    have : byteLen (c :: pre) + k = (byteLen pre + k) + c.utf8Size := by simp only [byteLen]; omega
    rw [List.cons_append, this, isBoundary_cons_add, ih]

theorem isBoundary_append_right : ∀ (s post : List Char) (k : Nat),
    isBoundary s k = true → isBoundary (s ++ post) k = true := by
  intro s
  induction s with
  | nil => intro post k h; cases k <;> simp_all [isBoundary, isBoundary_zero]
  | cons c s ih =>
    intro post k h
    cases k with
    | zero => simp [isBoundary]
    | succ k =>
      rw [isBoundary] at h
      rw [List.cons_append, isBoundary]
      split
      · simp_all
      · simp_all

theorem dropBytes_some : ∀ (cs : List Char) (n : Nat) (r : List Char),
    dropBytes cs n = some r → ∃ pre, cs = pre ++ r ∧ byteLen pre = n := by
  intro cs
  induction cs with
  | nil =>
    intro n r h
    cases n with
    | zero => simp [dropBytes] at h; exact ⟨[], by simp [h, byteLen]⟩
    | succ n => simp [dropBytes] at h
  | cons c cs ih =>
    intro n r h
    cases n with
    | zero => simp [dropBytes] at h; exact ⟨[], by simp [h, byteLen]⟩
    | succ n =>
      rw [dropBytes] at h
      split at h
      · cases h
      · obtain ⟨pre, h1, h2⟩ := ih _ _ h
        exact ⟨c :: pre, by simp [h1], by simp only [byteLen]; omega⟩

theorem takeBytes_some : ∀ (cs : List Char) (n : Nat) (s : List Char),
    takeBytes cs n = some s → ∃ post, cs = s ++ post ∧ byteLen s = n := by
  intro cs
  induction cs with
  | nil =>
    intro n s h
    cases n with
    | zero => simp [takeBytes] at h; subst h; exact ⟨[], by simp [byteLen]⟩
    | succ n => simp [takeBytes] at h
  | cons c cs ih =>
    intro n s h
    cases n with
    | zero => simp [takeBytes] at h; subst h; exact ⟨c :: cs, by simp [byteLen]⟩
    | succ n =>
      rw [takeBytes] at h
      split at h
      · cases h
      · cases h' : takeBytes cs (n + 1 - c.utf8Size) with
        | none => simp [h'] at h
        | some s' =>
          simp [h'] at h
          obtain ⟨post, h1, h2⟩ := ih _ _ h'
          exact ⟨post, by simp [← h, h1], by rw [← h]; simp only [byteLen]; omega⟩

theorem slice_some (file : List Char) (sp : Span) (s : List Char) (h : slice file sp = some s) :
    ∃ pre post, file = pre ++ s ++ post ∧ byteLen pre = sp.lo ∧ sp.lo + byteLen s = sp.hi := by
  unfold slice at h
  split at h
  · rename_i hle
    cases hd : dropBytes file sp.lo with
    | none => simp [hd] at h
    | some r =>
      simp [hd] at h
      obtain ⟨pre, h1, h2⟩ := dropBytes_some _ _ _ hd
      obtain ⟨post, h3, h4⟩ := takeBytes_some _ _ _ h
      exact ⟨pre, post, by rw [h1, h3, List.append_assoc], h2, by omega⟩
  · cases h

/-! ### tokens -/

/-- Every token produced by `TokenLexer` starts and stops on a character boundary of the text it
    was lexed from and lies inside it (`cur` = byte cursor at the start). -/
theorem tokenize_inv : ∀ (cs : List Char) (cur : Nat) (t : Tok), t ∈ tokenize cs cur →
    cur ≤ t.pos ∧ isBoundary cs (t.pos - cur) = true ∧ isBoundary cs (t.stop - cur) = true
      ∧ t.stop ≤ cur + byteLen cs := by
  intro cs cur
  fun_induction tokenize cs cur with
  | case1 => intro t h; cases h
  | case2 cs cur ih =>
    -- form feed
    intro t h
    have hff : ('\x0c' : Char).utf8Size = 1 := by decide
    have hnl : ('\n' : Char).utf8Size = 1 := by decide
    rcases List.mem_cons.mp h with h | h
    · subst h
      refine ⟨Nat.le_refl _, by simp [isBoundary_zero], ?_, ?_⟩
      · have := isBoundary_cons_add '\x0c' cs 0
        simp only [Tok.stop, hnl]
        rw [hff] at this
        simpa [isBoundary_zero] using this
      · simp only [Tok.stop, hnl, byteLen, hff]; omega
    · obtain ⟨h1, h2, h3, h4⟩ := ih t h
      refine ⟨by omega, ?_, ?_, by simp only [byteLen, hff]; omega⟩
      · have := isBoundary_cons_add '\x0c' cs (t.pos - (cur + 1))
        rw [hff] at this
        rw [← h2, ← this]; congr 1; omega
      · have := isBoundary_cons_add '\x0c' cs (t.stop - (cur + 1))
        rw [hff] at this
        have hs : cur + 1 ≤ t.stop := by simp only [Tok.stop]; omega
        rw [← h3, ← this]; congr 1; omega
  | case3 cur _ =>
    -- lone `\r` at the end
    intro t h
    have hcr : ('\r' : Char).utf8Size = 1 := by decide
    have hnl : ('\n' : Char).utf8Size = 1 := by decide
    simp only [List.mem_singleton] at h
    subst h
    refine ⟨Nat.le_refl _, by simp [isBoundary_zero], ?_, ?_⟩
    · have := isBoundary_cons_add '\r' [] 0
      simp only [Tok.stop, hnl]
      rw [hcr] at this
      simpa [isBoundary_zero] using this
    · simp only [Tok.stop, hnl, byteLen, hcr]; omega
  | case4 cur cs' _ ih =>
    -- `\r\n`
    intro t h
    have hcr : ('\r' : Char).utf8Size = 1 := by decide
    have hnl : ('\n' : Char).utf8Size = 1 := by decide
    have step : ∀ k, isBoundary ('\r' :: '\n' :: cs') (k + 2) = isBoundary cs' k := by
      intro k
      have a := isBoundary_cons_add '\r' ('\n' :: cs') (k + 1)
      have b := isBoundary_cons_add '\n' cs' k
      rw [hcr] at a; rw [hnl] at b
      rw [show k + 2 = k + 1 + 1 from rfl, a, b]
    rcases List.mem_cons.mp h with h | h
    · subst h
      refine ⟨by simp, ?_, ?_, ?_⟩
      · have a := isBoundary_cons_add '\r' ('\n' :: cs') 0
        rw [hcr] at a
        simpa [isBoundary_zero] using a
      · have := step 0
        simp only [Tok.stop, hnl]
        rw [show cur + 1 + 1 - cur = 0 + 2 by omega, this, isBoundary_zero]
      · simp only [Tok.stop, hnl, byteLen, hcr]; omega
    · obtain ⟨h1, h2, h3, h4⟩ := ih t h
      have hs : cur + 2 ≤ t.stop := by simp only [Tok.stop]; omega
      refine ⟨by omega, ?_, ?_, by simp only [byteLen, hcr, hnl]; omega⟩
      · rw [← h2, ← step]; congr 1; omega
      · rw [← h3, ← step]; congr 1; omega
  | case5 cur d cs' hd _ ih =>
    -- `\r` followed by something else
    intro t h
    have hcr : ('\r' : Char).utf8Size = 1 := by decide
    have hnl : ('\n' : Char).utf8Size = 1 := by decide
    rcases List.mem_cons.mp h with h | h
    · subst h
      refine ⟨Nat.le_refl _, by simp [isBoundary_zero], ?_, ?_⟩
      · have := isBoundary_cons_add '\r' (d :: cs') 0
        simp only [Tok.stop, hnl]
        rw [hcr] at this
        simpa [isBoundary_zero] using this
      · simp only [Tok.stop, hnl]; simp only [byteLen, hcr]; omega
    · obtain ⟨h1, h2, h3, h4⟩ := ih t h
      have hs : cur + 1 ≤ t.stop := by simp only [Tok.stop]; omega
      refine ⟨by omega, ?_, ?_, by simp only [byteLen, hcr] at *; omega⟩
      · have := isBoundary_cons_add '\r' (d :: cs') (t.pos - (cur + 1))
        rw [hcr] at this
        rw [← h2, ← this]; congr 1; omega
      · have := isBoundary_cons_add '\r' (d :: cs') (t.stop - (cur + 1))
        rw [hcr] at this
        rw [← h3, ← this]; congr 1; omega
  | case6 c cs cur _ _ ih =>
    intro t h
    rcases List.mem_cons.mp h with h | h
    · subst h
      refine ⟨Nat.le_refl _, by simp [isBoundary_zero], ?_, ?_⟩
      · have := isBoundary_cons_add c cs 0
        simp only [Tok.stop]
        rw [show cur + c.utf8Size - cur = 0 + c.utf8Size by omega, this, isBoundary_zero]
      · simp only [Tok.stop, byteLen]; omega
    · obtain ⟨h1, h2, h3, h4⟩ := ih t h
      have hp := utf8Size_pos' c
      have hs : cur + c.utf8Size ≤ t.stop := by simp only [Tok.stop]; omega
      refine ⟨by omega, ?_, ?_, by simp only [byteLen]; omega⟩
      · have := isBoundary_cons_add c cs (t.pos - (cur + c.utf8Size))
        rw [← h2, ← this]; congr 1; omega
      · have := isBoundary_cons_add c cs (t.stop - (cur + c.utf8Size))
        rw [← h3, ← this]; congr 1; omega

theorem tokenize0_inv (cs : List Char) (t : Tok) (h : t ∈ tokenize cs 0) :
    isBoundary cs t.pos = true ∧ isBoundary cs t.stop = true ∧ t.stop ≤ byteLen cs := by
  have := tokenize_inv cs 0 t h
  simpa using this.2

/-! ### the two lexer invariants -/

/-- Offsets stay inside the source span, which lies inside the file (`n` = file length). -/
structure Lexer.Fits (lx : Lexer) (n : Nat) : Prop where
  ent : lx.entire.lo ≤ lx.entire.hi ∧ lx.entire.hi ≤ n
  toks : lx.isExpanded = false → ∀ t ∈ lx.buf, t.stop ≤ lx.entire.len

/-- The source span and — unless expanded — every token offset applied to it are character
    boundaries of the file. -/
structure Lexer.Aligned (lx : Lexer) (file : List Char) : Prop where
  ent : isBoundary file lx.entire.lo = true ∧ isBoundary file lx.entire.hi = true
  toks : lx.isExpanded = false → ∀ t ∈ lx.buf,
    isBoundary file (lx.entire.lo + t.pos) = true ∧ isBoundary file (lx.entire.lo + t.stop) = true

def Span.Within (sp : Span) (outer : Span) (n : Nat) : Prop :=
  sp.lo ≤ sp.hi ∧ sp.hi ≤ n ∧ outer.lo ≤ sp.lo ∧ sp.hi ≤ outer.hi

def Span.OnBoundaries (sp : Span) (file : List Char) : Prop :=
  isBoundary file sp.lo = true ∧ isBoundary file sp.hi = true

theorem subspan_tok (lx : Lexer) (n : Nat) (h : lx.Fits n) (hx : lx.isExpanded = false) (t : Tok)
    (ht : t ∈ lx.buf) :
    lx.entire.subspan t.pos t.stop = some ⟨lx.entire.lo + t.pos, lx.entire.lo + t.stop⟩ := by
  have h1 := h.toks hx t ht
  have h2 := h.ent
  unfold Span.subspan
  have : t.pos ≤ t.stop ∧ lx.entire.lo + t.stop ≤ lx.entire.hi := by
    simp only [Tok.stop, Span.len] at *; omega
  simp [this]

/-- What `span_at_index` returns, case by case. -/
theorem spanAtIndex_cases (lx : Lexer) (n : Nat) (h : lx.Fits n) (idx : Nat) :
    (lx.isExpanded = true ∧ lx.spanAtIndex idx = some lx.entire) ∨
    (lx.isExpanded = false ∧ ∃ t ∈ lx.buf,
        lx.spanAtIndex idx = some ⟨lx.entire.lo + t.pos, lx.entire.lo + t.stop⟩) ∨
    (lx.isExpanded = false ∧ lx.spanAtIndex idx = some ⟨lx.entire.lo, lx.entire.lo⟩) := by
  cases hx : lx.isExpanded with
  | true => left; simp [Lexer.spanAtIndex, hx]
  | false =>
    right
    unfold Lexer.spanAtIndex
    simp only [hx, Bool.false_eq_true, if_false]
    cases hi : lx.buf[idx]? with
    | some t =>
      left
      have ht : t ∈ lx.buf := List.mem_of_getElem? hi
      exact ⟨trivial, t, ht, by simpa using subspan_tok lx n h hx t ht⟩
    | none =>
      cases hl : lx.buf.getLast? with
      | some t =>
        left
        have ht : t ∈ lx.buf := List.mem_of_getLast? hl
        exact ⟨trivial, t, ht, by simpa using subspan_tok lx n h hx t ht⟩
      | none =>
        right
        refine ⟨trivial, ?_⟩
        have := h.ent
        simp [Span.subspan]
        omega

theorem spanAtIndex_within (lx : Lexer) (n : Nat) (h : lx.Fits n) (idx : Nat) :
    ∃ sp, lx.spanAtIndex idx = some sp ∧ sp.Within lx.entire n := by
  have he := h.ent
  rcases spanAtIndex_cases lx n h idx with ⟨_, e⟩ | ⟨hx, t, ht, e⟩ | ⟨_, e⟩
  · exact ⟨_, e, by simp only [Span.Within]; omega⟩
  · have := h.toks hx t ht
    refine ⟨_, e, ?_⟩
    simp only [Span.Within, Tok.stop, Span.len] at *; omega
  · exact ⟨_, e, by simp only [Span.Within]; omega⟩

theorem spanAtIndex_onBoundaries (lx : Lexer) (file : List Char) (h : lx.Fits (byteLen file))
    (a : lx.Aligned file) (idx : Nat) (sp : Span) (hs : lx.spanAtIndex idx = some sp) :
    sp.OnBoundaries file := by
  rcases spanAtIndex_cases lx _ h idx with ⟨_, e⟩ | ⟨hx, t, ht, e⟩ | ⟨_, e⟩
  · rw [e] at hs; cases hs; exact a.ent
  · rw [e] at hs; cases hs; exact a.toks hx t ht
  · rw [e] at hs; cases hs; exact ⟨a.ent.1, a.ent.1⟩

theorem merge_within (a b outer : Span) (n : Nat) (ha : a.Within outer n) (hb : b.Within outer n) :
    (a.merge b).Within outer n := by
  simp only [Span.Within, Span.merge] at *
  omega

theorem merge_onBoundaries (a b : Span) (file : List Char) (ha : a.OnBoundaries file)
    (hb : b.OnBoundaries file) : (a.merge b).OnBoundaries file := by
  simp only [Span.OnBoundaries, Span.merge] at *
  refine ⟨?_, ?_⟩
  · rcases Nat.le_total a.lo b.lo with h | h
    · rw [Nat.min_eq_left h]; exact ha.1
    · rw [Nat.min_eq_right h]; exact hb.1
  · rcases Nat.le_total a.hi b.hi with h | h
    · rw [Nat.max_eq_right h]; exact hb.2
    · rw [Nat.max_eq_left h]; exact ha.2

/-! ### the invariants hold for every lexer grass constructs -/

theorem fits_setCursor (lx : Lexer) (n c : Nat) (h : lx.Fits n) : (lx.setCursor c).Fits n :=
  ⟨h.ent, h.toks⟩

theorem aligned_setCursor (lx : Lexer) (file : List Char) (c : Nat) (h : lx.Aligned file) :
    (lx.setCursor c).Aligned file := ⟨h.ent, h.toks⟩

theorem fits_ofFile (file : List Char) : (Lexer.ofFile file).Fits (byteLen file) := by
  refine ⟨by simp [Lexer.ofFile], ?_⟩
  intro _ t ht
  have := (tokenize0_inv file t ht).2.2
  simpa [Lexer.ofFile, Span.len] using this

theorem aligned_ofFile (file : List Char) : (Lexer.ofFile file).Aligned file := by
  refine ⟨by simp [Lexer.ofFile, isBoundary_zero, isBoundary_byteLen], ?_⟩
  intro _ t ht
  have := tokenize0_inv file t ht
  simpa [Lexer.ofFile] using ⟨this.1, this.2.1⟩

/-- Under every one of the three rules the offsets of non-expanded re-lexed text fit the span. -/
theorem fits_ofString (rule : ExpandRule) (file s : List Char) (entire : Span)
    (he : entire.lo ≤ entire.hi ∧ entire.hi ≤ byteLen file) :
    (Lexer.ofString rule file s entire).Fits (byteLen file) := by
  refine ⟨he, ?_⟩
  intro hx t ht
  have h3 := (tokenize0_inv s t ht).2.2
  have hlen : byteLen s ≤ entire.len := by
    simp only [Lexer.ofString, isExpandedBy] at hx
    cases rule with
    | onlyWhenLonger => simp at hx; exact hx
    | whenLengthDiffers => simp at hx; omega
    | whenTextDiffers =>
      simp at hx
      obtain ⟨pre, post, _, h1, h2⟩ := slice_some file entire s hx
      simp only [Span.len]; omega
  simp only [Lexer.ofString] at *
  omega

/-- Under the specified rule (`whenTextDiffers`) non-expanded text is the source text of the
    span, so its token offsets are character boundaries of the file. -/
theorem aligned_ofString_textDiffers (file s : List Char) (entire : Span)
    (hb : entire.OnBoundaries file) :
    (Lexer.ofString .whenTextDiffers file s entire).Aligned file := by
  refine ⟨hb, ?_⟩
  intro hx t ht
  simp only [Lexer.ofString, isExpandedBy] at hx
  simp at hx
  obtain ⟨pre, post, hf, h1, h2⟩ := slice_some file entire s hx
  have ht' := tokenize0_inv s t ht
  simp only [Lexer.ofString]
  rw [← h1, hf, List.append_assoc]
  rw [isBoundary_append_left, isBoundary_append_left]
  exact ⟨isBoundary_append_right _ _ _ ht'.1, isBoundary_append_right _ _ _ ht'.2.1⟩

/-! ### codemap look-up -/

theorem lineColAux_isSome : ∀ (cs : List Char) (n l c : Nat), isBoundary cs n = true →
    (lineColAux cs n l c).isSome = true := by
  intro cs
  induction cs with
  | nil => intro n l c h; cases n <;> simp_all [isBoundary, lineColAux]
  | cons ch cs ih =>
    intro n l c h
    cases n with
    | zero => simp [lineColAux]
    | succ n =>
      rw [isBoundary] at h
      rw [lineColAux]
      split at h
      · cases h
      · rename_i hlt
        simp only [hlt, if_false]
        split <;> exact ih _ _ _ h

theorem lineColAux_mem : ∀ (cs : List Char) (n l c : Nat) (p : Nat × Nat),
    lineColAux cs n l c = some p → p ∈ positionsAux cs l c := by
  intro cs
  induction cs with
  | nil =>
    intro n l c p h
    cases n <;> simp_all [lineColAux, positionsAux]
  | cons ch cs ih =>
    intro n l c p h
    cases n with
    | zero => simp [lineColAux] at h; simp [positionsAux, ← h]
    | succ n =>
      rw [lineColAux] at h
      rw [positionsAux]
      split at h
      · cases h
      · split at h
        · rename_i hnl; simp only [hnl, if_true]; exact List.mem_cons_of_mem _ (ih _ _ _ _ h)
        · rename_i hnl; simp only [hnl, if_false]; exact List.mem_cons_of_mem _ (ih _ _ _ _ h)

theorem lineColAux_ge : ∀ (cs : List Char) (n l c : Nat) (p : Nat × Nat),
    lineColAux cs n l c = some p → lexLe (l, c) p = true := by
  intro cs
  induction cs with
  | nil =>
    intro n l c p h
    cases n <;> simp_all [lineColAux, lexLe]
    simp [← h]
  | cons ch cs ih =>
    intro n l c p h
    cases n with
    | zero => simp [lineColAux] at h; simp [lexLe, ← h]
    | succ n =>
      rw [lineColAux] at h
      split at h
      · cases h
      · split at h
        · have := ih _ _ _ _ h
          simp only [lexLe, Bool.or_eq_true, decide_eq_true_eq, Bool.and_eq_true, beq_iff_eq] at *
          omega
        · have := ih _ _ _ _ h
          simp only [lexLe, Bool.or_eq_true, decide_eq_true_eq, Bool.and_eq_true, beq_iff_eq] at *
          omega

theorem lineColAux_mono : ∀ (cs : List Char) (lo hi l c : Nat) (p q : Nat × Nat), lo ≤ hi →
    lineColAux cs lo l c = some p → lineColAux cs hi l c = some q → lexLe p q = true := by
  intro cs
  induction cs with
  | nil =>
    intro lo hi l c p q hle hp hq
    cases lo <;> cases hi <;> simp_all [lineColAux, lexLe]
  | cons ch cs ih =>
    intro lo hi l c p q hle hp hq
    cases lo with
    | zero =>
      simp [lineColAux] at hp
      rw [← hp]
      exact lineColAux_ge _ _ _ _ _ hq
    | succ lo =>
      cases hi with
      | zero => omega
      | succ hi =>
        rw [lineColAux] at hp hq
        split at hp
        · cases hp
        · split at hq
          · cases hq
          · split at hp
            · rename_i hnl; rw [if_pos hnl] at hq
              exact ih _ _ _ _ _ _ (by omega) hp hq
            · rename_i hnl; rw [if_neg hnl] at hq
              exact ih _ _ _ _ _ _ (by omega) hp hq

/-- A span on character boundaries of the file, with `lo ≤ hi`, is looked up without panic and
    the resulting location satisfies P̂ (`spanLocOk`). -/
theorem lookUpSpan_ok (file : List Char) (sp : Span) (hle : sp.lo ≤ sp.hi)
    (hb : sp.OnBoundaries file) :
    ∃ b e, lookUpSpan file sp = some (b, e) ∧ spanLocOk file b e = true := by
  have h1 := lineColAux_isSome file sp.lo 0 0 hb.1
  have h2 := lineColAux_isSome file sp.hi 0 0 hb.2
  cases hlo : lineColAux file sp.lo 0 0 with
  | none => simp [hlo] at h1
  | some b =>
    cases hhi : lineColAux file sp.hi 0 0 with
    | none => simp [hhi] at h2
    | some e =>
      refine ⟨b, e, by simp [lookUpSpan, lookUpPos, hlo, hhi], ?_⟩
      have m1 := lineColAux_mem _ _ _ _ _ hlo
      have m2 := lineColAux_mem _ _ _ _ _ hhi
      have m3 := lineColAux_mono _ _ _ _ _ _ _ hle hlo hhi
      simp [spanLocOk, positions, m1, m2, m3]

end Grass.Diag
