import GrassProofs.Lemmas.CssTreeBuild
/-
  Helper lemmas for C04 (trees with bubbling at-rules: contexts from the parent chain, blocks in
  index order, where `add_child` lands).  Property theorems live in GrassProofs/C04.lean.
-/
namespace Grass.CssTree

/-! ### trees with at-rules: contexts read off the parent chain -/

def Kind.isDecl : Kind → Bool | .decl _ _ => true | _ => false
def Kind.isAt : Kind → Bool | .media _ => true | .supports _ => true | .unknown _ _ => true | _ => false

/-- kinds of the proper ancestors of `j`, outermost first -/
def ctxUpF (t : Tree) : Nat → Nat → List Kind
  | 0, _ => []
  | f + 1, j =>
    if j = 0 then []
    else match parentOf t j with
      | none => []
      | some g => ctxUpF t f g ++ (match kindAt t g with | some k => [k] | none => [])

/-- context of the body of node `g`: its ancestors and itself -/
def fullCtx (t : Tree) (g : Nat) : List Kind :=
  ctxUpF t (g + 1) g ++ (match kindAt t g with | some k => [k] | none => [])

/-- structural sanity of a tree built by appending nodes -/
structure Good (t : Tree) : Prop where
  root : kindAt t 0 = none
  pos : 0 < t.length
  po : ∀ j g, parentOf t j = some g → g < j
  cv : ∀ j c, c ∈ childrenOf t j → c < t.length
  kinds : ∀ j, 0 < j → j < t.length → ∃ k, kindAt t j = some k
  pars : ∀ j, 0 < j → j < t.length → ∃ g, parentOf t j = some g
  -- child lists and parent pointers describe the same tree; declarations are leaves
  cp : ∀ p c, c ∈ childrenOf t p → parentOf t c = some p
  pc : ∀ j p, parentOf t j = some p → j ∈ childrenOf t p
  cnd : ∀ p, (childrenOf t p).Nodup
  ndp : ∀ p c, c ∈ childrenOf t p → ∀ n v, kindAt t p ≠ some (.decl n v)

/-- `t'` extends `t`: old nodes keep kind and parent -/
structure Ext (t t' : Tree) : Prop where
  len : t.length ≤ t'.length
  kind : ∀ j, j < t.length → kindAt t' j = kindAt t j
  par : ∀ j, j < t.length → parentOf t' j = parentOf t j

theorem Ext.refl (t : Tree) : Ext t t := ⟨Nat.le_refl _, fun _ _ => rfl, fun _ _ => rfl⟩
theorem Ext.trans {a b c : Tree} (h1 : Ext a b) (h2 : Ext b c) : Ext a c :=
  ⟨Nat.le_trans h1.len h2.len,
   fun j hj => by rw [h2.kind j (Nat.lt_of_lt_of_le hj h1.len), h1.kind j hj],
   fun j hj => by rw [h2.par j (Nat.lt_of_lt_of_le hj h1.len), h1.par j hj]⟩

theorem addRaw_parentOf (t : Tree) (k : Kind) (p j : Nat) (hj : j < t.length) :
    parentOf (addRaw t k p).1 j = parentOf t j := by
  by_cases hne : j = p
  · subst hne
    have hr : t[j]? = some t[j] := by simp [hj]
    simp [parentOf, addRaw_get_eq t k j _ hr, hr]
  · simp [parentOf, addRaw_get_ne t k p j hj hne]

theorem addRaw_childrenOf_ne (t : Tree) (k : Kind) (p j : Nat) (hj : j < t.length) (hne : j ≠ p) :
    childrenOf (addRaw t k p).1 j = childrenOf t j := by
  simp [childrenOf, addRaw_get_ne t k p j hj hne]

theorem addRaw_childrenOf_eq (t : Tree) (k : Kind) (p : Nat) (hp : p < t.length) :
    childrenOf (addRaw t k p).1 p = childrenOf t p ++ [t.length] := by
  have hr : t[p]? = some t[p] := by simp [hp]
  simp [childrenOf, addRaw_get_eq t k p _ hr, hr]

theorem addRaw_kind_new (t : Tree) (k : Kind) (p : Nat) : kindAt (addRaw t k p).1 t.length = some k := by
  simp [kindAt, addRaw_get_new]

theorem addRaw_par_new (t : Tree) (k : Kind) (p : Nat) : parentOf (addRaw t k p).1 t.length = some p := by
  simp [parentOf, addRaw_get_new]

theorem addRaw_children_new (t : Tree) (k : Kind) (p : Nat) : childrenOf (addRaw t k p).1 t.length = [] := by
  simp [childrenOf, addRaw_get_new]

theorem ext_addRaw (t : Tree) (k : Kind) (p : Nat) : Ext t (addRaw t k p).1 :=
  ⟨by rw [addRaw_length]; omega, fun j hj => addRaw_kindAt t k p j hj, fun j hj => addRaw_parentOf t k p j hj⟩

theorem kindAt_none_of_ge (t : Tree) (j : Nat) (h : t.length ≤ j) : kindAt t j = none := by
  simp [kindAt, List.getElem?_eq_none h]
theorem parentOf_none_of_ge (t : Tree) (j : Nat) (h : t.length ≤ j) : parentOf t j = none := by
  simp [parentOf, List.getElem?_eq_none h]
theorem childrenOf_nil_of_ge (t : Tree) (j : Nat) (h : t.length ≤ j) : childrenOf t j = [] := by
  simp [childrenOf, List.getElem?_eq_none h]

theorem good_addRaw (t : Tree) (gd : Good t) (k : Kind) (p : Nat) (hp : p < t.length)
    (hpk : ∀ n v, kindAt t p ≠ some (.decl n v)) : Good (addRaw t k p).1 := by
  have hchild : ∀ j c, c ∈ childrenOf (addRaw t k p).1 j →
      (j < t.length ∧ c ∈ childrenOf t j) ∨ (j = p ∧ c = t.length) := by
    intro j c hc
    rcases Nat.lt_trichotomy j t.length with h | h | h
    · by_cases hjp : j = p
      · subst hjp
        rw [addRaw_childrenOf_eq t k j h] at hc
        simp only [List.mem_append, List.mem_singleton] at hc
        rcases hc with hc | hc
        · exact Or.inl ⟨h, hc⟩
        · exact Or.inr ⟨rfl, hc⟩
      · rw [addRaw_childrenOf_ne t k p j h hjp] at hc
        exact Or.inl ⟨h, hc⟩
    · subst h; rw [addRaw_children_new] at hc; cases hc
    · rw [childrenOf_nil_of_ge _ _ (by rw [addRaw_length]; omega)] at hc; cases hc
  refine ⟨?_, by rw [addRaw_length]; omega, ?_, ?_, ?_, ?_, ?_, ?_, ?_, ?_⟩
  · rw [addRaw_kindAt t k p 0 gd.pos]; exact gd.root
  · intro j g hg
    rcases Nat.lt_trichotomy j t.length with h | h | h
    · rw [addRaw_parentOf t k p j h] at hg; exact gd.po j g hg
    · subst h; rw [addRaw_par_new] at hg; injection hg with hg; omega
    · rw [parentOf_none_of_ge _ _ (by rw [addRaw_length]; omega)] at hg; cases hg
  · intro j c hc
    rw [addRaw_length]
    rcases Nat.lt_trichotomy j t.length with h | h | h
    · by_cases hjp : j = p
      · subst hjp
        rw [addRaw_childrenOf_eq t k j h] at hc
        simp only [List.mem_append, List.mem_singleton] at hc
        rcases hc with hc | hc
        · have := gd.cv j c hc; omega
        · omega
      · rw [addRaw_childrenOf_ne t k p j h hjp] at hc
        have := gd.cv j c hc; omega
    · subst h; rw [addRaw_children_new] at hc; cases hc
    · rw [childrenOf_nil_of_ge _ _ (by rw [addRaw_length]; omega)] at hc; cases hc
  · intro j hj0 hj
    rw [addRaw_length] at hj
    by_cases h : j < t.length
    · rw [addRaw_kindAt t k p j h]; exact gd.kinds j hj0 h
    · have : j = t.length := by omega
      subst this; exact ⟨k, addRaw_kind_new t k p⟩
  · intro j hj0 hj
    rw [addRaw_length] at hj
    by_cases h : j < t.length
    · rw [addRaw_parentOf t k p j h]; exact gd.pars j hj0 h
    · have : j = t.length := by omega
      subst this; exact ⟨p, addRaw_par_new t k p⟩
  · intro j c hc
    rcases hchild j c hc with ⟨hj, hc'⟩ | ⟨hj, hc'⟩
    · rw [addRaw_parentOf t k p c (gd.cv j c hc')]; exact gd.cp j c hc'
    · subst hj; subst hc'; exact addRaw_par_new t k j
  · intro j g hg
    rcases Nat.lt_trichotomy j t.length with h | h | h
    · rw [addRaw_parentOf t k p j h] at hg
      have hm := gd.pc j g hg
      have hgl : g < t.length := by have := gd.po j g hg; omega
      by_cases hgp : g = p
      · subst hgp; rw [addRaw_childrenOf_eq t k g hgl]; simp [hm]
      · rw [addRaw_childrenOf_ne t k p g hgl hgp]; exact hm
    · subst h; rw [addRaw_par_new] at hg; injection hg with hg; subst hg
      rw [addRaw_childrenOf_eq t k p hp]; simp
    · rw [parentOf_none_of_ge _ _ (by rw [addRaw_length]; omega)] at hg; cases hg
  · intro j
    rcases Nat.lt_trichotomy j t.length with h | h | h
    · by_cases hjp : j = p
      · subst hjp
        rw [addRaw_childrenOf_eq t k j h, List.nodup_append]
        refine ⟨gd.cnd j, by simp, ?_⟩
        intro a ha b hb
        simp only [List.mem_singleton] at hb
        have := gd.cv j a ha
        omega
      · rw [addRaw_childrenOf_ne t k p j h hjp]; exact gd.cnd j
    · subst h; rw [addRaw_children_new]; exact List.nodup_nil
    · rw [childrenOf_nil_of_ge _ _ (by rw [addRaw_length]; omega)]; exact List.nodup_nil
  · intro j c hc n v
    rcases hchild j c hc with ⟨hj, hc'⟩ | ⟨hj, _⟩
    · rw [addRaw_kindAt t k p j hj]; exact gd.ndp j c hc' n v
    · subst hj; rw [addRaw_kindAt t k j j hp]; exact hpk n v

theorem good_init : Good Tree.init := by
  refine ⟨rfl, by simp [Tree.init], ?_, ?_, ?_, ?_, ?_, ?_, ?_, ?_⟩
  · intro j g hg
    cases j with
    | zero => simp [parentOf, Tree.init] at hg
    | succ j => simp [parentOf, Tree.init] at hg
  · intro j c hc
    cases j with
    | zero => simp [childrenOf, Tree.init] at hc
    | succ j => simp [childrenOf, Tree.init] at hc
  · intro j h0 hj; simp [Tree.init] at hj; omega
  · intro j h0 hj; simp [Tree.init] at hj; omega
  · intro j c hc
    cases j with
    | zero => simp [childrenOf, Tree.init] at hc
    | succ j => simp [childrenOf, Tree.init] at hc
  · intro j g hg
    cases j with
    | zero => simp [parentOf, Tree.init] at hg
    | succ j => simp [parentOf, Tree.init] at hg
  · intro j
    cases j with
    | zero => simp [childrenOf, Tree.init]
    | succ j => simp [childrenOf, Tree.init]
  · intro j c hc
    cases j with
    | zero => simp [childrenOf, Tree.init] at hc
    | succ j => simp [childrenOf, Tree.init] at hc

/-! fuel -/

theorem ctxUpF_fuel (t : Tree) (gd : Good t) : ∀ f j, j < f → ctxUpF t f j = ctxUpF t (j + 1) j := by
  intro f
  induction f using Nat.strongRecOn with
  | _ f ih =>
    intro j hj
    cases f with
    | zero => omega
    | succ f' =>
      by_cases h0 : j = 0
      · subst h0; simp [ctxUpF]
      · simp only [ctxUpF, h0, if_false]
        cases hp : parentOf t j with
        | none => rfl
        | some g =>
          have hg := gd.po j g hp
          simp only
          rw [ih f' (by omega) g (by omega)]
          cases j with
          | zero => omega
          | succ j' => rw [ih (j' + 1) (by omega) g (by omega)]

theorem ctxUpF_ext (t t' : Tree) (gd : Good t) (ex : Ext t t') : ∀ f j, j < t.length → ctxUpF t' f j = ctxUpF t f j
  | 0, _, _ => rfl
  | f + 1, j, hj => by
    by_cases h0 : j = 0
    · subst h0; simp [ctxUpF]
    · simp only [ctxUpF, h0, if_false, ex.par j hj]
      cases hp : parentOf t j with
      | none => rfl
      | some g =>
        have hg := gd.po j g hp
        simp only
        rw [ctxUpF_ext t t' gd ex f g (by omega), ex.kind g (by omega)]

theorem fullCtx_ext (t t' : Tree) (gd : Good t) (ex : Ext t t') (j : Nat) (hj : j < t.length) :
    fullCtx t' j = fullCtx t j := by
  simp only [fullCtx, ctxUpF_ext t t' gd ex _ j hj, ex.kind j hj]

theorem fullCtx_zero (t : Tree) (gd : Good t) : fullCtx t 0 = [] := by
  simp [fullCtx, ctxUpF, gd.root]

/-- context of the node's own position = body context of its parent -/
theorem ctxUp_eq_parent (t : Tree) (gd : Good t) (j g : Nat) (hj : j ≠ 0) (hp : parentOf t j = some g) :
    ctxUpF t (j + 1) j = fullCtx t g := by
  have hg := gd.po j g hp
  have h1 : ctxUpF t (j + 1) j = ctxUpF t j g ++ (match kindAt t g with | some k => [k] | none => []) := by
    simp only [ctxUpF, hj, if_false, hp]
  rw [h1, ctxUpF_fuel t gd j g hg]; rfl

theorem fullCtx_new (t : Tree) (gd : Good t) (k : Kind) (p : Nat) (hp : p < t.length)
    (hpk : ∀ n v, kindAt t p ≠ some (.decl n v)) :
    fullCtx (addRaw t k p).1 t.length = fullCtx t p ++ [k] := by
  have gd' := good_addRaw t gd k p hp hpk
  have h1 : ctxUpF (addRaw t k p).1 (t.length + 1) t.length = fullCtx (addRaw t k p).1 p :=
    ctxUp_eq_parent _ gd' t.length p (by have := gd.pos; omega) (addRaw_par_new t k p)
  simp only [fullCtx] at h1 ⊢
  rw [h1, addRaw_kind_new]
  have := fullCtx_ext t _ gd (ext_addRaw t k p) p hp
  simp only [fullCtx] at this
  rw [this]


/-! ### blocks read off the index tree in index order -/

def selOf : Kind → Option SelList | .rule s => some s | _ => none

def declsOfKids (t : Tree) (cs : List Nat) : List (String × String) :=
  cs.filterMap (fun c => match kindAt t c with | some (.decl n v) => some (n, v) | _ => none)

abbrev EntB := Nat × List Kind × Option SelList × List (String × String)

/-- the block of node `j`: context from the parent chain, declarations from the child list -/
def entB (t : Tree) (j : Nat) : Option EntB :=
  match kindAt t j with
  | none => none
  | some k =>
    if k.isDecl then none
    else some (j, ctxUpF t (j + 1) j ++ (if k.isAt then [k] else []), selOf k, declsOfKids t (childrenOf t j))

def viewB (t : Tree) : List EntB := (List.range t.length).filterMap (entB t)

def extB (p : Nat) (ds : List (String × String)) (e : EntB) : EntB :=
  if e.1 = p then (e.1, e.2.1, e.2.2.1, e.2.2.2 ++ ds) else e

def toBlockB (e : EntB) : Block := { ctx := e.2.1, sel := e.2.2.1, decls := e.2.2.2 }

theorem declsOfKids_ext (t t' : Tree) (ex : Ext t t') (cs : List Nat) (h : ∀ c ∈ cs, c < t.length) :
    declsOfKids t' cs = declsOfKids t cs := by
  unfold declsOfKids
  apply filterMap_congr'
  intro c hc
  rw [ex.kind c (h c hc)]

theorem declsOfKids_append (t : Tree) (a b : List Nat) :
    declsOfKids t (a ++ b) = declsOfKids t a ++ declsOfKids t b := by
  simp [declsOfKids, List.filterMap_append]

theorem entB_old_ne (t : Tree) (gd : Good t) (k : Kind) (p j : Nat) (hj : j < t.length) (hne : j ≠ p) :
    entB (addRaw t k p).1 j = entB t j := by
  have ex := ext_addRaw t k p
  unfold entB
  rw [ex.kind j hj, ctxUpF_ext t _ gd ex _ j hj, addRaw_childrenOf_ne t k p j hj hne,
    declsOfKids_ext t _ ex _ (fun c hc => gd.cv j c hc)]

theorem entB_old_eq (t : Tree) (gd : Good t) (k : Kind) (p : Nat) (hp : p < t.length) :
    entB (addRaw t k p).1 p =
      (entB t p).map (fun e => (e.1, e.2.1, e.2.2.1, e.2.2.2 ++ declsOfKids (addRaw t k p).1 [t.length])) := by
  have ex := ext_addRaw t k p
  unfold entB
  rw [ex.kind p hp, ctxUpF_ext t _ gd ex _ p hp, addRaw_childrenOf_eq t k p hp, declsOfKids_append,
    declsOfKids_ext t _ ex _ (fun c hc => gd.cv p c hc)]
  cases kindAt t p with
  | none => rfl
  | some kp => by_cases h : kp.isDecl = true <;> simp [h]

theorem viewB_addNd (t : Tree) (gd : Good t) (k : Kind) (hk : k.isDecl = false) (p : Nat) (hp : p < t.length)
    (hpk : ∀ n v, kindAt t p ≠ some (.decl n v)) :
    viewB (addRaw t k p).1 =
      viewB t ++ [(t.length, fullCtx t p ++ (if k.isAt then [k] else []), selOf k, [])] := by
  have gd' := good_addRaw t gd k p hp hpk
  unfold viewB
  rw [addRaw_length, List.range_succ, List.filterMap_append]
  congr 1
  · apply filterMap_congr'
    intro j hj
    have hj : j < t.length := by simpa using hj
    by_cases hjp : j = p
    · subst hjp
      rw [entB_old_eq t gd k j hj]
      have : declsOfKids (addRaw t k j).1 [t.length] = [] := by
        simp [declsOfKids, addRaw_kind_new]
        cases k <;> simp_all [Kind.isDecl]
      rw [this]
      cases entB t j with
      | none => rfl
      | some e => simp
    · exact entB_old_ne t gd k p j hj hjp
  · have h1 : ctxUpF (addRaw t k p).1 (t.length + 1) t.length = fullCtx t p := by
      rw [ctxUp_eq_parent _ gd' t.length p (by have := gd.pos; omega) (addRaw_par_new t k p)]
      exact fullCtx_ext t _ gd (ext_addRaw t k p) p hp
    simp [entB, addRaw_kind_new, hk, h1, addRaw_children_new, declsOfKids]

theorem viewB_addDecl (t : Tree) (gd : Good t) (n v : String) (p : Nat) (hp : p < t.length) :
    viewB (addRaw t (.decl n v) p).1 = (viewB t).map (extB p [(n, v)]) := by
  unfold viewB
  rw [addRaw_length, List.range_succ, List.filterMap_append, List.map_filterMap]
  have hlast : List.filterMap (entB (addRaw t (.decl n v) p).1) [t.length] = [] := by
    simp [entB, addRaw_kind_new, Kind.isDecl]
  rw [hlast, List.append_nil]
  apply filterMap_congr'
  intro j hj
  have hj : j < t.length := by simpa using hj
  by_cases hjp : j = p
  · subst hjp
    rw [entB_old_eq t gd _ j hj]
    have : declsOfKids (addRaw t (.decl n v) j).1 [t.length] = [(n, v)] := by
      simp [declsOfKids, addRaw_kind_new]
    rw [this]
    cases he : entB t j with
    | none => rfl
    | some e =>
      have h1 : e.1 = j := by
        unfold entB at he
        cases hk : kindAt t j with
        | none => simp [hk] at he
        | some kk =>
          simp only [hk] at he
          by_cases hd : kk.isDecl = true
          · simp [hd] at he
          · simp [hd] at he; rw [← he]
      simp [extB, h1]
  · rw [entB_old_ne t gd _ p j hj hjp]
    cases he : entB t j with
    | none => rfl
    | some e =>
      have h1 : e.1 = j := by
        unfold entB at he
        cases hk : kindAt t j with
        | none => simp [hk] at he
        | some kk =>
          simp only [hk] at he
          by_cases hd : kk.isDecl = true
          · simp [hd] at he
          · simp [hd] at he; rw [← he]
      simp [extB, h1, hjp]

theorem viewB_idx_lt (t : Tree) : ∀ e ∈ viewB t, e.1 < t.length := by
  intro e he
  simp only [viewB, List.mem_filterMap, List.mem_range] at he
  obtain ⟨j, hj, h⟩ := he
  unfold entB at h
  cases hk : kindAt t j with
  | none => simp [hk] at h
  | some kk =>
    simp only [hk] at h
    by_cases hd : kk.isDecl = true
    · simp [hd] at h
    · simp [hd] at h; rw [← h]; exact hj

theorem extB_extB (p : Nat) (a b : List (String × String)) (e : EntB) :
    extB p b (extB p a e) = extB p (a ++ b) e := by
  unfold extB
  by_cases h : e.1 = p <;> simp [h]

theorem extB_nil (p : Nat) (e : EntB) : extB p [] e = e := by
  obtain ⟨a, b, c, d⟩ := e
  unfold extB; by_cases h : a = p <;> simp [h]

theorem extB_ne (p : Nat) (ds : List (String × String)) (e : EntB) (h : e.1 ≠ p) : extB p ds e = e := by
  simp [extB, h]


/-! ### `add_child`: where the node lands -/

theorem hasFollowingSibling_new (t : Tree) (k : Kind) (p : Nat) (hp : p < t.length) (h0 : 0 < t.length) :
    hasFollowingSibling (addRaw t k p).1 t.length = false := by
  unfold hasFollowingSibling
  have : t.length ≠ 0 := by omega
  simp [this, addRaw_par_new, addRaw_childrenOf_eq t k p hp]

/-- the landing node of `add_child` before the sibling test -/
def landing (t : Tree) (P : Option Nat) (th : Through) : Nat :=
  match P with
  | none => 0
  | some 0 => 0
  | some p => climb t th t.length p

/-- what `add_child` guarantees when the node lands at `L` -/
def LandOK (t : Tree) (L : Nat) (k : Kind) (r : Tree × Nat) : Prop :=
  ∃ pre : List EntB,
    Good r.1 ∧ Ext t r.1 ∧ r.2 + 1 = r.1.length ∧ t.length ≤ r.2 ∧
    kindAt r.1 r.2 = some k ∧
    fullCtx r.1 r.2 = fullCtx t L ++ [k] ∧
    hasFollowingSibling r.1 r.2 = false ∧
    (∃ q, parentOf r.1 r.2 = some q ∧ fullCtx r.1 q = fullCtx t L ∧
          (q = 0 ∨ ∃ kq, kindAt r.1 q = some kq ∧ kindAt t L = some kq) ∧
          (∀ G, parentOf r.1 q = some G → parentOf t L = some G)) ∧
    viewB r.1 = viewB t ++ pre ++ [(r.2, fullCtx t L ++ (if k.isAt then [k] else []), selOf k, [])] ∧
    (∀ e ∈ pre, e.2.2.2 = [] ∧ t.length ≤ e.1 ∧ e.1 < r.2)

theorem addChild_landing (t : Tree) (gd : Good t) (P : Option Nat) (k : Kind) (hk : k.isDecl = false)
    (th : Through) (L : Nat) (hL : L < t.length) (hland : landing t P th = L)
    (hLnd : ∀ kL, kindAt t L = some kL → kL.isDecl = false) :
    LandOK t L k (addChild false t P k th) := by
  -- the plain case: the node is appended to the landing node
  have hLk : ∀ n v, kindAt t L ≠ some (.decl n v) := by
    intro n v h
    have := hLnd _ h
    simp [Kind.isDecl] at this
  have plain : LandOK t L k (addRaw t k L) := by
    refine ⟨[], good_addRaw t gd k L hL hLk, ext_addRaw t k L, by rw [addRaw_length]; rfl, Nat.le_refl _,
      addRaw_kind_new t k L, fullCtx_new t gd k L hL hLk, hasFollowingSibling_new t k L hL gd.pos,
      ⟨L, addRaw_par_new t k L, fullCtx_ext t _ gd (ext_addRaw t k L) L hL, ?_,
        fun G hG => by rw [addRaw_parentOf t k L L hL] at hG; exact hG⟩,
      by simp [viewB_addNd t gd k hk L hL hLk, addRaw_snd], by simp⟩
    by_cases h0 : L = 0
    · exact Or.inl h0
    · obtain ⟨kq, hkq⟩ := gd.kinds L (by omega) hL
      exact Or.inr ⟨kq, by rw [addRaw_kindAt t k L L hL]; exact hkq, hkq⟩
  cases P with
  | none =>
    have : L = 0 := by simpa [landing] using hland.symm
    subst this
    exact plain
  | some p =>
    cases p with
    | zero =>
      have : L = 0 := by simpa [landing] using hland.symm
      subst this
      exact plain
    | succ p' =>
      have hl : climb t th t.length (p' + 1) = L := by simpa [landing] using hland
      by_cases hs : hasFollowingSibling t L = true
      · -- copy the landing node after its sibling
        have hL0 : L ≠ 0 := by
          intro h; subst h; simp [hasFollowingSibling] at hs
        obtain ⟨pk, hpk⟩ := gd.kinds L (by omega) hL
        cases hg : parentOf t L with
        | none => simp [hasFollowingSibling, hL0, hg] at hs
        | some g =>
          have hgl : g < L := gd.po L g hg
          have hpknd := hLnd pk hpk
          have hr : addChild false t (some (p' + 1)) k th =
              addRaw (addRaw t pk g).1 k t.length := by
            simp only [addChild, hl, hs, if_true, hpk, hg, Bool.false_eq_true, if_false, addRaw_snd]
          rw [hr]
          have hgk : ∀ n v, kindAt t g ≠ some (.decl n v) := gd.ndp g L (gd.pc L g hg)
          have hck : ∀ n v, kindAt (addRaw t pk g).1 t.length ≠ some (.decl n v) := by
            intro n v h
            rw [addRaw_kind_new] at h; injection h with h; subst h
            simp [Kind.isDecl] at hpknd
          have gd1 := good_addRaw t gd pk g (by omega) hgk
          have ex1 := ext_addRaw t pk g
          have hlen1 : (addRaw t pk g).1.length = t.length + 1 := addRaw_length t pk g
          have hcp : t.length < (addRaw t pk g).1.length := by omega
          have fcL : fullCtx t L = fullCtx t g ++ [pk] := by
            simp only [fullCtx]
            rw [show ctxUpF t (L + 1) L = fullCtx t g from ctxUp_eq_parent t gd L g hL0 hg, hpk]
            rfl
          have fccp : fullCtx (addRaw t pk g).1 t.length = fullCtx t L := by
            rw [fullCtx_new t gd pk g (by omega) hgk, fcL]
          have ex2 := ext_addRaw (addRaw t pk g).1 k t.length
          refine ⟨[(t.length, fullCtx t g ++ (if pk.isAt then [pk] else []), selOf pk, [])],
            good_addRaw _ gd1 k t.length hcp hck, Ext.trans ex1 ex2, by rw [addRaw_length, addRaw_snd], ?_, ?_, ?_, ?_, ?_, ?_, ?_⟩
          · rw [addRaw_snd, hlen1]; omega
          · rw [addRaw_snd]; exact addRaw_kind_new _ k _
          · rw [addRaw_snd, fullCtx_new _ gd1 k t.length hcp hck, fccp]
          · rw [addRaw_snd]
            exact hasFollowingSibling_new _ k t.length hcp (by omega)
          · refine ⟨t.length, by rw [addRaw_snd]; exact addRaw_par_new _ k _, ?_, Or.inr ⟨pk, ?_, hpk⟩, ?_⟩
            · rw [fullCtx_ext _ _ gd1 ex2 t.length hcp, fccp]
            · rw [ex2.kind t.length hcp]; exact addRaw_kind_new t pk g
            · intro G hG
              rw [ex2.par t.length hcp, addRaw_par_new] at hG
              rw [hg]; exact hG
          · rw [viewB_addNd _ gd1 k hk t.length hcp hck, viewB_addNd t gd pk hpknd g (by omega) hgk, addRaw_snd, hlen1, fccp]
          · intro e he
            simp only [List.mem_singleton] at he
            subst he
            exact ⟨rfl, Nat.le_refl _, by rw [addRaw_snd, hlen1]; omega⟩
      · have hs' : hasFollowingSibling t L = false := by simpa using hs
        have hr : addChild false t (some (p' + 1)) k th = addRaw t k L := by
          simp only [addChild, hl, hs', Bool.false_eq_true, if_false]
        rw [hr]; exact plain

theorem climb_stop (t : Tree) (th : Through) (f p : Nat) (k : Kind) (hk : kindAt t p = some k)
    (ht : th.test k = false) : climb t th (f + 1) p = p := by
  unfold climb
  by_cases h0 : p = 0
  · simp [h0]
  · simp only [h0, if_false, hk]
    cases parentOf t p <;> simp [ht]

theorem climb_step (t : Tree) (th : Through) (f p g : Nat) (k : Kind) (h0 : p ≠ 0) (hk : kindAt t p = some k)
    (hg : parentOf t p = some g) (ht : th.test k = true) : climb t th (f + 1) p = climb t th f g := by
  simp [climb, h0, hk, hg, ht]


/-! ### the bubbling fragment -/

mutual
  def bubOnly : Stmt → Bool
    | .decl _ => true
    | .rule _ b => bubOnlyL b
    | .media _ b => bubOnlyL b
    | .supports _ b => bubOnlyL b
    | .unknown _ _ b => bubOnlyL b
    | .atroot _ _ => false
  def bubOnlyL : Stmts → Bool
    | .nil => true
    | .cons s ss => bubOnly s && bubOnlyL ss
end

/-- (on the reversed frame list) no @media frame directly inside another -/
def noAdjR : List Kind → Bool
  | a :: b :: rest => !(a.isMedia && b.isMedia) && noAdjR (b :: rest)
  | _ => true

theorem noAdjR_snoc_nonMedia (k : Kind) (l : List Kind) (hk : k.isMedia = false) (h : noAdjR l = true) :
    noAdjR (k :: l) = true := by
  cases l with
  | nil => rfl
  | cons b rest => simp [noAdjR, hk, h]

theorem noAdjR_tail (k : Kind) (l : List Kind) (h : noAdjR (k :: l) = true) : noAdjR l = true := by
  cases l with
  | nil => rfl
  | cons b rest => simp [noAdjR] at h; exact h.2

theorem innermostMedia_snoc (fs : List Kind) (k : Kind) :
    innermostMedia (fs ++ [k]) = (match k with | .media qs => some qs | _ => innermostMedia fs) := by
  unfold innermostMedia
  simp only [List.reverse_append, List.reverse_cons, List.reverse_nil, List.nil_append, List.cons_append,
    List.findSome?_cons]
  cases k <;> simp

theorem dropMedia_snoc_nonMedia (fs : List Kind) (k : Kind) (hk : k.isMedia = false) :
    ((fs ++ [k]).reverse.dropWhile Kind.isMedia).reverse = fs ++ [k] := by
  simp [List.reverse_append, List.dropWhile, hk]

theorem dropMedia_snoc_media (fs : List Kind) (k : Kind) (hk : k.isMedia = true)
    (h : noAdjR (fs ++ [k]).reverse = true) :
    ((fs ++ [k]).reverse.dropWhile Kind.isMedia).reverse = fs := by
  simp only [List.reverse_append, List.reverse_cons, List.reverse_nil, List.nil_append, List.cons_append] at h ⊢
  simp only [List.dropWhile, hk]
  cases hr : fs.reverse with
  | nil => simp [hr] ; simpa using hr
  | cons b rest =>
    rw [hr] at h
    simp only [noAdjR, hk, Bool.true_and, Bool.and_eq_true, Bool.not_eq_true'] at h
    simp only [List.dropWhile, h.1]
    rw [← hr]; simp

theorem any_unknown_snoc (fs : List Kind) (k : Kind) :
    (fs ++ [k]).any Kind.isUnknown = (fs.any Kind.isUnknown || k.isUnknown) := by
  simp [List.any_append]


def extOB (P : Option Nat) (ds : List (String × String)) : EntB → EntB :=
  match P with
  | some p => extB p ds
  | none => id

theorem extOB_nil (P : Option Nat) (e : EntB) : extOB P [] e = e := by
  cases P <;> simp [extOB, extB_nil]

theorem extOB_extOB (P : Option Nat) (a b : List (String × String)) (e : EntB) :
    extOB P b (extOB P a e) = extOB P (a ++ b) e := by
  cases P <;> simp [extOB, extB_extB]

/-- spec result vs. what the visitor does to the tree (blocks compared after dropping empty ones) -/
def RelB (t : Tree) (P : Option Nat) : SpecRes → Except Err Tree → Prop
  | .error e, r => r = .error e
  | .ok (ds, bs), r => ∃ t', r = .ok t' ∧ Good t' ∧ Ext t t' ∧
      ∃ new, viewB t' = (viewB t).map (extOB P ds) ++ new ∧
        (new.map toBlockB).filter Block.nonEmpty = bs.filter Block.nonEmpty ∧ ∀ e ∈ new, t.length ≤ e.1

theorem extOB_new (t : Tree) (P : Option Nat) (hP : ∀ p, P = some p → p < t.length) (ds : List (String × String))
    (new : List EntB) (hn : ∀ e ∈ new, t.length ≤ e.1) : new.map (extOB P ds) = new := by
  cases P with
  | none => simp [extOB]
  | some p =>
    have := hP p rfl
    apply map_eq_self
    intro e he
    have := hn e he
    exact extB_ne p ds e (by omega)

theorem relB_seq (t : Tree) (P : Option Nat) (hP : ∀ p, P = some p → p < t.length)
    (r1 r2 : SpecRes) (b1 : Except Err Tree) (k : Tree → Except Err Tree)
    (h1 : RelB t P r1 b1)
    (h2 : ∀ t1, b1 = .ok t1 → Good t1 → Ext t t1 → RelB t1 P r2 (k t1)) :
    RelB t P (seqRes r1 r2) (bindT b1 k) := by
  cases r1 with
  | error e =>
    simp only [RelB] at h1
    subst h1
    simp [seqRes, RelB, bindT]
  | ok x =>
    obtain ⟨d1, bs1⟩ := x
    obtain ⟨t1, hb, gd1, ex1, n1, v1, m1, i1⟩ := h1
    subst hb
    have h2' := h2 t1 rfl gd1 ex1
    cases r2 with
    | error e =>
      simp only [RelB] at h2'
      simp [seqRes, RelB, bindT, h2']
    | ok y =>
      obtain ⟨d2, bs2⟩ := y
      obtain ⟨t2, hb2, gd2, ex2, n2, v2, m2, i2⟩ := h2'
      refine ⟨t2, by simpa [bindT] using hb2, gd2, Ext.trans ex1 ex2, n1 ++ n2, ?_, ?_, ?_⟩
      · rw [v2, v1, List.map_append, List.map_map, extOB_new t P hP d2 n1 i1, List.append_assoc]
        congr 1
        apply List.map_congr_left
        intro e _
        simp [Function.comp, extOB_extOB]
      · simp only [List.map_append, List.filter_append, m1, m2]
      · intro e he
        simp only [List.mem_append] at he
        rcases he with he | he
        · exact i1 e he
        · have := i2 e he; have := ex1.len; omega

theorem addDecls_B (p : Nat) : ∀ (ds : List (String × String)) (t : Tree), Good t → p < t.length →
    (∀ n v, kindAt t p ≠ some (.decl n v)) →
    Good (addDecls t (some p) ds) ∧ Ext t (addDecls t (some p) ds) ∧
    viewB (addDecls t (some p) ds) = (viewB t).map (extB p ds)
  | [], t, gd, _, _ => ⟨gd, Ext.refl t, by
      simp only [addDecls]; exact (map_eq_self _ _ (fun e _ => extB_nil p e)).symm⟩
  | (n, v) :: ds, t, gd, hp, hpk => by
    have gd1 := good_addRaw t gd (.decl n v) p hp hpk
    obtain ⟨g2, e2, v2⟩ := addDecls_B p ds (addRaw t (.decl n v) p).1 gd1 (by rw [addRaw_length]; omega)
      (by intro n' v'; rw [addRaw_kindAt t _ p p hp]; exact hpk n' v')
    simp only [addDecls, addStmt, Option.getD_some]
    refine ⟨g2, Ext.trans (ext_addRaw t _ p) e2, ?_⟩
    rw [v2, viewB_addDecl t gd n v p hp, List.map_map]
    apply List.map_congr_left
    intro e _
    simp [Function.comp, extB_extB]

/-- A construct that opens a new block: nodes were created (`A`, all without declarations, and the
    entry of the new current parent `P'`), then the body was visited with `P'` as parent. -/
theorem construct_rel (t0 t2 : Tree) (gd0 : Good t0) (P0 : Option Nat) (P' : Nat) (ctx0 : List Kind) (sel0 : Option SelList)
    (A : List EntB) (hview : viewB t2 = viewB t0 ++ A ++ [(P', ctx0, sel0, [])])
    (hA : ∀ e ∈ A, e.2.2.2 = [] ∧ t0.length ≤ e.1 ∧ e.1 ≠ P') (hP' : t0.length ≤ P')
    (ex : Ext t0 t2) (specBody : SpecRes) (res : Except Err Tree) (hrel : RelB t2 (some P') specBody res)
    (c' : SCtx) (hc1 : c'.frames = ctx0) (hc2 : c'.home = sel0) :
    RelB t0 P0 (wrapBlock c' specBody) res := by
  cases specBody with
  | error e => simpa [wrapBlock, RelB] using hrel
  | ok x =>
    obtain ⟨ds', bs'⟩ := x
    obtain ⟨t', hb, gd', ex', new', hv, hm, hi⟩ := hrel
    refine ⟨t', hb, gd', Ext.trans ex ex', A ++ [(P', ctx0, sel0, ds')] ++ new', ?_, ?_, ?_⟩
    · rw [hv, hview, List.map_append, List.map_append]
      have e1 : (viewB t0).map (extOB (some P') ds') = viewB t0 := by
        apply map_eq_self
        intro e he
        have := viewB_idx_lt t0 e he
        exact extB_ne _ _ e (by omega)
      have e2 : (viewB t0).map (extOB P0 []) = viewB t0 := map_eq_self _ _ (fun e _ => extOB_nil P0 e)
      have e3 : A.map (extOB (some P') ds') = A := by
        apply map_eq_self
        intro e he
        exact extB_ne _ _ e (hA e he).2.2
      rw [e1, e2, e3]
      simp [extOB, extB]
    · have hAe : (A.map toBlockB).filter Block.nonEmpty = [] := by
        rw [List.filter_eq_nil_iff]
        intro b hb
        simp only [List.mem_map] at hb
        obtain ⟨e, he, rfl⟩ := hb
        simp [toBlockB, Block.nonEmpty, (hA e he).1]
      simp only [List.map_append, List.filter_append, hAe, List.nil_append, hm, List.map_cons, List.map_nil,
        wrapBlock]
      simp only [toBlockB, hc1, hc2, List.filter_cons]
      split <;> simp
    · intro e he
      simp only [List.mem_append, List.mem_singleton] at he
      rcases he with (he | he) | he
      · exact (hA e he).2.1
      · subst he; exact hP'
      · have := hi e he; have := ex.len; omega


/-! ### coherence between the spec context and the visitor context -/

def ParentIs (t : Tree) (P : Option Nat) (g : Nat) : Option SelList → Prop
  | none => P = (if g = 0 then none else some g)
  | some S => ∃ p, P = some p ∧ p ≠ 0 ∧ p < t.length ∧ kindAt t p = some (.rule S) ∧ parentOf t p = some g

structure CohB (t : Tree) (sc : SCtx) (vc : VCtx) : Prop where
  excl : sc.exclStyle = false
  aexcl : vc.atRootExcl = false
  sel : vc.styleRule = sc.sel
  unk : vc.inUnknown = sc.inUnknown
  unkf : sc.inUnknown = sc.frames.any Kind.isUnknown
  mq : vc.mq = innermostMedia sc.frames
  noadj : noAdjR sc.frames.reverse = true
  node : ∃ g, g < t.length ∧ fullCtx t g = sc.frames ∧ (g = 0 ∨ ∃ k, kindAt t g = some k ∧ k.isAt = true) ∧
           (∀ G, parentOf t g = some G → G = 0 ∨ ∃ kG, kindAt t G = some kG ∧ kG.isAt = true) ∧
           ParentIs t vc.parent g sc.sel

theorem parentIs_ext (t t' : Tree) (ex : Ext t t') (P : Option Nat) (g : Nat) (sel : Option SelList)
    (h : ParentIs t P g sel) : ParentIs t' P g sel := by
  cases sel with
  | none => exact h
  | some S =>
    obtain ⟨p, h1, h2, h3, h4, h5⟩ := h
    exact ⟨p, h1, h2, Nat.lt_of_lt_of_le h3 ex.len, by rw [ex.kind p h3]; exact h4, by rw [ex.par p h3]; exact h5⟩

theorem cohB_ext (t t' : Tree) (gd : Good t) (ex : Ext t t') (sc : SCtx) (vc : VCtx) (h : CohB t sc vc) :
    CohB t' sc vc := by
  obtain ⟨g, hg, hf, hk, hgp, hp⟩ := h.node
  refine ⟨h.excl, h.aexcl, h.sel, h.unk, h.unkf, h.mq, h.noadj, g, Nat.lt_of_lt_of_le hg ex.len, ?_, ?_, ?_,
    parentIs_ext t t' ex _ g _ hp⟩
  · rw [fullCtx_ext t t' gd ex g hg]; exact hf
  · rcases hk with h0 | ⟨k, hk1, hk2⟩
    · exact Or.inl h0
    · exact Or.inr ⟨k, by rw [ex.kind g hg]; exact hk1, hk2⟩
  · intro G hG
    rw [ex.par g hg] at hG
    rcases hgp G hG with h0 | ⟨kG, h1, h2⟩
    · exact Or.inl h0
    · have := gd.po g G hG
      exact Or.inr ⟨kG, by rw [ex.kind G (by omega)]; exact h1, h2⟩

theorem parentIs_lt (t : Tree) (P : Option Nat) (g : Nat) (hg : g < t.length) (sel : Option SelList)
    (h : ParentIs t P g sel) : ∀ p, P = some p → p < t.length := by
  intro p hp
  cases sel with
  | none =>
    simp only [ParentIs] at h
    by_cases h0 : g = 0
    · simp [h0] at h; rw [h] at hp; cases hp
    · simp [h0] at h; rw [h] at hp; injection hp with hp; omega
  | some S =>
    obtain ⟨p', h1, _, h3, _⟩ := h
    rw [h1] at hp; injection hp with hp; omega

theorem frames_of_node (t : Tree) (gd : Good t) (g : Nat) (h0 : g ≠ 0) (hg : g < t.length) (k : Kind)
    (hk : kindAt t g = some k) : ∃ G, parentOf t g = some G ∧ G < g ∧ fullCtx t g = fullCtx t G ++ [k] := by
  obtain ⟨G, hG⟩ := gd.pars g (by omega) hg
  refine ⟨G, hG, gd.po g G hG, ?_⟩
  simp only [fullCtx]
  rw [show ctxUpF t (g + 1) g = fullCtx t G from ctxUp_eq_parent t gd g G h0 hG, hk]
  rfl

theorem landing_some_succ (t : Tree) (th : Through) (p : Nat) (h : p ≠ 0) :
    landing t (some p) th = climb t th t.length p := by
  cases p with
  | zero => exact absurd rfl h
  | succ p' => rfl

/-- the walk stops at the innermost at-rule node `g` -/
theorem landing_at_g (t : Tree) (gd : Good t) (th : Through) (hrule : ∀ S, th.test (.rule S) = true)
    (P : Option Nat) (g : Nat) (hg : g < t.length) (sel : Option SelList) (hp : ParentIs t P g sel)
    (hstop : ∀ k, kindAt t g = some k → th.test k = false) : landing t P th = g := by
  obtain ⟨f, hf⟩ : ∃ f, t.length = f + 1 := ⟨t.length - 1, by have := gd.pos; omega⟩
  cases sel with
  | none =>
    simp only [ParentIs] at hp
    by_cases h0 : g = 0
    · simp [h0] at hp; subst hp; simp [landing, h0]
    · simp [h0] at hp; subst hp
      rw [landing_some_succ t th g h0, hf]
      obtain ⟨k, hk⟩ := gd.kinds g (by omega) hg
      exact climb_stop t th f g k hk (hstop k hk)
  | some S =>
    obtain ⟨p, h1, h2, h3, h4, h5⟩ := hp
    subst h1
    have hgp := gd.po p g h5
    rw [landing_some_succ t th p h2, hf, climb_step t th f p g _ h2 h4 h5 (hrule S)]
    by_cases h0 : g = 0
    · subst h0; exact climb_zero t th f
    · obtain ⟨f', hf'⟩ : ∃ f', f = f' + 1 := ⟨f - 1, by omega⟩
      obtain ⟨k, hk⟩ := gd.kinds g (by omega) hg
      rw [hf']; exact climb_stop t th f' g k hk (hstop k hk)

/-- the walk passes the innermost at-rule node `g` (a merged @media) and stops at its parent `G` -/
theorem landing_at_G (t : Tree) (gd : Good t) (th : Through) (hrule : ∀ S, th.test (.rule S) = true)
    (P : Option Nat) (g G : Nat) (hg : g < t.length) (h0 : g ≠ 0) (sel : Option SelList) (hp : ParentIs t P g sel)
    (kg : Kind) (hkg : kindAt t g = some kg) (hthrough : th.test kg = true) (hG : parentOf t g = some G)
    (hstop : ∀ k, kindAt t G = some k → th.test k = false) : landing t P th = G := by
  obtain ⟨f, hf⟩ : ∃ f, t.length = f + 1 := ⟨t.length - 1, by have := gd.pos; omega⟩
  have hGg := gd.po g G hG
  have tail : ∀ f', G + 1 ≤ f' → climb t th f' G = G := by
    intro f' hf'
    by_cases hG0 : G = 0
    · subst hG0; exact climb_zero t th f'
    · obtain ⟨f'', hf''⟩ : ∃ f'', f' = f'' + 1 := ⟨f' - 1, by omega⟩
      obtain ⟨k, hk⟩ := gd.kinds G (by omega) (by omega)
      rw [hf'']; exact climb_stop t th f'' G k hk (hstop k hk)
  cases sel with
  | none =>
    simp only [ParentIs, h0, if_false] at hp
    subst hp
    rw [landing_some_succ t th g h0, hf, climb_step t th f g G kg h0 hkg hG hthrough]
    exact tail f (by omega)
  | some S =>
    obtain ⟨p, h1, h2, h3, h4, h5⟩ := hp
    subst h1
    have hgp := gd.po p g h5
    rw [landing_some_succ t th p h2, hf, climb_step t th f p g _ h2 h4 h5 (hrule S)]
    obtain ⟨f', hf'⟩ : ∃ f', f = f' + 1 := ⟨f - 1, by omega⟩
    rw [hf', climb_step t th f' g G kg h0 hkg hG hthrough]
    exact tail f' (by omega)

end Grass.CssTree
