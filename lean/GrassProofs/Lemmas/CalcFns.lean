import GrassProofs.Lemmas.CalcSimp
/-
  Helper lemmas for C16: min/max/clamp reduction.
-/
namespace Grass.Calc

/-- proof-side description of `compatible`: equal units, or two plain units of one convertible kind. -/
def convKind (u : CUnit) : Option Kind :=
  match u with
  | ⟨[b], []⟩ =>
    match b.kind with
    | .absolute => some .absolute
    | .angle => some .angle
    | .time => some .time
    | .frequency => some .frequency
    | .resolution => some .resolution
    | _ => none
  | _ => none

theorem compatible_iff (a b : CUnit) :
    compatible a b = true ↔ (a = b ∨ ((convKind a).isSome = true ∧ convKind a = convKind b)) := by
  rcases a with ⟨_ | ⟨f1, _ | ⟨f2, fr⟩⟩, _ | ⟨fd1, fdr⟩⟩ <;>
  rcases b with ⟨_ | ⟨t1, _ | ⟨t2, tr⟩⟩, _ | ⟨td1, tdr⟩⟩ <;>
  simp [compatible, comparable, CUnit.kind, CUnit.isNone, convKind] <;>
  first
  | done
  | (cases f1 <;> simp [BU.kind]; done)
  | (cases t1 <;> simp [BU.kind]; done)
  | (cases f1 <;> cases t1 <;> simp [BU.kind]; done)

theorem compatible_trans (a b c : CUnit) (h1 : compatible a b = true) (h2 : compatible b c = true) :
    compatible a c = true := by
  rw [compatible_iff] at h1 h2 ⊢
  rcases h1 with e | ⟨s1, e1⟩
  · subst e; exact h2
  · rcases h2 with e | ⟨s2, e2⟩
    · subst e; exact Or.inr ⟨s1, e1⟩
    · exact Or.inr ⟨s1, e1.trans e2⟩

theorem convert_isSome_of_comparable' (x : Rat) (frm to : CUnit) (h : comparable to frm = true) :
    (convert x frm to).isSome = true := by
  by_cases hf : frm.isNone = true
  · simp [convert, hf]
  · by_cases ht : to.isNone = true
    · simp [convert, ht]
    · exact convert_isSome_of_comparable x frm to
        (comparable_symm _ _ (Bool.eq_false_iff.mpr ht) (Bool.eq_false_iff.mpr hf) h)

theorem extremumLoop_no_panic (isMax : Bool) :
    ∀ (args : List CalcArg) (m : Option Num), extremumLoop isMax m args ≠ .panic := by
  intro args
  induction args with
  | nil => intro m; simp [extremumLoop]
  | cons a rest ih =>
    intro m
    cases m with
    | none =>
      cases a <;> simp [extremumLoop]
      exact ih _
    | some m =>
      cases a <;> simp only [extremumLoop] <;> try simp
      rename_i n u
      split
      · simp
      · rename_i hc
        have := convert_isSome_of_comparable' n u m.u (by simpa using hc)
        cases hcv : convert n u m.u with
        | none => simp [hcv] at this
        | some c =>
          simp only []
          intro hp
          rcases Res.bind_eq_panic.mp hp with hp | ⟨u, _, hp⟩
          · exact ih _ hp
          · cases hp

def foldExt (isMax : Bool) (m : Rat) (xs : List Rat) : Rat := if isMax then foldMax m xs else foldMin m xs

theorem foldExt_cons (isMax : Bool) (m x : Rat) (xs : List Rat) :
    foldExt isMax m (x :: xs) = foldExt isMax (if isMax then rmax m x else rmin m x) xs := by
  cases isMax <;> simp [foldExt, foldMin, foldMax]

theorem evalArgs_cons_some (ρ : Env) (a : CalcArg) (as : CalcArgs) (x : Rat) (xs : List Rat)
    (h1 : evalCalc ρ a = some x) (h2 : evalArgs ρ as = some xs) :
    evalArgs ρ (.cons a as) = some (x :: xs) := by
  simp [evalArgs, h1, h2]

theorem ite_some' {α : Type} (c : Prop) [Decidable c] (a b : α) :
    (if c then some a else some b) = some (if c then a else b) := by
  split <;> rfl

/-- invariant of the `min`/`max` loop: if it ends with an extremum and never coerced, every remaining
    argument is a number and the extremum is the ordinary one. -/
theorem extremumLoop_value (ρ : Env) (hw : ρ.wf) (isMax : Bool) :
    ∀ (rest : List CalcArg) (m r : Num),
      extremumLoop isMax (some m) rest = .ok (some r, false) →
      ∃ vals, evalArgs ρ (CalcArgs.ofList rest) = some vals ∧ r.val ρ = foldExt isMax (m.val ρ) vals := by
  intro rest
  induction rest with
  | nil =>
    intro m r h
    simp [extremumLoop] at h; subst h
    exact ⟨[], by simp [CalcArgs.ofList, evalArgs], by cases isMax <;> simp [foldExt, foldMin, foldMax]⟩
  | cons a rest ih =>
    intro m r h
    cases a <;> simp only [extremumLoop] at h <;> try (simp at h; done)
    rename_i n u
    split at h
    · simp at h
    · rename_i hc
      split at h
      · cases h
      · rename_i c hcv
        obtain ⟨⟨r', co'⟩, hr, ho⟩ := Res.bind_eq_ok.mp h
        simp at ho
        obtain ⟨e1, e2, e3⟩ := ho
        subst e1; subst e2
        have hcomp : compatible m.u u = true := by simpa using e3
        rw [ite_some'] at hr
        obtain ⟨vals, hv, hf⟩ := ih _ r hr
        have hconv := convert_value ρ n c u m.u (compatible_symm _ _ hcomp) hcv
        have hU := unitVal_pos ρ hw m.u
        refine ⟨n * unitVal ρ u :: vals, ?_, ?_⟩
        · exact evalArgs_cons_some ρ _ _ _ _ (by simp [evalCalc]) hv
        · rw [foldExt_cons, hf]
          congr 1
          cases isMax
          · simp only [Bool.false_eq_true, if_false]
            have : (m.n > c) ↔ (n * unitVal ρ u < m.val ρ) := by
              simp only [Num.val, ← hconv]
              exact (Rat.mul_lt_mul_right hU).symm
            by_cases hgt : m.n > c
            · rw [if_pos hgt]; unfold rmin; rw [if_pos (this.mp hgt)]; rfl
            · rw [if_neg hgt]; unfold rmin; rw [if_neg (fun x => hgt (this.mpr x))]
          · simp only [if_true]
            have : (m.n < c) ↔ (m.val ρ < n * unitVal ρ u) := by
              simp only [Num.val, ← hconv]
              exact (Rat.mul_lt_mul_right hU).symm
            by_cases hgt : m.n < c
            · rw [if_pos hgt]; unfold rmax; rw [if_pos (this.mp hgt)]; rfl
            · rw [if_neg hgt]; unfold rmax; rw [if_neg (fun x => hgt (this.mpr x))]

theorem evalArgs_map_simplify (ρ : Env) (l : List CalcArg) :
    evalArgs ρ (CalcArgs.ofList (l.map simplify)) = evalArgs ρ (CalcArgs.ofList l) := by
  induction l with
  | nil => rfl
  | cons a l ih => simp only [List.map, CalcArgs.ofList, evalArgs, simplify_value, ih]

theorem eval_calculation_congr (ρ : Env) (nm : CName) (as as' : CalcArgs)
    (h : evalArgs ρ as = evalArgs ρ as') :
    evalCalc ρ (.calculation nm as) = evalCalc ρ (.calculation nm as') := by
  simp only [evalCalc, h]

theorem extremumFn_value (ρ : Env) (hw : ρ.wf) (cfg : Cfg) (isMax : Bool) (args : List CalcArg) (o : Out)
    (h : extremumFn cfg isMax args = .ok o) (hco : o.coerced = false) :
    evalCalc ρ o.arg = evalCalc ρ (.calculation (if isMax then .max else .min) (CalcArgs.ofList args)) := by
  rw [← eval_calculation_congr ρ _ _ _ (evalArgs_map_simplify ρ args)]
  unfold extremumFn at h
  simp only [] at h
  generalize args.map simplify = A at h ⊢
  obtain ⟨⟨m, co⟩, hloop, ho⟩ := Res.bind_eq_ok.mp h
  cases m with
  | none =>
    simp only [] at ho
    obtain ⟨_, _, ho⟩ := Res.bind_eq_ok.mp ho
    cases ho; rfl
  | some m =>
    simp only [] at ho
    cases ho
    simp only [] at hco; subst hco
    cases A with
    | nil => simp [extremumLoop] at hloop
    | cons a rest =>
      cases a <;> simp only [extremumLoop] at hloop <;> try (simp at hloop; done)
      rename_i n u
      obtain ⟨vals, hv, hf⟩ := extremumLoop_value ρ hw isMax rest ⟨n, u⟩ m hloop
      have he : evalArgs ρ (CalcArgs.ofList (CalcArg.number n u :: rest)) = some (n * unitVal ρ u :: vals) :=
        evalArgs_cons_some ρ _ _ _ _ (by simp [evalCalc]) hv
      simp only [evalCalc, he]
      simp only [Num.val] at hf
      cases isMax <;> simp [evalFn, foldExt] at hf ⊢ <;> exact hf

theorem extremumFn_no_panic (cfg : Cfg) (isMax : Bool) (args : List CalcArg) :
    extremumFn cfg isMax args ≠ .panic := by
  intro h
  unfold extremumFn at h
  simp only [] at h
  rcases Res.bind_eq_panic.mp h with hp | ⟨⟨m, co⟩, _, hp⟩
  · exact extremumLoop_no_panic _ _ _ hp
  · cases m with
    | some m => cases hp
    | none =>
      simp only [] at hp
      rcases Res.bind_eq_panic.mp hp with hp | ⟨_, _, hp⟩
      · exact verifyCompatible_no_panic _ _ hp
      · cases hp

theorem calcFn_value (ρ : Env) (a : CalcArg) :
    evalCalc ρ (calcFn a) = evalCalc ρ (.calculation .calc (.cons a .nil)) := by
  have hs := simplify_value ρ a
  have hc : evalCalc ρ (.calculation .calc (.cons a .nil)) = evalCalc ρ a := by
    simp only [evalCalc, evalArgs]
    cases evalCalc ρ a <;> simp [evalFn]
  have hc' : evalCalc ρ (.calculation .calc (.cons (simplify a) .nil)) = evalCalc ρ (simplify a) := by
    simp only [evalCalc, evalArgs]
    cases evalCalc ρ (simplify a) <;> simp [evalFn]
  rw [hc, ← hs]
  unfold calcFn
  split
  · rename_i e; rw [e]
  · rename_i e; rw [e]
  · rename_i x _ _; exact hc'

theorem mul_le_mul_right_iff (x y U : Rat) (hU : 0 < U) : x ≤ y ↔ x * U ≤ y * U := by
  rw [← Rat.not_lt, ← Rat.not_lt (a := y * U)]
  exact not_congr (Rat.mul_lt_mul_right hU).symm

theorem mul_lt_mul_right_iff (x y U : Rat) (hU : 0 < U) : x < y ↔ x * U < y * U :=
  (Rat.mul_lt_mul_right hU).symm

/-- pure order fact behind `clamp`: the coded cascade (`VAL ≤ MIN ∨ MAX < MIN → MIN; VAL ≥ MAX → MAX;
    VAL`) is `max(MIN, min(VAL, MAX))`. -/
theorem clamp_cascade (A B C : Rat) :
    (if B ≤ A then A else if C < A then A else if B ≥ C then C else B) = rmax A (rmin B C) := by
  unfold rmax rmin; grind

theorem clampReduce_value (ρ : Env) (hw : ρ.wf) (cfg : Cfg) (hcss : cfg.clampCss = true) (mn v mx r : Num)
    (h1 : compatible mn.u v.u = true) (h2 : compatible mn.u mx.u = true)
    (h : clampReduce cfg mn v mx = .ok r) :
    r.val ρ = rmax (mn.val ρ) (rmin (v.val ρ) (mx.val ρ)) := by
  unfold clampReduce at h
  split at h
  · rename_i mn' mx' c1 c2
    have e1 := convert_value ρ mn.n mn' mn.u v.u h1 c1
    have e2 := convert_value ρ mx.n mx' mx.u v.u
      (compatible_trans _ _ _ (compatible_symm _ _ h2) h1) c2
    have hU := unitVal_pos ρ hw v.u
    have hUm := unitVal_pos ρ hw mn.u
    rw [← clamp_cascade]
    have k1 : v.n ≤ mn' ↔ v.val ρ ≤ mn.val ρ := by
      unfold Num.val; rw [← e1]; exact mul_le_mul_right_iff v.n mn' _ hU
    have k3 : mx' ≤ v.n ↔ mx.val ρ ≤ v.val ρ := by
      unfold Num.val; rw [← e2]; exact mul_le_mul_right_iff mx' v.n _ hU
    by_cases c1 : v.n ≤ mn'
    · rw [if_pos c1] at h; cases h
      rw [if_pos (k1.mp c1)]
    · rw [if_neg c1] at h
      rw [if_neg (fun x => c1 (k1.mpr x))]
      rw [if_pos hcss] at h
      cases c3 : convert mx.n mx.u mn.u with
      | none => rw [c3] at h; cases h
      | some mxm =>
        rw [c3] at h
        simp only [] at h
        have e3 := convert_value ρ mx.n mxm mx.u mn.u (compatible_symm _ _ h2) c3
        have k2 : mxm < mn.n ↔ mx.val ρ < mn.val ρ := by
          unfold Num.val; rw [← e3]; exact mul_lt_mul_right_iff mxm mn.n _ hUm
        by_cases c2 : mxm < mn.n
        · rw [if_pos c2] at h; cases h
          rw [if_pos (k2.mp c2)]
        · rw [if_neg c2] at h
          rw [if_neg (fun x => c2 (k2.mpr x))]
          by_cases c4 : v.n ≥ mx'
          · rw [if_pos c4] at h; cases h
            rw [if_pos (k3.mp c4)]
          · rw [if_neg c4] at h; cases h
            rw [if_neg (fun x => c4 (k3.mpr x))]
  · cases h

theorem clampReduce_no_panic (cfg : Cfg) (mn v mx : Num)
    (h1 : compatible mn.u v.u = true) (h2 : compatible mn.u mx.u = true) :
    clampReduce cfg mn v mx ≠ .panic := by
  unfold clampReduce
  have s1 := convert_isSome_of_comparable mn.n mn.u v.u (compatible_comparable _ _ h1)
  have s2 := convert_isSome_of_comparable mx.n mx.u v.u
    (compatible_comparable _ _ (compatible_trans _ _ _ (compatible_symm _ _ h2) h1))
  have s3 := convert_isSome_of_comparable mx.n mx.u mn.u
    (compatible_comparable _ _ (compatible_symm _ _ h2))
  cases c1 : convert mn.n mn.u v.u <;> cases c2 : convert mx.n mx.u v.u <;>
    cases c3 : convert mx.n mx.u mn.u <;> simp_all
  repeat' split
  all_goals simp

theorem clampFn_value (ρ : Env) (hw : ρ.wf) (cfg : Cfg) (hcss : cfg.clampCss = true)
    (args : List CalcArg) (o : Out)
    (h : clampFn cfg args = .ok o) (hco : o.coerced = false) :
    evalCalc ρ o.arg = evalCalc ρ (.calculation .clamp (CalcArgs.ofList args)) := by
  rw [← eval_calculation_congr ρ _ _ _ (evalArgs_map_simplify ρ args)]
  unfold clampFn at h
  simp only [] at h
  generalize args.map simplify = A at h ⊢
  have gen : ∀ o, ((verifyLength A 3).bind fun _ => (verifyCompatible cfg.strict A).bind fun _ =>
      Res.ok (⟨.calculation .clamp (CalcArgs.ofList A), false⟩ : Out)) = .ok o →
      evalCalc ρ o.arg = evalCalc ρ (.calculation .clamp (CalcArgs.ofList A)) := by
    intro o h
    obtain ⟨_, _, h⟩ := Res.bind_eq_ok.mp h
    obtain ⟨_, _, h⟩ := Res.bind_eq_ok.mp h
    cases h; rfl
  split at h
  · rename_i a ua b ub c uc
    by_cases hgd : (if cfg.clampGuarded = true then compatible ua ub && compatible ua uc else comparable ua ub && comparable ua uc) = true
    · rw [if_pos hgd] at h
      obtain ⟨r, hr, ho⟩ := Res.bind_eq_ok.mp h
      cases ho
      simp at hco
      have := clampReduce_value ρ hw cfg hcss ⟨a, ua⟩ ⟨b, ub⟩ ⟨c, uc⟩ r hco.1 hco.2 hr
      simp only [Num.val] at this
      simp [evalCalc, evalArgs, CalcArgs.ofList, evalFn, this]
    · rw [if_neg hgd] at h; exact gen o h
  · exact gen o h

theorem clampFn_no_panic (cfg : Cfg) (hg : cfg.clampGuarded = true) (args : List CalcArg) :
    clampFn cfg args ≠ .panic := by
  intro h
  unfold clampFn at h
  simp only [] at h
  generalize args.map simplify = A at h
  have gen : ((verifyLength A 3).bind fun _ => (verifyCompatible cfg.strict A).bind fun _ =>
      Res.ok (⟨.calculation .clamp (CalcArgs.ofList A), false⟩ : Out)) ≠ .panic := by
    intro h
    rcases Res.bind_eq_panic.mp h with hp | ⟨_, _, hp⟩
    · exact verifyLength_no_panic _ _ hp
    · rcases Res.bind_eq_panic.mp hp with hp | ⟨_, _, hp⟩
      · exact verifyCompatible_no_panic _ _ hp
      · cases hp
  split at h
  · rename_i a ua b ub c uc
    by_cases hc : (if cfg.clampGuarded = true then compatible ua ub && compatible ua uc else comparable ua ub && comparable ua uc) = true
    · rw [if_pos hc] at h
      simp only [hg, if_true, Bool.and_eq_true] at hc
      rcases Res.bind_eq_panic.mp h with hp | ⟨_, _, hp⟩
      · exact clampReduce_no_panic cfg ⟨a, ua⟩ ⟨b, ub⟩ ⟨c, uc⟩ hc.1 hc.2 hp
      · cases hp
    · rw [if_neg hc] at h; exact gen h
  · exact gen h

theorem extremumLoop_all_numbers (isMax : Bool) :
    ∀ (rest : List CalcArg) (m : Option Num) (r : Num) (co : Bool),
      extremumLoop isMax m rest = .ok (some r, co) → ∀ a ∈ rest, ∃ n u, a = .number n u := by
  intro rest
  induction rest with
  | nil => intro m r co _ a ha; cases ha
  | cons x rest ih =>
    intro m r co h a ha
    cases m with
    | none =>
      cases x <;> simp only [extremumLoop] at h <;> try (simp at h; done)
      rename_i n u
      rcases List.mem_cons.mp ha with e | e
      · exact ⟨n, u, e⟩
      · exact ih _ r co h a e
    | some m =>
      cases x <;> simp only [extremumLoop] at h <;> try (simp at h; done)
      rename_i n u
      split at h
      · simp at h
      · split at h
        · cases h
        · obtain ⟨⟨r', co'⟩, hr, ho⟩ := Res.bind_eq_ok.mp h
          simp at ho
          rcases List.mem_cons.mp ha with e | e
          · exact ⟨n, u, e⟩
          · rw [ite_some'] at hr
            obtain ⟨e1, _⟩ := ho; subst e1
            exact ih _ r co' hr a e

/-- without coercion, every argument the loop has seen is compatible with the starting extremum -/
theorem extremumLoop_compat (isMax : Bool) :
    ∀ (rest : List CalcArg) (m r : Num),
      extremumLoop isMax (some m) rest = .ok (some r, false) →
      compatible m.u r.u = true ∧ ∀ n u, CalcArg.number n u ∈ rest → compatible m.u u = true := by
  intro rest
  induction rest with
  | nil =>
    intro m r h
    simp [extremumLoop] at h; subst h
    refine ⟨?_, fun n u hm => by cases hm⟩
    rw [compatible_iff]; exact Or.inl rfl
  | cons x rest ih =>
    intro m r h
    cases x <;> simp only [extremumLoop] at h <;> try (simp at h; done)
    rename_i n0 u0
    split at h
    · simp at h
    · split at h
      · cases h
      · obtain ⟨⟨r', co'⟩, hr, ho⟩ := Res.bind_eq_ok.mp h
        simp at ho
        obtain ⟨e1, e2, e3⟩ := ho
        subst e1; subst e2
        rw [ite_some'] at hr
        obtain ⟨c1, c2⟩ := ih _ r hr
        have hmu : ∀ (P : Prop) [Decidable P], compatible m.u (if P then (⟨n0, u0⟩ : Num) else m).u = true := by
          intro P _
          split
          · exact e3
          · rw [compatible_iff]; exact Or.inl rfl
        refine ⟨compatible_trans _ _ _ (hmu _) c1, fun n u hm => ?_⟩
        rcases List.mem_cons.mp hm with e | e
        · injection e with e1 e2; subst e1; subst e2; exact e3
        · exact compatible_trans _ _ _ (hmu _) (c2 n u e)

end Grass.Calc
