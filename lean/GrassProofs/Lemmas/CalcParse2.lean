import GrassProofs.Lemmas.CalcParse
/-
  Helper lemmas for C16, part 2: printing then reading preserves the value.
-/
namespace Grass.Calc

def Eqv (a b : CalcArg) : Prop := ∀ ρ, evalCalc ρ a = evalCalc ρ b
def EqvArgs (a b : CalcArgs) : Prop := ∀ ρ, evalArgs ρ a = evalArgs ρ b

theorem Eqv.refl (a : CalcArg) : Eqv a a := fun _ => rfl
theorem Eqv.trans {a b c : CalcArg} (h1 : Eqv a b) (h2 : Eqv b c) : Eqv a c := fun ρ => (h1 ρ).trans (h2 ρ)

theorem Eqv.op {l l' r r' : CalcArg} (o : Op) (hl : Eqv l' l) (hr : Eqv r' r) :
    Eqv (.operation l' o r') (.operation l o r) := by
  intro ρ; simp only [evalCalc, hl ρ, hr ρ]

theorem Eqv.calc {as as' : CalcArgs} (nm : CName) (h : EqvArgs as' as) :
    Eqv (.calculation nm as') (.calculation nm as) := by
  intro ρ; simp only [evalCalc, h ρ]

theorem EqvArgs.cons {a a' : CalcArg} {as as' : CalcArgs} (h1 : Eqv a' a) (h2 : EqvArgs as' as) :
    EqvArgs (.cons a' as') (.cons a as) := by
  intro ρ; simp only [evalArgs, h1 ρ, h2 ρ]

theorem Eqv.mulAssoc {acc acc1 acc2 l r : CalcArg} {o2 : Op} (ho : isMulDiv o2 = true)
    (h1 : Eqv acc1 (.operation acc .mul l)) (h2 : Eqv acc2 (.operation acc1 o2 r)) :
    Eqv acc2 (.operation acc .mul (.operation l o2 r)) := by
  intro ρ
  rw [h2 ρ]; simp only [evalCalc]; rw [h1 ρ]; simp only [evalCalc]
  cases evalCalc ρ acc <;> cases evalCalc ρ l <;> cases evalCalc ρ r <;>
    cases o2 <;> simp [isMulDiv] at ho <;> simp [applyOp]
  · grind
  · rename_i x y z
    by_cases hz : z = 0 <;> simp [hz]
    grind

theorem Eqv.addAssoc {acc acc1 acc2 l r : CalcArg} {o2 : Op} (ho : isPlusMinus o2 = true)
    (h1 : Eqv acc1 (.operation acc .plus l)) (h2 : Eqv acc2 (.operation acc1 o2 r)) :
    Eqv acc2 (.operation acc .plus (.operation l o2 r)) := by
  intro ρ
  rw [h2 ρ]; simp only [evalCalc]; rw [h1 ρ]; simp only [evalCalc]
  cases evalCalc ρ acc <;> cases evalCalc ρ l <;> cases evalCalc ρ r <;>
    cases o2 <;> simp [isPlusMinus] at ho <;> simp [applyOp] <;> grind

def isOperation : CalcArg → Bool
  | .operation _ _ _ => true
  | _ => false

def productLevel : CalcArg → Bool
  | .operation _ o _ => isMulDiv o
  | _ => true

def AtomP (T : List Tok) (a : CalcArg) : Prop :=
  ∀ rest, ∃ a', Eqv a' a ∧ PAtom (T ++ rest) (a', rest)
def ProdW (T : List Tok) (a : CalcArg) : Prop :=
  ∀ rest, ∃ a', Eqv a' a ∧ ∀ res, PProdLoop a' rest res → PProd (T ++ rest) res
def SumW (T : List Tok) (a : CalcArg) : Prop :=
  ∀ rest, notMulDiv rest = true → ∃ a', Eqv a' a ∧ ∀ res, PSumLoop a' rest res → PSum (T ++ rest) res
def Sum0 (a : CalcArg) : Prop :=
  ∀ rest, notMulDiv rest = true → notPlusMinus rest = true → ∃ a', Eqv a' a ∧ PSum (pr a ++ rest) (a', rest)
def SumL (o : Op) (T : List Tok) (a : CalcArg) : Prop :=
  ∀ acc rest, notMulDiv rest = true →
    ∃ acc', Eqv acc' (.operation acc o a) ∧ ∀ res, PSumLoop acc' rest res → PSumLoop acc (.op o :: (T ++ rest)) res
def ProdL (o : Op) (T : List Tok) (a : CalcArg) : Prop :=
  ∀ acc rest,
    ∃ acc', Eqv acc' (.operation acc o a) ∧ ∀ res, PProdLoop acc' rest res → PProdLoop acc (.op o :: (T ++ rest)) res

theorem AtomP.toProdW {T : List Tok} {a : CalcArg} (h : AtomP T a) : ProdW T a := by
  intro rest
  obtain ⟨a', he, hp⟩ := h rest
  exact ⟨a', he, fun res hres => PProd.intro hp hres⟩

theorem ProdW.toSumW {T : List Tok} {a : CalcArg} (h : ProdW T a) : SumW T a := by
  intro rest hmd
  obtain ⟨a', he, hp⟩ := h rest
  exact ⟨a', he, fun res hres => PSum.intro (hp _ (PProdLoop.stop a' rest hmd)) hres⟩

theorem SumW.toSum0 {a : CalcArg} (h : SumW (pr a) a) : Sum0 a := by
  intro rest hmd hpm
  obtain ⟨a', he, hp⟩ := h rest hmd
  exact ⟨a', he, hp _ (PSumLoop.stop a' rest hpm)⟩

theorem Sum0.toParen {a : CalcArg} (h : Sum0 a) : AtomP (wrap true (pr a)) a := by
  intro rest
  obtain ⟨a', he, hp⟩ := h (.rp :: rest) rfl rfl
  refine ⟨a', he, ?_⟩
  have : wrap true (pr a) ++ rest = .lp :: (pr a ++ .rp :: rest) := by simp [wrap]
  rw [this]
  exact PAtom.paren hp

theorem AtomP.toProdL {T : List Tok} {a : CalcArg} {o : Op} (ho : isMulDiv o = true) (h : AtomP T a) :
    ProdL o T a := by
  intro acc rest
  obtain ⟨a', he, hp⟩ := h rest
  exact ⟨.operation acc o a', Eqv.op o (Eqv.refl acc) he, fun res hres => PProdLoop.step ho hp hres⟩

theorem ProdW.toSumL {T : List Tok} {a : CalcArg} {o : Op} (ho : isPlusMinus o = true) (h : ProdW T a) :
    SumL o T a := by
  intro acc rest hmd
  obtain ⟨a', he, hp⟩ := h rest
  exact ⟨.operation acc o a', Eqv.op o (Eqv.refl acc) he,
    fun res hres => PSumLoop.step ho (hp _ (PProdLoop.stop a' rest hmd)) hres⟩

/-- what the induction establishes for every (well-formed) tree -/
structure Good (a : CalcArg) : Prop where
  sum0 : Sum0 a
  sumW : SumW (pr a) a
  prodW : productLevel a = true → ProdW (pr a) a
  atomP : isOperation a = false → AtomP (pr a) a
  sumL : ∀ o, isPlusMinus o = true → SumL o (wrap (parenRight o a) (pr a)) a
  prodL : ∀ o, isMulDiv o = true → ProdL o (wrap (parenRight o a) (pr a)) a

theorem productLevel_of_parenLeft {a : CalcArg} {o : Op} (ho : isMulDiv o = true)
    (h : parenLeft a o = false) : productLevel a = true := by
  cases a <;> simp [productLevel]
  rename_i l o2 r
  cases o <;> simp [isMulDiv] at ho <;> cases o2 <;> simp_all [parenLeft, Op.prec, isMulDiv]

theorem Good.prodHead {a : CalcArg} (g : Good a) {o : Op} (ho : isMulDiv o = true) :
    ProdW (wrap (parenLeft a o) (pr a)) a := by
  cases h : parenLeft a o with
  | true => exact g.sum0.toParen.toProdW
  | false => simpa [wrap] using g.prodW (productLevel_of_parenLeft ho h)

theorem Good.sumHead {a : CalcArg} (g : Good a) (o : Op) :
    SumW (wrap (parenLeft a o) (pr a)) a := by
  cases h : parenLeft a o with
  | true => exact g.sum0.toParen.toProdW.toSumW
  | false => simpa [wrap] using g.sumW

theorem sumL_of {a : CalcArg} {o : Op} (ho : isPlusMinus o = true) (s0 : Sum0 a)
    (raw : parenRight o a = false → SumL o (pr a) a) : SumL o (wrap (parenRight o a) (pr a)) a := by
  cases h : parenRight o a with
  | true => exact s0.toParen.toProdW.toSumL ho
  | false => simpa [wrap] using raw h

theorem prodL_of {a : CalcArg} {o : Op} (ho : isMulDiv o = true) (s0 : Sum0 a)
    (raw : parenRight o a = false → ProdL o (pr a) a) : ProdL o (wrap (parenRight o a) (pr a)) a := by
  cases h : parenRight o a with
  | true => exact s0.toParen.toProdL ho
  | false => simpa [wrap] using raw h

/-- a tree that is not an operation and is read back by `pAtom` -/
theorem Good.ofAtom {a : CalcArg} (hop : isOperation a = false) (ap : AtomP (pr a) a) : Good a := by
  have pl : productLevel a = true := by cases a <;> simp_all [productLevel, isOperation]
  have sw := ap.toProdW.toSumW
  exact
    { sum0 := sw.toSum0, sumW := sw, prodW := fun _ => ap.toProdW, atomP := fun _ => ap,
      sumL := fun o ho => sumL_of ho sw.toSum0 (fun _ => ap.toProdW.toSumL ho),
      prodL := fun o ho => prodL_of ho sw.toSum0 (fun _ => ap.toProdL ho) }

theorem pr_operation (l r : CalcArg) (o : Op) :
    pr (.operation l o r) = wrap (parenLeft l o) (pr l) ++ (.op o :: wrap (parenRight o r) (pr r)) := by
  rw [pr]

theorem parenRight_mul_eq {l : CalcArg} {o2 : Op} (ho : isMulDiv o2 = true) :
    parenRight .mul l = parenLeft l o2 := by
  cases l <;> simp [parenRight, parenLeft]
  rename_i a o3 b
  cases o2 <;> simp [isMulDiv] at ho <;> cases o3 <;> simp [parenRhsOp, Op.prec]

theorem parenRight_plus_eq {l : CalcArg} {o2 : Op} (ho : isPlusMinus o2 = true) :
    parenRight .plus l = parenLeft l o2 := by
  cases l <;> simp [parenRight, parenLeft]
  rename_i a o3 b
  cases o2 <;> simp [isPlusMinus] at ho <;> cases o3 <;> simp [parenRhsOp, Op.prec]

/-- a product `l * r` / `l / r` -/
theorem Good.ofProduct {l r : CalcArg} {o2 : Op} (ho2 : isMulDiv o2 = true) (gl : Good l) (gr : Good r) :
    Good (.operation l o2 r) := by
  have pw : ProdW (pr (.operation l o2 r)) (.operation l o2 r) := by
    intro rest
    obtain ⟨l', hl, hpl⟩ := gl.prodHead ho2 (.op o2 :: (wrap (parenRight o2 r) (pr r) ++ rest))
    obtain ⟨acc', hacc, hpr⟩ := gr.prodL o2 ho2 l' rest
    refine ⟨acc', Eqv.trans hacc (Eqv.op o2 hl (Eqv.refl r)), fun res hres => ?_⟩
    rw [pr_operation]
    simp only [List.append_assoc, List.cons_append]
    exact hpl _ (hpr _ hres)
  have sw := pw.toSumW
  refine { sum0 := sw.toSum0, sumW := sw, prodW := fun _ => pw, atomP := fun h => by simp [isOperation] at h,
           sumL := fun o ho => sumL_of ho sw.toSum0 (fun _ => pw.toSumL ho),
           prodL := fun o ho => prodL_of ho sw.toSum0 (fun hraw => ?_) }
  -- raw product under `*`: `acc * l ⊙ r`
  have ho' : o = .mul := by
    cases o <;> simp [isMulDiv] at ho <;> simp [parenRight, parenRhsOp] at hraw ⊢
  subst ho'
  intro acc rest
  obtain ⟨acc1, h1, hp1⟩ := gl.prodL .mul rfl acc (.op o2 :: (wrap (parenRight o2 r) (pr r) ++ rest))
  obtain ⟨acc2, h2, hp2⟩ := gr.prodL o2 ho2 acc1 rest
  refine ⟨acc2, Eqv.mulAssoc ho2 h1 h2, fun res hres => ?_⟩
  rw [pr_operation, ← parenRight_mul_eq ho2]
  simp only [List.append_assoc, List.cons_append]
  exact hp1 _ (hp2 _ hres)

/-- a sum `l + r` / `l - r` -/
theorem Good.ofSum {l r : CalcArg} {o2 : Op} (ho2 : isPlusMinus o2 = true) (gl : Good l) (gr : Good r) :
    Good (.operation l o2 r) := by
  have sw : SumW (pr (.operation l o2 r)) (.operation l o2 r) := by
    intro rest hmd
    have hmd1 : notMulDiv (.op o2 :: (wrap (parenRight o2 r) (pr r) ++ rest)) = true := by
      cases o2 <;> simp [isPlusMinus] at ho2 <;> rfl
    obtain ⟨l', hl, hpl⟩ := gl.sumHead o2 _ hmd1
    obtain ⟨acc', hacc, hpr⟩ := gr.sumL o2 ho2 l' rest hmd
    refine ⟨acc', Eqv.trans hacc (Eqv.op o2 hl (Eqv.refl r)), fun res hres => ?_⟩
    rw [pr_operation]
    simp only [List.append_assoc, List.cons_append]
    exact hpl _ (hpr _ hres)
  have npl : productLevel (.operation l o2 r) = false := by
    cases o2 <;> simp [isPlusMinus] at ho2 <;> rfl
  refine { sum0 := sw.toSum0, sumW := sw, prodW := fun h => by simp [npl] at h,
           atomP := fun h => by simp [isOperation] at h,
           sumL := fun o ho => sumL_of ho sw.toSum0 (fun hraw => ?_),
           prodL := fun o ho => prodL_of ho sw.toSum0 (fun hraw => ?_) }
  · -- raw sum under `+`: `acc + l ± r`
    have ho' : o = .plus := by
      cases o <;> simp [isPlusMinus] at ho <;> cases o2 <;> simp [isPlusMinus] at ho2 <;>
        simp [parenRight, parenRhsOp] at hraw ⊢
    subst ho'
    intro acc rest hmd
    have hmd1 : notMulDiv (.op o2 :: (wrap (parenRight o2 r) (pr r) ++ rest)) = true := by
      cases o2 <;> simp [isPlusMinus] at ho2 <;> rfl
    obtain ⟨acc1, h1, hp1⟩ := gl.sumL .plus rfl acc _ hmd1
    obtain ⟨acc2, h2, hp2⟩ := gr.sumL o2 ho2 acc1 rest hmd
    refine ⟨acc2, Eqv.addAssoc ho2 h1 h2, fun res hres => ?_⟩
    rw [pr_operation, ← parenRight_plus_eq ho2]
    simp only [List.append_assoc, List.cons_append]
    exact hp1 _ (hp2 _ hres)
  · -- a sum is always parenthesised under `*` and `/`
    exfalso
    cases o <;> simp [isMulDiv] at ho <;> cases o2 <;> simp [isPlusMinus] at ho2 <;>
      simp [parenRight, parenRhsOp] at hraw

def GoodArgs (as : CalcArgs) : Prop :=
  as.nonEmpty = true → ∀ rest, ∃ as', EqvArgs as' as ∧ PArgs (prArgs as ++ .rp :: rest) (as', .rp :: rest)

theorem prArgs_one (a : CalcArg) : prArgs (.cons a .nil) = pr a := by rw [prArgs]
theorem prArgs_more (a b : CalcArg) (bs : CalcArgs) :
    prArgs (.cons a (.cons b bs)) = pr a ++ (.comma :: prArgs (.cons b bs)) := by rw [prArgs]

mutual
theorem good_arg : ∀ (a : CalcArg), a.wf = true → Good a
  | .number n u, _ =>
    Good.ofAtom rfl (fun rest => ⟨_, Eqv.refl _, by simpa [pr] using PAtom.num n u rest⟩)
  | .str id p, _ => by
    refine Good.ofAtom rfl (fun rest => ⟨.str id false, fun ρ => by simp [evalCalc], ?_⟩)
    cases p
    · simpa [pr] using PAtom.atom id rest
    · have h1 : PSum (.atom id :: .rp :: rest) (.str id false, .rp :: rest) :=
        PSum.intro (PProd.intro (PAtom.atom id _) (PProdLoop.stop _ _ rfl)) (PSumLoop.stop _ _ rfl)
      simpa [pr] using PAtom.paren h1
  | .interp id, _ =>
    Good.ofAtom rfl (fun rest => ⟨.str id false, fun ρ => by simp [evalCalc], by simpa [pr] using PAtom.atom id rest⟩)
  | .calculation nm as, h => by
    simp only [CalcArg.wf, Bool.and_eq_true] at h
    refine Good.ofAtom rfl (fun rest => ?_)
    obtain ⟨as', he, hp⟩ := good_args as h.2 h.1 rest
    refine ⟨.calculation nm as', Eqv.calc nm he, ?_⟩
    have : pr (.calculation nm as) ++ rest = .fn nm :: (prArgs as ++ .rp :: rest) := by
      rw [pr]; simp
    rw [this]
    exact PAtom.call hp
  | .operation l o r, h => by
    simp only [CalcArg.wf, Bool.and_eq_true] at h
    have gl := good_arg l h.1
    have gr := good_arg r h.2
    cases o
    · exact Good.ofSum rfl gl gr
    · exact Good.ofSum rfl gl gr
    · exact Good.ofProduct rfl gl gr
    · exact Good.ofProduct rfl gl gr
theorem good_args : ∀ (as : CalcArgs), as.wf = true → GoodArgs as
  | .nil, _ => by intro h; simp [CalcArgs.nonEmpty] at h
  | .cons a .nil, h => by
    intro _ rest
    simp only [CalcArgs.wf, Bool.and_eq_true] at h
    obtain ⟨a', he, hp⟩ := (good_arg a h.1).sum0 (.rp :: rest) rfl rfl
    refine ⟨.cons a' .nil, EqvArgs.cons he (fun _ => rfl), ?_⟩
    rw [prArgs_one]
    exact PArgs.one hp rfl
  | .cons a (.cons b bs), h => by
    intro _ rest
    simp only [CalcArgs.wf, Bool.and_eq_true] at h
    obtain ⟨as', hes, hps⟩ := good_args (.cons b bs) (by simp [CalcArgs.wf, h.2]) rfl rest
    obtain ⟨a', he, hp⟩ := (good_arg a h.1).sum0 (.comma :: (prArgs (.cons b bs) ++ .rp :: rest)) rfl rfl
    refine ⟨.cons a' as', EqvArgs.cons he hes, ?_⟩
    rw [prArgs_more]
    simp only [List.append_assoc, List.cons_append]
    exact PArgs.more hp hps
end

/-- reading back what was printed gives a tree of the same value (for some fuel, hence for all larger) -/
theorem print_parse_exists (a : CalcArg) (h : a.wf = true) :
    ∃ a' f, Eqv a' a ∧ ∀ g, f ≤ g → pSum g (pr a) = some (a', []) := by
  obtain ⟨a', he, f, hf⟩ := (good_arg a h).sum0 [] rfl rfl
  refine ⟨a', f, he, fun g hg => ?_⟩
  have := (mono_le hg).2.2.2.2.1 _ _ hf
  simpa using this

end Grass.Calc
