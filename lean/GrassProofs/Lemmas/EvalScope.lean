import Grass.Eval
/-
  Helper lemmas about the reference evaluator's environment operations (C03 growth):
  frames in the heap, `lookupVar`, `findFrame`, `assignTarget`, `setVarIn`, `newFrame`.
-/
namespace Grass.Eval

theorem alGet_alErase_ne {β : Type} (n m : String) (h : m ≠ n) :
    ∀ (l : List (String × β)), alGet (alErase l n) m = alGet l m
  | [] => rfl
  | (k, v) :: r => by
    unfold alErase
    by_cases hk : k = n
    · have h1 : ((k, v).1 != n) = false := by simp [hk]
      have h2 : (k == m) = false := by rw [hk]; simp; exact fun e => h e.symm
      simp only [List.filter_cons, h1, Bool.false_eq_true, if_false]
      have := alGet_alErase_ne n m h r
      unfold alErase at this
      rw [this]; simp [alGet, h2]
    · have h1 : ((k, v).1 != n) = true := by simp [hk]
      simp only [List.filter_cons, h1, if_true]
      have := alGet_alErase_ne n m h r
      unfold alErase at this
      simp only [alGet, this]

/-- The variable `n` as seen in frame `f` of heap `h`. -/
def getV (h : Array Frame) (f : Nat) (n : String) : Option Value :=
  (h[f]?).bind (fun fr => alGet fr.vars n)

/-- The heap after `setVarIn fid n v`. -/
def setV (h : Array Frame) (fid : Nat) (n : String) (v : Value) : Array Frame :=
  h.modify fid fun fr => { fr with vars := (n, v) :: alErase fr.vars n }

theorem setVarIn_eq (fid : Nat) (n : String) (v : Value) (st : St) :
    setVarIn fid n v st = .ok () { st with heap := setV st.heap fid n v } := rfl

theorem newFrame_eq (st : St) : newFrame st = .ok st.heap.size { st with heap := st.heap.push {} } := rfl

theorem setV_size (h : Array Frame) (fid : Nat) (n : String) (v : Value) : (setV h fid n v).size = h.size := by
  simp [setV]

theorem getV_setV (h : Array Frame) (fid g : Nat) (n m : String) (v : Value) (hf : fid < h.size) :
    getV (setV h fid n v) g m = if g = fid ∧ m = n then some v else getV h g m := by
  unfold getV setV
  rw [Array.getElem?_modify]
  by_cases hg : fid = g
  · subst hg
    have : h[fid]? = some h[fid] := Array.getElem?_eq_getElem hf
    simp only [if_true, this, Option.map_some, Option.bind_some, true_and]
    by_cases hm : m = n
    · subst hm; simp [alGet]
    · have h2 : (n == m) = false := by simp; exact fun e => hm e.symm
      simp only [alGet, h2, Bool.false_eq_true, if_false, hm]
      exact alGet_alErase_ne n m hm _
  · have hg' : ¬ g = fid := fun e => hg e.symm
    simp [hg, hg']

theorem getV_push (h : Array Frame) (g : Nat) (m : String) :
    getV (h.push {}) g m = if g = h.size then none else getV h g m := by
  unfold getV
  rw [Array.getElem?_push]
  by_cases hg : g = h.size
  · simp [hg, alGet]
  · simp [hg]

theorem lookupVar_cons (h : Array Frame) (f : Nat) (fs : List Nat) (n : String) :
    lookupVar h (f :: fs) n = match getV h f n with
      | some v => some v
      | none => lookupVar h fs n := rfl

theorem findFrame_cons (h : Array Frame) (f : Nat) (fs : List Nat) (n : String) :
    findFrame h (f :: fs) n = match getV h f n with
      | some _ => some f
      | none => findFrame h fs n := rfl

theorem lookupVar_congr (h h' : Array Frame) (n : String) :
    ∀ (env : List Nat), (∀ f ∈ env, getV h' f n = getV h f n) → lookupVar h' env n = lookupVar h env n
  | [], _ => rfl
  | f :: fs, hyp => by
    rw [lookupVar_cons, lookupVar_cons, hyp f (by simp),
      lookupVar_congr h h' n fs (fun g hg => hyp g (by simp [hg]))]

theorem findFrame_congr (h h' : Array Frame) (n : String) :
    ∀ (env : List Nat), (∀ f ∈ env, getV h' f n = getV h f n) → findFrame h' env n = findFrame h env n
  | [], _ => rfl
  | f :: fs, hyp => by
    rw [findFrame_cons, findFrame_cons, hyp f (by simp),
      findFrame_congr h h' n fs (fun g hg => hyp g (by simp [hg]))]

theorem findFrame_none_lookup : ∀ (h : Array Frame) (env : List Nat) (n : String),
    findFrame h env n = none → lookupVar h env n = none
  | _, [], _, _ => rfl
  | h, f :: fs, n, e => by
    rw [findFrame_cons] at e
    rw [lookupVar_cons]
    cases hv : getV h f n with
    | some v => simp [hv] at e
    | none => simp only [hv] at e ⊢; exact findFrame_none_lookup h fs n e

theorem findFrame_some : ∀ (h : Array Frame) (env : List Nat) (n : String) (f : Nat),
    findFrame h env n = some f → f ∈ env ∧ (getV h f n).isSome = true
  | _, [], _, _, e => by simp [findFrame] at e
  | h, g :: gs, n, f, e => by
    rw [findFrame_cons] at e
    cases hv : getV h g n with
    | some v => simp only [hv, Option.some.injEq] at e; subst e; simp [hv]
    | none =>
      simp only [hv] at e
      obtain ⟨h1, h2⟩ := findFrame_some h gs n f e
      exact ⟨by simp [h1], h2⟩

/-- A lookup after pushing a fresh empty frame that the chain does not mention. -/
theorem lookupVar_push (h : Array Frame) (env : List Nat) (n : String) (hv : ∀ f ∈ env, f < h.size) :
    lookupVar (h.push {}) env n = lookupVar h env n := by
  apply lookupVar_congr
  intro f hf
  rw [getV_push]
  have := hv f hf
  have : f ≠ h.size := by omega
  simp [this]

theorem findFrame_push (h : Array Frame) (env : List Nat) (n : String) (hv : ∀ f ∈ env, f < h.size) :
    findFrame (h.push {}) env n = findFrame h env n := by
  apply findFrame_congr
  intro f hf
  rw [getV_push]
  have := hv f hf
  have : f ≠ h.size := by omega
  simp [this]

/-- Writing into a frame the chain does not mention changes no lookup through the chain. -/
theorem lookupVar_setV_notin (h : Array Frame) (fid : Nat) (n m : String) (v : Value) (env : List Nat)
    (hf : fid < h.size) (hn : fid ∉ env) : lookupVar (setV h fid n v) env m = lookupVar h env m := by
  apply lookupVar_congr
  intro f hfm
  rw [getV_setV h fid f n m v hf]
  have : f ≠ fid := fun e => hn (e ▸ hfm)
  simp [this]

theorem lookupVar_setV_other (h : Array Frame) (fid : Nat) (n m : String) (v : Value) (env : List Nat)
    (hf : fid < h.size) (hm : m ≠ n) : lookupVar (setV h fid n v) env m = lookupVar h env m := by
  apply lookupVar_congr
  intro f _
  rw [getV_setV h fid f n m v hf]
  simp [hm]

theorem lookupVar_setV_top (h : Array Frame) (fid : Nat) (n : String) (v : Value) (env : List Nat)
    (hf : fid < h.size) : lookupVar (setV h fid n v) (fid :: env) n = some v := by
  rw [lookupVar_cons, getV_setV h fid fid n n v hf]; simp

/-- Writing into the innermost frame that declares the name: the chain now sees the new value. -/
theorem lookupVar_setV_found (h : Array Frame) (n : String) (v : Value) :
    ∀ (env : List Nat) (f : Nat), findFrame h env n = some f → f < h.size →
      lookupVar (setV h f n v) env n = some v
  | [], _, e, _ => by simp [findFrame] at e
  | g :: gs, f, e, hf => by
    rw [findFrame_cons] at e
    rw [lookupVar_cons, getV_setV h f g n n v hf]
    cases hv : getV h g n with
    | some x =>
      simp only [hv, Option.some.injEq] at e; subst e; simp
    | none =>
      simp only [hv] at e
      have hfs := (findFrame_some h gs n f e).2
      have hne : g ≠ f := by
        intro e'; subst e'; rw [hv] at hfs; simp at hfs
      simp only [hne, false_and, if_false]
      exact lookupVar_setV_found h n v gs f e hf

end Grass.Eval
