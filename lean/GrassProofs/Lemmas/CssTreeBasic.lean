import Grass.CssTree
/-
  Helper lemmas for C04 (nested property names, invisibility).  Property theorems live in GrassProofs/C04.lean.
-/
namespace Grass.CssTree

theorem joinDash_snoc (path : List String) (n : String) (h : path ≠ []) :
    joinDash (path ++ [n]) = joinDash path ++ "-" ++ n := by
  induction path with
  | nil => exact absurd rfl h
  | cons a rest ih =>
    cases rest with
    | nil => simp [joinDash]
    | cons b rest' =>
      have := ih (by simp)
      simp only [List.cons_append, joinDash] at *
      rw [this]
      simp [String.append_assoc]

mutual
  theorem visitDecl_eq (path : List String) (hp : path ≠ []) (d : Decl) :
      visitDecl (some (joinDash path)) d = declSpec path d := by
    cases d with
    | mk n v body =>
      simp only [visitDecl, declSpec]
      rw [joinDash_snoc path n hp]
      have := visitDecls_eq (path ++ [n]) (by simp) body
      rw [joinDash_snoc path n hp] at this
      rw [this]
  theorem visitDecls_eq (path : List String) (hp : path ≠ []) (ds : Decls) :
      visitDecls (some (joinDash path)) ds = declsSpec path ds := by
    cases ds with
    | nil => simp [visitDecls, declsSpec]
    | cons d ds =>
      simp only [visitDecls, declsSpec]
      rw [visitDecl_eq path hp d, visitDecls_eq path hp ds]
end

theorem visitDecl_none (d : Decl) : visitDecl none d = declSpec [] d := by
  cases d with
  | mk n v body =>
    simp only [visitDecl, declSpec, List.nil_append]
    have := visitDecls_eq [n] (by simp) body
    simp only [joinDash] at this
    rw [this]
    simp [joinDash]


theorem filter_nonEmpty_cons_empty (ctx : List Kind) (sel : Option SelList) (l : List Block) :
    ({ ctx := ctx, sel := sel, decls := [] } :: l : List Block).filter Block.nonEmpty = l.filter Block.nonEmpty := by
  simp [List.filter, Block.nonEmpty]

mutual
  theorem invisible_blocks (ctx : List Kind) (c : Css) (h : isInvisible c = true) :
      (blocksOf ctx c).filter Block.nonEmpty = [] := by
    cases c with
    | mk k body =>
      cases k with
      | decl n v => simp [blocksOf]
      | rule sel =>
        simp only [isInvisible] at h
        have := allInvisible_blocks (ctx ++ [.rule sel]) body h
        simp only [blocksOf, this.2, filter_nonEmpty_cons_empty, this.1]
      | media qs =>
        simp only [isInvisible] at h
        have := allInvisible_blocks (ctx ++ [.media qs]) body h
        simp only [blocksOf, this.2, filter_nonEmpty_cons_empty, this.1]
      | supports s =>
        simp only [isInvisible] at h
        have := allInvisible_blocks (ctx ++ [.supports s]) body h
        simp only [blocksOf, this.2, filter_nonEmpty_cons_empty, this.1]
      | unknown n p => simp [isInvisible] at h
  theorem allInvisible_blocks (ctx : List Kind) (cs : CssList) (h : allInvisible cs = true) :
      (blocksOfList ctx cs).filter Block.nonEmpty = [] ∧ declsIn cs = [] := by
    cases cs with
    | nil => simp [blocksOfList, declsIn]
    | cons c cs =>
      simp only [allInvisible, Bool.and_eq_true] at h
      have h1 := invisible_blocks ctx c h.1
      have h2 := allInvisible_blocks ctx cs h.2
      refine ⟨by simp [blocksOfList, List.filter_append, h1, h2.1], ?_⟩
      cases c with
      | mk k body =>
        cases k <;> simp_all [declsIn, isInvisible]
end

mutual
  theorem emit_invisible (c : Css) : isInvisible (emit c) = isInvisible c := by
    cases c with
    | mk k body =>
      cases k <;> simp only [emit, isInvisible, emitList_allInvisible body]
  theorem emitList_allInvisible (cs : CssList) : allInvisible (emitList cs) = allInvisible cs := by
    cases cs with
    | nil => simp [emitList]
    | cons c cs =>
      simp only [emitList]
      by_cases h : isInvisible c = true
      · simp [h, allInvisible, emitList_allInvisible cs]
      · simp [h, allInvisible, emitList_allInvisible cs, emit_invisible c]
end

theorem declsIn_cons_invisible (c : Css) (cs : CssList) (h : isInvisible c = true) :
    declsIn (.cons c cs) = declsIn cs := by
  cases c with
  | mk k body => cases k <;> simp_all [declsIn, isInvisible]

mutual
  theorem emit_blocks (ctx : List Kind) (c : Css) :
      (blocksOf ctx (emit c)).filter Block.nonEmpty = (blocksOf ctx c).filter Block.nonEmpty := by
    cases c with
    | mk k body =>
      cases k with
      | decl n v => simp [emit, blocksOf]
      | rule sel =>
        have := emitList_blocks (ctx ++ [.rule sel]) body
        simp only [emit, blocksOf, List.filter_cons, this.1, this.2]
      | media qs =>
        have := emitList_blocks (ctx ++ [.media qs]) body
        simp only [emit, blocksOf, List.filter_cons, this.1, this.2]
      | supports s =>
        have := emitList_blocks (ctx ++ [.supports s]) body
        simp only [emit, blocksOf, List.filter_cons, this.1, this.2]
      | unknown n p =>
        have := emitList_blocks (ctx ++ [.unknown n p]) body
        simp only [emit, blocksOf, List.filter_cons, this.1, this.2]
  theorem emitList_blocks (ctx : List Kind) (cs : CssList) :
      (blocksOfList ctx (emitList cs)).filter Block.nonEmpty = (blocksOfList ctx cs).filter Block.nonEmpty
      ∧ declsIn (emitList cs) = declsIn cs := by
    cases cs with
    | nil => simp [emitList]
    | cons c cs =>
      have ih := emitList_blocks ctx cs
      simp only [emitList]
      by_cases h : isInvisible c = true
      · simp only [h, if_true, blocksOfList, List.filter_append, invisible_blocks ctx c h, List.nil_append,
          declsIn_cons_invisible c cs h]
        exact ih
      · simp only [h, Bool.false_eq_true, if_false, blocksOfList, List.filter_append, emit_blocks ctx c, ih.1, true_and]
        cases c with
        | mk k body => cases k <;> simp [declsIn, emit, ih.2]
end

theorem emitTop_blocks (cs : List Css) :
    (blocksTopRules (emitTop cs)).filter Block.nonEmpty = (blocksTopRules cs).filter Block.nonEmpty
    ∧ topDecls (emitTop cs) = topDecls cs := by
  induction cs with
  | nil => simp [emitTop]
  | cons c cs ih =>
    simp only [emitTop]
    by_cases h : isInvisible c = true
    · simp only [h, if_true, blocksTopRules, List.filter_append, invisible_blocks [] c h, List.nil_append]
      refine ⟨ih.1, ?_⟩
      rw [ih.2]
      cases c with
      | mk k body => cases k <;> simp_all [topDecls, isInvisible]
    · simp only [h, Bool.false_eq_true, if_false, blocksTopRules, List.filter_append, emit_blocks [] c, ih.1, true_and]
      cases c with
      | mk k body => cases k <;> simp [topDecls, emit, ih.2]

theorem emitTop_visible (cs : List Css) : ∀ c ∈ emitTop cs, isInvisible c = false := by
  induction cs with
  | nil => simp [emitTop]
  | cons c cs ih =>
    simp only [emitTop]
    by_cases h : isInvisible c = true
    · simpa [h] using ih
    · simp only [h, Bool.false_eq_true, if_false, List.mem_cons]
      intro x hx
      rcases hx with rfl | hx
      · rw [emit_invisible]; simpa using h
      · exact ih x hx

theorem blocksTop_emitTop (cs : List Css) : blocksTop (emitTop cs) = blocksTop cs := by
  have := emitTop_blocks cs
  simp only [blocksTop, List.filter_cons, this.1, this.2]

end Grass.CssTree
