import Grass.Module
/-
  Helper lemmas about the loader (Grass/Module.lean: `step`, `evalStmts`, `load`, `run`) used by
  GrassProofs/C12.lean: the active set is restored, the cache/active invariant, CSS marker counts,
  fuel.
-/
namespace Grass.Module

def pathsOf (ms : List Mod) : List Ident := ms.map (·.path)

theorem setVar_paths : ∀ (ms : List Mod) (id : Nat) (n : Ident) (v : Val), pathsOf (setVar ms id n v) = pathsOf ms := by
  intro ms
  induction ms with
  | nil => intros; rfl
  | cons m rest ih =>
    intro id n v
    unfold setVar
    split
    · simp [pathsOf]
    · simp only [pathsOf, List.map_cons] at ih ⊢
      rw [ih]

theorem setVar_length : ∀ (ms : List Mod) (id : Nat) (n : Ident) (v : Val), (setVar ms id n v).length = ms.length := by
  intro ms
  induction ms with
  | nil => intros; rfl
  | cons m rest ih =>
    intro id n v
    unfold setVar
    split <;> simp [ih]

/-- What one statement does to the shared state: either nothing but a trace event / a variable
    update (`loc`), or exactly what one call of the loader does (`loaded`). -/
inductive StepShape (loadF : LoadF) (s : Stmt) (env : Env) (st : St) (o : Out (Env × Cfg)) : Prop where
  | loc (h1 : o.st.active = st.active) (h2 : o.st.entered = st.entered)
      (h3 : pathsOf o.st.mods = pathsOf st.mods)
      (h4 : cssOf o.st.trace = cssOf st.trace ++ (if s = Stmt.css then [env.path] else []))
  | loaded (url : Url) (c : Cfg) (h : o.st = (loadF url c st).st)
      (hok : ∀ r, o.res = .ok r → ∃ r', (loadF url c st).res = .ok r') (hs : s ≠ Stmt.css)

theorem cssOf_append (a b : List Event) : cssOf (a ++ b) = cssOf a ++ cssOf b := by
  simp [cssOf, List.filterMap_append]

theorem insertRoot_shape (sw : Switches) (env : Env) (st : St) (n : Ident) (v : Val) :
    (insertRoot sw env st n v).2.active = st.active ∧ (insertRoot sw env st n v).2.entered = st.entered ∧
    pathsOf (insertRoot sw env st n v).2.mods = pathsOf st.mods ∧ (insertRoot sw env st n v).2.trace = st.trace ∧
    (insertRoot sw env st n v).1.path = env.path := by
  unfold insertRoot
  split
  · simp
  · split
    · simp [St.withMods, setVar_paths]
    · simp

theorem addModule_path (sw : Switches) (env : Env) (ns : UseNs) (d : Ident) (id : Nat) (ms : List Mod) (env' : Env)
    (h : addModule sw env ns d id ms = .ok env') : env'.path = env.path := by
  unfold addModule at h
  repeat' split at h
  all_goals (first | cases h | skip)
  all_goals rfl

theorem step_shape (sw : Switches) (loadF : LoadF) (s : Stmt) (env : Env) (cfg : Cfg) (st : St) :
    StepShape loadF s env st (step sw loadF s env cfg st) ∧
    (∀ e c, (step sw loadF s env cfg st).res = .ok (e, c) → e.path = env.path) := by
  cases s with
  | var n v g =>
    have hi := insertRoot_shape sw env st n
    simp only [step]
    split
    · split
      · rename_i cv cfg' _
        have := hi cv
        refine ⟨.loc this.1 this.2.1 this.2.2.1 (by simp [this.2.2.2.1]), ?_⟩
        intro e c h; cases h; exact this.2.2.2.2
      · split
        · exact ⟨.loc rfl rfl rfl (by simp), by intro e c h; cases h; rfl⟩
        · have := hi v
          refine ⟨.loc this.1 this.2.1 this.2.2.1 (by simp [this.2.2.2.1]), ?_⟩
          intro e c h; cases h; exact this.2.2.2.2
    · have := hi v
      refine ⟨.loc this.1 this.2.1 this.2.2.1 (by simp [this.2.2.2.1]), ?_⟩
      intro e c h; cases h; exact this.2.2.2.2
  | fn n b => exact ⟨.loc rfl rfl rfl (by simp [step]), by intro e c h; simp [step] at h; rw [← h.1]⟩
  | mixin n => exact ⟨.loc rfl rfl rfl (by simp [step]), by intro e c h; simp [step] at h; rw [← h.1]⟩
  | css => exact ⟨.loc rfl rfl rfl (by simp [step, St.emit, cssOf]), by intro e c h; simp [step] at h; rw [← h.1]⟩
  | dbg => exact ⟨.loc rfl rfl rfl (by simp [step, St.emit, cssOf]), by intro e c h; simp [step] at h; rw [← h.1]⟩
  | nested pid ctx n v => exact ⟨.loc rfl rfl rfl (by simp [step, St.emit, cssOf]), by intro e c h; simp [step] at h; rw [← h.1]⟩
  | use url ns withs =>
    simp only [step]
    generalize hc0 : (if withs.isEmpty = true then Cfg.empty else ({ base := withs, layers := [], explicit := true } : Cfg)) = c0
    cases hr : (loadF url c0 st).res with
    | error e => exact ⟨.loaded url c0 rfl (by intro r h; cases h) (by simp), by intro e c h; cases h⟩
    | ok r =>
      obtain ⟨id, c1⟩ := r
      simp only
      cases ha : addModule sw env ns url.base id (loadF url c0 st).st.mods with
      | error e => exact ⟨.loaded url c0 rfl (by intro r h; cases h) (by simp), by intro e c h; cases h⟩
      | ok env' =>
        have hp : env'.path = env.path := addModule_path sw env ns url.base id _ env' ha
        simp only
        split
        · exact ⟨.loaded url c0 rfl (by intro r h; cases h) (by simp), by intro e c h; cases h⟩
        · exact ⟨.loaded url c0 rfl (fun _ _ => ⟨_, hr⟩) (by simp), by intro e c h; cases h; exact hp⟩
  | forward url rule withs =>
    simp only [step]
    cases htf : throughForward sw cfg rule with
    | mk adj shared =>
      simp only
      split
      · cases hr : (loadF url adj st).res with
        | error e => exact ⟨.loaded url adj rfl (by intro r h; cases h) (by simp), by intro e c h; cases h⟩
        | ok r =>
          obtain ⟨id, adj'⟩ := r
          exact ⟨.loaded url adj rfl (fun _ _ => ⟨_, hr⟩) (by simp), by intro e c h; cases h; rfl⟩
      · split
        · exact ⟨.loc rfl rfl rfl (by simp), by intro e c h; cases h⟩
        · cases haf : addForwardCfg adj withs with
          | mk adj1 newCfg =>
            simp only
            cases hr : (loadF url newCfg st).res with
            | error e => exact ⟨.loaded url newCfg rfl (by intro r h; cases h) (by simp), by intro e c h; cases h⟩
            | ok r =>
              obtain ⟨id, new1⟩ := r
              simp only
              split
              · exact ⟨.loaded url newCfg rfl (by intro r h; cases h) (by simp), by intro e c h; cases h⟩
              · exact ⟨.loaded url newCfg rfl (fun _ _ => ⟨_, hr⟩) (by simp), by intro e c h; cases h; rfl⟩
  | assign ns n v g =>
    simp only [step]
    split
    · exact ⟨.loc rfl rfl rfl (by simp), by intro e c h; cases h⟩
    · split
      · split
        · exact ⟨.loc rfl rfl rfl (by simp), by intro e c h; cases h; rfl⟩
        · exact ⟨.loc rfl rfl (by simp [St.withMods, setVar_paths]) (by simp [St.withMods]), by intro e c h; cases h; rfl⟩
      · exact ⟨.loc rfl rfl rfl (by simp), by intro e c h; cases h⟩
  | probe pid g k ns n =>
    simp only [step]
    split
    · exact ⟨.loc rfl rfl rfl (by simp), by intro e c h; cases h⟩
    · exact ⟨.loc rfl rfl rfl (by simp [St.emit, cssOf]), by intro e c h; cases h; rfl⟩
    · split
      · exact ⟨.loc rfl rfl rfl (by simp [St.emit, cssOf]), by intro e c h; cases h; rfl⟩
      · split
        · exact ⟨.loc rfl rfl rfl (by simp [St.emit, cssOf]), by intro e c h; cases h; rfl⟩
        · exact ⟨.loc rfl rfl rfl (by simp), by intro e c h; cases h⟩
  | pkeys pid k ns =>
    simp only [step]
    split
    · exact ⟨.loc rfl rfl rfl (by simp), by intro e c h; cases h⟩
    · exact ⟨.loc rfl rfl rfl (by simp [St.emit, cssOf]), by intro e c h; cases h; rfl⟩
  | fail e => exact ⟨.loc rfl rfl rfl (by simp [step]), by intro e' c h; simp [step] at h⟩
  | loadCssSpec url withs =>
    simp only [step]
    generalize hc0 : (if withs.isEmpty = true then Cfg.empty else ({ base := withs, layers := [], explicit := true } : Cfg)) = c0
    cases hr : (loadF url c0 st).res with
    | error e => exact ⟨.loaded url c0 rfl (by intro r h; cases h) (by simp), by intro e c h; cases h⟩
    | ok r =>
      obtain ⟨id, c1⟩ := r
      simp only
      split
      · exact ⟨.loaded url c0 rfl (by intro r h; cases h) (by simp), by intro e c h; cases h⟩
      · exact ⟨.loaded url c0 rfl (fun _ _ => ⟨_, hr⟩) (by simp), by intro e c h; cases h; rfl⟩


/-! ### L1: a successful load leaves the active set as it found it -/

def Restores (loadF : LoadF) : Prop :=
  ∀ url cfg st r, (loadF url cfg st).res = .ok r → (loadF url cfg st).st.active = st.active

theorem step_restores (sw : Switches) (loadF : LoadF) (hR : Restores loadF) (s : Stmt) (env : Env) (cfg : Cfg) (st : St)
    (r : Env × Cfg) (h : (step sw loadF s env cfg st).res = .ok r) :
    (step sw loadF s env cfg st).st.active = st.active := by
  rcases (step_shape sw loadF s env cfg st).1 with ⟨h1, _, _, _⟩ | ⟨url, c, hst, hok, _⟩
  · exact h1
  · obtain ⟨r', hr'⟩ := hok r h
    rw [hst]; exact hR url c st r' hr'

theorem evalStmts_restores (sw : Switches) (loadF : LoadF) (hR : Restores loadF) :
    ∀ (ss : List Stmt) (env : Env) (cfg : Cfg) (st : St) (r : Env × Cfg),
      (evalStmts sw loadF ss env cfg st).res = .ok r →
      (evalStmts sw loadF ss env cfg st).st.active = st.active ∧ r.1.path = env.path := by
  intro ss
  induction ss with
  | nil => intro env cfg st r h; unfold evalStmts at h ⊢; cases h; exact ⟨rfl, rfl⟩
  | cons s rest ih =>
    intro env cfg st r h
    simp only [evalStmts] at h ⊢
    cases hs : (step sw loadF s env cfg st).res with
    | error e => simp only [hs] at h; cases h
    | ok r1 =>
      obtain ⟨env1, cfg1⟩ := r1
      simp only [hs] at h ⊢
      have h1 := step_restores sw loadF hR s env cfg st _ hs
      have hp := (step_shape sw loadF s env cfg st).2 env1 cfg1 hs
      have := ih env1 cfg1 _ r h
      exact ⟨this.1.trans h1, this.2.trans hp⟩

theorem load_restores (sw : Switches) (proj : Project) : ∀ fuel, Restores (load sw proj fuel) := by
  intro fuel
  induction fuel with
  | zero => intro url cfg st r h; simp [load] at h
  | succ fuel ih =>
    intro url cfg st r h
    revert h
    simp only [load]
    split
    · intro h; cases h
    · rename_i src _
      split
      · intro h; cases h
      · split
        · intro h; cases h
        · split
          · intro _; rfl
          · rename_i hnl
            generalize ho : evalStmts sw (load sw proj fuel) src.body (Env.new src.name) cfg
              { mods := st.mods, active := src.name :: st.active, entered := st.entered ++ [src.name], trace := st.trace } = o
            cases hres : o.res with
            | error e => intro h; cases h
            | ok r1 =>
              intro _
              have := evalStmts_restores sw (load sw proj fuel) ih src.body (Env.new src.name) cfg _ r1 (by rw [ho]; exact hres)
              rw [ho] at this
              simp [this.1]

/-! ### L2: the cache / active-set invariant -/

structure St.Inv (st : St) : Prop where
  nodup : st.entered.Nodup
  cover : ∀ p ∈ st.entered, p ∈ st.active ∨ p ∈ pathsOf st.mods
  cssEntered : ∀ p, p ∉ st.entered → cssCount p st.trace = 0
  activeEntered : ∀ p ∈ st.active, p ∈ st.entered

def PreservesInv (loadF : LoadF) : Prop := ∀ url cfg st, st.Inv → (loadF url cfg st).st.Inv

theorem findLoaded_none (ms : List Mod) (p : Ident) (h : findLoaded ms p = none) : p ∉ pathsOf ms := by
  induction ms with
  | nil => simp [pathsOf]
  | cons m rest ih =>
    unfold findLoaded at h
    split at h
    · cases h
    · rename_i hne
      simp only [pathsOf, List.map_cons, List.mem_cons, not_or]
      exact ⟨fun he => hne (by simp [he]), ih h⟩

theorem cssCount_append (p : Ident) (a b : List Event) : cssCount p (a ++ b) = cssCount p a + cssCount p b := by
  simp [cssCount, cssOf_append, List.count_append]

theorem step_inv (sw : Switches) (loadF : LoadF) (hP : PreservesInv loadF) (s : Stmt) (env : Env) (cfg : Cfg) (st : St)
    (hi : st.Inv) (hin : env.path ∈ st.active) : (step sw loadF s env cfg st).st.Inv := by
  rcases (step_shape sw loadF s env cfg st).1 with ⟨h1, h2, h3, h4⟩ | ⟨url, c, hst, _, _⟩
  · refine ⟨by rw [h2]; exact hi.nodup, ?_, ?_, ?_⟩
    · intro p hp; rw [h1, h3]; exact hi.cover p (by rwa [h2] at hp)
    · intro p hp
      rw [h2] at hp
      have h0 := hi.cssEntered p hp
      have hne : p ≠ env.path := fun he => hp (he ▸ hi.activeEntered _ hin)
      simp only [cssCount] at h0 ⊢
      rw [h4, List.count_append, h0]
      split <;> simp [Ne.symm hne]
    · intro p hp; rw [h2]; exact hi.activeEntered p (by rwa [h1] at hp)
  · rw [hst]; exact hP url c st hi

theorem evalStmts_inv (sw : Switches) (loadF : LoadF) (hR : Restores loadF) (hP : PreservesInv loadF) :
    ∀ (ss : List Stmt) (env : Env) (cfg : Cfg) (st : St), st.Inv → env.path ∈ st.active →
      (evalStmts sw loadF ss env cfg st).st.Inv := by
  intro ss
  induction ss with
  | nil => intro env cfg st hi _; simpa [evalStmts] using hi
  | cons s rest ih =>
    intro env cfg st hi hin
    simp only [evalStmts]
    have hi1 := step_inv sw loadF hP s env cfg st hi hin
    cases hs : (step sw loadF s env cfg st).res with
    | error e => simpa using hi1
    | ok r1 =>
      obtain ⟨env1, cfg1⟩ := r1
      simp only
      have h1 := step_restores sw loadF hR s env cfg st _ hs
      have hp := (step_shape sw loadF s env cfg st).2 env1 cfg1 hs
      exact ih env1 cfg1 _ hi1 (by rw [hp, h1]; exact hin)

theorem load_inv (sw : Switches) (proj : Project) : ∀ fuel, PreservesInv (load sw proj fuel) := by
  intro fuel
  induction fuel with
  | zero => intro url cfg st hi; simpa [load] using hi
  | succ fuel ih =>
    intro url cfg st hi
    simp only [load]
    split
    · exact hi
    · rename_i src _
      split
      · exact hi
      · split
        · exact hi
        · rename_i hna
          split
          · exact hi
          · rename_i hnl
            have hna' : src.name ∉ st.active := by simpa using hna
            have hnp : src.name ∉ pathsOf st.mods := findLoaded_none _ _ hnl
            have hne : src.name ∉ st.entered := fun he => by
              rcases hi.cover _ he with h | h
              · exact hna' h
              · exact hnp h
            have hi1 : St.Inv { mods := st.mods, active := src.name :: st.active, entered := st.entered ++ [src.name], trace := st.trace } := by
              refine ⟨?_, ?_, ?_, ?_⟩
              · simp only [List.nodup_append, List.nodup_cons, List.not_mem_nil, not_false_eq_true, List.nodup_nil, and_self,
                  List.mem_singleton, true_and]
                exact ⟨hi.nodup, fun a ha b hb => by subst hb; exact fun hab => hne (hab ▸ ha)⟩
              · intro p hp
                simp only [List.mem_append, List.mem_singleton] at hp
                rcases hp with hp | hp
                · rcases hi.cover p hp with h | h
                  · exact Or.inl (by simp [h])
                  · exact Or.inr h
                · exact Or.inl (by simp [hp])
              · intro p hp
                simp only [List.mem_append, List.mem_singleton, not_or] at hp
                exact hi.cssEntered p hp.1
              · intro p hp
                simp only [List.mem_cons] at hp
                simp only [List.mem_append, List.mem_singleton]
                rcases hp with hp | hp
                · exact Or.inr hp
                · exact Or.inl (hi.activeEntered p hp)
            generalize ho : evalStmts sw (load sw proj fuel) src.body (Env.new src.name) cfg
              { mods := st.mods, active := src.name :: st.active, entered := st.entered ++ [src.name], trace := st.trace } = o
            have hio : o.st.Inv := by
              rw [← ho]
              exact evalStmts_inv sw _ (load_restores sw proj fuel) ih src.body _ cfg _ hi1 (by simp [Env.new])
            cases hres : o.res with
            | error e => exact hio
            | ok r1 =>
              obtain ⟨env1, cfg1⟩ := r1
              have hr := evalStmts_restores sw (load sw proj fuel) (load_restores sw proj fuel) src.body (Env.new src.name) cfg _ (env1, cfg1) (by rw [ho]; exact hres)
              rw [ho] at hr
              have hact : o.st.active = src.name :: st.active := hr.1
              have hpath : env1.path = src.name := hr.2
              refine ⟨hio.nodup, ?_, hio.cssEntered, ?_⟩
              · intro p hp
                rcases hio.cover p hp with h | h
                · rw [hact] at h
                  simp only [List.mem_cons] at h
                  rcases h with h | h
                  · exact Or.inr (by simp [pathsOf, Env.toMod, hpath, h])
                  · exact Or.inl (by simp [hact, h])
                · exact Or.inr (by simp only [pathsOf, List.map_cons, List.mem_cons]; exact Or.inr h)
              · intro p hp
                exact hio.activeEntered p (List.mem_of_mem_erase hp)


/-! ### L3: CSS markers -/

def CssInv (st : St) : Prop := ∀ q, cssCount q st.trace ≤ 1

def CssOK (loadF : LoadF) : Prop := ∀ url cfg st, st.Inv → CssInv st →
  CssInv (loadF url cfg st).st ∧ ∀ q ∈ st.active, cssCount q (loadF url cfg st).st.trace = cssCount q st.trace

theorem nCss_cons (s : Stmt) (rest : List Stmt) : nCss (s :: rest) = (if s = Stmt.css then 1 else 0) + nCss rest := by
  unfold nCss
  by_cases h : s = Stmt.css
  · subst h; simp; omega
  · have : (s == Stmt.css) = false := by simpa using h
    simp [this, h]

theorem step_css (sw : Switches) (loadF : LoadF) (hC : CssOK loadF) (s : Stmt) (rest : List Stmt) (env : Env) (cfg : Cfg)
    (st : St) (hi : st.Inv) (hc : CssInv st) (hin : env.path ∈ st.active)
    (hb : cssCount env.path st.trace + nCss (s :: rest) ≤ 1) :
    CssInv (step sw loadF s env cfg st).st ∧
    (∀ q ∈ st.active, q ≠ env.path → cssCount q (step sw loadF s env cfg st).st.trace = cssCount q st.trace) ∧
    cssCount env.path (step sw loadF s env cfg st).st.trace + nCss rest ≤ 1 := by
  rw [nCss_cons] at hb
  rcases (step_shape sw loadF s env cfg st).1 with ⟨_, _, _, h4⟩ | ⟨url, c, hst, _, hs⟩
  · have hq : ∀ q, cssCount q (step sw loadF s env cfg st).st.trace
        = cssCount q st.trace + (if s = Stmt.css ∧ q = env.path then 1 else 0) := by
      intro q
      simp only [cssCount]
      rw [h4, List.count_append]
      by_cases h1 : s = Stmt.css
      · by_cases h2 : q = env.path
        · subst h2; simp [h1]
        · have : (env.path == q) = false := by simpa using Ne.symm h2
          simp [h1, h2, List.count_cons, this]
      · simp [h1]
    refine ⟨?_, ?_, ?_⟩
    · intro q
      rw [hq q]
      by_cases h2 : q = env.path
      · subst h2
        by_cases h1 : s = Stmt.css
        · simp only [h1, and_self, if_true] at hb ⊢; omega
        · simp only [h1, false_and, if_false] at hb ⊢; omega
      · simp only [h2, and_false, if_false]; exact hc q
    · intro q _ hne; rw [hq q]; simp [hne]
    · rw [hq env.path]
      by_cases h1 : s = Stmt.css
      · simp only [h1, and_self, if_true] at hb ⊢; omega
      · simp only [h1, false_and, if_false] at hb ⊢; omega
  · have := hC url c st hi hc
    rw [hst]
    refine ⟨this.1, fun q hq _ => this.2 q hq, ?_⟩
    rw [this.2 _ hin]
    simp only [hs, if_false] at hb
    omega

theorem evalStmts_css (sw : Switches) (loadF : LoadF) (hR : Restores loadF) (hP : PreservesInv loadF) (hC : CssOK loadF) :
    ∀ (ss : List Stmt) (env : Env) (cfg : Cfg) (st : St), st.Inv → CssInv st → env.path ∈ st.active →
      cssCount env.path st.trace + nCss ss ≤ 1 →
      CssInv (evalStmts sw loadF ss env cfg st).st ∧
      (∀ q ∈ st.active, q ≠ env.path → cssCount q (evalStmts sw loadF ss env cfg st).st.trace = cssCount q st.trace) := by
  intro ss
  induction ss with
  | nil => intro env cfg st _ hc _ _; unfold evalStmts; exact ⟨hc, fun _ _ _ => rfl⟩
  | cons s rest ih =>
    intro env cfg st hi hc hin hb
    simp only [evalStmts]
    have hs1 := step_css sw loadF hC s rest env cfg st hi hc hin hb
    have hi1 := step_inv sw loadF hP s env cfg st hi hin
    cases hs : (step sw loadF s env cfg st).res with
    | error e => exact ⟨hs1.1, hs1.2.1⟩
    | ok r1 =>
      obtain ⟨env1, cfg1⟩ := r1
      simp only
      have h1 := step_restores sw loadF hR s env cfg st _ hs
      have hp := (step_shape sw loadF s env cfg st).2 env1 cfg1 hs
      have := ih env1 cfg1 _ hi1 hs1.1 (by rw [hp, h1]; exact hin) (by rw [hp]; exact hs1.2.2)
      refine ⟨this.1, ?_⟩
      intro q hq hne
      rw [this.2 q (by rw [h1]; exact hq) (by rw [hp]; exact hne)]
      exact hs1.2.1 q hq hne

theorem resolve_mem (proj : Project) (u : Url) (src : ModSrc) (h : resolve proj u = some src) : src ∈ proj := by
  unfold resolve at h
  obtain ⟨c, _, hc⟩ := List.exists_of_findSome?_eq_some h
  exact List.mem_of_find?_eq_some hc

theorem load_css (sw : Switches) (proj : Project) (hwf : proj.wf = true) : ∀ fuel, CssOK (load sw proj fuel) := by
  have hbody : ∀ src ∈ proj, nCss src.body ≤ 1 := by
    intro src hm
    simp only [Project.wf, Bool.and_eq_true, List.all_eq_true, decide_eq_true_eq] at hwf
    exact hwf.2 src hm
  intro fuel
  induction fuel with
  | zero => intro url cfg st _ hc; simp only [load]; exact ⟨hc, fun _ _ => trivial⟩
  | succ fuel ih =>
    intro url cfg st hi hc
    simp only [load]
    split
    · exact ⟨hc, fun _ _ => rfl⟩
    · rename_i src hres
      split
      · exact ⟨hc, fun _ _ => rfl⟩
      · split
        · exact ⟨hc, fun _ _ => rfl⟩
        · rename_i hna
          split
          · exact ⟨hc, fun _ _ => rfl⟩
          · rename_i hnl
            have hna' : src.name ∉ st.active := by simpa using hna
            have hnp : src.name ∉ pathsOf st.mods := findLoaded_none _ _ hnl
            have hne : src.name ∉ st.entered := fun he => by
              rcases hi.cover _ he with h | h
              · exact hna' h
              · exact hnp h
            have hi1 : St.Inv { mods := st.mods, active := src.name :: st.active, entered := st.entered ++ [src.name], trace := st.trace } := by
              refine ⟨?_, ?_, ?_, ?_⟩
              · simp only [List.nodup_append, List.nodup_cons, List.not_mem_nil, not_false_eq_true, List.nodup_nil, and_self,
                  List.mem_singleton, true_and]
                exact ⟨hi.nodup, fun a ha b hb => by subst hb; exact fun hab => hne (hab ▸ ha)⟩
              · intro p hp
                simp only [List.mem_append, List.mem_singleton] at hp
                rcases hp with hp | hp
                · rcases hi.cover p hp with h | h
                  · exact Or.inl (by simp [h])
                  · exact Or.inr h
                · exact Or.inl (by simp [hp])
              · intro p hp
                simp only [List.mem_append, List.mem_singleton, not_or] at hp
                exact hi.cssEntered p hp.1
              · intro p hp
                simp only [List.mem_cons] at hp
                simp only [List.mem_append, List.mem_singleton]
                rcases hp with hp | hp
                · exact Or.inr hp
                · exact Or.inl (hi.activeEntered p hp)
            have h0 : cssCount src.name st.trace = 0 := hi.cssEntered _ hne
            have := evalStmts_css sw (load sw proj fuel) (load_restores sw proj fuel) (load_inv sw proj fuel) ih src.body
              (Env.new src.name) cfg _ hi1 hc (by simp [Env.new])
              (by simp only [Env.new]; rw [h0]; have := hbody src (resolve_mem proj url src hres); omega)
            generalize ho : evalStmts sw (load sw proj fuel) src.body (Env.new src.name) cfg
              { mods := st.mods, active := src.name :: st.active, entered := st.entered ++ [src.name], trace := st.trace } = o at this
            have hfr : ∀ q ∈ st.active, cssCount q o.st.trace = cssCount q st.trace := by
              intro q hq
              exact this.2 q (by simp [hq]) (by simp only [Env.new]; exact fun he => hna' (he ▸ hq))
            cases hres : o.res with
            | error e => exact ⟨this.1, hfr⟩
            | ok r1 => exact ⟨this.1, hfr⟩


/-! ### L4: fuel bounds only the nesting depth, which the active set bounds by the number of files -/

def notActive (proj : Project) (active : List Ident) : Nat := (proj.filter fun m => !active.contains m.name).length

def NoFuelErr (loadF : LoadF) (A : List Ident) : Prop :=
  ∀ url cfg st, st.active = A → (loadF url cfg st).res ≠ .error .outOfFuel

theorem lookupMember_err (sw : Switches) (env : Env) (st : St) (k : Kind) (ns : Option Ident) (n : Ident) (e : Err)
    (h : lookupMember sw env st k ns n = .error e) : e = .noSuchNs := by
  unfold lookupMember at h
  cases ns with
  | some s =>
    simp only at h
    split at h
    · cases h; rfl
    · cases h
  | none =>
    simp only at h
    split at h <;> cases h

theorem step_fuel_err (sw : Switches) (loadF : LoadF) (s : Stmt) (env : Env) (cfg : Cfg) (st : St)
    (h : (step sw loadF s env cfg st).res = .error .outOfFuel) : ∃ url c, (loadF url c st).res = .error .outOfFuel := by
  cases s with
  | var n v g =>
    simp only [step] at h
    repeat' split at h
    all_goals cases h
  | fn n b => simp [step] at h
  | mixin n => simp [step] at h
  | css => simp [step] at h
  | dbg => simp [step] at h
  | nested pid ctx n v => simp [step] at h
  | use url ns withs =>
    simp only [step] at h
    generalize hc0 : (if withs.isEmpty = true then Cfg.empty else ({ base := withs, layers := [], explicit := true } : Cfg)) = c0 at h
    cases hr : (loadF url c0 st).res with
    | error e => simp only [hr] at h; cases h; exact ⟨url, c0, hr⟩
    | ok r =>
      obtain ⟨id, c1⟩ := r
      simp only [hr] at h
      cases ha : addModule sw env ns url.base id (loadF url c0 st).st.mods with
      | error e =>
        simp only [ha] at h
        unfold addModule at ha
        repeat' split at ha
        all_goals (first | cases ha | skip)
        all_goals cases h
      | ok env' =>
        simp only [ha] at h
        split at h <;> cases h
  | forward url rule withs =>
    simp only [step] at h
    cases htf : throughForward sw cfg rule with
    | mk adj shared =>
      simp only [htf] at h
      split at h
      · cases hr : (loadF url adj st).res with
        | error e => simp only [hr] at h; cases h; exact ⟨url, adj, hr⟩
        | ok r => obtain ⟨id, adj'⟩ := r; simp only [hr] at h; cases h
      · split at h
        · cases h
        · cases haf : addForwardCfg adj withs with
          | mk adj1 newCfg =>
            simp only [haf] at h
            cases hr : (loadF url newCfg st).res with
            | error e => simp only [hr] at h; cases h; exact ⟨url, newCfg, hr⟩
            | ok r =>
              obtain ⟨id, new1⟩ := r
              simp only [hr] at h
              split at h <;> cases h
  | assign ns n v g =>
    simp only [step] at h
    repeat' split at h
    all_goals cases h
  | probe pid g k ns n =>
    simp only [step] at h
    split at h
    · rename_i e he
      cases h
      have := lookupMember_err sw env st k ns n _ he
      cases this
    · cases h
    · repeat' split at h
      all_goals (first | cases h | skip)
      all_goals (cases k <;> simp [undefErr] at h)
  | pkeys pid k ns =>
    simp only [step] at h
    repeat' split at h
    all_goals cases h
  | fail e => simp only [step] at h; cases e <;> simp [ImpErr.toErr] at h
  | loadCssSpec url withs =>
    simp only [step] at h
    generalize hc0 : (if withs.isEmpty = true then Cfg.empty else ({ base := withs, layers := [], explicit := true } : Cfg)) = c0 at h
    cases hr : (loadF url c0 st).res with
    | error e => simp only [hr] at h; cases h; exact ⟨url, c0, hr⟩
    | ok r =>
      obtain ⟨id, c1⟩ := r
      simp only [hr] at h
      split at h <;> cases h

theorem evalStmts_nofuel (sw : Switches) (loadF : LoadF) (hR : Restores loadF) (A : List Ident) (hN : NoFuelErr loadF A) :
    ∀ (ss : List Stmt) (env : Env) (cfg : Cfg) (st : St), st.active = A →
      (evalStmts sw loadF ss env cfg st).res ≠ .error .outOfFuel := by
  intro ss
  induction ss with
  | nil => intro env cfg st _; simp [evalStmts]
  | cons s rest ih =>
    intro env cfg st hA
    simp only [evalStmts]
    cases hs : (step sw loadF s env cfg st).res with
    | error e =>
      simp only
      intro he
      cases he
      obtain ⟨url, c, hl⟩ := step_fuel_err sw loadF s env cfg st hs
      exact hN url c st hA hl
    | ok r1 =>
      obtain ⟨env1, cfg1⟩ := r1
      simp only
      exact ih env1 cfg1 _ ((step_restores sw loadF hR s env cfg st _ hs).trans hA)

theorem filter_length_le' {α : Type} (p q : α → Bool) : ∀ (l : List α), (∀ x, q x = true → p x = true) →
    (l.filter q).length ≤ (l.filter p).length := by
  intro l
  induction l with
  | nil => intro _; simp
  | cons a l ih =>
    intro himp
    have := ih himp
    by_cases hq : q a = true
    · simp [hq, himp a hq]; exact this
    · by_cases hp : p a = true
      · simp [hq, hp]; omega
      · simp [hq, hp]; exact this

theorem filter_length_lt {α : Type} (p q : α → Bool) : ∀ (l : List α), (∀ x, q x = true → p x = true) →
    (∃ x ∈ l, p x = true ∧ q x = false) → (l.filter q).length < (l.filter p).length := by
  intro l
  induction l with
  | nil => intro _ ⟨x, hx, _⟩; cases hx
  | cons a l ih =>
    intro himp ⟨x, hx, hpx, hqx⟩
    have hle := filter_length_le' p q l himp
    simp only [List.mem_cons] at hx
    rcases hx with hx | hx
    · subst hx
      simp [hpx, hqx]; omega
    · have := ih himp ⟨x, hx, hpx, hqx⟩
      by_cases hq : q a = true
      · simp [hq, himp a hq]; exact this
      · by_cases hp : p a = true
        · simp [hq, hp]; omega
        · simp [hq, hp]; exact this

theorem notActive_lt (proj : Project) (src : ModSrc) (active : List Ident) (hm : src ∈ proj) (hn : src.name ∉ active) :
    notActive proj (src.name :: active) < notActive proj active := by
  unfold notActive
  apply filter_length_lt
  · intro x hx
    simp only [List.contains_cons, Bool.not_eq_true', Bool.or_eq_false_iff] at hx ⊢
    simpa using hx.2
  · refine ⟨src, hm, ?_, ?_⟩
    · simpa using hn
    · simp

theorem load_nofuel (sw : Switches) (proj : Project) : ∀ fuel url cfg st, notActive proj st.active < fuel →
    (load sw proj fuel url cfg st).res ≠ .error .outOfFuel := by
  intro fuel
  induction fuel with
  | zero => intro url cfg st h; omega
  | succ fuel ih =>
    intro url cfg st hlt
    simp only [load]
    split
    · simp
    · rename_i src hres
      split
      · simp
      · split
        · simp
        · rename_i hna
          split
          · simp
          · have hna' : src.name ∉ st.active := by simpa using hna
            have hlt2 := notActive_lt proj src st.active (resolve_mem proj url src hres) hna'
            have hN : NoFuelErr (load sw proj fuel) (src.name :: st.active) := by
              intro url' cfg' st' hA
              exact ih url' cfg' st' (by rw [hA]; omega)
            have := evalStmts_nofuel sw (load sw proj fuel) (load_restores sw proj fuel) _ hN src.body (Env.new src.name) cfg
              { mods := st.mods, active := src.name :: st.active, entered := st.entered ++ [src.name], trace := st.trace } rfl
            generalize ho : evalStmts sw (load sw proj fuel) src.body (Env.new src.name) cfg
              { mods := st.mods, active := src.name :: st.active, entered := st.entered ++ [src.name], trace := st.trace } = o at this
            cases hres : o.res with
            | error e => simp only; intro he; cases he; exact this hres
            | ok r1 => simp


/-! ### L5: the dependency graph of the cache is well-founded -/

def EnvBelow (env : Env) (n : Nat) : Prop :=
  (∀ f ∈ env.fwds, f.target < n) ∧ (∀ g ∈ env.globals, g < n) ∧ (∀ e ∈ env.nss, e.2 < n)

def GraphOK (loadF : LoadF) : Prop := ∀ url cfg st, ModsWF st.mods →
  ModsWF (loadF url cfg st).st.mods ∧ st.mods.length ≤ (loadF url cfg st).st.mods.length ∧
  ∀ id c, (loadF url cfg st).res = .ok (id, c) → id < (loadF url cfg st).st.mods.length

theorem envBelow_mono (env : Env) (n m : Nat) (h : EnvBelow env n) (hle : n ≤ m) : EnvBelow env m :=
  ⟨fun f hf => Nat.lt_of_lt_of_le (h.1 f hf) hle, fun g hg => Nat.lt_of_lt_of_le (h.2.1 g hg) hle,
   fun e he => Nat.lt_of_lt_of_le (h.2.2 e he) hle⟩

theorem modAt_setVar : ∀ (ms : List Mod) (id : Nat) (n : Ident) (v : Val) (i : Nat) (m' : Mod),
    modAt (setVar ms id n v) i = some m' →
    ∃ m, modAt ms i = some m ∧ m'.fwds = m.fwds ∧ m'.globals = m.globals ∧ m'.nss = m.nss := by
  intro ms
  induction ms with
  | nil => intro id n v i m' h; simp [setVar, modAt] at h
  | cons a rest ih =>
    intro id n v i m' h
    unfold setVar at h
    split at h
    · unfold modAt at h ⊢
      split at h
      · rename_i hi
        cases h
        rw [if_pos hi]
        exact ⟨a, rfl, rfl, rfl, rfl⟩
      · rename_i hi
        rw [if_neg hi]
        exact ⟨m', h, rfl, rfl, rfl⟩
    · unfold modAt at h ⊢
      rw [setVar_length] at h
      split at h
      · rename_i hi
        cases h
        rw [if_pos hi]
        exact ⟨a, rfl, rfl, rfl, rfl⟩
      · rename_i hi
        rw [if_neg hi]
        exact ih id n v i m' h

theorem modsWF_setVar (ms : List Mod) (id : Nat) (n : Ident) (v : Val) (h : ModsWF ms) : ModsWF (setVar ms id n v) := by
  intro i m' hm
  obtain ⟨m, hm0, h1, h2, h3⟩ := modAt_setVar ms id n v i m' hm
  rw [h1, h2, h3]
  exact h i m hm0

theorem insertRoot_graph (sw : Switches) (env : Env) (st : St) (n : Ident) (v : Val) (h : ModsWF st.mods) :
    ModsWF (insertRoot sw env st n v).2.mods ∧ (insertRoot sw env st n v).2.mods.length = st.mods.length ∧
    (insertRoot sw env st n v).1.fwds = env.fwds ∧ (insertRoot sw env st n v).1.globals = env.globals ∧
    (insertRoot sw env st n v).1.nss = env.nss := by
  unfold insertRoot
  split
  · exact ⟨h, rfl, rfl, rfl, rfl⟩
  · split
    · exact ⟨modsWF_setVar _ _ _ _ h, by simp [St.withMods, setVar_length], rfl, rfl, rfl⟩
    · exact ⟨h, rfl, rfl, rfl, rfl⟩

theorem addModule_below (sw : Switches) (env : Env) (ns : UseNs) (d : Ident) (id : Nat) (ms : List Mod) (env' : Env) (n : Nat)
    (h : addModule sw env ns d id ms = .ok env') (hb : EnvBelow env n) (hid : id < n) : EnvBelow env' n := by
  unfold addModule at h
  repeat' split at h
  all_goals (first | cases h | skip)
  · exact ⟨hb.1, by intro g hg; simp only [List.mem_append, List.mem_singleton] at hg; rcases hg with hg | hg; exact hb.2.1 g hg; exact hg ▸ hid, hb.2.2⟩
  · exact ⟨hb.1, hb.2.1, by intro e he; simp only [List.mem_append, List.mem_singleton] at he; rcases he with he | he; exact hb.2.2 e he; exact he ▸ hid⟩
  · exact ⟨hb.1, hb.2.1, by intro e he; simp only [List.mem_append, List.mem_singleton] at he; rcases he with he | he; exact hb.2.2 e he; exact he ▸ hid⟩

theorem step_graph (sw : Switches) (loadF : LoadF) (hG : GraphOK loadF) (s : Stmt) (env : Env) (cfg : Cfg) (st : St)
    (hw : ModsWF st.mods) (hb : EnvBelow env st.mods.length) :
    ModsWF (step sw loadF s env cfg st).st.mods ∧ st.mods.length ≤ (step sw loadF s env cfg st).st.mods.length ∧
    ∀ e c, (step sw loadF s env cfg st).res = .ok (e, c) → EnvBelow e (step sw loadF s env cfg st).st.mods.length := by
  have keep : ∀ (e : Env), e.fwds = env.fwds → e.globals = env.globals → e.nss = env.nss → ∀ n, st.mods.length ≤ n → EnvBelow e n := by
    intro e h1 h2 h3 n hn
    have := envBelow_mono env _ n hb hn
    exact ⟨by rw [h1]; exact this.1, by rw [h2]; exact this.2.1, by rw [h3]; exact this.2.2⟩
  cases s with
  | var n v g =>
    have hi := insertRoot_graph sw env st n
    simp only [step]
    split
    · split
      · rename_i cv cfg' _
        have := hi cv hw
        exact ⟨this.1, by rw [this.2.1]; exact Nat.le_refl _, by intro e c h; cases h; exact keep _ this.2.2.1 this.2.2.2.1 this.2.2.2.2 _ (by rw [this.2.1]; exact Nat.le_refl _)⟩
      · split
        · exact ⟨hw, Nat.le_refl _, by intro e c h; cases h; exact hb⟩
        · have := hi v hw
          exact ⟨this.1, by rw [this.2.1]; exact Nat.le_refl _, by intro e c h; cases h; exact keep _ this.2.2.1 this.2.2.2.1 this.2.2.2.2 _ (by rw [this.2.1]; exact Nat.le_refl _)⟩
    · have := hi v hw
      exact ⟨this.1, by rw [this.2.1]; exact Nat.le_refl _, by intro e c h; cases h; exact keep _ this.2.2.1 this.2.2.2.1 this.2.2.2.2 _ (by rw [this.2.1]; exact Nat.le_refl _)⟩
  | fn n b => exact ⟨hw, Nat.le_refl _, by intro e c h; simp [step] at h; rw [← h.1]; exact hb⟩
  | mixin n => exact ⟨hw, Nat.le_refl _, by intro e c h; simp [step] at h; rw [← h.1]; exact hb⟩
  | css => exact ⟨hw, Nat.le_refl _, by intro e c h; simp [step] at h; rw [← h.1]; exact hb⟩
  | dbg => exact ⟨hw, Nat.le_refl _, by intro e c h; simp [step] at h; rw [← h.1]; exact hb⟩
  | nested pid ctx n v => exact ⟨hw, Nat.le_refl _, by intro e c h; simp [step] at h; rw [← h.1]; exact hb⟩
  | use url ns withs =>
    simp only [step]
    generalize hc0 : (if withs.isEmpty = true then Cfg.empty else ({ base := withs, layers := [], explicit := true } : Cfg)) = c0
    have hg := hG url c0 st hw
    cases hr : (loadF url c0 st).res with
    | error e => exact ⟨hg.1, hg.2.1, by intro e c h; cases h⟩
    | ok r =>
      obtain ⟨id, c1⟩ := r
      simp only
      cases ha : addModule sw env ns url.base id (loadF url c0 st).st.mods with
      | error e => exact ⟨hg.1, hg.2.1, by intro e c h; cases h⟩
      | ok env' =>
        simp only
        split
        · exact ⟨hg.1, hg.2.1, by intro e c h; cases h⟩
        · refine ⟨hg.1, hg.2.1, ?_⟩
          intro e c h
          cases h
          exact addModule_below sw env ns url.base id _ env' _ ha (envBelow_mono env _ _ hb hg.2.1) (hg.2.2 id c1 hr)
  | forward url rule withs =>
    simp only [step]
    cases htf : throughForward sw cfg rule with
    | mk adj shared =>
      simp only
      split
      · have hg := hG url adj st hw
        cases hr : (loadF url adj st).res with
        | error e => exact ⟨hg.1, hg.2.1, by intro e c h; cases h⟩
        | ok r =>
          obtain ⟨id, adj'⟩ := r
          refine ⟨hg.1, hg.2.1, ?_⟩
          intro e c h
          cases h
          have hb' := envBelow_mono env _ _ hb hg.2.1
          exact ⟨by intro f hf; simp only [List.mem_append, List.mem_singleton] at hf; rcases hf with hf | hf; exact hb'.1 f hf; subst hf; exact hg.2.2 id adj' hr, hb'.2.1, hb'.2.2⟩
      · split
        · exact ⟨hw, Nat.le_refl _, by intro e c h; cases h⟩
        · cases haf : addForwardCfg adj withs with
          | mk adj1 newCfg =>
            simp only
            have hg := hG url newCfg st hw
            cases hr : (loadF url newCfg st).res with
            | error e => exact ⟨hg.1, hg.2.1, by intro e c h; cases h⟩
            | ok r =>
              obtain ⟨id, new1⟩ := r
              simp only
              split
              · exact ⟨hg.1, hg.2.1, by intro e c h; cases h⟩
              · refine ⟨hg.1, hg.2.1, ?_⟩
                intro e c h
                cases h
                have hb' := envBelow_mono env _ _ hb hg.2.1
                exact ⟨by intro f hf; simp only [List.mem_append, List.mem_singleton] at hf; rcases hf with hf | hf; exact hb'.1 f hf; subst hf; exact hg.2.2 id new1 hr, hb'.2.1, hb'.2.2⟩
  | assign ns n v g =>
    simp only [step]
    split
    · exact ⟨hw, Nat.le_refl _, by intro e c h; cases h⟩
    · split
      · split
        · exact ⟨hw, Nat.le_refl _, by intro e c h; cases h; exact hb⟩
        · exact ⟨modsWF_setVar _ _ _ _ hw, by simp [St.withMods, setVar_length], by intro e c h; cases h; simpa [St.withMods, setVar_length] using hb⟩
      · exact ⟨hw, Nat.le_refl _, by intro e c h; cases h⟩
  | probe pid g k ns n =>
    simp only [step]
    split
    · exact ⟨hw, Nat.le_refl _, by intro e c h; cases h⟩
    · exact ⟨hw, Nat.le_refl _, by intro e c h; cases h; exact hb⟩
    · split
      · exact ⟨hw, Nat.le_refl _, by intro e c h; cases h; exact hb⟩
      · split
        · exact ⟨hw, Nat.le_refl _, by intro e c h; cases h; exact hb⟩
        · exact ⟨hw, Nat.le_refl _, by intro e c h; cases h⟩
  | pkeys pid k ns =>
    simp only [step]
    split
    · exact ⟨hw, Nat.le_refl _, by intro e c h; cases h⟩
    · exact ⟨hw, Nat.le_refl _, by intro e c h; cases h; exact hb⟩
  | fail e => exact ⟨hw, Nat.le_refl _, by intro e' c h; simp [step] at h⟩
  | loadCssSpec url withs =>
    simp only [step]
    generalize hc0 : (if withs.isEmpty = true then Cfg.empty else ({ base := withs, layers := [], explicit := true } : Cfg)) = c0
    have hg := hG url c0 st hw
    cases hr : (loadF url c0 st).res with
    | error e => exact ⟨hg.1, hg.2.1, by intro e c h; cases h⟩
    | ok r =>
      obtain ⟨id, c1⟩ := r
      simp only
      split
      · exact ⟨hg.1, hg.2.1, by intro e c h; cases h⟩
      · exact ⟨hg.1, hg.2.1, by intro e c h; cases h; exact envBelow_mono env _ _ hb hg.2.1⟩

theorem evalStmts_graph (sw : Switches) (loadF : LoadF) (hG : GraphOK loadF) :
    ∀ (ss : List Stmt) (env : Env) (cfg : Cfg) (st : St), ModsWF st.mods → EnvBelow env st.mods.length →
      ModsWF (evalStmts sw loadF ss env cfg st).st.mods ∧ st.mods.length ≤ (evalStmts sw loadF ss env cfg st).st.mods.length ∧
      ∀ e c, (evalStmts sw loadF ss env cfg st).res = .ok (e, c) → EnvBelow e (evalStmts sw loadF ss env cfg st).st.mods.length := by
  intro ss
  induction ss with
  | nil => intro env cfg st hw hb; unfold evalStmts; exact ⟨hw, Nat.le_refl _, by intro e c h; cases h; exact hb⟩
  | cons s rest ih =>
    intro env cfg st hw hb
    simp only [evalStmts]
    have h1 := step_graph sw loadF hG s env cfg st hw hb
    cases hs : (step sw loadF s env cfg st).res with
    | error e => exact ⟨h1.1, h1.2.1, by intro e c h; cases h⟩
    | ok r1 =>
      obtain ⟨env1, cfg1⟩ := r1
      simp only
      have := ih env1 cfg1 _ h1.1 (h1.2.2 env1 cfg1 hs)
      exact ⟨this.1, Nat.le_trans h1.2.1 this.2.1, this.2.2⟩

theorem findLoaded_lt : ∀ (ms : List Mod) (p : Ident) (id : Nat), findLoaded ms p = some id → id < ms.length := by
  intro ms
  induction ms with
  | nil => intro p id h; simp [findLoaded] at h
  | cons m rest ih =>
    intro p id h
    unfold findLoaded at h
    split at h
    · cases h; simp
    · have := ih p id h; simp; omega

theorem load_graph (sw : Switches) (proj : Project) : ∀ fuel, GraphOK (load sw proj fuel) := by
  intro fuel
  induction fuel with
  | zero => intro url cfg st hw; simp only [load]; exact ⟨hw, Nat.le_refl _, by intro id c h; cases h⟩
  | succ fuel ih =>
    intro url cfg st hw
    simp only [load]
    split
    · exact ⟨hw, Nat.le_refl _, by intro id c h; cases h⟩
    · rename_i src _
      split
      · exact ⟨hw, Nat.le_refl _, by intro id c h; cases h⟩
      · split
        · exact ⟨hw, Nat.le_refl _, by intro id c h; cases h⟩
        · split
          · rename_i id hfl
            exact ⟨hw, Nat.le_refl _, by intro id' c h; cases h; exact findLoaded_lt _ _ _ hfl⟩
          · have := evalStmts_graph sw (load sw proj fuel) ih src.body (Env.new src.name) cfg
              { mods := st.mods, active := src.name :: st.active, entered := st.entered ++ [src.name], trace := st.trace } hw
              (by simp [EnvBelow, Env.new])
            generalize ho : evalStmts sw (load sw proj fuel) src.body (Env.new src.name) cfg
              { mods := st.mods, active := src.name :: st.active, entered := st.entered ++ [src.name], trace := st.trace } = o at this
            cases hres : o.res with
            | error e => exact ⟨this.1, this.2.1, by intro id c h; cases h⟩
            | ok r1 =>
              obtain ⟨env1, cfg1⟩ := r1
              have hb := this.2.2 env1 cfg1 hres
              refine ⟨?_, by simp only [List.length_cons]; exact Nat.le_succ_of_le this.2.1, by intro id c h; cases h; simp⟩
              intro i m hm
              unfold modAt at hm
              split at hm
              · rename_i hi
                cases hm
                subst hi
                exact ⟨hb.1, hb.2.1, hb.2.2⟩
              · exact this.1 i m hm

end Grass.Module
