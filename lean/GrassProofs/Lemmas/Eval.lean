import Grass.Eval
/-
  Helper lemmas for the reference evaluator (C03, part 2): the information order on results
  ("out of fuel" below everything) and monotonicity of one evaluation level `stepF`.
-/
namespace Grass.Eval

/-- `a ⊑ b`: `a` ran out of fuel, or the two results are the same. -/
def Res.le {α : Type} (a b : Res α) : Prop := a = .oof ∨ a = b

def M.le {α : Type} (x y : M α) : Prop := ∀ st, Res.le (x st) (y st)

theorem M.le_refl {α : Type} (x : M α) : M.le x x := fun _ => .inr rfl

theorem bind_le {α β : Type} {x x' : M α} {f f' : α → M β}
    (hx : M.le x x') (hf : ∀ a, M.le (f a) (f' a)) : M.le (x >>= f) (x' >>= f') := by
  intro st
  show Res.le (M.bind x f st) (M.bind x' f' st)
  unfold M.bind
  rcases hx st with h | h
  · left; rw [h]
  · rw [h]
    cases x' st with
    | ok a st' => exact hf a st'
    | err e st' => right; rfl
    | oof => left; rfl

structure Rec.le (r r' : Rec) : Prop where
  expr : ∀ c e, M.le (r.expr c e) (r'.expr c e)
  block : ∀ c ss, M.le (r.block c ss) (r'.block c ss)
  loop : ∀ c e b, M.le (r.loop c e b) (r'.loop c e b)

theorem mapM'_le {α β : Type} {f g : α → M β} (h : ∀ a, M.le (f a) (g a)) :
    ∀ l, M.le (mapM' f l) (mapM' g l)
  | [] => M.le_refl _
  | a :: as => by
    unfold mapM'
    apply bind_le (h a); intro b
    apply bind_le (mapM'_le h as); intro bs
    exact M.le_refl _

theorem forEachM_le {α : Type} {f g : α → M (Option Value)} (h : ∀ a, M.le (f a) (g a)) :
    ∀ l, M.le (forEachM f l) (forEachM g l)
  | [] => M.le_refl _
  | a :: as => by
    unfold forEachM
    apply bind_le (h a); intro b
    split
    · exact M.le_refl _
    · exact forEachM_le h as

theorem evalNamed_le {f g : Expr → M Value} (h : ∀ a, M.le (f a) (g a)) :
    ∀ l, M.le (evalNamed f l) (evalNamed g l)
  | [] => M.le_refl _
  | (n, e) :: r => by
    unfold evalNamed
    apply bind_le (h e); intro b
    apply bind_le (evalNamed_le h r); intro bs
    exact M.le_refl _

theorem evalInterp_le {f g : Expr → M Value} (h : ∀ a, M.le (f a) (g a)) :
    ∀ l, M.le (evalInterp f l) (evalInterp g l)
  | [] => M.le_refl _
  | (s, none) :: r => by
    unfold evalInterp
    apply bind_le (evalInterp_le h r); intro t
    exact M.le_refl _
  | (s, some e) :: r => by
    unfold evalInterp
    apply bind_le (h e); intro v
    apply bind_le (M.le_refl _); intro x
    apply bind_le (evalInterp_le h r); intro t
    exact M.le_refl _

theorem evalArgs_le {r r' : Rec} (hr : Rec.le r r') (ctx : Ctx) (a : Args) :
    M.le (evalArgs r ctx a) (evalArgs r' ctx a) := by
  unfold evalArgs
  apply bind_le (mapM'_le (hr.expr ctx) _); intro pos
  apply bind_le (evalNamed_le (hr.expr ctx) _); intro named
  split
  · exact M.le_refl _
  · apply bind_le (hr.expr ctx _); intro v
    exact M.le_refl _

theorem bindRest_le {r r' : Rec} (hr : Rec.le r r') (ctx : Ctx) (fid : Nat) :
    ∀ ps named, M.le (bindRest r ctx fid ps named) (bindRest r' ctx fid ps named)
  | [], _ => M.le_refl _
  | (p, d) :: ps, named => by
    unfold bindRest
    apply bind_le
    · split
      · exact M.le_refl _
      · split
        · exact hr.expr ctx _
        · exact M.le_refl _
    · intro v
      apply bind_le (M.le_refl _); intro _
      exact bindRest_le hr ctx fid ps _

theorem invoke_le {α : Type} {r r' : Rec} (hr : Rec.le r r') (dev : Dev) (mk : Nat → Ctx) (ps : Params)
    (ev : Evaled) {body body' : Ctx → M α} (hb : ∀ c, M.le (body c) (body' c)) :
    M.le (invoke r dev mk ps ev body) (invoke r' dev mk ps ev body') := by
  unfold invoke
  apply bind_le (M.le_refl _); intro fid
  split
  · exact M.le_refl _
  · apply bind_le (M.le_refl _); intro _
    apply bind_le (bindRest_le hr _ _ _ _); intro left
    apply bind_le (M.le_refl _); intro _
    apply bind_le (hb _); intro out
    exact M.le_refl _

theorem firstClause_le {r r' : Rec} (hr : Rec.le r r') (ctx : Ctx) :
    ∀ cl, M.le (firstClause r ctx cl) (firstClause r' ctx cl)
  | [] => M.le_refl _
  | (c, body) :: rest => by
    unfold firstClause
    apply bind_le (hr.expr ctx c); intro v
    split
    · exact M.le_refl _
    · exact firstClause_le hr ctx rest

theorem inScope_le {α : Type} (ctx : Ctx) (semi : Bool) {body body' : Ctx → M α}
    (hb : ∀ c, M.le (body c) (body' c)) : M.le (inScope ctx semi body) (inScope ctx semi body') := by
  unfold inScope
  apply bind_le (M.le_refl _); intro fid
  exact hb _

theorem exprF_le {r r' : Rec} (hr : Rec.le r r') (ctx : Ctx) (e : Expr) :
    M.le (exprF r ctx e) (exprF r' ctx e) := by
  have he := hr.expr
  have hb := hr.block
  unfold exprF
  split
  all_goals repeat (first
    | exact M.le_refl _
    | exact he _ _
    | exact hb _ _
    | exact mapM'_le (he _) _
    | exact evalInterp_le (he _) _
    | exact evalArgs_le hr _ _
    | apply invoke_le hr
    | apply bind_le
    | split
    | exact M.le_refl _ _
    | exact he _ _ _
    | exact hb _ _ _
    | intro _)

theorem emitDecl_le {r r' : Rec} (hr : Rec.le r r') (ctx : Ctx) (prop : String) (e : Expr) :
    M.le (emitDecl r ctx prop e) (emitDecl r' ctx prop e) := by
  unfold emitDecl
  apply bind_le (hr.expr ctx e); intro v
  exact M.le_refl _

theorem stmtF_le {r r' : Rec} (hr : Rec.le r r') (ctx : Ctx) (s : Stmt) :
    M.le (stmtF r ctx s) (stmtF r' ctx s) := by
  have he := hr.expr
  have hb := hr.block
  have hl := hr.loop
  unfold stmtF
  split
  all_goals repeat (first
    | exact M.le_refl _
    | exact he _ _
    | exact hb _ _
    | exact hl _ _ _
    | exact firstClause_le hr _ _
    | exact evalArgs_le hr _ _
    | exact emitDecl_le hr _ _ _
    | exact evalInterp_le (he _) _
    | apply invoke_le hr
    | apply inScope_le
    | apply forEachM_le
    | apply bind_le
    | split
    | exact M.le_refl _ _
    | exact he _ _ _
    | exact hb _ _ _
    | exact hl _ _ _ _
    | (show M.le _ _; dsimp only)
    | intro _)

theorem loopF_le {r r' : Rec} (hr : Rec.le r r') (ctx : Ctx) (c : Expr) (body : List Stmt) :
    M.le (loopF r ctx c body) (loopF r' ctx c body) := by
  have he := hr.expr
  have hb := hr.block
  have hl := hr.loop
  unfold loopF
  repeat (first
    | exact M.le_refl _
    | exact he _ _
    | exact hb _ _
    | exact hl _ _ _
    | apply bind_le
    | split
    | exact M.le_refl _ _
    | exact he _ _ _
    | exact hb _ _ _
    | exact hl _ _ _ _
    | (show M.le _ _; dsimp only)
    | intro _)

/-- One evaluation level is monotone in the recursion record. -/
theorem stepF_le {r r' : Rec} (hr : Rec.le r r') : Rec.le (stepF r) (stepF r') where
  expr := fun c e => exprF_le hr c e
  block := fun c ss => forEachM_le (fun s => bind_le (M.le_refl _) (fun _ => stmtF_le hr c s)) ss
  loop := fun c e b => loopF_le hr c e b

theorem bottom_le (r : Rec) : Rec.le Rec.bottom r where
  expr := fun _ _ _ => .inl rfl
  block := fun _ _ _ => .inl rfl
  loop := fun _ _ _ _ => .inl rfl

theorem run_le_succ : ∀ n, Rec.le (run n) (run (n + 1))
  | 0 => bottom_le _
  | n + 1 => stepF_le (run_le_succ n)

theorem Rec.le_refl (r : Rec) : Rec.le r r where
  expr := fun _ _ => M.le_refl _
  block := fun _ _ => M.le_refl _
  loop := fun _ _ _ => M.le_refl _

theorem Res.le_trans {α : Type} {a b c : Res α} (h1 : Res.le a b) (h2 : Res.le b c) : Res.le a c := by
  rcases h1 with h | h
  · exact .inl h
  · rw [h]; exact h2

theorem Rec.le_trans {a b c : Rec} (h1 : Rec.le a b) (h2 : Rec.le b c) : Rec.le a c where
  expr := fun x y st => Res.le_trans (h1.expr x y st) (h2.expr x y st)
  block := fun x y st => Res.le_trans (h1.block x y st) (h2.block x y st)
  loop := fun x y z st => Res.le_trans (h1.loop x y z st) (h2.loop x y z st)

theorem run_le_add (n : Nat) : ∀ k, Rec.le (run n) (run (n + k))
  | 0 => Rec.le_refl _
  | k + 1 => Rec.le_trans (run_le_add n k) (run_le_succ (n + k))

end Grass.Eval
