import Grass.Module
import GrassProofs.Lemmas.ModuleView
/-
  Helper definitions and lemmas about configuration threading (Grass/Module.lean: `Cfg`,
  `throughForward`, `addForwardCfg`, `removeUsed`, `step`, `load`) used by GrassProofs/C12.lean for
  `C12_with_unknown_is_error`: a configured variable that nothing can take stays in the
  configuration (or the compilation fails on the way).
-/
namespace Grass.Module

/-- the name under which a configured variable reaches the module behind `@forward … as p*` -/
def fwdName (r : FwdRule) (n : Ident) : Option Ident :=
  match r.pfx with
  | some p => if p.isPrefixOf n then some (n.drop p.length) else none
  | none => some n

/-- A statement cannot take the configured variable away silently; the module sees it as `vis`
    (`none`: it cannot see it at all); `rec` answers the same question for a forwarded module.
    * a `!default` declaration must be of another name;
    * `@forward` without `with` hands it on (translated through the prefix);
    * `@forward … with (…)`: if the clause sets the name itself (not `!default`) the outer value
      is not used at all; otherwise (a `!default` entry takes the outer value, or the clause does not
      name it and the value is copied into the new configuration) the forwarded module must not be
      able to take it either.  The clause must not name a variable twice (the parser rejects it). -/
def stmtKeeps (rec : Url → Option Ident → Bool) (vis : Option Ident) : Stmt → Bool
  | .var m _ true => vis != some m
  | .forward u r [] => rec u (vis.bind (fwdName r))
  | .forward u r (w :: ws) =>
    decide ((w :: ws).map (·.1)).Nodup &&
    (match vis.bind (fwdName r) with
     | none => true
     | some n' => (w :: ws).any (fun e => e.1 == n' && !e.2.2) || rec u (some n'))
  | _ => true

/-- Nothing reachable from module `u` through `@forward`s (to depth `d`) can take the configured
    variable: no `!default` declaration of it (under the name it has there) anywhere on the way. -/
def cannotConsume (proj : Project) : Nat → Url → Option Ident → Bool
  | 0, _, _ => false
  | d + 1, u, vis =>
    match resolve proj u with
    | none => true
    | some src => src.body.all (stmtKeeps (cannotConsume proj d) vis)

/-- a loader that leaves the configured value under base key `b` alone whenever `rec` says so -/
def KeepsB (loadF : LoadF) (rec : Url → Option Ident → Bool) : Prop :=
  ∀ (url : Url) (cfg : Cfg) (st : St) (b : Ident) (vis : Option Ident) (id : Nat) (cfg' : Cfg),
    cfg.explicit = true → (∀ n, viaLayers cfg.layers n = some b → some n = vis) → rec url vis = true →
    (loadF url cfg st).res = .ok (id, cfg') →
    cfg'.layers = cfg.layers ∧ cfg'.explicit = cfg.explicit ∧ cfg'.base.lookup b = cfg.base.lookup b

/-! ### association lists -/

theorem lookup_eraseKey_ne' (l : List (Ident × Val)) (n m : Ident) (h : m ≠ n) : (eraseKey l m).lookup n = l.lookup n := by
  induction l with
  | nil => rfl
  | cons e l ih =>
    obtain ⟨k, x⟩ := e
    unfold eraseKey at ih ⊢
    simp only [List.filter_cons]
    by_cases hk : k = m
    · subst hk
      have : (n == k) = false := by simpa using Ne.symm h
      simp [List.lookup, this, ih]
    · have : (k != m) = true := by simpa using hk
      simp only [this, if_true, List.lookup]
      split
      · rfl
      · exact ih

theorem lookup_eraseKey_self (l : List (Ident × Val)) (b : Ident) : (eraseKey l b).lookup b = none := by
  induction l with
  | nil => rfl
  | cons e l ih =>
    obtain ⟨k, x⟩ := e
    unfold eraseKey at ih ⊢
    simp only [List.filter_cons]
    by_cases hk : k = b
    · subst hk; simp [ih]
    · have h1 : (k != b) = true := by simpa using hk
      have h2 : (b == k) = false := by simpa using Ne.symm hk
      simp only [h1, if_true, List.lookup, h2]
      exact ih

theorem lookup_setAssoc_self (l : List (Ident × Val)) (n : Ident) (v : Val) : (setAssoc l n v).lookup n = some v := by
  by_cases h : (l.lookup n).isSome = true
  · exact lookup_setAssoc l n v h
  · have hany : l.any (fun e => e.1 == n) = false := by
      induction l with
      | nil => rfl
      | cons e l ih =>
        obtain ⟨k, x⟩ := e
        simp only [List.lookup] at h
        by_cases hk : n = k
        · subst hk; simp at h
        · have hb : (n == k) = false := by simpa using hk
          have hb2 : (k == n) = false := by simpa using Ne.symm hk
          rw [hb] at h
          simp [hb2, ih h]
    unfold setAssoc
    rw [hany]
    simp only [Bool.false_eq_true, if_false]
    clear hany
    induction l with
    | nil => simp [List.lookup]
    | cons e l ih =>
      obtain ⟨k, x⟩ := e
      simp only [List.lookup] at h
      by_cases hk : n = k
      · subst hk; simp at h
      · have hb : (n == k) = false := by simpa using hk
        rw [hb] at h
        simp only [List.cons_append, List.lookup, hb]
        exact ih h

theorem lookup_setAssoc_ne (l : List (Ident × Val)) (n k : Ident) (v : Val) (h : k ≠ n) :
    (setAssoc l n v).lookup k = l.lookup k := by
  have hb : (k == n) = false := by simpa using h
  unfold setAssoc
  split
  · rename_i hh
    clear hh
    induction l with
    | nil => rfl
    | cons e l ih =>
      obtain ⟨a, x⟩ := e
      simp only [List.map_cons]
      by_cases ha : a = n
      · subst ha
        simp only [beq_self_eq_true, if_true, List.lookup, hb]
        exact ih
      · have : (a == n) = false := by simpa using ha
        simp only [this, Bool.false_eq_true, if_false, List.lookup]
        split
        · rfl
        · exact ih
  · rename_i hh
    clear hh
    induction l with
    | nil => simp [List.lookup, hb]
    | cons e l ih =>
      obtain ⟨a, x⟩ := e
      simp only [List.cons_append, List.lookup]
      split
      · rfl
      · exact ih

theorem mem_keys_of_lookup (l : List (Ident × Val)) (k : Ident) (h : (l.lookup k).isSome = true) : k ∈ l.map (·.1) := by
  induction l with
  | nil => simp at h
  | cons e l ih =>
    obtain ⟨a, x⟩ := e
    simp only [List.lookup] at h
    by_cases hk : k = a
    · subst hk; simp
    · have hb : (k == a) = false := by simpa using hk
      rw [hb] at h
      simp only [List.map_cons, List.mem_cons]
      exact Or.inr (ih h)

theorem lookup_filter_fst (l : List (Ident × Val)) (p : Ident → Bool) (k : Ident) (hp : p k = true) :
    (l.filter fun e => p e.1).lookup k = l.lookup k := by
  induction l with
  | nil => rfl
  | cons e l ih =>
    obtain ⟨a, x⟩ := e
    simp only [List.filter_cons]
    by_cases hk : k = a
    · subst hk; simp [hp, List.lookup]
    · have hb : (k == a) = false := by simpa using hk
      split
      · simp only [List.lookup, hb]; exact ih
      · simp only [List.lookup, hb]; exact ih

theorem lookup_filterMap_get (g : Ident → Option Val) (ks : List Ident) (k : Ident) (h : k ∈ ks) :
    (ks.filterMap fun x => (g x).map fun v => (x, v)).lookup k = g k := by
  induction ks with
  | nil => cases h
  | cons a ks ih =>
    simp only [List.filterMap_cons]
    by_cases hk : k = a
    · subst hk
      cases hg : g k with
      | none =>
        simp only [Option.map_none]
        by_cases hm : k ∈ ks
        · rw [ih hm, hg]
        · -- no entry for k at all
          have : ∀ (l : List Ident), k ∉ l → (l.filterMap fun x => (g x).map fun v => (x, v)).lookup k = none := by
            intro l hl
            induction l with
            | nil => rfl
            | cons b l ih2 =>
              simp only [List.mem_cons, not_or] at hl
              simp only [List.filterMap_cons]
              cases g b with
              | none => exact ih2 hl.2
              | some v =>
                have : (k == b) = false := by simpa using hl.1
                simp only [Option.map_some, List.lookup, this]
                exact ih2 hl.2
          exact this ks hm
      | some v => simp [List.lookup]
    · have hm : k ∈ ks := by simpa [hk] using h
      cases g a with
      | none => exact ih hm
      | some v =>
        have : (k == a) = false := by simpa using hk
        simp only [Option.map_some, List.lookup, this]
        exact ih hm

/-! ### configurations -/

theorem remove_shape (c : Cfg) (m : Ident) : (c.remove m).2.layers = c.layers ∧ (c.remove m).2.explicit = c.explicit := by
  unfold Cfg.remove
  split <;> exact ⟨rfl, rfl⟩

theorem remove_keeps (cfg : Cfg) (m b : Ident) (h : viaLayers cfg.layers m ≠ some b) :
    (cfg.remove m).2.base.lookup b = cfg.base.lookup b := by
  unfold Cfg.remove
  split
  · rfl
  · rename_i b' hb'
    exact lookup_eraseKey_ne' _ _ _ (fun he => h (by rw [hb', he]))

/-- removing anything keeps an absent key absent -/
theorem remove_keeps_none (cfg : Cfg) (m b : Ident) (h : cfg.base.lookup b = none) :
    (cfg.remove m).2.base.lookup b = none := by
  unfold Cfg.remove
  split
  · exact h
  · rename_i b' _
    by_cases hb : b' = b
    · subst hb; exact lookup_eraseKey_self _ _
    · rw [lookup_eraseKey_ne' _ _ _ hb]; exact h

theorem keys_complete : ∀ (ls : List CfgLayer) (base : List (Ident × Val)) (m b : Ident),
    viaLayers ls m = some b → (base.lookup b).isSome = true → m ∈ layerKeys ls (base.map (·.1)) := by
  intro ls
  induction ls with
  | nil =>
    intro base m b h hb
    simp only [viaLayers, Option.some.injEq] at h
    subst h
    exact mem_keys_of_lookup _ _ hb
  | cons l ls ih =>
    intro base m b h hb
    cases l with
    | limited ks =>
      simp only [viaLayers] at h
      split at h
      · rename_i hc; simpa [layerKeys] using hc
      · cases h
    | unprefixed p =>
      simp only [viaLayers] at h
      have := ih base (p ++ m) b h hb
      simp only [layerKeys, List.mem_map, List.mem_filter]
      exact ⟨p ++ m, ⟨this, by simp [List.isPrefixOf_iff_prefix]⟩, by simp⟩

theorem removeAll_keeps (b : Ident) : ∀ (ns : List Ident) (c : Cfg),
    (∀ n ∈ ns, viaLayers c.layers n ≠ some b ∨ c.base.lookup b = none) →
    (removeAll ns c).layers = c.layers ∧ (removeAll ns c).explicit = c.explicit ∧
    (removeAll ns c).base.lookup b = c.base.lookup b := by
  intro ns
  induction ns with
  | nil => intro c _; exact ⟨rfl, rfl, rfl⟩
  | cons n ns ih =>
    intro c h
    unfold removeAll
    have hs := remove_shape c n
    have hk : (c.remove n).2.base.lookup b = c.base.lookup b := by
      rcases h n (by simp) with h1 | h1
      · exact remove_keeps c n b h1
      · rw [remove_keeps_none c n b h1, h1]
    have := ih (c.remove n).2 (by
      intro n' hn'
      rw [hs.1, hk]
      exact h n' (by simp [hn']))
    exact ⟨this.1.trans hs.1, this.2.1.trans hs.2, this.2.2.trans hk⟩

theorem loop_mono (k : Ident) : ∀ (ws : List (Ident × Val × Bool)) (adj : Cfg) (nv : List (Ident × Val)),
    (nv.lookup k).isSome = true → ((fwdCfgLoop ws adj nv).2.lookup k).isSome = true := by
  intro ws
  induction ws with
  | nil => intro adj nv h; exact h
  | cons e rest ih =>
    intro adj nv h
    have hset : ∀ v, ((setAssoc nv e.1 v).lookup k).isSome = true := by
      intro v
      by_cases hk : k = e.1
      · rw [hk, lookup_setAssoc_self]; rfl
      · rw [lookup_setAssoc_ne _ _ _ _ hk]; exact h
    unfold fwdCfgLoop
    split
    · split
      · exact ih _ _ (hset _)
      · exact ih _ _ (hset _)
    · exact ih _ _ (hset _)

theorem loop_spec (b : Ident) (L : List CfgLayer) (vis' : Option Ident)
    (hv : ∀ m, viaLayers L m = some b → some m = vis') :
    ∀ (ws : List (Ident × Val × Bool)) (adj : Cfg) (nv : List (Ident × Val)), adj.layers = L →
      (fwdCfgLoop ws adj nv).1.layers = L ∧ (fwdCfgLoop ws adj nv).1.explicit = adj.explicit ∧
      ((∀ e ∈ ws, e.2.2 = true → some e.1 ≠ vis') → (fwdCfgLoop ws adj nv).1.base.lookup b = adj.base.lookup b) ∧
      (∀ k, (∀ e ∈ ws, e.1 ≠ k) → (fwdCfgLoop ws adj nv).2.lookup k = nv.lookup k) ∧
      (∀ e ∈ ws, ((fwdCfgLoop ws adj nv).2.lookup e.1).isSome = true) := by
  intro ws
  induction ws with
  | nil => intro adj nv hl; exact ⟨hl, rfl, fun _ => rfl, fun _ _ => rfl, fun e he => by cases he⟩
  | cons e rest ih =>
    intro adj nv hl
    have hs := remove_shape adj e.1
    have sub : ∀ (adj' : Cfg) (v : Val), adj'.layers = L → adj'.explicit = adj.explicit →
        ((e.2.2 = true → some e.1 ≠ vis') → adj'.base.lookup b = adj.base.lookup b) →
        (fwdCfgLoop rest adj' (setAssoc nv e.1 v)).1.layers = L ∧
        (fwdCfgLoop rest adj' (setAssoc nv e.1 v)).1.explicit = adj.explicit ∧
        ((∀ x ∈ e :: rest, x.2.2 = true → some x.1 ≠ vis') →
          (fwdCfgLoop rest adj' (setAssoc nv e.1 v)).1.base.lookup b = adj.base.lookup b) ∧
        (∀ k, (∀ x ∈ e :: rest, x.1 ≠ k) → (fwdCfgLoop rest adj' (setAssoc nv e.1 v)).2.lookup k = nv.lookup k) ∧
        (∀ x ∈ e :: rest, ((fwdCfgLoop rest adj' (setAssoc nv e.1 v)).2.lookup x.1).isSome = true) := by
      intro adj' v hl' he' hb'
      have := ih adj' (setAssoc nv e.1 v) hl'
      refine ⟨this.1, this.2.1.trans he', ?_, ?_, ?_⟩
      · intro hall
        rw [this.2.2.1 (fun x hx => hall x (by simp [hx]))]
        exact hb' (hall e (by simp))
      · intro k hk
        rw [this.2.2.2.1 k (fun x hx => hk x (by simp [hx]))]
        exact lookup_setAssoc_ne _ _ _ _ (Ne.symm (hk e (by simp)))
      · intro x hx
        simp only [List.mem_cons] at hx
        rcases hx with hx | hx
        · subst hx
          exact loop_mono _ rest adj' _ (by rw [lookup_setAssoc_self]; rfl)
        · exact this.2.2.2.2 x hx
    unfold fwdCfgLoop
    split
    · rename_i hg
      have hkeep : (e.2.2 = true → some e.1 ≠ vis') → (adj.remove e.1).2.base.lookup b = adj.base.lookup b := by
        intro hne
        apply remove_keeps
        intro hvl
        rw [hl] at hvl
        exact hne hg (hv e.1 hvl)
      split
      · rename_i old adj' heq
        have h2 : (adj.remove e.1).2 = adj' := by rw [heq]
        rw [← h2]
        exact sub _ _ (hs.1.trans hl) hs.2 hkeep
      · rename_i adj' heq
        have h2 : (adj.remove e.1).2 = adj' := by rw [heq]
        rw [← h2]
        exact sub _ _ (hs.1.trans hl) hs.2 hkeep
    · exact sub adj _ hl rfl (fun _ => rfl)


theorem nodup_fst_inj (W : List (Ident × Val × Bool)) (h : (W.map (·.1)).Nodup) :
    ∀ e ∈ W, ∀ e0 ∈ W, e.1 = e0.1 → e = e0 := by
  induction W with
  | nil => intro e he; cases he
  | cons a W ih =>
    simp only [List.map_cons, List.nodup_cons, List.mem_map, not_exists, not_and] at h
    intro e he e0 he0 heq
    simp only [List.mem_cons] at he he0
    rcases he with he | he <;> rcases he0 with he0 | he0
    · rw [he, he0]
    · subst he; exact absurd heq.symm (h.1 e0 he0)
    · subst he0; exact absurd heq (h.1 e he)
    · exact ih h.2 e he e0 he0 heq

theorem throughForward_vis (sw : Switches) (hsw : sw.fwdCfgImplicit = false) (cfg : Cfg) (r : FwdRule) (b : Ident)
    (vis : Option Ident) (hv : ∀ n, viaLayers cfg.layers n = some b → some n = vis) :
    (throughForward sw cfg r).2 = false ∨
    ((throughForward sw cfg r).1.base = cfg.base ∧ (throughForward sw cfg r).1.explicit = cfg.explicit ∧
      ∀ n', viaLayers (throughForward sw cfg r).1.layers n' = some b → some n' = vis.bind (fwdName r)) := by
  unfold throughForward
  split
  · exact Or.inl rfl
  · refine Or.inr ⟨rfl, by simp [hsw], ?_⟩
    intro n' h
    cases hp : r.pfx with
    | none =>
      have fin : viaLayers cfg.layers n' = some b → some n' = vis.bind (fwdName r) := by
        intro hvl
        rw [← hv n' hvl]
        simp [fwdName, hp]
      cases hvis : r.vis with
      | all => simp only [hp, hvis] at h; exact fin h
      | allow vs fs =>
        simp only [hp, hvis, viaLayers] at h
        split at h
        · exact fin h
        · cases h
      | hide vs fs =>
        simp only [hp, hvis, viaLayers] at h
        split at h
        · exact fin h
        · cases h
    | some p =>
      have fin : viaLayers cfg.layers (p ++ n') = some b → some n' = vis.bind (fwdName r) := by
        intro hvl
        rw [← hv (p ++ n') hvl]
        have hpre : p.isPrefixOf (p ++ n') = true := by simp [List.isPrefixOf_iff_prefix]
        simp [fwdName, hp, hpre]
      cases hvis : r.vis with
      | all => simp only [hp, hvis, viaLayers] at h; exact fin h
      | allow vs fs =>
        simp only [hp, hvis, viaLayers] at h
        split at h
        · exact fin h
        · cases h
      | hide vs fs =>
        simp only [hp, hvis, viaLayers] at h
        split at h
        · exact fin h
        · cases h

/-- the heart of `@forward … with`: what `addForwardCfg`, the nested load and `removeUsed` do to the
    outer value under key `b` -/
theorem forwardWith_keeps (loadF : LoadF) (rec : Url → Option Ident → Bool) (hL : KeepsB loadF rec)
    (url : Url) (adj : Cfg) (W : List (Ident × Val × Bool)) (st : St) (b : Ident) (vis' : Option Ident)
    (hex : adj.explicit = true) (hv : ∀ m, viaLayers adj.layers m = some b → some m = vis')
    (hnd : (W.map (·.1)).Nodup)
    (hs : match vis' with
      | none => True
      | some n' => W.any (fun e => e.1 == n' && !e.2.2) = true ∨ rec url (some n') = true)
    (id : Nat) (new1 : Cfg) (hr : (loadF url (addForwardCfg adj W).2 st).res = .ok (id, new1))
    (hlo : ({ new1 with base := new1.base.filter fun e => (W.map (·.1)).contains e.1 } : Cfg).leftover = false) :
    (removeUsed (addForwardCfg adj W).1 new1 ((W.filter fun e => !e.2.2).map (·.1))).base.lookup b = adj.base.lookup b := by
  have lsp := loop_spec b adj.layers vis' hv W adj
    (adj.keys.filterMap fun k => (adj.get k).map fun v => (k, v)) rfl
  simp only [addForwardCfg] at hr ⊢
  generalize hloop : fwdCfgLoop W adj (adj.keys.filterMap fun k => (adj.get k).map fun v => (k, v)) = r at lsp hr ⊢
  obtain ⟨hl1, he1, hb1, hnv, hset⟩ := lsp
  have hnewex : (r.1.explicit || r.1.isEmpty) = true := by rw [he1, hex]; rfl
  -- the candidates for removal are names of the adjusted view
  unfold removeUsed
  simp only
  have fin : (∀ e ∈ W, e.2.2 = true → some e.1 ≠ vis') →
      (∀ n, n ∈ List.filter (fun n => !((W.filter fun e => !e.2.2).map (·.1)).contains n && !new1.keys.contains n) r.1.keys →
        viaLayers r.1.layers n ≠ some b ∨ r.1.base.lookup b = none) →
      (removeAll (List.filter (fun n => !((W.filter fun e => !e.2.2).map (·.1)).contains n && !new1.keys.contains n) r.1.keys) r.1).base.lookup b
        = adj.base.lookup b := by
    intro hg hall
    rw [(removeAll_keeps b _ r.1 hall).2.2]
    exact hb1 hg
  cases hvis : vis' with
  | none =>
    subst hvis
    apply fin
    · intro e _ _; simp
    · intro n _
      left
      rw [hl1]
      intro hvl
      have := hv n hvl
      cases this
  | some n' =>
    subst hvis
    simp only at hs
    by_cases hU : W.any (fun e => e.1 == n' && !e.2.2) = true
    · -- the clause sets the name itself
      simp only [List.any_eq_true, Bool.and_eq_true, beq_iff_eq, Bool.not_eq_true'] at hU
      obtain ⟨e0, he0, hn0, hg0⟩ := hU
      apply fin
      · intro e he hg hne
        have : e.1 = e0.1 := by simp only [Option.some.injEq] at hne; rw [hne, hn0]
        have := nodup_fst_inj W hnd e he e0 he0 this
        rw [this, hg0] at hg
        cases hg
      · intro n hn
        simp only [List.mem_filter, Bool.and_eq_true, Bool.not_eq_true'] at hn
        left
        rw [hl1]
        intro hvl
        have hnn : n = n' := by have := hv n hvl; simpa using this
        have : ((W.filter fun e => !e.2.2).map (·.1)).contains n = true := by
          simp only [List.contains_iff_mem, List.mem_map, List.mem_filter]
          exact ⟨e0, ⟨he0, by simp [hg0]⟩, by rw [hn0, hnn]⟩
        rw [this] at hn
        exact absurd hn.2.1 (by simp)
    · have hrec : rec url (some n') = true := by
        rcases hs with h | h
        · exact absurd h hU
        · exact h
      have hk := hL url ⟨r.2, [], r.1.explicit || r.1.isEmpty⟩ st n' (some n') id new1 hnewex
        (by intro m hm; simp only [viaLayers, Option.some.injEq] at hm; rw [hm]) hrec hr
      simp only at hk
      obtain ⟨hl2, he2, hb2⟩ := hk
      by_cases hG : ∃ e ∈ W, e.1 = n' ∧ e.2.2 = true
      · -- a `!default` entry took the outer value: the forwarded module cannot take it, so it is left over
        exfalso
        obtain ⟨e, he, hn, _⟩ := hG
        have hsome : (new1.base.lookup n').isSome = true := by rw [hb2, ← hn]; exact hset e he
        have hin : (W.map (·.1)).contains n' = true := by
          simp only [List.contains_iff_mem, List.mem_map]; exact ⟨e, he, hn⟩
        have hf := lookup_filter_fst new1.base (fun k => (W.map (·.1)).contains k) n' hin
        have hne : (new1.base.filter fun e => (W.map (·.1)).contains e.1).isEmpty = false := by
          cases hfl : new1.base.filter fun e => (W.map (·.1)).contains e.1 with
          | nil => rw [hfl] at hf; rw [← hf] at hsome; simp at hsome
          | cons _ _ => rfl
        have hE : new1.explicit = true := he2.trans hnewex
        simp only [Cfg.leftover, Cfg.isEmpty, hl2, layersEmpty, hne, hE] at hlo
        simp at hlo
      · -- the clause does not name it: the value is copied into the new configuration
        have hnot : ∀ e ∈ W, e.1 ≠ n' := by
          intro e he hn
          by_cases hg : e.2.2 = true
          · exact hG ⟨e, he, hn, hg⟩
          · apply hU
            simp only [List.any_eq_true, Bool.and_eq_true, beq_iff_eq, Bool.not_eq_true']
            exact ⟨e, he, hn, by simpa using hg⟩
        apply fin
        · intro e he _ hne
          simp only [Option.some.injEq] at hne
          exact hnot e he hne
        · intro n hn
          simp only [List.mem_filter, Bool.and_eq_true, Bool.not_eq_true'] at hn
          by_cases hvl : viaLayers r.1.layers n = some b
          · right
            rw [hl1] at hvl
            have hnn : n = n' := by have := hv n hvl; simpa using this
            subst hnn
            rw [hb1 (by intro e he _ hne; simp only [Option.some.injEq] at hne; exact hnot e he hne)]
            cases hlk : adj.base.lookup b with
            | none => rfl
            | some val =>
              exfalso
              have hkeys : n ∈ adj.keys := keys_complete adj.layers adj.base n b hvl (by simp [hlk])
              have hstart := lookup_filterMap_get adj.get adj.keys n hkeys
              have hget : adj.get n = some val := by simp [Cfg.get, hvl, hlk]
              have h1 : new1.base.lookup n = some val := by
                rw [hb2, hnv n hnot, hstart, hget]
              have : new1.keys.contains n = true := by
                simp only [Cfg.keys, hl2, layerKeys, List.contains_iff_mem]
                exact mem_keys_of_lookup _ _ (by simp [h1])
              rw [this] at hn
              exact absurd hn.2.2 (by simp)
          · exact Or.inl hvl


theorem step_keepsB (sw : Switches) (hsw : sw.fwdCfgImplicit = false) (loadF : LoadF) (rec : Url → Option Ident → Bool)
    (hL : KeepsB loadF rec) (s : Stmt) (env : Env) (cfg : Cfg) (st : St) (b : Ident) (vis : Option Ident)
    (hex : cfg.explicit = true) (hv : ∀ n, viaLayers cfg.layers n = some b → some n = vis)
    (hs : stmtKeeps rec vis s = true)
    (env' : Env) (cfg' : Cfg) (h : (step sw loadF s env cfg st).res = .ok (env', cfg')) :
    cfg'.layers = cfg.layers ∧ cfg'.explicit = cfg.explicit ∧ cfg'.base.lookup b = cfg.base.lookup b := by
  cases s with
  | var m v g =>
    cases g with
    | false => simp [step] at h; rw [← h.2]; exact ⟨rfl, rfl, rfl⟩
    | true =>
      have hne : viaLayers cfg.layers m ≠ some b := by
        intro he
        have := hv m he
        simp [stmtKeeps, ← this] at hs
      have hk : (cfg.remove m).2.layers = cfg.layers ∧ (cfg.remove m).2.explicit = cfg.explicit ∧
          (cfg.remove m).2.base.lookup b = cfg.base.lookup b :=
        ⟨(remove_shape cfg m).1, (remove_shape cfg m).2, remove_keeps cfg m b hne⟩
      simp only [step, if_true] at h
      generalize cfg.remove m = rm at h hk
      obtain ⟨ov, c2⟩ := rm
      simp only at hk
      cases ov with
      | some cv => simp only at h; cases h; exact hk
      | none =>
        simp only at h
        split at h <;> (cases h; exact hk)
  | fn m b' => simp [step] at h; rw [← h.2]; exact ⟨rfl, rfl, rfl⟩
  | mixin m => simp [step] at h; rw [← h.2]; exact ⟨rfl, rfl, rfl⟩
  | css => simp [step] at h; rw [← h.2]; exact ⟨rfl, rfl, rfl⟩
  | dbg => simp [step] at h; rw [← h.2]; exact ⟨rfl, rfl, rfl⟩
  | nested pid ctx n' v => simp [step] at h; rw [← h.2]; exact ⟨rfl, rfl, rfl⟩
  | use url ns withs =>
    simp only [step] at h
    repeat' split at h
    all_goals (first | cases h | skip)
    all_goals exact ⟨rfl, rfl, rfl⟩
  | forward url rule withs =>
    have htf := throughForward_vis sw hsw cfg rule b vis hv
    simp only [step] at h
    cases htfe : throughForward sw cfg rule with
    | mk adj shared =>
      rw [htfe] at htf h
      simp only at htf
      cases withs with
      | nil =>
        simp only [stmtKeeps] at hs
        simp only [List.isEmpty_nil, if_true] at h
        cases hr : (loadF url adj st).res with
        | error e => simp only [hr] at h; cases h
        | ok r =>
          obtain ⟨id, adj'⟩ := r
          simp only [hr] at h
          cases h
          cases shared with
          | false => exact ⟨rfl, rfl, rfl⟩
          | true =>
            rcases htf with hsf | ⟨hbase, hexp, hvis'⟩
            · cases hsf
            · have := hL url adj st b _ id adj' (hexp.trans hex) hvis' hs hr
              simp only [if_true, true_and]
              rw [this.2.2, hbase]
      | cons w ws =>
        simp only [stmtKeeps, Bool.and_eq_true, decide_eq_true_eq] at hs
        simp only [List.isEmpty_cons, Bool.false_eq_true, if_false] at h
        split at h
        · cases h
        · cases hr : (loadF url (addForwardCfg adj (w :: ws)).2 st).res with
          | error e => simp only [hr] at h; cases h
          | ok r =>
            obtain ⟨id, new1⟩ := r
            simp only [hr] at h
            split at h
            · cases h
            · rename_i hlo
              cases h
              cases shared with
              | false => exact ⟨rfl, rfl, rfl⟩
              | true =>
                rcases htf with hsf | ⟨hbase, hexp, hvis'⟩
                · cases hsf
                · have hs2 : match vis.bind (fwdName rule) with
                      | none => True
                      | some n' => (w :: ws).any (fun e => e.1 == n' && !e.2.2) = true ∨ rec url (some n') = true := by
                    have := hs.2
                    cases hvb : vis.bind (fwdName rule) with
                    | none => trivial
                    | some n' => simpa [hvb] using this
                  have := forwardWith_keeps loadF rec hL url adj (w :: ws) st b _ (hexp.trans hex) hvis' hs.1 hs2 id new1 hr
                    (by simpa using hlo)
                  simp only [if_true, true_and]
                  rw [this, hbase]
  | assign ns m v g =>
    simp only [step] at h
    repeat' split at h
    all_goals (first | cases h | skip)
    all_goals exact ⟨rfl, rfl, rfl⟩
  | probe pid g k ns m =>
    simp only [step] at h
    repeat' split at h
    all_goals (first | cases h | skip)
    all_goals exact ⟨rfl, rfl, rfl⟩
  | pkeys pid k ns =>
    simp only [step] at h
    repeat' split at h
    all_goals (first | cases h | skip)
    all_goals exact ⟨rfl, rfl, rfl⟩
  | fail e => simp [step] at h
  | loadCssSpec url withs =>
    simp only [step] at h
    repeat' split at h
    all_goals (first | cases h | skip)
    all_goals exact ⟨rfl, rfl, rfl⟩

theorem evalStmts_keepsB (sw : Switches) (hsw : sw.fwdCfgImplicit = false) (loadF : LoadF)
    (rec : Url → Option Ident → Bool) (hL : KeepsB loadF rec) (b : Ident) (vis : Option Ident) :
    ∀ (ss : List Stmt), (∀ s ∈ ss, stmtKeeps rec vis s = true) → ∀ (env : Env) (cfg : Cfg) (st : St),
      cfg.explicit = true → (∀ n, viaLayers cfg.layers n = some b → some n = vis) → ∀ (env' : Env) (cfg' : Cfg),
      (evalStmts sw loadF ss env cfg st).res = .ok (env', cfg') →
      cfg'.layers = cfg.layers ∧ cfg'.explicit = cfg.explicit ∧ cfg'.base.lookup b = cfg.base.lookup b := by
  intro ss
  induction ss with
  | nil => intro _ env cfg st _ _ env' cfg' h; unfold evalStmts at h; cases h; exact ⟨rfl, rfl, rfl⟩
  | cons s rest ih =>
    intro hk env cfg st hex hv env' cfg' h
    simp only [evalStmts] at h
    cases hs : (step sw loadF s env cfg st).res with
    | error e => simp only [hs] at h; cases h
    | ok r1 =>
      obtain ⟨env1, cfg1⟩ := r1
      simp only [hs] at h
      have h1 := step_keepsB sw hsw loadF rec hL s env cfg st b vis hex hv (hk s (by simp)) env1 cfg1 hs
      have := ih (fun s hs => hk s (by simp [hs])) env1 cfg1 _ (h1.2.1.trans hex) (by rw [h1.1]; exact hv) env' cfg' h
      exact ⟨this.1.trans h1.1, this.2.1.trans h1.2.1, this.2.2.trans h1.2.2⟩

theorem load_keepsB (sw : Switches) (hsw : sw.fwdCfgImplicit = false) (proj : Project) :
    ∀ (fuel d : Nat), KeepsB (load sw proj fuel) (cannotConsume proj d) := by
  intro fuel
  induction fuel with
  | zero => intro d url cfg st b vis id cfg' _ _ _ h; simp [load] at h
  | succ fuel ih =>
    intro d url cfg st b vis id cfg' hex hv hc h
    cases d with
    | zero => simp [cannotConsume] at hc
    | succ d =>
      revert h
      simp only [load]
      cases hres : resolve proj url with
      | none => intro h; cases h
      | some src =>
        simp only [cannotConsume, hres, List.all_eq_true] at hc
        simp only
        split
        · intro h; cases h
        · split
          · intro h; cases h
          · split
            · intro h; cases h; exact ⟨rfl, rfl, rfl⟩
            · generalize ho : evalStmts sw (load sw proj fuel) src.body (Env.new src.name) cfg _ = o
              cases hr : o.res with
              | error e => intro h; cases h
              | ok r1 =>
                obtain ⟨env1, cfg1⟩ := r1
                intro h
                cases h
                exact evalStmts_keepsB sw hsw (load sw proj fuel) (cannotConsume proj d) (ih d) b vis src.body hc
                  (Env.new src.name) cfg _ hex hv env1 cfg' (by rw [ho]; exact hr)

end Grass.Module
