import Grass.Selector
/-
  Helper lemmas about the matching semantics of Grass/Selector.lean (used by C11 and C10).
-/
namespace Grass.Selector

theorem mComp_eq_all (c : Compound) (p : Ctx) : mComp c p = c.all (fun s => mSimple s p) := by
  induction c with
  | nil => simp [mComp]
  | cons s ss ih => simp [mComp, ih]

theorem mArgs_eq_any (l : List RComplex) (p : Ctx) :
    mArgs l p = l.any (fun r => mComp r.1 p && mSteps r.2 p) := by
  induction l with
  | nil => simp [mArgs]
  | cons r rs ih => obtain ⟨t, rest⟩ := r; simp [mArgs, ih]

theorem mComp_append (a b : Compound) (p : Ctx) : mComp (a ++ b) p = (mComp a p && mComp b p) := by
  simp [mComp_eq_all, List.all_append]

theorem mComp_mem {c : Compound} {p : Ctx} (h : mComp c p = true) {s : Simple} (hs : s ∈ c) :
    mSimple s p = true := by
  rw [mComp_eq_all] at h
  exact (List.all_eq_true.1 h) s hs

/-- `SimpleSelector::is_super_selector_of_compound` is sound -/
theorem simpleSuperOfCompound_sound (s : Simple) (B : Compound) (p : Ctx)
    (h : simpleSuperOfCompound s B = true) (hB : mComp B p = true) : mSimple s p = true := by
  unfold simpleSuperOfCompound at h
  rw [List.any_eq_true] at h
  obtain ⟨t, ht, h⟩ := h
  have htp := mComp_mem hB ht
  rw [Bool.or_eq_true] at h
  rcases h with h | h
  · have : s = t := by simpa using h
    subst this; exact htp
  · cases t with
    | sel k arg =>
      simp only [Bool.and_eq_true, List.all_eq_true] at h
      obtain ⟨hk, harg⟩ := h
      have hm : mArgs arg p = true := by
        cases k <;> simp_all [mSimple]
      rw [mArgs_eq_any, List.any_eq_true] at hm
      obtain ⟨r, hr, hrm⟩ := hm
      have := harg r hr
      simp only [Bool.and_eq_true, List.contains_iff_mem] at this hrm
      exact mComp_mem hrm.1 (by simpa using this.2)
    | _ => simp at h


/-! ### unification -/

theorem insertBeforePseudo_sem (s : Simple) (p : Ctx) :
    ∀ (comp : Compound) (added : Bool),
      mComp (insertBeforePseudo s comp added) p = ((added || mSimple s p) && mComp comp p) := by
  intro comp
  induction comp with
  | nil => intro added; cases added <;> simp [insertBeforePseudo, mComp]
  | cons t rest ih =>
    intro added
    unfold insertBeforePseudo
    split
    · rename_i h
      simp only [Bool.and_eq_true, Bool.not_eq_true'] at h
      simp [mComp, ih, h.1]
    · simp only [mComp, ih]
      cases added <;> cases mSimple s p <;> cases mSimple t p <;> simp

theorem insertBeforePseudo_ne_nil (s : Simple) : ∀ (comp : Compound), insertBeforePseudo s comp false ≠ [] := by
  intro comp
  cases comp with
  | nil => simp [insertBeforePseudo]
  | cons t rest => unfold insertBeforePseudo; split <;> simp

theorem pseudoLoop_sem (s : Simple) (p : Ctx) :
    ∀ (comp : Compound) (added : Bool) (r : Compound), pseudoLoop s comp added = some r →
      (mComp r p = true → mComp comp p = true ∧ (added = false → mSimple s p = true)) ∧
      (mSimple s p = true → mComp comp p = true → mComp r p = true) ∧ r ≠ [] ∨ (added = true ∧ comp = [] ∧ r = []) := by
  intro comp
  induction comp with
  | nil =>
    intro added r h
    cases added <;> simp [pseudoLoop] at h <;> subst h <;> simp [mComp]
  | cons t rest ih =>
    intro added r h
    left
    unfold pseudoLoop at h
    split at h
    · split at h
      · cases h
      · cases hr : pseudoLoop s rest true with
        | none => simp [hr] at h
        | some r' =>
          simp [hr] at h; subst h
          rcases ih true r' hr with ⟨h1, h2, _⟩ | ⟨_, h2, h3⟩
          · refine ⟨?_, ?_, by simp⟩
            · intro hm; simp only [mComp, Bool.and_eq_true] at hm
              have := h1 hm.2.2
              simp [mComp, hm.1, hm.2.1, this.1]
            · intro hs hc; simp only [mComp, Bool.and_eq_true] at hc
              simp [mComp, hs, hc.1, h2 hs hc.2]
          · subst h2 h3
            refine ⟨?_, ?_, by simp⟩
            · intro hm; simp only [mComp, Bool.and_eq_true] at hm; simp [mComp, hm.1, hm.2.1]
            · intro hs hc; simp only [mComp, Bool.and_eq_true] at hc; simp [mComp, hs, hc.1]
    · cases hr : pseudoLoop s rest added with
      | none => simp [hr] at h
      | some r' =>
        simp [hr] at h; subst h
        rcases ih added r' hr with ⟨h1, h2, _⟩ | ⟨h1, h2, h3⟩
        · refine ⟨?_, ?_, by simp⟩
          · intro hm; simp only [mComp, Bool.and_eq_true] at hm
            have := h1 hm.2
            exact ⟨by simp [mComp, hm.1, this.1], this.2⟩
          · intro hs hc; simp only [mComp, Bool.and_eq_true] at hc
            simp [mComp, hc.1, h2 hs hc.2]
        · subst h1 h2 h3
          refine ⟨?_, ?_, by simp⟩
          · intro hm; simp only [mComp, Bool.and_eq_true] at hm; exact ⟨by simp [mComp, hm.1], by simp⟩
          · intro hs hc; simpa [mComp] using hc

theorem pseudoLoop_none (s : Simple) :
    ∀ (comp : Compound) (added : Bool), pseudoLoop s comp added = none →
      s.isPelem = true ∧ ∃ t ∈ comp, t.isPelem = true := by
  intro comp
  induction comp with
  | nil => intro added h; simp [pseudoLoop] at h
  | cons t rest ih =>
    intro added h
    unfold pseudoLoop at h
    split at h
    · rename_i ht
      split at h
      · rename_i hs; exact ⟨hs, t, by simp, ht⟩
      · cases hr : pseudoLoop s rest true with
        | none => obtain ⟨a, u, hu, b⟩ := ih true hr; exact ⟨a, u, by simp [hu], b⟩
        | some r' => simp [hr] at h
    · cases hr : pseudoLoop s rest added with
      | none => obtain ⟨a, u, hu, b⟩ := ih added hr; exact ⟨a, u, by simp [hu], b⟩
      | some r' => simp [hr] at h

theorem pelem_clash {s t : Simple} {p : Ctx} (hs : s.isPelem = true) (ht : t.isPelem = true) (hne : s ≠ t) :
    (mSimple s p && mSimple t p) = false := by
  cases s <;> simp [Simple.isPelem] at hs
  cases t <;> simp [Simple.isPelem] at ht
  rename_i a b
  have : a ≠ b := fun e => hne (by rw [e])
  simp only [mSimple]
  cases h1 : decide (p.cur.el.pe = some a) <;> cases h2 : decide (p.cur.el.pe = some b) <;> simp_all

theorem unifyUnivAndElement_sem (s h r : Simple) (p : Ctx) (e : unifyUnivAndElement s h = some r) :
    mSimple r p = (mSimple s p && mSimple h p) := by
  cases s <;> cases h <;> simp [unifyUnivAndElement] at e
  all_goals (try (subst e; simp [mSimple]))
  obtain ⟨e1, e2⟩ := e; subst e1 e2; simp [mSimple]

theorem unifyUnivAndElement_none (s h : Simple) (p : Ctx) (hs : s.isUniv = true ∨ s.isType = true)
    (hh : (h.isUniv || h.isType) = true) (e : unifyUnivAndElement s h = none) :
    (mSimple s p && mSimple h p) = false := by
  cases s <;> simp [Simple.isUniv, Simple.isType] at hs <;>
  cases h <;> simp [Simple.isUniv, Simple.isType] at hh <;> simp [unifyUnivAndElement] at e
  rename_i a b
  simp only [mSimple]
  cases h1 : decide (p.cur.el.type = a) <;> cases h2 : decide (p.cur.el.type = b) <;> simp_all

theorem unifySimple_sem (s : Simple) (comp r : Compound) (p : Ctx) (h : unifySimple s comp = some r) :
    mComp r p = (mSimple s p && mComp comp p) ∧ r ≠ [] := by
  have hdef : ∀ r, unifyDefault s comp = some r → mComp r p = (mSimple s p && mComp comp p) ∧ r ≠ [] := by
    intro r h
    unfold unifyDefault at h
    split at h
    · cases h; simp [mComp, mSimple]
    · split at h
      · rename_i hc
        cases h
        have hm : s ∈ comp := by simpa using hc
        refine ⟨?_, List.ne_nil_of_mem hm⟩
        cases hcp : mComp comp p
        · simp
        · simp [mComp_mem hcp hm]
      · cases h
        exact ⟨by simp [insertBeforePseudo_sem], insertBeforePseudo_ne_nil s comp⟩
  have hps : ∀ r, unifyPseudo s comp = some r → mComp r p = (mSimple s p && mComp comp p) ∧ r ≠ [] := by
    intro r h
    unfold unifyPseudo at h
    split at h
    · cases h; simp [mComp, mSimple]
    · split at h
      · rename_i hc
        cases h
        have hm : s ∈ comp := by simpa using hc
        refine ⟨?_, List.ne_nil_of_mem hm⟩
        cases hcp : mComp comp p
        · simp
        · simp [mComp_mem hcp hm]
      · rcases pseudoLoop_sem s p comp false r h with ⟨h1, h2, h3⟩ | ⟨h1, _, _⟩
        · refine ⟨?_, h3⟩
          cases hr : mComp r p
          · cases hs : mSimple s p <;> cases hc : mComp comp p <;> simp
            have := h2 hs hc; simp [hr] at this
          · have := h1 hr; simp [this.1, this.2 rfl]
        · cases h1
  have hty : ∀ r, s.isUniv = true ∨ s.isType = true →
      ((match comp with
        | [] => none
        | h :: tl => if (h.isUniv || h.isType) = true then (unifyUnivAndElement s h).map (· :: tl) else some (if s.isType then s :: comp else comp)) = some r) →
      mComp r p = (mSimple s p && mComp comp p) ∧ r ≠ [] := by
    intro r hs h
    cases comp with
    | nil => simp at h
    | cons hd tl =>
      simp only at h
      split at h
      · cases hu : unifyUnivAndElement s hd with
        | none => simp [hu] at h
        | some u =>
          simp [hu] at h; subst h
          simp [mComp, unifyUnivAndElement_sem s hd u p hu, Bool.and_assoc]
      · cases h
        split
        · simp [mComp]
        · rcases hs with hs | hs
          · cases s <;> simp [Simple.isUniv] at hs; simp [mComp, mSimple]
          · simp_all
  cases s with
  | type n =>
    apply hty r (Or.inr rfl)
    simp only [unifySimple, unifyType] at h
    cases comp <;> simp_all [Simple.isType]
  | univ =>
    apply hty r (Or.inl rfl)
    simp only [unifySimple, unifyUniversal] at h
    cases comp <;> simp_all [Simple.isType]
  | pclass n => exact hps r h
  | pelem n => exact hps r h
  | sel k a => exact hps r h
  | id n =>
    simp only [unifySimple] at h
    split at h
    · cases h
    · exact hdef r h
  | cls n => exact hdef r h
  | attr n v => exact hdef r h
  | placeholder n => exact hdef r h
  | parent sfx => exact hdef r h


theorem id_clash {s t : Simple} {p : Ctx} (hs : s.isId = true) (ht : t.isId = true) (hne : t ≠ s) :
    (mSimple s p && mSimple t p) = false := by
  cases s <;> simp [Simple.isId] at hs
  cases t <;> simp [Simple.isId] at ht
  rename_i a b
  have : a ≠ b := fun e => hne (by rw [e])
  simp only [mSimple]
  cases h1 : decide (p.cur.el.id = some a) <;> cases h2 : decide (p.cur.el.id = some b) <;> simp_all

theorem conj_false_of_mem {s t : Simple} {comp : Compound} {p : Ctx} (ht : t ∈ comp)
    (h : (mSimple s p && mSimple t p) = false) : (mSimple s p && mComp comp p) = false := by
  cases hs : mSimple s p
  · simp
  · cases hc : mComp comp p
    · simp
    · have := mComp_mem hc ht; simp [hs, this] at h

/-- `unify` answers `none` only for the type / id / pseudo-element clashes, and then no element is
    matched by both operands -/
theorem unifySimple_none (s : Simple) (comp : Compound) (p : Ctx) (hne : comp ≠ [])
    (h : unifySimple s comp = none) : (mSimple s p && mComp comp p) = false := by
  have hdef : unifyDefault s comp = none → False := by
    intro h; unfold unifyDefault at h; split at h
    · cases h
    · split at h <;> cases h
  have hps : unifyPseudo s comp = none → (mSimple s p && mComp comp p) = false := by
    intro h
    unfold unifyPseudo at h
    split at h
    · cases h
    · split at h
      · cases h
      · rename_i hc
        obtain ⟨hs, t, ht, htp⟩ := pseudoLoop_none s comp false h
        have hne' : s ≠ t := by
          intro e; subst e; exact hc (by simpa using ht)
        exact conj_false_of_mem ht (pelem_clash hs htp hne')
  have hty : (s.isUniv = true ∨ s.isType = true) →
      (∀ hd tl, comp = hd :: tl → (hd.isUniv || hd.isType) = true ∧ unifyUnivAndElement s hd = none) →
      (mSimple s p && mComp comp p) = false := by
    intro hs h
    cases comp with
    | nil => exact absurd rfl hne
    | cons hd tl =>
      obtain ⟨h1, h2⟩ := h hd tl rfl
      exact conj_false_of_mem (by simp) (unifyUnivAndElement_none s hd p hs h1 h2)
  cases s with
  | type n =>
    apply hty (Or.inr rfl)
    intro hd tl e; subst e
    simp only [unifySimple, unifyType] at h
    split at h
    · rename_i hh; refine ⟨hh, ?_⟩
      cases hu : unifyUnivAndElement (.type n) hd <;> simp_all
    · cases h
  | univ =>
    apply hty (Or.inl rfl)
    intro hd tl e; subst e
    simp only [unifySimple, unifyUniversal] at h
    split at h
    · rename_i hh; refine ⟨hh, ?_⟩
      cases hu : unifyUnivAndElement .univ hd <;> simp_all
    · cases h
  | pclass n => exact hps h
  | pelem n => exact hps h
  | sel k a => exact hps h
  | id n =>
    simp only [unifySimple] at h
    split at h
    · rename_i hc
      rw [List.any_eq_true] at hc
      obtain ⟨t, ht, hc⟩ := hc
      simp only [Bool.and_eq_true, decide_eq_true_eq] at hc
      exact conj_false_of_mem ht (id_clash rfl hc.1 hc.2)
    · exact absurd h (fun h => hdef h)
  | cls n => exact absurd h (fun h => hdef h)
  | attr n v => exact absurd h (fun h => hdef h)
  | placeholder n => exact absurd h (fun h => hdef h)
  | parent sfx => exact absurd h (fun h => hdef h)

theorem unifyCompound_sem (p : Ctx) :
    ∀ (A B C : Compound), unifyCompound A B = some C → mComp C p = (mComp A p && mComp B p) := by
  intro A
  induction A with
  | nil => intro B C h; simp [unifyCompound] at h; subst h; simp [mComp]
  | cons s A ih =>
    intro B C h
    unfold unifyCompound at h
    split at h
    · rename_i B' hB
      rw [ih B' C h, (unifySimple_sem s B B' p hB).1]
      simp only [mComp]
      cases mSimple s p <;> cases mComp A p <;> simp
    · cases h

theorem unifyCompound_none (p : Ctx) :
    ∀ (A B : Compound), B ≠ [] → unifyCompound A B = none → (mComp A p && mComp B p) = false := by
  intro A
  induction A with
  | nil => intro B _ h; simp [unifyCompound] at h
  | cons s A ih =>
    intro B hB h
    unfold unifyCompound at h
    split at h
    · rename_i B' hB'
      have h1 := unifySimple_sem s B B' p hB'
      have := ih B' h1.2 h
      rw [h1.1] at this
      simp only [mComp]
      cases hs : mSimple s p <;> cases ha : mComp A p <;> cases hb : mComp B p <;> simp_all
    · rename_i hn
      have := unifySimple_none s B p hB hn
      simp only [mComp]
      cases hs : mSimple s p <;> cases ha : mComp A p <;> cases hb : mComp B p <;> simp_all

end Grass.Selector
