import GrassProofs.Lemmas.CssTreeBubble
/-
  Helper lemmas for C04: what the mutating `CssTree::finish` (css_tree.rs:43, `apply_children` :63,
  `add_child_to_parent` :80) returns on ANY well-formed index tree (`Good`: parents are created before
  their children, child lists and parent pointers agree, declarations are leaves) — the statements
  whose parent is ROOT, in index order, each with the statements nested below it in child-list
  order (`nestedTop`).  No assumption on kinds or depth; trees with `link_child_to_parent`
  (@at-root copies, parent index > child index) are outside `Good`.
  Property theorems live in GrassProofs/C04.lean.
-/
namespace Grass.CssTree

def pushSub (g : Nat → Option Css) (acc : CssList) (c : Nat) : CssList :=
  match g c with
  | some x => acc.snoc x
  | none => acc

/-- the statement nested below node `i` (fuel = bound on the depth) -/
def subF (t : Tree) : Nat → Nat → Option Css
  | 0, _ => none
  | f + 1, i =>
    match kindAt t i with
    | none => none
    | some k => some (.mk k ((childrenOf t i).foldl (pushSub (fun c => subF t f c)) .nil))

/-- the nested reading of an index tree: children of ROOT in index order -/
def nestedTop (t : Tree) : List Css :=
  (List.range t.length).filterMap (fun j => if parentOf t j = some 0 then subF t t.length j else none)

/-- `a` is `j` or an ancestor of `j` -/
inductive Desc (t : Tree) (a : Nat) : Nat → Prop
  | refl : Desc t a a
  | step (j g : Nat) : parentOf t j = some g → Desc t a g → Desc t a j

theorem desc_le (t : Tree) (gd : Good t) (a j : Nat) (h : Desc t a j) : a ≤ j := by
  induction h with
  | refl => exact Nat.le_refl _
  | step j g hg _ ih => have := gd.po j g hg; omega

theorem desc_lt_len (t : Tree) (a j : Nat) (h : Desc t a j) (ha : a < t.length) : j < t.length := by
  induction h with
  | refl => exact ha
  | step j g hg _ _ =>
    rcases Nat.lt_or_ge j t.length with h | h
    · exact h
    · rw [parentOf_none_of_ge t j h] at hg; cases hg

theorem desc_trans (t : Tree) (a b j : Nat) (h1 : Desc t a b) (h2 : Desc t b j) : Desc t a j := by
  induction h2 with
  | refl => exact h1
  | step j g hg _ ih => exact .step j g hg ih

theorem desc_child (t : Tree) (c j : Nat) (h : Desc t c j) (hne : j ≠ c) :
    ∃ c', parentOf t c' = some c ∧ Desc t c' j := by
  induction h with
  | refl => exact absurd rfl hne
  | step j g hg hd ih =>
    by_cases hgc : g = c
    · subst hgc; exact ⟨j, hg, .refl⟩
    · obtain ⟨c', h1, h2⟩ := ih hgc
      exact ⟨c', h1, .step j g hg h2⟩

/-- the subtrees of two different children of the same node are disjoint -/
theorem desc_disjoint (t : Tree) (gd : Good t) (c c' p : Nat) (hc : parentOf t c = some p)
    (hc' : parentOf t c' = some p) (hne : c ≠ c') (j : Nat) (h1 : Desc t c j) (h2 : Desc t c' j) : False := by
  induction h1 with
  | refl =>
    cases h2 with
    | refl => exact hne rfl
    | step _ g hg hd =>
      rw [hc] at hg; injection hg with hg; subst hg
      have := desc_le t gd c' _ hd; have := gd.po c' _ hc'; omega
  | step j g hg hd ih =>
    cases h2 with
    | refl =>
      rw [hc'] at hg; injection hg with hg; subst hg
      have := desc_le t gd c _ hd; have := gd.po c _ hc; omega
    | step _ g' hg' hd' =>
      rw [hg] at hg'; injection hg' with hg'; subst hg'
      exact ih hd'

theorem desc_leaf (t : Tree) (gd : Good t) (c j : Nat) (hleaf : childrenOf t c = []) (h : Desc t c j) : j = c := by
  induction h with
  | refl => rfl
  | step j g hg _ ih =>
    subst ih
    have := gd.pc j g hg
    rw [hleaf] at this; cases this

theorem top_exists (t : Tree) (gd : Good t) : ∀ j, 0 < j → j < t.length → ∃ a, parentOf t a = some 0 ∧ Desc t a j := by
  intro j
  induction j using Nat.strongRecOn with
  | _ j ih =>
    intro h0 hl
    obtain ⟨g, hg⟩ := gd.pars j h0 hl
    by_cases hg0 : g = 0
    · subst hg0; exact ⟨j, hg, .refl⟩
    · have := gd.po j g hg
      obtain ⟨a, h1, h2⟩ := ih g this (by omega) (by omega)
      exact ⟨a, h1, .step j g hg h2⟩

/-! ### one `stmts[child].take()` + `add_child_to_parent` -/

theorem takeInto_node (s : FState) (c p : Nat) (x : Css) (k : Kind) (b : CssList)
    (hk : ∀ n v, k ≠ .decl n v) (hc : s[c]? = some (some x)) (hp : s[p]? = some (some (.mk k b))) :
    takeInto s c p = some ((s.set c none).set p (some (.mk k (b.snoc x)))) := by
  unfold takeInto
  rw [hc]
  simp only
  rw [hp]
  cases k with
  | decl n v => exact absurd rfl (hk n v)
  | rule sel => simp [Css.push]
  | media q => simp [Css.push]
  | supports q => simp [Css.push]
  | unknown a b => simp [Css.push]

def proc (t : Tree) (f c : Nat) (s : FState) : Option FState :=
  if hasChildren t c then applyChildren t f c s else some s

def acStep (t : Tree) (f p : Nat) (s : FState) (c : Nat) : Option FState :=
  match proc t f c s with
  | none => none
  | some s1 => takeInto s1 c p

theorem applyChildren_succ (t : Tree) (f p : Nat) (s : FState) :
    applyChildren t (f + 1) p s = (childrenOf t p).foldlM (acStep t f p) s := rfl

/-- `stmts[j]` has not been touched yet -/
def Fresh (t : Tree) (s : FState) (j : Nat) : Prop := s[j]? = some ((kindAt t j).map (Css.mk · .nil))

/-- node `c` has been completed in `s'` (from `s`): it carries everything nested below it, its
    proper descendants are taken, nothing else has changed -/
structure Done (t : Tree) (f : Nat) (s s' : FState) (c : Nat) : Prop where
  len : s'.length = s.length
  self : s'[c]? = some (subF t f c)
  below : ∀ j, Desc t c j → j ≠ c → s'[j]? = some none
  frame : ∀ j, ¬ Desc t c j → s'[j]? = s[j]?

def PSpec (t : Tree) (f : Nat) : Prop :=
  ∀ c s, 0 < c → c < t.length → t.length ≤ c + f → (∀ j, Desc t c j → Fresh t s j) →
    ∃ s1, proc t f c s = some s1 ∧ Done t f s s1 c

/-- the `for &child in children` loop of `apply_children` for parent `p` -/
theorem inner (t : Tree) (gd : Good t) (f : Nat) (hP : PSpec t f) (p : Nat) (k : Kind) (hk : ∀ n v, k ≠ .decl n v)
    (hpl : p < t.length) (hfuel : t.length ≤ p + f + 1) :
    ∀ (cs : List Nat) (s : FState) (b : CssList),
      (∀ c ∈ cs, parentOf t c = some p) → cs.Nodup → s[p]? = some (some (.mk k b)) →
      (∀ c ∈ cs, ∀ j, Desc t c j → Fresh t s j) →
      ∃ s', cs.foldlM (acStep t f p) s = some s' ∧ s'.length = s.length ∧
        s'[p]? = some (some (.mk k (cs.foldl (pushSub (fun c => subF t f c)) b))) ∧
        (∀ c ∈ cs, ∀ j, Desc t c j → s'[j]? = some none) ∧
        (∀ j, j ≠ p → (∀ c ∈ cs, ¬ Desc t c j) → s'[j]? = s[j]?)
  | [], s, b, _, _, hp, _ => ⟨s, rfl, rfl, by simpa using hp, by simp, fun _ _ _ => rfl⟩
  | c :: cs, s, b, hpar, hnd, hp, hfr => by
    have hcp := hpar c (by simp)
    have hpc : p < c := gd.po c p hcp
    have hcl : c < t.length := gd.cv p c (gd.pc c p hcp)
    simp only [List.nodup_cons] at hnd
    obtain ⟨s1, hproc, d1⟩ := hP c s (by omega) hcl (by omega) (hfr c (by simp))
    obtain ⟨kc, hkc⟩ := gd.kinds c (by omega) hcl
    obtain ⟨f', hf'⟩ : ∃ f', f = f' + 1 := ⟨f - 1, by omega⟩
    obtain ⟨x, hx⟩ : ∃ x, subF t f c = some x := by
      rw [hf']; simp only [subF, hkc]; exact ⟨_, rfl⟩
    have hnd_cp : ¬ Desc t c p := fun h => by have := desc_le t gd c p h; omega
    have h1c : s1[c]? = some (some x) := by rw [d1.self, hx]
    have h1p : s1[p]? = some (some (.mk k b)) := by rw [d1.frame p hnd_cp]; exact hp
    have htake := takeInto_node s1 c p x k b hk h1c h1p
    have hstep : acStep t f p s c = some ((s1.set c none).set p (some (.mk k (b.snoc x)))) := by
      simp only [acStep, hproc]; exact htake
    have hplen : p < s1.length := by
      rcases Nat.lt_or_ge p s1.length with h | h
      · exact h
      · rw [List.getElem?_eq_none h] at h1p; cases h1p
    have hclen : c < s1.length := by
      rcases Nat.lt_or_ge c s1.length with h | h
      · exact h
      · rw [List.getElem?_eq_none h] at h1c; cases h1c
    let s2 := (s1.set c none).set p (some (.mk k (b.snoc x)))
    have h2p : s2[p]? = some (some (.mk k (b.snoc x))) := by simp [s2, hplen]
    have h2other : ∀ j, j ≠ p → j ≠ c → s2[j]? = s1[j]? := by
      intro j h1 h2
      simp only [s2, List.getElem?_set]
      rw [if_neg (Ne.symm h1), if_neg (Ne.symm h2)]
    have hfr2 : ∀ c' ∈ cs, ∀ j, Desc t c' j → Fresh t s2 j := by
      intro c' hc' j hd
      have hc'p := hpar c' (by simp [hc'])
      have hne : c ≠ c' := fun h => hnd.1 (h ▸ hc')
      have hjp : j ≠ p := by have := desc_le t gd c' j hd; have := gd.po c' p hc'p; omega
      have hjc : j ≠ c := by
        intro h; subst h
        exact desc_disjoint t gd j c' p hcp hc'p hne j .refl hd
      have hndj : ¬ Desc t c j := fun h => desc_disjoint t gd c c' p hcp hc'p hne j h hd
      unfold Fresh
      rw [h2other j hjp hjc, d1.frame j hndj]
      exact hfr c' (by simp [hc']) j hd
    obtain ⟨s', hfold, hlen, hsp, hbelow, hframe⟩ := inner t gd f hP p k hk hpl hfuel cs s2 (b.snoc x)
      (fun c' h => hpar c' (by simp [h])) hnd.2 h2p hfr2
    refine ⟨s', ?_, ?_, ?_, ?_, ?_⟩
    · simp only [List.foldlM_cons, hstep]; exact hfold
    · rw [hlen]; simp [s2, d1.len]
    · rw [hsp]; simp only [List.foldl_cons, pushSub, hx]
    · intro c0 hc0 j hd
      simp only [List.mem_cons] at hc0
      rcases hc0 with h | hc0
      · subst h
        have hjp : j ≠ p := by have := desc_le t gd c0 j hd; omega
        have hno : ∀ c' ∈ cs, ¬ Desc t c' j := by
          intro c' hc' h
          exact desc_disjoint t gd c0 c' p hcp (hpar c' (by simp [hc'])) (fun h => hnd.1 (h ▸ hc')) j hd h
        rw [hframe j hjp hno]
        by_cases hjc : j = c0
        · subst hjc
          simp only [s2, List.getElem?_set]
          rw [if_neg (Ne.symm hjp)]
          simp [hclen]
        · rw [h2other j hjp hjc]; exact d1.below j hd hjc
      · exact hbelow c0 hc0 j hd
    · intro j hjp hno
      have hjc : j ≠ c := fun h => hno c (by simp) (h ▸ .refl)
      rw [hframe j hjp (fun c' hc' => hno c' (by simp [hc'])), h2other j hjp hjc, d1.frame j (hno c (by simp))]

/-- `apply_children` on a node whose whole subtree is untouched -/
theorem pspec_all (t : Tree) (gd : Good t) : ∀ f, PSpec t f
  | 0 => by intro c s _ hcl hfu _; omega
  | f + 1 => by
    intro c s hc0 hcl hfu hfr
    obtain ⟨kc, hkc⟩ := gd.kinds c hc0 hcl
    have hself : s[c]? = some (some (.mk kc .nil)) := by
      have := hfr c .refl
      unfold Fresh at this; rw [this, hkc]; rfl
    by_cases hch : hasChildren t c = true
    · have hne : childrenOf t c ≠ [] := by
        intro h; simp [hasChildren, h] at hch
      have hk : ∀ n v, kc ≠ .decl n v := by
        obtain ⟨c', hc'⟩ := List.exists_mem_of_ne_nil _ hne
        intro n v h; subst h; exact gd.ndp c c' hc' n v hkc
      obtain ⟨s', hfold, hlen, hsc, hbelow, hframe⟩ := inner t gd f (pspec_all t gd f) c kc hk hcl (by omega)
        (childrenOf t c) s .nil (fun c' h => gd.cp c c' h) (gd.cnd c) hself
        (fun c' h j hd => hfr j (desc_trans t c c' j (.step c' c (gd.cp c c' h) .refl) hd))
      refine ⟨s', ?_, hlen, ?_, ?_, ?_⟩
      · simp only [proc, hch, if_true, applyChildren_succ]; exact hfold
      · rw [hsc]; simp only [subF, hkc]
      · intro j hd hne
        obtain ⟨c', h1, h2⟩ := desc_child t c j hd hne
        exact hbelow c' (gd.pc c' c h1) j h2
      · intro j hnd
        have hjc : j ≠ c := fun h => hnd (h ▸ .refl)
        exact hframe j hjc (fun c' hc' h => hnd (desc_trans t c c' j (.step c' c (gd.cp c c' hc') .refl) h))
    · have hch' : hasChildren t c = false := by simpa using hch
      have hnil : childrenOf t c = [] := by
        cases h : childrenOf t c with
        | nil => rfl
        | cons a as => simp [hasChildren, h] at hch'
      refine ⟨s, by simp [proc, hch'], rfl, ?_, ?_, fun _ _ => rfl⟩
      · rw [hself]; simp [subF, hkc, hnil]
      · intro j hd hne; exact absurd (desc_leaf t gd c j hnil hd) hne

/-! ### the outer loop of `finish` -/

/-- state of `stmts` when the outer loop reaches index `i` -/
structure TInv (t : Tree) (i : Nat) (s : FState) : Prop where
  len : s.length = t.length
  done : ∀ j, parentOf t j = some 0 → j < i → s[j]? = some (subF t t.length j)
  below : ∀ a j, parentOf t a = some 0 → a < i → Desc t a j → j ≠ a → s[j]? = some none
  fresh : ∀ j, j < t.length → (∀ a, parentOf t a = some 0 → a < i → ¬ Desc t a j) → Fresh t s j

theorem subF_leaf (t : Tree) (f j : Nat) (k : Kind) (hk : kindAt t j = some k) (hnil : childrenOf t j = []) :
    subF t (f + 1) j = some (.mk k .nil) := by
  simp [subF, hk, hnil]

theorem tstep (t : Tree) (gd : Good t) (i : Nat) (s : FState) (hi0 : 0 < i) (hi : i < t.length) (inv : TInv t i s) :
    ∃ s', finishLoop t [i] s = some s' ∧ TInv t (i + 1) s' := by
  obtain ⟨kc, hkc⟩ := gd.kinds i hi0 hi
  obtain ⟨f0, hf0⟩ : ∃ f0, t.length = f0 + 1 := ⟨t.length - 1, by omega⟩
  by_cases htop : parentOf t i = some 0
  · have hfr : ∀ j, Desc t i j → Fresh t s j := by
      intro j hd
      exact inv.fresh j (desc_lt_len t i j hd hi)
        (fun a ha hai hda => desc_disjoint t gd a i 0 ha htop (by omega) j hda hd)
    have hsi : s[i]? = some (some (.mk kc .nil)) := by
      have := hfr i .refl
      unfold Fresh at this; rw [this, hkc]; rfl
    by_cases hch : hasChildren t i = true
    · obtain ⟨s', hp, d⟩ := pspec_all t gd t.length i s hi0 hi (by omega) hfr
      have happ : applyChildren t t.length i s = some s' := by simpa [proc, hch] using hp
      refine ⟨s', ?_, ?_⟩
      · simp [finishLoop, hsi, hch, happ]
      · refine ⟨by rw [d.len, inv.len], ?_, ?_, ?_⟩
        · intro j hj hji
          by_cases h : j = i
          · subst h; exact d.self
          · rw [d.frame j (fun hd => desc_disjoint t gd i j 0 htop hj (Ne.symm h) j hd .refl)]
            exact inv.done j hj (by omega)
        · intro a j ha hai hd hne
          by_cases h : a = i
          · subst h; exact d.below j hd hne
          · rw [d.frame j (fun hd' => desc_disjoint t gd a i 0 ha htop h j hd hd')]
            exact inv.below a j ha (by omega) hd hne
        · intro j hjl hno
          have hni : ¬ Desc t i j := hno i htop (by omega)
          have := inv.fresh j hjl (fun a ha hai => hno a ha (by omega))
          unfold Fresh at this ⊢
          rw [d.frame j hni]; exact this
    · have hch' : hasChildren t i = false := by simpa using hch
      have hnil : childrenOf t i = [] := by
        cases h : childrenOf t i with
        | nil => rfl
        | cons a as => simp [hasChildren, h] at hch'
      refine ⟨s, by simp [finishLoop, hch'], inv.len, ?_, ?_, ?_⟩
      · intro j hj hji
        by_cases h : j = i
        · subst h
          rw [hsi, hf0, subF_leaf t f0 j kc hkc hnil]
        · exact inv.done j hj (by omega)
      · intro a j ha hai hd hne
        by_cases h : a = i
        · subst h; exact absurd (desc_leaf t gd a j hnil hd) hne
        · exact inv.below a j ha (by omega) hd hne
      · intro j hjl hno; exact inv.fresh j hjl (fun a ha hai => hno a ha (by omega))
  · obtain ⟨a, ha, hd⟩ := top_exists t gd i hi0 hi
    have hai : a ≠ i := fun h => htop (h ▸ ha)
    have hlt : a < i := by have := desc_le t gd a i hd; omega
    have hsi : s[i]? = some none := inv.below a i ha hlt hd (Ne.symm hai)
    refine ⟨s, by simp [finishLoop, hsi], inv.len, ?_, ?_, ?_⟩
    · intro j hj hji
      have : j ≠ i := fun h => htop (h ▸ hj)
      exact inv.done j hj (by omega)
    · intro a' j ha' hai' hd' hne
      have : a' ≠ i := fun h => htop (h ▸ ha')
      exact inv.below a' j ha' (by omega) hd' hne
    · intro j hjl hno; exact inv.fresh j hjl (fun a' ha' hai' => hno a' ha' (by omega))

theorem trange (t : Tree) (gd : Good t) :
    ∀ (n i : Nat) (s : FState), 0 < i → i + n ≤ t.length → TInv t i s →
      ∃ s', finishLoop t (List.range' i n) s = some s' ∧ TInv t (i + n) s'
  | 0, i, s, _, _, inv => ⟨s, by simp [finishLoop], by simpa using inv⟩
  | n + 1, i, s, hi0, hle, inv => by
    obtain ⟨s1, h1, inv1⟩ := tstep t gd i s hi0 (by omega) inv
    obtain ⟨s2, h2, inv2⟩ := trange t gd n (i + 1) s1 (by omega) (by omega) inv1
    refine ⟨s2, ?_, ?_⟩
    · rw [List.range'_succ, finishLoop_cons, h1]
      exact h2
    · have : i + (n + 1) = i + 1 + n := by omega
      rw [this]; exact inv2

theorem no_top_zero (t : Tree) (gd : Good t) : parentOf t 0 ≠ some 0 := by
  intro h; have := gd.po 0 0 h; omega

theorem tinit (t : Tree) (gd : Good t) : TInv t 1 (t.map (fun r => r.stmt.map (Css.mk · .nil))) := by
  refine ⟨by simp, ?_, ?_, ?_⟩
  · intro j hj hj1
    have : j = 0 := by omega
    subst this; exact absurd hj (no_top_zero t gd)
  · intro a j ha ha1
    have : a = 0 := by omega
    subst this; exact absurd ha (no_top_zero t gd)
  · intro j hjl _
    have hr : t[j]? = some t[j] := by simp [hjl]
    simp [Fresh, kindAt, List.getElem?_map, hr]

/-- **`finish` returns the nested reading** of every well-formed index tree. -/
theorem finish_good (t : Tree) (gd : Good t) : finish t = some (nestedTop t) := by
  obtain ⟨s', hf, inv⟩ := trange t gd (t.length - 2) 1 _ (by omega) (by have := gd.pos; omega) (tinit t gd)
  have hidx : (List.range (t.length - 1)).drop 1 = List.range' 1 (t.length - 2) := by
    rw [List.range_eq_range', List.drop_range']
    congr 1 <;> omega
  unfold finish
  rw [hidx, hf]
  simp only [Option.map_some]
  congr 1
  have hcell : ∀ j, j < t.length →
      s'[j]? = some (if parentOf t j = some 0 then subF t t.length j else none) := by
    intro j hjl
    obtain ⟨f0, hf0⟩ : ∃ f0, t.length = f0 + 1 := ⟨t.length - 1, by omega⟩
    by_cases hj0 : j = 0
    · subst hj0
      rw [if_neg (no_top_zero t gd)]
      have := inv.fresh 0 hjl (fun a ha _ hd => by
        have := desc_le t gd a 0 hd
        have : a = 0 := by omega
        subst this; exact no_top_zero t gd ha)
      unfold Fresh at this
      rw [this, gd.root]; rfl
    · by_cases htop : parentOf t j = some 0
      · rw [if_pos htop]
        by_cases hji : j < 1 + (t.length - 2)
        · exact inv.done j htop hji
        · obtain ⟨kc, hkc⟩ := gd.kinds j (by omega) hjl
          have hnil : childrenOf t j = [] := by
            cases h : childrenOf t j with
            | nil => rfl
            | cons c cs =>
              exfalso
              have hc : c ∈ childrenOf t j := by simp [h]
              have := gd.cv j c hc
              have := gd.po c j (gd.cp j c hc)
              omega
          have := inv.fresh j hjl (fun a ha hai hd =>
            desc_disjoint t gd a j 0 ha htop (by omega) j hd .refl)
          unfold Fresh at this
          rw [this, hkc, hf0, subF_leaf t f0 j kc hkc hnil]; rfl
      · rw [if_neg htop]
        obtain ⟨a, ha, hd⟩ := top_exists t gd j (by omega) hjl
        have haj : a ≠ j := fun h => htop (h ▸ ha)
        have hlt : a < j := by have := desc_le t gd a j hd; omega
        exact inv.below a j ha (by omega) hd (Ne.symm haj)
  have hs' : s' = (List.range t.length).map
      (fun j => if parentOf t j = some 0 then subF t t.length j else none) := by
    apply List.ext_getElem?
    intro j
    by_cases hj : j < t.length
    · rw [hcell j hj]
      simp [List.getElem?_map, List.getElem?_range hj]
    · have h1 : s'[j]? = none := by rw [List.getElem?_eq_none]; rw [inv.len]; omega
      rw [h1, List.getElem?_eq_none]
      simp; omega
  rw [hs', List.filterMap_map]
  unfold nestedTop
  apply filterMap_congr'
  intro j _
  simp [Function.comp]

end Grass.CssTree
