import Grass.Serialize
/-
  Helper lemmas for C05 / C06: the well-formedness scanner (`run`, `N`), and `visit_quoted_string`
  (`quote`): its output is a closed string token (`quotedOk_quote`, `N_quote`) that reads back to the
  original string (`unescape_quote`).
-/
namespace Grass.Serialize
set_option linter.unusedSimpArgs false
set_option linter.unusedVariables false

/-! scanner basics -/

theorem run_append (s : Scan) (a b : Str) :
    run s (a ++ b) = (run s a).bind (fun s' => run s' b) := by
  induction a generalizing s with
  | nil => simp [run]
  | cons c cs ih =>
    simp only [List.cons_append, run]
    cases h : step s c with
    | none => simp
    | some s' => simp [ih]

/-- `N x`: the scanner reads `x` from "normal" back to "normal" at any depth, depth unchanged. -/
def N (x : Str) : Prop := ∀ d, run ⟨.normal, d⟩ x = some ⟨.normal, d⟩

theorem N_nil : N [] := fun _ => rfl

theorem N_append {a b : Str} (ha : N a) (hb : N b) : N (a ++ b) := by
  intro d; rw [run_append, ha d]; simp [hb d]

theorem step_shift (m m' : Mode) (d d' k : Nat) (c : Char)
    (h : step ⟨m, d⟩ c = some ⟨m', d'⟩) : step ⟨m, d + k⟩ c = some ⟨m', d' + k⟩ := by
  cases m <;> simp only [step, stepNormal] at h ⊢ <;> (repeat' split at h) <;> simp_all <;> omega

theorem run_shift (x : Str) (m m' : Mode) (d d' k : Nat)
    (h : run ⟨m, d⟩ x = some ⟨m', d'⟩) : run ⟨m, d + k⟩ x = some ⟨m', d' + k⟩ := by
  induction x generalizing m d with
  | nil => simp [run] at h ⊢; obtain ⟨h1, h2⟩ := h; subst h1; subst h2; exact ⟨rfl, rfl⟩
  | cons c cs ih =>
    simp only [run] at h ⊢
    cases hs : step ⟨m, d⟩ c with
    | none => simp [hs] at h
    | some s' =>
      obtain ⟨m1, d1⟩ := s'
      rw [hs] at h
      rw [step_shift m m1 d d1 k c hs]
      exact ih m1 d1 h

theorem N_of_neutral {x : Str} (h : neutral x = true) : N x := by
  intro d
  have := run_shift x .normal .normal 0 0 d (by simpa [neutral] using h)
  simpa using this


theorem quoteFlags_spec (s : Str) (hs hd r : Bool) (h : quoteFlags hs hd s = some r)
    (h0 : (hs && hd) = false) :
    r = (hd || s.contains '"') ∧ ((hs || s.contains '\'') && r) = false := by
  induction s generalizing hs hd with
  | nil => simp [quoteFlags] at h; subst h; simp_all
  | cons c cs ih =>
    simp only [quoteFlags] at h
    by_cases h1 : c = '\''
    · subst h1
      simp at h
      obtain ⟨hdf, h⟩ := h
      have := ih true hd h (by simp [hdf])
      simp_all
    · by_cases h2 : c = '"'
      · subst h2
        simp at h
        obtain ⟨hsf, h⟩ := h
        have := ih hs true h (by simp [hsf])
        simp_all
      · simp [h1, h2] at h
        have := ih hs hd h h0
        have e1 : ('"' == c) = false := by simp; exact fun h => h2 h.symm
        have e2 : ('\'' == c) = false := by simp; exact fun h => h1 h.symm
        simp only [List.contains_cons, e1, e2, Bool.false_or]
        exact this


theorem hexCharFor_facts : ∀ n, n < 16 →
    hexCharFor n ≠ '"' ∧ hexCharFor n ≠ '\'' ∧ hexCharFor n ≠ '\\' ∧ hexCharFor n ≠ '\n' ∧
    isEscapedControl (hexCharFor n) = false ∧ isAsciiHexDigit (hexCharFor n) = true ∧
    hexVal (hexCharFor n) = n := by decide

theorem ctl_lt (c : Char) (h : isEscapedControl c = true) : c.toNat < 32 := by
  simp [isEscapedControl] at h; omega

theorem ec_sp : isEscapedControl ' ' = false := by decide
theorem ec_dq : isEscapedControl '"' = false := by decide
theorem ec_sq : isEscapedControl '\'' = false := by decide
theorem ec_bs : isEscapedControl '\\' = false := by decide

def isQuoteChar (q : Char) : Prop := q = '"' ∨ q = '\''

/-- Bytes of one character never contain a raw quote `q`, control character or lone backslash. -/
theorem quotedBodyOk_escChar (q : Char) (hq : isQuoteChar q) (force : Bool) (c : Char) (next : Option Char)
    (rest : Str) (hc : c = q → force = true ∧ q = '"') :
    quotedBodyOk q false (escChar force c next ++ rest) = quotedBodyOk q false rest := by
  unfold escChar
  by_cases h1 : c = '\''
  · subst h1
    have : q ≠ '\'' := by
      intro hh; have := hc hh.symm; rw [this.2] at hh; exact absurd hh (by decide)
    have hq' : q = '"' := by rcases hq with h | h; exact h; exact absurd h this
    subst hq'
    simp [quotedBodyOk, ec_sp, ec_dq, ec_sq, ec_bs]
  · by_cases h2 : c = '"'
    · subst h2
      cases force
      · have : q ≠ '"' := by intro hh; have := hc hh.symm; simp at this
        have hq' : q = '\'' := by rcases hq with h | h; exact absurd h this; exact h
        subst hq'
        simp [quotedBodyOk, ec_sp, ec_dq, ec_sq, ec_bs]
      · simp [quotedBodyOk, ec_sp, ec_dq, ec_sq, ec_bs]
    · simp only [h1, h2, if_false]
      by_cases h3 : isEscapedControl c = true
      · simp only [h3, if_true, controlEscape]
        have hlt := ctl_lt c h3
        have f1 := hexCharFor_facts (c.toNat / 16) (by omega)
        have f2 := hexCharFor_facts (c.toNat % 16) (by omega)
        have hqc : ∀ x, x ≠ '"' → x ≠ '\'' → x ≠ q := by
          intro x a b; rcases hq with h | h <;> subst h <;> assumption
        have g1 := hqc _ f1.1 f1.2.1
        have g2 := hqc _ f2.1 f2.2.1
        have gs : (' ' : Char) ≠ q := hqc _ (by decide) (by decide)
        by_cases h16 : c.toNat > 15 <;> cases next with
        | none => simp [quotedBodyOk, h16, f1, f2, g1, g2]
        | some n =>
          by_cases hn : (isAsciiHexDigit n || n = ' ' || n = '\t') = true
          · simp [quotedBodyOk, h16, f1, f2, g1, g2, hn, gs, ec_sp]
          · simp [quotedBodyOk, h16, f1, f2, g1, g2, hn]
      · by_cases h4 : c = '\\'
        · subst h4; simp [quotedBodyOk, ec_sp, ec_dq, ec_sq, ec_bs]
        · have : c ≠ q := by rcases hq with h | h <;> subst h <;> assumption
          simp [quotedBodyOk, h3, h4, this]



theorem quotedBodyOk_escBody (q : Char) (hq : isQuoteChar q) (force : Bool) (s : Str)
    (hs : ∀ c ∈ s, c = q → force = true ∧ q = '"') (rest : Str) :
    quotedBodyOk q false (escBody force s ++ rest) = quotedBodyOk q false rest := by
  induction s with
  | nil => simp [escBody]
  | cons c cs ih =>
    simp only [escBody, List.append_assoc]
    rw [quotedBodyOk_escChar q hq force c _ _ (hs c (by simp))]
    exact ih (fun c hc => hs c (by simp [hc]))

theorem quotedBodyOk_nil (q : Char) : quotedBodyOk q false [] = true := by simp [quotedBodyOk]

/-- The token written by `visit_quoted_string` is `q … q` with no raw `q`, control character or
    lone backslash in between. -/
theorem quotedOk_quote (s : Str) : quotedOk (quote s) = true := by
  unfold quote
  cases h : quoteFlags false false s with
  | none =>
    have hb := quotedBodyOk_escBody '"' (Or.inl rfl) true s (fun _ _ _ => ⟨rfl, rfl⟩) []
    simp only [List.append_nil] at hb
    simp [quotedOk, hb, quotedBodyOk_nil, List.getLast?_append, List.dropLast_concat]
  | some hd =>
    have sp := quoteFlags_spec s false false hd h rfl
    simp at sp
    cases hd
    · -- no double quote in s: quote is `"`
      have hno : ∀ c ∈ s, c = '"' → false = true ∧ '"' = '"' := by
        intro c hc e; subst e; exact absurd hc (by simpa using sp.1)
      have hb := quotedBodyOk_escBody '"' (Or.inl rfl) false s hno []
      simp only [List.append_nil] at hb
      simp [quotedOk, hb, quotedBodyOk_nil, List.getLast?_append, List.dropLast_concat]
    · have hno : ∀ c ∈ s, c = '\'' → false = true ∧ '\'' = '"' := by
        intro c hc e; subst e; exact absurd hc (by simpa using sp.2)
      have hb := quotedBodyOk_escBody '\'' (Or.inr rfl) false s hno []
      simp only [List.append_nil] at hb
      simp [quotedOk, hb, quotedBodyOk_nil, List.getLast?_append, List.dropLast_concat]



theorem nl_ctl : isEscapedControl '\n' = true := by decide

theorem run_quotedBody (q : Char) (hq : isQuoteChar q) (b : Str) (esc : Bool) (d : Nat)
    (h : quotedBodyOk q esc b = true) :
    run ⟨if esc then .strEsc q else .str q, d⟩ (b ++ [q]) = some ⟨.normal, d⟩ := by
  have hqb : q ≠ '\\' := by rcases hq with h | h <;> subst h <;> decide
  induction b generalizing esc with
  | nil =>
    cases esc
    · simp [run, step, hqb]
    · simp [quotedBodyOk] at h
  | cons c cs ih =>
    cases esc
    · simp only [quotedBodyOk] at h
      by_cases hc : c = '\\'
      · subst hc
        simp at h
        have := ih true h
        simpa [run, step] using this
      · simp only [hc, if_false] at h
        by_cases hc2 : (c = q ∨ isEscapedControl c = true)
        · simp [hc2] at h
        · have hne : c ≠ q := fun e => hc2 (Or.inl e)
          have hnl : c ≠ '\n' := fun e => hc2 (Or.inr (e ▸ nl_ctl))
          have hh : quotedBodyOk q false cs = true := by
            have : ¬ (c = q ∨ isEscapedControl c = true) := hc2
            simp only [not_or] at this
            simpa [this.1, this.2] using h
          have := ih false hh
          simpa [run, step, hc, hne, hnl] using this
    · simp only [quotedBodyOk, Bool.and_eq_true] at h
      have := ih false h.2
      simpa [run, step] using this

theorem N_of_quotedOk (tok : Str) (h : quotedOk tok = true) : N tok := by
  intro d
  cases tok with
  | nil => simp [quotedOk] at h
  | cons q rest =>
    simp only [quotedOk, Bool.and_eq_true, decide_eq_true_eq, Bool.or_eq_true] at h
    obtain ⟨⟨⟨hq, hl⟩, hlen⟩, hb⟩ := h
    have hq' : isQuoteChar q := hq
    have hrest : rest = rest.dropLast ++ [q] := by
      obtain ⟨ys, hys⟩ := List.getLast?_eq_some_iff.mp hl
      rw [hys, List.dropLast_concat]
    rw [hrest]
    have := run_quotedBody q hq' rest.dropLast false d hb
    rcases hq with e | e <;> subst e <;> simpa [run, step, stepNormal] using this

/-- Every quoted string is read by the scanner as one closed string token. -/
theorem N_quote (s : Str) : N (quote s) := N_of_quotedOk _ (quotedOk_quote s)



/-! round trip: `unescape (quote s) = some s` -/

def startsSafe : Str → Prop
  | [] => True
  | e :: _ => isAsciiHexDigit e = false ∧ e ≠ ' ' ∧ e ≠ '\t' ∧ e ≠ '\n'

theorem unescapeBody_nil : unescapeBody [] = [] := by simp [unescapeBody, unesc]

theorem unescapeBody_cons_ne (c : Char) (cs : Str) (h : c ≠ '\\') :
    unescapeBody (c :: cs) = c :: unescapeBody cs := by cases cs <;> simp [unescapeBody, unesc, h]

theorem unescapeBody_esc_nonhex (d : Char) (ds : Str) (h : isAsciiHexDigit d = false) :
    unescapeBody ('\\' :: d :: ds) = d :: unescapeBody ds := by cases ds <;> simp [unescapeBody, unesc, h]

theorem unescapeBody_esc_hex (d : Char) (ds : Str) (h : isAsciiHexDigit d = true) :
    unescapeBody ('\\' :: d :: ds) = hexRun 5 (hexVal d) ds := by cases ds <;> simp [unescapeBody, hexRun, unesc, h]

theorem hexRun_nil (k acc : Nat) : hexRun k acc [] = [Char.ofNat acc] := by simp [hexRun, unesc]

theorem hexRun_hex (k acc : Nat) (c : Char) (cs : Str) (h : isAsciiHexDigit c = true) :
    hexRun (k + 1) acc (c :: cs) = hexRun k (acc * 16 + hexVal c) cs := by cases cs <;> simp [hexRun, unesc, h]

theorem hexRun_stop (k acc : Nat) (r : Str) (h : startsSafe r) :
    hexRun k acc r = Char.ofNat acc :: unescapeBody r := by
  cases r with
  | nil => simp [hexRun, unescapeBody, unesc]
  | cons e r' =>
    obtain ⟨h1, h2, h3, h4⟩ := h
    by_cases hb : e = '\\'
    · subst hb
      cases r' <;> simp [hexRun, unescapeBody, unesc, h1]
    · cases r' <;> simp [hexRun, unescapeBody, unesc, h1, h2, h3, h4, hb]

theorem hexRun_space (k acc : Nat) (r : Str) :
    hexRun k acc (' ' :: r) = Char.ofNat acc :: unescapeBody r := by
  have : isAsciiHexDigit ' ' = false := by decide
  cases r <;> simp [hexRun, unescapeBody, unesc, this]

theorem hx_sq : isAsciiHexDigit '\'' = false := by decide
theorem hx_dq : isAsciiHexDigit '"' = false := by decide
theorem hx_bs : isAsciiHexDigit '\\' = false := by decide

/-- The separating space of `controlEscape`. -/
def ctlSpace (next : Option Char) : Str :=
  match next with
  | some n => if isAsciiHexDigit n || n = ' ' || n = '\t' then [' '] else []
  | none => []

theorem controlEscape_eq (c : Char) (next : Option Char) :
    controlEscape c next =
      '\\' :: ((if c.toNat > 0xF then [hexCharFor (c.toNat / 16)] else []) ++ hexCharFor (c.toNat % 16) :: ctlSpace next) := by
  cases next <;> simp [controlEscape, ctlSpace]

theorem escBody_startsSafe (force : Bool) (d : Char) (cs : Str)
    (h : (isAsciiHexDigit d || d = ' ' || d = '\t') = false) :
    startsSafe (escBody force (d :: cs)) := by
  simp only [Bool.or_eq_false_iff, decide_eq_false_iff_not] at h
  obtain ⟨⟨h1, h2⟩, h3⟩ := h
  simp only [escBody, escChar]
  by_cases a : d = '\''
  · subst a; simp [startsSafe, hx_sq]
  · by_cases b : d = '"'
    · subst b; cases force <;> simp [startsSafe, hx_dq, hx_bs]
    · by_cases c : isEscapedControl d = true
      · simp [a, b, c, controlEscape_eq, startsSafe, hx_bs]
      · by_cases e : d = '\\'
        · subst e; simp [startsSafe, hx_bs, ec_bs]
        · have : d ≠ '\n' := fun x => c (x ▸ nl_ctl)
          simp [a, b, c, e, startsSafe, h1, h2, h3, this]

theorem char_ofNat_split (c : Char) : Char.ofNat (c.toNat / 16 * 16 + c.toNat % 16) = c := by
  have : c.toNat / 16 * 16 + c.toNat % 16 = c.toNat := by omega
  rw [this]; exact Char.ofNat_toNat c

theorem sq_ne_bs : ('\'' : Char) ≠ '\\' := by decide
theorem dq_ne_bs : ('"' : Char) ≠ '\\' := by decide

theorem unescapeBody_escBody (force : Bool) (s : Str) : unescapeBody (escBody force s) = s := by
  induction s with
  | nil => simp [escBody, unescapeBody_nil]
  | cons c cs ih =>
    simp only [escBody, escChar]
    by_cases a : c = '\''
    · subst a; simp only [if_true, List.singleton_append]; rw [unescapeBody_cons_ne _ _ sq_ne_bs, ih]
    · by_cases b : c = '"'
      · subst b
        cases force
        · simp only [a, if_true, if_false, List.singleton_append, Bool.false_eq_true]
          rw [unescapeBody_cons_ne _ _ dq_ne_bs, ih]
        · simp only [a, if_true, if_false, List.cons_append, List.nil_append]
          rw [unescapeBody_esc_nonhex _ _ hx_dq, ih]
      · by_cases ct : isEscapedControl c = true
        · simp only [a, b, ct, if_true, if_false, controlEscape_eq]
          have hlt := ctl_lt c ct
          have f1 := hexCharFor_facts (c.toNat / 16) (by omega)
          have f2 := hexCharFor_facts (c.toNat % 16) (by omega)
          have tail : ∀ (k acc : Nat),
              hexRun k acc (ctlSpace cs.head? ++ escBody force cs) = Char.ofNat acc :: cs := by
            intro k acc
            cases cs with
            | nil => simp [escBody, hexRun_nil, ctlSpace]
            | cons n cs' =>
              by_cases hn : (isAsciiHexDigit n || n = ' ' || n = '\t') = true
              · simp only [ctlSpace, List.head?_cons, hn, if_true, List.singleton_append]
                rw [hexRun_space, ih]
              · have hn' : (isAsciiHexDigit n || n = ' ' || n = '\t') = false := by simpa using hn
                simp only [ctlSpace, List.head?_cons, hn', Bool.false_eq_true, if_false, List.nil_append]
                rw [hexRun_stop _ _ _ (escBody_startsSafe force n cs' hn'), ih]
          by_cases h16 : c.toNat > 15
          · simp only [h16, if_true, List.cons_append, List.nil_append, List.append_assoc]
            rw [unescapeBody_esc_hex _ _ f1.2.2.2.2.2.1, hexRun_hex _ _ _ _ f2.2.2.2.2.2.1, tail,
              f1.2.2.2.2.2.2, f2.2.2.2.2.2.2, char_ofNat_split]
          · simp only [h16, if_false, List.cons_append, List.nil_append, List.append_assoc]
            rw [unescapeBody_esc_hex _ _ f2.2.2.2.2.2.1, tail, f2.2.2.2.2.2.2]
            have : c.toNat % 16 = c.toNat := by omega
            rw [this, Char.ofNat_toNat]
        · by_cases e : c = '\\'
          · subst e
            simp only [a, b, ct, if_true, if_false, Bool.false_eq_true, List.cons_append, List.nil_append]
            rw [unescapeBody_esc_nonhex _ _ hx_bs, ih]
          · simp only [a, b, ct, e, if_false, Bool.false_eq_true, List.singleton_append]
            rw [unescapeBody_cons_ne _ _ e, ih]

/-- Reading back what `visit_quoted_string` wrote gives the original string. -/
theorem unescape_quote (s : Str) : unescape (quote s) = some s := by
  unfold quote
  cases h : quoteFlags false false s with
  | none => simp [unescape, List.getLast?_append, List.dropLast_concat, unescapeBody_escBody]
  | some hd => cases hd <;> simp [unescape, List.getLast?_append, List.dropLast_concat, unescapeBody_escBody]

end Grass.Serialize
